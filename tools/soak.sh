#!/bin/bash
# Soak: run every quick check at many seeds and report every run that does not exit 0.
# usage: tools/soak.sh <first-seed> <last-seed> [props...]
first=${1:-1}; last=${2:-10}; shift 2
props=${@:-C01 C02 C03 C04 C05 C06 C07 C08 C09 C10 C11 C12 C13 C14 C15 C16 C17 C18 C19 C20}
export VERIF_OUT_DIR=$(mktemp -d /tmp/verif-soak-XXXX)
bad=0
for s in $(seq $first $last); do
  for p in $props; do
    out=$(VERIF_SEED=$s ./check $p quick 2>&1); rc=$?
    if [ $rc -ne 0 ]; then bad=$((bad+1)); echo "=== seed $s $p rc=$rc"; echo "$out" | tail -15; fi
  done
  echo "seed $s done (bad so far: $bad)"
done
rm -rf "$VERIF_OUT_DIR"
echo "soak finished: $bad bad runs"
