#!/bin/bash
# Confirms a seeded change independently, in a scratch worktree of /repo (removed afterwards):
#   1. the demonstration passes on the unchanged tree
#   2. the patch applies, the module builds, the existing tests of the touched packages pass
#   3. the demonstration fails with the patch
# SEED_SKIP=<regexp>: existing tests that already fail/hang on the unchanged tree (BASELINE.json flaky / always_fail) are skipped
# usage: tools/verify_seed.sh <dir with patch.diff + demo_test.go> <package dir of the demo, relative to the repo> [extra go test args]
set -u
src=$(realpath "$1"); pkg=$2; shift 2
export GOFLAGS=-mod=readonly GOPROXY=off GOSUMDB=off GOTOOLCHAIN=local
wt=$(mktemp -d /tmp/verif-seedcheck-XXXX); rmdir "$wt"
git -C /repo worktree add -q --detach "$wt" HEAD || exit 2
trap 'git -C /repo worktree remove --force "$wt" >/dev/null 2>&1; rm -rf "$wt"' EXIT
cd "$wt"
cp "$src/demo_test.go" "$pkg/zz_seed_demo_test.go"
echo "--- demo on the unchanged tree (must pass)"
go test -vet=off -count=1 -timeout 300s -run 'Seed|seed|ZZ|Zz' "$@" "./$pkg" 2>&1 | tail -5; r1=${PIPESTATUS[0]}
echo "--- apply patch"
git apply "$src/patch.diff" || { echo "PATCH DOES NOT APPLY"; exit 2; }
touched=$(git diff --name-only | xargs -n1 dirname | sort -u)
go build ./... 2>&1 | tail -5; rb=${PIPESTATUS[0]}
echo "--- existing tests of touched packages: $touched"
rt=0
for d in $touched; do
  # the demonstration is excluded: only the repository's own tests count here
  mv "$pkg/zz_seed_demo_test.go" /tmp/zz_seed_demo_test.go.$$ 2>/dev/null
  timeout 1500 go test -vet=off -count=1 -timeout 20m ${SEED_SKIP:+-skip "$SEED_SKIP"} "./$d" 2>&1 | tail -4; x=${PIPESTATUS[0]}
  mv /tmp/zz_seed_demo_test.go.$$ "$pkg/zz_seed_demo_test.go" 2>/dev/null
  [ $x -ne 0 ] && rt=$x
done
echo "--- demo with the patch (must fail)"
go test -vet=off -count=1 -timeout 300s -run 'Seed|seed|ZZ|Zz' "$@" "./$pkg" 2>&1 | tail -8; r2=${PIPESTATUS[0]}
echo "RESULT demo_unchanged_rc=$r1 build_rc=$rb existing_tests_rc=$rt demo_patched_rc=$r2"
if [ $r1 -eq 0 ] && [ $rb -eq 0 ] && [ $rt -eq 0 ] && [ $r2 -ne 0 ]; then echo "SEED CONFIRMED"; exit 0; fi
echo "SEED NOT CONFIRMED"; exit 1
