#!/usr/bin/env python3
"""Confirms a sub-agent's seeded change (tools/verify_seed.sh) and, if confirmed, files it under
seeded/<id>/ (patch.diff, demo_test.go, notes.md, meta.json).
  tools/ingest_seed.py <Cxx> <a|b> "<what it needs in order to manifest>" [srcdir]
"""
import json, os, re, shutil, subprocess, sys
ROOT = os.path.dirname(os.path.dirname(os.path.abspath(__file__)))
prop, var, needs = sys.argv[1], sys.argv[2], sys.argv[3]
src = sys.argv[4] if len(sys.argv) > 4 else "/tmp/seed-%s/_seed/%s" % (prop, var)
first = open(os.path.join(src, "demo_test.go"), errors="replace").readline()
m = re.search(r"place in\s+([A-Za-z0-9_./-]+)", first)
if not m:
    sys.exit("cannot read the package dir from the first line of demo_test.go: %r" % first)
pkg = m.group(1).strip().rstrip("/")
if pkg.endswith(".go"):
    pkg = os.path.dirname(pkg)
p = subprocess.run([os.path.join(ROOT, "tools", "verify_seed.sh"), src, pkg], stdout=subprocess.PIPE, stderr=subprocess.STDOUT, text=True, errors="replace")
tail = p.stdout[-1500:]
print(tail)
if p.returncode != 0 or "SEED CONFIRMED" not in p.stdout:
    sys.exit("NOT CONFIRMED: %s-%s" % (prop, var))
sid = "%s-%s" % (prop, var)
dst = os.path.join(ROOT, "seeded", sid)
os.makedirs(dst, exist_ok=True)
for f in ("patch.diff", "demo_test.go", "notes.md"):
    if os.path.exists(os.path.join(src, f)):
        shutil.copy(os.path.join(src, f), os.path.join(dst, f))
res = re.search(r"RESULT (.*)", p.stdout)
files = sorted(set(re.findall(r"^\+\+\+ b/(\S+)", open(os.path.join(src, "patch.diff"), errors="replace").read(), re.M)))
meta = {
    "id": sid, "property": prop, "source": "independent sub-agent (saw only the property text and a scratch worktree)",
    "files_changed": files, "demo_package": pkg,
    "needs_to_manifest": needs,
    "confirmed_by": "tools/verify_seed.sh in a scratch worktree of /repo HEAD %s: demo passes unchanged, patch applies and builds, existing tests of the touched packages pass, demo fails with the patch" % subprocess.run(["git", "-C", "/repo", "rev-parse", "--short", "HEAD"], stdout=subprocess.PIPE, text=True).stdout.strip(),
    "verify_result": res.group(1) if res else "",
}
json.dump(meta, open(os.path.join(dst, "meta.json"), "w"), indent=1)
print("filed", dst)
