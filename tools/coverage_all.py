#!/usr/bin/env python3
"""Coverage audit over all properties (development aid): for each property, the harness package is built with
coverage of the repository packages its anchors name; prints functions of the ANCHORED FILES below 100%.
usage: tools/coverage_all.py [Cxx ...]"""
import json, os, subprocess, sys
ROOT = os.path.dirname(os.path.dirname(os.path.abspath(__file__)))
sys.path.insert(0, ROOT)
from props import PROPS
want = sys.argv[1:]
for l in open(os.path.join(ROOT, "properties.jsonl")):
    d = json.loads(l)
    if want and d["id"] not in want:
        continue
    files = d["anchors"]["files"]
    pkgs = sorted({"github.com/pinealctx/neptune/" + os.path.dirname(f) for f in files})
    p = subprocess.run([os.path.join(ROOT, "tools", "coverage.sh"), PROPS[d["id"]]["pkg"], ",".join(pkgs)], stdout=subprocess.PIPE, stderr=subprocess.STDOUT, text=True)
    print("=== %s (%s)" % (d["id"], PROPS[d["id"]]["pkg"]))
    for line in p.stdout.splitlines():
        if any(("neptune/" + f + ":") in line for f in files) or not line.startswith("github.com"):
            print("  " + line.replace("github.com/pinealctx/neptune/", ""))
