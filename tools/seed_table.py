#!/usr/bin/env python3
"""Prints the markdown table "seed | caught by" for the given variants (e.g. `tools/seed_table.py e f`)
from seeded/<id>/meta.json (field `title`, else needs_to_manifest) and result-quick.json."""
import json, os, re, sys
ROOT = os.path.dirname(os.path.dirname(os.path.abspath(__file__)))
vs = sys.argv[1:] or ["a", "b"]
rows = []
for i in range(1, 21):
    cells = []
    for v in vs:
        sid = "C%02d-%s" % (i, v)
        d = os.path.join(ROOT, "seeded", sid)
        if not os.path.isdir(d):
            cells += ["", ""]
            continue
        m = json.load(open(os.path.join(d, "meta.json")))
        try:
            r = json.load(open(os.path.join(d, "result-quick.json")))
        except Exception:
            r = {}
        title = m.get("title") or m["needs_to_manifest"]
        title = re.sub(r"\s+", " ", title)
        if len(title) > 150:
            title = title[:147] + "..."
        w = r.get("where", "")
        mm = re.match(r"(\S+) at ([^:]+):", w)
        by = "%s %s / %s" % (r.get("check", r.get("property", m["property"])), mm.group(1), mm.group(2)) if mm else ("MISSED" if not r.get("caught") else w[:60])
        cells += ["%s %s" % (sid, title.replace("|", "/")), by]
    rows.append("| " + " | ".join(cells) + " |")
print("| seed | caught by | seed | caught by |\n|---|---|---|---|")
print("\n".join(rows))
