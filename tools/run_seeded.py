#!/usr/bin/env python3
"""Runs the registered checks against a seeded change: applies seeded/<id>/patch.diff to /repo,
runs `./check <prop> <tier>` for the property it breaks (evidence and replays redirected), and
restores /repo straight afterwards (git checkout -- . ; also on errors).

  tools/run_seeded.py <id> [tier] [--in-repo]      e.g. tools/run_seeded.py C01-a quick
  tools/run_seeded.py --all [tier] [--in-repo]
Default: the patch is applied in a scratch worktree whose changed files are laid over /repo with a build
overlay (identical build, /repo untouched, safe while other runs read /repo). --in-repo applies it with
`git -C /repo apply` and restores with `git -C /repo checkout -- .` straight afterwards.
Writes seeded/<id>/result-<tier>.json and prints one line per change.
"""
import json, os, subprocess, sys, tempfile, shutil, time
ROOT = os.path.dirname(os.path.dirname(os.path.abspath(__file__)))

def run_one(sid, tier, in_repo=False):
    d = os.path.join(ROOT, "seeded", sid)
    meta = json.load(open(os.path.join(d, "meta.json")))
    prop = meta["property"]
    checks = meta.get("checks") or [prop]
    out = tempfile.mkdtemp(prefix="verif-seeded-")
    env = dict(os.environ, VERIF_OUT_DIR=out)
    wt = None
    try:
        if in_repo:
            st = subprocess.run(["git", "-C", "/repo", "status", "--porcelain"], stdout=subprocess.PIPE, text=True).stdout.strip()
            if st:
                print("refusing: /repo is not clean:\n" + st); return 2
            if subprocess.run(["git", "-C", "/repo", "apply", os.path.join(d, "patch.diff")]).returncode != 0:
                print("%s: patch does not apply" % sid); return 2
        else:
            # same build, without touching /repo (other runs may be reading it): the patched files of a
            # scratch worktree are laid over /repo through `go test -overlay`
            wt = tempfile.mkdtemp(prefix="verif-seedwt-"); os.rmdir(wt)
            subprocess.run(["git", "-C", "/repo", "worktree", "add", "-q", "--detach", wt, "HEAD"], check=True)
            if subprocess.run(["git", "-C", wt, "apply", os.path.join(d, "patch.diff")]).returncode != 0:
                print("%s: patch does not apply" % sid); return 2
            ch = subprocess.run(["git", "-C", wt, "status", "--porcelain", "-uall"], stdout=subprocess.PIPE, text=True).stdout.splitlines()
            repl = {}
            for line in ch:
                f = line[3:].strip()
                repl[os.path.join("/repo", f)] = "" if line[:2].strip() == "D" else os.path.join(wt, f)
            ov = os.path.join(out, "overlay.json")
            json.dump({"Replace": repl}, open(ov, "w"))
            env["VERIF_OVERLAY"] = ov
        t0 = time.time()
        # a change may be caught by the check of another property that covers the same code (meta "checks")
        for chk in checks:
            p = subprocess.run([os.path.join(ROOT, "check"), chk, tier], cwd=ROOT, env=env,
                               stdout=subprocess.PIPE, stderr=subprocess.STDOUT, text=True)
            if p.returncode == 1 and ("VIOLATION property=%s" % chk) in p.stdout:
                prop = chk
                break
        dt = time.time() - t0
    finally:
        if in_repo:
            subprocess.run(["git", "-C", "/repo", "checkout", "--", "."])
        if wt:
            subprocess.run(["git", "-C", "/repo", "worktree", "remove", "--force", wt])
            shutil.rmtree(wt, ignore_errors=True)
    caught = p.returncode == 1 and ("VIOLATION property=%s" % prop) in p.stdout
    where = ""
    for line in p.stdout.splitlines():
        if line.startswith("--- "):
            where = line[4:300]
    replay = None
    for line in p.stdout.splitlines():
        if line.startswith("VIOLATION"):
            rp = line.split("replay=")[-1].strip()
            if os.path.exists(rp):
                replay = open(rp).read()[:4000]
    res = {"id": sid, "property": prop, "tier": tier, "caught": caught, "exit": p.returncode, "seconds": round(dt, 1), "where": where, "replay_excerpt": replay}
    json.dump(res, open(os.path.join(d, "result-%s.json" % tier), "w"), indent=1)
    print("%-10s %-4s %-8s %s exit=%d %.0fs %s" % (sid, prop, tier, "CAUGHT" if caught else "MISSED", p.returncode, dt, where[:110]), flush=True)
    if not caught:
        print(p.stdout[-1200:])
    shutil.rmtree(out, ignore_errors=True)
    return 0 if caught else 1

def main():
    in_repo = "--in-repo" in sys.argv
    if in_repo:
        sys.argv.remove("--in-repo")
    tier = sys.argv[2] if len(sys.argv) > 2 else "quick"
    if sys.argv[1] == "--all":
        ids = sorted(x for x in os.listdir(os.path.join(ROOT, "seeded")) if os.path.exists(os.path.join(ROOT, "seeded", x, "meta.json")))
    else:
        ids = [sys.argv[1]]
    bad = 0
    for sid in ids:
        bad += 1 if run_one(sid, tier, in_repo) != 0 else 0
    print("%d seeded changes, %d not caught at tier %s" % (len(ids), bad, tier))
    return 1 if bad else 0

if __name__ == "__main__":
    sys.exit(main())
