#!/usr/bin/env python3
"""Regenerates MANIFEST.json from props.py (the single source of per-property configuration)."""
import json, os, subprocess, sys
ROOT = os.path.dirname(os.path.dirname(os.path.abspath(__file__)))
sys.path.insert(0, ROOT)
from props import CLAIMED as PROPS, HOOK_COMMITS, PENDING

ids = [json.loads(l)["id"] for l in open(os.path.join(ROOT, "properties.jsonl"))]
checks = []
for pid in ids:
    c = PROPS.get(pid)
    if not c:
        continue
    engines = ["rapid-harness"]
    checks.append({
        "property_id": pid,
        "quick_cmd": "./check %s quick" % pid,
        "thorough_cmd": "./check %s thorough" % pid,
        "evidence_file": "/verif/evidence/%s.json" % pid,
        "replay_cmd_template": "./check %s --replay {path}" % pid,
        "engine": "rapid-harness",
        "level_claimed": {"category": c.get("level", "exploration"), "text": c["text"], "design_ref": "DESIGN.md §3 " + pid},
        "level_note": c["note"],
        "technique": c["technique"],
    })
na = [{"property_id": pid, "reason": PENDING.get(pid, "check not built yet in this session (work in progress; see DESIGN.md §6)")} for pid in ids if pid not in PROPS]
m = {
    "version": 1,
    "setup_cmd": "./check --setup",
    "hooks": {
        "guard": "verif",
        "enable": "go test -tags verif (run from /verif/harness, whose go.mod has `replace github.com/pinealctx/neptune => /repo`)",
        "baseline_off_cmd": "cd /repo && go test -vet=off -count=1 -timeout 25m ./...",
        "source_commits": HOOK_COMMITS,
        "add_only": True,
    },
    "engines": [
        {"name": "rapid-harness", "path": "/verif/harness", "serves_properties": [c["property_id"] for c in checks],
         "kind_free_text": "pgregory.net/rapid v1.3.0 generators + explicit oracles (reference models, round trips, differentials, history invariants); cases are plain JSON values, shrunk by rapid and replayed without it; driver /verif/check shards by seed"},
        {"name": "go-native-fuzz", "path": "/verif/harness", "serves_properties": [p for p in ids if p in PROPS and PROPS[p].get("fuzz")],
         "kind_free_text": "go test -fuzz, thorough tier only, bounded campaigns with and without a seed corpus; the semantic oracle runs inside the target"},
        {"name": "sched-quiescence", "path": "/verif/harness/vkit/sched.go", "serves_properties": [p for p in ids if p in PROPS and PROPS[p].get("sched")],
         "kind_free_text": "controller-owned API-level schedules; liveness verdicts from a stop-the-world goroutine-state cut, never from a timeout"},
    ],
    "checks": checks,
    "not_applicable": na,
    "notes": "All checks are property-based tests / fuzzing (rapid v1.3.0, native go fuzz) against explicit oracles. Mutant sensitivity runs: tools/run_mutants.py; seeded changes from independent sub-agents: seeded/.",
}
json.dump(m, open(os.path.join(ROOT, "MANIFEST.json"), "w"), indent=1)
print("MANIFEST.json: %d checks, %d not_applicable" % (len(checks), len(na)))
