#!/usr/bin/env python3
"""Sensitivity protocol: apply each recorded mutant of a property through `go test -overlay`
(no edit of /repo), run the quick check, and require exit 1 with a replay file.

  tools/run_mutants.py C08 [name-substring]      -> table on stdout, mutants/results/C08.json

A mutant is {"name", "file" (relative to /repo), "old", "new", optional "nth" (which occurrence,
1-based; default: the only one)}.  Mutants live in mutants/<Cxx>.json.
"""
import json, os, subprocess, sys, tempfile, shutil, time

ROOT = os.path.dirname(os.path.dirname(os.path.abspath(__file__)))
REPO = "/repo"


def apply(src, m):
    old, new = m["old"], m["new"]
    cnt = src.count(old)
    if cnt == 0:
        raise SystemExit("mutant %s: pattern not found in %s" % (m["name"], m["file"]))
    nth = m.get("nth")
    if nth is None:
        if cnt != 1:
            raise SystemExit("mutant %s: pattern occurs %d times in %s, give nth" % (m["name"], cnt, m["file"]))
        return src.replace(old, new)
    idx = -1
    for _ in range(nth):
        idx = src.index(old, idx + 1)
    return src[:idx] + new + src[idx + len(old):]


def main():
    pid = sys.argv[1]
    flt = sys.argv[2] if len(sys.argv) > 2 else ""
    tier = os.environ.get("MUTANT_TIER", "quick")
    # MUTANT_FILE: candidates from another file (audits); results are then not recorded under mutants/results
    mfile = os.environ.get("MUTANT_FILE") or os.path.join(ROOT, "mutants", pid + ".json")
    muts = json.load(open(mfile))
    results = []
    # MUTANT_BASE_OVERLAY: an overlay (e.g. a not yet committed fix) every mutant is applied on top of
    base = {}
    if os.environ.get("MUTANT_BASE_OVERLAY"):
        base = json.load(open(os.environ["MUTANT_BASE_OVERLAY"]))["Replace"]
    for m in muts:
        if flt and flt not in m["name"]:
            continue
        tmp = tempfile.mkdtemp(prefix="verif-mut-")
        try:
            repl = {}
            edits = m.get("edits") or [m]
            bysrc = {}
            try:
                for e in edits:
                    e = dict(e); e.setdefault("name", m["name"])
                    path = os.path.join(REPO, e["file"])
                    src = bysrc.get(path) or open(base.get(path, path)).read()
                    bysrc[path] = apply(src, e)
            except SystemExit as ex:
                if not os.environ.get("MUTANT_FILE"):
                    raise
                print("%-60s INFRA %s" % (m["name"], ex), flush=True)
                continue
            for i, (path, src) in enumerate(bysrc.items()):
                out = os.path.join(tmp, "%d_%s" % (i, os.path.basename(path)))
                open(out, "w").write(src)
                repl[path] = out
            ov = os.path.join(tmp, "overlay.json")
            for k, v in base.items():
                repl.setdefault(k, v)
            json.dump({"Replace": repl}, open(ov, "w"))
            env = dict(os.environ, VERIF_OVERLAY=ov, VERIF_OUT_DIR=os.path.join(tmp, "out"))
            t0 = time.time()
            p = subprocess.run([os.path.join(ROOT, "check"), pid, tier], env=env, stdout=subprocess.PIPE, stderr=subprocess.STDOUT, text=True)
            dt = time.time() - t0
            site = ""
            for line in p.stdout.splitlines():
                if line.startswith("--- "):
                    site = line[4:200]
            caught = p.returncode == 1 and "VIOLATION property=%s" % pid in p.stdout
            results.append({"name": m["name"], "caught": caught, "exit": p.returncode, "seconds": round(dt, 1), "where": site})
            print("%-60s %s exit=%d %.1fs %s" % (m["name"], "CAUGHT" if caught else "MISSED", p.returncode, dt, site[:100]), flush=True)
            if not caught:
                print(p.stdout[-1500:])
        finally:
            shutil.rmtree(tmp, ignore_errors=True)
    if not flt and not os.environ.get("MUTANT_FILE"):
        os.makedirs(os.path.join(ROOT, "mutants", "results"), exist_ok=True)
        json.dump(results, open(os.path.join(ROOT, "mutants", "results", pid + ".json"), "w"), indent=1)
    missed = [r for r in results if not r["caught"]]
    print("%d mutants, %d caught, %d missed" % (len(results), len(results) - len(missed), len(missed)))
    return 1 if missed else 0


if __name__ == "__main__":
    sys.exit(main())
