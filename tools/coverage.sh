#!/bin/bash
# Coverage audit (development aid, not a registered check): builds one harness package with
# statement coverage of the repository packages it is anchored in, runs its TestProp_/TestEnum_
# tests at quick counts and prints the functions of those packages with < 100% coverage.
# usage: tools/coverage.sh <harness pkg> <repo pkg pattern,...> [run regexp]
#   e.g. tools/coverage.sh c13wake github.com/pinealctx/neptune/queue/...,github.com/pinealctx/neptune/syncx/pipe/...
set -u
pkg=$1; cov=$2; run=${3:-'TestProp_|TestEnum_'}
export GOFLAGS=-mod=mod GOPROXY=off GOSUMDB=off GOTOOLCHAIN=local
out=$(mktemp -d /tmp/verif-cov-XXXX)
trap 'rm -rf "$out"' EXIT
cd "$(dirname "$0")/../harness" || exit 2
go test -c -tags verif -vet=off -cover -covermode=atomic -coverpkg="$cov" -o "$out/t.bin" "./$pkg" || exit 2
VERIF_TIER=quick VERIF_SEED=${VERIF_SEED:-1} VERIF_OUT_DIR="$out" VERIF_STATS_OUT="$out/stats.json" VERIF_KNOWN="$(dirname "$0")/../known_findings.jsonl" "$out/t.bin" -test.run "$run" -test.coverprofile "$out/c.out" -test.timeout 20m >"$out/log" 2>&1 || { tail -20 "$out/log"; }
go tool cover -func "$out/c.out" | grep -v "100.0%" | grep -v "verif_hook" | sort -k3 -n
if [ -n "${COVER_BLOCKS:-}" ]; then
  echo "--- uncovered blocks"
  awk 'NR>1 { split($1,a,":"); n=$NF; if (n==0) print a[1] ":" a[2] }' "$out/c.out" | sort -u | sed 's#github.com/pinealctx/neptune/##'
fi
