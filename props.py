# Per-property configuration of the driver (./check) and source of MANIFEST.json
# (tools/gen_manifest.py). One JSON file per property under props/:
#   pkg        harness package directory under harness/
#   level      evidence level (exploration | fault_enumeration)
#   race       true: build a second, -race binary and run its TestRace_* functions
#   fuzz       [[native fuzz target, seconds], ...] - thorough tier only
#   shards     processes per TestProp_* function in the thorough tier (default 16)
#   sched      true: uses the schedule-owning quiescence detector
#   technique / text / note / assumptions   MANIFEST and evidence texts
import glob, json, os

_here = os.path.dirname(os.path.abspath(__file__))
ALL_PROPS = {}
for _f in sorted(glob.glob(os.path.join(_here, "props", "C*.json"))):
    ALL_PROPS[os.path.basename(_f)[:-5]] = json.load(open(_f))

# properties whose check is finished, reviewed and silent on the current tree: only these
# are claimed in MANIFEST.json (./check can still run the others while they are being built)
READY = ["C01", "C02", "C03", "C04", "C05", "C06", "C07", "C08", "C09", "C10", "C11", "C12", "C13", "C14", "C15", "C16", "C17", "C18", "C19", "C20"]
PROPS = ALL_PROPS
CLAIMED = {k: v for k, v in ALL_PROPS.items() if k in READY}

# commits in /repo that add the verif-tagged hook files (add-only)
HOOK_COMMITS = ["e1d1440", "727a4a0", "ea54d78", "e665bd8", "669fc16", "60e2860", "80c9a9f", "883bec4", "acf8ae6"]

# reasons for properties that are not claimed (yet)
PENDING = {}
