# Per-property configuration of the driver (./check) and source of MANIFEST.json
# (tools/gen_manifest.py).
#   pkg      harness package directory under harness/
#   level    evidence level
#   race     build a second, -race binary and run its TestRace_* functions
#   fuzz     [(native fuzz target, seconds)] - thorough tier only
#   shards   processes per TestProp_* function in the thorough tier
#   sched    uses the schedule-owning quiescence detector

HOOK_COMMITS = [
    "e1d1440",  # bitmap1024.VerifSetSparseMagic
]

PENDING = {}

PROPS = {
    "C08": {
        "pkg": "c08bitmap", "level": "exploration", "fuzz": [("FuzzBit1024", 45)],
        "technique": "property-based testing (rapid) against a [1024]bool reference model, metamorphic over the sparse threshold; native fuzzing in the thorough tier",
        "text": "Generated search: every Set/Unset, Len/NLen, And/Or/Reverse/OrThenReverse/Equal and all 18+14 iterator/GetN entry points (int8/16/32/uint32/int64, both directions, 64-bit and 1024-bit layer) are compared with an independent member-list model on words drawn to sit on the sparse/dense threshold, with every n class (negative, 0, <Len, =Len, >Len), exact-size destination slices with sentinels, wrapping add, and two thresholds per case. It samples the 2^1024 space, it does not exhaust it.",
        "note": "Trusted: the harness-side [1024]bool model and Go's arithmetic wrapping. Assumes callers give slices with room for pos+min(n,Len) elements and n>=0 to GetN* (as every caller in the repository does).",
        "assumptions": ["destination slices have room for pos+min(max(n,0),Len) elements (the precondition every caller in the repository respects)",
                        "GetN* is called with n >= 0 (it allocates n slots)"],
    },
}
