package c09bitser

// Parts added after the second white-box audit. They look at the same statement from three sides the step
// parts do not reach:
//
//   - "instances": a block built by a constructor is a value of its own - it does not follow the caller's bytes,
//     it does not write into them, and a second block built the same way is what ITS bytes denote, whatever was
//     set in the first one (FromData of an encoding, of no bytes, the zero-value constructors).
//   - "retention": few, long cases - encodings / lists handed out first are read again after 0..300 further calls
//     of the same entry point on other bitmaps / blocks; the caller appends to an encoding it was handed.
//   - "dense": blocks built from data with 64..1024 members, alone and in lists, cut inside a block; iteration
//     counts up to MaxInt for the entry points that allocate nothing, up to 70000 for the ones that allocate.

import (
	"fmt"
	"math"
	"math/bits"

	"github.com/pinealctx/neptune/bitmap1024"
	"pgregory.net/rapid"

	"verifharness/vkit"
)

const (
	maxBigStart = uint32(math.MaxUint32 - 1) // last block of the documented BigU32 range
	maxGetN     = 70000                      // executor-side clamp of the counts GetN* allocates
	maxPos      = 70000
	bigAlloc    = 5000
	maxInt      = int(^uint(0) >> 1)
	minInt      = -maxInt - 1
)

func countWords(ws []uint64) int {
	l := 0
	for _, w := range ws {
		l += bits.OnesCount64(w)
	}
	return l
}

// harnessEncode writes the documented format without the library.
func harnessEncode(ws []uint64) []byte {
	if countWords(ws) < 64 {
		return encodeElems(membersOfWords(ws))
	}
	out := make([]byte, 128)
	for i, w := range ws {
		for j := 0; j < 8; j++ {
			out[i*8+j] = byte(w >> (8 * uint(j)))
		}
	}
	return out
}

func ascOf(start uint32, ws []uint64) []int64 {
	mem := membersOfWords(ws)
	asc := make([]int64, len(mem))
	for i, m := range mem {
		asc[i] = int64(start)*blockBits + int64(m)
	}
	return asc
}

// genDenseMembers: a bitmap with at least 64 members (the mixture of genMembers, topped up by a run).
func genDenseMembers(t *rapid.T, label string) []uint64 {
	ws := genMembers(t, label)
	if countWords(ws) >= 64 {
		return ws
	}
	k := rapid.SampledFrom([]int{64, 65, 66, 100, 127, 128, 129, 200, 500, 1000}).Draw(t, label+"top")
	from := rapid.IntRange(0, blockBits-k).Draw(t, label+"topfrom")
	for p := from; p < from+k; p++ {
		ws[p/64] |= 1 << uint(p%64)
	}
	return ws
}

func genStart(t *rapid.T, tip bool, label string) uint32 {
	hi := maxBigStart
	if tip {
		hi = maxTipStart
	}
	switch rapid.IntRange(0, 3).Draw(t, label+"kind") {
	case 0:
		return rapid.SampledFrom([]uint32{0, 1, 2, 7, 1 << 21, maxTipStart - 1, maxTipStart}).Draw(t, label+"b")
	case 1:
		if !tip {
			return rapid.SampledFrom([]uint32{maxTipStart + 1, 1 << 22, 1<<22 + 5, 1 << 31, maxBigStart - 1, maxBigStart}).Draw(t, label+"hb")
		}
		return rapid.Uint32Range(0, 64).Draw(t, label+"small")
	default:
		return rapid.Uint32Range(0, hi).Draw(t, label+"any")
	}
}

// ---------------------------------------------------------------------------
// part "instances"

type CaseInst struct {
	Tip bool `json:"tip,omitempty"` // U32BitTip instead of BigU32
	// Ctor: 0 New...FromData(Marshal(words)); 1 New...FromData(bytes written by the harness, at offset Off of a
	// larger buffer); 2 New...FromData(nil); 3 New...FromData(empty, non-nil); 4 NewBigU32() / NewU32BitTip()
	Ctor   int      `json:"ctor"`
	Start  uint32   `json:"start"`
	Start2 uint32   `json:"start2"` // block start of the second instance
	Words  []uint64 `json:"words,omitempty"`
	Off    int      `json:"off,omitempty"`
	Sets   []int    `json:"sets,omitempty"`  // bits set in the first instance after it was built
	Sets2  []int    `json:"sets2,omitempty"` // bits set in the second instance
	// Scribble: the caller reuses its byte buffer after all blocks were built (1 zeros, 2 0xff, 3 inverted)
	Scribble int `json:"scribble,omitempty"`
}

func genBitsToSet(t *rapid.T, label string, max int) []int {
	var out []int
	for i, k := 0, rapid.IntRange(0, max).Draw(t, label+"n"); i < k; i++ {
		if rapid.Bool().Draw(t, label+"edge") {
			out = append(out, rapid.SampledFrom([]int{0, 1, 5, 63, 64, 511, 512, 1022, 1023}).Draw(t, label+"e"))
		} else {
			out = append(out, rapid.IntRange(0, blockBits-1).Draw(t, label+"p"))
		}
	}
	return out
}

func GenInst(t *rapid.T) CaseInst {
	c := CaseInst{Tip: rapid.Bool().Draw(t, "tip")}
	c.Ctor = rapid.SampledFrom([]int{0, 0, 0, 1, 1, 2, 2, 3, 4}).Draw(t, "ctor")
	if c.Ctor <= 1 {
		if rapid.Bool().Draw(t, "dense") {
			c.Words = genDenseMembers(t, "w")
		} else {
			c.Words = genMembers(t, "w")
		}
		if c.Ctor == 1 {
			c.Off = rapid.SampledFrom([]int{0, 0, 8, 16, 1, 3, 64}).Draw(t, "off")
		}
	}
	if c.Ctor != 4 {
		c.Start = genStart(t, c.Tip, "s")
		c.Start2 = c.Start
		if rapid.Bool().Draw(t, "otherstart") {
			c.Start2 = genStart(t, c.Tip, "s2")
		}
	}
	c.Sets = genBitsToSet(t, "set", 4)
	if len(c.Sets) == 0 && rapid.IntRange(0, 3).Draw(t, "force") > 0 {
		c.Sets = []int{rapid.IntRange(0, blockBits-1).Draw(t, "set1")}
	}
	if rapid.IntRange(0, 2).Draw(t, "second") == 0 {
		c.Sets2 = genBitsToSet(t, "set2", 2)
	}
	c.Scribble = rapid.SampledFrom([]int{0, 0, 1, 2, 3}).Draw(t, "scribble")
	return c
}

// inst is one block object of either width behind closures.
type inst struct {
	typ   string
	start uint32
	bits  bitmap1024.Bit1024
	set   func(bit int) error
	all   func() []int64
	rall  func() []int64
}

func newInst(tip, zero bool, start uint32, data []byte) (*inst, string, error) {
	if tip {
		var b *bitmap1024.U32BitTip
		var err error
		call := "NewU32BitTip()"
		if zero {
			b = bitmap1024.NewU32BitTip()
		} else {
			call = fmt.Sprintf("NewU32BitTipFromData(%d, %d bytes)", start, len(data))
			b, err = bitmap1024.NewU32BitTipFromData(start, data)
		}
		if err != nil || b == nil {
			return nil, call, fmt.Errorf("returned %v, %v", b, err)
		}
		return &inst{typ: "U32BitTip", start: b.Start, bits: b.B1024,
			set:  func(bit int) error { return b.SetU32(b.Start*blockBits + uint32(bit)) },
			all:  func() []int64 { return toI64(b.GetNAsU32(blockBits + 1)) },
			rall: func() []int64 { return toI64(b.RGetNAsU32(blockBits + 1)) }}, call, nil
	}
	var b *bitmap1024.BigU32
	var err error
	call := "NewBigU32()"
	if zero {
		b = bitmap1024.NewBigU32()
	} else {
		call = fmt.Sprintf("NewBigU32FromData(%d, %d bytes)", start, len(data))
		b, err = bitmap1024.NewBigU32FromData(start, data)
	}
	if err != nil || b == nil {
		return nil, call, fmt.Errorf("returned %v, %v", b, err)
	}
	return &inst{typ: "BigU32", start: b.Start, bits: b.B1024,
		set:  func(bit int) error { return b.SetI64(int64(b.Start)*blockBits + int64(bit)) },
		all:  func() []int64 { return b.GetNAsI64(blockBits + 1) },
		rall: func() []int64 { return b.RGetNAsI64(blockBits + 1) }}, call, nil
}

// holds: the block must have the given start and iterate exactly start*1024 + the members of ws.
func (in *inst) holds(res *vkit.Result, site, ctx string, start uint32, ws []uint64) bool {
	if res.Fail != nil {
		return false
	}
	if in.start != start {
		res.Failf(site, "%s block start %d, want %d", ctx, in.start, start)
		return false
	}
	asc := ascOf(start, ws)
	for _, dir := range []struct {
		name string
		got  []int64
		want []int64
	}{{"forward", in.all(), asc}, {"reverse", in.rall(), reversed(asc)}} {
		same := len(dir.got) == len(dir.want)
		for i := 0; same && i < len(dir.want); i++ {
			same = dir.got[i] == dir.want[i]
		}
		if !same {
			res.Failf(site, "%s the block iterates (%s, n=1025) %d members %s, want the %d members %s", ctx, dir.name, len(dir.got), show(dir.got), len(dir.want), show(dir.want))
			return false
		}
	}
	return true
}

func ExecInst(c CaseInst) *vkit.Result {
	res := &vkit.Result{}
	hi := maxBigStart
	if c.Tip {
		hi = maxTipStart
	}
	if c.Ctor < 0 || c.Ctor > 4 || (c.Ctor <= 1 && len(c.Words) != 16) || c.Off < 0 || c.Off > 256 || c.Start > hi || c.Start2 > hi ||
		len(c.Sets) > 16 || len(c.Sets2) > 16 {
		res.Skip("malformed-case")
		return res
	}
	for _, p := range append(append([]int(nil), c.Sets...), c.Sets2...) {
		if p < 0 || p >= blockBits {
			res.Skip("malformed-case")
			return res
		}
	}
	zero := c.Ctor == 4
	start, start2 := c.Start, c.Start2
	den := make([]uint64, 16) // what the bytes denote
	var data []byte
	switch c.Ctor {
	case 0:
		copy(den, c.Words)
		data = toBit1024(c.Words).Marshal()
		res.Class("ctor=FromData(Marshal)")
	case 1:
		copy(den, c.Words)
		enc := harnessEncode(c.Words)
		raw := make([]byte, c.Off+len(enc)+8)
		data = raw[c.Off : c.Off+len(enc) : c.Off+len(enc)]
		copy(data, enc)
		res.Class("ctor=FromData(own bytes)")
	case 2:
		res.Class("ctor=FromData(nil)")
	case 3:
		data = []byte{}
		res.Class("ctor=FromData(empty)")
	default:
		start, start2 = 0, 0
		res.Class("ctor=zero-value")
	}
	if len(data) == 128 {
		res.Class("dense-bytes")
	}
	keep := append([]byte(nil), data...)
	what := "BigU32"
	if c.Tip {
		what = "U32BitTip"
	}

	a, callA, err := newInst(c.Tip, zero, start, data)
	if err != nil {
		return res.Failf("instances/ctor", "%s %v (bytes %x)", callA, err, keep)
	}
	// whatever is set below is taken back at the end: should the bitmap of a block be shared with anything that
	// outlives the case, the next case starts clean and every verdict replays from its case alone
	var undo []func()
	defer func() {
		for _, u := range undo {
			u()
		}
	}()
	setAll := func(in *inst, model []uint64, ps []int, ctx string) bool {
		for _, p := range ps {
			fresh := model[p/64]&(1<<uint(p%64)) == 0
			if err := in.set(p); err != nil {
				res.Failf("instances/set", "%s refuses member %d of its own block %d: %v", ctx, p, in.start, err)
				return false
			}
			if fresh {
				model[p/64] |= 1 << uint(p%64)
				bm, q := in.bits, p
				undo = append(undo, func() {
					if len(bm) == 16 {
						bm.UnsetI16(int16(q))
					}
				})
			}
		}
		return true
	}
	ctxA := fmt.Sprintf("%s = %s:", what, callA)
	if !a.holds(res, "instances/fresh", ctxA+" just built:", start, den) {
		return res
	}
	// the other block type over the same bytes
	var o *inst
	var callO string
	if !zero {
		so := start
		if !c.Tip {
			so = start & maxTipStart
		}
		if o, callO, err = newInst(!c.Tip, false, so, data); err != nil {
			return res.Failf("instances/ctor", "%s %v (bytes %x)", callO, err, keep)
		}
	}
	modelA := append([]uint64(nil), den...)
	if !setAll(a, modelA, c.Sets, ctxA) {
		return res
	}
	if len(c.Sets) > 0 {
		res.Class("first-instance-modified")
	}
	if string(data) != string(keep) {
		return res.Failf("FromData/aliases-input", "%s setting members %v in the block changed the caller's bytes: were %x, are %x", ctxA, c.Sets, keep, data)
	}
	if !a.holds(res, "instances/after-set", fmt.Sprintf("%s after setting %v:", ctxA, c.Sets), start, modelA) {
		return res
	}
	// a second block built the same way is what its bytes denote
	b, callB, err := newInst(c.Tip, zero, start2, data)
	if err != nil {
		return res.Failf("instances/ctor", "%s %v (bytes %x)", callB, err, keep)
	}
	ctxB := fmt.Sprintf("%s = %s, built after members %v were set in an earlier %s:", what, callB, c.Sets, callA)
	if !b.holds(res, "instances/independent", ctxB, start2, den) {
		return res
	}
	modelB := append([]uint64(nil), den...)
	if !setAll(b, modelB, c.Sets2, ctxB) {
		return res
	}
	if len(c.Sets2) > 0 {
		res.Class("second-instance-modified")
		if !b.holds(res, "instances/after-set", fmt.Sprintf("%s after setting %v:", ctxB, c.Sets2), start2, modelB) ||
			!a.holds(res, "instances/independent", fmt.Sprintf("%s after members %v were set in a later %s:", ctxA, c.Sets2, callB), start, modelA) {
			return res
		}
	}
	if string(data) != string(keep) {
		return res.Failf("FromData/aliases-input", "%s setting members %v changed the caller's bytes: were %x, are %x", ctxB, c.Sets2, keep, data)
	}
	if o != nil && !o.holds(res, "instances/independent", fmt.Sprintf("%s over the bytes a %s was built from and modified (%v):", callO, what, c.Sets), o.start, den) {
		return res
	}
	// the caller reuses its buffer
	if c.Scribble >= 1 && c.Scribble <= 3 && len(data) > 0 {
		res.Class("bytes-overwritten-after-construction")
		for i := range data {
			switch c.Scribble {
			case 1:
				data[i] = 0
			case 2:
				data[i] = 0xff
			default:
				data[i] = ^data[i]
			}
		}
		ok := a.holds(res, "FromData/aliases-input", ctxA+" after the caller overwrote the bytes it had passed:", start, modelA) &&
			b.holds(res, "FromData/aliases-input", fmt.Sprintf("%s = %s after the caller overwrote the bytes it had passed:", what, callB), start2, modelB) &&
			(o == nil || o.holds(res, "FromData/aliases-input", callO+" after the caller overwrote the bytes it had passed:", o.start, den))
		copy(data, keep)
		if !ok {
			return res
		}
	}
	res.NonTrivial = len(c.Sets)+len(c.Sets2) > 0 || countWords(den) > 0
	return res
}

// ---------------------------------------------------------------------------
// part "retention"

type AppendOp struct {
	At   int  `json:"at"`   // which of the kept encodings (modulo their number)
	Len  int  `json:"len"`  // bytes appended
	Fill byte `json:"fill"` // first appended byte, the following count up
}

type CaseKeep struct {
	// Kind: 0 Marshal; 1..8 entry point: bit 0 of Kind-1 reverse, bit 1 U32BitTip instead of BigU32, bit 2 the list type
	Kind int `json:"kind"`
	// First: the bitmaps whose encodings / lists are handed out first and kept
	First [][]uint64 `json:"first"`
	// Other: the bitmaps of the further calls (taken in turn; Marshal: their words rotated by the call index)
	Other [][]uint64 `json:"other"`
	Calls int        `json:"calls"`
	// Ns: iteration counts: Ns[0] for the kept lists, the others in turn for the further calls
	Ns []int `json:"ns,omitempty"`
	// Mix: the further calls alternate between the entry point and its twin of the other direction
	Mix     bool       `json:"mix,omitempty"`
	Start   uint32     `json:"start,omitempty"`
	Appends []AppendOp `json:"appends,omitempty"`
}

const maxCalls = 400

func GenKeep(t *rapid.T) CaseKeep {
	c := CaseKeep{Kind: rapid.SampledFrom([]int{0, 0, 0, 0, 1, 2, 3, 4, 5, 6, 7, 8}).Draw(t, "kind")}
	gen := func(label string) []uint64 {
		if rapid.IntRange(0, 2).Draw(t, label+"d") > 0 {
			return genDenseMembers(t, label)
		}
		return genMembers(t, label)
	}
	for i, k := 0, rapid.IntRange(1, 4).Draw(t, "nfirst"); i < k; i++ {
		c.First = append(c.First, gen("first"))
	}
	for i, k := 0, rapid.IntRange(1, 3).Draw(t, "nother"); i < k; i++ {
		c.Other = append(c.Other, gen("other"))
	}
	c.Calls = rapid.SampledFrom([]int{0, 1, 5, 31, 32, 33, 63, 64, 65, 100, 128, 129, 200, 257, 300}).Draw(t, "calls")
	if c.Kind == 0 {
		if rapid.Bool().Draw(t, "appends") {
			for i, k := 0, rapid.IntRange(1, 3).Draw(t, "nappend"); i < k; i++ {
				c.Appends = append(c.Appends, AppendOp{
					At:   rapid.IntRange(0, 3).Draw(t, "at"),
					Len:  rapid.SampledFrom([]int{1, 2, 3, 8, 64, 128, 130, 300}).Draw(t, "alen"),
					Fill: rapid.Byte().Draw(t, "afill"),
				})
			}
		}
		return c
	}
	tip := (c.Kind-1)&2 != 0
	hi := maxBigStart
	if tip {
		hi = maxTipStart
	}
	c.Start = rapid.Uint32Range(0, hi-16).Draw(t, "start")
	for i, k := 0, rapid.SampledFrom([]int{1, 1, 2, 4}).Draw(t, "nns"); i < k; i++ {
		c.Ns = append(c.Ns, rapid.SampledFrom([]int{1, 1, 2, 3, 64, 65, 1024, 1025}).Draw(t, "n"))
	}
	c.Mix = rapid.IntRange(0, 3).Draw(t, "mix") == 0
	return c
}

func ExecKeep(c CaseKeep) *vkit.Result {
	res := &vkit.Result{}
	if c.Kind < 0 || c.Kind > 8 || len(c.First) == 0 || len(c.First) > 8 || len(c.Other) == 0 || len(c.Other) > 8 || c.Calls < 0 || c.Calls > maxCalls ||
		len(c.Appends) > 8 || len(c.Ns) > 8 {
		res.Skip("malformed-case")
		return res
	}
	for _, w := range append(append([][]uint64(nil), c.First...), c.Other...) {
		if len(w) != 16 {
			res.Skip("malformed-case")
			return res
		}
	}
	switch {
	case c.Calls >= 64:
		res.Class("further-calls>=64")
	case c.Calls >= 32:
		res.Class("further-calls>=32")
	case c.Calls > 0:
		res.Class("further-calls<32")
	}
	if c.Kind == 0 {
		return execKeepMarshal(c, res)
	}
	return execKeepLists(c, res)
}

func execKeepMarshal(c CaseKeep, res *vkit.Result) *vkit.Result {
	res.Class("entry=Marshal")
	type kept struct {
		enc   []byte // what the caller holds
		want  []byte // what it must read
		n     int    // length of the encoding as handed out
		words []uint64
		added int
	}
	var held []*kept
	marshal := func(w []uint64, what string) bool {
		e := toBit1024(w).Marshal()
		if why := denotes(e, w); why != "" {
			res.Failf("Marshal/content", "%s: %s (encoding %x)", what, why, e)
			return false
		}
		held = append(held, &kept{e, append([]byte(nil), e...), len(e), w, 0})
		return true
	}
	reread := func(when string) bool {
		for i, h := range held {
			if string(h.enc) != string(h.want) {
				tail := ""
				if h.added > 0 {
					tail = fmt.Sprintf(" (the caller had appended %d bytes to it)", h.added)
				}
				res.Failf("Marshal/retained", "the %d. of %d encodings handed out by Marshal (%d bytes, %d members)%s changed %s: was %x, is %x",
					i+1, len(held), h.n, countWords(h.words), tail, when, h.want, h.enc)
				return false
			}
			back := bitmap1024.NewBit1024()
			if err := back.Unmarshal(h.enc[:h.n]); err != nil || !back.Equal(toBit1024(h.words)) {
				res.Failf("Marshal/retained", "the %d. of %d encodings handed out by Marshal no longer decodes to its bitmap %s (err %v)", i+1, len(held), when, err)
				return false
			}
		}
		return true
	}
	for i, w := range c.First {
		if !marshal(w, fmt.Sprintf("%d. bitmap", i+1)) {
			return res
		}
		if countWords(w) >= 64 {
			res.Class("kept-dense-encoding")
		}
	}
	// the caller appends to bytes it was handed (a trailer, a checksum): that is its slice, nobody else's bytes move
	for k, ap := range c.Appends {
		if ap.At < 0 || ap.Len < 0 || ap.Len > 1024 {
			continue
		}
		h := held[ap.At%len(held)]
		for j := 0; j < ap.Len; j++ {
			v := ap.Fill + byte(j)
			h.enc = append(h.enc, v)
			h.want = append(h.want, v)
		}
		h.added += ap.Len
		res.Class("caller-appends-to-an-encoding")
		if !reread(fmt.Sprintf("when the caller appended %d bytes to the %d. encoding (append number %d)", ap.Len, ap.At%len(held)+1, k+1)) {
			return res
		}
	}
	for j := 0; j < c.Calls; j++ {
		if !marshal(rotateWords(c.Other[j%len(c.Other)], j), fmt.Sprintf("%d. further bitmap", j+1)) {
			return res
		}
	}
	if !reread(fmt.Sprintf("after %d further Marshal calls of other bitmaps", c.Calls)) {
		return res
	}
	res.NonTrivial = c.Calls > 0 || len(c.Appends) > 0
	return res
}

func execKeepLists(c CaseKeep, res *vkit.Result) *vkit.Result {
	k := c.Kind - 1
	reverse, tip, list := k&1 != 0, k&2 != 0, k&4 != 0
	hi := maxBigStart
	if tip {
		hi = maxTipStart
	}
	if c.Start > hi-16 {
		res.Skip("malformed-case")
		return res
	}
	ns := c.Ns
	if len(ns) == 0 {
		ns = []int{1}
	}
	nOf := func(i int) int { return clampRange(ns[i%len(ns)], 0, 2*blockBits) }
	typ := map[bool]string{false: "BigU32", true: "U32BitTip"}[tip]
	if list {
		typ += "s"
	}
	name := func(rev bool) string {
		return typ + "." + map[bool]string{false: "", true: "R"}[rev] + "GetNAs" + map[bool]string{false: "I64", true: "U32"}[tip]
	}
	res.Class("entry=" + name(reverse))
	// the blocks: First at Start.., Other at Start+8..
	type blockOf struct {
		big *bitmap1024.BigU32
		tip *bitmap1024.U32BitTip
		asc []int64
	}
	build := func(start uint32, ws []uint64) (*blockOf, bool) {
		b := &blockOf{asc: ascOf(start, ws)}
		var err error
		if tip {
			b.tip, err = bitmap1024.NewU32BitTipFromData(start, toBit1024(ws).Marshal())
			if err != nil || b.tip == nil {
				res.Failf("NewU32BitTipFromData/rejects-marshal", "NewU32BitTipFromData(%d, Marshal of %d members) = %v, %v", start, len(b.asc), b.tip, err)
				return nil, false
			}
		} else {
			b.big, err = bitmap1024.NewBigU32FromData(start, toBit1024(ws).Marshal())
			if err != nil || b.big == nil {
				res.Failf("NewBigU32FromData/rejects-marshal", "NewBigU32FromData(%d, Marshal of %d members) = %v, %v", start, len(b.asc), b.big, err)
				return nil, false
			}
		}
		return b, true
	}
	var first, other []*blockOf
	for i, w := range c.First {
		b, ok := build(c.Start+uint32(i), w)
		if !ok {
			return res
		}
		first = append(first, b)
	}
	for i, w := range c.Other {
		b, ok := build(c.Start+8+uint32(i), w)
		if !ok {
			return res
		}
		other = append(other, b)
	}
	lg := &ledger{}
	// call: one call of the entry point (direction rev) on the given blocks (one block unless the list type), checked and kept
	call := func(bs []*blockOf, rev bool, n int, ctx string) {
		if res.Fail != nil {
			return
		}
		site := name(rev)
		var got []int64
		switch {
		case !list && !tip && !rev:
			got = hold(lg, site, n, bs[0].big.GetNAsI64(n))
		case !list && !tip:
			got = hold(lg, site, n, bs[0].big.RGetNAsI64(n))
		case !list && !rev:
			got = toI64(hold(lg, site, n, bs[0].tip.GetNAsU32(n)))
		case !list:
			got = toI64(hold(lg, site, n, bs[0].tip.RGetNAsU32(n)))
		case !tip:
			var l bitmap1024.BigU32s
			for _, b := range bs {
				l = append(l, b.big)
			}
			if rev {
				got = hold(lg, site, n, l.RGetNAsI64(n))
			} else {
				got = hold(lg, site, n, l.GetNAsI64(n))
			}
		default:
			var l bitmap1024.U32BitTips
			for _, b := range bs {
				l = append(l, b.tip)
			}
			if rev {
				got = toI64(hold(lg, site, n, l.RGetNAsU32(n)))
			} else {
				got = toI64(hold(lg, site, n, l.GetNAsU32(n)))
			}
		}
		if !list {
			checkSeq(res, site, ctx, got, bs[0].asc, rev, n)
			return
		}
		var lists [][]int64
		for _, b := range bs {
			lists = append(lists, b.asc)
		}
		checkConcat(res, site, ctx, got, lists, rev, n)
	}
	ctx := fmt.Sprintf("%s blocks from data at %d..:", typ, c.Start)
	if list {
		call(first, reverse, nOf(0), ctx+" kept list:")
	} else {
		for i := range first {
			call(first[i:i+1], reverse, nOf(0), fmt.Sprintf("%s %d. kept block:", ctx, i+1))
		}
	}
	for j := 0; j < c.Calls && res.Fail == nil; j++ {
		rev := reverse
		if c.Mix && j%2 == 1 {
			rev = !rev
		}
		bs := other[j%len(other) : j%len(other)+1]
		if list && len(other) > 1 && j%3 == 0 {
			bs = []*blockOf{other[j%len(other)], other[(j+1)%len(other)]}
		}
		call(bs, rev, nOf(j+1), fmt.Sprintf("%s %d. further call:", ctx, j+1))
	}
	if len(lg.held) > 0 && c.Calls > 0 {
		res.NonTrivial = true
	}
	lg.check(res, fmt.Sprintf("%s after %d further calls on other blocks:", ctx, c.Calls))
	return res
}

// ---------------------------------------------------------------------------
// part "dense"

type DenseBlock struct {
	Start uint32   `json:"start"`
	Words []uint64 `json:"words"`
}

type CaseDense struct {
	Tip    bool         `json:"tip,omitempty"`
	Blocks []DenseBlock `json:"blocks"`
	ListN  []int        `json:"list_n"` // counts of the list calls (clamped to 70000: they allocate)
	GetN   []int        `json:"get_n"`  // counts of GetN*/RGetN* on the single blocks (clamped to 70000)
	IterN  []int        `json:"iter_n"` // counts of Iter*/RIter* on the single blocks: anything up to MaxInt, nothing is allocated
	Pos    int          `json:"pos"`
	Slack  int          `json:"slack"`
}

var hugeN = []int{1023, 1024, 1025, 32767, 32768, 32769, 65535, 65536, 65537, 70000, 1<<31 - 1, 1 << 31, 1<<31 + 1, 1<<32 - 1, 1 << 32, 1<<32 + 1,
	1<<32 + 1024, 1<<32 + 32768, 1 << 48, 1<<48 + 1, maxInt - 1, maxInt}

func GenDense(t *rapid.T) CaseDense {
	c := CaseDense{Tip: rapid.Bool().Draw(t, "tip")}
	total := 0
	var sizes []int
	for i, k := 0, rapid.SampledFrom([]int{1, 1, 2, 2, 3, 4}).Draw(t, "nblocks"); i < k; i++ {
		var ws []uint64
		if rapid.IntRange(0, 3).Draw(t, "sparse") == 0 {
			ws = genMembers(t, "w")
		} else {
			ws = genDenseMembers(t, "w")
		}
		c.Blocks = append(c.Blocks, DenseBlock{Start: genStart(t, c.Tip, "s"), Words: ws})
		sizes = append(sizes, countWords(ws))
		total += sizes[i]
	}
	l := len(c.Blocks)
	for i, k := 0, rapid.IntRange(1, 3).Draw(t, "nlist"); i < k; i++ {
		var n int
		switch rapid.IntRange(0, 7).Draw(t, "lkind") {
		case 0, 1: // a cut anywhere
			n = rapid.IntRange(0, total+1).Draw(t, "cut")
		case 2: // around the sum of the first blocks
			n = rapid.IntRange(-1, 1).Draw(t, "d")
			for _, s := range sizes[:rapid.IntRange(1, l).Draw(t, "upto")] {
				n += s
			}
		case 3: // around 64 and 1024 per block
			n = rapid.SampledFrom([]int{64, 65, 1023, 1024}).Draw(t, "per")*l + rapid.IntRange(-1, 1).Draw(t, "d")
		case 4:
			n = total + rapid.IntRange(-1, 1).Draw(t, "d")
		case 5:
			n = rapid.SampledFrom([]int{1, 63, 64, 65, 100, 128, 1024, 1025, 4096, 5000}).Draw(t, "fixed")
		case 6:
			n = rapid.SampledFrom([]int{2048, 4095, 4096, 5000}).Draw(t, "more")
			if rapid.IntRange(0, 5).Draw(t, "lbig") == 0 {
				n = rapid.SampledFrom([]int{32767, 32768, 65535, 65536, 70000}).Draw(t, "big")
			}
		default:
			n = rapid.IntRange(0, 1024*l+1).Draw(t, "any")
		}
		if n < 0 {
			n = 0
		}
		c.ListN = append(c.ListN, n)
	}
	for i, k := 0, rapid.IntRange(1, 2).Draw(t, "nget"); i < k; i++ {
		if rapid.IntRange(0, 19).Draw(t, "gbig") == 0 {
			c.GetN = append(c.GetN, rapid.SampledFrom([]int{5001, 32767, 32768, 32769, 65535, 65536, 65537, 70000}).Draw(t, "gn"))
		} else {
			c.GetN = append(c.GetN, rapid.IntRange(0, 1100).Draw(t, "gsmall"))
		}
	}
	for i, k := 0, rapid.IntRange(1, 3).Draw(t, "niter"); i < k; i++ {
		switch rapid.IntRange(0, 5).Draw(t, "ikind") {
		case 0:
			c.IterN = append(c.IterN, rapid.IntRange(0, 1100).Draw(t, "ismall"))
		case 1:
			c.IterN = append(c.IterN, rapid.IntRange(1025, maxInt).Draw(t, "iany"))
		case 2:
			c.IterN = append(c.IterN, rapid.SampledFrom([]int{-1, -3, -32768, -65536, minInt, minInt + 1}).Draw(t, "ineg"))
		default:
			c.IterN = append(c.IterN, rapid.SampledFrom(hugeN).Draw(t, "ihuge"))
		}
	}
	c.Pos = rapid.SampledFrom([]int{0, 0, 1, 2, 3, 4, 5, 7, 8, 63, 64, 65}).Draw(t, "pos")
	switch rapid.IntRange(0, 39).Draw(t, "farpos") {
	case 0:
		c.Pos = rapid.SampledFrom([]int{32767, 32768, 65535, 65536, 70000}).Draw(t, "fpos")
	case 1, 2, 3:
		c.Pos = rapid.SampledFrom([]int{1000, 1023, 1024, 1025, 4096}).Draw(t, "mpos")
	}
	c.Slack = rapid.IntRange(0, 2).Draw(t, "slack")
	return c
}

func ExecDense(c CaseDense) *vkit.Result {
	res := &vkit.Result{}
	if len(c.Blocks) == 0 || len(c.Blocks) > 8 || len(c.ListN) > 8 || len(c.GetN) > 8 || len(c.IterN) > 8 {
		res.Skip("malformed-case")
		return res
	}
	hi := maxBigStart
	if c.Tip {
		hi = maxTipStart
	}
	pos, slack := clampRange(c.Pos, 0, maxPos), clampRange(c.Slack, 0, 8)
	// slices of more than bigAlloc elements are affordable now and then: the first three such calls of a case
	// get them, the later ones of the same case run with the count cut to bigAlloc / the position modulo 64
	budget := 3
	large := func() bool {
		budget--
		return budget >= 0
	}
	lg := &ledger{}
	var bigs bitmap1024.BigU32s
	var tips bitmap1024.U32BitTips
	var lists [][]int64
	seen := map[uint32]bool{}
	total, denseBlocks := 0, 0
	for _, b := range c.Blocks {
		if len(b.Words) != 16 || b.Start > hi {
			res.Skip("malformed-block")
			continue
		}
		if seen[b.Start] {
			res.Skip("second block with the same start left out of the list")
			continue
		}
		seen[b.Start] = true
		asc := ascOf(b.Start, b.Words)
		enc := toBit1024(b.Words).Marshal()
		var ops blockOps
		var ctx string
		if c.Tip {
			blk, err := bitmap1024.NewU32BitTipFromData(b.Start, enc)
			if err != nil || blk == nil {
				return res.Failf("NewU32BitTipFromData/rejects-marshal", "NewU32BitTipFromData(%d, Marshal of %d members) = %v, %v", b.Start, len(asc), blk, err)
			}
			tips = append(tips, blk)
			ops = opsTip(blk, lg)
			ctx = fmt.Sprintf("NewU32BitTipFromData(start=%d, %d members):", b.Start, len(asc))
		} else {
			blk, err := bitmap1024.NewBigU32FromData(b.Start, enc)
			if err != nil || blk == nil {
				return res.Failf("NewBigU32FromData/rejects-marshal", "NewBigU32FromData(%d, Marshal of %d members) = %v, %v", b.Start, len(asc), blk, err)
			}
			bigs = append(bigs, blk)
			ops = opsBig(blk, lg)
			ctx = fmt.Sprintf("NewBigU32FromData(start=%d, %d members):", b.Start, len(asc))
		}
		u32 := ops.elem == "U32"
		for _, n := range c.GetN {
			n = clampRange(n, 0, maxGetN)
			if n > bigAlloc && !large() {
				n = bigAlloc
			}
			checkSeq(res, ops.name+".GetNAs"+ops.elem, ctx, ops.getN(n), asc, false, n)
			checkSeq(res, ops.name+".RGetNAs"+ops.elem, ctx, ops.rgetN(n), asc, true, n)
			if n >= 32768 {
				res.Class("GetN>=32768")
			}
		}
		for _, n := range c.IterN {
			p := pos
			if p > bigAlloc && !large() {
				p %= 64
			}
			checkSlots(res, ops.name+".IterAs"+ops.elem, ctx, ops.iter, u32, asc, false, p, slack, n)
			checkSlots(res, ops.name+".RIterAs"+ops.elem, ctx, ops.riter, u32, asc, true, p, slack, n)
			switch {
			case n >= 1<<31:
				res.Class("Iter-n>=2^31")
			case n >= 32768:
				res.Class("Iter-n>=32768")
			case n < 0:
				res.Class("Iter-n<0")
			}
		}
		if res.Fail != nil {
			return res
		}
		lists = append(lists, asc)
		total += len(asc)
		if len(asc) >= 64 {
			denseBlocks++
		}
	}
	if len(lists) == 0 {
		return res
	}
	typ := map[bool]string{false: "BigU32s", true: "U32BitTips"}[c.Tip]
	lctx := fmt.Sprintf("%s of %d blocks built from data (%d members):", typ, len(lists), total)
	for _, n := range c.ListN {
		n = clampRange(n, 0, maxGetN)
		if n > bigAlloc && !large() {
			n = bigAlloc
		}
		if c.Tip {
			checkConcat(res, "U32BitTips.GetNAsU32", lctx, toI64(hold(lg, "U32BitTips.GetNAsU32", n, tips.GetNAsU32(n))), lists, false, n)
			checkConcat(res, "U32BitTips.RGetNAsU32", lctx, toI64(hold(lg, "U32BitTips.RGetNAsU32", n, tips.RGetNAsU32(n))), lists, true, n)
		} else {
			checkConcat(res, "BigU32s.GetNAsI64", lctx, hold(lg, "BigU32s.GetNAsI64", n, bigs.GetNAsI64(n)), lists, false, n)
			checkConcat(res, "BigU32s.RGetNAsI64", lctx, hold(lg, "BigU32s.RGetNAsI64", n, bigs.RGetNAsI64(n)), lists, true, n)
		}
		switch {
		case n > 0 && n < total:
			res.Class("list-cut-before-the-end")
		case n >= total:
			res.Class("list-complete")
		}
		if n > 64*len(lists) && total > 64*len(lists) {
			res.Class("list-n>64-per-block")
		}
	}
	lg.check(res, lctx)
	if pos > 3 {
		res.Class("pos>3")
	}
	if denseBlocks > 0 {
		res.Class("dense-block")
		res.NonTrivial = true
	}
	if denseBlocks > 1 {
		res.Class("list-of-several-dense-blocks")
	}
	return res
}

// ---------------------------------------------------------------------------

var PartInst = &vkit.Part[CaseInst]{
	Property: Property, Name: "instances",
	Rule:  "rapid: block type x constructor (New...FromData of Marshal(b), of harness-written bytes at offset 0/1/3/8/16/64 of a larger buffer, of nil, of an empty slice; NewBigU32()/NewU32BitTip()) x start x bitmap (member-count mixture, half of them >= 64 members) x up to 4 members set afterwards. The block just built iterates start*1024 + the denoted members; after SetI64/SetU32 of further members of its block the caller's bytes are unchanged and the block iterates the union; a SECOND block built the same way (same bytes, same or another start) and a block of the other type built from the same bytes are exactly what the bytes denote; members set in the second block do not appear in the first; when the caller then overwrites its bytes (zeros / 0xff / inverted, 3 of 5 cases) every block reads as before. Members set are unset at the end of the case through the block's bitmap (verdicts replay from the case alone). Non-trivial: a member set or bytes that denote a member; distinct = distinct case JSON",
	Quick: 6000, Thorough: 30000,
	Gen: GenInst, Exec: ExecInst,
}

var PartKeep = &vkit.Part[CaseKeep]{
	Property: Property, Name: "retention",
	Rule:  "rapid, few long cases: entry point (Marshal in a third to a half of the cases, else one of GetN/RGetN of BigU32, U32BitTip, BigU32s, U32BitTips) x 1-4 bitmaps whose encodings / lists (blocks built from data) are handed out first and kept x 0,1,5,31..33,63..65,100,128,129,200,257,300 further calls of the same entry point (a quarter: alternating with the other direction) on 1-3 other bitmaps / blocks, every result checked when handed out and kept as well; at the end every kept value must read what it read when handed out and the encodings must still decode to their bitmaps. Marshal, half of the cases: the caller appends 1..300 bytes to one of the first encodings (up to 3 times) - every other encoding must read the same straight afterwards and after the further calls, and the appended encoding keeps its bytes and its trailer. Non-trivial: at least one further call or append; distinct = distinct case JSON",
	Quick: 1500, Thorough: 6000,
	Gen: GenKeep, Exec: ExecKeep,
}

var PartDense = &vkit.Part[CaseDense]{
	Property: Property, Name: "dense",
	Rule:  "rapid: block type x 1-4 blocks built by New...FromData(start, Marshal(b)) with 64..1024 members (a quarter from the plain member-count mixture), distinct starts. Single blocks: GetN/RGetN with n in 0..1100 or (1 in 8) 5001, 32767..32769, 65535..65537, 70000; Iter/RIter on sentinel slices at pos 0..8, 63..65, 1000..1025, 4096 (1 in 16: 32767..70000) with n from 0..1100, 1025..MaxInt at random, 32767..32769, 65535..65537, 2^31-1..2^31+1, 2^32-1..2^32+1024, 2^48, MaxInt-1, MaxInt, -1, -32768, -65536, MinInt: exactly min(max(n,0),Len) members ascending / descending, nothing else written. The list (BigU32s / U32BitTips) forward and reverse with n cut anywhere, around the sums of the first blocks, around 64 and 1024 per block, around the total, up to 70000: a concatenation of complete per-block iterations except for the last run (block order not asserted), min(n,total) elements; all lists are kept and read again at the end. Non-trivial: a block with >= 64 members; distinct = distinct case JSON",
	Quick: 2000, Thorough: 10000,
	Gen: GenDense, Exec: ExecDense,
}
