package c09bitser

import (
	"testing"

	"verifharness/vkit"
)

func TestMain(m *testing.M) { vkit.Main(m) }

func TestProp_Marshal(t *testing.T)   { PartMarshal.Run(t) }
func TestProp_Unmarshal(t *testing.T) { PartUnmarshal.Run(t) }
func TestProp_BigU32(t *testing.T)    { PartBig.Run(t) }
func TestProp_U32BitTip(t *testing.T) { PartTip.Run(t) }
func TestProp_FromData(t *testing.T)  { PartData.Run(t) }
func TestProp_Instances(t *testing.T) { PartInst.Run(t) }
func TestProp_Retention(t *testing.T) { PartKeep.Run(t) }
func TestProp_Dense(t *testing.T)     { PartDense.Run(t) }

func TestReplay(t *testing.T) {
	PartMarshal.Replay(t, 1)
	PartUnmarshal.Replay(t, 1)
	PartBig.Replay(t, 1)
	PartTip.Replay(t, 1)
	PartData.Replay(t, 1)
	PartInst.Replay(t, 1)
	PartKeep.Replay(t, 1)
	PartDense.Replay(t, 1)
}

// FuzzUnmarshal is the byte-level, coverage-guided entry: arbitrary bytes go to
// Unmarshal of a fresh bitmap; the oracle (no panic; error, or exactly the set
// the documented format denotes) is the one of the "unmarshal" part.
func FuzzUnmarshal(f *testing.F) {
	if vkit.SeedCorpus() {
		// valid encodings
		f.Add([]byte{})
		f.Add([]byte{5, 0})
		f.Add([]byte{0, 0, 0xff, 0x03})
		var s63, s64 []int
		for i := 0; i < 64; i++ {
			if i < 63 {
				s63 = append(s63, i*16+1)
			}
			s64 = append(s64, i*16)
		}
		f.Add(encodeElems(s63)) // 126 bytes, the longest sparse form
		f.Add(encodeElems(s64)) // 128 bytes: read as the dense form
		f.Add(make([]byte, 128))
		full := make([]byte, 130)
		for i := range full {
			full[i] = 0xff
		}
		f.Add(full[:128])
		one := make([]byte, 128)
		one[127] = 0x80
		f.Add(one)
		// hostile constants
		f.Add([]byte{0x00, 0x04})             // element 1024
		f.Add([]byte{0xff, 0xff})             // element -1
		f.Add([]byte{0x00, 0x80})             // element MinInt16
		f.Add([]byte{0xff, 0x7f})             // element MaxInt16
		f.Add([]byte{7})                      // odd
		f.Add([]byte{7, 0, 7})                // odd
		f.Add([]byte{7, 0, 7, 0})             // duplicate
		f.Add([]byte{9, 0, 7, 0})             // descending
		f.Add([]byte{5, 0, 0x00, 0x04, 6, 0}) // out-of-range element in the middle
		f.Add(full[:2])
		f.Add(full[:126])
		f.Add(full[:127])
		f.Add(full[:129])
		f.Add(full)
	}
	f.Fuzz(func(t *testing.T, data []byte) {
		if len(data) > 4096 {
			data = data[:4096]
		}
		PartUnmarshal.FuzzOne(t, CaseBytes{Data: data})
	})
}
