// Package c09bitser decides property C09: the serialisation of a 1024-bit map
// (sparse: 2 bytes per member below 64 members, dense: 128 bytes) round-trips,
// Unmarshal of arbitrary bytes never panics and fails or yields exactly the set
// the bytes denote, and the block integers BigU32 (int64) / U32BitTip (uint32)
// map an integer to (block, bit) and back, accept further integers exactly
// when they belong to the block, and iterate ascending / descending.
package c09bitser

import (
	"fmt"
	"math"
	"math/bits"
	"sort"

	"github.com/pinealctx/neptune/bitmap1024"
	"pgregory.net/rapid"

	"verifharness/c08bitmap"
	"verifharness/vkit"
)

const Property = "C09"

const (
	blockBits = 1024
	// BigU32 represents [0, MaxUint32*1024-1] (README §7, comment of bigu32.go).
	bigLimit = int64(math.MaxUint32) * blockBits // first integer that is NOT representable
	// U32BitTip covers all uint32: block starts 0..MaxUint32/1024.
	maxTipStart = uint32(math.MaxUint32 / blockBits)
	two32       = int64(1) << 32
	maxN        = 5000 // executor-side clamp of iteration counts (GetN* allocates n slots)
)

// ---------------------------------------------------------------------------
// the serialisation format, written from the description (README §5, Marshal):
//   * no member             -> no bytes
//   * fewer than 64 members -> 2 bytes per member, each member (0..1023) as a
//                              little-endian 16-bit integer
//   * otherwise             -> the bitmap itself: 16 little-endian 64-bit words,
//                              member m is bit m%64 of word m/64 (128 bytes)
// Hence: 128 bytes are always the dense form, an even length below 128 is the
// sparse form, anything else (odd, longer than 128, an element outside
// 0..1023) denotes nothing.

type decoded struct {
	set   [blockBits]bool
	count int    // distinct members
	must  string // non-empty: the bytes denote no bitmap, Unmarshal must fail (reason)
	open  string // non-empty: a corner the format description leaves open; failing is accepted as well
	dense bool
	elems []int // sparse form: the elements as written
}

func decodeFormat(buf []byte) *decoded {
	d := &decoded{}
	n := len(buf)
	switch {
	case n == 0:
		return d
	case n > 128:
		d.must = "longer than 128 bytes"
		return d
	case n == 128:
		d.dense = true
		for m := 0; m < blockBits; m++ {
			// byte (m/64)*8 + (m%64)/8 of the little-endian word, bit m%8 of it
			if buf[(m/64)*8+(m%64)/8]&(1<<uint(m%8)) != 0 {
				d.set[m] = true
				d.count++
			}
		}
		return d
	case n%2 != 0:
		d.must = "odd length below 128"
		return d
	}
	prev := -1
	for i := 0; i < n; i += 2 {
		e := int(buf[i]) | int(buf[i+1])<<8
		d.elems = append(d.elems, e)
		if e > 1023 {
			if d.must == "" {
				d.must = fmt.Sprintf("element %d (as int16 %d) outside 0..1023", e, int16(uint16(e)))
			}
			continue
		}
		if d.set[e] {
			d.open = "duplicate element"
		} else {
			d.set[e] = true
			d.count++
			if e < prev && d.open == "" {
				d.open = "elements not ascending"
			}
		}
		prev = e
	}
	return d
}

// ---------------------------------------------------------------------------
// small helpers

func toBit1024(ws []uint64) bitmap1024.Bit1024 {
	b := bitmap1024.NewBit1024()
	for i := range ws {
		b[i] = bitmap1024.Bit64(ws[i])
	}
	return b
}

func membersOfWords(ws []uint64) []int {
	var m []int
	for i := 0; i < blockBits; i++ {
		if ws[i/64]&(1<<uint(i%64)) != 0 {
			m = append(m, i)
		}
	}
	return m
}

// diffSet compares a bitmap with a membership array; returns the first differing member.
func diffSet(b bitmap1024.Bit1024, set *[blockBits]bool) (int, bool) {
	if len(b) != 16 {
		return -1, true
	}
	for m := 0; m < blockBits; m++ {
		if (uint64(b[m/64])&(1<<uint(m%64)) != 0) != set[m] {
			return m, true
		}
	}
	return 0, false
}

func wordsFromPositions(ps []int) []uint64 {
	ws := make([]uint64, 16)
	for _, p := range ps {
		if p >= 0 && p < blockBits {
			ws[p/64] |= 1 << uint(p%64)
		}
	}
	return ws
}

func clampN(n int) int {
	if n > maxN {
		return maxN
	}
	return n
}

func clampRange(v, lo, hi int) int {
	if v < lo {
		return lo
	}
	if v > hi {
		return hi
	}
	return v
}

func reversed(m []int64) []int64 {
	r := make([]int64, len(m))
	for i, v := range m {
		r[len(m)-1-i] = v
	}
	return r
}

func expectCount(n, l int) int {
	if n < 0 {
		n = 0
	}
	if n > l {
		return l
	}
	return n
}

func show(s []int64) string {
	if len(s) <= 12 {
		return fmt.Sprint(s)
	}
	return fmt.Sprintf("%v ... %v (%d elements)", s[:6], s[len(s)-4:], len(s))
}

// ---------------------------------------------------------------------------
// generators of bitmaps

var exactCounts = []int{0, 1, 2, 62, 63, 64, 65}

// genMembers draws a 1024-bit map (16 words) whose member count sits on the
// interesting values with high probability.
func genMembers(t *rapid.T, label string) []uint64 {
	distinct := func(k int) []int {
		return rapid.SliceOfNDistinct(rapid.IntRange(0, blockBits-1), k, k, rapid.ID[int]).Draw(t, label+"pos")
	}
	switch rapid.IntRange(0, 9).Draw(t, label+"shape") {
	case 0, 1: // exactly 0,1,2,62,63,64,65 members at random positions
		return wordsFromPositions(distinct(rapid.SampledFrom(exactCounts).Draw(t, label+"k")))
	case 2: // exactly 1023 / 1024 members
		ws := make([]uint64, 16)
		for i := range ws {
			ws[i] = math.MaxUint64
		}
		if rapid.Bool().Draw(t, label+"minus1") {
			p := rapid.SampledFrom([]int{0, 1023, 63, 64, 512, -1}).Draw(t, label+"hole")
			if p < 0 {
				p = rapid.IntRange(0, blockBits-1).Draw(t, label+"holeR")
			}
			ws[p/64] &^= 1 << uint(p%64)
		}
		return ws
	case 3: // a contiguous run whose length sits on the switch, touching an end of the block or not
		k := rapid.SampledFrom([]int{1, 2, 62, 63, 64, 65, 127, 128}).Draw(t, label+"run")
		var from int
		switch rapid.IntRange(0, 2).Draw(t, label+"where") {
		case 0:
			from = 0
		case 1:
			from = blockBits - k
		default:
			from = rapid.IntRange(0, blockBits-k).Draw(t, label+"from")
		}
		ps := make([]int, k)
		for i := range ps {
			ps[i] = from + i
		}
		return wordsFromPositions(ps)
	case 4: // any count 0..130 at random positions
		return wordsFromPositions(distinct(rapid.IntRange(0, 130).Draw(t, label+"kr")))
	case 5: // one or two full words (exactly 64 / 128 members inside single words) plus a few extra
		ws := make([]uint64, 16)
		ws[rapid.IntRange(0, 15).Draw(t, label+"fw")] = math.MaxUint64
		if rapid.Bool().Draw(t, label+"two") {
			ws[rapid.IntRange(0, 15).Draw(t, label+"fw2")] = math.MaxUint64
		}
		switch rapid.IntRange(0, 2).Draw(t, label+"tweak") {
		case 0:
		case 1: // one more member
			p := rapid.IntRange(0, blockBits-1).Draw(t, label+"extra")
			ws[p/64] |= 1 << uint(p%64)
		default: // one member fewer
			p := rapid.IntRange(0, blockBits-1).Draw(t, label+"less")
			ws[p/64] &^= 1 << uint(p%64)
		}
		return ws
	case 6: // a few words from the C08 mixture
		ws := make([]uint64, 16)
		for i, k := 0, rapid.IntRange(1, 3).Draw(t, label+"nw"); i < k; i++ {
			ws[rapid.IntRange(0, 15).Draw(t, label+"wi")] = c08bitmap.GenWord(t, 9, label+"w")
		}
		return ws
	default: // every word from the C08 mixture
		ws := make([]uint64, 16)
		for i := range ws {
			ws[i] = c08bitmap.GenWord(t, 9, fmt.Sprintf("%sw%d", label, i))
		}
		return ws
	}
}

func genN(t *rapid.T, l int, label string) int {
	switch rapid.IntRange(0, 7).Draw(t, label+"kind") {
	case 0:
		return 0
	case 1:
		return 1
	case 2:
		return l - 1
	case 3:
		return l
	case 4:
		return l + 1
	case 5:
		return rapid.IntRange(1025, 1500).Draw(t, label+"big")
	case 6:
		return rapid.IntRange(-3, -1).Draw(t, label+"neg")
	default:
		return rapid.IntRange(0, l+2).Draw(t, label+"rand")
	}
}

func classCount(res *vkit.Result, l int) {
	switch l {
	case 0, 1, 2, 62, 63, 64, 65, 1023, 1024:
		res.Class(fmt.Sprintf("members=%d", l))
	default:
		if l < 64 {
			res.Class("members<64")
		} else {
			res.Class("members>65")
		}
	}
}

// ---------------------------------------------------------------------------
// part 1: Marshal and the round trip

type CaseMarshal struct {
	Words []uint64 `json:"words"` // 16
	// Later: bitmaps marshalled afterwards; every encoding handed out before must still hold its bytes then
	Later [][]uint64 `json:"later,omitempty"`
	// Deep: that many further Marshal calls follow (the bitmaps of Later and Words, their words rotated by the call index)
	Deep int `json:"deep,omitempty"`
	// Touch: members toggled in the bitmap after Marshal; the encoding must not follow
	Touch []int `json:"touch,omitempty"`
	// Scribble: the caller writes over every encoding it was handed (1: zeros, 2: 0xff, 3: inverted);
	// neither the bitmaps nor later Marshal calls may notice
	Scribble int `json:"scribble,omitempty"`
}

const maxDeep = 96

func GenMarshal(t *rapid.T) CaseMarshal {
	c := CaseMarshal{Words: genMembers(t, "m")}
	for i, k := 0, rapid.SampledFrom([]int{0, 0, 1, 2, 3}).Draw(t, "later"); i < k; i++ {
		c.Later = append(c.Later, genMembers(t, "later"))
	}
	deep := []int{0, 0, 0, 0, 0, 0, 0, 0, 0, 0, 0, 0, 1, 7, 8, 9, 12, 20}
	if vkit.Tier() == "thorough" {
		deep = append(deep, 33, 65, maxDeep)
	}
	c.Deep = rapid.SampledFrom(deep).Draw(t, "deep")
	if rapid.IntRange(0, 2).Draw(t, "touches") == 0 {
		var mem []int
		for i, k := 0, rapid.IntRange(1, 3).Draw(t, "ntouch"); i < k; i++ {
			kind := rapid.IntRange(0, 3).Draw(t, "tkind")
			if kind == 0 && mem == nil {
				mem = membersOfWords(c.Words)
			}
			switch {
			case kind == 0 && len(mem) > 0: // a member: it is unset
				c.Touch = append(c.Touch, rapid.SampledFrom(mem).Draw(t, "tmem"))
			case kind == 1:
				c.Touch = append(c.Touch, rapid.SampledFrom([]int{0, 1, 63, 64, 511, 512, 1022, 1023}).Draw(t, "tedge"))
			default:
				c.Touch = append(c.Touch, rapid.IntRange(0, blockBits-1).Draw(t, "tpos"))
			}
		}
	}
	c.Scribble = rapid.SampledFrom([]int{0, 0, 0, 1, 1, 2, 3}).Draw(t, "scribble")
	return c
}

// denotes: "" when enc is an encoding of the bitmap ws under the documented format, else what is wrong
// (word-wise twin of decodeFormat for the many encodings of the retention checks).
func denotes(enc []byte, ws []uint64) string {
	l := 0
	for _, w := range ws {
		l += bits.OnesCount64(w)
	}
	wantLen := 128
	if l < 64 {
		wantLen = 2 * l
	}
	if len(enc) != wantLen {
		return fmt.Sprintf("%d members encoded in %d bytes, want %d", l, len(enc), wantLen)
	}
	var got [16]uint64
	if wantLen == 128 {
		for i := range enc {
			got[i/8] |= uint64(enc[i]) << (8 * uint(i%8))
		}
	} else {
		for i := 0; i < len(enc); i += 2 {
			e := int(enc[i]) | int(enc[i+1])<<8
			if e > 1023 {
				return fmt.Sprintf("element %d outside 0..1023", e)
			}
			got[e/64] |= 1 << uint(e%64) // a duplicate leaves a member missing: the words differ
		}
	}
	for i := range ws {
		if got[i] != ws[i] {
			return fmt.Sprintf("the bytes denote a bitmap whose word %d is %#x, the bitmap has %#x", i, got[i], ws[i])
		}
	}
	return ""
}

func rotateWords(ws []uint64, by int) []uint64 {
	out := make([]uint64, len(ws))
	for i := range ws {
		out[(i+by)%len(ws)] = ws[i]
	}
	return out
}

func ExecMarshal(c CaseMarshal) *vkit.Result {
	res := &vkit.Result{}
	if len(c.Words) != 16 {
		res.Skip("malformed-case")
		return res
	}
	b := toBit1024(c.Words)
	mem := membersOfWords(c.Words)
	l := len(mem)
	classCount(res, l)
	enc := b.Marshal()
	for i := range c.Words {
		if uint64(b[i]) != c.Words[i] {
			return res.Failf("Marshal/mutates", "Marshal changed word %d of the bitmap", i)
		}
	}
	wantLen := 128
	if l < 64 {
		wantLen = 2 * l
		res.Class("sparse-encoding")
	} else {
		res.Class("dense-encoding")
	}
	if len(enc) != wantLen {
		return res.Failf("Marshal/length", "%d members encoded in %d bytes, want %d (2 per member below 64 members, else 128)", l, len(enc), wantLen)
	}
	// the bytes must denote the bitmap under the documented format (independent decoder)
	d := decodeFormat(enc)
	if d.must != "" {
		return res.Failf("Marshal/content", "%d members: encoding %x denotes no bitmap: %s", l, enc, d.must)
	}
	if m, diff := diffSet(b, &d.set); diff || d.count != l || len(d.elems) != map[bool]int{true: 0, false: l}[d.dense] {
		return res.Failf("Marshal/content", "%d members: encoding %x denotes %d members in %d elements, membership of %d differs", l, enc, d.count, len(d.elems), m)
	}
	// and Unmarshal into a fresh bitmap must reproduce it exactly
	keep := append([]byte(nil), enc...)
	fresh := bitmap1024.NewBit1024()
	if err := fresh.Unmarshal(enc); err != nil {
		return res.Failf("Unmarshal/rejects-marshal", "Unmarshal(Marshal(b)) with %d members (%d bytes) failed: %v", l, len(enc), err)
	}
	if !fresh.Equal(b) || !b.Equal(fresh) {
		m, _ := diffSet(fresh, &d.set)
		return res.Failf("roundtrip", "Unmarshal(Marshal(b)) != b: %d members, %d bytes, result has %d members, first difference at %d", l, len(enc), fresh.Len(), m)
	}
	if m, diff := diffSet(fresh, &d.set); diff {
		return res.Failf("roundtrip", "Equal reports true but member %d differs", m)
	}
	if string(keep) != string(enc) {
		return res.Failf("Unmarshal/mutates-input", "Unmarshal changed its input")
	}
	// the encoding is a value of its own: changing the bitmap afterwards must not change the bytes handed out
	cur := append([]uint64(nil), c.Words...)
	touched := false
	for _, p := range c.Touch {
		if p < 0 || p >= blockBits {
			continue
		}
		if cur[p/64]&(1<<uint(p%64)) != 0 {
			b.UnsetI16(int16(p))
		} else {
			b.SetI16(int16(p))
		}
		cur[p/64] ^= 1 << uint(p%64)
		touched = true
	}
	if touched {
		res.Class("bitmap-modified-after-marshal")
		if string(keep) != string(enc) {
			return res.Failf("Marshal/aliases-bitmap", "the encoding of %d members (%d bytes) changed when the bitmap was modified after Marshal (members %v toggled): was %x, is %x", l, len(keep), c.Touch, keep, enc)
		}
		for i := range cur { // the model of the modified bitmap is only used if Set/Unset did what C08 says
			cur[i] = uint64(b[i])
		}
	}
	// the encoding belongs to the caller: later Marshal calls (of other bitmaps, of the same one) must leave it alone
	type kept struct {
		enc, copy []byte
		words     []uint64
		bm        bitmap1024.Bit1024
	}
	held := []kept{{enc, keep, c.Words, nil}}
	marshalHeld := func(w []uint64, what string, k int) bool {
		bm := toBit1024(w)
		e := bm.Marshal()
		if why := denotes(e, w); why != "" {
			res.Failf("Marshal/content", "%d. %s bitmap: %s (encoding %x)", k, what, why, e)
			return false
		}
		held = append(held, kept{e, append([]byte(nil), e...), w, bm})
		return true
	}
	var pool [][]uint64
	for i, w := range c.Later {
		if len(w) != 16 || i >= 8 {
			continue
		}
		pool = append(pool, w)
		if !marshalHeld(w, "later", i+1) {
			return res
		}
	}
	pool = append(pool, c.Words)
	deep := clampRange(c.Deep, 0, maxDeep)
	for j := 0; j < deep; j++ {
		if !marshalHeld(rotateWords(pool[j%len(pool)], j+1), "further", j+1) {
			return res
		}
	}
	if deep >= 8 {
		res.Class("encodings-retained-across>=8-later-marshals")
	}
	if len(held) > 1 || touched {
		// the bitmap itself once more, in its present state
		if why := denotes(b.Marshal(), cur); why != "" {
			return res.Failf("Marshal/content", "second Marshal of the bitmap (members %v toggled in between): %s", c.Touch, why)
		}
	}
	if len(held) > 1 {
		res.Class("encodings-retained-across-later-marshals")
		for i, h := range held {
			if string(h.enc) != string(h.copy) {
				return res.Failf("Marshal/retained", "the %d. encoding handed out by Marshal (%d bytes) changed after %d later Marshal calls: was %x, is %x", i+1, len(h.copy), len(held)-i, h.copy, h.enc)
			}
			back := bitmap1024.NewBit1024()
			if err := back.Unmarshal(h.enc); err != nil || !back.Equal(toBit1024(h.words)) {
				return res.Failf("Marshal/retained", "the %d. encoding handed out by Marshal no longer decodes to its bitmap after later Marshal calls (err %v)", i+1, err)
			}
		}
	}
	// the caller may do with its bytes what it likes
	if c.Scribble >= 1 && c.Scribble <= 3 && l > 0 {
		res.Class("encodings-overwritten-by-the-caller")
		for _, h := range held {
			for i := range h.enc {
				switch c.Scribble {
				case 1:
					h.enc[i] = 0
				case 2:
					h.enc[i] = 0xff
				default:
					h.enc[i] = ^h.enc[i]
				}
			}
		}
		func() {
			for i := range cur {
				if uint64(b[i]) != cur[i] {
					res.Failf("Marshal/aliases-bitmap", "writing into the bytes Marshal returned (%d members, %d bytes) changed word %d of the bitmap: was %#x, is %#x", l, len(keep), i, cur[i], uint64(b[i]))
					return
				}
			}
			for k, h := range held[1:] {
				for i := range h.words {
					if uint64(h.bm[i]) != h.words[i] {
						res.Failf("Marshal/aliases-bitmap", "writing into the bytes Marshal returned changed word %d of the %d. later bitmap: was %#x, is %#x", i, k+1, h.words[i], uint64(h.bm[i]))
						return
					}
				}
			}
			// and a Marshal afterwards is as right as the first one
			for k, h := range held {
				if k > 4 {
					break
				}
				e := toBit1024(h.words).Marshal()
				if why := denotes(e, h.words); why != "" {
					res.Failf("Marshal/after-overwrite", "Marshal of a bitmap with %d members after the caller wrote over the bytes of an earlier Marshal of the same bitmap: %s (encoding %x)", len(membersOfWords(h.words)), why, e)
					return
				}
			}
		}()
		// put the bytes back: should they be shared with the library after all, the next case starts clean (replayable verdicts)
		for _, h := range held {
			copy(h.enc, h.copy)
		}
		if res.Fail != nil {
			return res
		}
	}
	res.NonTrivial = l > 0
	return res
}

// ---------------------------------------------------------------------------
// part 2: Unmarshal of arbitrary bytes

type CaseBytes struct {
	Data []byte `json:"data"`
	// Start: block start handed to New...FromData together with Data
	Start uint32 `json:"start,omitempty"`
}

var hostileElems = []int{0, 1, 63, 64, 1022, 1023, 1024, 1025, 0x7fff, 0x8000, 0xffff, 0xfc00, 0x0400, 0x03ff, 0xff03, 0x0004}

func encodeElems(es []int) []byte {
	out := make([]byte, 0, 2*len(es))
	for _, e := range es {
		out = append(out, byte(e), byte(e>>8))
	}
	return out
}

func GenBytes(t *rapid.T) CaseBytes {
	c := genBytes(t)
	c.Start = rapid.SampledFrom([]uint32{0, 0, 0, 1, 5, 1<<21 + 1, maxTipStart, maxTipStart + 1, 1<<22 + 5, math.MaxUint32 - 1}).Draw(t, "start")
	return c
}

func genBytes(t *rapid.T) CaseBytes {
	randBytes := func(n int, label string) []byte {
		return rapid.SliceOfN(rapid.Byte(), n, n).Draw(t, label)
	}
	switch rapid.IntRange(0, 9).Draw(t, "kind") {
	case 0, 1: // random bytes of every length 0..130
		return CaseBytes{Data: randBytes(rapid.IntRange(0, 130).Draw(t, "len"), "raw")}
	case 2: // in-range elements, any order, duplicates likely for larger k
		k := rapid.IntRange(1, 65).Draw(t, "k")
		es := rapid.SliceOfN(rapid.IntRange(0, 1023), k, k).Draw(t, "elems")
		return CaseBytes{Data: encodeElems(es)}
	case 3, 4, 5, 6: // a valid sparse encoding, then one mutation
		k := rapid.SampledFrom([]int{0, 1, 2, 3, 5, 31, 61, 62, 63}).Draw(t, "k")
		es := rapid.SliceOfNDistinct(rapid.IntRange(0, 1023), k, k, rapid.ID[int]).Draw(t, "elems")
		sort.Ints(es)
		idx := func(label string) int {
			if len(es) == 0 {
				return -1
			}
			return rapid.IntRange(0, len(es)-1).Draw(t, label)
		}
		var tail []byte
		switch rapid.IntRange(0, 8).Draw(t, "mut") {
		case 0: // unchanged
		case 1: // one element replaced by a hostile constant
			if i := idx("i"); i >= 0 {
				es[i] = rapid.SampledFrom(hostileElems).Draw(t, "hostile")
			} else {
				es = append(es, rapid.SampledFrom(hostileElems).Draw(t, "hostile"))
			}
		case 2: // a duplicated element
			if i := idx("i"); i >= 0 {
				if rapid.Bool().Draw(t, "append") && len(es) < 63 {
					es = append(es, es[i])
				} else {
					es[idx("j")] = es[i]
				}
			}
		case 3: // last byte dropped (odd length)
			b := encodeElems(es)
			if len(b) > 0 {
				return CaseBytes{Data: b[:len(b)-1]}
			}
		case 4: // one byte appended (odd length)
			tail = randBytes(1, "tail")
		case 5: // two elements swapped (not ascending)
			if i := idx("i"); i >= 0 {
				j := idx("j")
				es[i], es[j] = es[j], es[i]
			}
		case 6: // padded with further in-range elements up to 126 / 128 / 130 bytes
			target := rapid.SampledFrom([]int{63, 64, 65}).Draw(t, "pad")
			for len(es) < target {
				es = append(es, rapid.IntRange(0, 1023).Draw(t, "padv"))
			}
		case 7: // an element appended
			es = append(es, rapid.SampledFrom(hostileElems).Draw(t, "hostile"))
		default: // one random element anywhere in the 16-bit range
			if i := idx("i"); i >= 0 {
				es[i] = rapid.IntRange(0, 0xffff).Draw(t, "any16")
			}
		}
		return CaseBytes{Data: append(encodeElems(es), tail...)}
	case 7: // 128 bytes: a bitmap from the member-count mixture
		ws := genMembers(t, "d")
		out := make([]byte, 128)
		for i, w := range ws {
			for j := 0; j < 8; j++ {
				out[i*8+j] = byte(w >> (8 * uint(j)))
			}
		}
		return CaseBytes{Data: out}
	case 8: // the lengths around the limits
		n := rapid.SampledFrom([]int{125, 126, 127, 128, 129, 130}).Draw(t, "len")
		if rapid.Bool().Draw(t, "small") { // every 16-bit unit is a valid element
			es := rapid.SliceOfN(rapid.IntRange(0, 1023), 65, 65).Draw(t, "elems")
			return CaseBytes{Data: encodeElems(es)[:n]}
		}
		return CaseBytes{Data: randBytes(n, "raw")}
	default: // constant fill
		n := rapid.IntRange(0, 130).Draw(t, "len")
		v := rapid.SampledFrom([]byte{0, 0xff, 0x03, 0x04, 0x80}).Draw(t, "fill")
		out := make([]byte, n)
		for i := range out {
			out[i] = v
		}
		return CaseBytes{Data: out}
	}
}

func ExecBytes(c CaseBytes) *vkit.Result {
	res := &vkit.Result{}
	data := append([]byte(nil), c.Data...)
	n := len(data)
	switch {
	case n == 0:
		res.Class("len=0")
	case n > 128:
		res.Class("len>128")
	case n == 128:
		res.Class("len=128")
	case n%2 != 0:
		res.Class("len-odd")
	default:
		res.Class("len-even<128")
	}
	d := decodeFormat(data)
	for _, e := range d.elems {
		switch e {
		case 1023:
			res.Class("element=1023")
		case 1024:
			res.Class("element=1024")
		case 0xffff:
			res.Class("element=-1")
		}
	}
	switch {
	case d.must != "":
		res.Class("denotes-nothing")
		if len(d.elems) > 0 {
			res.Class("element-out-of-range")
		}
	case d.open != "":
		res.Class("open:" + d.open)
	case d.dense:
		res.Class("valid-dense")
	case n > 0:
		res.Class("valid-sparse")
	}
	fresh := bitmap1024.NewBit1024()
	err := fresh.Unmarshal(data) // a panic is reported by the part's guard (site "panic")
	if string(data) != string(c.Data) {
		return res.Failf("Unmarshal/mutates-input", "Unmarshal changed its input %x", c.Data)
	}
	switch {
	case err != nil:
		if d.must == "" && d.open == "" {
			return res.Failf("Unmarshal/rejects-valid", "%d bytes %x denote a bitmap of %d members, Unmarshal failed: %v", n, c.Data, d.count, err)
		}
		res.Class("rejected")
	case d.must != "":
		return res.Failf("Unmarshal/accepts-invalid", "%d bytes %x denote no bitmap (%s), Unmarshal returned nil with %d members", n, c.Data, d.must, fresh.Len())
	default:
		if m, diff := diffSet(fresh, &d.set); diff {
			return res.Failf("Unmarshal/set", "%d bytes %x denote %d members, Unmarshal produced %d members; membership of %d differs", n, c.Data, d.count, fresh.Len(), m)
		}
		res.Class("accepted")
		res.NonTrivial = n > 0
	}
	// the block constructors take the same bytes: they fail exactly when Unmarshal does (bytes that denote
	// nothing never give a block) and otherwise hold the denoted set under the given start
	fromData := func(name string, berr error, isNil bool, start uint32, set bitmap1024.Bit1024) bool {
		if (berr == nil) != (err == nil) {
			what := "denote a bitmap of " + fmt.Sprint(d.count) + " members"
			if d.must != "" {
				what = "denote no bitmap (" + d.must + ")"
			}
			res.Failf(name+"/error", "%d bytes %x %s, Unmarshal returned %v, %s(%d, bytes) returned error %v", n, c.Data, what, err, name, c.Start, berr)
			return false
		}
		if berr != nil {
			return true
		}
		if isNil {
			res.Failf(name+"/error", "%s(%d, %d bytes %x) returned nil, nil", name, c.Start, n, c.Data)
			return false
		}
		if m, diff := diffSet(set, &d.set); diff || start != c.Start {
			res.Failf(name+"/set", "%s(%d, %d bytes %x): block start %d with %d members, want start %d and the %d denoted members; membership of %d differs", name, c.Start, n, c.Data, start, set.Len(), c.Start, d.count, m)
			return false
		}
		return true
	}
	big, berr := bitmap1024.NewBigU32FromData(c.Start, data)
	if big == nil {
		if !fromData("NewBigU32FromData", berr, true, 0, nil) {
			return res
		}
	} else if !fromData("NewBigU32FromData", berr, false, big.Start, big.B1024) {
		return res
	}
	tip, terr := bitmap1024.NewU32BitTipFromData(c.Start, data)
	switch {
	case c.Start > maxTipStart && terr != nil: // values of such a block do not fit uint32: an error is accepted whatever the bytes
	case tip == nil:
		fromData("NewU32BitTipFromData", terr, true, 0, nil)
	default:
		fromData("NewU32BitTipFromData", terr, false, tip.Start, tip.B1024)
	}
	if string(data) != string(c.Data) {
		return res.Failf("Unmarshal/mutates-input", "New...FromData changed its input %x", c.Data)
	}
	return res
}

// ---------------------------------------------------------------------------
// oracles shared by the block-integer parts (all values as int64)

// blockOps is one block object seen through width-independent closures.
type blockOps struct {
	name  string // "BigU32" | "U32BitTip"
	elem  string // "I64" | "U32"
	getN  func(n int) []int64
	rgetN func(n int) []int64
	iter  func(length, pos, n int, sentinel int64) (int, []int64)
	riter func(length, pos, n int, sentinel int64) (int, []int64)
}

var sentinel = int64(-0x5a5a5a5a5a5a5a5b) // a variable: it is truncated to uint32 at run time

func fill[T any](n int, v T) []T {
	s := make([]T, n)
	for i := range s {
		s[i] = v
	}
	return s
}

func toI64[T uint32 | int64](s []T) []int64 {
	o := make([]int64, len(s))
	for i, v := range s {
		o[i] = int64(v)
	}
	return o
}

// ledger keeps the lists handed out by GetN*/RGetN*: a returned list is the caller's, later
// GetN calls (on the same block, on other blocks, on lists) must leave it as it was.
type ledger struct {
	held []func() string
}

func hold[T comparable](lg *ledger, site string, n int, s []T) []T {
	if lg == nil || len(s) == 0 {
		return s
	}
	cp := append([]T(nil), s...)
	lg.held = append(lg.held, func() string {
		for i := range cp {
			if s[i] != cp[i] {
				return fmt.Sprintf("the list of %d elements returned by %s(%d) changed after later GetN/RGetN calls: element %d was %v, is %v", len(cp), site, n, i, cp[i], s[i])
			}
		}
		return ""
	})
	return s
}

func (lg *ledger) check(res *vkit.Result, ctx string) {
	if res.Fail != nil {
		return
	}
	for _, h := range lg.held {
		if msg := h(); msg != "" {
			res.Failf("GetN/retained", "%s %s", ctx, msg)
			return
		}
	}
	if len(lg.held) > 1 {
		res.Class("lists-retained-across-later-GetN")
	}
}

func opsBig(b *bitmap1024.BigU32, lg *ledger) blockOps {
	return blockOps{
		name: "BigU32", elem: "I64",
		getN:  func(n int) []int64 { return hold(lg, "BigU32.GetNAsI64", n, b.GetNAsI64(n)) },
		rgetN: func(n int) []int64 { return hold(lg, "BigU32.RGetNAsI64", n, b.RGetNAsI64(n)) },
		iter: func(l, p, n int, sv int64) (int, []int64) {
			s := fill(l, sv)
			return b.IterAsI64(s, p, n), s
		},
		riter: func(l, p, n int, sv int64) (int, []int64) {
			s := fill(l, sv)
			return b.RIterAsI64(s, p, n), s
		},
	}
}

func opsTip(b *bitmap1024.U32BitTip, lg *ledger) blockOps {
	return blockOps{
		name: "U32BitTip", elem: "U32",
		getN:  func(n int) []int64 { return toI64(hold(lg, "U32BitTip.GetNAsU32", n, b.GetNAsU32(n))) },
		rgetN: func(n int) []int64 { return toI64(hold(lg, "U32BitTip.RGetNAsU32", n, b.RGetNAsU32(n))) },
		iter: func(l, p, n int, sv int64) (int, []int64) {
			s := fill(l, uint32(sv))
			return b.IterAsU32(s, p, n), toI64(s)
		},
		riter: func(l, p, n int, sv int64) (int, []int64) {
			s := fill(l, uint32(sv))
			return b.RIterAsU32(s, p, n), toI64(s)
		},
	}
}

// checkSeq: got must be the first min(n,len) members in the given direction.
func checkSeq(res *vkit.Result, site, ctx string, got []int64, asc []int64, reverse bool, n int) {
	if res.Fail != nil {
		return
	}
	order := asc
	dir := "ascending"
	if reverse {
		order = reversed(asc)
		dir = "descending"
	}
	want := expectCount(n, len(order))
	if len(got) != want {
		res.Failf(site+"/count", "%s %s(%d) returned %d elements %s, want the first %d of the %s members %s", ctx, site, n, len(got), show(got), want, dir, show(order))
		return
	}
	for k := 0; k < want; k++ {
		if got[k] != order[k] {
			res.Failf(site+"/value", "%s %s(%d)[%d] = %d, want %d: got %s, want the first %d of the %s members %s", ctx, site, n, k, got[k], order[k], show(got), want, dir, show(order))
			return
		}
	}
}

// checkSlots: an Iter*/RIter* call on a sentinel-filled slice.
func checkSlots(res *vkit.Result, site, ctx string, call func(length, pos, n int, sentinel int64) (int, []int64), u32 bool, asc []int64, reverse bool, pos, slack, n int) {
	if res.Fail != nil {
		return
	}
	order := asc
	if reverse {
		order = reversed(asc)
	}
	want := expectCount(n, len(order))
	length := pos + want + slack
	sent := sentinel
	if u32 {
		sent = int64(uint32(sentinel))
	}
	got, s := call(length, pos, n, sent)
	if got != want {
		res.Failf(site+"/count", "%s %s(pos=%d,n=%d) returned %d, want min(max(n,0),%d members)=%d", ctx, site, pos, n, got, len(order), want)
		return
	}
	for k := 0; k < length; k++ {
		exp := sent
		if k >= pos && k < pos+want {
			exp = order[k-pos]
		}
		if s[k] != exp {
			res.Failf(site+"/value", "%s %s(pos=%d,n=%d): slot %d = %d, want %d (members in iteration order %s)", ctx, site, pos, n, k, s[k], exp, show(order))
			return
		}
	}
}

// checkBlock runs every iteration entry point of one block against the
// ascending member list.
func checkBlock(res *vkit.Result, o blockOps, ctx string, asc []int64, n, pos, slack int) {
	u32 := o.elem == "U32"
	for _, nn := range []int{n, len(asc) + 1} {
		if nn < 0 {
			continue // GetN* allocates n slots: n >= 0 is its precondition
		}
		checkSeq(res, o.name+".GetNAs"+o.elem, ctx, o.getN(nn), asc, false, nn)
		checkSeq(res, o.name+".RGetNAs"+o.elem, ctx, o.rgetN(nn), asc, true, nn)
	}
	checkSlots(res, o.name+".IterAs"+o.elem, ctx, o.iter, u32, asc, false, pos, slack, n)
	checkSlots(res, o.name+".RIterAs"+o.elem, ctx, o.riter, u32, asc, true, pos, slack, n)
}

// checkConcat: the list types concatenate per-block iteration. The order in
// which blocks are visited is deliberately not asserted: got must split into
// runs, one per visited block, each run being that block's members in the
// given direction, complete except possibly for the last run, and the total
// must be min(n, all members).
func checkConcat(res *vkit.Result, site, ctx string, got []int64, blocks [][]int64, reverse bool, n int) {
	if res.Fail != nil {
		return
	}
	total := 0
	byStart := map[int64]int{}
	for i, b := range blocks {
		total += len(b)
		if len(b) > 0 {
			byStart[b[0]/blockBits] = i
		}
	}
	want := expectCount(n, total)
	if len(got) != want {
		res.Failf(site+"/count", "%s %s(%d) returned %d elements, want min(n, %d members in %d blocks) = %d; got %s", ctx, site, n, len(got), total, len(blocks), want, show(got))
		return
	}
	visited := map[int]bool{}
	for i := 0; i < len(got); {
		bi, ok := byStart[floorDiv(got[i], blockBits)]
		if !ok || visited[bi] {
			res.Failf(site+"/value", "%s %s(%d)[%d] = %d belongs to no block of the list or to a block already visited; got %s", ctx, site, n, i, got[i], show(got))
			return
		}
		visited[bi] = true
		order := blocks[bi]
		if reverse {
			order = reversed(order)
		}
		r := len(order)
		if len(got)-i < r {
			r = len(got) - i
		}
		for k := 0; k < r; k++ {
			if got[i+k] != order[k] {
				res.Failf(site+"/value", "%s %s(%d)[%d] = %d, want %d (block %d in iteration order %s); got %s", ctx, site, n, i+k, got[i+k], order[k], order[0]/blockBits, show(order), show(got))
				return
			}
		}
		i += r
	}
}

func floorDiv(a, b int64) int64 {
	q := a / b
	if a%b != 0 && (a < 0) != (b < 0) {
		q--
	}
	return q
}

// blockModel is the reference model of one block: its start and members.
type blockModel struct {
	start int64
	mem   map[int64]bool
}

func (m *blockModel) asc() []int64 {
	out := make([]int64, 0, len(m.mem))
	for v := range m.mem {
		out = append(out, v)
	}
	sort.Slice(out, func(i, j int) bool { return out[i] < out[j] })
	return out
}

const maxBlocks = 6

// ---------------------------------------------------------------------------
// part 3: BigU32 (int64 blocks)

type CaseBig struct {
	V     int64   `json:"v"`    // the integer the block is built from
	More  []int64 `json:"more"` // further integers offered to SetI64
	N     int     `json:"n"`
	ListN int     `json:"list_n"`
	Pos   int     `json:"pos"`
	Slack int     `json:"slack"`
	// Empty: positions of the block list at which an empty block (built from no data) is inserted
	Empty []int `json:"empty,omitempty"`
}

func genEmpty(t *rapid.T) []int {
	var e []int
	for i, k := 0, rapid.SampledFrom([]int{0, 0, 0, 1, 1, 2}).Draw(t, "nempty"); i < k; i++ {
		e = append(e, rapid.IntRange(0, maxBlocks).Draw(t, "empty"))
	}
	return e
}

func inBig(v int64) bool { return v >= 0 && v < bigLimit }

var bigBoundaries = []int64{-1, 0, 1, 1023, 1024, 1025, two32 - 1, two32, two32 + 5, two32 + 1023, two32 + 1024,
	two32 - 1024, 1 << 41, 1<<41 - 1, 1<<41 + 1023, bigLimit - 1, bigLimit, bigLimit + 1, bigLimit - 1024, bigLimit - 1025, bigLimit + 1023,
	1 << 42, 1<<42 - 1, math.MaxInt64, math.MinInt64, -1024, math.MaxInt32, int64(math.MaxInt32) + 1, math.MaxUint32 + 6}

func genBigV(t *rapid.T, label string) int64 {
	switch rapid.IntRange(0, 7).Draw(t, label+"kind") {
	case 0, 1:
		return rapid.SampledFrom(bigBoundaries).Draw(t, label+"b")
	case 2, 3: // block start >= 2^22
		return rapid.Int64Range(two32, bigLimit-1).Draw(t, label+"hi")
	case 4:
		return rapid.Int64Range(0, two32-1).Draw(t, label+"lo")
	case 5:
		return rapid.Int64Range(0, 1<<20).Draw(t, label+"small")
	case 6:
		return rapid.Int64Range(0, bigLimit-1).Draw(t, label+"any")
	default:
		return rapid.Int64().Draw(t, label+"wild")
	}
}

func GenBig(t *rapid.T) CaseBig {
	c := CaseBig{V: genBigV(t, "v")}
	anchor := c.V
	if !inBig(anchor) {
		anchor = 0
	}
	base := anchor / blockBits * blockBits
	same := map[int64]bool{anchor: true}
	k := rapid.IntRange(0, 10).Draw(t, "nmore")
	for i := 0; i < k; i++ {
		var w int64
		switch rapid.IntRange(0, 11).Draw(t, "mkind") {
		case 0, 1, 2, 3: // same block
			w = base + rapid.Int64Range(0, blockBits-1).Draw(t, "bit")
		case 4: // edges of the same block
			w = base + rapid.SampledFrom([]int64{0, 1, 63, 64, 1022, 1023}).Draw(t, "edge")
		case 5: // adjacent blocks
			w = base + rapid.SampledFrom([]int64{-1, -1024, 1024, 2047, -2, 1025}).Draw(t, "adj")
		case 6: // same bit, block start differing by a multiple of 2^22 (aliases under 32-bit start*1024)
			w = anchor + rapid.SampledFrom([]int64{two32, -two32, 2 * two32, 1 << 41, -(1 << 41)}).Draw(t, "alias")
		case 7: // far, representable
			w = rapid.Int64Range(0, bigLimit-1).Draw(t, "far")
		case 8: // another member of an earlier drawn value's block
			if len(c.More) > 0 {
				prev := c.More[rapid.IntRange(0, len(c.More)-1).Draw(t, "prev")]
				w = floorDiv(prev, blockBits)*blockBits + rapid.Int64Range(0, blockBits-1).Draw(t, "bit")
			} else {
				w = base + 1023
			}
		case 9: // not representable
			w = rapid.SampledFrom([]int64{-1, -1024, math.MinInt64, math.MaxInt64, bigLimit, bigLimit + 1, bigLimit + 1023, 1 << 42, -anchor - 1, anchor + 1<<42, anchor - 1<<42}).Draw(t, "bad")
		default:
			w = genBigV(t, "w")
		}
		c.More = append(c.More, w)
		if inBig(w) && w/blockBits == anchor/blockBits {
			same[w] = true
		}
	}
	c.N = genN(t, len(same), "n")
	c.ListN = genN(t, len(same)+len(c.More)/2, "ln")
	c.Pos = rapid.IntRange(0, 3).Draw(t, "pos")
	c.Slack = rapid.IntRange(0, 2).Draw(t, "slack")
	c.Empty = genEmpty(t)
	return c
}

func ExecBig(c CaseBig) *vkit.Result {
	res := &vkit.Result{}
	n, ln := clampN(c.N), clampN(c.ListN)
	pos, slack := clampRange(c.Pos, 0, 8), clampRange(c.Slack, 0, 8)
	valid := inBig(c.V)
	b, err := bitmap1024.NewBigU32FromI64(c.V)
	if (err == nil) != valid {
		return res.Failf("NewBigU32FromI64/range", "NewBigU32FromI64(%d): err=%v, want accepted exactly for 0 <= v <= %d", c.V, err, bigLimit-1)
	}
	if !valid {
		res.Class("ctor-rejects-out-of-range")
		return res
	}
	if b == nil {
		return res.Failf("NewBigU32FromI64/range", "NewBigU32FromI64(%d) returned nil, nil", c.V)
	}
	ctx := fmt.Sprintf("BigU32 from %d:", c.V)
	lg := &ledger{}
	// the fresh block iterates back to precisely that integer
	for _, k := range []int{1, 3, n} {
		if k < 1 {
			continue
		}
		checkSeq(res, "BigU32.GetNAsI64", ctx+" fresh", hold(lg, "BigU32.GetNAsI64", k, b.GetNAsI64(k)), []int64{c.V}, false, k)
		checkSeq(res, "BigU32.RGetNAsI64", ctx+" fresh", hold(lg, "BigU32.RGetNAsI64", k, b.RGetNAsI64(k)), []int64{c.V}, true, k)
	}
	if res.Fail != nil {
		return res
	}
	type blk struct {
		m   *blockModel
		obj *bitmap1024.BigU32
	}
	main := &blockModel{start: c.V / blockBits, mem: map[int64]bool{c.V: true}}
	blocks := []blk{{main, b}}
	for _, w := range c.More {
		err := b.SetI64(w)
		want := inBig(w) && w/blockBits == main.start
		if (err == nil) != want {
			return res.Failf("BigU32.SetI64/accept", "%s SetI64(%d) err=%v, want accepted=%v (block of the receiver %d, block of the argument %d, representable %v)", ctx, w, err, want, main.start, floorDiv(w, blockBits), inBig(w))
		}
		switch {
		case want:
			main.mem[w] = true
			res.Class("set-same-block")
		case !inBig(w):
			res.Class("set-unrepresentable")
		default:
			st := w / blockBits
			if st == main.start+1 || st == main.start-1 {
				res.Class("set-adjacent-block")
			} else if (st-main.start)%(1<<22) == 0 {
				res.Class("set-aliasing-block")
			} else {
				res.Class("set-far-block")
			}
			// the rejected integer lives in a block of its own
			found := false
			for _, o := range blocks {
				if o.m.start == st {
					found = true
					if err := o.obj.SetI64(w); err != nil {
						return res.Failf("BigU32.SetI64/accept", "block built from an integer of block %d rejects %d of the same block: %v", st, w, err)
					}
					o.m.mem[w] = true
				}
			}
			if !found && len(blocks) < maxBlocks {
				nb, err := bitmap1024.NewBigU32FromI64(w)
				if err != nil || nb == nil {
					return res.Failf("NewBigU32FromI64/range", "NewBigU32FromI64(%d): err=%v, want accepted", w, err)
				}
				blocks = append(blocks, blk{&blockModel{start: st, mem: map[int64]bool{w: true}}, nb})
			}
		}
	}
	// every block: forward ascending, reverse descending, exactly what was accepted
	var lists [][]int64
	var objs bitmap1024.BigU32s
	total := 0
	for i, o := range blocks {
		asc := o.m.asc()
		bctx := ctx
		if i > 0 {
			bctx = fmt.Sprintf("%s side block %d:", ctx, o.m.start)
		}
		checkBlock(res, opsBig(o.obj, lg), bctx, asc, n, pos, slack)
		lists = append(lists, asc)
		objs = append(objs, o.obj)
		total += len(asc)
	}
	// empty blocks (no data) anywhere in the list contribute nothing and end nothing
	for k, e := range c.Empty {
		if k >= 3 || res.Fail != nil {
			break
		}
		eb, err := bitmap1024.NewBigU32FromData(uint32(main.start), nil)
		if err != nil || eb == nil {
			return res.Failf("NewBigU32FromData/rejects-marshal", "NewBigU32FromData(%d, no bytes) = %v, %v", main.start, eb, err)
		}
		checkSeq(res, "BigU32.GetNAsI64", ctx+" empty block", eb.GetNAsI64(2), nil, false, 2)
		at := clampRange(e, 0, len(objs))
		objs = append(objs[:at], append(bitmap1024.BigU32s{eb}, objs[at:]...)...)
		lists = append(lists[:at], append([][]int64{nil}, lists[at:]...)...)
		res.Class("list-with-empty-block")
	}
	for _, nn := range []int{ln, total + 1} {
		if nn < 0 {
			continue
		}
		lctx := fmt.Sprintf("%s list of %d blocks:", ctx, len(objs))
		checkConcat(res, "BigU32s.GetNAsI64", lctx, hold(lg, "BigU32s.GetNAsI64", nn, objs.GetNAsI64(nn)), lists, false, nn)
		checkConcat(res, "BigU32s.RGetNAsI64", lctx, hold(lg, "BigU32s.RGetNAsI64", nn, objs.RGetNAsI64(nn)), lists, true, nn)
	}
	// GetN calls on another block and on another list, then every list handed out so far is read again
	dv := c.V + 5000
	if !inBig(dv) {
		dv = c.V - 5000
	}
	if other, err := bitmap1024.NewBigU32FromI64(dv); err == nil && other != nil && res.Fail == nil {
		k := 1 // not above any earlier n: a buffer reused inside the library is reused for these calls as well
		checkSeq(res, "BigU32.GetNAsI64", ctx+" other block", hold(lg, "BigU32.GetNAsI64", k, other.GetNAsI64(k)), []int64{dv}, false, k)
		checkSeq(res, "BigU32.RGetNAsI64", ctx+" other block", hold(lg, "BigU32.RGetNAsI64", k, other.RGetNAsI64(k)), []int64{dv}, true, k)
		checkSeq(res, "BigU32s.GetNAsI64", ctx+" other list", hold(lg, "BigU32s.GetNAsI64", k, bitmap1024.BigU32s{other}.GetNAsI64(k)), []int64{dv}, false, k)
		checkSeq(res, "BigU32s.RGetNAsI64", ctx+" other list", hold(lg, "BigU32s.RGetNAsI64", k, bitmap1024.BigU32s{other}.RGetNAsI64(k)), []int64{dv}, true, k)
	}
	lg.check(res, ctx)
	if c.V >= two32 {
		res.Class("v>=2^32")
		res.NonTrivial = true
	}
	if len(main.mem) >= 2 {
		res.Class("members>=2")
		res.NonTrivial = true
	}
	if len(blocks) > 1 {
		res.Class("list-of-several-blocks")
	}
	if main.start == math.MaxUint32-1 {
		res.Class("top-block")
	}
	if cnt := expectCount(n, len(main.mem)); cnt > 0 && cnt < len(main.mem) {
		res.Class("cut-in-the-middle")
	}
	return res
}

// ---------------------------------------------------------------------------
// part 4: U32BitTip (uint32 blocks)

type CaseTip struct {
	V     uint32   `json:"v"`
	More  []uint32 `json:"more"`
	N     int      `json:"n"`
	ListN int      `json:"list_n"`
	Pos   int      `json:"pos"`
	Slack int      `json:"slack"`
	// Empty: positions of the block list at which an empty block (built from no data) is inserted
	Empty []int `json:"empty,omitempty"`
}

var tipBoundaries = []uint32{0, 1, 1023, 1024, 1025, 2047, 2048, 1 << 31, 1<<31 - 1, 1<<31 + 1023, 1 << 22, 1<<22 - 1, 1<<22 + 5,
	math.MaxUint32, math.MaxUint32 - 1, math.MaxUint32 - 1022, math.MaxUint32 - 1023, math.MaxUint32 - 1024, math.MaxUint32 - 2047, math.MaxInt32}

func genTipV(t *rapid.T, label string) uint32 {
	switch rapid.IntRange(0, 5).Draw(t, label+"kind") {
	case 0, 1:
		return rapid.SampledFrom(tipBoundaries).Draw(t, label+"b")
	case 2:
		return rapid.Uint32Range(math.MaxUint32-1023, math.MaxUint32).Draw(t, label+"top")
	case 3:
		return rapid.Uint32Range(0, 1<<20).Draw(t, label+"small")
	default:
		return rapid.Uint32().Draw(t, label+"any")
	}
}

func GenTip(t *rapid.T) CaseTip {
	c := CaseTip{V: genTipV(t, "v")}
	base := c.V / blockBits * blockBits
	same := map[uint32]bool{c.V: true}
	k := rapid.IntRange(0, 10).Draw(t, "nmore")
	for i := 0; i < k; i++ {
		var w uint32
		switch rapid.IntRange(0, 9).Draw(t, "mkind") {
		case 0, 1, 2, 3:
			w = base + rapid.Uint32Range(0, blockBits-1).Draw(t, "bit")
		case 4:
			w = base + rapid.SampledFrom([]uint32{0, 1, 63, 64, 1022, 1023}).Draw(t, "edge")
		case 5: // adjacent blocks (wrapping at both ends of uint32 on purpose)
			w = base + uint32(rapid.SampledFrom([]int32{-1, -1024, 1024, 2047, -2, 1025}).Draw(t, "adj"))
		case 6: // same bit in a far block
			w = c.V + rapid.SampledFrom([]uint32{1 << 31, 1 << 22, 1 << 10 << 10, 1 << 16}).Draw(t, "alias")
		case 7:
			if len(c.More) > 0 {
				prev := c.More[rapid.IntRange(0, len(c.More)-1).Draw(t, "prev")]
				w = prev/blockBits*blockBits + rapid.Uint32Range(0, blockBits-1).Draw(t, "bit")
			} else {
				w = base + 1023
			}
		default:
			w = genTipV(t, "w")
		}
		c.More = append(c.More, w)
		if w/blockBits == c.V/blockBits {
			same[w] = true
		}
	}
	c.N = genN(t, len(same), "n")
	c.ListN = genN(t, len(same)+len(c.More)/2, "ln")
	c.Pos = rapid.IntRange(0, 3).Draw(t, "pos")
	c.Slack = rapid.IntRange(0, 2).Draw(t, "slack")
	c.Empty = genEmpty(t)
	return c
}

func ExecTip(c CaseTip) *vkit.Result {
	res := &vkit.Result{}
	n, ln := clampN(c.N), clampN(c.ListN)
	pos, slack := clampRange(c.Pos, 0, 8), clampRange(c.Slack, 0, 8)
	b := bitmap1024.NewU32BitTipFromU32(c.V)
	if b == nil {
		return res.Failf("NewU32BitTipFromU32", "NewU32BitTipFromU32(%d) returned nil", c.V)
	}
	ctx := fmt.Sprintf("U32BitTip from %d:", c.V)
	lg := &ledger{}
	for _, k := range []int{1, 3, n} {
		if k < 1 {
			continue
		}
		checkSeq(res, "U32BitTip.GetNAsU32", ctx+" fresh", toI64(hold(lg, "U32BitTip.GetNAsU32", k, b.GetNAsU32(k))), []int64{int64(c.V)}, false, k)
		checkSeq(res, "U32BitTip.RGetNAsU32", ctx+" fresh", toI64(hold(lg, "U32BitTip.RGetNAsU32", k, b.RGetNAsU32(k))), []int64{int64(c.V)}, true, k)
	}
	if res.Fail != nil {
		return res
	}
	type blk struct {
		m   *blockModel
		obj *bitmap1024.U32BitTip
	}
	main := &blockModel{start: int64(c.V / blockBits), mem: map[int64]bool{int64(c.V): true}}
	blocks := []blk{{main, b}}
	for _, w := range c.More {
		err := b.SetU32(w)
		st := int64(w / blockBits)
		want := st == main.start
		if (err == nil) != want {
			return res.Failf("U32BitTip.SetU32/accept", "%s SetU32(%d) err=%v, want accepted=%v (block of the receiver %d, block of the argument %d)", ctx, w, err, want, main.start, st)
		}
		if want {
			main.mem[int64(w)] = true
			res.Class("set-same-block")
			continue
		}
		if st == main.start+1 || st == main.start-1 {
			res.Class("set-adjacent-block")
		} else {
			res.Class("set-far-block")
		}
		found := false
		for _, o := range blocks {
			if o.m.start == st {
				found = true
				if err := o.obj.SetU32(w); err != nil {
					return res.Failf("U32BitTip.SetU32/accept", "block built from an integer of block %d rejects %d of the same block: %v", st, w, err)
				}
				o.m.mem[int64(w)] = true
			}
		}
		if !found && len(blocks) < maxBlocks {
			nb := bitmap1024.NewU32BitTipFromU32(w)
			if nb == nil {
				return res.Failf("NewU32BitTipFromU32", "NewU32BitTipFromU32(%d) returned nil", w)
			}
			blocks = append(blocks, blk{&blockModel{start: st, mem: map[int64]bool{int64(w): true}}, nb})
		}
	}
	var lists [][]int64
	var objs bitmap1024.U32BitTips
	total := 0
	for i, o := range blocks {
		asc := o.m.asc()
		bctx := ctx
		if i > 0 {
			bctx = fmt.Sprintf("%s side block %d:", ctx, o.m.start)
		}
		checkBlock(res, opsTip(o.obj, lg), bctx, asc, n, pos, slack)
		lists = append(lists, asc)
		objs = append(objs, o.obj)
		total += len(asc)
	}
	// empty blocks (no data) anywhere in the list contribute nothing and end nothing
	for k, e := range c.Empty {
		if k >= 3 || res.Fail != nil {
			break
		}
		eb, err := bitmap1024.NewU32BitTipFromData(uint32(main.start), nil)
		if err != nil || eb == nil {
			return res.Failf("NewU32BitTipFromData/rejects-marshal", "NewU32BitTipFromData(%d, no bytes) = %v, %v", main.start, eb, err)
		}
		checkSeq(res, "U32BitTip.GetNAsU32", ctx+" empty block", toI64(eb.GetNAsU32(2)), nil, false, 2)
		at := clampRange(e, 0, len(objs))
		objs = append(objs[:at], append(bitmap1024.U32BitTips{eb}, objs[at:]...)...)
		lists = append(lists[:at], append([][]int64{nil}, lists[at:]...)...)
		res.Class("list-with-empty-block")
	}
	for _, nn := range []int{ln, total + 1} {
		if nn < 0 {
			continue
		}
		lctx := fmt.Sprintf("%s list of %d blocks:", ctx, len(objs))
		checkConcat(res, "U32BitTips.GetNAsU32", lctx, toI64(hold(lg, "U32BitTips.GetNAsU32", nn, objs.GetNAsU32(nn))), lists, false, nn)
		checkConcat(res, "U32BitTips.RGetNAsU32", lctx, toI64(hold(lg, "U32BitTips.RGetNAsU32", nn, objs.RGetNAsU32(nn))), lists, true, nn)
	}
	// GetN calls on another block and on another list, then every list handed out so far is read again
	if res.Fail == nil {
		dv := c.V + 1<<31 + 3073 // wraps; never the block of V
		other := bitmap1024.NewU32BitTipFromU32(dv)
		if other == nil {
			return res.Failf("NewU32BitTipFromU32", "NewU32BitTipFromU32(%d) returned nil", dv)
		}
		k := 1 // not above any earlier n: a buffer reused inside the library is reused for these calls as well
		checkSeq(res, "U32BitTip.GetNAsU32", ctx+" other block", toI64(hold(lg, "U32BitTip.GetNAsU32", k, other.GetNAsU32(k))), []int64{int64(dv)}, false, k)
		checkSeq(res, "U32BitTip.RGetNAsU32", ctx+" other block", toI64(hold(lg, "U32BitTip.RGetNAsU32", k, other.RGetNAsU32(k))), []int64{int64(dv)}, true, k)
		checkSeq(res, "U32BitTips.GetNAsU32", ctx+" other list", toI64(hold(lg, "U32BitTips.GetNAsU32", k, bitmap1024.U32BitTips{other}.GetNAsU32(k))), []int64{int64(dv)}, false, k)
		checkSeq(res, "U32BitTips.RGetNAsU32", ctx+" other list", toI64(hold(lg, "U32BitTips.RGetNAsU32", k, bitmap1024.U32BitTips{other}.RGetNAsU32(k))), []int64{int64(dv)}, true, k)
	}
	lg.check(res, ctx)
	if len(main.mem) >= 2 {
		res.Class("members>=2")
		res.NonTrivial = true
	}
	if len(blocks) > 1 {
		res.Class("list-of-several-blocks")
	}
	if uint32(main.start) == maxTipStart {
		res.Class("top-block")
	}
	if c.V >= 1<<31 {
		res.Class("v>=2^31")
	}
	if cnt := expectCount(n, len(main.mem)); cnt > 0 && cnt < len(main.mem) {
		res.Class("cut-in-the-middle")
	}
	return res
}

// ---------------------------------------------------------------------------
// part 5: New…FromData(start, Marshal(b)) iterates start*1024 + members(b)

type CaseData struct {
	Start uint32   `json:"start"`
	Words []uint64 `json:"words"` // 16
	N     int      `json:"n"`
	Pos   int      `json:"pos"`
	Slack int      `json:"slack"`
}

var startBoundaries = []uint32{0, 1, 2, maxTipStart - 1, maxTipStart, maxTipStart + 1, 1<<22 + 5, 1 << 23, 1 << 31, 1<<31 - 1,
	math.MaxUint32 - 1, math.MaxUint32, math.MaxUint32 - 2, 1 << 21, 1<<21 + 1}

func GenData(t *rapid.T) CaseData {
	c := CaseData{}
	switch rapid.IntRange(0, 3).Draw(t, "skind") {
	case 0:
		c.Start = rapid.SampledFrom(startBoundaries).Draw(t, "sb")
	case 1:
		c.Start = rapid.Uint32Range(0, maxTipStart).Draw(t, "slo")
	case 2:
		c.Start = rapid.Uint32Range(maxTipStart+1, math.MaxUint32).Draw(t, "shi")
	default:
		c.Start = rapid.Uint32().Draw(t, "sany")
	}
	c.Words = genMembers(t, "m")
	c.N = genN(t, len(membersOfWords(c.Words)), "n")
	c.Pos = rapid.IntRange(0, 3).Draw(t, "pos")
	c.Slack = rapid.IntRange(0, 2).Draw(t, "slack")
	return c
}

func ExecData(c CaseData) *vkit.Result {
	res := &vkit.Result{}
	if len(c.Words) != 16 {
		res.Skip("malformed-case")
		return res
	}
	n := clampN(c.N)
	pos, slack := clampRange(c.Pos, 0, 8), clampRange(c.Slack, 0, 8)
	mem := membersOfWords(c.Words)
	classCount(res, len(mem))
	enc := toBit1024(c.Words).Marshal()
	lg := &ledger{}
	asc := make([]int64, len(mem))
	for i, m := range mem {
		asc[i] = int64(c.Start)*blockBits + int64(m)
	}
	// BigU32: the documented range ends at MaxUint32*1024-1, i.e. block starts 0..MaxUint32-1
	big, err := bitmap1024.NewBigU32FromData(c.Start, enc)
	if err != nil || big == nil {
		return res.Failf("NewBigU32FromData/rejects-marshal", "NewBigU32FromData(%d, Marshal of %d members) = %v, %v", c.Start, len(mem), big, err)
	}
	if c.Start == math.MaxUint32 {
		res.Skip("BigU32 block start MaxUint32 lies outside the documented range: iteration not asserted")
	} else {
		checkBlock(res, opsBig(big, lg), fmt.Sprintf("NewBigU32FromData(start=%d, %d members):", c.Start, len(mem)), asc, n, pos, slack)
	}
	// U32BitTip: block starts 0..MaxUint32/1024 cover uint32; beyond that the values do not fit
	tip, err := bitmap1024.NewU32BitTipFromData(c.Start, enc)
	switch {
	case c.Start <= maxTipStart:
		if err != nil || tip == nil {
			return res.Failf("NewU32BitTipFromData/rejects-marshal", "NewU32BitTipFromData(%d, Marshal of %d members) = %v, %v", c.Start, len(mem), tip, err)
		}
		checkBlock(res, opsTip(tip, lg), fmt.Sprintf("NewU32BitTipFromData(start=%d, %d members):", c.Start, len(mem)), asc, n, pos, slack)
		res.Class("tip-start-in-range")
	case err != nil:
		res.Class("tip-start-beyond-uint32-rejected")
	default:
		res.Skip("U32BitTip block start beyond MaxUint32/1024 accepted: iteration not asserted")
	}
	// GetN calls on other blocks, then the lists handed out so far are read again
	if res.Fail == nil {
		ob, _ := bitmap1024.NewBigU32FromData(c.Start^1, enc)
		ot, _ := bitmap1024.NewU32BitTipFromData((c.Start^1)&maxTipStart, enc)
		if ob != nil && ot != nil {
			_, _ = ob.GetNAsI64(len(mem)+1), ob.RGetNAsI64(len(mem)+1)
			_, _ = ot.GetNAsU32(len(mem)+1), ot.RGetNAsU32(len(mem)+1)
		}
		lg.check(res, fmt.Sprintf("New...FromData(start=%d, %d members):", c.Start, len(mem)))
	}
	if c.Start >= 1<<22 {
		res.Class("start>=2^22")
		res.NonTrivial = true
	}
	if len(mem) >= 2 {
		res.NonTrivial = true
	}
	if cnt := expectCount(n, len(mem)); cnt > 0 && cnt < len(mem) {
		res.Class("cut-in-the-middle")
	}
	return res
}

// ---------------------------------------------------------------------------

var PartMarshal = &vkit.Part[CaseMarshal]{
	Property: Property, Name: "marshal",
	Rule:  "rapid: 1024-bit maps with exactly 0,1,2,62,63,64,65,1023,1024 members, runs of 62..128 at the block ends, full words +-1 member, random counts 0..130 and words from the C08 mixture. Marshal length must be 2*Len below 64 members, else 128; the bytes must denote the bitmap under a harness-side decoder written from the format description; Unmarshal into a fresh bitmap must be Equal (and bit-identical). The encoding is the caller's value: it keeps its bytes and still decodes to its bitmap after the bitmap is modified (1-3 members toggled in a third of the cases) and after 0-3 (a sixth of the cases: 7-20, thorough up to 96) later Marshal calls of other bitmaps; when the caller overwrites its encodings (zeros / 0xff / inverted, 4 of 7 cases) no bitmap changes and a new Marshal of the same bitmaps is right again. Non-trivial: at least one member; distinct = distinct case JSON",
	Quick: 60000, Thorough: 200000,
	Gen: GenMarshal, Exec: ExecMarshal,
}

var PartUnmarshal = &vkit.Part[CaseBytes]{
	Property: Property, Name: "unmarshal",
	Rule:  "rapid: byte strings of every length 0..130: random, lists of in-range elements, valid sparse encodings with one mutation (hostile element 1023/1024/-1/0x8000..., duplicate, swapped pair, dropped or appended byte, padded to 126/128/130 bytes), 128-byte bitmaps, constant fills. Unmarshal into a fresh bitmap must not panic; if the bytes denote no bitmap (odd, >128, element outside 0..1023) it must fail; if they denote one it must succeed with exactly that set (duplicates / non-ascending elements: failing is accepted too). NewBigU32FromData / NewU32BitTipFromData(start, the same bytes) must fail exactly when Unmarshal does and otherwise hold the given start and the denoted set (U32BitTip start above MaxUint32/1024: an error is accepted). Non-trivial: non-empty input accepted with the denoted set; distinct = distinct case JSON",
	Quick: 120000, Thorough: 400000,
	Gen: GenBytes, Exec: ExecBytes,
}

var PartBig = &vkit.Part[CaseBig]{
	Property: Property, Name: "bigu32",
	Rule:  "rapid: int64 from boundaries (-1,0,1023,1024,2^32-1,2^32,2^32+5,2^41,(2^32-1)*1024-1,(2^32-1)*1024,MaxInt64,...) and ranges (half of them >= 2^32), then up to 10 further integers (same block, block edges, adjacent blocks, same bit with block start differing by k*2^22, far, unrepresentable). NewBigU32FromI64 accepts exactly [0,(2^32-1)*1024-1] and iterates back [v]; SetI64 accepts exactly members of the receiver's block; rejected representable integers build side blocks; every block's GetN/RGetN/Iter/RIter (n around Len, sentinel slices) is the ascending/descending list of what was accepted; the list type must concatenate per-block iteration (block order not asserted), also with up to 2 empty blocks (built from no data) inserted anywhere in the list; every list returned by GetN/RGetN is kept and must read the same after all later GetN calls including calls on another block and another list. Non-trivial: v >= 2^32 or >= 2 members in the block; distinct = distinct case JSON",
	Quick: 60000, Thorough: 200000,
	Gen: GenBig, Exec: ExecBig,
}

var PartTip = &vkit.Part[CaseTip]{
	Property: Property, Name: "u32bittip",
	Rule:  "rapid: uint32 from boundaries (0,1023,1024,2^22,2^31,MaxUint32-1024..MaxUint32) and random, then up to 10 further integers (same block, edges, adjacent incl. wrap-around, far). NewU32BitTipFromU32 iterates back [v]; SetU32 accepts exactly members of the receiver's block; every block's GetN/RGetN/Iter/RIter is the ascending/descending list of what was accepted; the list type concatenates per-block iteration (block order not asserted), also with up to 2 empty blocks (built from no data) inserted anywhere in the list; every list returned by GetN/RGetN is kept and must read the same after all later GetN calls including calls on another block and another list. Non-trivial: >= 2 members in the block; distinct = distinct case JSON",
	Quick: 60000, Thorough: 200000,
	Gen: GenTip, Exec: ExecTip,
}

var PartData = &vkit.Part[CaseData]{
	Property: Property, Name: "fromdata",
	Rule:  "rapid: block start from boundaries (0, 2^22-1, 2^22, 2^31, MaxUint32-1, MaxUint32) and ranges x a bitmap from the member-count mixture. NewBigU32FromData / NewU32BitTipFromData(start, Marshal(b)) must succeed (U32BitTip: for start <= MaxUint32/1024; beyond that an error is accepted and nothing else asserted; BigU32 start MaxUint32: iteration not asserted) and iterate start*1024 + members(b) ascending / descending through all four entry points; the lists returned are kept and read again after GetN calls on other blocks. Non-trivial: start >= 2^22 or >= 2 members; distinct = distinct case JSON",
	Quick: 30000, Thorough: 100000,
	Gen: GenData, Exec: ExecData,
}
