package c04lru

// Part race-focus (run from the -race binary only): three narrow shapes of the race-lin programs, each run for many
// rounds on a new cache per round, porcupine deciding every round. They aim at gaps that are a few instructions wide:
//
//   recency    a full single cache of 2-3 one-size entries over 3-5 keys; 6-8 goroutines of Gets and evicting
//              SetAndGetRemoved calls whose first calls start together. A Get whose look-up and refresh are not one
//              step lets a store in between evict the very entry the Get "refreshed": the removed-list of the store
//              and the hit of the Get then have no common order.
//   clear      a full single cache of 4-6 one-size entries; 6-8 goroutines whose first calls start together: Clear in
//              one of them, Gets and stores of cached keys in the others. A Clear that empties the cache in two steps
//              lets a call in between touch an entry that is half gone.
//   first-use  a wide cache nobody has used yet (empty prefix); 2-4 goroutines in lock step, call number j of every
//              goroutine is a Set of a different key of one and the same shard that no earlier call touched. The
//              capacity holds all of them, so every stored key must be there at rest.

import (
	"pgregory.net/rapid"

	"verifharness/vkit"
)

var focusRecencyKinds = weighted(kGet, 12, kSagr, 8, kSet, 1, kPeek, 1, kKeys, 1)

func genFocusRecency(t *rapid.T) LinCase {
	c := LinCase{
		Impl:     rapid.SampledFrom([]string{implCache, implCache, implTiny}).Draw(t, "impl"),
		MaxProcs: rapid.SampledFrom([]int{4, 8, 8}).Draw(t, "maxprocs"),
	}
	c.Cap = int64(rapid.SampledFrom([]int{2, 2, 2, 3}).Draw(t, "cap"))
	pool := genPool(t, universe, int(c.Cap)+1, int(c.Cap)+2)
	for _, k := range pool {
		c.Prefix = append(c.Prefix, Op{K: kSet, Key: k, Size: 1})
	}
	call := opGen(focusRecencyKinds, pool, 3, c.Cap, 6)
	c.Progs = rapid.SliceOfN(rapid.SliceOfN(call, 2, 3), 6, 8).Draw(t, "progs")
	// the first calls are the ones that certainly overlap: mostly a Get of the least recently used entry of the
	// full cache next to a store of a key that is not in it
	lruKey, absent := pool[len(pool)-int(c.Cap)], pool[:len(pool)-int(c.Cap)]
	for g := range c.Progs {
		switch rapid.IntRange(0, 4).Draw(t, "first") {
		case 0, 1:
			c.Progs[g][0] = Op{K: kGet, Key: lruKey}
		case 2, 3:
			c.Progs[g][0] = Op{K: kSagr, Key: rapid.SampledFrom(absent).Draw(t, "absent"), Size: 1}
		}
	}
	c.Rounds = rapid.IntRange(12, 32).Draw(t, "rounds")
	c.Lockstep = 1
	return c
}

var focusAfterClearKinds = weighted(kSet, 12, kSagr, 5, kSia, 3, kKeys, 12, kItems, 8, kStats, 8, kLen, 6, kGet, 5, kExist, 5, kPeek, 3, kDel, 1)

// genFocusClear: a full cache of 4-6 one-size entries; the first calls of 6-8 goroutines - Clear in one of them,
// Gets and stores of cached keys in the others - start together. Clear is one step: whatever a
// call that hit an entry did to it is gone afterwards, and a listing shows all of the old entries or none.
func genFocusClear(t *rapid.T) LinCase {
	c := LinCase{
		Impl:     rapid.SampledFrom([]string{implCache, implCache, implTiny}).Draw(t, "impl"),
		MaxProcs: rapid.SampledFrom([]int{4, 8, 8}).Draw(t, "maxprocs"),
		Lockstep: 1,
	}
	pool := genPool(t, universe, 4, 6)
	c.Cap = int64(rapid.IntRange(len(pool), 8).Draw(t, "cap"))
	for _, k := range pool {
		c.Prefix = append(c.Prefix, Op{K: kSet, Key: k, Size: 1})
	}
	call := opGen(focusAfterClearKinds, pool, 3, c.Cap, 6)
	c.Progs = rapid.SliceOfN(rapid.SliceOfN(call, 2, 3), 6, 8).Draw(t, "progs")
	// exactly one Clear (a second one would wipe out what the first one left behind)
	c.Progs[0][0] = Op{K: kClear}
	for g := 1; g < len(c.Progs); g++ {
		switch first := rapid.IntRange(0, 5).Draw(t, "first"); {
		case first <= 2:
			c.Progs[g][0] = Op{K: kGet, Key: rapid.SampledFrom(pool).Draw(t, "key")}
		case first <= 4:
			c.Progs[g][0] = Op{K: rapid.SampledFrom(fillKinds).Draw(t, "store"), Key: rapid.SampledFrom(pool).Draw(t, "key"), Size: 1}
		}
	}
	c.Rounds = rapid.IntRange(12, 32).Draw(t, "rounds")
	return c
}

func genFocusFirstUse(t *rapid.T) LinCase {
	c := LinCase{
		Impl:     rapid.SampledFrom([]string{implWCach, implWCach, implWTiny}).Draw(t, "impl"),
		XHash:    rapid.Bool().Draw(t, "xhash"),
		Shards:   rapid.SampledFrom([]int{3, 7, 73, 211, 257, 0}).Draw(t, "shards"),
		MaxProcs: rapid.SampledFrom([]int{4, 8}).Draw(t, "maxprocs"),
		Lockstep: 64,
	}
	ng := rapid.IntRange(2, 4).Draw(t, "goroutines")
	groups := shardGroups(c.XHash, c.Shards)
	var eligible []int
	for i, g := range groups {
		if len(g) >= ng {
			eligible = append(eligible, i)
		}
	}
	steps := rapid.IntRange(2, 8).Draw(t, "steps")
	if steps > len(eligible) {
		steps = len(eligible)
	}
	order := rapid.Permutation(eligible).Draw(t, "shardorder")[:steps]
	c.Progs = make([][]Op, ng)
	for _, sh := range order {
		keys := rapid.Permutation(groups[sh]).Draw(t, "shardkeys")[:ng]
		for g := range c.Progs {
			c.Progs[g] = append(c.Progs[g], Op{K: kSet, Key: keys[g], Size: 1})
		}
	}
	// a few reads of what was stored (lock step as well)
	var stored []Key
	for _, p := range c.Progs {
		for _, o := range p {
			stored = append(stored, o.Key)
		}
	}
	for n := rapid.IntRange(0, 2).Draw(t, "reads"); n > 0 && len(stored) > 0; n-- {
		for g := range c.Progs {
			c.Progs[g] = append(c.Progs[g], Op{K: rapid.SampledFrom([]string{kGet, kExist, kPeek}).Draw(t, "read"), Key: rapid.SampledFrom(stored).Draw(t, "readkey")})
		}
	}
	// every shard holds one entry per goroutine and more: nothing is ever evicted
	c.Cap = int64(shardCount(c.Shards) * (ng + rapid.IntRange(0, 2).Draw(t, "room")))
	c.Rounds = rapid.IntRange(3, 8).Draw(t, "rounds")
	return c
}

func GenFocus(t *rapid.T) LinCase {
	switch rapid.SampledFrom([]string{"recency", "recency", "clear", "first-use"}).Draw(t, "shape") {
	case "recency":
		return genFocusRecency(t)
	case "clear":
		return genFocusClear(t)
	}
	return genFocusFirstUse(t)
}

var PartFocus = &vkit.Part[LinCase]{
	Property: Property, Name: "race-focus",
	Rule:  "rapid: three narrow shapes of the race-lin programs, each program run for many rounds (a new cache per round), porcupine deciding every round against the ideal LRU. recency (2 cases in 4): cache.LRUCache or tiny, capacity 2-3, capacity+1..2 keys all stored in turn (one-size items; the cache is full), then 6-8 goroutines x 2-3 calls of mostly Get and SetAndGetRemoved (some Set, Peek, Keys); the first call of four goroutines in five is a Get of the least recently used entry or a SetAndGetRemoved of a key that is not in the cache, and the first calls start together behind a spin barrier; GOMAXPROCS 4|8, 12-32 rounds. clear (1 in 4): cache.LRUCache or tiny, 4-6 keys all stored (capacity holds them), 6-8 goroutines x 2-3 calls of Set/SetAndGetRemoved/SetIfAbsent, Keys/Items/Stats/Length, Get/Exist/Peek; goroutine 0 starts with the only Clear of the program, five in six of the others with a Get or a store of a cached key, first calls behind a spin barrier; 12-32 rounds. first-use (1 in 4): a wide cache (both packages, modulo/xxhash routing, 3|7|73|211|257 shards or the default configuration) nobody has used, 2-4 goroutines in lock step (spin barrier before call number j of all goroutines): call j of every goroutine is Set of a different key of one shard that no earlier call touched (2-8 such shards in turn), then 0-2 reads; the capacity holds everything, a final Peek of every key at rest closes the history; 3-8 rounds. Runs in the -race binary. Non-trivial: as race-lin (an eviction is visible in the history); distinct = distinct case JSON",
	Quick: 64, Thorough: 120,
	Gen: GenFocus, Exec: ExecLin,
}
