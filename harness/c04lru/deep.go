package c04lru

// Part "deep": the same statement far from the small numbers of the other sequential parts, in few, long cases.
//
//   rounds  ONE instance with a capacity of 2-8 and a few more keys than fit lives through thousands of calls: a
//           generated pattern of 5-16 calls (Get-heavy; every public method of the single caches, the facade for the
//           wide ones) is repeated hundreds of times, the keys rotating by a per-case stride from round to round. The
//           full ideal-LRU model is compared after every call exactly as in seq-cache / seq-tiny / wide. Counters
//           inside an instance (hits, calls, evictions) get large; anything that happens "every n-th time" happens.
//   large   capacities of 1024 ... 100000 (also as SetCapacity arguments) with thousands of live entries: fills
//           beyond the capacity, touches, overwrites, deletes, resizes. The model is a second, independently written
//           ideal LRU whose cost does not grow with the population (recency stamps in a map, a lazy min-heap for the
//           victim); result, Stats (Length, Size, Capacity, Evictions) and Size <= Capacity are compared after every
//           call, the full Keys()/Items() order after every phase. Wide caches: one such model per shard; after every
//           call the keys the model evicted must be gone and the shard's next victim must still be there, after every
//           phase every key ever used is swept with Exist and Peek.

import (
	"fmt"
	"sort"

	"pgregory.net/rapid"

	"verifharness/vkit"
)

const (
	deepRounds = "rounds"
	deepLarge  = "large"
)

// Phase is one step of a large history: N calls on the int keys From, From+Step, From+2*Step, ...
type Phase struct {
	K    string `json:"k"` // fill | touch | delete | setcap | clear
	N    int    `json:"n,omitempty"`
	From int64  `json:"from,omitempty"`
	Step int64  `json:"step,omitempty"`
	Size int    `json:"size,omitempty"` // fill: item size
	Cap  int64  `json:"cap,omitempty"`  // setcap
	// fill: set | setandgetremoved | setifabsent | mix (the three in turn; SetIfAbsent only on keys that are not
	// cached); touch: get | peek | exist | mix
	With string `json:"with,omitempty"`
}

type DeepCase struct {
	Impl   string `json:"impl"`
	Facade bool   `json:"facade,omitempty"`
	XHash  bool   `json:"xhash,omitempty"`
	Shards int    `json:"shards,omitempty"` // wide: 0 = the default configuration
	Cap    int64  `json:"cap"`
	Mode   string `json:"mode"`
	// rounds: Pattern is executed Reps times; in round r the key with index i in Keys (keys of the pattern that are
	// not in Keys are appended to it) is replaced by the key with index (i + r*Stride) mod number of keys
	Keys    []Key `json:"keys,omitempty"`
	Pattern []Op  `json:"pattern,omitempty"`
	Reps    int   `json:"reps,omitempty"`
	Stride  int   `json:"stride,omitempty"`
	// large
	Phases []Phase `json:"phases,omitempty"`
}

func ExecDeep(c DeepCase) *vkit.Result {
	res := &vkit.Result{}
	wide := isWide(c.Impl)
	if wide {
		if p := wideProblem(c.Impl, c.Shards, c.Cap); p != "" {
			res.Skip(p)
			return res
		}
	} else if c.Impl != implCache && c.Impl != implTiny {
		res.Skip("case:unknown-impl")
		return res
	} else if c.Cap < 0 {
		res.Skip("case:negative-capacity")
		return res
	}
	res.Class("impl " + c.Impl)
	switch c.Mode {
	case deepRounds:
		execDeepRounds(c, res)
	case deepLarge:
		execDeepLarge(c, res)
	default:
		res.Skip("case:unknown-mode")
	}
	return res
}

// ---------------------------------------------------------------------------
// rounds

func execDeepRounds(c DeepCase, res *vkit.Result) {
	wide := isWide(c.Impl)
	var pattern []Op
	for _, o := range normOps(c.Pattern) {
		switch {
		case opProblem(o) != "":
			res.Skip("op:" + opProblem(o))
		case wide && !facadeOp(o.K):
			res.Skip("op:not-in-facade")
		case wide && needsKey(o.K) && o.Key.T == "nil":
			res.Skip("op:nil-key-on-wide")
		default:
			pattern = append(pattern, o)
		}
	}
	if len(pattern) > 64 {
		pattern = pattern[:64]
	}
	reps := c.Reps
	if reps < 1 {
		reps = 1
	}
	if reps > 20000 {
		reps = 20000
	}
	var pool []Key
	at := map[Key]int{}
	for _, k := range append(append([]Key{}, c.Keys...), distinctKeys(pattern)...) {
		k = k.norm()
		if _, ok := k.iface(); !ok || (wide && k.T == "nil") {
			continue
		}
		if _, dup := at[k]; !dup && len(pool) < 4096 {
			at[k] = len(pool)
			pool = append(pool, k)
		}
	}
	stride := c.Stride
	if stride < 0 {
		stride = 0
	}
	if len(pool) > 0 {
		stride %= len(pool)
	}
	var ft fullTarget
	var t target
	var m *ideal
	var w *wideIdeal
	if wide {
		var idx func(Key) int
		var n int
		t, idx, n = newWide(c.Impl, c.Cap, c.Shards, c.XHash)
		w = newWideIdeal(c.Impl == implWTiny, c.Cap, n, idx)
		res.Class(fmt.Sprintf("%d shards", n))
	} else {
		var problem string
		if ft, problem = newFull(c.Impl, c.Cap, c.Facade); ft == nil {
			res.Failf(c.Impl+"/constructor", "%s", problem)
			return
		}
		keptOf(ft).lists = true
		m = &ideal{unit: c.Impl == implTiny, capa: c.Cap}
	}
	last := lastVals{}
	calls, hits := 0, 0
	for r := 0; r < reps; r++ {
		for j, op := range pattern {
			if needsKey(op.K) && len(pool) > 0 {
				op.Key = pool[(at[op.Key]+r*stride)%len(pool)]
			}
			op, id := last.resolve(op, r*len(pattern)+j+1)
			where := func() string {
				return fmt.Sprintf("round %d of the pattern, call #%d (call %d on this instance)", r, j, calls)
			}
			if wide {
				if !stepWide(res, c.Impl, where, t, w, pool, op, id) {
					return
				}
				if op.K == kGet && w.shards[w.idx(op.Key)].find(op.Key) >= 0 {
					hits++
				}
			} else {
				if m = stepFull(res, c.Impl, where, ft, m, op, id); m == nil {
					return
				}
				if op.K == kGet && m.find(op.Key) >= 0 {
					hits++
				}
			}
			calls++
		}
	}
	switch {
	case hits >= 1024:
		res.Class("1024 or more Get hits on one instance")
	case hits >= 256:
		res.Class("256 or more Get hits on one instance")
	}
	if calls >= 1000 {
		res.Class("1000 or more calls on one instance")
	}
	if !wide {
		if !checkKept(res, c.Impl, keptOf(ft)) {
			return
		}
		js, bad := parseStatsJSON(ft.StatsJSON())
		if bad != "" {
			res.Failf(c.Impl+"/StatsJSON", "%s is not a JSON object of the four numbers Length, Size, Capacity, Evictions", bad)
		} else if st := m.apply(Op{K: kStats}, 0, false).N; js != st {
			res.Failf(c.Impl+"/StatsJSON", "after %d calls StatsJSON() = %s, ideal LRU: %s", calls, ft.StatsJSON(), Out{N: st}.show(kStats))
		}
	}
}

// ---------------------------------------------------------------------------
// large: an ideal LRU whose cost does not grow with the population

type stampEnt struct {
	val   int
	size  int64
	stamp int64
}

type stampRef struct{ stamp, key int64 }

// stampLRU is the ideal LRU of the statement once more, written for many entries: every entry carries the stamp of
// its last use (a counter), the victim is the entry with the smallest stamp. The heap holds (stamp, key) pairs and
// is lazy: a pair whose stamp is not the entry's current one is stale and skipped.
type stampLRU struct {
	unit                   bool
	capa, total, ev, clock int64
	ents                   map[int64]*stampEnt
	heap                   []stampRef
}

func newStampLRU(unit bool, capa int64) *stampLRU {
	return &stampLRU{unit: unit, capa: capa, ents: map[int64]*stampEnt{}}
}

func (m *stampLRU) push(r stampRef) {
	m.heap = append(m.heap, r)
	for i := len(m.heap) - 1; i > 0; {
		p := (i - 1) / 2
		if m.heap[p].stamp <= m.heap[i].stamp {
			break
		}
		m.heap[p], m.heap[i] = m.heap[i], m.heap[p]
		i = p
	}
}

func (m *stampLRU) pop() {
	n := len(m.heap) - 1
	m.heap[0] = m.heap[n]
	m.heap = m.heap[:n]
	for i := 0; ; {
		l, r, s := 2*i+1, 2*i+2, i
		if l < n && m.heap[l].stamp < m.heap[s].stamp {
			s = l
		}
		if r < n && m.heap[r].stamp < m.heap[s].stamp {
			s = r
		}
		if s == i {
			return
		}
		m.heap[s], m.heap[i] = m.heap[i], m.heap[s]
		i = s
	}
}

// victim is the least recently used key.
func (m *stampLRU) victim() (int64, bool) {
	for len(m.heap) > 0 {
		top := m.heap[0]
		if e, ok := m.ents[top.key]; ok && e.stamp == top.stamp {
			return top.key, true
		}
		m.pop()
	}
	return 0, false
}

func (m *stampLRU) use(key int64, e *stampEnt) {
	m.clock++
	e.stamp = m.clock
	if len(m.heap) > 4*len(m.ents)+4096 { // drop the stale pairs
		m.heap = m.heap[:0]
		for k, x := range m.ents {
			if k != key {
				m.heap = append(m.heap, stampRef{x.stamp, k})
			}
		}
		sort.Slice(m.heap, func(i, j int) bool { return m.heap[i].stamp < m.heap[j].stamp }) // a sorted slice is a heap
	}
	m.push(stampRef{e.stamp, key})
}

// enforce evicts victims until the summed size fits; it returns the evicted keys and values in eviction order.
func (m *stampLRU) enforce() (keys []int64, vals []int) {
	for len(m.ents) > 0 && m.total > m.capa {
		k, ok := m.victim()
		if !ok {
			break
		}
		e := m.ents[k]
		delete(m.ents, k)
		m.total -= e.size
		m.ev++
		keys, vals = append(keys, k), append(vals, e.val)
	}
	return keys, vals
}

func (m *stampLRU) store(key int64, val int, size int64) ([]int64, []int) {
	if m.unit {
		size = 1
	}
	e, ok := m.ents[key]
	if !ok {
		e = &stampEnt{}
		m.ents[key] = e
	}
	m.total += size - e.size
	e.val, e.size = val, size
	m.use(key, e)
	return m.enforce()
}

func (m *stampLRU) get(key int64, refresh bool) (int, bool) {
	e, ok := m.ents[key]
	if !ok {
		return 0, false
	}
	if refresh {
		m.use(key, e)
	}
	return e.val, true
}

func (m *stampLRU) del(key int64) bool {
	e, ok := m.ents[key]
	if ok {
		delete(m.ents, key)
		m.total -= e.size
	}
	return ok
}

func (m *stampLRU) clear() {
	m.ents = map[int64]*stampEnt{}
	m.heap = m.heap[:0]
	m.total = 0
}

// order lists the keys from most to least recently used.
func (m *stampLRU) order() []int64 {
	ks := make([]int64, 0, len(m.ents))
	for k := range m.ents {
		ks = append(ks, k)
	}
	sort.Slice(ks, func(i, j int) bool { return m.ents[ks[i]].stamp > m.ents[ks[j]].stamp })
	return ks
}

func (m *stampLRU) stats() [4]int64 { return [4]int64{int64(len(m.ents)), m.total, m.capa, m.ev} }

func intKey(n int64) Key { return Key{T: "int", I: n} }

const deepMaxCalls = 600000

func phaseProblem(p Phase) string {
	switch p.K {
	case "fill", "touch", "delete":
		if p.N < 0 || p.N > deepMaxCalls || p.Size < 0 || p.Size > 1<<20 {
			return "phase:out-of-domain"
		}
	case "setcap":
		if p.Cap < 0 {
			return "phase:negative-capacity"
		}
	case "clear":
	default:
		return "phase:unknown"
	}
	return ""
}

func execDeepLarge(c DeepCase, res *vkit.Result) {
	wide := isWide(c.Impl)
	unit := isUnit(c.Impl)
	var ft fullTarget
	var t target
	var models []*stampLRU
	shardOf := func(int64) int { return 0 }
	if wide {
		tt, idx, n := newWide(c.Impl, c.Cap, c.Shards, c.XHash)
		t = tt
		for i := 0; i < n; i++ {
			models = append(models, newStampLRU(unit, perShardCap(c.Cap, n)))
		}
		shardOf = func(k int64) int { return idx(intKey(k)) }
		res.Class(fmt.Sprintf("%d shards", n))
	} else {
		var problem string
		if ft, problem = newFull(c.Impl, c.Cap, c.Facade); ft == nil {
			res.Failf(c.Impl+"/constructor", "%s", problem)
			return
		}
		t = ft
		keptOf(ft).lists = true
		models = []*stampLRU{newStampLRU(unit, c.Cap)}
	}
	if c.Cap >= 1024 || (wide && models[0].capa >= 1024) {
		res.Class("capacity of 1024 or more (per shard)")
	}
	var used []int64 // wide: every key ever used, in order of first use
	usedSet := map[int64]bool{}
	calls, nextID, most, evicting := 0, 0, 0, 0
	// compare what can be compared after every call
	after := func(pi int, op Op, sh int, goneKeys []int64) bool {
		calls++
		m := models[sh]
		if len(m.ents) > most {
			most = len(m.ents)
		}
		if len(goneKeys) > 0 {
			evicting++
			res.NonTrivial = true
		}
		if len(goneKeys) > 32 {
			res.Class("more than 32 entries evicted by one call")
		}
		if wide {
			for i, k := range goneKeys {
				if i >= 3 && i < len(goneKeys)-3 {
					continue
				}
				if t.Exist(int(k)) {
					res.Failf(c.Impl+"/"+apiName[op.K]+"/evicted-present", "phase %d, call %d on this instance, %v: Exist(%d) = true, the ideal LRU of shard %d (capacity %d, %d entries) evicted this key as its least recently used one", pi, calls, op, k, sh, m.capa, len(m.ents))
					return false
				}
			}
			if v, ok := m.victim(); ok && !t.Exist(int(v)) {
				res.Failf(c.Impl+"/"+apiName[op.K]+"/victim-gone", "phase %d, call %d on this instance, %v: Exist(%d) = false, but in the ideal LRU of shard %d (capacity %d, %d entries, summed size %d) this key is still cached (it is the next one to be evicted)", pi, calls, op, v, sh, m.capa, len(m.ents), m.total)
				return false
			}
			return true
		}
		st, want := ft.Stats(), m.stats()
		if st[1] > st[2] {
			res.Failf(c.Impl+"/"+apiName[op.K]+"/bound", "phase %d, call %d on this instance, %v: Size %d exceeds Capacity %d after the call returned", pi, calls, op, st[1], st[2])
			return false
		}
		if st != want {
			res.Failf(c.Impl+"/"+apiName[op.K]+"/Stats", "phase %d, call %d on this instance, %v: Stats() = %s, ideal LRU: %s", pi, calls, op, Out{N: st}.show(kStats), Out{N: want}.show(kStats))
			return false
		}
		if calls%97 == 0 {
			if got := [4]int64{ft.Length(), ft.Size(), ft.Capacity(), ft.Evictions()}; got != want {
				res.Failf(c.Impl+"/"+apiName[op.K]+"/counters", "phase %d, call %d on this instance, %v: Length, Size, Capacity, Evictions = %v, ideal LRU: %v", pi, calls, op, got, want)
				return false
			}
		}
		return true
	}
	// compare everything after a phase
	sweep := func(pi int, ph Phase) bool {
		if wide {
			for _, k := range used {
				m := models[shardOf(k)]
				e, present := m.ents[k]
				if got := t.Exist(int(k)); got != present {
					res.Failf(c.Impl+"/sweep-Exist", "after phase %d (%+v): Exist(%d) = %v, ideal LRU of shard %d (capacity %d, %d entries) says %v", pi, ph, k, got, shardOf(k), m.capa, len(m.ents), present)
					return false
				}
				if v, ok := t.Peek(int(k)); ok != present || (ok && v != e.val) {
					res.Failf(c.Impl+"/sweep-Peek", "after phase %d (%+v): Peek(%d) = (#%d,%v), ideal LRU of shard %d: present %v", pi, ph, k, v, ok, shardOf(k), present)
					return false
				}
			}
			return true
		}
		m := models[0]
		want := m.order()
		keys, items := ft.Keys(), ft.Items()
		if len(keys) != len(want) || len(items) != len(want) {
			res.Failf(c.Impl+"/Keys", "after phase %d (%+v): Keys() lists %d keys, Items() %d items, the ideal LRU holds %d entries", pi, ph, len(keys), len(items), len(want))
			return false
		}
		for i, k := range want {
			if keys[i] != intKey(k) {
				res.Failf(c.Impl+"/Keys", "after phase %d (%+v): Keys()[%d] = %v, ideal LRU (most recent first): %d; %d entries", pi, ph, i, keys[i], k, len(want))
				return false
			}
			if items[i].K != intKey(k) || items[i].V != m.ents[k].val {
				res.Failf(c.Impl+"/Items", "after phase %d (%+v): Items()[%d] = %v=#%d, ideal LRU (most recent first): %d=#%d; %d entries", pi, ph, i, items[i].K, items[i].V, k, m.ents[k].val, len(want))
				return false
			}
		}
		return true
	}
	fillKinds := []string{kSet, kSagr, kSia}
	touchKinds := []string{kGet, kPeek, kExist, kGet}
	for pi, ph := range c.Phases {
		if p := phaseProblem(ph); p != "" {
			res.Skip(p)
			continue
		}
		if calls+ph.N > deepMaxCalls {
			res.Skip("phase:call-budget")
			break
		}
		res.Class("phase " + ph.K)
		switch ph.K {
		case "fill", "touch", "delete":
			for i := 0; i < ph.N; i++ {
				k := ph.From + int64(i)*ph.Step
				sh := shardOf(k)
				if sh < 0 || sh >= len(models) {
					res.Failf(c.Impl+"/index", "remap index %d of key %d outside 0..%d", sh, k, len(models)-1)
					return
				}
				m := models[sh]
				if wide && !usedSet[k] {
					usedSet[k] = true
					used = append(used, k)
				}
				op := Op{Key: intKey(k)}
				var gone []int64
				switch ph.K {
				case "fill":
					op.K, op.Size = ph.With, ph.Size
					if ph.With == "mix" {
						op.K = fillKinds[i%3]
					}
					if _, present := m.ents[k]; (op.K == kSia && present) || !storing(op.K) || (wide && op.K != kSet) {
						op.K = kSet
					}
					nextID++
					got, _ := doReal(t, op, nextID)
					goneKeys, goneVals := m.store(k, nextID, int64(ph.Size))
					if op.K == kSagr && !intsEq(got.Removed, goneVals) {
						res.Failf(c.Impl+"/SetAndGetRemoved/result", "phase %d, call %d on this instance, %v: returned %s, ideal LRU: removed %v", pi, calls+1, op, got.show(kSagr), goneVals)
						return
					}
					gone = goneKeys
				case "touch":
					op.K = ph.With
					if ph.With == "mix" || !(op.K == kGet || op.K == kPeek || op.K == kExist) {
						op.K = touchKinds[i%4]
					}
					got, _ := doReal(t, op, 0)
					v, ok := m.get(k, op.K == kGet)
					if got.OK != ok || (ok && op.K != kExist && got.Val != v) {
						res.Failf(c.Impl+"/"+apiName[op.K]+"/result", "phase %d, call %d on this instance, %v: returned %s, ideal LRU: %s", pi, calls+1, op, got.show(op.K), Out{OK: ok, Val: v}.show(op.K))
						return
					}
				case "delete":
					op.K = kDel
					got, _ := doReal(t, op, 0)
					if ok := m.del(k); got.OK != ok {
						res.Failf(c.Impl+"/Delete/result", "phase %d, call %d on this instance, %v: returned %v, ideal LRU: %v", pi, calls+1, op, got.OK, ok)
						return
					}
				}
				if !after(pi, op, sh, gone) {
					return
				}
			}
		case "setcap":
			if wide {
				res.Skip("phase:not-in-facade")
				continue
			}
			ft.SetCapacity(ph.Cap)
			models[0].capa = ph.Cap
			gone, _ := models[0].enforce()
			if ph.Cap >= 1024 {
				res.Class("SetCapacity(1024 or more)")
			}
			if len(gone) > 0 {
				res.Class("SetCapacity shrink evicting")
			}
			if !after(pi, Op{K: kSetCap, Cap: ph.Cap}, 0, gone) {
				return
			}
		case "clear":
			if wide {
				res.Skip("phase:not-in-facade")
				continue
			}
			ft.Clear()
			models[0].clear()
			// the statement leaves open whether Clear resets the eviction counter
			if ev := ft.Evictions(); ev == 0 {
				models[0].ev = 0
			}
			if !after(pi, Op{K: kClear}, 0, nil) {
				return
			}
		}
		if !sweep(pi, ph) {
			return
		}
	}
	switch {
	case most >= 10000:
		res.Class("10000 or more live entries (in one shard)")
	case most >= 1000:
		res.Class("1000 or more live entries (in one shard)")
	}
	if evicting >= 100 {
		res.Class("100 or more evicting calls")
	}
	if !wide {
		if !checkKept(res, c.Impl, keptOf(ft)) {
			return
		}
		js, bad := parseStatsJSON(ft.StatsJSON())
		if bad != "" {
			res.Failf(c.Impl+"/StatsJSON", "%s is not a JSON object of the four numbers Length, Size, Capacity, Evictions", bad)
		} else if want := models[0].stats(); js != want {
			res.Failf(c.Impl+"/StatsJSON", "after %d calls StatsJSON() = %s, ideal LRU: %s", calls, ft.StatsJSON(), Out{N: want}.show(kStats))
		}
	}
}

// ---------------------------------------------------------------------------
// generators

// rapid favours the ends of a range (here: of the list), so the rare kinds stand in the middle
var deepKinds = weighted(kSet, 14, kSagr, 10, kDel, 8, kSetCap, 1, kGet, 30, kClear, 1, kExist, 3, kSia, 6, kPeek, 5)
var deepWideKinds = weighted(kSet, 26, kDel, 6, kGet, 30, kExist, 3, kPeek, 4)

func genDeepRounds(t *rapid.T) DeepCase {
	c := DeepCase{Mode: deepRounds}
	c.Impl = rapid.SampledFrom([]string{implCache, implCache, implCache, implTiny, implTiny, implWCach, implWCach, implWTiny}).Draw(t, "impl")
	var pool []Key
	kinds := deepKinds
	sizeRef := int64(0)
	if isWide(c.Impl) {
		c.XHash = rapid.Bool().Draw(t, "xhash")
		c.Shards = genShards(t)
		n := shardCount(c.Shards)
		share := rapid.IntRange(2, 6).Draw(t, "share")
		c.Cap = int64((share-1)*n + rapid.IntRange(0, n-1).Draw(t, "caprem"))
		pool = genWidePool(t, c.XHash, c.Shards, share+1, share+3, 1)
		kinds = deepWideKinds
		sizeRef = int64(share)
	} else {
		c.Facade = rapid.IntRange(0, 7).Draw(t, "facade") == 0
		c.Cap = int64(rapid.IntRange(2, 8).Draw(t, "cap"))
		pool = genPool(t, universe, int(c.Cap)+1, int(c.Cap)+3)
		sizeRef = c.Cap
	}
	profile := rapid.SampledFrom([]int{3, 3, 2, 1}).Draw(t, "sizes")
	c.Pattern = rapid.SliceOfN(opGen(kinds, pool, profile, sizeRef, 8), 5, 16).Draw(t, "pattern")
	reps := []int{200, 300, 400, 600, 900}
	if vkit.Tier() == "thorough" {
		reps = []int{200, 400, 800, 1500, 3000}
	}
	c.Reps = rapid.SampledFrom(reps).Draw(t, "reps")
	c.Keys = pool
	if rapid.IntRange(0, 7).Draw(t, "still") != 7 { // rapid favours the ends of a range: 0 would come up far too often
		c.Stride = rapid.IntRange(1, len(pool)-1).Draw(t, "stride")
	}
	if isUnit(c.Impl) {
		sprinkleNil(t, c.Pattern)
	}
	sprinkleVals(t, c.Pattern)
	return c
}

// capacities of the large cases: 1024..4096 for most, 5000..10000 for one case in eight, 16384..100000 for one in
// twenty-four (the cost of a case is linear in its capacity)
var deepSizeClass = weighted("plain", 20, "big", 3, "huge", 1)

func genDeepLarge(t *rapid.T) DeepCase {
	c := DeepCase{Mode: deepLarge}
	c.Impl = rapid.SampledFrom([]string{implCache, implCache, implCache, implTiny, implTiny, implWCach, implWTiny}).Draw(t, "impl")
	wide := isWide(c.Impl)
	per := rapid.SampledFrom([]int64{1024, 1025, 1100, 1500, 2047, 2048, 2049, 3000, 4096}).Draw(t, "cap")
	switch rapid.SampledFrom(deepSizeClass).Draw(t, "sizeclass") {
	case "big":
		per = rapid.SampledFrom([]int64{5000, 8192, 10000}).Draw(t, "bigcap")
	case "huge":
		per = rapid.SampledFrom([]int64{16384, 32768, 65536, 100000}).Draw(t, "hugecap")
	}
	c.Cap = per
	if wide {
		c.XHash = rapid.Bool().Draw(t, "xhash")
		c.Shards = rapid.SampledFrom([]int{1, 2, 3, 7, 2, 3, 7, 73, 0}).Draw(t, "shards")
		n := int64(shardCount(c.Shards))
		if n > 7 || per > 10000 {
			per = rapid.SampledFrom([]int64{1024, 1025, 1100, 2048}).Draw(t, "sharecap")
		}
		c.Cap = (per-1)*n + int64(rapid.IntRange(0, int(n)-1).Draw(t, "caprem")) // capacity/shards+1 = per
	} else {
		c.Facade = rapid.IntRange(0, 7).Draw(t, "facade") == 0
	}
	size := 1
	if c.Impl == implCache || c.Impl == implWCach {
		size = rapid.SampledFrom([]int{1, 1, 1, 1, 2, 3}).Draw(t, "size")
	}
	capNow := c.Cap
	// the population a capacity holds
	holds := func() int64 {
		if isUnit(c.Impl) {
			return capNow
		}
		return capNow / int64(size)
	}
	over := func() int {
		h := holds()
		return int(rapid.SampledFrom([]int64{1, 2, 3, 50, h / 10, h / 3}).Draw(t, "over"))
	}
	fresh := int64(0) // the next key nobody used
	fill := func(n int) {
		c.Phases = append(c.Phases, Phase{K: "fill", N: n, From: fresh, Step: 1, Size: size, With: rapid.SampledFrom([]string{"mix", "mix", kSet, kSagr}).Draw(t, "with")})
		fresh += int64(n)
	}
	if rapid.IntRange(0, 3).Draw(t, "start") == 0 && !wide {
		// start small and grow to the large capacity through SetCapacity
		c.Cap = int64(rapid.IntRange(0, 100).Draw(t, "startcap"))
		c.Phases = append(c.Phases, Phase{K: "setcap", Cap: capNow})
	}
	fill(int(holds()) + over())
	old := func() int64 { // a key that is probably cached
		lo := fresh - holds()
		if lo < 0 {
			lo = 0
		}
		return lo + int64(rapid.IntRange(0, int(fresh-lo)).Draw(t, "oldkey"))
	}
	steps := []string{"touch", "touch", "more", "more", "again", "setcap", "setcap", "setcap", "delete", "oversize", "clear"}
	for n := rapid.IntRange(2, 5).Draw(t, "steps"); n > 0; n-- {
		switch rapid.SampledFrom(steps).Draw(t, "step") {
		case "touch":
			c.Phases = append(c.Phases, Phase{K: "touch", N: rapid.IntRange(5, 200).Draw(t, "n"), From: old(), Step: int64(rapid.IntRange(-7, 7).Draw(t, "keystep")),
				With: rapid.SampledFrom([]string{kGet, kGet, "mix", kPeek}).Draw(t, "with")})
			fill(over()) // what was touched must survive, the others go in order
		case "more":
			fill(over())
		case "again": // overwrite cached keys in place (a refresh), then push
			c.Phases = append(c.Phases, Phase{K: "fill", N: rapid.IntRange(1, 300).Draw(t, "n"), From: old(), Step: int64(rapid.IntRange(1, 5).Draw(t, "keystep")), Size: size,
				With: rapid.SampledFrom([]string{"mix", kSet, kSagr}).Draw(t, "with")})
			fill(over())
		case "setcap":
			if wide {
				fill(over())
				continue
			}
			h := holds()
			capNow = rapid.SampledFrom([]int64{capNow - 1, capNow - capNow/3, capNow / 2, 1024, 1023, 2048, capNow + 1000, capNow + capNow/10, 100000, 3, 0}).Draw(t, "newcap")
			if capNow < 0 {
				capNow = 0
			}
			c.Phases = append(c.Phases, Phase{K: "setcap", Cap: capNow})
			if holds() > h {
				fill(int(holds()-h) + over())
			} else {
				fill(over())
			}
		case "delete":
			c.Phases = append(c.Phases, Phase{K: "delete", N: rapid.IntRange(1, 60).Draw(t, "n"), From: old(), Step: int64(rapid.IntRange(1, 9).Draw(t, "keystep"))})
			fill(over())
		case "oversize": // one item larger than everything: the cache is flushed by one call (size is ignored by tiny)
			c.Phases = append(c.Phases, Phase{K: "fill", N: 1, From: fresh, Step: 1, Size: int(capNow) + 1, With: rapid.SampledFrom([]string{kSet, kSagr}).Draw(t, "with")})
			fresh++
			fill(int(holds()) + over())
		case "clear":
			if wide {
				continue
			}
			c.Phases = append(c.Phases, Phase{K: "clear"})
			fill(int(holds()) + over())
		}
	}
	return c
}

func GenDeep(t *rapid.T) DeepCase {
	if rapid.SampledFrom([]string{deepRounds, deepRounds, deepLarge}).Draw(t, "mode") == deepRounds {
		return genDeepRounds(t)
	}
	return genDeepLarge(t)
}

var PartDeep = &vkit.Part[DeepCase]{
	Property: Property, Name: "deep",
	Rule:  "rapid: few, long sequential cases on ONE instance. rounds (2 in 3): cache.LRUCache / tiny (capacity 2-8, capacity+1..3 keys of the seq universe, sometimes through NewSingleLRUCache) or a wide cache (per-shard share 2-6, share+1..3 keys in 1-2 hot shards, shard counts as part wide); a generated pattern of 5-16 calls (Get 30 %, Set/SetAndGetRemoved/SetIfAbsent, Peek, Exist, Delete, rarely SetCapacity(0..8) and Clear; facade calls for wide) is repeated 200-900 times (200-3000 thorough), the keys rotating by a per-case stride every round; after EVERY call the same comparison as seq-cache/seq-tiny (result, Keys, Items, Stats, Length, Size, Capacity, Evictions against the ideal LRU; Size <= Capacity) resp. wide (result and Exist+Peek sweep against one ideal LRU per shard). large (1 in 3): capacity 1024..4096 (one case in eight 5000..10000, one in twenty-four 16384..100000; wide: per-shard share 1024..10000, 1|2|3|7 shards, sometimes 73 or the default configuration with a share of 1024..2048), item size 1 (cache: sometimes 2 or 3), int keys; phases: fill beyond the capacity with Set/SetAndGetRemoved/SetIfAbsent in turn, Get/Peek/Exist touches of cached keys followed by further stores, overwrites in place, Deletes, SetCapacity to smaller and larger values (0, 3, 1023, 1024, 2048, half, -1, +10 %, 100000; also from a small start capacity up to the large one), one item larger than the capacity, Clear; model: an independently written ideal LRU with recency stamps and a lazy min-heap; after every call the result (hit, value, removed values in eviction order, Delete) and Stats = (Length, Size, Capacity, Evictions), Size <= Capacity, every 97th call the four single counters; after every phase the full Keys()/Items() order; wide: after every call the evicted keys are gone and the shard's next victim is present, after every phase an Exist+Peek sweep over every key used. Keys()/Items() results are retained and read again at the end. Non-trivial: at least one eviction happened; distinct = distinct case JSON",
	Quick: 64, Thorough: 150,
	Gen: GenDeep, Exec: ExecDeep,
}
