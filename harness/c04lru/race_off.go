//go:build !race

package c04lru

const raceEnabled = false
