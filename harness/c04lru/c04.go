// Package c04lru decides property C04: cache.LRUCache, cache/tiny.LRUCache and
// their sharded ("wide") variants hold exactly the entries an ideal LRU of the
// same capacity would hold - capacity bound, strict least-recently-used
// eviction, size accounting, reported evictees - for every operation sequence
// and, in the TestRace_ parts, for concurrent callers.
//
// The reference model (type ideal) is written from the property statement: a
// most-recent-first slice of (key, value, size), a capacity and an eviction
// counter. It does not share any code or data structure with the packages under
// test (those use container/list plus a map).
package c04lru

import (
	"encoding/json"
	"fmt"
	"math"
	"strconv"
	"strings"
	"sync"

	"github.com/pinealctx/neptune/cache"
	"github.com/pinealctx/neptune/cache/tiny"
	"github.com/pinealctx/neptune/remap"
	"pgregory.net/rapid"

	"verifharness/vkit"
)

const Property = "C04"

// ---------------------------------------------------------------------------
// keys, values, operations

// Key is a cache key as data. T is the dynamic Go type the key is given to the
// cache with ("int", "int64", "uint32", "string"): int 1, int64 1, uint32 1 and
// "1" are four different keys of an interface{}-keyed cache. "nil" is the nil
// interface, a legal key of the map the single caches index with (the wide
// variants route keys through the remap index, which has no case for it: nil
// keys are generated for the single caches only).
type Key struct {
	T string `json:"t"`
	I int64  `json:"i,omitempty"`
	S string `json:"s,omitempty"`
}

func (k Key) norm() Key {
	switch k.T {
	case "string":
		k.I = 0
	case "nil":
		k.I, k.S = 0, ""
	default:
		k.S = ""
	}
	return k
}

func (k Key) iface() (any, bool) {
	switch k.T {
	case "int":
		return int(k.I), true
	case "int64":
		return k.I, true
	case "uint32":
		if k.I < 0 || k.I > math.MaxUint32 {
			return nil, false
		}
		return uint32(k.I), true
	case "string":
		return k.S, true
	case "nil":
		return nil, true
	}
	return nil, false
}

func keyOf(x any) Key {
	switch v := x.(type) {
	case nil:
		return Key{T: "nil"}
	case int:
		return Key{T: "int", I: int64(v)}
	case int64:
		return Key{T: "int64", I: v}
	case uint32:
		return Key{T: "uint32", I: int64(v)}
	case string:
		return Key{T: "string", S: v}
	}
	return Key{T: fmt.Sprintf("?%T", x), S: fmt.Sprint(x)}
}

func (k Key) String() string {
	switch k.T {
	case "string":
		return fmt.Sprintf("%q", k.S)
	case "nil":
		return "nil"
	}
	return fmt.Sprintf("%s(%d)", k.T, k.I)
}

// sv is the value stored in the caches: an identity (unique per storing call of
// a case) and the size it reports to cache.LRUCache.
type sv struct {
	id, sz int
	isNil  bool // tiny caches only: store the untyped nil instead (a legal interface{} value there)
	slice  bool // store a value of a NOT comparable dynamic type instead (svSlice / []byte)
}

func (v sv) Size() int { return v.sz }

// svSlice is a cache.Value whose dynamic type is not comparable: {identity, size}. Nothing in cache.Value asks
// for comparable values, so a cache must never apply == to the values it is given.
type svSlice []int

func (v svSlice) Size() int { return v[1] }

// cacheVal is what a cache.LRUCache is given for v.
func cacheVal(v sv) cache.Value {
	if v.slice {
		return svSlice{v.id, v.sz}
	}
	return v
}

// nilID is the identity of a nil value (tiny caches take any interface{}).
const nilID = -2

func valID(v any) int {
	if v == nil {
		return nilID
	}
	switch s := v.(type) {
	case sv:
		return s.id
	case svSlice:
		if len(s) == 2 {
			return s[0]
		}
	case []byte:
		if n, err := strconv.Atoi(string(s)); err == nil {
			return n
		}
	}
	return -1 // a value nobody stored
}

// tinyVal is what a tiny cache is given for v.
func tinyVal(v sv) any {
	if v.isNil {
		return nil
	}
	if v.slice {
		return []byte(strconv.Itoa(v.id)) // not comparable either
	}
	return v
}

// mkVal is the value a storing call stores.
func mkVal(op Op, id int) sv { return sv{id: id, sz: op.Size, isNil: op.Nil, slice: op.Slice} }

func storing(kind string) bool { return kind == kSet || kind == kSia || kind == kSagr }

// lastVals remembers, per key, the value the last storing call of a sequential history was given, so that a call
// marked Again can hand the cache the identical value (same identity, size and dynamic type) once more.
type lastVals map[Key]lastVal

type lastVal struct {
	id, size     int
	isNil, slice bool
}

func (l lastVals) resolve(op Op, id int) (Op, int) {
	if !storing(op.K) {
		return op, id
	}
	if lv, ok := l[op.Key]; ok && op.Again {
		op.Size, op.Nil, op.Slice, id = lv.size, lv.isNil, lv.slice, lv.id
	} else {
		op.Again = false
	}
	l[op.Key] = lastVal{id, op.Size, op.Nil, op.Slice}
	return op, id
}

const (
	kSet    = "set"
	kSia    = "setifabsent"
	kSagr   = "setandgetremoved"
	kGet    = "get"
	kPeek   = "peek"
	kExist  = "exist"
	kDel    = "delete"
	kClear  = "clear"
	kSetCap = "setcapacity"
	// observers (generated only in the concurrent parts; the sequential parts
	// run all of them after every call)
	kKeys  = "keys"
	kItems = "items"
	kStats = "stats"
	kSJSON = "statsjson" // the same observation as Stats, through StatsJSON
	kLen   = "length"
	kSize  = "size"
	kCap   = "capacity"
	kEvs   = "evictions"
)

var apiName = map[string]string{
	kSet: "Set", kSia: "SetIfAbsent", kSagr: "SetAndGetRemoved", kGet: "Get", kPeek: "Peek", kExist: "Exist",
	kDel: "Delete", kClear: "Clear", kSetCap: "SetCapacity", kKeys: "Keys", kItems: "Items", kStats: "Stats", kSJSON: "StatsJSON",
	kLen: "Length", kSize: "Size", kCap: "Capacity", kEvs: "Evictions",
}

func needsKey(kind string) bool {
	switch kind {
	case kSet, kSia, kSagr, kGet, kPeek, kExist, kDel:
		return true
	}
	return false
}

func facadeOp(kind string) bool {
	switch kind {
	case kSet, kGet, kPeek, kExist, kDel:
		return true
	}
	return false
}

// Op is one call. The identity of the value a storing call stores is derived
// from the position of the call in the case (so that shrinking keeps
// identities unique).
type Op struct {
	K    string `json:"k"`
	Key  Key    `json:"key,omitempty"`
	Size int    `json:"size,omitempty"` // item size of a storing call
	Cap  int64  `json:"cap,omitempty"`  // SetCapacity argument
	Y    bool   `json:"y,omitempty"`    // concurrent parts: yield the processor before the call
	Nil  bool   `json:"nil,omitempty"`  // storing call on a tiny cache: the value is nil
	// storing call: the value has a dynamic type that is not comparable (a slice with a Size method; []byte for tiny)
	Slice bool `json:"slice,omitempty"`
	// storing call of a sequential history: store the value the last storing call on this key was given, once more
	Again bool `json:"again,omitempty"`
}

// MarshalJSON leaves out the key of calls that take none (written by hand: it
// runs once per call of every counted case).
func (o Op) MarshalJSON() ([]byte, error) {
	b := make([]byte, 0, 96)
	b = appendJSONString(append(b, `{"k":`...), o.K)
	if o.Key != (Key{}) {
		b = appendJSONString(append(b, `,"key":{"t":`...), o.Key.T)
		if o.Key.I != 0 {
			b = strconv.AppendInt(append(b, `,"i":`...), o.Key.I, 10)
		}
		if o.Key.S != "" {
			b = appendJSONString(append(b, `,"s":`...), o.Key.S)
		}
		b = append(b, '}')
	}
	if o.Size != 0 {
		b = strconv.AppendInt(append(b, `,"size":`...), int64(o.Size), 10)
	}
	if o.Cap != 0 {
		b = strconv.AppendInt(append(b, `,"cap":`...), o.Cap, 10)
	}
	if o.Y {
		b = append(b, `,"y":true`...)
	}
	if o.Nil {
		b = append(b, `,"nil":true`...)
	}
	if o.Slice {
		b = append(b, `,"slice":true`...)
	}
	if o.Again {
		b = append(b, `,"again":true`...)
	}
	return append(b, '}'), nil
}

func appendJSONString(b []byte, s string) []byte {
	for i := 0; i < len(s); i++ {
		if c := s[i]; c < 0x20 || c > 0x7e || c == '"' || c == '\\' || c == '<' || c == '>' || c == '&' {
			q, _ := json.Marshal(s)
			return append(b, q...)
		}
	}
	b = append(b, '"')
	b = append(b, s...)
	return append(b, '"')
}

func (o Op) String() string {
	switch o.K {
	case kSet, kSia, kSagr:
		how := ""
		if o.Slice {
			how += ", slice-typed value"
		}
		if o.Again {
			how += ", the value stored last under this key again"
		}
		return fmt.Sprintf("%s(%v, size %d%s)", apiName[o.K], o.Key, o.Size, how)
	case kGet, kPeek, kExist, kDel:
		return fmt.Sprintf("%s(%v)", apiName[o.K], o.Key)
	case kSetCap:
		return fmt.Sprintf("SetCapacity(%d)", o.Cap)
	}
	if n, ok := apiName[o.K]; ok {
		return n + "()"
	}
	return "?" + o.K
}

// opProblem says why an executor must skip an op ("" = fine). Shrinking and
// hand-edited replay files may produce such ops.
func opProblem(o Op) string {
	if _, ok := apiName[o.K]; !ok {
		return "unknown-op"
	}
	if needsKey(o.K) {
		if _, ok := o.Key.iface(); !ok {
			return "bad-key"
		}
	}
	if o.Size < 0 || o.Size > 1<<20 {
		return "size-out-of-domain"
	}
	if o.K == kSetCap && o.Cap < 0 {
		return "negative-capacity"
	}
	return ""
}

// KV is one element of Items().
type KV struct {
	K Key `json:"k"`
	V int `json:"v"`
}

// Out is what a call returned, as data.
type Out struct {
	OK      bool     `json:"ok,omitempty"`      // Get/Peek hit, Exist, Delete
	Val     int      `json:"val,omitempty"`     // identity of the value of a hit
	Removed []int    `json:"removed,omitempty"` // SetAndGetRemoved
	Keys    []Key    `json:"keys,omitempty"`
	Items   []KV     `json:"items,omitempty"`
	N       [4]int64 `json:"n,omitempty"`   // Stats: length,size,capacity,evictions; single numbers in N[0]
	Bad     string   `json:"bad,omitempty"` // StatsJSON: the text, when it is not a JSON object of exactly the four numbers
}

func (o Out) show(kind string) string {
	switch kind {
	case kGet, kPeek:
		if o.OK {
			return fmt.Sprintf("value#%d", o.Val)
		}
		return "miss"
	case kExist, kDel:
		return fmt.Sprint(o.OK)
	case kSagr:
		return fmt.Sprintf("removed %v", o.Removed)
	case kKeys:
		return fmt.Sprint(o.Keys)
	case kItems:
		return fmt.Sprint(o.Items)
	case kStats, kSJSON:
		if o.Bad != "" {
			return fmt.Sprintf("unparseable %q", o.Bad)
		}
		return fmt.Sprintf("(len %d, size %d, cap %d, evictions %d)", o.N[0], o.N[1], o.N[2], o.N[3])
	case kLen, kSize, kCap, kEvs:
		return fmt.Sprint(o.N[0])
	}
	return "-"
}

func intsEq(a, b []int) bool {
	if len(a) != len(b) {
		return false
	}
	for i := range a {
		if a[i] != b[i] {
			return false
		}
	}
	return true
}

func keysEq(a, b []Key) bool {
	if len(a) != len(b) {
		return false
	}
	for i := range a {
		if a[i] != b[i] {
			return false
		}
	}
	return true
}

func itemsEq(a, b []KV) bool {
	if len(a) != len(b) {
		return false
	}
	for i := range a {
		if a[i] != b[i] {
			return false
		}
	}
	return true
}

// outEq compares the parts of a result that the kind of call defines. The
// value returned beside a miss is not compared (the documentation does not say
// what it is).
func outEq(kind string, a, b Out) bool {
	switch kind {
	case kGet, kPeek:
		return a.OK == b.OK && (!a.OK || a.Val == b.Val)
	case kExist, kDel:
		return a.OK == b.OK
	case kSagr:
		return intsEq(a.Removed, b.Removed)
	case kKeys:
		return keysEq(a.Keys, b.Keys)
	case kItems:
		return itemsEq(a.Items, b.Items)
	case kStats:
		return a.N == b.N
	case kSJSON:
		return a.N == b.N && a.Bad == "" && b.Bad == ""
	case kLen, kSize, kCap, kEvs:
		return a.N[0] == b.N[0]
	}
	return true
}

// ---------------------------------------------------------------------------
// the ideal LRU (reference model)

type ent struct {
	K  Key
	V  int
	Sz int64
}

// stepInfo records what the last applied call did to the model (class labels,
// non-trivial rule). It is not part of the state.
type stepInfo struct {
	evicted    int
	selfEvict  bool // the item just stored was itself evicted (larger than the capacity)
	grewInPlce bool // a present key was given a larger item
	siaPresent bool
	shrinkCap  bool
}

// ideal is the ideal LRU of the property statement. ents[0] is the most
// recently used entry. With unit set every item counts 1 (cache/tiny counts
// entries), otherwise its declared size.
type ideal struct {
	unit bool
	capa int64
	ev   int64
	ents []ent
	info stepInfo
}

func (m *ideal) clone() *ideal {
	c := &ideal{unit: m.unit, capa: m.capa, ev: m.ev}
	c.ents = append(make([]ent, 0, len(m.ents)+1), m.ents...)
	return c
}

func (m *ideal) equal(o *ideal) bool {
	if m.unit != o.unit || m.capa != o.capa || m.ev != o.ev || len(m.ents) != len(o.ents) {
		return false
	}
	for i := range m.ents {
		if m.ents[i] != o.ents[i] {
			return false
		}
	}
	return true
}

func (m *ideal) find(k Key) int {
	for i := range m.ents {
		if m.ents[i].K == k {
			return i
		}
	}
	return -1
}

func (m *ideal) total() int64 {
	var s int64
	for _, e := range m.ents {
		s += e.Sz
	}
	return s
}

func (m *ideal) itemSize(declared int) int64 {
	if m.unit {
		return 1
	}
	return int64(declared)
}

// refresh makes entry i the most recently used one.
func (m *ideal) refresh(i int) {
	e := m.ents[i]
	copy(m.ents[1:i+1], m.ents[:i])
	m.ents[0] = e
}

func (m *ideal) insertMRU(e ent) {
	m.ents = append(m.ents, ent{})
	copy(m.ents[1:], m.ents)
	m.ents[0] = e
}

// enforce evicts least recently used entries until the summed size fits the
// capacity and returns the identities of the evicted values in eviction order.
func (m *ideal) enforce(justStored int) []int {
	var gone []int
	for len(m.ents) > 0 && m.total() > m.capa {
		last := m.ents[len(m.ents)-1]
		m.ents = m.ents[:len(m.ents)-1]
		m.ev++
		gone = append(gone, last.V)
		if justStored != 0 && last.V == justStored {
			m.info.selfEvict = true
		}
	}
	m.info.evicted = len(gone)
	return gone
}

// apply performs one call on the model and returns what the call must return.
// alt selects the second of the two behaviours the statement leaves open:
// SetIfAbsent on a present key refreshes recency (alt) or not; Clear resets the
// eviction counter (alt) or not.
func (m *ideal) apply(op Op, id int, alt bool) Out {
	m.info = stepInfo{}
	if op.Nil && m.unit {
		id = nilID // a tiny cache stores the nil it was given
	}
	var o Out
	switch op.K {
	case kSet, kSagr:
		sz := m.itemSize(op.Size)
		if i := m.find(op.Key); i >= 0 {
			m.info.grewInPlce = sz > m.ents[i].Sz
			m.ents[i].V, m.ents[i].Sz = id, sz
			m.refresh(i)
		} else {
			m.insertMRU(ent{op.Key, id, sz})
		}
		gone := m.enforce(id)
		if op.K == kSagr {
			o.Removed = gone
		}
	case kSia:
		if i := m.find(op.Key); i >= 0 {
			m.info.siaPresent = true
			if alt {
				m.refresh(i)
			}
		} else {
			m.insertMRU(ent{op.Key, id, m.itemSize(op.Size)})
			m.enforce(id)
		}
	case kGet:
		if i := m.find(op.Key); i >= 0 {
			o.OK, o.Val = true, m.ents[i].V
			m.refresh(i)
		}
	case kPeek:
		if i := m.find(op.Key); i >= 0 {
			o.OK, o.Val = true, m.ents[i].V
		}
	case kExist:
		o.OK = m.find(op.Key) >= 0
	case kDel:
		if i := m.find(op.Key); i >= 0 {
			o.OK = true
			m.ents = append(m.ents[:i], m.ents[i+1:]...)
		}
	case kClear:
		m.ents = m.ents[:0]
		if alt {
			m.ev = 0
		}
	case kSetCap:
		m.info.shrinkCap = op.Cap < m.capa
		m.capa = op.Cap
		m.enforce(0)
	case kKeys:
		o.Keys = make([]Key, len(m.ents))
		for i, e := range m.ents {
			o.Keys[i] = e.K
		}
	case kItems:
		o.Items = make([]KV, len(m.ents))
		for i, e := range m.ents {
			o.Items[i] = KV{e.K, e.V}
		}
	case kStats, kSJSON:
		o.N = [4]int64{int64(len(m.ents)), m.total(), m.capa, m.ev}
	case kLen:
		o.N[0] = int64(len(m.ents))
	case kSize:
		o.N[0] = m.total()
	case kCap:
		o.N[0] = m.capa
	case kEvs:
		o.N[0] = m.ev
	}
	return o
}

// openCorner reports whether the statement leaves two behaviours open for the kind.
func openCorner(kind string) bool { return kind == kSia || kind == kClear }

// ---------------------------------------------------------------------------
// the code under test behind one calling convention

// target is what every variant offers (cache.LRUFacade / tiny.LRU).
type target interface {
	Get(k any) (int, bool)
	Peek(k any) (int, bool)
	Exist(k any) bool
	Set(k any, v sv)
	Delete(k any) bool
}

// fullTarget is the complete public surface of the two LRUCache types.
type fullTarget interface {
	target
	SetIfAbsent(k any, v sv)
	SetAndGetRemoved(k any, v sv) []int
	Clear()
	SetCapacity(c int64)
	Stats() [4]int64
	StatsJSON() string
	Length() int64
	Size() int64
	Capacity() int64
	Evictions() int64
	Keys() []Key
	Items() []KV
}

type cacheFacade struct{ f cache.LRUFacade }

func (a cacheFacade) Get(k any) (int, bool)  { v, ok := a.f.Get(k); return hitID(v, ok), ok }
func (a cacheFacade) Peek(k any) (int, bool) { v, ok := a.f.Peek(k); return hitID(v, ok), ok }
func (a cacheFacade) Exist(k any) bool       { return a.f.Exist(k) }
func (a cacheFacade) Set(k any, v sv)        { a.f.Set(k, cacheVal(v)) }
func (a cacheFacade) Delete(k any) bool      { return a.f.Delete(k) }

func hitID(v any, ok bool) int {
	if !ok {
		return 0
	}
	return valID(v)
}

type cacheFull struct {
	cacheFacade
	c    *cache.LRUCache
	kept *keptLists
}

// keptLists remembers the removed-lists SetAndGetRemoved handed out: they belong to the caller, so they must
// still hold the same values after any number of later calls. In the sequential parts (lists set) the same holds
// for the slices Keys() and Items() returned: a result is a snapshot, later calls must not write into it.
type keptLists struct {
	mu    sync.Mutex
	items []keptList
	// sequential parts only (no lock, no shared memory between the goroutines of the concurrent parts)
	lists    bool
	listings []keptListing
	elems    int // elements retained in listings so far
	long     int // retained listings of more than 64 elements
	skipped  int // listings not retained (budget)
}

type keptList struct {
	n    int
	at   func(i int) int // reads the retained slice again
	then []int           // what it held when it was returned
}

// keptListing is one retained result of Keys() or Items().
type keptListing struct {
	api  string
	n    func() int     // length of the retained slice now
	at   func(i int) KV // reads the retained slice again (Keys: V = 0)
	then []KV
}

const (
	keptElemBudget = 6000 // retained elements per case
	keptLongMax    = 6    // retained listings of more than 64 elements per case
)

// keepListing retains a Keys()/Items() result (within the budget of the case).
func (k *keptLists) keepListing(api string, n func() int, at func(i int) KV) {
	if k == nil || !k.lists {
		return
	}
	ln := n()
	if ln == 0 || k.elems+ln > keptElemBudget || (ln > 64 && k.long >= keptLongMax) {
		k.skipped++
		return
	}
	if ln > 64 {
		k.long++
	}
	k.elems += ln
	then := make([]KV, ln)
	for i := range then {
		then[i] = at(i)
	}
	k.listings = append(k.listings, keptListing{api, n, at, then})
}

func (k *keptLists) keep(n int, at func(i int) int, then []int) {
	if k != nil && n > 0 {
		k.mu.Lock()
		k.items = append(k.items, keptList{n, at, append([]int(nil), then...)})
		k.mu.Unlock()
	}
}

// changed returns a description of the first retained list that no longer holds what it held, or "".
func (k *keptLists) changed() string {
	if k == nil {
		return ""
	}
	for j, it := range k.items {
		for i := 0; i < it.n; i++ {
			if now := it.at(i); now != it.then[i] {
				return fmt.Sprintf("the %d. non-empty removed-list returned by SetAndGetRemoved held values %v when it was returned; after later calls its element %d is value %d", j+1, it.then, i, now)
			}
		}
	}
	return ""
}

// listingChanged is changed() for the retained results of Keys() and Items(): site suffix and description of the
// first one that no longer holds what it held when it was returned.
func (k *keptLists) listingChanged() (api, msg string) {
	if k == nil {
		return "", ""
	}
	for _, l := range k.listings {
		if n := l.n(); n != len(l.then) {
			return l.api, fmt.Sprintf("a slice returned by %s() had %d elements when it was returned and has %d after later calls", l.api, len(l.then), n)
		}
		for i := range l.then {
			if now := l.at(i); now != l.then[i] {
				show := func(e KV) string {
					if l.api == "Keys" {
						return e.K.String()
					}
					return fmt.Sprintf("%v=#%d", e.K, e.V)
				}
				return l.api, fmt.Sprintf("a slice returned by %s() (%d elements) held %s at index %d when it was returned; after later calls of the cache the same slice holds %s there - a result is the caller's snapshot, later calls must not write into it", l.api, len(l.then), show(l.then[i]), i, show(now))
			}
		}
	}
	return "", ""
}

func (a cacheFull) SetIfAbsent(k any, v sv) { a.c.SetIfAbsent(k, cacheVal(v)) }
func (a cacheFull) SetAndGetRemoved(k any, v sv) []int {
	var ids []int
	raw := a.c.SetAndGetRemoved(k, cacheVal(v))
	for _, r := range raw {
		ids = append(ids, valID(r))
	}
	a.kept.keep(len(raw), func(i int) int { return valID(raw[i]) }, ids)
	return ids
}
func (a cacheFull) Clear()              { a.c.Clear() }
func (a cacheFull) SetCapacity(n int64) { a.c.SetCapacity(n) }
func (a cacheFull) Stats() [4]int64     { l, s, c, e := a.c.Stats(); return [4]int64{l, s, c, e} }
func (a cacheFull) StatsJSON() string   { return a.c.StatsJSON() }
func (a cacheFull) Length() int64       { return a.c.Length() }
func (a cacheFull) Size() int64         { return a.c.Size() }
func (a cacheFull) Capacity() int64     { return a.c.Capacity() }
func (a cacheFull) Evictions() int64    { return a.c.Evictions() }
func (a cacheFull) Keys() []Key {
	ks := a.c.Keys()
	out := make([]Key, len(ks))
	for i, k := range ks {
		out[i] = keyOf(k)
	}
	a.kept.keepListing("Keys", func() int { return len(ks) }, func(i int) KV { return KV{K: keyOf(ks[i])} })
	return out
}
func (a cacheFull) Items() []KV {
	its := a.c.Items()
	out := make([]KV, len(its))
	for i, it := range its {
		out[i] = KV{keyOf(it.Key), valID(it.Value)}
	}
	a.kept.keepListing("Items", func() int { return len(its) }, func(i int) KV { return KV{keyOf(its[i].Key), valID(its[i].Value)} })
	return out
}

type tinyFacade struct{ f tiny.LRU }

func (a tinyFacade) Get(k any) (int, bool)  { v, ok := a.f.Get(k); return hitID(v, ok), ok }
func (a tinyFacade) Peek(k any) (int, bool) { v, ok := a.f.Peek(k); return hitID(v, ok), ok }
func (a tinyFacade) Exist(k any) bool       { return a.f.Exist(k) }
func (a tinyFacade) Set(k any, v sv)        { a.f.Set(k, tinyVal(v)) }
func (a tinyFacade) Delete(k any) bool      { return a.f.Delete(k) }

type tinyFull struct {
	tinyFacade
	c    *tiny.LRUCache
	kept *keptLists
}

func (a tinyFull) SetIfAbsent(k any, v sv) { a.c.SetIfAbsent(k, tinyVal(v)) }
func (a tinyFull) SetAndGetRemoved(k any, v sv) []int {
	var ids []int
	raw := a.c.SetAndGetRemoved(k, tinyVal(v))
	for _, r := range raw {
		ids = append(ids, valID(r))
	}
	a.kept.keep(len(raw), func(i int) int { return valID(raw[i]) }, ids)
	return ids
}
func (a tinyFull) Clear()              { a.c.Clear() }
func (a tinyFull) SetCapacity(n int64) { a.c.SetCapacity(n) }
func (a tinyFull) Stats() [4]int64     { l, s, c, e := a.c.Stats(); return [4]int64{l, s, c, e} }
func (a tinyFull) StatsJSON() string   { return a.c.StatsJSON() }
func (a tinyFull) Length() int64       { return a.c.Length() }
func (a tinyFull) Size() int64         { return a.c.Size() }
func (a tinyFull) Capacity() int64     { return a.c.Capacity() }
func (a tinyFull) Evictions() int64    { return a.c.Evictions() }
func (a tinyFull) Keys() []Key {
	ks := a.c.Keys()
	out := make([]Key, len(ks))
	for i, k := range ks {
		out[i] = keyOf(k)
	}
	a.kept.keepListing("Keys", func() int { return len(ks) }, func(i int) KV { return KV{K: keyOf(ks[i])} })
	return out
}
func (a tinyFull) Items() []KV {
	its := a.c.Items()
	out := make([]KV, len(its))
	for i, it := range its {
		out[i] = KV{keyOf(it.Key), valID(it.Value)}
	}
	a.kept.keepListing("Items", func() int { return len(its) }, func(i int) KV { return KV{keyOf(its[i].Key), valID(its[i].Value)} })
	return out
}

const (
	implCache = "cache.LRUCache"
	implTiny  = "tiny.LRUCache"
	implWCach = "cache.WideLRUCache"
	implWTiny = "tiny.WideLRUCache"
)

// newFull builds one of the two single caches, through the plain constructor or
// through the facade constructor (which must hand out the same type).
func newFull(impl string, capa int64, viaFacade bool) (fullTarget, string) {
	switch impl {
	case implCache:
		var c *cache.LRUCache
		if viaFacade {
			var ok bool
			if c, ok = cache.NewSingleLRUCache(capa).(*cache.LRUCache); !ok {
				return nil, "cache.NewSingleLRUCache does not return a *cache.LRUCache"
			}
		} else {
			c = cache.NewLRUCache(capa)
		}
		return cacheFull{cacheFacade{c}, c, &keptLists{}}, ""
	case implTiny:
		var c *tiny.LRUCache
		if viaFacade {
			var ok bool
			if c, ok = tiny.NewSingleLRUCache(capa).(*tiny.LRUCache); !ok {
				return nil, "tiny.NewSingleLRUCache does not return a *tiny.LRUCache"
			}
		} else {
			c = tiny.NewLRUCache(capa)
		}
		return tinyFull{tinyFacade{c}, c, &keptLists{}}, ""
	}
	return nil, "unknown implementation " + impl
}

// newWide builds a sharded cache and the function that maps a key to its shard
// (the public remap index the constructors are documented to use). shards == 0
// is the default configuration: no option at all (remap.DefaultPrime shards);
// n is the number of shards the cache then has.
func newWide(impl string, capa int64, shards int, xhash bool) (t target, idx func(Key) int, n int) {
	var opts []remap.Option
	if shards > 0 {
		opts = append(opts, remap.WithPrime(uint64(shards)))
	}
	rm := remap.NewReMap(opts...)
	n = int(rm.Numbs())
	idx = func(k Key) int {
		x, _ := k.iface()
		if xhash {
			return rm.XHashIndex(x)
		}
		return rm.SimpleIndex(x)
	}
	switch impl {
	case implWCach:
		if xhash {
			return cacheFacade{cache.NewWideXHashLRUCache(capa, opts...)}, idx, n
		}
		return cacheFacade{cache.NeWideLRUCache(capa, opts...)}, idx, n
	case implWTiny:
		if xhash {
			return tinyFacade{tiny.NewWideXHashLRU(capa, opts...)}, idx, n
		}
		return tinyFacade{tiny.NeWideLRU(capa, opts...)}, idx, n
	}
	return nil, nil, 0
}

// perShardCap is the capacity the wide constructors give each shard.
func perShardCap(capa int64, shards int) int64 { return capa/int64(shards) + 1 }

// doReal performs one call on the code under test.
func doReal(t target, op Op, id int) (o Out, supported bool) {
	var k any
	if needsKey(op.K) {
		k, _ = op.Key.iface()
	}
	switch op.K {
	case kSet:
		t.Set(k, mkVal(op, id))
		return o, true
	case kGet:
		o.Val, o.OK = t.Get(k)
		return o, true
	case kPeek:
		o.Val, o.OK = t.Peek(k)
		return o, true
	case kExist:
		o.OK = t.Exist(k)
		return o, true
	case kDel:
		o.OK = t.Delete(k)
		return o, true
	}
	f, ok := t.(fullTarget)
	if !ok {
		return o, false
	}
	switch op.K {
	case kSia:
		f.SetIfAbsent(k, mkVal(op, id))
	case kSagr:
		o.Removed = f.SetAndGetRemoved(k, mkVal(op, id))
	case kClear:
		f.Clear()
	case kSetCap:
		f.SetCapacity(op.Cap)
	case kKeys:
		o.Keys = f.Keys()
	case kItems:
		o.Items = f.Items()
	case kStats:
		o.N = f.Stats()
	case kSJSON:
		o.N, o.Bad = parseStatsJSON(f.StatsJSON())
	case kLen:
		o.N[0] = f.Length()
	case kSize:
		o.N[0] = f.Size()
	case kCap:
		o.N[0] = f.Capacity()
	case kEvs:
		o.N[0] = f.Evictions()
	default:
		return o, false
	}
	return o, true
}

// parseStatsJSON reads the four numbers of StatsJSON; bad is the text itself when it is not a JSON object of
// exactly Length, Size, Capacity and Evictions.
func parseStatsJSON(s string) (n [4]int64, bad string) {
	var js map[string]int64
	if err := json.Unmarshal([]byte(s), &js); err != nil || len(js) != 4 {
		return n, "StatsJSON() = " + s
	}
	for i, name := range [4]string{"Length", "Size", "Capacity", "Evictions"} {
		v, ok := js[name]
		if !ok {
			return n, "StatsJSON() = " + s
		}
		n[i] = v
	}
	return n, ""
}

// ---------------------------------------------------------------------------
// sequential model equivalence (single caches)

var observers = []string{kKeys, kItems, kStats, kLen, kSize, kCap, kEvs}

// snapshot holds what every observer returned, in the order of observers.
type snapshot [7]Out

func (s *snapshot) get(kind string) Out {
	for i, k := range observers {
		if k == kind {
			return s[i]
		}
	}
	return Out{}
}

func observe(t fullTarget) *snapshot {
	s := &snapshot{}
	for i, k := range observers {
		s[i], _ = doReal(t, Op{K: k}, 0)
	}
	return s
}

func (m *ideal) snapshot() *snapshot {
	s := &snapshot{}
	for i, k := range observers {
		s[i] = m.apply(Op{K: k}, 0, false)
	}
	return s
}

// disagrees returns the first observer (in the order of observers) whose result differs from what the model would
// return, "" if none does. It is outEq(k, obs.get(k), m.snapshot().get(k)) for every observer k without building the
// model's lists (this runs after every call of every sequential history).
func (m *ideal) disagrees(obs *snapshot) string {
	n, tot := int64(len(m.ents)), m.total()
	for i, k := range observers {
		o := &obs[i]
		switch k {
		case kKeys:
			if len(o.Keys) != len(m.ents) {
				return k
			}
			for j := range m.ents {
				if o.Keys[j] != m.ents[j].K {
					return k
				}
			}
		case kItems:
			if len(o.Items) != len(m.ents) {
				return k
			}
			for j := range m.ents {
				if o.Items[j].K != m.ents[j].K || o.Items[j].V != m.ents[j].V {
					return k
				}
			}
		case kStats:
			if o.N != [4]int64{n, tot, m.capa, m.ev} {
				return k
			}
		case kLen:
			if o.N[0] != n {
				return k
			}
		case kSize:
			if o.N[0] != tot {
				return k
			}
		case kCap:
			if o.N[0] != m.capa {
				return k
			}
		case kEvs:
			if o.N[0] != m.ev {
				return k
			}
		default:
			if !outEq(k, *o, m.apply(Op{K: k}, 0, false)) {
				return k
			}
		}
	}
	return ""
}

// stepFull performs one call on a single cache and on the model and compares
// the result and every observer. It returns the model after the call (nil after
// a failure).
func stepFull(res *vkit.Result, impl string, where func() string, t fullTarget, m *ideal, op Op, id int) *ideal {
	got, _ := doReal(t, op, id)
	obs := observe(t)
	api := apiName[op.K]
	// the bound, from the cache's own numbers only
	if st := obs.get(kStats).N; st[1] > st[2] {
		res.Failf(impl+"/"+api+"/bound", "%s %v: Size %d exceeds Capacity %d after the call returned", where(), op, st[1], st[2])
		return nil
	}
	var aspect, msg string
	for _, alt := range []bool{false, true} {
		cand := m.clone()
		exp := cand.apply(op, id, alt)
		info := cand.info // the observer calls below overwrite it
		a, ms := "", ""
		if !outEq(op.K, got, exp) {
			a, ms = "result", fmt.Sprintf("returned %s, ideal LRU: %s", got.show(op.K), exp.show(op.K))
		} else if k := cand.disagrees(obs); k != "" {
			a, ms = apiName[k], fmt.Sprintf("%s() = %s, ideal LRU: %s", apiName[k], obs.get(k).show(k), cand.snapshot().get(k).show(k))
		}
		if a == "" {
			if info.siaPresent {
				if alt {
					res.Class("SetIfAbsent on present key: refreshed")
				} else if m.find(op.Key) > 0 {
					res.Class("SetIfAbsent on present key: not refreshed")
				}
			}
			noteInfo(res, op, info)
			cand.info = info
			return cand
		}
		if !alt {
			aspect, msg = a, ms
		}
		if !openCorner(op.K) {
			break
		}
	}
	res.Failf(impl+"/"+api+"/"+aspect, "%s %v: %s (ideal LRU before the call, most recent first: %s)", where(), op, msg, m.describe())
	return nil
}

func (m *ideal) describe() string {
	var b strings.Builder
	fmt.Fprintf(&b, "cap %d, evictions %d, [", m.capa, m.ev)
	for i, e := range m.ents {
		if i > 0 {
			b.WriteString(" ")
		}
		fmt.Fprintf(&b, "%v=#%d/size%d", e.K, e.V, e.Sz)
	}
	b.WriteString("]")
	return b.String()
}

// noteInfo turns what a call did to the model into class labels and the
// non-trivial flag (at least one eviction happened).
func noteInfo(res *vkit.Result, op Op, info stepInfo) {
	if info.evicted > 0 {
		res.NonTrivial = true
		res.Class("eviction")
	}
	if info.evicted >= 2 {
		res.Class("multi-entry eviction by one call")
	}
	if info.selfEvict {
		res.Class("oversize item evicting itself")
	}
	if info.shrinkCap {
		res.Class("SetCapacity shrink")
		if info.evicted > 0 {
			res.Class("SetCapacity shrink evicting")
		}
	}
	if info.grewInPlce {
		res.Class("in-place growth")
		if info.evicted > 0 {
			res.Class("in-place growth evicting")
		}
	}
	if op.K == kSagr && info.evicted > 0 {
		res.Class("SetAndGetRemoved non-empty")
	}
	if op.K == kSia && info.siaPresent {
		res.Class("SetIfAbsent on present key")
	}
}

// SeqCase is one sequential history on a single cache.
type SeqCase struct {
	Impl   string `json:"impl"`
	Facade bool   `json:"facade,omitempty"` // build through NewSingleLRUCache
	Cap    int64  `json:"cap"`
	Ops    []Op   `json:"ops"`
}

func normOps(ops []Op) []Op {
	out := make([]Op, len(ops))
	for i, o := range ops {
		o.Key = o.Key.norm()
		out[i] = o
	}
	return out
}

func ExecSeq(c SeqCase) *vkit.Result {
	res := &vkit.Result{}
	if c.Cap < 0 {
		res.Skip("case:negative-capacity")
		return res
	}
	t, problem := newFull(c.Impl, c.Cap, c.Facade)
	if t == nil {
		if strings.HasPrefix(problem, "unknown") {
			res.Skip("case:unknown-impl")
			return res
		}
		return res.Failf(c.Impl+"/constructor", "%s", problem)
	}
	res.Class("impl " + c.Impl)
	if c.Cap == 0 {
		res.Class("capacity 0")
	}
	keptOf(t).lists = true // sequential: every Keys()/Items() result is retained and read again at the end
	m := &ideal{unit: c.Impl == implTiny, capa: c.Cap}
	// a new cache is an empty ideal LRU
	got, want := observe(t), m.snapshot()
	for _, k := range observers {
		if !outEq(k, got.get(k), want.get(k)) {
			return res.Failf(c.Impl+"/new/"+apiName[k], "new cache of capacity %d: %s() = %s, want %s", c.Cap, apiName[k], got.get(k).show(k), want.get(k).show(k))
		}
	}
	last := lastVals{}
	most := 0
	for i, op := range normOps(c.Ops) {
		if p := opProblem(op); p != "" {
			res.Skip("op:" + p)
			continue
		}
		op, id := last.resolve(op, i+1)
		if storing(op.K) {
			if op.Size == 0 && c.Impl == implCache {
				res.Class("zero-size item")
			}
			if op.Slice && !(op.Nil && c.Impl == implTiny) {
				res.Class("value of a non-comparable type")
			}
			if op.Again {
				res.Class("identical value stored again")
			}
			if op.Key.T == "nil" {
				res.Class("nil key")
			}
		}
		if m = stepFull(res, c.Impl, func() string { return fmt.Sprintf("op #%d", i) }, t, m, op, id); m == nil {
			return res
		}
		if len(m.ents) > most {
			most = len(m.ents)
		}
		if m.info.evicted > 32 {
			res.Class("more than 32 entries evicted by one call")
		} else if m.info.evicted > 8 {
			res.Class("more than 8 entries evicted by one call")
		}
	}
	if most >= 50 {
		res.Class("50 or more live entries")
	}
	// removed-lists handed out earlier still hold what they held, and so do the results of Keys() and Items()
	if !checkKept(res, c.Impl, keptOf(t)) {
		return res
	}
	// StatsJSON is the same four numbers
	js, bad := parseStatsJSON(t.StatsJSON())
	if bad != "" {
		return res.Failf(c.Impl+"/StatsJSON", "%s is not a JSON object of the four numbers Length, Size, Capacity, Evictions", bad)
	}
	if st := m.apply(Op{K: kStats}, 0, false).N; js != st {
		return res.Failf(c.Impl+"/StatsJSON", "StatsJSON() = %s, ideal LRU: %s", t.StatsJSON(), Out{N: st}.show(kStats))
	}
	return res
}

// keptOf is the retention record of a single cache built by newFull.
func keptOf(t fullTarget) *keptLists {
	switch f := t.(type) {
	case cacheFull:
		return f.kept
	case tinyFull:
		return f.kept
	}
	return nil
}

// checkKept reads every retained slice again (removed-lists, Keys() and Items() results).
func checkKept(res *vkit.Result, impl string, kl *keptLists) bool {
	if msg := kl.changed(); msg != "" {
		res.Failf(impl+"/SetAndGetRemoved/retained", "%s", msg)
		return false
	}
	if api, msg := kl.listingChanged(); msg != "" {
		res.Failf(impl+"/"+api+"/retained", "%s", msg)
		return false
	}
	if kl != nil && len(kl.items) > 1 {
		res.Class("removed-lists retained and re-checked")
	}
	if kl != nil && len(kl.listings) > 2 {
		res.Class("Keys/Items results retained and re-checked")
	}
	return true
}

// ---- generators -------------------------------------------------------------

// universe is the key domain of the single caches: ints, and the same numbers
// and digits under other dynamic types, which an interface{}-keyed cache must
// keep apart.
var universe = []Key{
	{T: "int", I: 0}, {T: "int", I: 1}, {T: "int", I: 2}, {T: "int", I: 3}, {T: "int", I: 4}, {T: "int", I: 5},
	{T: "int", I: -1}, {T: "int64", I: 1}, {T: "int64", I: 2}, {T: "uint32", I: 1},
	{T: "string", S: "a"}, {T: "string", S: "b"}, {T: "string", S: "1"}, {T: "string", S: ""},
	{T: "nil"},
}

func genPool(t *rapid.T, from []Key, lo, hi int) []Key {
	if hi > len(from) {
		hi = len(from)
	}
	if lo > hi {
		lo = hi
	}
	n := rapid.IntRange(lo, hi).Draw(t, "nkeys")
	perm := rapid.Permutation(from).Draw(t, "keys")
	return perm[:n]
}

// genSize draws an item size 0..15. Profile 0 is a mixture: mostly small
// (several entries fit, one call can evict several), sometimes around the
// capacity, sometimes anything (oversize items flush the cache). Profile 1
// keeps items small (0..2, rarely anything) so that many entries live long and
// deep recency orders build up; profile 2 is the unit-size cache (every item 1,
// rarely 0 or 2); profile 3 is exactly 1 always (then Size == Length in every snapshot of a cache.LRUCache too).
func genSize(t *rapid.T, profile int, capa int64) int {
	switch profile {
	case 3:
		return 1
	case 1:
		if rapid.IntRange(0, 19).Draw(t, "sizekind") == 0 {
			return rapid.IntRange(0, 15).Draw(t, "size")
		}
		return rapid.IntRange(0, 2).Draw(t, "size")
	case 2:
		if rapid.IntRange(0, 9).Draw(t, "sizekind") == 0 {
			return rapid.IntRange(0, 2).Draw(t, "size")
		}
		return 1
	}
	switch rapid.IntRange(0, 9).Draw(t, "sizekind") {
	case 0, 1, 2, 3:
		return rapid.IntRange(0, 3).Draw(t, "size")
	case 4, 5, 6:
		return rapid.IntRange(1, 6).Draw(t, "size")
	case 7, 8:
		s := int(capa) + rapid.IntRange(-1, 1).Draw(t, "size")
		if s < 0 {
			s = 0
		}
		if s > 15 {
			s = 15
		}
		return s
	default:
		return rapid.IntRange(0, 15).Draw(t, "size")
	}
}

func genProfile(t *rapid.T) int {
	return rapid.SampledFrom([]int{0, 0, 0, 1, 1, 1, 2, 2}).Draw(t, "sizeprofile")
}

func weighted(pairs ...any) []string {
	var out []string
	for i := 0; i+1 < len(pairs); i += 2 {
		for n := pairs[i+1].(int); n > 0; n-- {
			out = append(out, pairs[i].(string))
		}
	}
	return out
}

var seqKinds = weighted(kSet, 22, kSagr, 14, kSia, 9, kGet, 15, kPeek, 6, kExist, 4, kDel, 8, kClear, 2, kSetCap, 8)

// opGen generates one call. Histories are slices of it, so that rapid shrinks
// a failing history by deleting calls.
func opGen(kinds []string, pool []Key, profile int, capa int64, maxCap int) *rapid.Generator[Op] {
	return rapid.Custom(func(t *rapid.T) Op {
		op := Op{K: rapid.SampledFrom(kinds).Draw(t, "op")}
		if needsKey(op.K) {
			op.Key = rapid.SampledFrom(pool).Draw(t, "key")
		}
		switch op.K {
		case kSet, kSia, kSagr:
			op.Size = genSize(t, profile, capa)
		case kSetCap:
			op.Cap = int64(rapid.IntRange(0, maxCap).Draw(t, "newcap"))
		}
		return op
	})
}

// history draws 1..max calls as the concatenation of a few short runs: rapid's
// own slice lengths are geometric with a small mean, two levels give a mean of
// about 25 calls with a long tail, and a failing history is still shrunk by
// deleting single calls or whole runs (no forced minimum length).
func history(t *rapid.T, g *rapid.Generator[Op], max int, label string) []Op {
	var out []Op
	runs := rapid.SliceOfN(rapid.SliceOfN(g, 1, 12), 1, 10)
	for _, run := range runs.Draw(t, label) {
		out = append(out, run...)
	}
	if vkit.Tier() == "thorough" { // twice as long on average
		for _, run := range runs.Draw(t, label+"-more") {
			out = append(out, run...)
		}
	}
	if len(out) > max {
		out = out[:max]
	}
	return out
}

func maxOps() int {
	if vkit.Tier() == "thorough" {
		return 120
	}
	return 50
}

func genSeq(impl string) func(t *rapid.T) SeqCase {
	return func(t *rapid.T) SeqCase {
		// rapid's integer draws favour the ends of a range (0 comes up in one draw of ten here); values in the
		// middle have about 0.22 % each: 3 of them for the quick tier (~0.7 % of the cases), 14 for thorough (~3 %)
		bigN := 3
		if vkit.Tier() == "thorough" {
			bigN = 14
		}
		if v := rapid.IntRange(0, 199).Draw(t, "big"); v >= 100 && v < 100+bigN {
			return genBigSeq(t, impl)
		}
		c := SeqCase{Impl: impl, Facade: rapid.IntRange(0, 7).Draw(t, "facade") == 0}
		if impl == implTiny {
			// entries count 1: keep the capacity below the number of keys most of the time
			c.Cap = int64(rapid.SampledFrom([]int{0, 1, 1, 2, 2, 3, 3, 4, 5, 6, 8, 12}).Draw(t, "cap"))
		} else {
			c.Cap = int64(rapid.SampledFrom([]int{0, 1, 2, 3, 4, 5, 6, 7, 8, 9, 10, 11, 12, 3, 5, 8}).Draw(t, "cap"))
		}
		pool := genPool(t, universe, 1, 8)
		c.Ops = history(t, opGen(seqKinds, pool, genProfile(t), c.Cap, 12), maxOps(), "ops")
		if impl == implTiny {
			sprinkleNil(t, c.Ops)
		}
		sprinkleVals(t, c.Ops)
		return c
	}
}

var bigFillKinds = weighted(kSet, 3, kSia, 1, kSagr, 1)

// genBigSeq draws one of the rare big histories: capacity 50..300, 50..120 (one in four: 120..320) int keys stored one
// after the other (50-300 live entries), then 3-10 steps out of: SetCapacity to 0 / a few / half / more (one call has to evict dozens or
// hundreds of entries), an item larger than the whole capacity, a burst of further stores after raising the capacity
// again, some Gets (recency), Deletes, Clear.
func genBigSeq(t *rapid.T, impl string) SeqCase {
	c := SeqCase{Impl: impl, Cap: int64(rapid.IntRange(50, 300).Draw(t, "bigcap"))}
	nkeys := rapid.IntRange(50, 120).Draw(t, "bigkeys")
	if rapid.IntRange(0, 3).Draw(t, "bigger") == 0 { // the cost of a history grows with the square of the population
		nkeys = rapid.IntRange(120, 320).Draw(t, "bigkeys")
	}
	profile := rapid.SampledFrom([]int{3, 3, 2, 1}).Draw(t, "bigsizes")
	key := func(i int) Key { return Key{T: "int", I: int64(i)} }
	anyKey := rapid.Custom(func(t *rapid.T) Key { return key(rapid.IntRange(0, nkeys+3).Draw(t, "key")) })
	store := func(k Key, size int) Op {
		return Op{K: rapid.SampledFrom(bigFillKinds).Draw(t, "op"), Key: k, Size: size}
	}
	for i := 0; i < nkeys; i++ {
		c.Ops = append(c.Ops, store(key(i), genSize(t, profile, c.Cap)))
	}
	capNow := c.Cap
	for n := rapid.IntRange(3, 10).Draw(t, "bigsteps"); n > 0 && len(c.Ops) < 900; n-- {
		switch rapid.SampledFrom([]string{"shrink", "shrink", "shrink", "shrink", "oversize", "oversize", "burst", "burst", "burst", "gets", "gets", "deletes", "clear"}).Draw(t, "bigstep") {
		case "shrink":
			to := rapid.SampledFrom([]int64{0, 0, 1, 2, 5, 10, capNow / 2, capNow - 1, capNow - 9, capNow - 33}).Draw(t, "newcap")
			if to < 0 {
				to = 0
			}
			capNow = to
			c.Ops = append(c.Ops, Op{K: kSetCap, Cap: to})
		case "oversize":
			c.Ops = append(c.Ops, store(anyKey.Draw(t, "key"), int(capNow)+rapid.IntRange(0, 2).Draw(t, "over")))
		case "burst":
			capNow = int64(rapid.IntRange(40, 300).Draw(t, "newcap"))
			c.Ops = append(c.Ops, Op{K: kSetCap, Cap: capNow})
			m := rapid.IntRange(20, nkeys).Draw(t, "burst")
			from := rapid.IntRange(0, nkeys).Draw(t, "from")
			for i := 0; i < m; i++ {
				c.Ops = append(c.Ops, store(key((from+i)%(nkeys+4)), genSize(t, profile, capNow)))
			}
		case "gets":
			for i := rapid.IntRange(1, 12).Draw(t, "gets"); i > 0; i-- {
				c.Ops = append(c.Ops, Op{K: kGet, Key: anyKey.Draw(t, "key")})
			}
		case "deletes":
			for i := rapid.IntRange(1, 6).Draw(t, "deletes"); i > 0; i-- {
				c.Ops = append(c.Ops, Op{K: kDel, Key: anyKey.Draw(t, "key")})
			}
		case "clear":
			c.Ops = append(c.Ops, Op{K: kClear})
		}
	}
	return c
}

const seqRule = "rapid: capacity 0..12, 1-8 keys out of 15 (ints and the same numbers/digits as int64, uint32, string, and the nil interface), up to 50 calls (120 thorough) of Set, SetAndGetRemoved, SetIfAbsent, Get, Peek, Exist, Delete, Clear, SetCapacity(0..12); item sizes 0..15 from one of three per-case profiles (mixture small / around the capacity / any; small 0..2; unit). After every call the result and Keys, Items, Stats, Length, Size, Capacity, Evictions must equal an independently written ideal LRU (most-recent-first slice), and Size <= Capacity from the cache's own numbers. In a quarter of the cases about half of the stored values have a dynamic type that is not comparable (a slice with a Size method; []byte for tiny) and some storing calls store the identical value once more. About 7 cases in 1000 (3 in 100 thorough) are big histories: capacity 50..300, 50-120 (one in four: up to 320) int keys stored in turn, then SetCapacity shrinks to 0/few/half, items larger than the capacity, further bursts, Gets, Deletes, Clear (up to ~900 calls; single calls evict dozens to hundreds of entries). Non-trivial: at least one eviction happened; distinct = distinct case JSON"

var PartCache = &vkit.Part[SeqCase]{
	Property: Property, Name: "seq-cache",
	Rule:  "cache.LRUCache. " + seqRule,
	Quick: 10000, Thorough: 20000,
	Gen: genSeq(implCache), Exec: ExecSeq,
}

var PartTiny = &vkit.Part[SeqCase]{
	Property: Property, Name: "seq-tiny",
	Rule:  "cache/tiny.LRUCache (every entry counts 1). " + seqRule,
	Quick: 8000, Thorough: 20000,
	Gen: genSeq(implTiny), Exec: ExecSeq,
}

// ---------------------------------------------------------------------------
// wide variants: one ideal LRU per shard

// WideCase is one sequential history on a sharded cache.
type WideCase struct {
	Impl   string `json:"impl"`
	XHash  bool   `json:"xhash,omitempty"`
	Shards int    `json:"shards"`
	Cap    int64  `json:"cap"`
	Ops    []Op   `json:"ops"`
}

// wideIdeal is the model of a wide cache: independent ideal LRUs, the shard of
// a key given by the public remap index.
type wideIdeal struct {
	shards []*ideal
	idx    func(Key) int
}

func newWideIdeal(unit bool, capa int64, shards int, idx func(Key) int) *wideIdeal {
	w := &wideIdeal{idx: idx}
	for i := 0; i < shards; i++ {
		w.shards = append(w.shards, &ideal{unit: unit, capa: perShardCap(capa, shards)})
	}
	return w
}

func wideProblem(impl string, shards int, capa int64) string {
	if impl != implWCach && impl != implWTiny {
		return "case:unknown-impl"
	}
	if shards < 0 || shards > 4096 { // 0: the default configuration (no option)
		return "case:shard-count-out-of-domain"
	}
	if capa < 0 {
		return "case:negative-capacity"
	}
	return ""
}

func distinctKeys(lists ...[]Op) []Key {
	var out []Key
	seen := map[Key]bool{}
	for _, ops := range lists {
		for _, o := range ops {
			if needsKey(o.K) && opProblem(o) == "" && !seen[o.Key] {
				seen[o.Key] = true
				out = append(out, o.Key)
			}
		}
	}
	return out
}

// stepWide performs one facade call on a wide cache and on the per-shard model,
// then sweeps every key of the case with Exist and Peek (neither may change
// recency) and compares membership and values.
func stepWide(res *vkit.Result, impl string, where func() string, t target, w *wideIdeal, pool []Key, op Op, id int) bool {
	got, _ := doReal(t, op, id)
	sh := w.idx(op.Key)
	if sh < 0 || sh >= len(w.shards) {
		res.Failf(impl+"/index", "%s %v: remap index %d outside 0..%d", where(), op, sh, len(w.shards)-1)
		return false
	}
	m := w.shards[sh]
	prev := m.clone() // described only if the call fails
	exp := m.apply(op, id, false)
	api := apiName[op.K]
	if !outEq(op.K, got, exp) {
		res.Failf(impl+"/"+api+"/result", "%s %v (shard %d): returned %s, ideal LRU of the shard: %s (shard before the call: %s)", where(), op, sh, got.show(op.K), exp.show(op.K), prev.describe())
		return false
	}
	noteInfo(res, op, m.info)
	for _, k := range pool {
		km := w.shards[w.idx(k)]
		i := km.find(k)
		x, _ := k.iface()
		if e := t.Exist(x); e != (i >= 0) {
			res.Failf(impl+"/"+api+"/sweep-Exist", "%s after %v: Exist(%v) = %v, ideal LRU of shard %d (capacity %d) says %v; shard before the call: %s; now: %s", where(), op, k, e, w.idx(k), km.capa, i >= 0, prev.describe(), km.describe())
			return false
		}
		v, ok := t.Peek(x)
		if ok != (i >= 0) || (ok && v != km.ents[i].V) {
			res.Failf(impl+"/"+api+"/sweep-Peek", "%s after %v: Peek(%v) = (#%d,%v), ideal LRU of shard %d: %s", where(), op, k, v, ok, w.idx(k), km.describe())
			return false
		}
	}
	return true
}

func ExecWide(c WideCase) *vkit.Result {
	res := &vkit.Result{}
	if p := wideProblem(c.Impl, c.Shards, c.Cap); p != "" {
		res.Skip(p)
		return res
	}
	t, idx, nsh := newWide(c.Impl, c.Cap, c.Shards, c.XHash)
	w := newWideIdeal(c.Impl == implWTiny, c.Cap, nsh, idx)
	ops := wideOps(res, normOps(c.Ops))
	pool := distinctKeys(ops)
	route := "modulo"
	if c.XHash {
		route = "xxhash"
	}
	res.Class(fmt.Sprintf("impl %s", c.Impl))
	res.Class(fmt.Sprintf("%s, %d shards", route, nsh))
	if c.Shards == 0 {
		res.Class("default configuration (no option)")
	}
	perShard := map[int]int{}
	for _, k := range pool {
		perShard[idx(k)]++
	}
	most := 0
	for _, n := range perShard {
		if n > most {
			most = n
		}
	}
	if most >= 2 {
		res.Class("several keys in one shard")
	}
	if len(perShard) >= 2 {
		res.Class("keys in different shards")
	}
	last := lastVals{}
	for i, op := range ops {
		if p := opProblem(op); p != "" {
			res.Skip("op:" + p)
			continue
		}
		if !facadeOp(op.K) {
			res.Skip("op:not-in-facade")
			continue
		}
		op, id := last.resolve(op, i+1)
		if storing(op.K) && op.Slice && !(op.Nil && c.Impl == implWTiny) {
			res.Class("value of a non-comparable type")
		}
		if op.Again {
			res.Class("identical value stored again")
		}
		if !stepWide(res, c.Impl, func() string { return fmt.Sprintf("op #%d", i) }, t, w, pool, op, id) {
			return res
		}
	}
	return res
}

// wideOps drops calls on the nil key: the wide variants route every key through the remap index, which knows the
// integer types and strings only.
func wideOps(res *vkit.Result, ops []Op) []Op {
	out := ops[:0:0]
	for _, o := range ops {
		if needsKey(o.K) && o.Key.T == "nil" {
			res.Skip("op:nil-key-on-wide")
			continue
		}
		out = append(out, o)
	}
	return out
}

// wideUniverse is the key domain of the wide parts; keys are grouped by the
// shard the public remap index gives them so that generators can put several
// keys into one shard on purpose.
var wideUniverse = func() []Key {
	var ks []Key
	for i := -3; i <= 60; i++ {
		ks = append(ks, Key{T: "int", I: int64(i)})
	}
	for i := 0; i <= 12; i++ {
		ks = append(ks, Key{T: "int64", I: int64(i)}, Key{T: "uint32", I: int64(i)})
	}
	for i := 0; i <= 40; i++ {
		ks = append(ks, Key{T: "string", S: fmt.Sprintf("k%d", i)})
	}
	return ks
}()

var groupCache = map[string][][]Key{}

// universeFor is the key domain for a shard count (0 = the default configuration): the fixed small one up to 7
// shards, and one that grows with the number of shards beyond (so that single shards still get several keys).
func universeFor(shards int) []Key {
	if shards > 0 && shards <= 7 {
		return wideUniverse
	}
	if shards == 0 {
		shards = int(remap.DefaultPrime)
	}
	groupMu.Lock()
	defer groupMu.Unlock()
	if ks, ok := universeCache[shards]; ok {
		return ks
	}
	var ks []Key
	for i := -3; i <= 6*shards; i++ {
		ks = append(ks, Key{T: "int", I: int64(i)})
	}
	for i := 0; i <= 2*shards; i++ {
		ks = append(ks, Key{T: "int64", I: int64(i)}, Key{T: "uint32", I: int64(i)})
	}
	for i := 0; i <= 5*shards; i++ {
		ks = append(ks, Key{T: "string", S: fmt.Sprintf("k%d", i)})
	}
	universeCache[shards] = ks
	return ks
}

var universeCache = map[int][]Key{}

func shardGroups(xhash bool, shards int) [][]Key {
	id := fmt.Sprintf("%v/%d", xhash, shards)
	uni := universeFor(shards)
	groupMu.Lock()
	defer groupMu.Unlock()
	if g, ok := groupCache[id]; ok {
		return g
	}
	var opts []remap.Option
	if shards > 0 {
		opts = append(opts, remap.WithPrime(uint64(shards)))
	}
	rm := remap.NewReMap(opts...)
	n := int(rm.Numbs())
	g := make([][]Key, n)
	for _, k := range uni {
		x, _ := k.iface()
		var i int
		if xhash {
			i = rm.XHashIndex(x)
		} else {
			i = rm.SimpleIndex(x)
		}
		if i >= 0 && i < n {
			g[i] = append(g[i], k)
		}
	}
	groupCache[id] = g
	return g
}

var groupMu sync.Mutex

// genWidePool draws 1-2 "hot" shards with lo..hi keys each plus a few keys
// anywhere.
func genWidePool(t *rapid.T, xhash bool, shards, lo, hi, extra int) []Key {
	groups := shardGroups(xhash, shards)
	var nonEmpty []int
	for i, g := range groups {
		if len(g) >= hi {
			nonEmpty = append(nonEmpty, i)
		}
	}
	var pool []Key
	seen := map[Key]bool{}
	add := func(k Key) {
		if !seen[k] {
			seen[k] = true
			pool = append(pool, k)
		}
	}
	nHot := 1
	if len(nonEmpty) >= 2 {
		nHot = rapid.IntRange(1, 2).Draw(t, "hotshards")
	}
	for h := 0; h < nHot && len(nonEmpty) > 0; h++ {
		g := groups[rapid.SampledFrom(nonEmpty).Draw(t, "hotshard")]
		n := rapid.IntRange(lo, hi).Draw(t, "hotkeys")
		for _, k := range rapid.Permutation(g).Draw(t, "hotperm")[:n] {
			add(k)
		}
	}
	for i, n := 0, rapid.IntRange(0, extra).Draw(t, "extrakeys"); i < n; i++ {
		add(rapid.SampledFrom(universeFor(shards)).Draw(t, "extrakey"))
	}
	return pool
}

// genWideCap draws a total capacity whose per-shard share (capacity/shards+1)
// is small enough for the pool to overflow a shard.
func genWideCap(t *rapid.T, shards int, unit bool) int64 {
	switch rapid.IntRange(0, 9).Draw(t, "capkind") {
	case 0, 1:
		return int64(rapid.IntRange(0, 12).Draw(t, "cap"))
	case 2:
		return int64(rapid.IntRange(0, 40).Draw(t, "cap"))
	default:
		hi := 8
		if unit {
			hi = 4
		}
		share := rapid.IntRange(1, hi).Draw(t, "share")
		return int64((share-1)*shards + rapid.IntRange(0, shards-1).Draw(t, "caprem"))
	}
}

// genShards draws a shard count: mostly 1, 2, 3 or 7 (several keys per shard come cheap), one case in four one of
// 73, 211, 257 or 0 = the default configuration (no option: remap.DefaultPrime = 73 shards).
func genShards(t *rapid.T) int {
	return rapid.SampledFrom([]int{1, 2, 3, 7, 1, 2, 3, 7, 1, 2, 3, 7, 73, 211, 257, 0}).Draw(t, "shards")
}

// shardCount is the number of shards a wide cache built with the Shards field of a case has.
func shardCount(shards int) int {
	if shards == 0 {
		return int(remap.DefaultPrime)
	}
	return shards
}

var wideKinds = weighted(kSet, 40, kGet, 20, kPeek, 8, kExist, 6, kDel, 12)

func GenWide(t *rapid.T) WideCase {
	c := WideCase{
		Impl:   rapid.SampledFrom([]string{implWCach, implWCach, implWTiny}).Draw(t, "impl"),
		XHash:  rapid.Bool().Draw(t, "xhash"),
		Shards: genShards(t),
	}
	c.Cap = genWideCap(t, shardCount(c.Shards), c.Impl == implWTiny)
	pool := genWidePool(t, c.XHash, c.Shards, 2, 5, 3)
	share := perShardCap(c.Cap, shardCount(c.Shards))
	c.Ops = history(t, opGen(wideKinds, pool, genProfile(t), share, 12), maxOps()+10, "ops")
	if c.Impl == implWTiny {
		sprinkleNil(t, c.Ops)
	}
	sprinkleVals(t, c.Ops)
	return c
}

// sprinkleNil lets some storing calls of a tiny cache store nil (values are interface{} there, nil included): in
// half of the cases none, otherwise one storing call in four.
func sprinkleNil(t *rapid.T, ops []Op) {
	if !rapid.Bool().Draw(t, "nilvalues") {
		return
	}
	for i := range ops {
		switch ops[i].K {
		case kSet, kSia, kSagr:
			ops[i].Nil = rapid.IntRange(0, 3).Draw(t, "nil") == 0
		}
	}
}

// sprinkleVals gives, in one case out of four, about half of the storing calls a value of a non-comparable dynamic
// type, and lets one storing call in four store the value the key was given last once more.
func sprinkleVals(t *rapid.T, ops []Op) {
	if rapid.IntRange(0, 3).Draw(t, "valuekinds") != 3 { // shrinks towards "none"
		return
	}
	for i := range ops {
		if storing(ops[i].K) {
			x := rapid.IntRange(0, 7).Draw(t, "valuekind")
			ops[i].Slice = x >= 4
			ops[i].Again = x == 3 || x == 7
		}
	}
}

var PartWide = &vkit.Part[WideCase]{
	Property: Property, Name: "wide",
	Rule:  "rapid: cache.NeWideLRUCache / NewWideXHashLRUCache / tiny.NeWideLRU / NewWideXHashLRU with remap.WithPrime(1|2|3|7, one case in four 73|211|257 or no option at all = the default 73 shards), total capacity chosen so that the per-shard share capacity/shards+1 is 1..8 (or any 0..40); keys (int, int64, uint32, string) picked by their public remap index (SimpleIndex / XHashIndex) so that 1-2 shards get 2-5 keys each; up to 60 calls of the facade (Set, Get, Peek, Exist, Delete). Model: one ideal LRU per shard with capacity capacity/shards+1; after every call the result and an Exist+Peek sweep over every key of the case must agree. Non-trivial: at least one eviction happened in some shard; distinct = distinct case JSON",
	Quick: 8000, Thorough: 20000,
	Gen: GenWide, Exec: ExecWide,
}
