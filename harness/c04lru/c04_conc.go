package c04lru

// Concurrent parts of C04 (run from the -race binary only):
//
//   race-lin     small generated concurrent programs; the recorded call/return
//                history must be linearizable with respect to the ideal LRU
//                (porcupine is the history oracle, nothing else)
//   race-stress  heavier free-running programs with per-call sanity checks,
//                end-state invariants, exact conservation of values in the
//                "conserve" mode, and a sequential model-equivalence suffix on
//                the state the stress left behind

import (
	"fmt"
	"runtime"
	"sort"
	"strings"
	"sync"
	"sync/atomic"

	"github.com/anishathalye/porcupine"
	"pgregory.net/rapid"

	"verifharness/vkit"
)

// ---------------------------------------------------------------------------
// linearizability of small concurrent programs

// LinCase is a concurrent program: a sequential prefix that fills the cache,
// then one goroutine per program.
type LinCase struct {
	Impl     string `json:"impl"`
	XHash    bool   `json:"xhash,omitempty"`
	Shards   int    `json:"shards,omitempty"`
	Cap      int64  `json:"cap"`
	MaxProcs int    `json:"maxprocs"`
	Prefix   []Op   `json:"prefix"`
	Progs    [][]Op `json:"progs"`
	// part race-focus: the whole program (new cache, prefix, goroutines, observation at rest, porcupine) is run
	// Rounds times (0 = once); the first round that is not linearizable is the verdict
	Rounds int `json:"rounds,omitempty"`
	// the first Lockstep calls of the goroutines run in lock step: call number j of every goroutine starts only when
	// all goroutines that have a call number j arrived there (spin barrier on one atomic counter per step; it orders
	// nothing between the calls themselves)
	Lockstep int `json:"lockstep,omitempty"`
}

type linIn struct {
	Op Op
	ID int
}

func isWide(impl string) bool { return impl == implWCach || impl == implWTiny }
func isUnit(impl string) bool { return impl == implTiny || impl == implWTiny }

// linModel is the sequential specification handed to porcupine: the ideal LRU,
// nondeterministic only in the two corners the statement leaves open.
func linModel(unit bool, capa int64, part func([]porcupine.Operation) [][]porcupine.Operation) porcupine.Model {
	nm := porcupine.NondeterministicModel{
		Partition: part,
		Init:      func() []interface{} { return []interface{}{&ideal{unit: unit, capa: capa}} },
		Step: func(state, input, output interface{}) []interface{} {
			in, out := input.(linIn), output.(Out)
			var next []interface{}
			for _, alt := range []bool{false, true} {
				s := state.(*ideal).clone()
				if outEq(in.Op.K, s.apply(in.Op, in.ID, alt), out) {
					next = append(next, s)
				}
				if !openCorner(in.Op.K) {
					break
				}
			}
			return next
		},
		Equal: func(a, b interface{}) bool { return a.(*ideal).equal(b.(*ideal)) },
	}
	return nm.ToModel()
}

func describeHistory(h []porcupine.Operation) string {
	s := append([]porcupine.Operation(nil), h...)
	sort.Slice(s, func(i, j int) bool { return s[i].Call < s[j].Call })
	var b strings.Builder
	for _, o := range s {
		in := o.Input.(linIn)
		fmt.Fprintf(&b, "\n  [%3d,%3d] client %d: %v", o.Call, o.Return, o.ClientId, in.Op)
		if in.ID != 0 && (in.Op.K == kSet || in.Op.K == kSia || in.Op.K == kSagr) {
			fmt.Fprintf(&b, " value#%d", in.ID)
		}
		fmt.Fprintf(&b, " -> %s", o.Output.(Out).show(in.Op.K))
	}
	return b.String()
}

func clampProcs(n int) int {
	if n < 1 {
		return 1
	}
	if n > 16 {
		return 16
	}
	return n
}

func ExecLin(c LinCase) *vkit.Result {
	res := &vkit.Result{}
	rounds := c.Rounds
	if rounds < 1 {
		rounds = 1
	}
	if rounds > 2000 {
		rounds = 2000
	}
	old := runtime.GOMAXPROCS(clampProcs(c.MaxProcs))
	defer runtime.GOMAXPROCS(old)
	for r := 0; r < rounds && res.Fail == nil; r++ {
		res.Skipped = res.Skipped[:0] // the same in every round
		execLinRound(c, res, r)
	}
	if rounds > 1 {
		res.Class("several rounds of one program")
	}
	return res
}

func execLinRound(c LinCase, res *vkit.Result, round int) *vkit.Result {
	var t target
	var idx func(Key) int
	capa := c.Cap
	if isWide(c.Impl) {
		if p := wideProblem(c.Impl, c.Shards, c.Cap); p != "" {
			res.Skip(p)
			return res
		}
		var nsh int
		t, idx, nsh = newWide(c.Impl, c.Cap, c.Shards, c.XHash)
		capa = perShardCap(c.Cap, nsh)
	} else {
		if c.Cap < 0 {
			res.Skip("case:negative-capacity")
			return res
		}
		ft, _ := newFull(c.Impl, c.Cap, false)
		if ft == nil {
			res.Skip("case:unknown-impl")
			return res
		}
		t = ft
	}
	usable := func(o Op) bool {
		if p := opProblem(o); p != "" {
			res.Skip("op:" + p)
			return false
		}
		if isWide(c.Impl) && !facadeOp(o.K) {
			res.Skip("op:not-in-facade")
			return false
		}
		if isWide(c.Impl) && o.Key.T == "nil" {
			res.Skip("op:nil-key-on-wide")
			return false
		}
		return true
	}
	var prefix []Op
	for _, o := range normOps(c.Prefix) {
		if usable(o) {
			prefix = append(prefix, o)
		}
	}
	var progs [][]Op
	for _, p := range c.Progs {
		var q []Op
		for _, o := range normOps(p) {
			if usable(o) {
				q = append(q, o)
			}
		}
		if len(q) > 0 {
			progs = append(progs, q)
		}
	}
	if len(progs) > 64 {
		progs = progs[:64]
	}
	var clock atomic.Int64
	call := func(client int, op Op, id int) porcupine.Operation {
		in := linIn{op, id}
		a := clock.Add(1)
		out, _ := doReal(t, op, id)
		b := clock.Add(1)
		return porcupine.Operation{ClientId: client, Input: in, Call: a, Output: out, Return: b}
	}
	var hist []porcupine.Operation
	for i, op := range prefix {
		hist = append(hist, call(0, op, i+1))
	}
	per := make([][]porcupine.Operation, len(progs))
	panics := make([]any, len(progs))
	var ready, start atomic.Int32
	var wg sync.WaitGroup
	// lock step: need[j] goroutines have a call number j
	var need []int32
	var arrived []atomic.Int32
	if c.Lockstep > 0 {
		for _, p := range progs {
			for j := range p {
				if j >= c.Lockstep {
					break
				}
				if j >= len(need) {
					need = append(need, 0)
				}
				need[j]++
			}
		}
		arrived = make([]atomic.Int32, len(need))
		res.Class("goroutines in lock step")
	}
	for g := range progs {
		wg.Add(1)
		go func(g int) {
			defer wg.Done()
			j := 0
			defer func() {
				if r := recover(); r != nil {
					panics[g] = r
					for j++; j < len(need) && j < len(progs[g]); j++ { // nobody may wait for this goroutine
						arrived[j].Add(1)
					}
				}
			}()
			ready.Add(1)
			for start.Load() == 0 {
				runtime.Gosched()
			}
			var op Op
			for j, op = range progs[g] {
				if op.Y {
					runtime.Gosched()
				}
				if j < len(need) {
					arrived[j].Add(1)
					for spin := 0; arrived[j].Load() < need[j]; spin++ {
						if spin&255 == 255 {
							runtime.Gosched()
						}
					}
				}
				per[g] = append(per[g], call(g+1, op, 1000*(g+1)+j+1))
			}
		}(g)
	}
	for int(ready.Load()) < len(progs) {
		runtime.Gosched()
	}
	start.Store(1)
	wg.Wait()
	for g, p := range panics {
		if p != nil {
			return res.Failf(c.Impl+"/concurrent-panic", "goroutine %d panicked: %v", g, p)
		}
	}
	for _, p := range per {
		hist = append(hist, p...)
	}
	for _, o := range hist {
		if out := o.Output.(Out); out.Bad != "" {
			return res.Failf(c.Impl+"/StatsJSON/parse", "called concurrently, %s, which is not a JSON object of the four numbers Length, Size, Capacity, Evictions", out.Bad)
		}
	}
	nConc := len(hist)
	// what is left, observed at rest
	keys := distinctKeys(append([][]Op{prefix}, progs...)...)
	if isWide(c.Impl) {
		for _, k := range keys {
			hist = append(hist, call(0, Op{K: kPeek, Key: k}, 0))
		}
	} else {
		for _, k := range []string{kKeys, kItems, kStats} {
			hist = append(hist, call(0, Op{K: k}, 0))
		}
	}

	// classes and the non-trivial rule
	res.Class("impl " + c.Impl)
	res.Class(fmt.Sprintf("%d goroutines", len(progs)))
	overlap := false
	for i := len(prefix); i < nConc && !overlap; i++ {
		for j := i + 1; j < nConc; j++ {
			a, b := hist[i], hist[j]
			if a.ClientId != b.ClientId && a.Call < b.Return && b.Call < a.Return {
				overlap = true
				break
			}
		}
	}
	if overlap {
		res.Class("calls overlapped in time")
		if c.Lockstep > 0 {
			res.NonTrivial = true // lock-step programs evict nothing: their point is calls that overlap
		}
	}
	if isWide(c.Impl) {
		deleted, stored := map[Key]bool{}, map[Key]bool{}
		for _, o := range hist {
			in := o.Input.(linIn)
			switch in.Op.K {
			case kDel:
				deleted[in.Op.Key] = true
			case kSet:
				stored[in.Op.Key] = true
			}
		}
		for _, o := range hist[nConc:] {
			k := o.Input.(linIn).Op.Key
			if stored[k] && !deleted[k] && !o.Output.(Out).OK {
				res.NonTrivial = true // stored, never deleted, gone: it was evicted
				res.Class("eviction")
			}
		}
	} else {
		for _, o := range hist {
			in, out := o.Input.(linIn), o.Output.(Out)
			if ((in.Op.K == kStats || in.Op.K == kSJSON) && out.N[3] > 0) || (in.Op.K == kEvs && out.N[0] > 0) || len(out.Removed) > 0 {
				res.NonTrivial = true
				res.Class("eviction")
			}
			if len(out.Removed) > 0 {
				res.Class("SetAndGetRemoved non-empty")
			}
		}
	}

	var part func([]porcupine.Operation) [][]porcupine.Operation
	if isWide(c.Impl) {
		part = func(h []porcupine.Operation) [][]porcupine.Operation {
			by := map[int][]porcupine.Operation{}
			var order []int
			for _, o := range h {
				s := idx(o.Input.(linIn).Op.Key)
				if _, ok := by[s]; !ok {
					order = append(order, s)
				}
				by[s] = append(by[s], o)
			}
			out := make([][]porcupine.Operation, 0, len(order))
			for _, s := range order {
				out = append(out, by[s])
			}
			return out
		}
	}
	if !porcupine.CheckOperations(linModel(isUnit(c.Impl), capa, part), hist) {
		what := "ideal LRU"
		if isWide(c.Impl) {
			what = fmt.Sprintf("one ideal LRU of capacity %d per shard (%d shards)", capa, shardCount(c.Shards))
		}
		in := ""
		if c.Rounds > 1 {
			in = fmt.Sprintf("round %d of %d of this program (a new cache every round): ", round+1, c.Rounds)
		}
		return res.Failf(c.Impl+"/linearizability", "%sno sequential order of these calls that respects real time is a run of the %s with capacity %d; history [call,return]:%s", in, what, c.Cap, describeHistory(hist))
	}
	return res
}

var linFullKinds = weighted(kSet, 16, kSagr, 12, kSia, 7, kGet, 14, kPeek, 6, kExist, 4, kDel, 8, kSetCap, 3, kClear, 2,
	kKeys, 6, kItems, 3, kStats, 5, kSJSON, 5, kEvs, 3, kLen, 2, kSize, 2, kCap, 1)

// three focused mixtures for the single caches: capacity changes next to dense whole-state snapshots (a shrink and its
// evictions are one step: no snapshot may show size > capacity), and Clear next to stores and listings (Clear is one
// step: what a listing saw before it is gone after it, what was stored after it stays)
var linResizeKinds = weighted(kSetCap, 14, kSet, 14, kSagr, 6, kSia, 2, kStats, 12, kSJSON, 12, kSize, 3, kLen, 2, kCap, 2, kGet, 4, kDel, 3, kItems, 3)
var linClearKinds = weighted(kClear, 8, kSet, 12, kSagr, 5, kSia, 3, kKeys, 12, kItems, 8, kStats, 8, kSJSON, 3, kLen, 6, kGet, 5, kExist, 5, kPeek, 3, kDel, 1)
var linRecencyKinds = weighted(kGet, 24, kSet, 16, kSagr, 16, kSia, 4, kKeys, 8, kItems, 4, kPeek, 3, kExist, 2, kDel, 2)
var fillKinds = weighted(kSet, 3, kSagr, 1)

func genImpl(t *rapid.T) string {
	return rapid.SampledFrom([]string{implCache, implCache, implCache, implTiny, implTiny, implWCach, implWCach, implWTiny}).Draw(t, "impl")
}

func GenLin(t *rapid.T) LinCase {
	c := LinCase{Impl: genImpl(t), MaxProcs: rapid.SampledFrom([]int{1, 2, 4, 4, 8}).Draw(t, "maxprocs")}
	var pool []Key
	kinds := linFullKinds
	sizeRef := int64(0)
	fillAll, oneSize, busy := false, false, false
	if isWide(c.Impl) {
		c.XHash = rapid.Bool().Draw(t, "xhash")
		c.Shards = genShards(t)
		share := rapid.IntRange(1, 3).Draw(t, "share")
		c.Cap = int64((share-1)*shardCount(c.Shards) + rapid.IntRange(0, shardCount(c.Shards)-1).Draw(t, "caprem"))
		pool = genWidePool(t, c.XHash, c.Shards, 2, 3, 1)
		kinds = wideKinds
		sizeRef = int64(share)
	} else {
		if c.Impl == implTiny {
			c.Cap = int64(rapid.IntRange(0, 3).Draw(t, "cap"))
		} else {
			c.Cap = int64(rapid.IntRange(0, 6).Draw(t, "cap"))
		}
		pool = genPool(t, universe, 2, 4)
		sizeRef = c.Cap
		// rapid's integer draws favour the ends of a range: 0..6 is a little more than half of the draws, 7..11 about
		// 18 %, 12..15 about 14 %, 16..19 about 15 %
		switch mix := rapid.IntRange(0, 19).Draw(t, "mixture"); {
		case mix < 7:
		case mix >= 16:
			kinds = linResizeKinds
		case mix < 12:
			// a full cache of 4-6 one-size entries: a Clear that is not one step has that many points at which a
			// listing or a count can see half of it
			kinds, fillAll, oneSize = linClearKinds, true, true
			pool = genPool(t, universe, 4, 6)
			c.Cap = int64(rapid.IntRange(len(pool)-1, 8).Draw(t, "cap"))
		default:
			// a full cache of 2-3 one-size entries, 3-5 keys, Gets next to evicting stores: which entry a store
			// evicts depends on every refresh having happened exactly when its Get did
			kinds, fillAll, oneSize, busy = linRecencyKinds, true, true, true
			pool = genPool(t, universe, 3, 5)
			c.Cap = int64(rapid.IntRange(2, 3).Draw(t, "cap"))
		}
	}
	// sizes 0..4 and capacities 0..6 keep several entries in play
	small := func(g *rapid.Generator[Op], yields bool) *rapid.Generator[Op] {
		return rapid.Custom(func(t *rapid.T) Op {
			op := g.Draw(t, "call")
			if op.Size > 4 {
				op.Size = op.Size % 5
			}
			if yields {
				op.Y = rapid.IntRange(0, 3).Draw(t, "yield") == 0
			}
			return op
		})
	}
	profile := genProfile(t)
	if oneSize {
		profile = 3
	}
	fill := fillKinds
	if isWide(c.Impl) {
		fill = []string{kSet}
	}
	if fillAll {
		for _, k := range pool {
			c.Prefix = append(c.Prefix, Op{K: kSet, Key: k, Size: 1})
		}
	} else {
		c.Prefix = rapid.SliceOfN(small(opGen(fill, pool, profile, sizeRef, 6), false), 0, 6).Draw(t, "prefix")
	}
	prog := rapid.SliceOfN(small(opGen(kinds, pool, profile, sizeRef, 6), true), 3, 6)
	if busy {
		c.Progs = rapid.SliceOfN(rapid.SliceOfN(small(opGen(kinds, pool, profile, sizeRef, 6), true), 4, 7), 3, 4).Draw(t, "progs")
	} else {
		c.Progs = rapid.SliceOfN(prog, 2, 4).Draw(t, "progs")
	}
	if c.Impl == implTiny || c.Impl == implWTiny {
		sprinkleNil(t, c.Prefix)
		for i := range c.Progs {
			sprinkleNil(t, c.Progs[i])
		}
	}
	return c
}

var PartLin = &vkit.Part[LinCase]{
	Property: Property, Name: "race-lin",
	Rule:  "rapid: implementation (both single caches, both wide packages with modulo/xxhash routing and 1|2|3|7 shards, one in four 73|211|257 or the default configuration without an option), small capacity, 2-4 keys (wide: 2-3 keys of one shard), a sequential prefix of 0-6 storing calls, then 2-4 goroutines x 3-6 calls (every public method incl. Keys/Items/Stats/StatsJSON observers; facade methods for wide; for the single caches about 15 % of the cases draw from a SetCapacity+Stats/StatsJSON-heavy mixture, 18 % from a Clear+Set+Keys/Items/Length-heavy one on a full cache of 4-6 one-size entries, 14 % from a Get+evicting-store mixture on a full cache of 2-3 entries with 3-5 keys (3-4 goroutines x 4-7 calls)) released together, GOMAXPROCS 1|2|4|8, optional yields; call/return stamps from one atomic counter; a final Keys+Items+Stats (wide: Peek of every key) at rest closes the history. Oracle: porcupine v1.3.0 decides linearizability of the history w.r.t. the ideal LRU (per shard for wide; SetIfAbsent-on-present refresh and Clear's effect on the eviction counter are nondeterministic in the model). Runs in the -race binary. Non-trivial: an eviction is visible in the history (evictions > 0, a non-empty removed list, or for wide a stored, never deleted key that is gone); distinct = distinct case JSON",
	Quick: 3000, Thorough: 4000,
	Gen: GenLin, Exec: ExecLin,
}

// ---------------------------------------------------------------------------
// stress with end-state invariants

// StressCase: every goroutine runs its program Reps times. Mode "free": calls
// on a shared key pool, end-state invariants. Mode "conserve" (single caches):
// every storing call is a SetAndGetRemoved on a key nobody else ever stores, so
// each stored value must end up exactly once either in the final Items or in
// one removed list, and Evictions must equal the number of removed values.
type StressCase struct {
	Impl     string `json:"impl"`
	XHash    bool   `json:"xhash,omitempty"`
	Shards   int    `json:"shards,omitempty"`
	Cap      int64  `json:"cap"`
	MaxProcs int    `json:"maxprocs"`
	Mode     string `json:"mode"`
	Reps     int    `json:"reps"`
	Progs    [][]Op `json:"progs"`
	Suffix   []Op   `json:"suffix"`
}

const (
	modeFree     = "free"
	modeConserve = "conserve"
	slotsPerG    = 64
	maxReps      = 100000
)

// freshKey is the key (and value identity) of storing slot j of goroutine g in
// repetition r of the conserve mode.
func freshKey(g, j, r int) int64 { return int64((g*slotsPerG+j)*maxReps + r + 1) }

type gFail struct{ site, msg string }

func ExecStress(c StressCase) *vkit.Result {
	res := &vkit.Result{}
	wide := isWide(c.Impl)
	unit := isUnit(c.Impl)
	var t target
	var ft fullTarget
	var idx func(Key) int
	nShards := 0
	if wide {
		if p := wideProblem(c.Impl, c.Shards, c.Cap); p != "" {
			res.Skip(p)
			return res
		}
		t, idx, nShards = newWide(c.Impl, c.Cap, c.Shards, c.XHash)
	} else {
		if c.Cap < 0 {
			res.Skip("case:negative-capacity")
			return res
		}
		if ft, _ = newFull(c.Impl, c.Cap, false); ft == nil {
			res.Skip("case:unknown-impl")
			return res
		}
		t = ft
	}
	mode := c.Mode
	if mode != modeConserve || wide {
		mode = modeFree
	}
	reps := c.Reps
	if reps < 1 {
		reps = 1
	}
	if reps > 5000 {
		reps = 5000
	}
	var progs [][]Op
	for _, p := range c.Progs {
		var q []Op
		for _, o := range normOps(p) {
			switch {
			case opProblem(o) != "":
				res.Skip("op:" + opProblem(o))
			case wide && !facadeOp(o.K):
				res.Skip("op:not-in-facade")
			case wide && o.Key.T == "nil":
				res.Skip("op:nil-key-on-wide")
			case mode == modeConserve && (o.K == kSet || o.K == kSia || o.K == kDel || o.K == kClear || o.K == kSetCap):
				res.Skip("op:not-in-conserve-mode")
			default:
				q = append(q, o)
			}
		}
		if len(q) > slotsPerG {
			q = q[:slotsPerG]
		}
		progs = append(progs, q)
	}
	if len(progs) > 32 {
		progs = progs[:32]
	}
	res.Class("impl " + c.Impl)
	res.Class("mode " + mode)

	// identities: in free mode storing slot (g,j) always stores value g*64+j+1
	// under its generated key; in conserve mode value = key = freshKey(g,j,r).
	idKey := map[int]Key{}
	idSize := map[int]int64{}
	caps := map[int64]bool{c.Cap: true}
	maxCap := c.Cap
	hasClear := false
	var pool []Key
	suffix := normOps(c.Suffix)
	if wide {
		suffix = wideOps(res, suffix)
	}
	// every entry the cache can hold during the stress has one of the sizes the programs store
	minSz, maxSz := int64(-1), int64(0)
	for _, p := range progs {
		for _, o := range p {
			if storing(o.K) {
				sz := int64(o.Size)
				if unit {
					sz = 1
				}
				if minSz < 0 || sz < minSz {
					minSz = sz
				}
				if sz > maxSz {
					maxSz = sz
				}
			}
		}
	}
	if minSz < 0 {
		minSz = 0
	}
	if minSz == maxSz && maxSz > 0 {
		res.Class("all items of one size: Size = size x Length in every snapshot")
	}
	if mode == modeFree {
		pool = distinctKeys(append(append([][]Op{}, progs...), suffix)...)
		for g, p := range progs {
			for j, o := range p {
				switch o.K {
				case kSet, kSia, kSagr:
					id := g*slotsPerG + j + 1
					idKey[id] = o.Key
					idSize[id] = int64(o.Size)
					if unit {
						idSize[id] = 1
					}
				case kSetCap:
					caps[o.Cap] = true
					if o.Cap > maxCap {
						maxCap = o.Cap
					}
				case kClear:
					hasClear = true
				}
			}
		}
	}
	// keys that can never leave the cache during the stress: no program deletes them, no program clears or
	// resizes, and everything the programs can ever store in the key's shard (the whole cache for the single ones)
	// fits the capacity at once - an ideal LRU never evicts then, so once a storing call on such a key has returned,
	// the key is present with a value stored under it
	safe := map[Key]bool{}
	writer := map[Key]int{} // safe keys: the only goroutine that stores the key, -1 if several do
	if mode == modeFree {
		shardOf := func(k Key) int {
			if wide {
				return idx(k)
			}
			return 0
		}
		biggest := map[Key]int64{}
		deleted := map[Key]bool{}
		for id, k := range idKey {
			if idSize[id] > biggest[k] {
				biggest[k] = idSize[id]
			}
		}
		for _, p := range progs {
			for _, o := range p {
				if o.K == kDel {
					deleted[o.Key] = true
				}
			}
		}
		load := map[int]int64{}
		for k, sz := range biggest {
			load[shardOf(k)] += sz
		}
		room := c.Cap
		if wide {
			room = perShardCap(c.Cap, nShards)
		}
		if !hasClear && len(caps) == 1 {
			for k := range biggest {
				if !deleted[k] && load[shardOf(k)] <= room {
					safe[k] = true
				}
			}
		}
		if len(safe) > 0 {
			res.Class("keys that can never be evicted or deleted: must stay present once stored")
		}
		defer func() {
			for _, g := range writer {
				if g >= 0 {
					res.Class("never evicted keys stored by one goroutine only: its reads return its last store")
					break
				}
			}
		}()
		// a safe key that only one goroutine stores holds, for that goroutine, the value of its last storing call
		for g, p := range progs {
			for _, o := range p {
				if storing(o.K) && safe[o.Key] {
					if w, ok := writer[o.Key]; ok && w != g {
						writer[o.Key] = -1
					} else if !ok {
						writer[o.Key] = g
					}
				}
			}
		}
	}
	slotSize := func(id int) int64 { // conserve mode: size of the value with this identity
		if unit {
			return 1
		}
		s := (id - 1) / maxReps
		g, j := s/slotsPerG, s%slotsPerG
		if g < len(progs) && j < len(progs[g]) {
			return int64(progs[g][j].Size)
		}
		return -1
	}
	// conserve mode: the reading calls address storing slots; collect them
	type slot struct{ g, j int }
	var slots []slot
	if mode == modeConserve {
		for g, p := range progs {
			for j, o := range p {
				if o.K == kSagr {
					slots = append(slots, slot{g, j})
				}
			}
		}
	}
	universeSize := int64(len(pool))

	old := runtime.GOMAXPROCS(clampProcs(c.MaxProcs))
	defer runtime.GOMAXPROCS(old)

	fails := make([]*gFail, len(progs))
	removed := make([][]int, len(progs)) // conserve mode: everything reported as removed, per goroutine
	var ready, start atomic.Int32
	var wg sync.WaitGroup
	for g := range progs {
		wg.Add(1)
		go func(g int) {
			defer wg.Done()
			fail := func(site, f string, a ...any) {
				if fails[g] == nil {
					fails[g] = &gFail{site, fmt.Sprintf("goroutine %d: ", g) + fmt.Sprintf(f, a...)}
				}
			}
			defer func() {
				if r := recover(); r != nil {
					fail("concurrent-panic", "panic: %v", r)
				}
			}()
			ready.Add(1)
			for start.Load() == 0 {
				runtime.Gosched()
			}
			// from here on this goroutine touches no memory shared with the others
			// except through the cache: the race detector sees only the cache's own
			// synchronisation
			lastEv := int64(0)
			mine := map[Key]bool{}  // safe keys a storing call of this goroutine has returned for
			myLast := map[Key]int{} // ... and the value that call stored
			for r := 0; r < reps && fails[g] == nil; r++ {
				for j, op := range progs[g] {
					if op.Y {
						runtime.Gosched()
					}
					id := g*slotsPerG + j + 1
					if mode == modeConserve {
						if op.K == kSagr {
							id = int(freshKey(g, j, r))
							op.Key = Key{T: "int", I: int64(id)}
						} else if needsKey(op.K) && len(slots) > 0 {
							s := slots[int(uint64(op.Key.I)%uint64(len(slots)))]
							op.Key = Key{T: "int", I: freshKey(s.g, s.j, r)}
						}
					}
					out, _ := doReal(t, op, id)
					api := apiName[op.K]
					if mine[op.Key] && !out.OK && (op.K == kGet || op.K == kPeek || op.K == kExist) {
						fail(api+"/lost", "%v is a miss, though a storing call of this goroutine on the key returned earlier, no program deletes the key, clears or resizes, and all items the programs ever store (in the key's shard) fit the capacity together: an ideal LRU never evicts here", op)
					}
					if mine[op.Key] && out.OK && (op.K == kGet || op.K == kPeek) && writer[op.Key] == g && out.Val != myLast[op.Key] {
						fail(api+"/stale", "%v returned value#%d, though this goroutine is the only one that stores the key, its last storing call on it that can have stored (a Set or SetAndGetRemoved, or the first SetIfAbsent) stored value#%d, and the key can never be evicted or deleted (all items the programs ever store (in the key's shard) fit the capacity together)", op, out.Val, myLast[op.Key])
					}
					if storing(op.K) && safe[op.Key] {
						if op.K != kSia || !mine[op.Key] { // SetIfAbsent on a key that is certainly present stores nothing
							myLast[op.Key] = id
						}
						mine[op.Key] = true
					}
					switch op.K {
					case kGet, kPeek:
						if out.OK {
							if mode == modeConserve {
								if int64(out.Val) != op.Key.I {
									fail(api+"/value", "%v returned value#%d, the only value ever stored under this key is #%d", op, out.Val, op.Key.I)
								}
							} else if k, known := idKey[out.Val]; !known || k != op.Key {
								fail(api+"/value", "%v returned value#%d, which was never stored under this key (stored under %v, known %v)", op, out.Val, k, known)
							}
						}
					case kSagr:
						seen := map[int]bool{}
						for _, v := range out.Removed {
							if seen[v] {
								fail(api+"/removed", "%v reported value#%d removed twice: %v", op, v, out.Removed)
							}
							seen[v] = true
							if mode == modeFree {
								if _, known := idKey[v]; !known {
									fail(api+"/removed", "%v reported value#%d removed, which nobody stored", op, v)
								}
							}
						}
						if mode == modeConserve {
							removed[g] = append(removed[g], out.Removed...)
						}
					case kStats, kSJSON:
						if out.Bad != "" {
							fail(api+"/parse", "%s, which is not a JSON object of the four numbers Length, Size, Capacity, Evictions", out.Bad)
							break
						}
						if out.N[1] > out.N[2] {
							fail(api+"/bound", "%s() = %s: size exceeds capacity", api, out.show(kStats))
						}
						if out.N[0] < 0 || out.N[1] < 0 || out.N[3] < 0 || (mode == modeFree && out.N[0] > universeSize) {
							fail(api+"/range", "%s() = %s with %d distinct keys in play", api, out.show(kStats), universeSize)
						}
						if mode == modeFree && !caps[out.N[2]] {
							fail(api+"/capacity", "%s() = %s: capacity was never set to that", api, out.show(kStats))
						}
						// one snapshot: Length entries, each of a size some call stores, sum to Size
						if out.N[1] < out.N[0]*minSz || out.N[1] > out.N[0]*maxSz {
							fail(api+"/snapshot", "%s() = %s: every item ever stored has a size in %d..%d, so %d entries cannot sum to size %d - length and size are not one snapshot of the cache", api, out.show(kStats), minSz, maxSz, out.N[0], out.N[1])
						}
						if !hasClear {
							if out.N[3] < lastEv {
								fail(api+"/evictions", "eviction counter went from %d back to %d (no Clear in the program)", lastEv, out.N[3])
							}
							lastEv = out.N[3]
						}
					case kEvs:
						if !hasClear {
							if out.N[0] < lastEv {
								fail(api+"/evictions", "eviction counter went from %d back to %d (no Clear in the program)", lastEv, out.N[0])
							}
							lastEv = out.N[0]
						}
					case kKeys:
						seen := map[Key]bool{}
						for _, k := range out.Keys {
							if seen[k] {
								fail(api+"/distinct", "Keys() lists %v twice: %v", k, out.Keys)
							}
							seen[k] = true
						}
					case kItems:
						seen := map[Key]bool{}
						var sum int64
						for _, it := range out.Items {
							if seen[it.K] {
								fail(api+"/distinct", "Items() lists %v twice: %v", it.K, out.Items)
							}
							seen[it.K] = true
							if mode == modeFree {
								if k, known := idKey[it.V]; !known || k != it.K {
									fail(api+"/value", "Items() pairs %v with value#%d, never stored under it", it.K, it.V)
								}
								sum += idSize[it.V]
							} else {
								if int64(it.V) != it.K.I {
									fail(api+"/value", "Items() pairs %v with value#%d", it.K, it.V)
								}
								sum += slotSize(it.V)
							}
						}
						if sum > maxCap {
							fail(api+"/bound", "Items() holds summed size %d, above every capacity ever set (max %d): %v", sum, maxCap, out.Items)
						}
					case kLen:
						if out.N[0] < 0 || (mode == modeFree && out.N[0] > universeSize) {
							fail(api+"/range", "Length() = %d with %d distinct keys in play", out.N[0], universeSize)
						}
					case kSize:
						if out.N[0] < 0 || out.N[0] > maxCap {
							fail(api+"/bound", "Size() = %d outside 0..max capacity ever set %d", out.N[0], maxCap)
						}
					case kCap:
						if mode == modeFree && !caps[out.N[0]] {
							fail(api+"/capacity", "Capacity() = %d was never set", out.N[0])
						}
					}
				}
			}
		}(g)
	}
	for int(ready.Load()) < len(progs) {
		runtime.Gosched()
	}
	start.Store(1)
	wg.Wait()
	for _, f := range fails {
		if f != nil {
			return res.Failf(c.Impl+"/stress/"+f.site, "%s", f.msg)
		}
	}

	site := func(s string) string { return c.Impl + "/stress-end/" + s }
	if wide {
		// at rest: membership consistent, values belong to keys, every shard within its share
		share := perShardCap(c.Cap, nShards)
		load := map[int]int64{}
		for _, k := range pool {
			x, _ := k.iface()
			e := t.Exist(x)
			v, ok := t.Peek(x)
			if safe[k] && !e {
				return res.Failf(site("lost"), "at rest Exist(%v) = false, though the programs store the key, nobody deletes it, and all items ever stored in its shard %d fit the shard's capacity %d together: an ideal LRU never evicts here", k, idx(k), share)
			}
			if e != ok {
				return res.Failf(site("Exist-vs-Peek"), "at rest Exist(%v) = %v but Peek hit = %v", k, e, ok)
			}
			if ok {
				if kk, known := idKey[v]; !known || kk != k {
					return res.Failf(site("value"), "at rest Peek(%v) = value#%d, never stored under it", k, v)
				}
				load[idx(k)] += idSize[v]
			}
		}
		for s, l := range load {
			if l > share {
				res.NonTrivial = true
				return res.Failf(site("bound"), "at rest shard %d holds summed size %d, its capacity is %d/%d+1 = %d", s, l, c.Cap, nShards, share)
			}
		}
		present := 0
		for _, k := range pool {
			x, _ := k.iface()
			e := t.Exist(x)
			if d := t.Delete(x); d != e {
				return res.Failf(site("Delete"), "at rest Delete(%v) = %v though Exist said %v", k, d, e)
			}
			if e {
				present++
			}
		}
		stored := map[Key]bool{}
		for _, k := range idKey {
			stored[k] = true
		}
		res.NonTrivial = present < len(stored) && !progsContain(progs, kDel) // a stored key is gone though nobody deletes
		if res.NonTrivial {
			res.Class("eviction")
		}
		// everything deleted: the cache must behave like a new one
		w := newWideIdeal(unit, c.Cap, nShards, idx)
		for i, op := range suffix {
			if opProblem(op) != "" || !facadeOp(op.K) {
				res.Skip("op:suffix-skipped")
				continue
			}
			if !stepWide(res, c.Impl, func() string { return fmt.Sprintf("after stress and deleting every key, suffix op #%d", i) }, t, w, pool, op, 1_000_000_000+i) {
				return res
			}
		}
		return res
	}

	// single caches, at rest
	obs := observe(ft)
	keys, items, st := obs.get(kKeys).Keys, obs.get(kItems).Items, obs.get(kStats).N
	if int64(len(keys)) != st[0] || len(items) != len(keys) || obs.get(kLen).N[0] != st[0] || obs.get(kSize).N[0] != st[1] || obs.get(kCap).N[0] != st[2] || obs.get(kEvs).N[0] != st[3] {
		return res.Failf(site("observers"), "at rest the observers disagree: %d keys, %d items, Stats %s, Length %d Size %d Capacity %d Evictions %d", len(keys), len(items), obs.get(kStats).show(kStats), obs.get(kLen).N[0], obs.get(kSize).N[0], obs.get(kCap).N[0], obs.get(kEvs).N[0])
	}
	seen := map[Key]bool{}
	var sum int64
	m := &ideal{unit: unit, capa: st[2], ev: st[3]}
	for i, k := range keys {
		if seen[k] {
			return res.Failf(site("distinct"), "at rest Keys() lists %v twice: %v", k, keys)
		}
		seen[k] = true
		if items[i].K != k {
			return res.Failf(site("order"), "at rest Keys() %v and Items() %v differ in order", keys, items)
		}
		v := items[i].V
		var sz int64
		if mode == modeFree {
			if kk, known := idKey[v]; !known || kk != k {
				return res.Failf(site("value"), "at rest %v holds value#%d, never stored under it", k, v)
			}
			sz = idSize[v]
		} else {
			if k.T != "int" || int64(v) != k.I || slotSize(v) < 0 {
				return res.Failf(site("value"), "at rest %v holds value#%d", k, v)
			}
			sz = slotSize(v)
		}
		sum += sz
		m.ents = append(m.ents, ent{k, v, sz})
		x, _ := k.iface()
		if pv, ok := ft.Peek(x); !ok || pv != v || !ft.Exist(x) {
			return res.Failf(site("index"), "at rest %v is listed by Keys() but Peek = (#%d,%v), Exist = %v", k, pv, ok, ft.Exist(x))
		}
	}
	for _, k := range pool {
		x, _ := k.iface()
		if safe[k] && !seen[k] {
			return res.Failf(site("lost"), "at rest Keys() = %v does not list %v, though the programs store the key, nobody deletes it, clears or resizes, and all items ever stored fit the capacity %d together: an ideal LRU never evicts here", keys, k, c.Cap)
		}
		if !seen[k] && ft.Exist(x) {
			return res.Failf(site("index"), "at rest Exist(%v) though Keys() does not list it: %v", k, keys)
		}
	}
	if sum != st[1] {
		return res.Failf(site("size"), "at rest Size() = %d but the items sum to %d: %s", st[1], sum, m.describe())
	}
	if st[1] > st[2] {
		return res.Failf(site("bound"), "at rest Size %d exceeds Capacity %d", st[1], st[2])
	}
	if mode == modeFree && !caps[st[2]] {
		return res.Failf(site("capacity"), "at rest Capacity() = %d was never set", st[2])
	}
	if st[3] > 0 {
		res.NonTrivial = true
		res.Class("eviction")
	}
	if mode == modeConserve {
		// exact conservation: stored = final items + removed, each exactly once
		where := map[int]string{}
		for _, it := range items {
			where[it.V] = "the final Items"
		}
		nRemoved := 0
		for g, list := range removed {
			for _, v := range list {
				if w, dup := where[v]; dup {
					return res.Failf(site("conservation"), "value#%d was reported removed to goroutine %d and is also in %s", v, g, w)
				}
				where[v] = fmt.Sprintf("a removed list of goroutine %d", g)
				nRemoved++
			}
		}
		nStored := 0
		for g, p := range progs {
			for j, o := range p {
				if o.K != kSagr {
					continue
				}
				for r := 0; r < reps; r++ {
					nStored++
					if _, ok := where[int(freshKey(g, j, r))]; !ok {
						return res.Failf(site("conservation"), "value#%d (goroutine %d slot %d repetition %d) was stored once and is neither in the final Items nor in any removed list", freshKey(g, j, r), g, j, r)
					}
				}
			}
		}
		if len(where) != nStored {
			return res.Failf(site("conservation"), "%d values were stored but %d distinct values are accounted for", nStored, len(where))
		}
		if st[3] != int64(nRemoved) {
			return res.Failf(site("evictions"), "Evictions() = %d but %d values were reported removed (every storing call was SetAndGetRemoved)", st[3], nRemoved)
		}
		if nRemoved > 0 {
			res.Class("SetAndGetRemoved non-empty")
		}
	}
	// the state left behind must still be an ideal LRU: sequential suffix
	for i, op := range suffix {
		if opProblem(op) != "" {
			res.Skip("op:suffix-skipped")
			continue
		}
		if m = stepFull(res, c.Impl, func() string { return fmt.Sprintf("after stress, suffix op #%d", i) }, ft, m, op, 1_000_000_000+i); m == nil {
			return res
		}
	}
	return res
}

func progsContain(progs [][]Op, kind string) bool {
	for _, p := range progs {
		for _, o := range p {
			if o.K == kind {
				return true
			}
		}
	}
	return false
}

var stressFullKinds = weighted(kSet, 18, kSagr, 12, kSia, 8, kGet, 16, kPeek, 8, kExist, 5, kDel, 8, kSetCap, 2, kClear, 1,
	kKeys, 3, kItems, 3, kStats, 5, kSJSON, 5, kEvs, 2, kLen, 2, kSize, 2, kCap, 1)
var stressNoResetKinds = weighted(kSet, 18, kSagr, 12, kSia, 8, kGet, 16, kPeek, 8, kExist, 5, kDel, 8,
	kKeys, 3, kItems, 3, kStats, 5, kSJSON, 5, kEvs, 3, kLen, 2, kSize, 2, kCap, 1)
var conserveKinds = weighted(kSagr, 30, kGet, 14, kPeek, 8, kExist, 4, kKeys, 2, kItems, 3, kStats, 4, kSJSON, 4, kEvs, 2, kLen, 1, kSize, 2)

// the "resize" shape of the free mode: goroutine 0 raises the capacity, stores, and shrinks it again, over and over;
// the others mostly take whole-state snapshots
var resizeStoreKinds = weighted(kSet, 3, kSagr, 1, kSia, 1)
var resizeReaderKinds = weighted(kStats, 8, kSJSON, 8, kSize, 2, kLen, 1, kCap, 1, kEvs, 1, kGet, 3, kPeek, 2, kItems, 1)

func GenStress(t *rapid.T) StressCase {
	c := StressCase{Impl: genImpl(t), MaxProcs: rapid.SampledFrom([]int{2, 4, 8, 8}).Draw(t, "maxprocs"), Mode: modeFree}
	thorough := vkit.Tier() == "thorough"
	hiReps := 300
	if thorough {
		hiReps = 1000
	}
	c.Reps = rapid.IntRange(10, hiReps).Draw(t, "reps")
	var pool []Key
	kinds := stressFullKinds
	sizeRef := int64(0)
	private := false
	if isWide(c.Impl) {
		c.XHash = rapid.Bool().Draw(t, "xhash")
		c.Shards = genShards(t)
		c.Cap = genWideCap(t, shardCount(c.Shards), c.Impl == implWTiny)
		pool = genWidePool(t, c.XHash, c.Shards, 3, 6, 4)
		if rapid.IntRange(0, 2).Draw(t, "roomy") == 0 {
			// every shard holds whatever the programs store in it: nothing is ever evicted, a stored key stays
			c.Cap = int64(shardCount(c.Shards) * 16 * (len(pool) + 1))
			private = rapid.Bool().Draw(t, "private")
		}
		kinds = wideKinds
		sizeRef = perShardCap(c.Cap, shardCount(c.Shards))
	} else {
		if rapid.IntRange(0, 9).Draw(t, "conserve") < 3 {
			c.Mode = modeConserve
			kinds = conserveKinds
		} else if rapid.Bool().Draw(t, "noreset") {
			kinds = stressNoResetKinds
		}
		if c.Impl == implTiny {
			c.Cap = int64(rapid.IntRange(0, 8).Draw(t, "cap"))
		} else {
			c.Cap = int64(rapid.IntRange(0, 20).Draw(t, "cap"))
		}
		pool = genPool(t, universe, 3, 12)
		sizeRef = c.Cap
	}
	profile := genProfile(t)
	if c.Impl == implCache && rapid.IntRange(0, 2).Draw(t, "onesize") == 0 {
		profile = 3 // every item has size 1: the snapshot oracle Size = Length is exact
	}
	resize := !isWide(c.Impl) && c.Mode == modeFree && rapid.IntRange(0, 9).Draw(t, "shape") >= 6 // about a third of the draws
	if resize {
		kinds = resizeReaderKinds
	}
	base := opGen(kinds, pool, profile, sizeRef, 20)
	conserve := c.Mode == modeConserve
	call := rapid.Custom(func(t *rapid.T) Op {
		op := base.Draw(t, "call")
		if conserve && needsKey(op.K) {
			// reading calls address a storing slot by number; storing calls get fresh keys
			op.Key = Key{T: "int", I: int64(rapid.IntRange(0, 255).Draw(t, "slot"))}
			if op.Size > 6 {
				op.Size %= 7
			}
		}
		op.Y = rapid.IntRange(0, 7).Draw(t, "yield") == 0
		return op
	})
	if resize {
		var p0 []Op
		for b := rapid.IntRange(1, 3).Draw(t, "blocks"); b > 0; b-- {
			big := int64(rapid.IntRange(4, 20).Draw(t, "bigcap"))
			p0 = append(p0, Op{K: kSetCap, Cap: big})
			for n := rapid.IntRange(2, 6).Draw(t, "stores"); n > 0; n-- {
				p0 = append(p0, opGen(resizeStoreKinds, pool, profile, big, 20).Draw(t, "store"))
			}
			p0 = append(p0, Op{K: kSetCap, Cap: int64(rapid.IntRange(0, 3).Draw(t, "smallcap"))})
		}
		c.Progs = append([][]Op{p0}, rapid.SliceOfN(rapid.SliceOfN(call, 6, 24), 2, 5).Draw(t, "progs")...)
	} else {
		c.Progs = rapid.SliceOfN(rapid.SliceOfN(call, 6, 24), 3, 8).Draw(t, "progs")
	}
	if private {
		// every goroutine keeps to its own keys (of the same hot shards): a read then has exactly one right answer,
		// the value of the goroutine's own last store
		at := map[Key]int{}
		for i, k := range pool {
			at[k] = i
		}
		ng := len(c.Progs)
		for g, p := range c.Progs {
			for j, o := range p {
				if i := at[o.Key]/ng*ng + g; needsKey(o.K) && i < len(pool) {
					p[j].Key = pool[i]
				} else if needsKey(o.K) {
					p[j].Key = pool[g%len(pool)]
				}
			}
		}
	}
	sk := seqKinds
	if isWide(c.Impl) {
		sk = wideKinds
	}
	c.Suffix = history(t, opGen(sk, pool, profile, sizeRef, 20), 25, "suffix")
	return c
}

var PartStress = &vkit.Part[StressCase]{
	Property: Property, Name: "race-stress",
	Rule:  "rapid: implementation as in race-lin, capacity 0..20 (tiny 0..8; wide: per-shard share 1..8), 3-8 goroutines each repeating a generated program of 6-24 calls 10-300 times (1000 thorough) with real concurrency (GOMAXPROCS 2|4|8), under the race detector, no shared memory between goroutines but the cache. free mode: all public methods on a shared pool of 3-12 keys (the nil interface among them); every hit must return a value stored under that key, every Stats and StatsJSON snapshot parses, has size <= capacity and a capacity that was set, counters in range, Length x smallest item size <= Size <= Length x largest item size (tiny and the one-item-size cases of cache.LRUCache, one in three: Size = Length), eviction counter monotone without Clear; about a third of the free cases of the single caches have the resize shape: goroutine 0 repeats SetCapacity(4..20), 2-6 stores, SetCapacity(0..3) while 2-5 others mostly call Stats/StatsJSON; at rest: keys distinct, Keys/Items/Stats/Length/Size/Capacity/Evictions mutually consistent, Size = sum of item sizes <= Capacity, index = list; wide: Exist = Peek, per-shard summed size <= capacity/shards+1, Delete of every key, then the cache must equal a fresh per-shard model on a sequential suffix. conserve mode (single caches): every storing call is SetAndGetRemoved on a never reused key, so stored values = final Items + removed lists exactly once each and Evictions = number of removed values. Single caches then run a sequential suffix of 5-25 calls against an ideal LRU seeded with the observed final state. Non-trivial: an eviction happened (evictions > 0; wide: a stored key is gone though the program never deletes); distinct = distinct case JSON",
	Quick: 150, Thorough: 300,
	Gen: GenStress, Exec: ExecStress,
}
