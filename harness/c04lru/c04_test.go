package c04lru

import (
	"os"
	"testing"

	"verifharness/vkit"
)

func TestMain(m *testing.M) { vkit.Main(m) }

func TestProp_SeqCache(t *testing.T) { PartCache.Run(t) }
func TestProp_SeqTiny(t *testing.T)  { PartTiny.Run(t) }
func TestProp_Wide(t *testing.T)     { PartWide.Run(t) }
func TestProp_Deep(t *testing.T)     { PartDeep.Run(t) }

// The concurrent parts belong to the -race binary (the driver runs TestRace_*
// only from there); VERIF_RACE=1 forces them in a plain binary while developing.
func raceOnly(t *testing.T) {
	if !raceEnabled && os.Getenv("VERIF_RACE") == "" {
		t.Skip("concurrent parts run from the -race binary")
	}
}

func TestRace_Lin(t *testing.T)    { raceOnly(t); PartLin.Run(t) }
func TestRace_Stress(t *testing.T) { raceOnly(t); PartStress.Run(t) }
func TestRace_Focus(t *testing.T)  { raceOnly(t); PartFocus.Run(t) }

func TestReplay(t *testing.T) {
	PartCache.Replay(t, 1)
	PartTiny.Replay(t, 1)
	PartWide.Replay(t, 1)
	PartDeep.Replay(t, 1)
	PartLin.Replay(t, 300)
	PartStress.Replay(t, 30)
	PartFocus.Replay(t, 30)
}
