package c17remap

// The lock clause of C17 for the sharded key lockers and the sharded semaphore
// map, as far as routing is concerned: every supported key of every shard
// count can be locked and unlocked through every constructor without a panic,
// the sharded structure keeps exactly the per-key entries the unsharded one
// keeps (one while a key is held, none afterwards), and two distinct keys -
// whether they share a shard or not - can be held together. Blocking,
// fairness and exclusion under contention are decided by C01 / C02.

import (
	"context"
	"fmt"
	"sync/atomic"

	"github.com/pinealctx/neptune/remap"
	"github.com/pinealctx/neptune/syncx/keylock"
	"github.com/pinealctx/neptune/syncx/semap"
	"pgregory.net/rapid"

	"verifharness/vkit"
)

const (
	FamKeyLock  = "keylock"  // keylock.NewKeyLockeGrp / NewXHashKeyLockeGrp vs NewKeyLocker
	FamTKeyLock = "tkeylock" // keylock.NewTKeyLockeGrp[T] / NewTXHashTKeyLockeGrp[T] vs NewTKeyLocker[T]
	FamSemMap   = "semap"    // semap.NewWideSemMap / NewWideXHashSemMap vs NewSemMap
)

type CaseLock struct {
	Fam    string `json:"fam"`
	XHash  bool   `json:"xhash"`
	Shards uint64 `json:"shards"`
	// TT is the type argument of the generic locker: "any" (interface{}: keys of
	// all types) or the tag of one key type; keys of another type are left out.
	TT   string `json:"tt,omitempty"`
	Keys []Key  `json:"keys"`
	Read []bool `json:"read"` // per key: shared mode (RLock / AcquireRead)
	// OneList, per key (generic locker): the sharded structure is asked through the multi-key entry point with a list of
	// exactly this one key (Locks / RLocks of one key); a shared key is then also taken through the single-key entry
	// point while the list call holds it - two readers of one key, one entry
	OneList []bool `json:"one_list,omitempty"`
	// Pair: consecutive distinct keys are also held together (under a vkit.Sched).
	Pair bool `json:"pair,omitempty"`
	// Multi (generic locker): the pair is taken by one Locks / RLocks call.
	Multi bool `json:"multi,omitempty"`
	// RwRatio (semaphore map): 0 = no option (the documented default 10), else
	// WithRwRatio(RwRatio) on the sharded and on the unsharded map.
	RwRatio int `json:"rw,omitempty"`
	// Other: a second sharded structure of the same family (and type argument)
	// with its own unsharded twin. It is built while key number Other.At of the
	// first structure is held; from then on every key is held on both structures
	// at the same time. Structures are independent objects: building or using
	// one must not change what the other one does.
	Other *LockInst `json:"other,omitempty"`
}

type LockInst struct {
	Shards uint64 `json:"shards"`
	XHash  bool   `json:"xhash"`
	At     int    `json:"at"`
}

var (
	lockShards = []uint64{1, 2, 3, 73, 211, 257, 1000}
	// more shards than an int16 / uint16 index can address
	lockShardsBig = []uint64{65521, 32749, 32771, 40009}
	lockTTs       = []string{"any", "hit", "int", "u16", "str", "bs", "i64", "u8"}
)

func GenLock(t *rapid.T) CaseLock {
	c := CaseLock{
		Fam:   rapid.SampledFrom([]string{FamKeyLock, FamTKeyLock, FamSemMap}).Draw(t, "fam"),
		XHash: rapid.Bool().Draw(t, "xhash"),
	}
	switch k := rapid.IntRange(0, 59).Draw(t, "shardsKind"); {
	case k < 53:
		c.Shards = rapid.SampledFrom(lockShards).Draw(t, "shards")
	case k < 59:
		c.Shards = uint64(rapid.IntRange(1, 512).Draw(t, "shardsAny"))
	default: // rare: tens of thousands of lockers are built for the case
		c.Shards = rapid.SampledFrom(lockShardsBig).Draw(t, "shardsBig")
	}
	n := c.Shards
	if rapid.IntRange(0, 3).Draw(t, "second") == 3 {
		c.Other = &LockInst{XHash: rapid.Bool().Draw(t, "xhash2"), At: rapid.IntRange(0, 5).Draw(t, "builtAt")}
		if rapid.Bool().Draw(t, "shards2Kind") {
			c.Other.Shards = rapid.SampledFrom(lockShards).Draw(t, "shards2")
		} else {
			c.Other.Shards = uint64(rapid.IntRange(1, 512).Draw(t, "shards2Any"))
		}
	}
	if c.Fam == FamSemMap {
		c.RwRatio = rapid.SampledFrom([]int{0, 0, 1, 2, 3, 7, 10, 25}).Draw(t, "rwRatio")
	}
	hitOK := !c.XHash && (c.Other == nil || !c.Other.XHash)
	if c.Fam == FamTKeyLock {
		for {
			c.TT = rapid.SampledFrom(lockTTs).Draw(t, "tt")
			if c.TT != "hit" || hitOK {
				break
			}
		}
	}
	if c.TT == "" || c.TT == "any" {
		// HitGroup-only and Bs keys are what the modulo / xxhash split is about: make them frequent
		c.Keys = genKeys(t, n, 1, 6, false, hitOK)
		if k := rapid.IntRange(0, 3).Draw(t, "force"); k == 0 && hitOK {
			c.Keys[0] = Key{T: "hit", U: genU(t, n)}
		} else if k == 1 {
			c.Keys[0] = Key{T: "bs", B: genContent(t, n)}
		}
	} else {
		cnt := rapid.IntRange(1, 6).Draw(t, "nkeys")
		for len(c.Keys) < cnt {
			switch {
			case c.TT == "str" || c.TT == "bs":
				c.Keys = append(c.Keys, Key{T: c.TT, B: genContent(t, n)})
			case len(c.Keys) > 0 && rapid.Bool().Draw(t, "derive"):
				// same modulo shard, another value
				p := c.Keys[rapid.IntRange(0, len(c.Keys)-1).Draw(t, "from")]
				j := uint64(rapid.IntRange(1, 5).Draw(t, "j"))
				c.Keys = append(c.Keys, Key{T: c.TT, U: normU(c.TT, p.U+j*n)})
			default:
				c.Keys = append(c.Keys, Key{T: c.TT, U: normU(c.TT, genU(t, n))})
			}
		}
	}
	for range c.Keys {
		c.Read = append(c.Read, rapid.Bool().Draw(t, "read"))
	}
	if c.Fam == FamTKeyLock && rapid.Bool().Draw(t, "onelists") {
		for range c.Keys {
			c.OneList = append(c.OneList, rapid.Bool().Draw(t, "onelist"))
		}
	}
	c.Pair = rapid.IntRange(0, 2).Draw(t, "pair") == 0
	if c.Pair && c.Fam == FamTKeyLock {
		c.Multi = rapid.Bool().Draw(t, "multi")
	}
	return c
}

// lockFace is the common face of the three families.
type lockFace interface {
	acquire(k interface{}, read bool) (release func(), err error)
	// multi takes all keys with one call (generic locker only).
	multi(ks []interface{}, read bool) (release func(), ok bool)
	entries() int
	// counts: reader / writer references of the key's entry (key lockers); tokens
	// held / queued waiters of the key's semaphore (semaphore map).
	counts(k interface{}) (r, w int, present, ok bool)
}

type anyLock struct{ l keylock.Locker }

func (a anyLock) acquire(k interface{}, read bool) (func(), error) {
	if read {
		a.l.RLock(k)
		return func() { a.l.RUnlock(k) }, nil
	}
	a.l.Lock(k)
	return func() { a.l.Unlock(k) }, nil
}
func (a anyLock) multi([]interface{}, bool) (func(), bool) { return nil, false }
func (a anyLock) entries() int                             { return keylock.VerifEntries(a.l) }
func (a anyLock) counts(k interface{}) (int, int, bool, bool) {
	r, w, p := keylock.VerifKeyCounts(a.l, k)
	return r, w, p, true
}

type tLock[T comparable] struct{ l keylock.TLocker[T] }

func (a tLock[T]) acquire(k interface{}, read bool) (func(), error) {
	key := k.(T)
	if read {
		a.l.RLock(key)
		return func() { a.l.RUnlock(key) }, nil
	}
	a.l.Lock(key)
	return func() { a.l.Unlock(key) }, nil
}
func (a tLock[T]) multi(ks []interface{}, read bool) (func(), bool) {
	keys := make([]T, len(ks))
	for i, k := range ks {
		keys[i] = k.(T)
	}
	if read {
		a.l.RLocks(keys)
		return func() { a.l.RUnlocks(keys) }, true
	}
	a.l.Locks(keys)
	return func() { a.l.Unlocks(keys) }, true
}
func (a tLock[T]) entries() int { return keylock.VerifEntries(a.l) }
func (a tLock[T]) counts(k interface{}) (int, int, bool, bool) {
	r, w, p := keylock.VerifKeyCounts(a.l, k)
	return r, w, p, true
}

type semLock struct{ m semap.SemMapper }

func (a semLock) acquire(k interface{}, read bool) (func(), error) {
	if read {
		w, err := a.m.AcquireRead(context.Background(), k)
		if err != nil {
			return nil, err
		}
		return func() { a.m.ReleaseRead(k, w) }, nil
	}
	w, err := a.m.AcquireWrite(context.Background(), k)
	if err != nil {
		return nil, err
	}
	return func() { a.m.ReleaseWrite(k, w) }, nil
}
func (a semLock) multi([]interface{}, bool) (func(), bool) { return nil, false }
func (a semLock) entries() int                             { return semap.VerifEntries(a.m) }
func (a semLock) counts(k interface{}) (int, int, bool, bool) {
	held, waiters, p := semap.VerifKeyState(a.m, k)
	return held, waiters, p, true
}

func mkT[T comparable](n uint64, xhash bool) (lockFace, lockFace) {
	if xhash {
		return tLock[T]{keylock.NewTXHashTKeyLockeGrp[T](remap.WithPrime(n))}, tLock[T]{keylock.NewTKeyLocker[T]()}
	}
	return tLock[T]{keylock.NewTKeyLockeGrp[T](remap.WithPrime(n))}, tLock[T]{keylock.NewTKeyLocker[T]()}
}

// mkLock builds a sharded structure of the case's family with n shards and its
// unsharded counterpart.
func mkLock(c CaseLock, n uint64, xhash bool) (wide, single lockFace, ctor string, ok bool) {
	switch c.Fam {
	case FamKeyLock:
		if xhash {
			return anyLock{keylock.NewXHashKeyLockeGrp(remap.WithPrime(n))}, anyLock{keylock.NewKeyLocker()}, "keylock.NewXHashKeyLockeGrp", true
		}
		return anyLock{keylock.NewKeyLockeGrp(remap.WithPrime(n))}, anyLock{keylock.NewKeyLocker()}, "keylock.NewKeyLockeGrp", true
	case FamSemMap:
		wopts, sopts, sfx := []semap.Option{semap.WithPrime(n)}, []semap.Option(nil), ""
		if c.RwRatio != 0 {
			wopts = append(wopts, semap.WithRwRatio(c.RwRatio))
			sopts = append(sopts, semap.WithRwRatio(c.RwRatio))
			sfx = fmt.Sprintf("(WithRwRatio(%d))", c.RwRatio)
		}
		if xhash {
			return semLock{semap.NewWideXHashSemMap(wopts...)}, semLock{semap.NewSemMap(sopts...)}, "semap.NewWideXHashSemMap" + sfx, true
		}
		return semLock{semap.NewWideSemMap(wopts...)}, semLock{semap.NewSemMap(sopts...)}, "semap.NewWideSemMap" + sfx, true
	case FamTKeyLock:
		ctor = "keylock.NewTKeyLockeGrp[" + c.TT + "]"
		if xhash {
			ctor = "keylock.NewTXHashTKeyLockeGrp[" + c.TT + "]"
		}
		switch c.TT {
		case "any":
			wide, single = mkT[interface{}](n, xhash)
		case "hit":
			wide, single = mkT[hitKey](n, xhash)
		case "int":
			wide, single = mkT[int](n, xhash)
		case "u16":
			wide, single = mkT[uint16](n, xhash)
		case "i64":
			wide, single = mkT[int64](n, xhash)
		case "u8":
			wide, single = mkT[byte](n, xhash)
		case "str":
			wide, single = mkT[string](n, xhash)
		case "bs":
			wide, single = mkT[bsKey](n, xhash)
		default:
			return nil, nil, "", false
		}
		return wide, single, ctor, true
	}
	return nil, nil, "", false
}

const maxLockShards = maxShards

// lockInst is one sharded lock structure of a case with its unsharded twin.
type lockInst struct {
	wide, single lockFace
	n            uint64
	xhash        bool
	ctor         string
}

func (in *lockInst) where() string { return fmt.Sprintf("%s with %d shards", in.ctor, in.n) }

func ExecLock(c CaseLock) (res *vkit.Result) {
	res = &vkit.Result{}
	doing := "constructing"
	defer func() {
		if r := recover(); r != nil {
			res = &vkit.Result{Fail: panicFailure(r, doing)}
		}
	}()
	n := c.Shards
	if n < 1 || n > maxLockShards || (c.Other != nil && (c.Other.Shards < 1 || c.Other.Shards > maxLockShards)) {
		res.Skip("shards-out-of-domain")
		return res
	}
	if c.RwRatio < 0 || c.RwRatio > 1000 || (c.RwRatio != 0 && c.Fam != FamSemMap) {
		res.Skip("rw-ratio-out-of-domain")
		return res
	}
	first := &lockInst{n: n, xhash: c.XHash}
	var ok bool
	first.wide, first.single, first.ctor, ok = mkLock(c, n, c.XHash)
	if !ok {
		res.Skip("unknown-family-or-type-argument")
		return res
	}
	// what the entry of a held key must read: key lockers count (readers,
	// writers); the semaphore map counts (tokens held, queued waiters), a reader
	// holds 1 token, a writer rwRatio tokens
	ratio := semap.DefaultRWRatio
	if c.RwRatio != 0 {
		ratio = c.RwRatio
	}
	unit := "readers / writers"
	if c.Fam == FamSemMap {
		unit = fmt.Sprintf("tokens held / waiters (a reader holds 1, a writer rwRatio = %d)", ratio)
	}
	expect := func(read bool) (int, int) {
		switch {
		case read:
			return 1, 0
		case c.Fam == FamSemMap:
			return ratio, 0
		}
		return 0, 1
	}
	// usable keys: inside the domain of the constructor, of the type argument, each value once
	type lk struct {
		key  Key
		v    interface{}
		read bool
		one  bool
	}
	var ks []lk
	seen := map[string]bool{}
	for i, k := range c.Keys {
		v, ok := k.iface()
		switch {
		case !ok:
			res.Skip("unknown-key-type")
		case !k.hashable():
			res.Skip("unhashable-key")
		case c.XHash && !k.xhashOK():
			res.Skip("HitGroup-only-key-with-xxhash-routing")
		case c.Fam == FamTKeyLock && c.TT != "any" && k.T != c.TT:
			res.Skip("key-not-of-the-type-argument")
		case seen[keyID(k)]:
			res.Skip("duplicate-key")
		default:
			seen[keyID(k)] = true
			ks = append(ks, lk{k, v, i < len(c.Read) && c.Read[i], i < len(c.OneList) && c.OneList[i]})
		}
	}
	mode := func(read bool) string {
		if read {
			return "shared"
		}
		return "exclusive"
	}
	if e := first.wide.entries(); e != 0 {
		return res.Failf(c.Fam+"/entries", "%s: %d entries before any call", first.where(), e)
	}
	// held: the structure holds exactly this key, in this mode
	checkHeld := func(in *lockInst, k lk, when string) *vkit.Failure {
		if we, se := in.wide.entries(), in.single.entries(); we != 1 || se != 1 {
			return &vkit.Failure{Site: c.Fam + "/entries", Msg: fmt.Sprintf("%s: while %v is held (%s) and nothing else%s: %d entries, the unsharded structure has %d, want 1", in.where(), k.key, mode(k.read), when, we, se)}
		}
		if wr, ww, wp, has := in.wide.counts(k.v); has {
			sr, sw, sp, _ := in.single.counts(k.v)
			er, ew := expect(k.read)
			if wr != sr || ww != sw || wp != sp || wr != er || ww != ew || !wp {
				return &vkit.Failure{Site: c.Fam + "/counts", Msg: fmt.Sprintf("%s: while %v is held (%s)%s: entry found in the key's shard = %v with %d / %d %s; unsharded: %v, %d / %d; want %d / %d", in.where(), k.key, mode(k.read), when, wp, wr, ww, unit, sp, sr, sw, er, ew)}
			}
		}
		return nil
	}
	checkFree := func(in *lockInst, k lk, when string) *vkit.Failure {
		if we, se := in.wide.entries(), in.single.entries(); we != 0 || se != 0 {
			return &vkit.Failure{Site: c.Fam + "/entries", Msg: fmt.Sprintf("%s: after %v was held (%s) and released%s: %d entries left, the unsharded structure has %d, want 0", in.where(), k.key, mode(k.read), when, we, se)}
		}
		return nil
	}
	take := func(in *lockInst, k lk) (rel func(), f *vkit.Failure) {
		var wrel func()
		var err error
		if k.one {
			if r, ok := in.wide.multi([]interface{}{k.v}, k.read); ok {
				wrel = r
				res.Class("key-held-through-a-list-of-one-key")
			}
		}
		if wrel == nil {
			wrel, err = in.wide.acquire(k.v, k.read)
		}
		if err != nil {
			return nil, &vkit.Failure{Site: c.Fam + "/acquire", Msg: fmt.Sprintf("%s: %s acquire of %v, which nobody holds, failed: %v", in.where(), mode(k.read), k.key, err)}
		}
		srel, err := in.single.acquire(k.v, k.read)
		if err != nil {
			return nil, &vkit.Failure{Site: c.Fam + "/acquire", Msg: fmt.Sprintf("unsharded counterpart of %s: %s acquire of %v failed: %v", in.where(), mode(k.read), k.key, err)}
		}
		return func() { wrel(); srel() }, nil
	}
	var second *lockInst
	at := -1
	if c.Other != nil && len(ks) > 0 {
		at = c.Other.At
		if at < 0 {
			at = 0
		}
		if at > len(ks)-1 {
			at = len(ks) - 1
		}
	}
	// every key once: hold, look, release, look
	for i, k := range ks {
		classifyKey(res, k.key)
		doing = fmt.Sprintf("%s: single goroutine, %s acquire and release of %v, nothing else held on this structure", first.where(), mode(k.read), k.key)
		rel, f := take(first, k)
		if f != nil {
			res.Fail = f
			return res
		}
		note := ""
		if i == at {
			doing = fmt.Sprintf("building a second structure (%d shards) while %v is held on %s", c.Other.Shards, k.key, first.where())
			second = &lockInst{n: c.Other.Shards, xhash: c.Other.XHash}
			second.wide, second.single, second.ctor, _ = mkLock(c, c.Other.Shards, c.Other.XHash)
			note = fmt.Sprintf(", after %s with %d shards was built", second.ctor, second.n)
			res.Class("second-structure-built-while-a-key-is-held")
			doing = fmt.Sprintf("%s: %v held (%s)%s", first.where(), k.key, mode(k.read), note)
		}
		if f := checkHeld(first, k, note); f != nil {
			res.Fail = f
			return res
		}
		if k.one && k.read {
			// the same key once more, through the single-key entry point: readers share, and it is one key
			doing = fmt.Sprintf("%s: RLock of %v while RLocks of the list of that one key holds it", first.where(), k.key)
			rel1, err := first.wide.acquire(k.v, true)
			if err != nil {
				res.Fail = &vkit.Failure{Site: c.Fam + "/acquire", Msg: fmt.Sprintf("%s: %v", doing, err)}
				return res
			}
			if n := first.wide.entries(); n != 1 {
				return res.Failf(c.Fam+"/entries", "%s: the structure holds %d entries, one key is in use (the single-key call and the one-key list do not agree on where the key lives)", doing, n)
			}
			if r, w, present, ok := first.wide.counts(k.v); ok && (!present || r != 2 || w != 0) {
				return res.Failf(c.Fam+"/counts", "%s: the key's entry reads present=%v readers=%d writers=%d, want 2 readers", doing, present, r, w)
			}
			rel1()
			res.Class("two-readers-through-both-entry-points")
		}
		if second != nil && (!second.xhash || k.key.xhashOK()) {
			doing = fmt.Sprintf("%s: %s acquire of %v while the same key is held on %s", second.where(), mode(k.read), k.key, first.where())
			rel2, f := take(second, k)
			if f != nil {
				res.Fail = f
				return res
			}
			both := fmt.Sprintf(" (the key is held on %s too)", first.where())
			if f := checkHeld(second, k, both); f != nil {
				res.Fail = f
				return res
			}
			if f := checkHeld(first, k, fmt.Sprintf(" (the key is held on %s too)", second.where())); f != nil {
				res.Fail = f
				return res
			}
			doing = fmt.Sprintf("%s: release of %v (%s) while the same key is held on %s", first.where(), k.key, mode(k.read), second.where())
			rel()
			if f := checkFree(first, k, ""); f != nil {
				res.Fail = f
				return res
			}
			if f := checkHeld(second, k, fmt.Sprintf(" (it was released on %s)", first.where())); f != nil {
				res.Fail = f
				return res
			}
			doing = fmt.Sprintf("%s: release of %v (%s)", second.where(), k.key, mode(k.read))
			rel2()
			if f := checkFree(second, k, ""); f != nil {
				res.Fail = f
				return res
			}
			res.Class("key-held-on-two-structures")
		} else {
			doing = fmt.Sprintf("%s: release of %v (%s)%s", first.where(), k.key, mode(k.read), note)
			rel()
			if f := checkFree(first, k, note); f != nil {
				res.Fail = f
				return res
			}
		}
		res.Class("mode=" + mode(k.read))
	}
	wide := first.wide
	where := first.where
	// two distinct keys held together. Distinct keys never wait for each other
	// in the unsharded structure; the sequence runs on a goroutine of its own and
	// is judged at quiescence, so a sharded structure that blocks here is a
	// verdict, not a hang.
	pairs := 0
	doing = where() + ": two-keys-held step"
	if c.Pair && len(ks) >= 2 {
		r, _ := instances(n)
		idx := func(v interface{}) int {
			if c.XHash {
				return r.XHashIndex(v)
			}
			return r.SimpleIndex(v)
		}
		sched := vkit.NewSched()
		for i := 0; i+1 < len(ks) && pairs < 3; i++ {
			a, b := ks[i], ks[i+1]
			pairs++
			useMulti := c.Multi && c.Fam == FamTKeyLock
			bread := b.read
			if useMulti {
				bread = a.read // one call, one mode
			}
			var step atomic.Int32
			var held, after int
			var cnt [2][2]int
			var present [2]bool
			var hasCounts bool
			var aerr error
			look := func() {
				held = wide.entries()
				cnt[0][0], cnt[0][1], present[0], hasCounts = wide.counts(a.v)
				cnt[1][0], cnt[1][1], present[1], _ = wide.counts(b.v)
			}
			op := sched.Go("pair", func() {
				if useMulti {
					rel, _ := wide.multi([]interface{}{a.v, b.v}, a.read)
					step.Store(2)
					look()
					rel()
				} else {
					ra, err := wide.acquire(a.v, a.read)
					if err != nil {
						aerr = err
						return
					}
					step.Store(1)
					rb, err := wide.acquire(b.v, b.read)
					if err != nil {
						aerr = err
						return
					}
					step.Store(2)
					look()
					rb()
					ra()
				}
				step.Store(3)
				after = wide.entries()
			})
			sched.MustQuiesce()
			what := fmt.Sprintf("%v (%s) then %v (%s), distinct keys", a.key, mode(a.read), b.key, mode(b.read))
			if useMulti {
				what = fmt.Sprintf("one %s multi-key call for %v and %v, distinct keys", mode(a.read), a.key, b.key)
			}
			if p := op.Panic(); p != nil {
				return res.Failf("panic", "%s: %s: panic after step %d: %v", where(), what, step.Load(), p)
			}
			if !op.Done() {
				return res.Failf(c.Fam+"/pair-blocked", "%s: %s: the only goroutine is parked after step %d (1 = first key held) - the unsharded structure never makes distinct keys wait for each other", where(), what, step.Load())
			}
			if aerr != nil {
				return res.Failf(c.Fam+"/acquire", "%s: %s: acquire failed after step %d: %v", where(), what, step.Load(), aerr)
			}
			if held != 2 || after != 0 {
				return res.Failf(c.Fam+"/entries", "%s: %s: %d entries while both are held (want 2), %d after both were released (want 0)", where(), what, held, after)
			}
			if hasCounts {
				for j, rd := range []bool{a.read, bread} {
					er, ew := expect(rd)
					if !present[j] || cnt[j][0] != er || cnt[j][1] != ew {
						return res.Failf(c.Fam+"/counts", "%s: %s: while both are held, the entry of key number %d of the two is found = %v with %d / %d %s; a single %s holder reads %d / %d in the unsharded structure", where(), what, j+1, present[j], cnt[j][0], cnt[j][1], unit, mode(rd), er, ew)
					}
				}
			}
			if idx(a.v) == idx(b.v) {
				res.Class("pair-on-one-shard")
			} else {
				res.Class("pair-on-two-shards")
			}
			if useMulti {
				res.Class("pair-by-one-multi-key-call")
			}
		}
	}
	res.Class("family=" + c.Fam)
	if c.Fam == FamTKeyLock {
		res.Class("type-argument=" + c.TT)
	}
	if c.Fam == FamSemMap {
		if c.RwRatio == 0 {
			res.Class("rwRatio=default")
		} else {
			res.Class(fmt.Sprintf("rwRatio=%d", c.RwRatio))
		}
	}
	if c.XHash {
		res.Class("routing=xxhash")
	} else {
		res.Class("routing=modulo")
	}
	if second != nil {
		if second.n != n {
			res.Class("structures-differ-in-shard-count")
		}
		if second.xhash != c.XHash {
			res.Class("structures-differ-in-routing")
		}
	}
	lab := "shards=other"
	for _, d := range lockShards {
		if d == n {
			lab = fmt.Sprintf("shards=%d", n)
		}
	}
	if n > 32767 {
		lab = "shards>32767"
	} else if n > 4096 {
		lab = "shards=4097..32767"
	}
	res.Class(lab)
	res.NonTrivial = n >= 2 && len(ks) >= 1
	return res
}

var PartLock = &vkit.Part[CaseLock]{
	Property: Property, Name: "locks",
	Rule:  "rapid: family (keylock.KeyLockerGrp | generic keylock.TKeyLockerGrp[T] with T in {interface{}, HitGroup-only struct, int, uint16, int64, byte, string, Bs struct} | semap.WideSemMap) x modulo|xxhash constructor x shard count ({1,2,3,73,211,257,1000} at 90%, any of 1..512, rarely one of {65521,32749,32771,40009}: more shards than a 16-bit index addresses) x WithRwRatio in {none,1,2,3,7,10,25} (semaphore map, both sides) x 1-6 keys (as in part index without []byte; HitGroup-only keys with the modulo constructors only; a HitGroup-only or Bs key forced in half of the untyped cases; for integer type arguments half of the keys are an earlier key plus j*shards: same shard, another value) x shared|exclusive per key. One goroutine holds and releases each key once on the sharded structure and on its unsharded counterpart (KeyLocker / TKeyLocker[T] / SemMap): no panic, no error, the verif hooks read 1 entry while held - found through the key's own shard, key lockers with 1 reader or 1 writer, the semaphore map with 1 token held by a reader and rwRatio tokens by a writer and no waiter - and 0 afterwards on both. In a quarter of the cases a second sharded structure of the same family (own shard count and routing, own unsharded twin) is built while one of the keys is held on the first; from then on every key is held on both structures at once and released on the first while the second still holds it, with the same entry and count checks on each (structures are independent objects). In a third of the cases up to 3 pairs of consecutive distinct keys are then held together (two calls, or one Locks/RLocks call on the generic locker) on a goroutine of their own under a vkit.Sched: at quiescence the sequence must have returned (distinct keys never wait for each other), with 2 entries while held (each key's entry with the counts of a single holder of its mode) and 0 afterwards. Contention, fairness and exclusion are C01/C02's. Non-trivial: shards >= 2 and at least one usable key; distinct = distinct case JSON",
	Quick: 2500, Thorough: 5000,
	Gen: GenLock, Exec: ExecLock,
}
