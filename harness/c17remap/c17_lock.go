package c17remap

// The lock clause of C17 for the sharded key lockers and the sharded semaphore
// map, as far as routing is concerned: every supported key of every shard
// count can be locked and unlocked through every constructor without a panic,
// the sharded structure keeps exactly the per-key entries the unsharded one
// keeps (one while a key is held, none afterwards), and two distinct keys -
// whether they share a shard or not - can be held together. Blocking,
// fairness and exclusion under contention are decided by C01 / C02.

import (
	"context"
	"fmt"
	"sync/atomic"

	"github.com/pinealctx/neptune/remap"
	"github.com/pinealctx/neptune/syncx/keylock"
	"github.com/pinealctx/neptune/syncx/semap"
	"pgregory.net/rapid"

	"verifharness/vkit"
)

const (
	FamKeyLock  = "keylock"  // keylock.NewKeyLockeGrp / NewXHashKeyLockeGrp vs NewKeyLocker
	FamTKeyLock = "tkeylock" // keylock.NewTKeyLockeGrp[T] / NewTXHashTKeyLockeGrp[T] vs NewTKeyLocker[T]
	FamSemMap   = "semap"    // semap.NewWideSemMap / NewWideXHashSemMap vs NewSemMap
)

type CaseLock struct {
	Fam    string `json:"fam"`
	XHash  bool   `json:"xhash"`
	Shards uint64 `json:"shards"`
	// TT is the type argument of the generic locker: "any" (interface{}: keys of
	// all types) or the tag of one key type; keys of another type are left out.
	TT   string `json:"tt,omitempty"`
	Keys []Key  `json:"keys"`
	Read []bool `json:"read"` // per key: shared mode (RLock / AcquireRead)
	// Pair: consecutive distinct keys are also held together (under a vkit.Sched).
	Pair bool `json:"pair,omitempty"`
	// Multi (generic locker): the pair is taken by one Locks / RLocks call.
	Multi bool `json:"multi,omitempty"`
}

var (
	lockShards = []uint64{1, 2, 3, 73, 211, 257, 1000}
	lockTTs    = []string{"any", "hit", "int", "u16", "str", "bs", "i64", "u8"}
)

func GenLock(t *rapid.T) CaseLock {
	c := CaseLock{
		Fam:   rapid.SampledFrom([]string{FamKeyLock, FamTKeyLock, FamSemMap}).Draw(t, "fam"),
		XHash: rapid.Bool().Draw(t, "xhash"),
	}
	if rapid.IntRange(0, 9).Draw(t, "shardsKind") < 9 {
		c.Shards = rapid.SampledFrom(lockShards).Draw(t, "shards")
	} else {
		c.Shards = uint64(rapid.IntRange(1, 512).Draw(t, "shardsAny"))
	}
	n := c.Shards
	hitOK := !c.XHash
	if c.Fam == FamTKeyLock {
		for {
			c.TT = rapid.SampledFrom(lockTTs).Draw(t, "tt")
			if c.TT != "hit" || hitOK {
				break
			}
		}
	}
	if c.TT == "" || c.TT == "any" {
		// HitGroup-only and Bs keys are what the modulo / xxhash split is about: make them frequent
		c.Keys = genKeys(t, n, 1, 6, false, hitOK)
		if k := rapid.IntRange(0, 3).Draw(t, "force"); k == 0 && hitOK {
			c.Keys[0] = Key{T: "hit", U: genU(t, n)}
		} else if k == 1 {
			c.Keys[0] = Key{T: "bs", B: genContent(t, n)}
		}
	} else {
		cnt := rapid.IntRange(1, 6).Draw(t, "nkeys")
		for len(c.Keys) < cnt {
			switch {
			case c.TT == "str" || c.TT == "bs":
				c.Keys = append(c.Keys, Key{T: c.TT, B: genContent(t, n)})
			case len(c.Keys) > 0 && rapid.Bool().Draw(t, "derive"):
				// same modulo shard, another value
				p := c.Keys[rapid.IntRange(0, len(c.Keys)-1).Draw(t, "from")]
				j := uint64(rapid.IntRange(1, 5).Draw(t, "j"))
				c.Keys = append(c.Keys, Key{T: c.TT, U: normU(c.TT, p.U+j*n)})
			default:
				c.Keys = append(c.Keys, Key{T: c.TT, U: normU(c.TT, genU(t, n))})
			}
		}
	}
	for range c.Keys {
		c.Read = append(c.Read, rapid.Bool().Draw(t, "read"))
	}
	c.Pair = rapid.IntRange(0, 2).Draw(t, "pair") == 0
	if c.Pair && c.Fam == FamTKeyLock {
		c.Multi = rapid.Bool().Draw(t, "multi")
	}
	return c
}

// lockFace is the common face of the three families.
type lockFace interface {
	acquire(k interface{}, read bool) (release func(), err error)
	// multi takes all keys with one call (generic locker only).
	multi(ks []interface{}, read bool) (release func(), ok bool)
	entries() int
	// counts: reader / writer references of the key's entry (key lockers only).
	counts(k interface{}) (r, w int, present, ok bool)
}

type anyLock struct{ l keylock.Locker }

func (a anyLock) acquire(k interface{}, read bool) (func(), error) {
	if read {
		a.l.RLock(k)
		return func() { a.l.RUnlock(k) }, nil
	}
	a.l.Lock(k)
	return func() { a.l.Unlock(k) }, nil
}
func (a anyLock) multi([]interface{}, bool) (func(), bool) { return nil, false }
func (a anyLock) entries() int                             { return keylock.VerifEntries(a.l) }
func (a anyLock) counts(k interface{}) (int, int, bool, bool) {
	r, w, p := keylock.VerifKeyCounts(a.l, k)
	return r, w, p, true
}

type tLock[T comparable] struct{ l keylock.TLocker[T] }

func (a tLock[T]) acquire(k interface{}, read bool) (func(), error) {
	key := k.(T)
	if read {
		a.l.RLock(key)
		return func() { a.l.RUnlock(key) }, nil
	}
	a.l.Lock(key)
	return func() { a.l.Unlock(key) }, nil
}
func (a tLock[T]) multi(ks []interface{}, read bool) (func(), bool) {
	keys := make([]T, len(ks))
	for i, k := range ks {
		keys[i] = k.(T)
	}
	if read {
		a.l.RLocks(keys)
		return func() { a.l.RUnlocks(keys) }, true
	}
	a.l.Locks(keys)
	return func() { a.l.Unlocks(keys) }, true
}
func (a tLock[T]) entries() int { return keylock.VerifEntries(a.l) }
func (a tLock[T]) counts(k interface{}) (int, int, bool, bool) {
	r, w, p := keylock.VerifKeyCounts(a.l, k)
	return r, w, p, true
}

type semLock struct{ m semap.SemMapper }

func (a semLock) acquire(k interface{}, read bool) (func(), error) {
	if read {
		w, err := a.m.AcquireRead(context.Background(), k)
		if err != nil {
			return nil, err
		}
		return func() { a.m.ReleaseRead(k, w) }, nil
	}
	w, err := a.m.AcquireWrite(context.Background(), k)
	if err != nil {
		return nil, err
	}
	return func() { a.m.ReleaseWrite(k, w) }, nil
}
func (a semLock) multi([]interface{}, bool) (func(), bool)  { return nil, false }
func (a semLock) entries() int                              { return semap.VerifEntries(a.m) }
func (a semLock) counts(interface{}) (int, int, bool, bool) { return 0, 0, false, false }

func mkT[T comparable](n uint64, xhash bool) (lockFace, lockFace) {
	if xhash {
		return tLock[T]{keylock.NewTXHashTKeyLockeGrp[T](remap.WithPrime(n))}, tLock[T]{keylock.NewTKeyLocker[T]()}
	}
	return tLock[T]{keylock.NewTKeyLockeGrp[T](remap.WithPrime(n))}, tLock[T]{keylock.NewTKeyLocker[T]()}
}

// mkLock builds the sharded structure and its unsharded counterpart.
func mkLock(c CaseLock) (wide, single lockFace, ctor string, ok bool) {
	n := c.Shards
	switch c.Fam {
	case FamKeyLock:
		if c.XHash {
			return anyLock{keylock.NewXHashKeyLockeGrp(remap.WithPrime(n))}, anyLock{keylock.NewKeyLocker()}, "keylock.NewXHashKeyLockeGrp", true
		}
		return anyLock{keylock.NewKeyLockeGrp(remap.WithPrime(n))}, anyLock{keylock.NewKeyLocker()}, "keylock.NewKeyLockeGrp", true
	case FamSemMap:
		if c.XHash {
			return semLock{semap.NewWideXHashSemMap(semap.WithPrime(n))}, semLock{semap.NewSemMap()}, "semap.NewWideXHashSemMap", true
		}
		return semLock{semap.NewWideSemMap(semap.WithPrime(n))}, semLock{semap.NewSemMap()}, "semap.NewWideSemMap", true
	case FamTKeyLock:
		ctor = "keylock.NewTKeyLockeGrp[" + c.TT + "]"
		if c.XHash {
			ctor = "keylock.NewTXHashTKeyLockeGrp[" + c.TT + "]"
		}
		switch c.TT {
		case "any":
			wide, single = mkT[interface{}](n, c.XHash)
		case "hit":
			wide, single = mkT[hitKey](n, c.XHash)
		case "int":
			wide, single = mkT[int](n, c.XHash)
		case "u16":
			wide, single = mkT[uint16](n, c.XHash)
		case "i64":
			wide, single = mkT[int64](n, c.XHash)
		case "u8":
			wide, single = mkT[byte](n, c.XHash)
		case "str":
			wide, single = mkT[string](n, c.XHash)
		case "bs":
			wide, single = mkT[bsKey](n, c.XHash)
		default:
			return nil, nil, "", false
		}
		return wide, single, ctor, true
	}
	return nil, nil, "", false
}

const maxLockShards = 4096

func ExecLock(c CaseLock) (res *vkit.Result) {
	res = &vkit.Result{}
	doing := "constructing"
	defer func() {
		if r := recover(); r != nil {
			res = &vkit.Result{Fail: panicFailure(r, doing)}
		}
	}()
	n := c.Shards
	if n < 1 || n > maxLockShards {
		res.Skip("shards-out-of-domain")
		return res
	}
	wide, single, ctor, ok := mkLock(c)
	if !ok {
		res.Skip("unknown-family-or-type-argument")
		return res
	}
	// usable keys: inside the domain of the constructor, of the type argument, each value once
	type lk struct {
		key  Key
		v    interface{}
		read bool
	}
	var ks []lk
	seen := map[string]bool{}
	for i, k := range c.Keys {
		v, ok := k.iface()
		switch {
		case !ok:
			res.Skip("unknown-key-type")
		case !k.hashable():
			res.Skip("unhashable-key")
		case c.XHash && !k.xhashOK():
			res.Skip("HitGroup-only-key-with-xxhash-routing")
		case c.Fam == FamTKeyLock && c.TT != "any" && k.T != c.TT:
			res.Skip("key-not-of-the-type-argument")
		case seen[keyID(k)]:
			res.Skip("duplicate-key")
		default:
			seen[keyID(k)] = true
			ks = append(ks, lk{k, v, i < len(c.Read) && c.Read[i]})
		}
	}
	where := func() string { return fmt.Sprintf("%s with %d shards", ctor, n) }
	mode := func(read bool) string {
		if read {
			return "shared"
		}
		return "exclusive"
	}
	if e := wide.entries(); e != 0 {
		return res.Failf(c.Fam+"/entries", "%s: %d entries before any call", where(), e)
	}
	// every key once: hold, look, release, look
	for _, k := range ks {
		classifyKey(res, k.key)
		doing = fmt.Sprintf("%s: single goroutine, %s acquire and release of %v, nothing else held", where(), mode(k.read), k.key)
		rel, err := wide.acquire(k.v, k.read)
		if err != nil {
			return res.Failf(c.Fam+"/acquire", "%s: %s acquire of %v on the fresh structure failed: %v", where(), mode(k.read), k.key, err)
		}
		srel, err := single.acquire(k.v, k.read)
		if err != nil {
			return res.Failf(c.Fam+"/acquire", "unsharded counterpart of %s: %s acquire of %v failed: %v", where(), mode(k.read), k.key, err)
		}
		if we, se := wide.entries(), single.entries(); we != 1 || se != 1 {
			return res.Failf(c.Fam+"/entries", "%s: while %v is held (%s) and nothing else: %d entries, the unsharded structure has %d, want 1", where(), k.key, mode(k.read), we, se)
		}
		if wr, ww, wp, has := wide.counts(k.v); has {
			sr, sw, sp, _ := single.counts(k.v)
			er, ew := 0, 1
			if k.read {
				er, ew = 1, 0
			}
			if wr != sr || ww != sw || wp != sp || wr != er || ww != ew || !wp {
				return res.Failf(c.Fam+"/counts", "%s: while %v is held (%s): entry found in the key's shard = %v with %d readers / %d writers; unsharded: %v, %d / %d", where(), k.key, mode(k.read), wp, wr, ww, sp, sr, sw)
			}
		}
		rel()
		srel()
		if we, se := wide.entries(), single.entries(); we != 0 || se != 0 {
			return res.Failf(c.Fam+"/entries", "%s: after %v was held (%s) and released: %d entries left, the unsharded structure has %d, want 0", where(), k.key, mode(k.read), we, se)
		}
		res.Class("mode=" + mode(k.read))
	}
	// two distinct keys held together. Distinct keys never wait for each other
	// in the unsharded structure; the sequence runs on a goroutine of its own and
	// is judged at quiescence, so a sharded structure that blocks here is a
	// verdict, not a hang.
	pairs := 0
	doing = where() + ": two-keys-held step"
	if c.Pair && len(ks) >= 2 {
		r, _ := instances(n)
		idx := func(v interface{}) int {
			if c.XHash {
				return r.XHashIndex(v)
			}
			return r.SimpleIndex(v)
		}
		sched := vkit.NewSched()
		for i := 0; i+1 < len(ks) && pairs < 3; i++ {
			a, b := ks[i], ks[i+1]
			pairs++
			useMulti := c.Multi && c.Fam == FamTKeyLock
			var step atomic.Int32
			var held, after int
			var aerr error
			op := sched.Go("pair", func() {
				if useMulti {
					rel, _ := wide.multi([]interface{}{a.v, b.v}, a.read)
					step.Store(2)
					held = wide.entries()
					rel()
				} else {
					ra, err := wide.acquire(a.v, a.read)
					if err != nil {
						aerr = err
						return
					}
					step.Store(1)
					rb, err := wide.acquire(b.v, b.read)
					if err != nil {
						aerr = err
						return
					}
					step.Store(2)
					held = wide.entries()
					rb()
					ra()
				}
				step.Store(3)
				after = wide.entries()
			})
			sched.MustQuiesce()
			what := fmt.Sprintf("%v (%s) then %v (%s), distinct keys", a.key, mode(a.read), b.key, mode(b.read))
			if useMulti {
				what = fmt.Sprintf("one %s multi-key call for %v and %v, distinct keys", mode(a.read), a.key, b.key)
			}
			if p := op.Panic(); p != nil {
				return res.Failf("panic", "%s: %s: panic after step %d: %v", where(), what, step.Load(), p)
			}
			if !op.Done() {
				return res.Failf(c.Fam+"/pair-blocked", "%s: %s: the only goroutine is parked after step %d (1 = first key held) - the unsharded structure never makes distinct keys wait for each other", where(), what, step.Load())
			}
			if aerr != nil {
				return res.Failf(c.Fam+"/acquire", "%s: %s: acquire failed after step %d: %v", where(), what, step.Load(), aerr)
			}
			if held != 2 || after != 0 {
				return res.Failf(c.Fam+"/entries", "%s: %s: %d entries while both are held (want 2), %d after both were released (want 0)", where(), what, held, after)
			}
			if idx(a.v) == idx(b.v) {
				res.Class("pair-on-one-shard")
			} else {
				res.Class("pair-on-two-shards")
			}
			if useMulti {
				res.Class("pair-by-one-multi-key-call")
			}
		}
	}
	res.Class("family=" + c.Fam)
	if c.Fam == FamTKeyLock {
		res.Class("type-argument=" + c.TT)
	}
	if c.XHash {
		res.Class("routing=xxhash")
	} else {
		res.Class("routing=modulo")
	}
	lab := "shards=other"
	for _, d := range lockShards {
		if d == n {
			lab = fmt.Sprintf("shards=%d", n)
		}
	}
	res.Class(lab)
	res.NonTrivial = n >= 2 && len(ks) >= 1
	return res
}

var PartLock = &vkit.Part[CaseLock]{
	Property: Property, Name: "locks",
	Rule:  "rapid: family (keylock.KeyLockerGrp | generic keylock.TKeyLockerGrp[T] with T in {interface{}, HitGroup-only struct, int, uint16, int64, byte, string, Bs struct} | semap.WideSemMap) x modulo|xxhash constructor x shard count ({1,2,3,73,211,257,1000} at 90%, any of 1..512) x 1-6 keys (as in part index without []byte; HitGroup-only keys with the modulo constructors only; a HitGroup-only or Bs key forced in half of the untyped cases; for integer type arguments half of the keys are an earlier key plus j*shards: same shard, another value) x shared|exclusive per key. One goroutine holds and releases each key once on the sharded structure and on its unsharded counterpart (KeyLocker / TKeyLocker[T] / SemMap): no panic, no error, the verif hooks read 1 entry (key lockers: in the key's own shard, with 1 reader or 1 writer) while held and 0 afterwards on both. In a third of the cases up to 3 pairs of consecutive distinct keys are then held together (two calls, or one Locks/RLocks call on the generic locker) on a goroutine of their own under a vkit.Sched: at quiescence the sequence must have returned (distinct keys never wait for each other), with 2 entries while held and 0 afterwards. Contention, fairness and exclusion are C01/C02's. Non-trivial: shards >= 2 and at least one usable key; distinct = distinct case JSON",
	Quick: 2500, Thorough: 5000,
	Gen: GenLock, Exec: ExecLock,
}
