// Package c17remap decides property C17: the shard index of every supported
// key is deterministic and lies in [0, shards) for every shard count, the hash
// partition is monotone and covers the whole 64-bit range, and consequently the
// sharded map / LRU caches answer every request exactly as the unsharded
// structures do (capacity aside).
//
// Concurrent use of the sharded containers and of the index functions is in
// c17_conc.go (disjoint keys per goroutine) and c17_shared.go (shared keys and
// bystanders); absolute known answers (the same index in every process) in
// c17_known.go. The lock clause is covered as far as routing goes by
// c17_lock.go (every key can be held and released through every constructor,
// the sharded structures keep the entries the unsharded ones keep); blocking,
// exclusion and fairness of the lock and semaphore variants are decided by
// C01/C02, which run their full oracles on the sharded variants.
package c17remap

import (
	"encoding/binary"
	"fmt"
	"math"
	"reflect"
	"runtime"
	"sort"
	"strings"
	"sync"

	"github.com/pinealctx/neptune/cache"
	"github.com/pinealctx/neptune/cache/tiny"
	"github.com/pinealctx/neptune/remap"
	"pgregory.net/rapid"

	"verifharness/vkit"
)

const Property = "C17"

// ---------------------------------------------------------------------------
// shard counts

// designShards are the shard counts of DESIGN §3 C17: 1, small primes and
// non-primes, a power of two, the default 73, and the largest 16-bit prime.
var designShards = []uint64{1, 2, 3, 4, 7, 64, 73, 100, 211, 65521}

const maxShards = 1 << 17 // executors refuse larger counts (allocation bound)

// genShards draws a shard count: mostly the design list, sometimes any count in
// 1..512 (or 509..4096 in the container parts). rareBig lowers the weight of 65521 (container parts build that many
// shards per case).
func genShards(t *rapid.T, rareBig bool) uint64 {
	// the small design counts come first so that shrinking moves towards them
	k := rapid.IntRange(0, 19).Draw(t, "shardsKind")
	switch {
	case k <= 15:
		return rapid.SampledFrom(designShards[:len(designShards)-1]).Draw(t, "shards")
	case k <= 17:
		return uint64(rapid.IntRange(1, 512).Draw(t, "shardsAny"))
	case k == 18 && rareBig:
		return uint64(rapid.SampledFrom([]int{509, 1000, 1024, 4096}).Draw(t, "shardsMid"))
	}
	return 65521
}

var (
	bigMu    sync.Mutex
	bigCache = map[uint64][2]*remap.ReMap{}
)

// instances returns two independently constructed ReMap instances with n
// shards. For n == 73 the second one is built without options (the documented
// default). Large instances are cached (they are immutable after construction;
// building 65521 boundaries per case would dominate the run).
func instances(n uint64) (*remap.ReMap, *remap.ReMap) {
	mk := func() (*remap.ReMap, *remap.ReMap) {
		a := remap.NewReMap(remap.WithPrime(n))
		if n == remap.DefaultPrime {
			return a, remap.NewReMap()
		}
		return a, remap.NewReMap(remap.WithPrime(n))
	}
	if n <= 512 {
		return mk()
	}
	bigMu.Lock()
	defer bigMu.Unlock()
	if p, ok := bigCache[n]; ok {
		return p[0], p[1]
	}
	a, b := mk()
	bigCache[n] = [2]*remap.ReMap{a, b}
	return a, b
}

func shardClass(n uint64) string {
	for _, d := range designShards {
		if d == n {
			return fmt.Sprintf("shards=%d", n)
		}
	}
	return "shards=other"
}

// ---------------------------------------------------------------------------
// keys as data

// Key is a key of one of the dynamic types the routing functions support.
// T names the type; U is the 64-bit pattern of an integer key (it is truncated
// to the width of T) or the Hit() value of a HitGroup key; B is the content of
// a string / []byte / Bs key (bytes, so that any content survives JSON).
type Key struct {
	T string `json:"t"`
	U uint64 `json:"u,omitempty"`
	B []byte `json:"b,omitempty"`
}

// hitKey implements remap.HitGroup only: supported by SimpleIndex, documented
// as unsupported by XHashIndex (it panics "unsupported type").
type hitKey struct{ H uint64 }

func (h hitKey) Hit() uint64 { return h.H }

// bsKey implements remap.Bs only (hashable: usable as a map key).
type bsKey struct{ S string }

func (b bsKey) ToBytes() []byte { return []byte(b.S) }

var (
	intTypes    = []string{"u8", "i8", "i16", "u16", "i32", "u32", "i64", "u64", "int", "uint"}
	signedWidth = map[string]uint{"i8": 8, "i16": 16, "i32": 32, "i64": 64, "int": 64}
	unsignWidth = map[string]uint{"u8": 8, "u16": 16, "u32": 32, "u64": 64, "uint": 64}
)

func isInt(t string) bool { return signedWidth[t] != 0 || unsignWidth[t] != 0 }

// normU truncates / sign-extends U to the width of T so that the case reads as
// the value that is actually used.
func normU(t string, u uint64) uint64 {
	if w := signedWidth[t]; w != 0 {
		sh := 64 - w
		return uint64(int64(u<<sh) >> sh)
	}
	if w := unsignWidth[t]; w != 0 {
		sh := 64 - w
		return u << sh >> sh
	}
	return u
}

// iface builds the dynamic value. ok=false: unknown type tag (hand-edited or
// oddly shrunk case).
func (k Key) iface() (v interface{}, ok bool) {
	switch k.T {
	case "u8":
		return byte(k.U), true
	case "i8":
		return int8(k.U), true
	case "i16":
		return int16(k.U), true
	case "u16":
		return uint16(k.U), true
	case "i32":
		return int32(k.U), true
	case "u32":
		return uint32(k.U), true
	case "i64":
		return int64(k.U), true
	case "u64":
		return k.U, true
	case "int":
		return int(k.U), true
	case "uint":
		return uint(k.U), true
	case "str":
		return string(k.B), true
	case "bytes":
		return k.B, true
	case "hit":
		return hitKey{k.U}, true
	case "bs":
		return bsKey{string(k.B)}, true
	}
	return nil, false
}

func (k Key) String() string {
	switch {
	case signedWidth[k.T] != 0:
		return fmt.Sprintf("%s(%d)", k.T, int64(normU(k.T, k.U)))
	case unsignWidth[k.T] != 0:
		return fmt.Sprintf("%s(%d)", k.T, normU(k.T, k.U))
	case k.T == "hit":
		return fmt.Sprintf("HitGroup{Hit()=%d}", k.U)
	case k.T == "str":
		return fmt.Sprintf("string(%q)", trunc(k.B))
	case k.T == "bytes":
		return fmt.Sprintf("[]byte(%q)", trunc(k.B))
	case k.T == "bs":
		return fmt.Sprintf("Bs{ToBytes()=%q}", trunc(k.B))
	}
	return fmt.Sprintf("?%s", k.T)
}

func trunc(b []byte) []byte {
	if len(b) > 40 {
		return append(append([]byte{}, b[:40]...), "..."...)
	}
	return b
}

// hashable: usable as a Go map key (the containers' precondition).
func (k Key) hashable() bool { return k.T != "bytes" }

// xhashOK: inside the documented domain of XHashIndex / ToBytes.
func (k Key) xhashOK() bool { return k.T != "hit" }

// nonNegInt reports the mathematical value of an integer key when it is >= 0.
func (k Key) nonNegInt() (uint64, bool) {
	if unsignWidth[k.T] != 0 {
		return normU(k.T, k.U), true
	}
	if signedWidth[k.T] != 0 {
		v := int64(normU(k.T, k.U))
		if v >= 0 {
			return uint64(v), true
		}
	}
	return 0, false
}

// ---------------------------------------------------------------------------
// key generators

var edgeU64 = []uint64{
	0, 1, 2, 127, 128, 129, 255, 256, 32767, 32768, 65535, 65536,
	1<<31 - 1, 1 << 31, 1<<32 - 1, 1 << 32, 1<<32 + 5, 1<<63 - 1, 1 << 63, 1<<63 + 1,
	math.MaxUint64, math.MaxUint64 - 1,
	0x80, 0x8000, 0x80000000, 0x7f, 0x7fff, 0x7fffffff, // min / max of the narrow signed types after truncation
	0xffffffffffffff80, 0xffffffffffff8000, 0xffffffff80000000,
}

// genU draws a 64-bit pattern: type extremes, values around multiples of the
// shard count, small negatives, uniform.
func genU(t *rapid.T, n uint64) uint64 {
	switch rapid.IntRange(0, 5).Draw(t, "ukind") {
	case 0, 1:
		return rapid.SampledFrom(edgeU64).Draw(t, "uedge")
	case 2: // around a multiple of the shard count
		m := uint64(rapid.IntRange(0, 1000).Draw(t, "umul"))
		return m*n + uint64(rapid.IntRange(-1, 1).Draw(t, "uoff"))
	case 3: // small negative
		return uint64(-int64(rapid.IntRange(1, 300).Draw(t, "uneg")))
	case 4: // negative multiple of the shard count +-1
		m := int64(rapid.IntRange(1, 1000).Draw(t, "unmul"))
		return uint64(-m*int64(n) + int64(rapid.IntRange(-1, 1).Draw(t, "unoff")))
	default:
		return rapid.Uint64().Draw(t, "urand")
	}
}

func genContent(t *rapid.T, n uint64) []byte {
	switch rapid.IntRange(0, 6).Draw(t, "bkind") {
	case 0:
		return nil
	case 1:
		return []byte{rapid.Byte().Draw(t, "b1")}
	case 2: // the 8-byte little-endian image of an integer: aliases the hash of that int64/uint64 key
		var buf [8]byte
		binary.LittleEndian.PutUint64(buf[:], genU(t, n))
		return buf[:]
	case 3:
		return []byte(fmt.Sprintf("%d", int64(genU(t, n))))
	case 4:
		return rapid.SliceOfN(rapid.Byte(), 64, 300).Draw(t, "blong")
	case 5:
		return []byte(rapid.StringN(1, 12, 40).Draw(t, "bstr"))
	default:
		return rapid.SliceOfN(rapid.Byte(), 1, 16).Draw(t, "bshort")
	}
}

// genKey draws one key. bytesOK / hitOK restrict the type to the domain of the
// routing function / container under test.
func genKey(t *rapid.T, n uint64, bytesOK, hitOK bool) Key {
	for {
		c := rapid.IntRange(0, 19).Draw(t, "kcat")
		switch {
		case c < 10:
			ty := rapid.SampledFrom(intTypes).Draw(t, "ktype")
			return Key{T: ty, U: normU(ty, genU(t, n))}
		case c < 13:
			return Key{T: "str", B: genContent(t, n)}
		case c < 15:
			if !bytesOK {
				continue
			}
			return Key{T: "bytes", B: genContent(t, n)}
		case c < 18:
			if !hitOK {
				continue
			}
			return Key{T: "hit", U: genU(t, n)}
		default:
			return Key{T: "bs", B: genContent(t, n)}
		}
	}
}

// genKeys draws a list of keys in which related keys are constructed on
// purpose: the same integer plus a multiple of the shard count (same shard
// under modulo routing), the same value in another integer type (distinct Go
// map key, same modulo shard), the same content as string / []byte / Bs.
func genKeys(t *rapid.T, n uint64, lo, hi int, bytesOK, hitOK bool) []Key {
	cnt := rapid.IntRange(lo, hi).Draw(t, "nkeys")
	keys := make([]Key, 0, cnt)
	for len(keys) < cnt {
		if len(keys) > 0 && rapid.IntRange(0, 2).Draw(t, "derive") == 0 {
			p := keys[rapid.IntRange(0, len(keys)-1).Draw(t, "from")]
			switch {
			case isInt(p.T) || p.T == "hit":
				if rapid.Bool().Draw(t, "plusN") {
					j := uint64(rapid.IntRange(1, 5).Draw(t, "j"))
					keys = append(keys, Key{T: p.T, U: normU(p.T, p.U+j*n)})
				} else {
					tys := intTypes
					if hitOK {
						tys = append(append([]string{}, intTypes...), "hit")
					}
					ty := rapid.SampledFrom(tys).Draw(t, "retype")
					keys = append(keys, Key{T: ty, U: normU(ty, p.U)})
				}
			default:
				tys := []string{"str", "bs"}
				if bytesOK {
					tys = append(tys, "bytes")
				}
				keys = append(keys, Key{T: rapid.SampledFrom(tys).Draw(t, "recontent"), B: p.B})
			}
			continue
		}
		keys = append(keys, genKey(t, n, bytesOK, hitOK))
	}
	return keys
}

func typeCount(keys []Key) int {
	seen := map[string]bool{}
	for _, k := range keys {
		seen[k.T] = true
	}
	return len(seen)
}

func classifyKey(res *vkit.Result, k Key) {
	switch {
	case signedWidth[k.T] != 0:
		v := int64(normU(k.T, k.U))
		w := signedWidth[k.T]
		switch {
		case v == -1<<(w-1):
			res.Class("int-min-of-type")
		case v == 1<<(w-1)-1:
			res.Class("int-max-of-type")
		}
		if v < 0 {
			res.Class("negative-int")
		} else {
			res.Class("nonneg-signed-int")
		}
	case unsignWidth[k.T] != 0:
		v := normU(k.T, k.U)
		w := unsignWidth[k.T]
		if v == math.MaxUint64>>(64-w) {
			res.Class("uint-max-of-type")
		}
		if v >= 1<<63 {
			res.Class("uint>=2^63")
		}
		res.Class("unsigned-int")
	case k.T == "hit":
		res.Class("HitGroup-only(SimpleIndex only)")
		if k.U >= 1<<63 {
			res.Class("Hit()>=2^63")
		}
	case k.T == "str":
		res.Class("string")
		if len(k.B) == 0 {
			res.Class("empty-content")
		}
	case k.T == "bytes":
		res.Class("[]byte")
		if len(k.B) == 0 {
			res.Class("empty-content")
		}
	case k.T == "bs":
		res.Class("Bs-implementer")
		if len(k.B) == 0 {
			res.Class("empty-content")
		}
	}
	res.Class("type=" + k.T)
}

// ---------------------------------------------------------------------------
// the independent statement of the documented partition
//
// NewReMap documents: y = MaxUint64 / shards, boundary_i = y*(i+1) ascending,
// the last boundary forced to MaxUint64; SearchIndex(x) = index of the first
// boundary >= x. Hence for x >= 1 the index is ceil(x/y)-1 = (x-1)/y, capped
// at shards-1 (everything above boundary_{shards-2} belongs to the last shard),
// and 0 for x = 0.

func refIndex(n, x uint64) int {
	if x == 0 {
		return 0
	}
	y := math.MaxUint64 / n
	i := (x - 1) / y
	if i > n-1 {
		i = n - 1
	}
	return int(i)
}

// refBoundaries writes the boundaries down literally.
func refBoundaries(n uint64) []uint64 {
	y := math.MaxUint64 / n
	b := make([]uint64, n)
	for i := uint64(0); i < n; i++ {
		b[i] = y * (i + 1)
	}
	b[n-1] = math.MaxUint64
	return b
}

// ---------------------------------------------------------------------------
// part 1: index functions over keys

type CaseIndex struct {
	Shards uint64 `json:"shards"`
	Keys   []Key  `json:"keys"`
}

func GenIndex(t *rapid.T) CaseIndex {
	n := genShards(t, false)
	return CaseIndex{Shards: n, Keys: genKeys(t, n, 2, 10, true, true)}
}

func ExecIndex(c CaseIndex) *vkit.Result {
	res := &vkit.Result{}
	n := c.Shards
	if n < 1 || n > maxShards {
		res.Skip("shards-out-of-domain")
		return res
	}
	r1, r2 := instances(n)
	if r1.Numbs() != n || r2.Numbs() != n {
		return res.Failf("Numbs", "NewReMap(WithPrime(%d)).Numbs() = %d / %d", n, r1.Numbs(), r2.Numbs())
	}
	if n == remap.DefaultPrime {
		res.Class("default-instance(NewReMap())")
	}
	type obs struct{ simple, xhash int }
	first := make([]obs, len(c.Keys))
	// retention: ToBytes is exported and hands a byte slice to its caller; the
	// slices of earlier keys are kept, re-read after later calls and compared with
	// the copy taken when they were returned (the library must not write to a
	// slice it has handed out).
	type keptBytes struct {
		key       int
		got, copy []byte
	}
	var kept []keptBytes
	checkKept := func(when string) bool {
		for _, kb := range kept {
			if string(kb.got) != string(kb.copy) {
				res.Failf("ToBytes/retained", "%d shards: the slice ToBytes(%v) returned read %x when it was returned and reads %x %s (keys of the case: %v)", n, c.Keys[kb.key], kb.copy, kb.got, when, c.Keys)
				return false
			}
		}
		return true
	}
	valid := make([]bool, len(c.Keys))
	shardsSeen := map[int][]int{}
	for i, k := range c.Keys {
		v, ok := k.iface()
		if !ok {
			res.Skip("unknown-key-type")
			continue
		}
		valid[i] = true
		classifyKey(res, k)
		// SimpleIndex: every supported key
		s := r1.SimpleIndex(v)
		first[i].simple = s
		if s < 0 || uint64(s) >= n {
			return res.Failf("SimpleIndex/range", "SimpleIndex(%v) with %d shards = %d, outside [0,%d)", k, n, s, n)
		}
		if s2 := r2.SimpleIndex(v); s2 != s {
			return res.Failf("SimpleIndex/instance", "SimpleIndex(%v) with %d shards = %d on one instance, %d on another", k, n, s, s2)
		}
		if val, ok := k.nonNegInt(); ok {
			if want := int(val % n); s != want {
				return res.Failf("SimpleIndex/modulo", "SimpleIndex(%v) with %d shards = %d, want %d mod %d = %d", k, n, s, val, n, want)
			}
		}
		if k.T == "hit" {
			if want := int(k.U % n); s != want {
				return res.Failf("SimpleIndex/hit-modulo", "SimpleIndex(%v) with %d shards = %d, want Hit() mod %d = %d", k, n, s, n, want)
			}
		}
		shardsSeen[s] = append(shardsSeen[s], i)
		// XHashIndex: its documented domain only
		first[i].xhash = -1
		if k.xhashOK() {
			x := r1.XHashIndex(v)
			first[i].xhash = x
			if x < 0 || uint64(x) >= n {
				return res.Failf("XHashIndex/range", "XHashIndex(%v) with %d shards = %d, outside [0,%d)", k, n, x, n)
			}
			if x2 := r2.XHashIndex(v); x2 != x {
				return res.Failf("XHashIndex/instance", "XHashIndex(%v) with %d shards = %d on one instance, %d on another", k, n, x, x2)
			}
			h := remap.XXHash(v)
			if h2 := remap.XXHash(v); h2 != h {
				return res.Failf("XXHash/unstable", "XXHash(%v) = %d, then %d", k, h, h2)
			}
			if want := refIndex(n, h); x != want {
				return res.Failf("XHashIndex/partition", "XHashIndex(%v) with %d shards = %d, but its hash %d lies in part %d of the documented partition", k, n, x, h, want)
			}
			b := remap.ToBytes(v)
			kept = append(kept, keptBytes{i, b, append([]byte(nil), b...)})
			if len(kept) >= 2 {
				res.Class("ToBytes-results-retained-across-calls")
			}
		}
	}
	if !checkKept("after the index functions and ToBytes were called on the later keys") {
		return res
	}
	// stability: the same answers after all the other keys have been looked up
	for i, k := range c.Keys {
		if !valid[i] {
			continue
		}
		v, _ := k.iface()
		if s := r1.SimpleIndex(v); s != first[i].simple {
			return res.Failf("SimpleIndex/unstable", "SimpleIndex(%v) with %d shards = %d, later %d", k, n, first[i].simple, s)
		}
		if k.xhashOK() {
			if x := r1.XHashIndex(v); x != first[i].xhash {
				return res.Failf("XHashIndex/unstable", "XHashIndex(%v) with %d shards = %d, later %d", k, n, first[i].xhash, x)
			}
		}
	}
	if !checkKept("after all keys were routed a second time") {
		return res
	}
	for _, idx := range shardsSeen {
		if len(idx) >= 2 {
			res.Class("two-keys-same-modulo-shard")
			break
		}
	}
	if len(shardsSeen) >= 2 {
		res.Class("keys-in-different-shards")
	}
	res.Class(shardClass(n))
	var validKeys []Key
	for i, k := range c.Keys {
		if valid[i] {
			validKeys = append(validKeys, k)
		}
	}
	res.NonTrivial = n >= 2 && typeCount(validKeys) >= 2
	return res
}

// ---------------------------------------------------------------------------
// part 2: the partition of the 64-bit range (SearchIndex)

type CaseSearch struct {
	Shards uint64   `json:"shards"`
	Xs     []uint64 `json:"xs"`
}

func GenSearch(t *rapid.T) CaseSearch {
	n := genShards(t, false)
	y := uint64(math.MaxUint64) / n
	cnt := rapid.IntRange(3, 16).Draw(t, "nx")
	c := CaseSearch{Shards: n}
	boundary := func(i uint64) uint64 {
		if i >= n-1 {
			return math.MaxUint64
		}
		return y * (i + 1)
	}
	for len(c.Xs) < cnt {
		switch rapid.IntRange(0, 9).Draw(t, "xkind") {
		case 0:
			c.Xs = append(c.Xs, rapid.SampledFrom([]uint64{0, 1, 2, math.MaxUint64, math.MaxUint64 - 1, 1 << 63, 1<<63 - 1}).Draw(t, "xedge"))
		case 1, 2, 3, 4: // adjacent to a boundary: first, last two, or any
			var i uint64
			switch rapid.IntRange(0, 3).Draw(t, "bsel") {
			case 0:
				i = 0
			case 1:
				i = n - 1
			case 2:
				if n >= 2 {
					i = n - 2
				}
			default:
				i = rapid.Uint64Range(0, n-1).Draw(t, "bi")
			}
			d := uint64(rapid.IntRange(-2, 2).Draw(t, "bd"))
			c.Xs = append(c.Xs, boundary(i)+d) // wraps around at MaxUint64 on purpose
		case 5: // around where the last boundary would be if it were not forced to MaxUint64
			c.Xs = append(c.Xs, y*n+uint64(rapid.IntRange(-1, 2).Draw(t, "ud")))
		case 6: // strictly inside a drawn part
			i := rapid.Uint64Range(0, n-1).Draw(t, "pi")
			c.Xs = append(c.Xs, y*i+rapid.Uint64Range(0, y).Draw(t, "poff"))
		default:
			c.Xs = append(c.Xs, rapid.Uint64().Draw(t, "xrand"))
		}
	}
	return c
}

// checkSearchBasics: range, the two ends.
func checkSearchEnds(res *vkit.Result, r *remap.ReMap, n uint64) bool {
	if g := r.SearchIndex(0); g != 0 {
		res.Failf("SearchIndex/zero", "%d shards: SearchIndex(0) = %d, want 0", n, g)
		return false
	}
	if g := r.SearchIndex(math.MaxUint64); g != int(n-1) {
		res.Failf("SearchIndex/max", "%d shards: SearchIndex(MaxUint64) = %d, want shards-1 = %d", n, g, n-1)
		return false
	}
	return true
}

func ExecSearch(c CaseSearch) *vkit.Result {
	res := &vkit.Result{}
	n := c.Shards
	if n < 1 || n > maxShards {
		res.Skip("shards-out-of-domain")
		return res
	}
	r1, r2 := instances(n)
	if !checkSearchEnds(res, r1, n) {
		return res
	}
	y := uint64(math.MaxUint64) / n
	got := make([]int, len(c.Xs))
	adjacent := false
	for j, x := range c.Xs {
		g := r1.SearchIndex(x)
		got[j] = g
		if g < 0 || uint64(g) >= n {
			return res.Failf("SearchIndex/range", "%d shards: SearchIndex(%d) = %d, outside [0,%d)", n, x, g, n)
		}
		if g2 := r2.SearchIndex(x); g2 != g {
			return res.Failf("SearchIndex/instance", "%d shards: SearchIndex(%d) = %d on one instance, %d on another", n, x, g, g2)
		}
		if want := refIndex(n, x); g != want {
			return res.Failf("SearchIndex/first-boundary", "%d shards (y=%d): SearchIndex(%d) = %d, the first documented boundary >= x is number %d", n, y, x, g, want)
		}
		// classification: distance to the nearest boundary separating two parts
		if n >= 2 && x >= 1 {
			i := (x - 1) / y // part of x if uncapped
			lower := y * i   // boundary below (or 0)
			upper := y * (i + 1)
			if i >= 1 && i <= n-1 && x-lower <= 1 {
				adjacent = true
				res.Class("x=boundary+1")
			}
			if i < n-1 && upper-x <= 1 {
				adjacent = true
				if upper == x {
					res.Class("x=boundary")
				} else {
					res.Class("x=boundary-1")
				}
			}
			if x >= y*n {
				res.Class("x-at-or-above-unforced-last-boundary")
			}
		}
		if x == 0 || x == math.MaxUint64 {
			res.Class("x-at-end-of-range")
		}
	}
	// monotone: sorted inputs give non-decreasing indices
	ord := make([]int, len(c.Xs))
	for i := range ord {
		ord[i] = i
	}
	sort.SliceStable(ord, func(a, b int) bool { return c.Xs[ord[a]] < c.Xs[ord[b]] })
	for k := 1; k < len(ord); k++ {
		a, b := ord[k-1], ord[k]
		if got[a] > got[b] {
			return res.Failf("SearchIndex/monotone", "%d shards: SearchIndex(%d) = %d > SearchIndex(%d) = %d", n, c.Xs[a], got[a], c.Xs[b], got[b])
		}
	}
	res.Class(shardClass(n))
	res.NonTrivial = adjacent
	return res
}

// ---------------------------------------------------------------------------
// part 3: complete boundary grid per shard count

type CaseGrid struct {
	Shards uint64 `json:"shards"`
}

// GridCases: every shard count 1..256, the design list, and counts that do /
// do not divide MaxUint64 (257, 641, 65537 do: the forced last boundary then
// coincides with the computed one).
func GridCases() []CaseGrid {
	var cs []CaseGrid
	seen := map[uint64]bool{}
	add := func(n uint64) {
		if !seen[n] {
			seen[n] = true
			cs = append(cs, CaseGrid{n})
		}
	}
	for n := uint64(1); n <= 256; n++ {
		add(n)
	}
	for _, n := range designShards {
		add(n)
	}
	for _, n := range []uint64{257, 509, 641, 1000, 1024, 4096, 10007, 65535, 65536, 65537} {
		add(n)
	}
	return cs
}

func ExecGrid(c CaseGrid) *vkit.Result {
	res := &vkit.Result{}
	n := c.Shards
	if n < 1 || n > maxShards {
		res.Skip("shards-out-of-domain")
		return res
	}
	r, _ := instances(n)
	if !checkSearchEnds(res, r, n) {
		return res
	}
	b := refBoundaries(n)
	hit := make([]bool, n)
	prev := 0
	probe := func(x uint64, want int, what string) bool {
		g := r.SearchIndex(x)
		if g < 0 || uint64(g) >= n {
			res.Failf("SearchIndex/range", "%d shards: SearchIndex(%d) = %d, outside [0,%d)", n, x, g, n)
			return false
		}
		if g != want {
			res.Failf("SearchIndex/first-boundary", "%d shards: SearchIndex(%s = %d) = %d, the first documented boundary >= x is number %d", n, what, x, g, want)
			return false
		}
		if n <= 211 { // literal scan as a second statement of "first boundary >= x"
			lit := 0
			for lit < len(b) && b[lit] < x {
				lit++
			}
			if g != lit {
				res.Failf("SearchIndex/first-boundary", "%d shards: SearchIndex(%d) = %d, literal scan of the documented boundaries gives %d", n, x, g, lit)
				return false
			}
		}
		if g < prev {
			res.Failf("SearchIndex/monotone", "%d shards: SearchIndex(%d) = %d after a smaller x gave %d", n, x, g, prev)
			return false
		}
		prev = g
		hit[g] = true
		return true
	}
	// probes are issued in ascending order of x (boundaries are > 2 apart)
	for i := uint64(0); i < n; i++ {
		if i > 0 && b[i]-b[i-1] < 3 {
			res.Skip("boundaries-too-close")
			return res
		}
		if !probe(b[i]-1, int(i), fmt.Sprintf("boundary_%d-1", i)) ||
			!probe(b[i], int(i), fmt.Sprintf("boundary_%d", i)) {
			return res
		}
		if i < n-1 && !probe(b[i]+1, int(i+1), fmt.Sprintf("boundary_%d+1", i)) {
			return res
		}
	}
	for i, h := range hit {
		if !h {
			return res.Failf("SearchIndex/coverage", "%d shards: no probed hash maps to shard %d", n, i)
		}
	}
	if math.MaxUint64%n == 0 {
		res.Class("shards-divide-MaxUint64")
	} else {
		res.Class("last-boundary-forced-above-computed")
	}
	if n <= 211 {
		res.Class("literal-scan-cross-check")
	}
	res.NonTrivial = n >= 2
	return res
}

// ---------------------------------------------------------------------------
// parts 4-6: sharded container == unsharded container on the same history

const (
	OpSet    = "set"
	OpGet    = "get"
	OpExist  = "exist"
	OpDelete = "delete"
	OpPeek   = "peek" // LRU only
)

type Op struct {
	Kind string `json:"op"`
	K    int    `json:"k"`           // index into Keys
	V    int    `json:"v,omitempty"` // value to set
	Sz   int    `json:"sz,omitempty"`
	// VK is the kind of value a Set on the map family stores (the map takes any
	// interface{}): "" the int V, "nil" the nil interface, "zero" the zero value
	// of a type chosen by V, "slice" / "map" a value of an uncomparable dynamic
	// type, "same" the identical value the key holds already (the int V if it
	// holds none).
	VK string `json:"vk,omitempty"`
	// I is the container the call goes to: 0 the first one, j the j-th of
	// CaseHist.More (the first one while that one is not built yet).
	I int `json:"i,omitempty"`
}

const (
	VKNil   = "nil"
	VKZero  = "zero"
	VKSlice = "slice"
	VKMap   = "map"
	VKSame  = "same"
)

// opValue builds the value of a Set on the map family and on tiny.LRU (both
// take any interface{}).
func opValue(op Op) interface{} {
	switch op.VK {
	case VKNil:
		return nil
	case VKZero:
		switch op.V % 5 {
		case 0:
			return ""
		case 1:
			return false
		case 2:
			return struct{}{}
		case 3:
			return 0.0
		default:
			return (*int)(nil)
		}
	case VKSlice:
		if op.V == 0 {
			return []int(nil)
		}
		return []int{op.V}
	case VKMap:
		return map[string]int{"v": op.V}
	}
	return op.V
}

// sameValue: the two containers were handed the identical value, so they must
// hand back the identical value: equal under == where the dynamic type allows
// it, the same backing store for slices and maps.
func sameValue(a, b interface{}) bool {
	if a == nil || b == nil {
		return a == nil && b == nil
	}
	ta, tb := reflect.TypeOf(a), reflect.TypeOf(b)
	if ta != tb {
		return false
	}
	if ta.Comparable() {
		return a == b
	}
	va, vb := reflect.ValueOf(a), reflect.ValueOf(b)
	switch ta.Kind() {
	case reflect.Slice:
		return va.Len() == vb.Len() && va.IsNil() == vb.IsNil() && (va.Len() == 0 || va.Pointer() == vb.Pointer())
	case reflect.Map:
		return va.Pointer() == vb.Pointer()
	}
	return reflect.DeepEqual(a, b)
}

type CaseHist struct {
	Shards uint64 `json:"shards"`
	XHash  bool   `json:"xhash"`
	Keys   []Key  `json:"keys"`
	Ops    []Op   `json:"ops"`
	// More: further sharded containers of the same family (each with an unsharded
	// twin of its own) that are built in the middle of the history and used
	// interleaved with the first one. Containers are independent objects: building
	// or using one must not change what another one answers.
	More []Inst `json:"more,omitempty"`
}

// Inst is one further container of a history: built immediately before
// operation number At (before the final sweep if At is beyond the last one).
type Inst struct {
	Shards uint64 `json:"shards"`
	XHash  bool   `json:"xhash"`
	At     int    `json:"at"`
}

// genMore draws 0 (mostly), 1 or 2 further instances with small shard counts.
func genMore(t *rapid.T, nops int) []Inst {
	var more []Inst
	cnt := 0
	switch k := rapid.IntRange(0, 11).Draw(t, "instances"); {
	case k >= 11:
		cnt = 2
	case k >= 7:
		cnt = 1
	}
	for j := 0; j < cnt; j++ {
		in := Inst{XHash: rapid.Bool().Draw(t, "xhash2"), At: rapid.IntRange(0, nops).Draw(t, "builtAt")}
		if rapid.IntRange(0, 3).Draw(t, "shards2Kind") == 0 {
			in.Shards = uint64(rapid.IntRange(1, 512).Draw(t, "shards2Any"))
		} else {
			in.Shards = rapid.SampledFrom(designShards[:len(designShards)-1]).Draw(t, "shards2")
		}
		more = append(more, in)
	}
	return more
}

func genHist(t *rapid.T, lru bool) CaseHist {
	n := genShards(t, true)
	c := CaseHist{Shards: n, XHash: rapid.Bool().Draw(t, "xhash")}
	nops := rapid.IntRange(5, 40).Draw(t, "nops")
	c.More = genMore(t, nops)
	hitOK := !c.XHash
	for _, in := range c.More {
		hitOK = hitOK && !in.XHash
	}
	c.Keys = genKeys(t, n, 2, 8, false, hitOK)
	for i := 0; i < nops; i++ {
		op := Op{K: rapid.IntRange(0, len(c.Keys)-1).Draw(t, "k")}
		if len(c.More) > 0 {
			op.I = rapid.IntRange(0, len(c.More)).Draw(t, "inst")
		}
		w := rapid.IntRange(0, 19).Draw(t, "opkind")
		switch {
		case w < 7:
			op.Kind = OpSet
			op.V = rapid.IntRange(0, 5).Draw(t, "v")
			if lru {
				op.Sz = rapid.IntRange(0, 3).Draw(t, "sz")
			}
			// the plain int comes first: shrinking moves towards it
			op.VK = rapid.SampledFrom([]string{"", "", "", "", "", "", VKNil, VKZero, VKSlice, VKMap, VKSame, VKSame}).Draw(t, "vkind")
		case w < 12:
			op.Kind = OpGet
		case w < 15:
			op.Kind = OpExist
		case w < 18 || !lru:
			op.Kind = OpDelete
		default:
			op.Kind = OpPeek
		}
		c.Ops = append(c.Ops, op)
	}
	return c
}

func GenHistMap(t *rapid.T) CaseHist { return genHist(t, false) }
func GenHistLRU(t *rapid.T) CaseHist { return genHist(t, true) }

// store is the common face of the three container families. Delete reports
// (existed, hasResult).
type store interface {
	Set(k interface{}, v, sz int)
	SetVal(k interface{}, val interface{}) bool // false: the family cannot store this value
	Get(k interface{}) (interface{}, bool)
	Peek(k interface{}) (interface{}, bool, bool) // third: supported
	Exist(k interface{}) bool
	Delete(k interface{}) (bool, bool)
}

type mapStore struct{ m cache.MapFacade }

func (s mapStore) Set(k interface{}, v, _ int)           { s.m.Set(k, v) }
func (s mapStore) SetVal(k, val interface{}) bool        { s.m.Set(k, val); return true }
func (s mapStore) Get(k interface{}) (interface{}, bool) { return s.m.Get(k) }
func (s mapStore) Peek(interface{}) (interface{}, bool, bool) {
	return nil, false, false
}
func (s mapStore) Exist(k interface{}) bool          { return s.m.Exist(k) }
func (s mapStore) Delete(k interface{}) (bool, bool) { s.m.Delete(k); return false, false }

// sized is the cache.Value stored in cache.LRUCache.
type sized struct{ V, Sz int }

func (s sized) Size() int { return s.Sz }

// The other implementers of cache.Value the sized cache is given: a pointer
// type whose nil pointer is a usable value (the nil interface itself is
// outside the cache's domain - it calls Size() on every value), uncomparable
// slice and map types, an empty struct.
type pSized struct{ V, Sz int }

func (p *pSized) Size() int {
	if p == nil {
		return 0
	}
	return p.Sz
}

type sliceVal []int

func (s sliceVal) Size() int { return len(s) }

type mapVal map[string]int

func (m mapVal) Size() int { return len(m) }

type emptyVal struct{}

func (emptyVal) Size() int { return 0 }

// lruOpValue builds the value of a Set on the sized cache (see opValue).
func lruOpValue(op Op) interface{} {
	switch op.VK {
	case VKNil:
		return (*pSized)(nil)
	case VKZero:
		switch op.V % 3 {
		case 0:
			return sized{}
		case 1:
			return emptyVal{}
		default:
			return &pSized{}
		}
	case VKSlice:
		if op.V == 0 {
			return sliceVal(nil)
		}
		return sliceVal{op.V}
	case VKMap:
		return mapVal{"v": op.V}
	}
	return sized{op.V, op.Sz}
}

func isNilPointer(v interface{}) bool {
	if v == nil {
		return false
	}
	rv := reflect.ValueOf(v)
	return rv.Kind() == reflect.Ptr && rv.IsNil()
}

type lruStore struct{ l cache.LRUFacade }

func (s lruStore) Set(k interface{}, v, sz int) { s.l.Set(k, sized{v, sz}) }
func (s lruStore) SetVal(k, val interface{}) bool {
	v, ok := val.(cache.Value)
	if ok {
		s.l.Set(k, v)
	}
	return ok
}
func (s lruStore) Get(k interface{}) (interface{}, bool) {
	v, ok := s.l.Get(k)
	return unwrap(v), ok
}
func (s lruStore) Peek(k interface{}) (interface{}, bool, bool) {
	v, ok := s.l.Peek(k)
	return unwrap(v), ok, true
}
func (s lruStore) Exist(k interface{}) bool          { return s.l.Exist(k) }
func (s lruStore) Delete(k interface{}) (bool, bool) { return s.l.Delete(k), true }

func unwrap(v cache.Value) interface{} {
	if v == nil {
		return nil
	}
	return v
}

type tinyStore struct{ l tiny.LRU }

func (s tinyStore) Set(k interface{}, v, sz int)          { s.l.Set(k, sized{v, sz}) }
func (s tinyStore) SetVal(k, val interface{}) bool        { s.l.Set(k, val); return true }
func (s tinyStore) Get(k interface{}) (interface{}, bool) { return s.l.Get(k) }
func (s tinyStore) Peek(k interface{}) (interface{}, bool, bool) {
	v, ok := s.l.Peek(k)
	return v, ok, true
}
func (s tinyStore) Exist(k interface{}) bool          { return s.l.Exist(k) }
func (s tinyStore) Delete(k interface{}) (bool, bool) { return s.l.Delete(k), true }

// hugeCapacity: per shard this is capacity/shards+1 >= 2^40/2^17, far above the
// at most 40 items of size <= 3 of a case: no eviction can occur on either side.
const hugeCapacity = int64(1) << 40

type family struct {
	name  string // site prefix
	value func(op Op) interface{}
	mk    func(n uint64, xhash bool) (wide, single store)
}

var famMap = family{"WideMap", opValue, func(n uint64, xh bool) (store, store) {
	if xh {
		return mapStore{cache.NewWideXHashMap(remap.WithPrime(n))}, mapStore{cache.NewSingleMap()}
	}
	return mapStore{cache.NewWideMap(remap.WithPrime(n))}, mapStore{cache.NewSingleMap()}
}}

var famLRU = family{"WideLRUCache", lruOpValue, func(n uint64, xh bool) (store, store) {
	if xh {
		return lruStore{cache.NewWideXHashLRUCache(hugeCapacity, remap.WithPrime(n))}, lruStore{cache.NewSingleLRUCache(hugeCapacity)}
	}
	return lruStore{cache.NeWideLRUCache(hugeCapacity, remap.WithPrime(n))}, lruStore{cache.NewSingleLRUCache(hugeCapacity)}
}}

var famTiny = family{"tiny.WideLRUCache", opValue, func(n uint64, xh bool) (store, store) {
	if xh {
		return tinyStore{tiny.NewWideXHashLRU(hugeCapacity, remap.WithPrime(n))}, tinyStore{tiny.NewSingleLRUCache(hugeCapacity)}
	}
	return tinyStore{tiny.NeWideLRU(hugeCapacity, remap.WithPrime(n))}, tinyStore{tiny.NewSingleLRUCache(hugeCapacity)}
}}

// panicFailure turns a recovered panic into a failure whose text is the same
// on every run (functions and lines, no argument words), so that the
// property library recognises the failure again while it shrinks the case.
// Call it from the deferred function that recovered.
func panicFailure(r interface{}, ctx string) *vkit.Failure {
	pcs := make([]uintptr, 40)
	frames := runtime.CallersFrames(pcs[:runtime.Callers(3, pcs)])
	var b strings.Builder
	for cnt := 0; cnt < 12; {
		fr, more := frames.Next()
		if strings.HasPrefix(fr.Function, "verifharness/vkit.") || strings.HasPrefix(fr.Function, "testing.") {
			break
		}
		if fr.Function != "" && !strings.HasPrefix(fr.Function, "runtime.") {
			fmt.Fprintf(&b, "\n  %s (%s:%d)", fr.Function, fr.File, fr.Line)
			cnt++
		}
		if !more {
			break
		}
	}
	return &vkit.Failure{Site: "panic", Msg: fmt.Sprintf("%s: panic: %v%s", ctx, r, b.String())}
}

// histInst is one sharded container of a history with its unsharded twin.
type histInst struct {
	wide, single store
	n            uint64
	xhash        bool
	route        string
	usable       []bool // per key of the pool: inside the domain of this container
}

func execHist(f family, c CaseHist) (res *vkit.Result) {
	res = &vkit.Result{}
	doing := "before the first call"
	defer func() {
		if r := recover(); r != nil {
			res = &vkit.Result{Fail: panicFailure(r, f.name+", "+doing)}
		}
	}()
	n := c.Shards
	if n < 1 || n > maxShards {
		res.Skip("shards-out-of-domain")
		return res
	}
	if len(c.More) > 4 {
		res.Skip("too-many-instances")
		return res
	}
	for _, in := range c.More {
		if in.Shards < 1 || in.Shards > maxShards {
			res.Skip("shards-out-of-domain")
			return res
		}
	}
	// keys outside the container's domain are disabled (only hand-made or oddly
	// shrunk cases contain them)
	vals := make([]interface{}, len(c.Keys))
	valid := make([]bool, len(c.Keys))
	for i, k := range c.Keys {
		v, ok := k.iface()
		switch {
		case !ok:
			res.Skip("unknown-key-type")
		case !k.hashable():
			res.Skip("unhashable-key")
		default:
			vals[i], valid[i] = v, true
		}
	}
	// insts[0] is the first container, insts[j] the one of More[j-1] once it is built
	insts := make([]*histInst, 1+len(c.More))
	build := func(j int, n uint64, xhash bool) {
		in := &histInst{n: n, xhash: xhash, route: "modulo", usable: make([]bool, len(c.Keys))}
		if xhash {
			in.route = "xxhash"
		}
		doing = fmt.Sprintf("building container %d (%s routing, %d shards)", j, in.route, n)
		in.wide, in.single = f.mk(n, xhash)
		for i, k := range c.Keys {
			in.usable[i] = valid[i] && (!xhash || k.xhashOK())
			if valid[i] && !in.usable[i] {
				res.Skip("HitGroup-only-key-with-xxhash-routing")
			}
		}
		insts[j] = in
	}
	build(0, n, c.XHash)
	built := 1
	buildDue := func(i int, last bool) {
		for j, m := range c.More {
			if insts[j+1] == nil && (m.At <= i || last) {
				build(j+1, m.Shards, m.XHash)
				built++
				if i > 0 {
					res.Class("further-container-built-mid-history")
				}
			}
		}
	}
	which := func(j int) string {
		if len(c.More) == 0 {
			return ""
		}
		return fmt.Sprintf("container %d of %d alive, ", j, built)
	}
	ctx := func(i int, j int) string {
		in := insts[j]
		return fmt.Sprintf("%s%s routing, %d shards, after %d ops, key %v", which(j), in.route, in.n, i, c.Keys[c.Ops[i].K])
	}
	usedTypes := map[string]bool{}
	usedKeys := map[int]bool{}
	usedInst := map[int]bool{}
	for i, op := range c.Ops {
		buildDue(i, false)
		j := 0
		if op.I > 0 && op.I < len(insts) && insts[op.I] != nil {
			j = op.I
		}
		in := insts[j]
		wide, single := in.wide, in.single
		if op.K < 0 || op.K >= len(c.Keys) || !in.usable[op.K] {
			res.Skip("op-on-disabled-key")
			continue
		}
		k := vals[op.K]
		doing = fmt.Sprintf("%s of a %s value (int %d): %s", op.Kind, map[bool]string{true: op.VK, false: "plain"}[op.VK != ""], op.V, ctx(i, j))
		usedTypes[c.Keys[op.K].T] = true
		usedKeys[op.K] = true
		usedInst[j] = true
		switch op.Kind {
		case OpSet:
			if single.Exist(k) {
				res.Class("set-overwrite")
			} else {
				res.Class("set-new")
			}
			val, special := f.value(op), op.VK != ""
			if op.VK == VKSame {
				cur, ok, sup := single.Peek(k)
				if !sup {
					cur, ok = single.Get(k) // a Get does not change a map
				}
				if ok {
					val = cur
					res.Class("value=identical-to-the-stored-one")
				}
			}
			if special && val == nil {
				res.Class("value=nil")
			} else if special && isNilPointer(val) {
				res.Class("value=nil-pointer")
			} else if special && !reflect.TypeOf(val).Comparable() {
				res.Class("value=uncomparable-type")
			} else if op.VK == VKZero {
				res.Class("value=zero-of-a-type")
			}
			if !special || !wide.SetVal(k, val) {
				if special {
					res.Skip("value-kind-outside-the-family")
				}
				wide.Set(k, op.V, op.Sz)
				single.Set(k, op.V, op.Sz)
			} else {
				single.SetVal(k, val)
			}
		case OpGet:
			wv, wok := wide.Get(k)
			sv, sok := single.Get(k)
			if wok != sok || !sameValue(wv, sv) {
				return res.Failf(f.name+".Get", "%s: sharded Get = (%v,%v), unsharded = (%v,%v)", ctx(i, j), wv, wok, sv, sok)
			}
			if sok {
				res.Class("get-hit")
			} else {
				res.Class("get-miss")
			}
		case OpPeek:
			wv, wok, sup := wide.Peek(k)
			if !sup {
				res.Skip("peek-on-map")
				continue
			}
			sv, sok, _ := single.Peek(k)
			if wok != sok || !sameValue(wv, sv) {
				return res.Failf(f.name+".Peek", "%s: sharded Peek = (%v,%v), unsharded = (%v,%v)", ctx(i, j), wv, wok, sv, sok)
			}
			if sok {
				res.Class("peek-hit")
			} else {
				res.Class("peek-miss")
			}
		case OpExist:
			w, s := wide.Exist(k), single.Exist(k)
			if w != s {
				return res.Failf(f.name+".Exist", "%s: sharded Exist = %v, unsharded = %v", ctx(i, j), w, s)
			}
			if s {
				res.Class("exist-true")
			} else {
				res.Class("exist-false")
			}
		case OpDelete:
			present := single.Exist(k)
			w, has := wide.Delete(k)
			s, _ := single.Delete(k)
			if has && w != s {
				return res.Failf(f.name+".Delete", "%s: sharded Delete = %v, unsharded = %v", ctx(i, j), w, s)
			}
			if present {
				res.Class("delete-present")
			} else {
				res.Class("delete-absent")
			}
		default:
			res.Skip("unknown-op")
		}
	}
	buildDue(len(c.Ops), true)
	// final sweep over the whole key pool with the non-mutating observers, on every container
	for j, in := range insts {
		doing = fmt.Sprintf("%s%s routing, %d shards, final sweep", which(j), in.route, in.n)
		for i := range c.Keys {
			if !in.usable[i] {
				continue
			}
			k := vals[i]
			if w, s := in.wide.Exist(k), in.single.Exist(k); w != s {
				return res.Failf(f.name+"/final", "%s%s routing, %d shards, end of history: Exist(%v) sharded %v, unsharded %v", which(j), in.route, in.n, c.Keys[i], w, s)
			}
			wv, wok, sup := in.wide.Peek(k)
			sv, sok, _ := in.single.Peek(k)
			if !sup { // the map has no Peek; Get does not change a map
				wv, wok = in.wide.Get(k)
				sv, sok = in.single.Get(k)
			}
			if wok != sok || !sameValue(wv, sv) {
				return res.Failf(f.name+"/final", "%s%s routing, %d shards, end of history: value of %v sharded (%v,%v), unsharded (%v,%v)", which(j), in.route, in.n, c.Keys[i], wv, wok, sv, sok)
			}
		}
	}
	// classification (uses the public index functions only to label the case)
	first := insts[0]
	r, _ := instances(n)
	byShard := map[int]map[string]bool{}
	for i := range c.Keys {
		if !first.usable[i] || !usedKeys[i] {
			continue
		}
		var s int
		if c.XHash {
			s = r.XHashIndex(vals[i])
		} else {
			s = r.SimpleIndex(vals[i])
		}
		if byShard[s] == nil {
			byShard[s] = map[string]bool{}
		}
		byShard[s][fmt.Sprintf("%s/%d/%x", c.Keys[i].T, c.Keys[i].U, c.Keys[i].B)] = true
	}
	for _, ks := range byShard {
		if len(ks) >= 2 {
			res.Class("distinct-keys-share-a-shard")
			break
		}
	}
	if len(byShard) >= 2 {
		res.Class("keys-in-different-shards")
	}
	for i, a := range c.Keys {
		for _, b := range c.Keys[i+1:] {
			if isInt(a.T) && isInt(b.T) && a.T != b.T && int64(a.U) == int64(b.U) && first.usable[i] {
				res.Class("same-number-different-int-type")
			}
		}
	}
	for t := range usedTypes {
		res.Class("type=" + t)
	}
	res.Class(fmt.Sprintf("containers=%d", len(insts)))
	if len(usedInst) >= 2 {
		res.Class("calls-interleaved-on-two-containers")
	}
	for _, in := range insts[1:] {
		if in.n != n {
			res.Class("containers-differ-in-shard-count")
		}
		if in.xhash != c.XHash {
			res.Class("containers-differ-in-routing")
		}
	}
	res.Class("routing=" + first.route)
	res.Class(shardClass(n))
	res.NonTrivial = n >= 2 && len(usedTypes) >= 2
	return res
}

func ExecHistMap(c CaseHist) *vkit.Result  { return execHist(famMap, c) }
func ExecHistLRU(c CaseHist) *vkit.Result  { return execHist(famLRU, c) }
func ExecHistTiny(c CaseHist) *vkit.Result { return execHist(famTiny, c) }

// ---------------------------------------------------------------------------

const keyRule = "keys: all ten integer types (type extremes, 0, +-1, multiples of the shard count +-1, negative multiples, 2^63 neighbourhood, uniform), strings / []byte / Bs implementers (empty, 1 byte, the 8-byte image of an integer, decimal text, 64-300 bytes, random), HitGroup-only keys; a third of the keys is derived from an earlier one (same type plus j*shards, same number in another integer type, same content in another carrier). Per routing function: HitGroup-only keys go to SimpleIndex only (XHashIndex documents them as unsupported by panicking). Shard counts: {1,2,3,4,7,64,73,100,211} (80%), any of 1..512 (10%), 65521 (10%)"

var PartIndex = &vkit.Part[CaseIndex]{
	Property: Property, Name: "index",
	Rule:  "rapid: shard count x 2-10 " + keyRule + ". Oracle: SimpleIndex / XHashIndex in [0,shards), equal on a second independently built instance (NewReMap() for 73) and on a repeated call after all other lookups; non-negative integers and Hit() values land on value mod shards; XHashIndex(k) is the part of XXHash(k) in the documented partition (computed arithmetically); the byte slices remap.ToBytes returns for the keys are kept and must still read as they did when they were returned after all later calls (twice: after the first pass and after the second routing pass). Non-trivial: shards >= 2 and keys of >= 2 dynamic types; distinct = distinct case JSON",
	Quick: 24000, Thorough: 30000,
	Gen: GenIndex, Exec: ExecIndex,
}

var PartSearch = &vkit.Part[CaseSearch]{
	Property: Property, Name: "search",
	Rule:  "rapid: shard count (as above) x 3-16 raw hashes x from {0,1,2,MaxUint64(-1),2^63(-1)}, boundary_i+d for d in -2..2 with i first / last / last but one / any (constructed from the documented y=MaxUint64/shards, wrapping at the top), y*shards+d (where the last boundary would be if not forced), inside a drawn part, uniform. Oracle: SearchIndex(0)=0, SearchIndex(MaxUint64)=shards-1, every result in range, equal across instances, equal to the arithmetic 'first boundary >= x' ((x-1)/y capped), non-decreasing over the sorted inputs. Non-trivial: shards >= 2 and some x within 1 of a boundary separating two parts; distinct = distinct case JSON",
	Quick: 18000, Thorough: 25000,
	Gen: GenSearch, Exec: ExecSearch,
}

var PartGrid = &vkit.Part[CaseGrid]{
	Property: Property, Name: "grid",
	Rule: "enumeration: for every shard count in 1..256, the design list and {257,509,641,1000,1024,4096,10007,65535,65536,65537}: every boundary_i-1, boundary_i, boundary_i+1 in ascending order must map to i, i, i+1 (literal linear scan of the documented boundary list as a second reference for shards <= 211), non-decreasing, every shard hit, ends 0 and shards-1. Complete for the grid, not for the 2^64 hashes. Non-trivial: shards >= 2",
	Gen:  func(t *rapid.T) CaseGrid { return CaseGrid{genShards(t, false)} },
	Exec: ExecGrid,
}

const histRule = "rapid: shard count (as above, but 65521 at 5% and {509,1000,1024,4096} at 5%) x modulo|xxhash routing x pool of 2-8 hashable keys (as in part index without []byte; HitGroup-only keys only with modulo routing) x 5-40 operations Set(value 0-5, size 0-3)/Get/Exist/Delete(/Peek) on pool keys, then a final Exist+Peek/Get sweep over the pool; the sharded and the unsharded container receive the identical history, every result must be equal. In about a third of the cases one or two further sharded containers of the same family (own shard count from the design list or 1..512, own routing, own unsharded twin) are built in the middle of the history and the calls are spread over all containers alive; the final sweep covers every container (containers are independent objects: building or using one must not change what another answers). Half of the Sets store a special value kind (see the part). Capacity 2^40 on both sides (per shard 2^40/shards+1): no eviction can occur. Non-trivial: shards >= 2 and operations on keys of >= 2 dynamic types; distinct = distinct case JSON"

var PartMap = &vkit.Part[CaseHist]{
	Property: Property, Name: "widemap",
	Rule:  "cache.NewWideMap / NewWideXHashMap vs cache.NewSingleMap; half of the Sets store, instead of the int, the nil interface, the zero value of a type (string, bool, struct{}, float64, *int), a []int (incl. the nil slice) or a map[string]int, or the identical value the key holds already - both containers get the identical value and must return it (==, or the same backing store for uncomparable types). " + histRule,
	Quick: 4500, Thorough: 6000,
	Gen: GenHistMap, Exec: ExecHistMap,
}

var PartLRU = &vkit.Part[CaseHist]{
	Property: Property, Name: "widelru",
	Rule:  "cache.NeWideLRUCache / NewWideXHashLRUCache vs cache.NewSingleLRUCache; value kinds inside the cache's domain (it calls Size() on every value, so the nil interface is outside): the sized int, a nil *T whose Size() accepts a nil receiver, zero values (sized{}, an empty struct, a pointer to a zero struct), uncomparable slice and map types implementing Value, and the identical value the key holds already - compared by identity. " + histRule,
	Quick: 3600, Thorough: 5000,
	Gen: GenHistLRU, Exec: ExecHistLRU,
}

var PartTiny = &vkit.Part[CaseHist]{
	Property: Property, Name: "tinywidelru",
	Rule:  "cache/tiny.NeWideLRU / NewWideXHashLRU vs tiny.NewSingleLRUCache; tiny.LRU takes any interface{}: the value kinds of part widemap (nil interface, zero values, []int incl. the nil slice, map[string]int, the identical stored value), compared by identity. " + histRule,
	Quick: 3600, Thorough: 5000,
	Gen: GenHistLRU, Exec: ExecHistTiny,
}
