//go:build race

package c17remap

const raceEnabled = true
