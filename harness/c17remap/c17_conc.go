package c17remap

// Concurrent use of the sharded containers (cache.WideMap mostly, the two
// sharded LRU caches as well; modulo and xxhash routing) and of the index
// functions. Shared keys are in c17_shared.go.
//
// Every goroutine owns a key set that is disjoint from the others', so the
// answer to each of its calls is fixed by its own earlier calls alone: the
// unsharded Map would answer exactly so, whatever the interleaving. No
// linearizability checker is needed and no verdict depends on timing. The
// container is fresh per case and the goroutines leave a barrier together, so
// the first touches of the shards happen concurrently; shard counts are small
// so that the goroutines meet on shards. The index functions are called
// concurrently on keys of every type and must return what they returned before
// the goroutines started.

import (
	"fmt"
	"runtime"
	"sync"
	"sync/atomic"

	"pgregory.net/rapid"

	"verifharness/vkit"
)

const OpRoute = "route" // call the index functions on the key, compare with the sequential answers

type ConcOp struct {
	Kind string `json:"op"`
	K    int    `json:"k"` // index into the goroutine's own Keys
	V    int    `json:"v,omitempty"`
}

// ConcG is the program of one goroutine.
type ConcG struct {
	Keys []Key    `json:"keys"`
	Ops  []ConcOp `json:"ops"`
}

type CaseConc struct {
	// Fam: "" cache.WideMap, "lru" cache.WideLRUCache, "tiny" cache/tiny.WideLRUCache
	Fam    string `json:"fam,omitempty"`
	Shards uint64 `json:"shards"`
	XHash  bool   `json:"xhash"`
	// Rounds: after its operations (and a second barrier) every goroutine routes
	// all its keys this many times.
	Rounds int     `json:"rounds"`
	G      []ConcG `json:"g"`
	// Rep: every goroutine runs its operation list this many times (0 = once); its
	// model of its own keys carries over, so the lists stay short as data while a
	// case makes thousands of calls on one container.
	Rep int `json:"rep,omitempty"`
}

// keyID is the identity of a key as a Go map key (dynamic type and value).
func keyID(k Key) string {
	if isInt(k.T) {
		return fmt.Sprintf("%s/%d", k.T, normU(k.T, k.U))
	}
	if k.T == "hit" {
		return fmt.Sprintf("hit/%d", k.U)
	}
	return fmt.Sprintf("%s/%x", k.T, k.B)
}

// intThemes: integer types whose ToBytes encodings have the same width (they
// would share a scratch buffer if the encoding had one).
var intThemes = [][]string{{"i16", "u16"}, {"i32", "u32"}, {"int", "i64"}, {"uint", "u64"}, {"u8", "i8"}, {"u32", "i32", "u32"}, {"u8", "uint", "u16"}}

const (
	FamConcMap  = ""
	FamConcLRU  = "lru"
	FamConcTiny = "tiny"
)

// concFamily returns the container family of a concurrent case and the value
// that stands for the int x in it (the sized cache stores cache.Value only).
func concFamily(name string) (f family, mkv func(x int) interface{}, ok bool) {
	switch name {
	case FamConcMap:
		return famMap, func(x int) interface{} { return x }, true
	case FamConcLRU:
		return famLRU, func(x int) interface{} { return sized{x, 1} }, true
	case FamConcTiny:
		return famTiny, func(x int) interface{} { return x }, true
	}
	return family{}, nil, false
}

func GenConc(t *rapid.T) CaseConc {
	var n uint64
	switch k := rapid.IntRange(0, 19).Draw(t, "shardsKind"); {
	case k <= 14:
		n = uint64(rapid.IntRange(1, 3).Draw(t, "shards"))
	case k <= 17:
		n = rapid.SampledFrom([]uint64{7, 73}).Draw(t, "shardsDesign")
	default:
		n = uint64(rapid.IntRange(4, 16).Draw(t, "shardsAny"))
	}
	c := CaseConc{Shards: n, XHash: rapid.Bool().Draw(t, "xhash")}
	// the map first: shrinking moves towards it
	c.Fam = rapid.SampledFrom([]string{FamConcMap, FamConcMap, FamConcMap, FamConcMap, FamConcLRU, FamConcTiny}).Draw(t, "fam")
	maxG, maxOps := 4, 30
	if vkit.Tier() == "thorough" {
		maxG, maxOps = 6, 60
	}
	ng := rapid.IntRange(2, maxG).Draw(t, "goroutines")
	c.Rounds = rapid.SampledFrom([]int{0, 1, 3, 10, 40}).Draw(t, "rounds")
	c.Rep = rapid.SampledFrom([]int{1, 1, 1, 1, 4, 16}).Draw(t, "rep")
	var theme []string
	if th := rapid.IntRange(0, 2*len(intThemes)-1).Draw(t, "theme"); th < len(intThemes) {
		theme = intThemes[th]
	}
	// []byte keys cannot be stored (not hashable) but they can be routed: every
	// call on such a key is a routing call. In a fifth of the cases every
	// goroutine gets a long one, so that several goroutines hash byte slices at
	// the same time.
	bytesTheme := rapid.IntRange(0, 9).Draw(t, "bytesTheme") >= 8
	// churn: one key per goroutine, stored and deleted over and over, so that the
	// shards (and the whole container) become empty and non-empty again while
	// other goroutines store into them.
	churn := !bytesTheme && rapid.IntRange(0, 9).Draw(t, "churn") >= 8
	if churn {
		c.Rep = rapid.SampledFrom([]int{64, 128}).Draw(t, "churnRep")
		maxOps = 12
	}
	seen := map[string]bool{}
	for g := 0; g < ng; g++ {
		var cg ConcG
		nk := rapid.IntRange(1, 5).Draw(t, "nkeys")
		if churn {
			nk = 1
		}
		if bytesTheme {
			k := Key{T: "bytes", B: rapid.SliceOfN(rapid.Byte(), 40, 300).Draw(t, "routedBytes")}
			if id := keyID(k); !seen[id] {
				seen[id] = true
				cg.Keys = append(cg.Keys, k)
				nk++
			}
		}
		for tries := 0; len(cg.Keys) < nk && tries < 40; tries++ {
			k := genKey(t, n, true, !c.XHash)
			if theme != nil && isInt(k.T) {
				k.T = rapid.SampledFrom(theme).Draw(t, "themeType")
				k.U = normU(k.T, k.U)
			}
			if id := keyID(k); !seen[id] {
				seen[id] = true
				cg.Keys = append(cg.Keys, k)
			}
		}
		if len(cg.Keys) == 0 { // practically unreachable; keeps the case well-formed
			k := Key{T: "str", B: []byte(fmt.Sprintf("g%d", g))}
			seen[keyID(k)] = true
			cg.Keys = append(cg.Keys, k)
		}
		nops := rapid.IntRange(4, maxOps).Draw(t, "nops")
		for i := 0; i < nops; i++ {
			op := ConcOp{K: rapid.IntRange(0, len(cg.Keys)-1).Draw(t, "k")}
			switch w := rapid.IntRange(0, 19).Draw(t, "opkind"); {
			case !cg.Keys[op.K].hashable():
				op.Kind = OpRoute
			case churn && i > 0:
				op.Kind = []string{OpSet, OpDelete, OpDelete, OpGet, OpExist}[w%5]
				op.V = w % 10
			case i == 0 || w < 7: // the first call of every goroutine stores: first touches of shards are writes
				op.Kind = OpSet
				op.V = rapid.IntRange(0, 9).Draw(t, "v")
			case w < 11:
				op.Kind = OpGet
			case w < 14:
				op.Kind = OpExist
			case w < 17:
				op.Kind = OpDelete
			default:
				op.Kind = OpRoute
			}
			cg.Ops = append(cg.Ops, op)
		}
		c.G = append(c.G, cg)
	}
	return c
}

// spinBarrier releases its n parties together. Waiting yields the processor,
// it never sleeps; the barrier only makes concurrency likely, no verdict
// depends on it.
type spinBarrier struct {
	n int32
	c atomic.Int32
}

func (b *spinBarrier) wait() {
	b.c.Add(1)
	for b.c.Load() < b.n {
		runtime.Gosched()
	}
}

const (
	maxConcShards = 4096
	maxConcG      = 16
	concBigShards = 65521 // a second instance on which nearly every change of a key's hash changes the index
)

type concKey struct {
	v                      interface{}
	usable                 bool // routable; storable too unless routeOnly
	routeOnly              bool // []byte: not hashable, cannot be a container key
	simple, xhash, xhashBg int  // sequential answers; xhash = -1: outside the domain of XHashIndex
}

func ExecConc(c CaseConc) *vkit.Result {
	res := &vkit.Result{}
	n := c.Shards
	if n < 1 || n > maxConcShards {
		res.Skip("shards-out-of-domain")
		return res
	}
	if len(c.G) > maxConcG {
		res.Skip("too-many-goroutines")
		return res
	}
	rounds := c.Rounds
	if rounds < 0 || rounds > 1000 {
		rounds = 0
	}
	reps := c.Rep
	if reps < 1 {
		reps = 1
	}
	if reps > 1024 {
		reps = 1024
	}
	fam, mkv, ok := concFamily(c.Fam)
	if !ok {
		res.Skip("unknown-family")
		return res
	}
	rn, _ := instances(n)
	rBig, _ := instances(concBigShards)
	// materialise the keys; the first goroutine that lists a key owns it
	owner := map[string]bool{}
	keys := make([][]concKey, len(c.G))
	shardOwners := map[int]map[int]bool{}
	widthOwners := map[int]map[int]bool{}
	for g, cg := range c.G {
		keys[g] = make([]concKey, len(cg.Keys))
		for j, k := range cg.Keys {
			v, ok := k.iface()
			switch {
			case !ok:
				res.Skip("unknown-key-type")
				continue
			case c.XHash && !k.xhashOK():
				res.Skip("HitGroup-only-key-with-xxhash-routing")
				continue
			case owner[keyID(k)]:
				res.Skip("key-owned-by-an-earlier-goroutine")
				continue
			}
			owner[keyID(k)] = true
			ck := concKey{v: v, usable: true, routeOnly: !k.hashable(), simple: rn.SimpleIndex(v), xhash: -1, xhashBg: -1}
			if k.xhashOK() {
				ck.xhash, ck.xhashBg = rn.XHashIndex(v), rBig.XHashIndex(v)
			}
			keys[g][j] = ck
			s := ck.simple
			if c.XHash {
				s = ck.xhash
			}
			if shardOwners[s] == nil {
				shardOwners[s] = map[int]bool{}
			}
			shardOwners[s][g] = true
			if w := signedWidth[k.T] + unsignWidth[k.T]; w != 0 {
				if widthOwners[int(w)] == nil {
					widthOwners[int(w)] = map[int]bool{}
				}
				widthOwners[int(w)][g] = true
			}
			res.Class("type=" + k.T)
		}
	}
	wide, _ := fam.mk(n, c.XHash)
	route := "modulo"
	if c.XHash {
		route = "xxhash"
	}
	ng := len(c.G)
	fails := make([]*vkit.Failure, ng)
	models := make([]map[int]int, ng)
	start := &spinBarrier{n: int32(ng)}
	second := &spinBarrier{n: int32(ng)}
	var wg sync.WaitGroup
	checkRoute := func(g, j int) *vkit.Failure {
		ck := keys[g][j]
		k := c.G[g].Keys[j]
		if s := rn.SimpleIndex(ck.v); s != ck.simple {
			return &vkit.Failure{Site: "conc/SimpleIndex", Msg: fmt.Sprintf("%d shards, goroutine %d of %d: SimpleIndex(%v) = %d while other goroutines route their keys, %d before they started", n, g, ng, k, s, ck.simple)}
		}
		if ck.xhash >= 0 {
			if x := rn.XHashIndex(ck.v); x != ck.xhash {
				return &vkit.Failure{Site: "conc/XHashIndex", Msg: fmt.Sprintf("%d shards, goroutine %d of %d: XHashIndex(%v) = %d while other goroutines route their keys, %d before they started", n, g, ng, k, x, ck.xhash)}
			}
			if x := rBig.XHashIndex(ck.v); x != ck.xhashBg {
				return &vkit.Failure{Site: "conc/XHashIndex", Msg: fmt.Sprintf("%d shards, goroutine %d of %d: XHashIndex(%v) = %d while other goroutines route their keys, %d before they started", concBigShards, g, ng, k, x, ck.xhashBg)}
			}
		}
		return nil
	}
	for g := 0; g < ng; g++ {
		models[g] = map[int]int{}
		wg.Add(1)
		go func(g int) {
			defer wg.Done()
			cg := c.G[g]
			model := models[g]
			guard := func(phase func() *vkit.Failure) {
				defer func() {
					if r := recover(); r != nil && fails[g] == nil {
						fails[g] = panicFailure(r, fmt.Sprintf("%s routing, %d shards, goroutine %d of %d", route, n, g, ng))
					}
				}()
				if f := phase(); f != nil && fails[g] == nil {
					fails[g] = f
				}
			}
			start.wait()
			guard(func() *vkit.Failure {
				for i := 0; i < reps*len(cg.Ops); i++ {
					op := cg.Ops[i%len(cg.Ops)]
					if op.K < 0 || op.K >= len(cg.Keys) || !keys[g][op.K].usable {
						continue
					}
					k := keys[g][op.K].v
					ctx := func() string {
						return fmt.Sprintf("%s routing, %d shards, goroutine %d of %d (disjoint key sets), its call %d, key %v", route, n, g, ng, i, cg.Keys[op.K])
					}
					want, present := model[op.K]
					kind := op.Kind
					if keys[g][op.K].routeOnly {
						kind = OpRoute
					}
					switch kind {
					case OpSet:
						val := g*1000 + op.V
						wide.SetVal(k, mkv(val))
						model[op.K] = val
					case OpGet:
						v, ok := wide.Get(k)
						if ok != present || (present && v != mkv(want)) {
							return &vkit.Failure{Site: fam.name + "/conc.Get", Msg: fmt.Sprintf("%s: Get = (%v,%v), the goroutine's own history demands (%v,%v)", ctx(), v, ok, want, present)}
						}
					case OpExist:
						if ok := wide.Exist(k); ok != present {
							return &vkit.Failure{Site: fam.name + "/conc.Exist", Msg: fmt.Sprintf("%s: Exist = %v, the goroutine's own history demands %v", ctx(), ok, present)}
						}
					case OpDelete:
						if existed, has := wide.Delete(k); has && existed != present {
							return &vkit.Failure{Site: fam.name + "/conc.Delete", Msg: fmt.Sprintf("%s: Delete = %v, the goroutine's own history demands %v", ctx(), existed, present)}
						}
						delete(model, op.K)
					case OpRoute:
						if f := checkRoute(g, op.K); f != nil {
							return f
						}
					}
				}
				return nil
			})
			second.wait()
			guard(func() *vkit.Failure {
				for r := 0; r < rounds; r++ {
					for j := range cg.Keys {
						if keys[g][j].usable {
							if f := checkRoute(g, j); f != nil {
								return f
							}
						}
					}
				}
				return nil
			})
		}(g)
	}
	wg.Wait()
	for _, f := range fails {
		if f != nil {
			res.Fail = f
			return res
		}
	}
	// sequential sweep: the container holds exactly what the goroutines left
	for g, cg := range c.G {
		for j := range cg.Keys {
			if !keys[g][j].usable || keys[g][j].routeOnly {
				continue
			}
			want, present := models[g][j]
			k := keys[g][j].v
			if ok := wide.Exist(k); ok != present {
				return res.Failf(fam.name+"/conc.final", "%s routing, %d shards, after %d goroutines with disjoint key sets have finished: Exist(%v) = %v, the history of its owner (goroutine %d) demands %v", route, n, ng, cg.Keys[j], ok, g, present)
			}
			if v, ok := wide.Get(k); ok != present || (present && v != mkv(want)) {
				return res.Failf(fam.name+"/conc.final", "%s routing, %d shards, after %d goroutines with disjoint key sets have finished: Get(%v) = (%v,%v), the history of its owner (goroutine %d) demands (%v,%v)", route, n, ng, cg.Keys[j], v, ok, g, want, present)
			}
		}
	}
	// classification: from the case alone, never from the interleaving
	shared := false
	for _, gs := range shardOwners {
		if len(gs) >= 2 {
			shared = true
		}
	}
	if shared {
		res.Class("two-goroutines-meet-on-a-shard")
	}
	for _, w := range []int{8, 16, 32, 64} {
		if len(widthOwners[w]) >= 2 {
			res.Class(fmt.Sprintf("%d-bit-integer-keys-in-two-goroutines", w))
		}
	}
	active := 0
	for g, cg := range c.G {
		for _, op := range cg.Ops {
			if op.K >= 0 && op.K < len(cg.Keys) && keys[g][op.K].usable {
				active++
				break
			}
		}
	}
	bytesG := 0
	for g := range c.G {
		for j := range c.G[g].Keys {
			if keys[g][j].usable && keys[g][j].routeOnly {
				bytesG++
				break
			}
		}
	}
	if bytesG >= 2 {
		res.Class("[]byte-keys-routed-by-two-goroutines")
	}
	res.Class("family=" + fam.name)
	res.Class(fmt.Sprintf("goroutines=%d", ng))
	res.Class("routing=" + route)
	if n <= 3 || n == 7 || n == 73 {
		res.Class(fmt.Sprintf("shards=%d", n))
	} else {
		res.Class("shards=other")
	}
	if rounds > 0 {
		res.Class("routing-rounds")
	}
	oneKeyEach := true
	for _, cg := range c.G {
		oneKeyEach = oneKeyEach && len(cg.Keys) == 1
	}
	if oneKeyEach && reps >= 64 {
		res.Class("churn(one-key-per-goroutine,repetitions>=64)")
	}
	switch {
	case reps >= 64:
		res.Class("repetitions>=64")
	case reps >= 4:
		res.Class("repetitions=4..63")
	default:
		res.Class("repetitions<4")
	}
	res.NonTrivial = active >= 2 && (shared || n == 1)
	return res
}

const concRule = "rapid: family (cache.WideMap 2/3, cache.WideLRUCache, tiny.WideLRUCache; capacity 2^40) x shard count (1..3 at 75%, 7|73 at 15%, 4..16) x modulo|xxhash routing x 2-4 goroutines (2-6 thorough), each with 1-5 keys of its own (as in part index; []byte keys cannot be stored, every call on them is a routing call, and in a fifth of the cases every goroutine gets a 40-300 byte one; in a further seventh of the cases - churn - every goroutine has one key only, which it stores and deletes over and over in a list of 4-12 calls run 64 or 128 times, so that shards run empty while others store into them; HitGroup-only keys with modulo routing only; no key value occurs twice in a case; in half of the cases all integer keys come from one group of types with equally wide encodings, e.g. int16/uint16) and a list of 4-30 (4-60) calls Set/Get/Exist/Delete on the container plus SimpleIndex/XHashIndex calls, the first call a Set, the list run 1 (most cases), 4 or 16 times; a fresh container per case, the goroutines leave a spin barrier together; after a second barrier 0-40 rounds of routing all own keys. Oracle: every Get/Exist (and the result of Delete on the LRU families) answers what the goroutine's own earlier Sets/Deletes on that key fix (what the unsharded Map would answer under any interleaving, because no other goroutine touches the key), every index equals the one computed before the goroutines started (also on a 65521-shard instance), no panic, and a final sequential Exist+Get sweep over all keys finds exactly what the owners left. Interleavings are whatever the scheduler produces (the -race binary adds the happens-before check). Non-trivial: >= 2 goroutines with calls, keys of two goroutines on one shard; distinct = distinct case JSON"

var PartConc = &vkit.Part[CaseConc]{
	Property: Property, Name: "widemap-conc",
	Rule:  concRule,
	Quick: 3000, Thorough: 6000,
	Gen: GenConc, Exec: ExecConc,
}

// PartConcRace is the same part in the -race binary.
var PartConcRace = &vkit.Part[CaseConc]{
	Property: Property, Name: "race-widemap-conc",
	Rule:  "the -race build of part widemap-conc (same generator and oracle; additionally every data race the detector reports is a failure). " + concRule,
	Quick: 600, Thorough: 2500,
	Gen: GenConc, Exec: ExecConc,
}
