package c17remap

import (
	"encoding/binary"
	"math"
	"os"
	"strings"
	"syscall"
	"testing"

	"verifharness/vkit"
)

// TestMain: the race detector's runtime sleeps atexit_sleep_ms (default 1 s)
// before every exit of a -race binary - also after a mere -test.list - "to let
// other goroutines report". Every goroutine of this package is joined before
// its case ends, so the sleep buys nothing here and costs the driver two
// seconds per quick run; the -race binary therefore replaces itself once with
// GORACE extended by atexit_sleep_ms=0 (a caller that sets the option itself
// is left alone; if the exec is not possible the binary just runs as it is).
func TestMain(m *testing.M) {
	if os.Getenv(knownChildEnv) != "" {
		KnownChildMain() // the second process of part known-answers: prints its table and leaves
		os.Exit(0)
	}
	if raceEnabled && !strings.Contains(os.Getenv("GORACE"), "atexit_sleep_ms") {
		if exe, err := os.Executable(); err == nil {
			var env []string
			for _, e := range os.Environ() {
				if !strings.HasPrefix(e, "GORACE=") {
					env = append(env, e)
				}
			}
			env = append(env, "GORACE="+strings.TrimSpace(os.Getenv("GORACE")+" atexit_sleep_ms=0"))
			_ = syscall.Exec(exe, os.Args, env)
		}
	}
	vkit.Main(m)
}

func TestProp_Index(t *testing.T)       { PartIndex.Run(t) }
func TestProp_Search(t *testing.T)      { PartSearch.Run(t) }
func TestProp_WideMap(t *testing.T)     { PartMap.Run(t) }
func TestProp_WideLRU(t *testing.T)     { PartLRU.Run(t) }
func TestProp_TinyWideLRU(t *testing.T) { PartTiny.Run(t) }
func TestProp_WideMapConc(t *testing.T) { PartConc.Run(t) }
func TestProp_Locks(t *testing.T)       { PartLock.Run(t) }
func TestProp_WideShared(t *testing.T)  { PartShared.Run(t) }

// TestRace_WideMapConc is part widemap-conc in the -race binary (the driver
// runs TestRace_* only from there); VERIF_RACE=1 forces it in a plain binary.
func TestRace_WideMapConc(t *testing.T) {
	if !raceEnabled && os.Getenv("VERIF_RACE") == "" {
		t.Skip("runs from the -race binary")
	}
	PartConcRace.Run(t)
}

// TestRace_WideShared is part wide-shared in the -race binary.
func TestRace_WideShared(t *testing.T) {
	if !raceEnabled && os.Getenv("VERIF_RACE") == "" {
		t.Skip("runs from the -race binary")
	}
	PartSharedRace.Run(t)
}

// TestEnum_Grid runs the boundary grid completely (complete for the grid, not
// for the property's domain, hence exhaustive=false).
func TestEnum_Grid(t *testing.T) { PartGrid.RunCases(t, GridCases(), false) }

// TestEnum_Known runs the literal known-answer table (complete for the table).
func TestEnum_Known(t *testing.T) { PartKnown.RunCases(t, KnownCases(), false) }

func TestReplay(t *testing.T) {
	PartIndex.Replay(t, 1)
	PartSearch.Replay(t, 1)
	PartGrid.Replay(t, 1)
	PartKnown.Replay(t, 1)
	PartMap.Replay(t, 1)
	PartLRU.Replay(t, 1)
	PartTiny.Replay(t, 1)
	PartLock.Replay(t, 1)
	PartConc.Replay(t, 200)
	PartConcRace.Replay(t, 200)
	PartShared.Replay(t, 50)
	PartSharedRace.Replay(t, 50)
}

// FuzzRoute is the raw entry: a shard count, a raw hash and arbitrary key
// bytes (routed as string, []byte, Bs implementer and, through their first
// bytes, as every integer type and as a HitGroup value); the oracles are those
// of parts index and search.
func FuzzRoute(f *testing.F) {
	if vkit.SeedCorpus() {
		f.Add(uint32(72), uint64(0), []byte("user:10001"))
		f.Add(uint32(0), uint64(math.MaxUint64), []byte{})
		f.Add(uint32(515), uint64(math.MaxUint64/65521), []byte{0xff, 0xff, 0xff, 0xff, 0xff, 0xff, 0xff, 0xff})
		f.Add(uint32(63), uint64(1)<<63, []byte{0, 0, 0, 0, 0, 0, 0, 0x80, 1})
		f.Add(uint32(210), uint64(math.MaxUint64/211*210+1), []byte{0x80})
	}
	f.Fuzz(func(t *testing.T, shards uint32, x uint64, key []byte) {
		// 1..512, or one of a few large counts (large instances are cached per count)
		n := uint64(shards)%1024 + 1
		if n > 512 {
			big := []uint64{65521, 65536, 65537, 4096, 10007, 1000}
			n = big[int(n)%len(big)]
		}
		var pad [8]byte
		copy(pad[:], key)
		u := binary.LittleEndian.Uint64(pad[:])
		c := CaseIndex{Shards: n, Keys: []Key{{T: "str", B: key}, {T: "bytes", B: key}, {T: "bs", B: key}, {T: "hit", U: u}}}
		for _, ty := range intTypes {
			c.Keys = append(c.Keys, Key{T: ty, U: normU(ty, u)})
		}
		PartIndex.FuzzOne(t, c)
		y := uint64(math.MaxUint64) / n
		PartSearch.FuzzOne(t, CaseSearch{Shards: n, Xs: []uint64{x, x + 1, x - 1, x / y * y, x/y*y + 1, u}})
	})
}
