package c17remap

// Concurrent use of the sharded containers with SHARED keys: several goroutines
// call Set / Delete / Get / Exist on the same few keys, next to bystander keys
// that are stored before the goroutines start and that nobody writes during
// the race.
//
// The oracle demands only what every interleaving of the calls on the
// unsharded (mutex-guarded) container allows, so no verdict depends on timing:
//   - a bystander key is present with its value in every answer, during the
//     race and at rest: no call on another key can remove it;
//   - a Get of a shared key returns a value somebody stores under that key (or
//     its initial value), absence only if the key starts absent or somebody
//     deletes it; likewise Exist;
//   - a key only one goroutine writes answers that goroutine exactly as its own
//     history fixes;
//   - at rest the state of a shared key is the effect of the LAST write of one
//     of the goroutines that write it (in every linearization the last write
//     overall is the last write of its goroutine), or the initial state if
//     nobody writes it.
//
// Programs are short lists that are repeated Rep times, so that a case makes
// thousands of calls on one container and stays small as data.

import (
	"fmt"
	"sync"

	"pgregory.net/rapid"

	"verifharness/vkit"
)

type ShOp struct {
	Kind string `json:"op"`
	// K < len(Sh): shared key K; otherwise bystander K-len(Sh) (Get / Exist only)
	K int `json:"k"`
	V int `json:"v,omitempty"`
}

type CaseShared struct {
	Fam    string `json:"fam,omitempty"` // as CaseConc.Fam
	Shards uint64 `json:"shards"`
	XHash  bool   `json:"xhash"`
	By     []Key  `json:"by"`  // bystanders: stored (value 5000+i) before the goroutines start
	Sh     []Key  `json:"sh"`  // shared keys
	Pre    []bool `json:"pre"` // per shared key: stored (value 4000+i) before the goroutines start
	// G[g] is the program of goroutine g; it runs Rep times.
	G   [][]ShOp `json:"g"`
	Rep int      `json:"rep"`
}

func GenShared(t *rapid.T) CaseShared {
	var n uint64
	switch k := rapid.IntRange(0, 9).Draw(t, "shardsKind"); {
	case k <= 6:
		n = uint64(rapid.IntRange(1, 3).Draw(t, "shards"))
	case k <= 8:
		n = rapid.SampledFrom([]uint64{7, 73}).Draw(t, "shardsDesign")
	default:
		n = uint64(rapid.IntRange(4, 16).Draw(t, "shardsAny"))
	}
	c := CaseShared{Shards: n, XHash: rapid.Bool().Draw(t, "xhash")}
	c.Fam = rapid.SampledFrom([]string{FamConcMap, FamConcMap, FamConcMap, FamConcMap, FamConcLRU, FamConcTiny}).Draw(t, "fam")
	seen := map[string]bool{}
	draw := func(cnt int) []Key {
		var ks []Key
		for tries := 0; len(ks) < cnt && tries < 40; tries++ {
			k := genKey(t, n, false, !c.XHash)
			if id := keyID(k); !seen[id] {
				seen[id] = true
				ks = append(ks, k)
			}
		}
		return ks
	}
	// few bystanders mostly: a container-wide figure that drifts (a count, a
	// "non-empty" flag) goes wrong sooner when little else is stored
	c.By = draw(rapid.SampledFrom([]int{1, 1, 1, 2, 2, 3, 5}).Draw(t, "bystanders"))
	c.Sh = draw(rapid.SampledFrom([]int{1, 1, 2, 2, 3}).Draw(t, "sharedKeys"))
	if len(c.Sh) == 0 {
		c.Sh = []Key{{T: "str", B: []byte("shared")}}
	}
	for range c.Sh {
		c.Pre = append(c.Pre, rapid.Bool().Draw(t, "pre"))
	}
	maxG := 4
	if vkit.Tier() == "thorough" {
		maxG = 6
	}
	ng := rapid.IntRange(2, maxG).Draw(t, "goroutines")
	c.Rep = rapid.SampledFrom([]int{1, 4, 16, 64, 64, 256}).Draw(t, "rep")
	// twin: all goroutines run the same program (they then do the same call on the
	// same key at about the same time)
	twin := rapid.IntRange(0, 2).Draw(t, "twin") == 0
	prog := func() []ShOp {
		var ops []ShOp
		nops := rapid.IntRange(2, 10).Draw(t, "nops")
		for i := 0; i < nops; i++ {
			var op ShOp
			switch w := rapid.IntRange(0, 19).Draw(t, "opkind"); {
			case w < 6:
				op = ShOp{Kind: OpDelete, K: rapid.IntRange(0, len(c.Sh)-1).Draw(t, "k")}
			case w < 12:
				op = ShOp{Kind: OpSet, K: rapid.IntRange(0, len(c.Sh)-1).Draw(t, "k"), V: rapid.IntRange(0, 9).Draw(t, "v")}
			case w < 14:
				op = ShOp{Kind: OpGet, K: rapid.IntRange(0, len(c.Sh)-1).Draw(t, "k")}
			case w < 15:
				op = ShOp{Kind: OpExist, K: rapid.IntRange(0, len(c.Sh)-1).Draw(t, "k")}
			case w < 18 && len(c.By) > 0:
				op = ShOp{Kind: OpGet, K: len(c.Sh) + rapid.IntRange(0, len(c.By)-1).Draw(t, "by")}
			case len(c.By) > 0:
				op = ShOp{Kind: OpExist, K: len(c.Sh) + rapid.IntRange(0, len(c.By)-1).Draw(t, "by")}
			default:
				op = ShOp{Kind: OpGet, K: 0}
			}
			ops = append(ops, op)
		}
		return ops
	}
	var first []ShOp
	for g := 0; g < ng; g++ {
		if twin && g > 0 {
			c.G = append(c.G, append([]ShOp(nil), first...))
			continue
		}
		p := prog()
		if g == 0 {
			first = p
		}
		c.G = append(c.G, p)
	}
	return c
}

const maxSharedRep = 4096

// shState is a possible state of a key: absent, or present with an int.
type shState struct {
	present bool
	v       int
}

func (s shState) String() string {
	if !s.present {
		return "absent"
	}
	return fmt.Sprintf("present with %d", s.v)
}

func ExecShared(c CaseShared) *vkit.Result {
	res := &vkit.Result{}
	n := c.Shards
	if n < 1 || n > maxConcShards {
		res.Skip("shards-out-of-domain")
		return res
	}
	if len(c.G) > maxConcG || len(c.G) == 0 {
		res.Skip("goroutine-count-out-of-domain")
		return res
	}
	fam, mkv, ok := concFamily(c.Fam)
	if !ok {
		res.Skip("unknown-family")
		return res
	}
	rep := c.Rep
	if rep < 1 {
		rep = 1
	}
	if rep > maxSharedRep {
		rep = maxSharedRep
	}
	// keys: shared first, then bystanders; each value once, inside the container's domain
	nsh := len(c.Sh)
	all := append(append([]Key{}, c.Sh...), c.By...)
	vals := make([]interface{}, len(all))
	usable := make([]bool, len(all))
	seen := map[string]bool{}
	for i, k := range all {
		v, ok := k.iface()
		switch {
		case !ok:
			res.Skip("unknown-key-type")
		case !k.hashable():
			res.Skip("unhashable-key")
		case c.XHash && !k.xhashOK():
			res.Skip("HitGroup-only-key-with-xxhash-routing")
		case seen[keyID(k)]:
			res.Skip("duplicate-key")
		default:
			seen[keyID(k)] = true
			vals[i], usable[i] = v, true
			res.Class("type=" + k.T)
		}
	}
	route := "modulo"
	if c.XHash {
		route = "xxhash"
	}
	wide, _ := fam.mk(n, c.XHash)
	where := fmt.Sprintf("%s, %s routing, %d shards, %d goroutines x %d repetitions", fam.name, route, n, len(c.G), rep)
	// initial contents
	initial := make([]shState, len(all))
	for i := range all {
		if !usable[i] {
			continue
		}
		switch {
		case i >= nsh:
			initial[i] = shState{true, 5000 + (i - nsh)}
		case i < len(c.Pre) && c.Pre[i]:
			initial[i] = shState{true, 4000 + i}
		}
		if initial[i].present {
			wide.SetVal(vals[i], mkv(initial[i].v))
		}
	}
	// what the programs can do to each shared key
	ng := len(c.G)
	written := make([]map[int]bool, nsh) // values a Get may return
	canBeAbsent := make([]bool, nsh)
	canBePresent := make([]bool, nsh)
	writers := make([]map[int]bool, nsh)
	lastWrite := make([]map[int]shState, nsh) // per writing goroutine: effect of its last write
	for k := 0; k < nsh; k++ {
		written[k] = map[int]bool{}
		writers[k] = map[int]bool{}
		lastWrite[k] = map[int]shState{}
		if initial[k].present {
			written[k][initial[k].v] = true
			canBePresent[k] = true
		} else {
			canBeAbsent[k] = true
		}
	}
	valid := func(op ShOp) bool {
		if op.K < 0 || op.K >= len(all) || !usable[op.K] {
			return false
		}
		if op.K >= nsh {
			return op.Kind == OpGet || op.Kind == OpExist
		}
		return op.Kind == OpGet || op.Kind == OpExist || op.Kind == OpSet || op.Kind == OpDelete
	}
	setVal := func(g int, op ShOp) int { return g*1000 + op.V }
	for g, prog := range c.G {
		for _, op := range prog {
			if !valid(op) {
				res.Skip("call-outside-the-domain")
				continue
			}
			switch {
			case op.Kind == OpSet:
				written[op.K][setVal(g, op)] = true
				canBePresent[op.K] = true
				writers[op.K][g] = true
				lastWrite[op.K][g] = shState{true, setVal(g, op)}
				res.Class("shared-set")
			case op.Kind == OpDelete:
				canBeAbsent[op.K] = true
				writers[op.K][g] = true
				lastWrite[op.K][g] = shState{}
				res.Class("shared-delete")
			case op.K >= nsh:
				res.Class("bystander-read-during-the-race")
			default:
				res.Class("shared-read")
			}
		}
	}
	sole := make([]int, nsh) // the only goroutine that writes the key, else -1
	for k := 0; k < nsh; k++ {
		sole[k] = -1
		if len(writers[k]) == 1 {
			for g := range writers[k] {
				sole[k] = g
			}
		}
	}
	fails := make([]*vkit.Failure, ng)
	start := &spinBarrier{n: int32(ng)}
	var wg sync.WaitGroup
	for g := 0; g < ng; g++ {
		wg.Add(1)
		go func(g int) {
			defer wg.Done()
			defer func() {
				if r := recover(); r != nil && fails[g] == nil {
					fails[g] = panicFailure(r, fmt.Sprintf("%s, goroutine %d", where, g))
				}
			}()
			prog := c.G[g]
			own := map[int]shState{} // keys this goroutine alone writes: their state
			for k := 0; k < nsh; k++ {
				if sole[k] == g {
					own[k] = initial[k]
				}
			}
			start.wait()
			for r := 0; r < rep; r++ {
				for i, op := range prog {
					if !valid(op) {
						continue
					}
					key := vals[op.K]
					ctx := func() string {
						return fmt.Sprintf("%s; goroutine %d, repetition %d, call %d, key %v", where, g, r, i, all[op.K])
					}
					switch op.Kind {
					case OpSet:
						wide.SetVal(key, mkv(setVal(g, op)))
						if sole[op.K] == g {
							own[op.K] = shState{true, setVal(g, op)}
						}
					case OpDelete:
						existed, has := wide.Delete(key)
						if sole[op.K] == g {
							if has && existed != own[op.K].present {
								fails[g] = &vkit.Failure{Site: fam.name + "/shared.Delete", Msg: fmt.Sprintf("%s: Delete = %v; this goroutine is the only one that writes the key and left it %v", ctx(), existed, own[op.K])}
								return
							}
							own[op.K] = shState{}
						}
					case OpGet:
						v, ok := wide.Get(key)
						switch {
						case op.K >= nsh:
							if !ok || v != mkv(initial[op.K].v) {
								fails[g] = &vkit.Failure{Site: fam.name + "/shared.bystander", Msg: fmt.Sprintf("%s: Get = (%v,%v) for a key that was stored with %d before the goroutines started and that no call writes or deletes", ctx(), v, ok, initial[op.K].v)}
								return
							}
						case sole[op.K] == g:
							if st := own[op.K]; ok != st.present || (ok && v != mkv(st.v)) {
								fails[g] = &vkit.Failure{Site: fam.name + "/shared.Get", Msg: fmt.Sprintf("%s: Get = (%v,%v); this goroutine is the only one that writes the key and left it %v", ctx(), v, ok, st)}
								return
							}
						case !ok && !canBeAbsent[op.K]:
							fails[g] = &vkit.Failure{Site: fam.name + "/shared.Get", Msg: fmt.Sprintf("%s: Get = (%v,false) though the key was stored before the goroutines started and no call deletes it", ctx(), v)}
							return
						case ok:
							good := false
							for w := range written[op.K] {
								if v == mkv(w) {
									good = true
								}
							}
							if !good {
								fails[g] = &vkit.Failure{Site: fam.name + "/shared.Get", Msg: fmt.Sprintf("%s: Get = (%v,true), a value no call stores under this key", ctx(), v)}
								return
							}
						}
					case OpExist:
						ok := wide.Exist(key)
						switch {
						case op.K >= nsh:
							if !ok {
								fails[g] = &vkit.Failure{Site: fam.name + "/shared.bystander", Msg: fmt.Sprintf("%s: Exist = false for a key that was stored before the goroutines started and that no call writes or deletes", ctx())}
								return
							}
						case sole[op.K] == g:
							if ok != own[op.K].present {
								fails[g] = &vkit.Failure{Site: fam.name + "/shared.Exist", Msg: fmt.Sprintf("%s: Exist = %v; this goroutine is the only one that writes the key and left it %v", ctx(), ok, own[op.K])}
								return
							}
						case (ok && !canBePresent[op.K]) || (!ok && !canBeAbsent[op.K]):
							fails[g] = &vkit.Failure{Site: fam.name + "/shared.Exist", Msg: fmt.Sprintf("%s: Exist = %v, which no order of the calls on this key explains", ctx(), ok)}
							return
						}
					}
				}
			}
		}(g)
	}
	wg.Wait()
	for _, f := range fails {
		if f != nil {
			res.Fail = f
			return res
		}
	}
	// at rest
	for i := range all {
		if !usable[i] {
			continue
		}
		v, ok := wide.Get(vals[i])
		ex := wide.Exist(vals[i])
		if ex != ok {
			return res.Failf(fam.name+"/shared.final", "%s, all goroutines joined: Exist(%v) = %v but Get = (%v,%v)", where, all[i], ex, v, ok)
		}
		if i >= nsh {
			if !ok || v != mkv(initial[i].v) {
				return res.Failf(fam.name+"/shared.bystander", "%s, all goroutines joined: Get(%v) = (%v,%v); the key was stored with %d before the goroutines started and no call writes or deletes it", where, all[i], v, ok, initial[i].v)
			}
			continue
		}
		var cands []shState
		if len(writers[i]) == 0 {
			cands = []shState{initial[i]}
		} else {
			for g := 0; g < ng; g++ {
				if st, w := lastWrite[i][g]; w {
					cands = append(cands, st)
				}
			}
		}
		good := false
		for _, st := range cands {
			if st.present == ok && (!ok || v == mkv(st.v)) {
				good = true
			}
		}
		if !good {
			return res.Failf(fam.name+"/shared.final", "%s, all goroutines joined: Get(%v) = (%v,%v); the last write of every writing goroutine leaves one of %v", where, all[i], v, ok, cands)
		}
	}
	// classification: from the case alone
	multi, doubleDelete := false, false
	for k := 0; k < nsh; k++ {
		if len(writers[k]) >= 2 {
			multi = true
		}
		dels := 0
		for g, prog := range c.G {
			for _, op := range prog {
				if op.K == k && op.Kind == OpDelete && valid(op) {
					dels++
					_ = g
					break
				}
			}
		}
		if dels >= 2 {
			doubleDelete = true
		}
	}
	if multi {
		res.Class("key-written-by-two-goroutines")
	}
	if doubleDelete {
		res.Class("key-deleted-by-two-goroutines")
	}
	for k := 0; k < nsh; k++ {
		if sole[k] >= 0 {
			res.Class("key-with-a-single-writer-and-foreign-readers")
			break
		}
	}
	bys := 0
	for i := nsh; i < len(all); i++ {
		if usable[i] {
			bys++
		}
	}
	res.Class(fmt.Sprintf("bystanders=%d", bys))
	res.Class("family=" + fam.name)
	res.Class(fmt.Sprintf("goroutines=%d", ng))
	res.Class("routing=" + route)
	switch {
	case rep >= 64:
		res.Class("repetitions>=64")
	case rep >= 4:
		res.Class("repetitions=4..63")
	default:
		res.Class("repetitions<4")
	}
	if n <= 3 || n == 7 || n == 73 {
		res.Class(fmt.Sprintf("shards=%d", n))
	} else {
		res.Class("shards=other")
	}
	res.NonTrivial = multi && bys >= 1
	return res
}

const sharedRule = "rapid: family (cache.WideMap 2/3, cache.WideLRUCache, tiny.WideLRUCache) x shard count (1..3 at 70%, 7|73, 4..16) x modulo|xxhash routing x 1-5 bystander keys (mostly 1-2; stored before the start, never written afterwards) x 1-3 shared keys (each stored beforehand or not) x 2-4 goroutines (2-6 thorough) with a program of 2-10 calls Set/Delete (60%)/Get/Exist on the shared keys and Get/Exist on the bystanders, repeated 1|4|16|64|256 times; in a third of the cases all goroutines run the same program; fresh container per case, spin barrier. Oracle (what every interleaving on the mutex-guarded unsharded container allows; nothing depends on timing): bystanders are present with their value in every answer during the race and at rest; a Get of a shared key returns a value some call stores under it (or its initial one), absence / presence only if some call can cause it; a key written by one goroutine only answers that goroutine exactly; at rest Exist agrees with Get and every shared key is in the state the last write of one of its writers leaves (initial state if nobody writes it); no panic. Non-trivial: some key written by >= 2 goroutines and >= 1 bystander; distinct = distinct case JSON"

var PartShared = &vkit.Part[CaseShared]{
	Property: Property, Name: "wide-shared",
	Rule:  sharedRule,
	Quick: 1500, Thorough: 4000,
	Gen: GenShared, Exec: ExecShared,
}

// PartSharedRace is the same part in the -race binary.
var PartSharedRace = &vkit.Part[CaseShared]{
	Property: Property, Name: "race-wide-shared",
	Rule:  "the -race build of part wide-shared (same generator and oracle; additionally every data race the detector reports is a failure). " + sharedRule,
	Quick: 300, Thorough: 1200,
	Gen: GenShared, Exec: ExecShared,
}
