package c17remap

// Determinism across processes. Every other oracle of this package is relative
// (two calls, two instances, the partition of the key's own hash): a hash that
// is salted per process satisfies all of them and still sends the keys of data
// that outlives the process (sharded tables, files, remote shards) somewhere
// else after every restart. "Deterministic" means a function of the key and the
// shard count alone, so it includes "the same in every process": this part
// starts the test binary a second time (a child process that only computes the
// hash and the indices of the table's keys and prints them) and demands that
// this process computes the same. Nothing is pinned to recorded numbers - an
// implementation is free to choose its encodings - except the three published
// XXH64 (seed 0) test vectors for the strings "", "a" and "abc": the function is
// called XXHash and documents "use xxhash".

import (
	"bufio"
	"bytes"
	"encoding/json"
	"fmt"
	"os"
	"os/exec"
	"sync"

	"github.com/pinealctx/neptune/remap"
	"pgregory.net/rapid"

	"verifharness/vkit"
)

// CaseKnown: one key of the table.
type CaseKnown struct {
	Key Key `json:"key"`
}

func KnownCases() []CaseKnown { return knownTable }

// knownRow is what one process computes for one key.
type knownRow struct {
	Hash uint64 `json:"hash"`
	X    []int  `json:"x"`
	S    []int  `json:"s"`
}

func computeKnown(k Key) (knownRow, bool) {
	v, ok := k.iface()
	if !ok {
		return knownRow{}, false
	}
	var row knownRow
	if k.xhashOK() {
		row.Hash = remap.XXHash(v)
	}
	for _, n := range knownShards {
		r, _ := instances(n)
		if k.xhashOK() {
			row.X = append(row.X, r.XHashIndex(v))
		}
		row.S = append(row.S, r.SimpleIndex(v))
	}
	return row, true
}

const knownChildEnv = "VERIF_C17_KNOWN_CHILD"

// KnownChildMain is the body of the child process: one JSON row per table key on stdout.
func KnownChildMain() {
	w := bufio.NewWriter(os.Stdout)
	enc := json.NewEncoder(w)
	for _, c := range knownTable {
		row, _ := computeKnown(c.Key)
		_ = enc.Encode(row)
	}
	_ = w.Flush()
}

var (
	childOnce sync.Once
	childRows []knownRow
	childErr  error
)

func otherProcess() ([]knownRow, error) {
	childOnce.Do(func() {
		exe, err := os.Executable()
		if err != nil {
			childErr = err
			return
		}
		cmd := exec.Command(exe, "-test.run", "^$")
		cmd.Env = append(os.Environ(), knownChildEnv+"=1")
		var out, errb bytes.Buffer
		cmd.Stdout, cmd.Stderr = &out, &errb
		if err := cmd.Run(); err != nil {
			childErr = fmt.Errorf("child process: %v: %s", err, errb.String())
			return
		}
		dec := json.NewDecoder(&out)
		for dec.More() {
			var row knownRow
			if err := dec.Decode(&row); err != nil {
				childErr = fmt.Errorf("child process output: %v", err)
				return
			}
			childRows = append(childRows, row)
		}
		if len(childRows) != len(knownTable) {
			childErr = fmt.Errorf("child process printed %d rows for %d keys", len(childRows), len(knownTable))
		}
	})
	return childRows, childErr
}

// published XXH64 (seed 0) vectors
var publishedXXH64 = map[string]uint64{"": 0xef46db3751d8e999, "a": 0xd24ec4f1a98c6e5b, "abc": 0x44bc2cf5ad770999}

func ExecKnown(c CaseKnown) *vkit.Result {
	res := &vkit.Result{}
	here, ok := computeKnown(c.Key)
	if !ok {
		res.Skip("unknown-key-type")
		return res
	}
	idx := -1
	for i := range knownTable {
		if knownTable[i].Key.String() == c.Key.String() && knownTable[i].Key.T == c.Key.T {
			idx = i
			break
		}
	}
	if idx < 0 {
		res.Skip("key-outside-the-table")
		return res
	}
	rows, err := otherProcess()
	if err != nil {
		vkit.Infra("C17 known-answers: %v", err)
	}
	there := rows[idx]
	classifyKey(res, c.Key)
	if c.Key.xhashOK() {
		if here.Hash != there.Hash {
			return res.Failf("XXHash/other-process", "XXHash(%v) = %#016x in this process and %#016x in a second process of the same binary (keys of stored data would move to other shards after a restart)", c.Key, here.Hash, there.Hash)
		}
		if c.Key.T == "str" {
			if want, pub := publishedXXH64[string(c.Key.B)]; pub && here.Hash != want {
				return res.Failf("XXHash/known-answer", "XXHash(%q) = %#016x; the published XXH64 (seed 0) vector is %#016x", c.Key.B, here.Hash, want)
			}
		}
		res.Class("hash-same-in-another-process")
	}
	for j, n := range knownShards {
		if j < len(here.X) && j < len(there.X) {
			if here.X[j] != there.X[j] {
				return res.Failf("XHashIndex/other-process", "XHashIndex(%v) with %d shards = %d in this process and %d in a second process of the same binary", c.Key, n, here.X[j], there.X[j])
			}
			if want := refIndex(n, here.Hash); want != here.X[j] {
				return res.Failf("XHashIndex/partition", "XHashIndex(%v) with %d shards = %d, but the hash %#x lies in part %d", c.Key, n, here.X[j], here.Hash, want)
			}
		}
		if j < len(here.S) && j < len(there.S) && here.S[j] != there.S[j] {
			return res.Failf("SimpleIndex/other-process", "SimpleIndex(%v) with %d shards = %d in this process and %d in a second process of the same binary", c.Key, n, here.S[j], there.S[j])
		}
	}
	res.NonTrivial = true
	return res
}

var PartKnown = &vkit.Part[CaseKnown]{
	Property: Property, Name: "known-answers",
	Rule: fmt.Sprintf("enumeration of a literal table of %d keys (every integer type at 0, 1, 10001 and its extremes; the contents \"\", a, abc, user:10001, a NUL byte, two high bytes and an 80-byte text as string, []byte and Bs implementer; HitGroup-only keys): XXHash(key) and SimpleIndex / XHashIndex for the shard counts {2,7,73,211,65521} computed in this process must equal what a second process of the same test binary computes (determinism across processes, which no relative oracle can see); the strings \"\", a, abc must hash to the published XXH64 vectors. Complete for the table only", len(knownTable)),
	Gen:  func(t *rapid.T) CaseKnown { return rapid.SampledFrom(knownTable).Draw(t, "known") },
	Exec: ExecKnown,
}

var knownShards = []uint64{2, 7, 73, 211, 65521}

var knownTable = []CaseKnown{
	{Key: Key{T: "u8", U: 0x0}},
	{Key: Key{T: "u8", U: 0x1}},
	{Key: Key{T: "u8", U: 0x11}},
	{Key: Key{T: "u8", U: 0x7f}},
	{Key: Key{T: "u8", U: 0x80}},
	{Key: Key{T: "u8", U: 0xff}},
	{Key: Key{T: "i8", U: 0x0}},
	{Key: Key{T: "i8", U: 0x1}},
	{Key: Key{T: "i8", U: 0x11}},
	{Key: Key{T: "i8", U: 0x7f}},
	{Key: Key{T: "i8", U: 0xffffffffffffff80}},
	{Key: Key{T: "i8", U: 0xffffffffffffffff}},
	{Key: Key{T: "i16", U: 0x0}},
	{Key: Key{T: "i16", U: 0x1}},
	{Key: Key{T: "i16", U: 0x2711}},
	{Key: Key{T: "i16", U: 0x7f}},
	{Key: Key{T: "i16", U: 0x80}},
	{Key: Key{T: "i16", U: 0xff}},
	{Key: Key{T: "i16", U: 0x7fff}},
	{Key: Key{T: "i16", U: 0xffffffffffff8000}},
	{Key: Key{T: "i16", U: 0xffffffffffffffff}},
	{Key: Key{T: "u16", U: 0x0}},
	{Key: Key{T: "u16", U: 0x1}},
	{Key: Key{T: "u16", U: 0x2711}},
	{Key: Key{T: "u16", U: 0x7f}},
	{Key: Key{T: "u16", U: 0x80}},
	{Key: Key{T: "u16", U: 0xff}},
	{Key: Key{T: "u16", U: 0x7fff}},
	{Key: Key{T: "u16", U: 0x8000}},
	{Key: Key{T: "u16", U: 0xffff}},
	{Key: Key{T: "i32", U: 0x0}},
	{Key: Key{T: "i32", U: 0x1}},
	{Key: Key{T: "i32", U: 0x2711}},
	{Key: Key{T: "i32", U: 0x7f}},
	{Key: Key{T: "i32", U: 0x80}},
	{Key: Key{T: "i32", U: 0xff}},
	{Key: Key{T: "i32", U: 0x7fff}},
	{Key: Key{T: "i32", U: 0x8000}},
	{Key: Key{T: "i32", U: 0x7fffffff}},
	{Key: Key{T: "i32", U: 0xffffffff80000000}},
	{Key: Key{T: "i32", U: 0xffffffffffffffff}},
	{Key: Key{T: "u32", U: 0x0}},
	{Key: Key{T: "u32", U: 0x1}},
	{Key: Key{T: "u32", U: 0x2711}},
	{Key: Key{T: "u32", U: 0x7f}},
	{Key: Key{T: "u32", U: 0x80}},
	{Key: Key{T: "u32", U: 0xff}},
	{Key: Key{T: "u32", U: 0x7fff}},
	{Key: Key{T: "u32", U: 0x8000}},
	{Key: Key{T: "u32", U: 0x7fffffff}},
	{Key: Key{T: "u32", U: 0x80000000}},
	{Key: Key{T: "u32", U: 0xffffffff}},
	{Key: Key{T: "i64", U: 0x0}},
	{Key: Key{T: "i64", U: 0x1}},
	{Key: Key{T: "i64", U: 0x2711}},
	{Key: Key{T: "i64", U: 0x7f}},
	{Key: Key{T: "i64", U: 0x80}},
	{Key: Key{T: "i64", U: 0xff}},
	{Key: Key{T: "i64", U: 0x7fff}},
	{Key: Key{T: "i64", U: 0x8000}},
	{Key: Key{T: "i64", U: 0x7fffffff}},
	{Key: Key{T: "i64", U: 0x80000000}},
	{Key: Key{T: "i64", U: 0xffffffff}},
	{Key: Key{T: "i64", U: 0x7fffffffffffffff}},
	{Key: Key{T: "i64", U: 0x8000000000000000}},
	{Key: Key{T: "i64", U: 0xffffffffffffffff}},
	{Key: Key{T: "u64", U: 0x0}},
	{Key: Key{T: "u64", U: 0x1}},
	{Key: Key{T: "u64", U: 0x2711}},
	{Key: Key{T: "u64", U: 0x7f}},
	{Key: Key{T: "u64", U: 0x80}},
	{Key: Key{T: "u64", U: 0xff}},
	{Key: Key{T: "u64", U: 0x7fff}},
	{Key: Key{T: "u64", U: 0x8000}},
	{Key: Key{T: "u64", U: 0x7fffffff}},
	{Key: Key{T: "u64", U: 0x80000000}},
	{Key: Key{T: "u64", U: 0xffffffff}},
	{Key: Key{T: "u64", U: 0x7fffffffffffffff}},
	{Key: Key{T: "u64", U: 0x8000000000000000}},
	{Key: Key{T: "u64", U: 0xffffffffffffffff}},
	{Key: Key{T: "int", U: 0x0}},
	{Key: Key{T: "int", U: 0x1}},
	{Key: Key{T: "int", U: 0x2711}},
	{Key: Key{T: "int", U: 0x7f}},
	{Key: Key{T: "int", U: 0x80}},
	{Key: Key{T: "int", U: 0xff}},
	{Key: Key{T: "int", U: 0x7fff}},
	{Key: Key{T: "int", U: 0x8000}},
	{Key: Key{T: "int", U: 0x7fffffff}},
	{Key: Key{T: "int", U: 0x80000000}},
	{Key: Key{T: "int", U: 0xffffffff}},
	{Key: Key{T: "int", U: 0x7fffffffffffffff}},
	{Key: Key{T: "int", U: 0x8000000000000000}},
	{Key: Key{T: "int", U: 0xffffffffffffffff}},
	{Key: Key{T: "uint", U: 0x0}},
	{Key: Key{T: "uint", U: 0x1}},
	{Key: Key{T: "uint", U: 0x2711}},
	{Key: Key{T: "uint", U: 0x7f}},
	{Key: Key{T: "uint", U: 0x80}},
	{Key: Key{T: "uint", U: 0xff}},
	{Key: Key{T: "uint", U: 0x7fff}},
	{Key: Key{T: "uint", U: 0x8000}},
	{Key: Key{T: "uint", U: 0x7fffffff}},
	{Key: Key{T: "uint", U: 0x80000000}},
	{Key: Key{T: "uint", U: 0xffffffff}},
	{Key: Key{T: "uint", U: 0x7fffffffffffffff}},
	{Key: Key{T: "uint", U: 0x8000000000000000}},
	{Key: Key{T: "uint", U: 0xffffffffffffffff}},
	{Key: Key{T: "str", B: []byte("")}},
	{Key: Key{T: "bytes", B: []byte("")}},
	{Key: Key{T: "bs", B: []byte("")}},
	{Key: Key{T: "str", B: []byte("a")}},
	{Key: Key{T: "bytes", B: []byte("a")}},
	{Key: Key{T: "bs", B: []byte("a")}},
	{Key: Key{T: "str", B: []byte("abc")}},
	{Key: Key{T: "bytes", B: []byte("abc")}},
	{Key: Key{T: "bs", B: []byte("abc")}},
	{Key: Key{T: "str", B: []byte("user:10001")}},
	{Key: Key{T: "bytes", B: []byte("user:10001")}},
	{Key: Key{T: "bs", B: []byte("user:10001")}},
	{Key: Key{T: "str", B: []byte("\x00")}},
	{Key: Key{T: "bytes", B: []byte("\x00")}},
	{Key: Key{T: "bs", B: []byte("\x00")}},
	{Key: Key{T: "str", B: []byte("\xff\xfe")}},
	{Key: Key{T: "bytes", B: []byte("\xff\xfe")}},
	{Key: Key{T: "bs", B: []byte("\xff\xfe")}},
	{Key: Key{T: "str", B: []byte("0123456789abcdef0123456789abcdef0123456789abcdef0123456789abcdef0123456789abcdef")}},
	{Key: Key{T: "bytes", B: []byte("0123456789abcdef0123456789abcdef0123456789abcdef0123456789abcdef0123456789abcdef")}},
	{Key: Key{T: "bs", B: []byte("0123456789abcdef0123456789abcdef0123456789abcdef0123456789abcdef0123456789abcdef")}},
	{Key: Key{T: "hit", U: 0x0}},
	{Key: Key{T: "hit", U: 0x1}},
	{Key: Key{T: "hit", U: 0x48}},
	{Key: Key{T: "hit", U: 0x49}},
	{Key: Key{T: "hit", U: 0xfff1}},
	{Key: Key{T: "hit", U: 0x8000000000000000}},
	{Key: Key{T: "hit", U: 0xffffffffffffffff}},
}
