package c12queue

// part "deep": the same statement far from the small numbers of the step parts - thousands of residents in
// unbounded queues, capacities of 64 ... 70000 filled to the brim, thousands of add/take rounds on ONE instance with
// a few residents (internal counters, slices and free lists age), and items that are equal to one another (the model
// is a sequence, so the order of equal items is not asked for, their number is).

import (
	"fmt"
	"sort"

	"pgregory.net/rapid"

	"verifharness/qadapt"
	"verifharness/vkit"
)

type DeepCase struct {
	Kind string `json:"kind"`
	Ctor int    `json:"ctor,omitempty"`
	// capacity of the request lane (priority queue: of the queue); 0 = unbounded (not for the priority queue)
	Cap     int `json:"cap"`
	CapCtrl int `json:"cap_ctrl,omitempty"`
	// items added first; the ones beyond a bound must be refused
	Fill int `json:"fill"`
	// items are i % Vals: 1 = all equal
	Vals int `json:"vals"`
	// priority queue: priorities are drawn from PriSpan values by a fixed rule (1 = all tie)
	PriSpan int `json:"pri_span,omitempty"`
	// two-lane queue: every CtrlEvery-th item goes to the control lane (0 = none)
	CtrlEvery int `json:"ctrl_every,omitempty"`
	// take all but Residents items, then Rounds rounds of (add one, take one), then drain
	Residents int `json:"residents"`
	Rounds    int `json:"rounds"`
	// take with PopAnyway instead of Pop (pipe queues); TryPop instead of Pop (sync queue)
	AltPop bool `json:"alt_pop,omitempty"`
}

var deepCaps = []int{64, 100, 127, 128, 129, 255, 256, 512, 513, 1000, 1023, 1024, 1025, 4096}

func GenDeep(t *rapid.T) DeepCase {
	c := DeepCase{Kind: rapid.SampledFrom(qadapt.AllKinds).Draw(t, "kind")}
	c.Ctor = rapid.IntRange(0, qadapt.NCtors-1).Draw(t, "ctor")
	bounded := rapid.Bool().Draw(t, "bounded") || c.Kind == qadapt.KindPri
	if c.Kind == qadapt.KindSync {
		bounded = false
	}
	if bounded {
		c.Cap = rapid.SampledFrom(deepCaps).Draw(t, "cap")
		if rapid.IntRange(0, 19).Draw(t, "hugecap") == 0 {
			c.Cap = rapid.SampledFrom([]int{32767, 32768, 65535, 65536, 70000}).Draw(t, "hcap")
		}
		c.Fill = c.Cap + rapid.IntRange(0, 3).Draw(t, "over")
		if rapid.IntRange(0, 3).Draw(t, "partfill") == 0 {
			c.Fill = rapid.IntRange(c.Cap/2, c.Cap).Draw(t, "fillb")
		}
	} else {
		c.Fill = rapid.SampledFrom([]int{40, 100, 300, 1023, 1024, 1025, 1100, 2500, 6000}).Draw(t, "fill")
	}
	if c.Kind == qadapt.KindMQ {
		c.CtrlEvery = rapid.SampledFrom([]int{0, 1, 2, 3, 10}).Draw(t, "ctrlevery")
		if c.CtrlEvery > 0 && rapid.Bool().Draw(t, "ctrlbound") {
			c.CapCtrl = rapid.SampledFrom([]int{1, 7, 64, 300, 1024}).Draw(t, "capctrl")
		}
	}
	c.Vals = rapid.SampledFrom([]int{1, 2, 3, 7, 1 << 30}).Draw(t, "vals")
	if c.Kind == qadapt.KindPri {
		c.PriSpan = rapid.SampledFrom([]int{1, 1, 2, 3, 5}).Draw(t, "prispan")
	}
	c.Residents = rapid.SampledFrom([]int{0, 1, 2, 3, 5, 17}).Draw(t, "residents")
	c.Rounds = rapid.SampledFrom([]int{0, 70, 130, 300, 1100, 5000}).Draw(t, "rounds")
	if rapid.IntRange(0, 29).Draw(t, "longrun") == 0 {
		c.Rounds = rapid.SampledFrom([]int{33000, 40000, 66000}).Draw(t, "xrounds")
	}
	c.AltPop = rapid.Bool().Draw(t, "altpop")
	return c
}

type deepItem struct{ v, pri, seq int }

func ExecDeep(c DeepCase) *vkit.Result {
	return guarded(func(res *vkit.Result, cur *func() string, release *func()) { execDeep(c, res, cur, release) })
}

func execDeep(c DeepCase, res *vkit.Result, cur *func() string, release *func()) *vkit.Result {
	okKind := false
	for _, k := range qadapt.AllKinds {
		okKind = okKind || k == c.Kind
	}
	if !okKind || c.Cap < 0 || c.Cap > 100000 || c.CapCtrl < 0 || c.CapCtrl > 100000 || c.Fill < 0 || c.Fill > 110000 ||
		c.Vals < 1 || c.Rounds < 0 || c.Rounds > 100000 || c.Residents < 0 || c.Ctor < 0 || c.Ctor >= qadapt.NCtors ||
		c.CtrlEvery < 0 || c.PriSpan < 0 || (c.Kind == qadapt.KindPri && c.PriSpan < 1) {
		res.Skip("malformed-config")
		return res
	}
	isPri, isSync, isMQ := c.Kind == qadapt.KindPri, c.Kind == qadapt.KindSync, c.Kind == qadapt.KindMQ
	caps := [2]int{c.Cap, c.CapCtrl}
	if isSync {
		caps = [2]int{}
	}
	if !isMQ {
		caps[1] = 0
	}
	q := qadapt.NewCtor(c.Kind, caps[0], caps[1], anywayPause, c.Ctor)
	if q.Close != nil {
		*release = q.Close
	}
	// model: FIFO lanes, or for the priority queue one list kept in hand-out order
	var lanes [2][]deepItem
	var pri []deepItem
	seq := 0
	size := func() int { return len(lanes[0]) + len(lanes[1]) + len(pri) }
	cfg := fmt.Sprintf("%s (capacity %d/%d, constructor way %d)", c.Kind, caps[0], caps[1], c.Ctor)
	curPhase, curCall := "", ""
	*cur = func() string {
		return fmt.Sprintf("%s, %s: %s after %d adds, the model holding %d items", cfg, curPhase, curCall, seq, size())
	}
	add := func(phase string) bool {
		seq++
		curPhase, curCall = phase, "add"
		it := deepItem{v: seq % c.Vals, seq: seq}
		if isPri {
			it.pri = (seq * 7) % c.PriSpan
			want := qadapt.Accepted
			if len(pri) >= caps[0] {
				want = qadapt.Full
			}
			if got := q.PushPri(it.v, it.pri); got != want {
				res.Failf("deep/capacity", "%s, %s: push number %d (priority %d) with %d items inside: outcome %v, want %v", cfg, phase, seq, it.pri, len(pri), got, want)
				return false
			}
			if want == qadapt.Accepted {
				// hand-out order: higher priority first, first in among equals
				at := sort.Search(len(pri), func(i int) bool { return pri[i].pri < it.pri })
				pri = append(pri, deepItem{})
				copy(pri[at+1:], pri[at:])
				pri[at] = it
			} else {
				res.Class("deep-refused-at-capacity")
			}
			return true
		}
		lane := qadapt.LaneReq
		if isMQ && c.CtrlEvery > 0 && seq%c.CtrlEvery == 0 {
			lane = qadapt.LaneCtrl
		}
		want := qadapt.Accepted
		if caps[lane] > 0 && len(lanes[lane]) >= caps[lane] {
			want = qadapt.Full
		}
		if got := q.Add(lane, it.v); got != want {
			res.Failf("deep/capacity", "%s, %s: add number %d to lane %d holding %d items: outcome %v, want %v", cfg, phase, seq, lane, len(lanes[lane]), got, want)
			return false
		}
		if want == qadapt.Accepted {
			lanes[lane] = append(lanes[lane], it)
		} else {
			res.Class("deep-refused-at-capacity")
		}
		return true
	}
	take := func(phase string) bool {
		curPhase, curCall = phase, "take"
		var want deepItem
		switch {
		case isPri:
			want, pri = pri[0], pri[1:]
		case len(lanes[1]) > 0:
			want, lanes[1] = lanes[1][0], lanes[1][1:]
		default:
			want, lanes[0] = lanes[0][0], lanes[0][1:]
		}
		switch {
		case isPri:
			v, p, ok := q.PopPri()
			if !ok || v != want.v || p != want.pri {
				res.Failf("deep/order", "%s, %s: Pop = (item %d, priority %d, ok %v), want item %d priority %d (push number %d); %d items stay inside", cfg, phase, v, p, ok, want.v, want.pri, want.seq, size())
				return false
			}
		case isSync && c.AltPop:
			v, ok, closed := q.TryPop()
			if !ok || closed || v != want.v {
				res.Failf("deep/order", "%s, %s: TryPop = (item %d, ok %v, closed %v), want item %d (add number %d); %d items stay inside", cfg, phase, v, ok, closed, want.v, want.seq, size())
				return false
			}
		default:
			pop := q.Pop
			if c.AltPop {
				pop = q.PopAnyway
			}
			v, closed, err := pop()
			if err != nil || closed || v != want.v {
				res.Failf("deep/order", "%s, %s: pop = (item %d, closed %v, err %v), want item %d (add number %d); %d items stay inside", cfg, phase, v, closed, err, want.v, want.seq, size())
				return false
			}
		}
		return true
	}
	lenOK := func(phase string) bool {
		if q.Len != nil && q.Len() != size() {
			res.Failf("deep/len", "%s, %s: Len = %d, the model holds %d", cfg, phase, q.Len(), size())
			return false
		}
		return true
	}
	for i := 0; i < c.Fill; i++ {
		if !add("fill") {
			return res
		}
	}
	if !lenOK("after the fill") {
		return res
	}
	filled := size()
	for size() > c.Residents {
		if !take("first drain") {
			return res
		}
	}
	for r := 0; r < c.Rounds; r++ {
		if !add("rounds") {
			return res
		}
		if size() > 0 && !take("rounds") {
			return res
		}
	}
	if !lenOK("after the rounds") {
		return res
	}
	// close; what stays inside comes out in order through the draining entry point, then the queue reports closed / empty
	left := size()
	if q.Close != nil {
		q.Close()
	}
	c.AltPop = !isSync // PopAnyway drains a closed pipe queue; the sync queue's Pop does
	for size() > 0 {
		if !take("final drain") {
			return res
		}
	}
	switch {
	case isPri:
		if v, _, ok := q.PopPri(); ok {
			return res.Failf("deep/invented", "%s: Pop on the drained queue returned item %d", cfg, v)
		}
	default:
		if v, closed, err := q.PopAnyway(); err != nil || !closed {
			return res.Failf("deep/invented", "%s: the drained and closed queue hands out item %d (err %v) instead of reporting closed", cfg, v, err)
		}
	}
	switch {
	case filled >= 1000:
		res.Class("deep-1000-or-more-residents")
	case filled >= 64:
		res.Class("deep-64-or-more-residents")
	}
	if caps[0] >= 64 && filled >= caps[0] {
		res.Class("deep-large-capacity-filled")
	}
	if c.Rounds >= 1000 {
		res.Class("deep-1000-or-more-rounds")
	}
	if c.Rounds > 32768 {
		res.Class("deep-more-than-32768-rounds")
	}
	if c.Vals <= 3 {
		res.Class("deep-equal-items")
	}
	if left > 0 {
		res.Class("deep-closed-with-residue")
	}
	res.NonTrivial = filled >= 64 || c.Rounds >= 70
	return res
}

var PartDeep = &vkit.Part[DeepCase]{
	Property: Property, Name: "deep",
	Rule:  "rapid: any of the six queue types, built in one of four equivalent ways of writing the constructor call (all size options / options for size 0 left out / the two-lane queue's options reversed / after another queue of the type with other sizes was built), unbounded with 40-6000 residents or bounded with capacity 64-4096 (5%: 32767-70000) filled to 0-3 items beyond the bound (a quarter: partly filled); items i mod {1,2,3,7,2^30} (equal items), priorities from 1-5 values, every 0/1st/2nd/3rd/10th item on the control lane (optionally bounded); then all but 0-17 residents taken, 0-5000 (3%: 33000-66000) rounds of add-one/take-one on the same instance, close, ordered drain. Oracle: sequence model per lane (priority queue: hand-out order list): every add accepted below the bound and refused at it, every take returns the model's head, Len equals the model after fill and rounds, the drained queue hands out nothing more. Non-trivial: at least 64 residents or 70 rounds; distinct = distinct case JSON",
	Quick: 500, Thorough: 4000,
	Gen: GenDeep, Exec: ExecDeep,
}
