package c12queue

import (
	"testing"

	"verifharness/vkit"
)

func TestMain(m *testing.M) { vkit.Main(m) }

func TestProp_PipeQ(t *testing.T)     { PartQ.Run(t) }
func TestProp_PipeAsync(t *testing.T) { PartAsync.Run(t) }
func TestProp_PipeMux(t *testing.T)   { PartMux.Run(t) }
func TestProp_PipeMQ(t *testing.T)    { PartMQ.Run(t) }
func TestProp_SyncQ(t *testing.T)     { PartSync.Run(t) }
func TestProp_PriQ(t *testing.T)      { PartPri.Run(t) }
func TestProp_Deep(t *testing.T)      { PartDeep.Run(t) }
func TestProp_Saw(t *testing.T)       { PartSaw.Run(t) }

func TestReplay(t *testing.T) {
	for _, p := range []*vkit.Part[Case]{PartQ, PartAsync, PartMux, PartMQ, PartSync, PartPri} {
		p.Replay(t, 1)
	}
	PartDeep.Replay(t, 1)
	PartSaw.Replay(t, 1)
}
