package c12queue

import (
	"fmt"
	"strings"
	"time"

	"verifharness/vkit"
)

// guarded runs one sequential history on its own goroutine. The histories are built so that no call of a correct
// queue blocks (pops only where the model holds an item or the queue is closed, Add*Anyway only below the bound); a
// queue that lost an item, or counts wrongly, makes such a call wait or poll for ever. That is decided from the
// goroutine snapshot, not waited for: the history's goroutine parked inside the library with nobody left who could
// wake it, or asleep inside an Add*Anyway entry point (which sleeps only after its add was refused as full - and in
// a sequential history a refused add stays refused). cur tells what the history was doing; release closes the queue
// (ends a polling Add*Anyway).
func guarded(run func(res *vkit.Result, cur *func() string, release *func())) *vkit.Result {
	res := &vkit.Result{}
	cur, release := new(func() string), new(func())
	*cur = func() string { return "the history" }
	sched := vkit.NewSched()
	sched.FullStacks = true
	op := sched.Go("history", func() { run(res, cur, release) })
	parked, polling, err := sched.QuiesceUnless(func(busy, _ []vkit.GState) bool {
		for _, g := range busy {
			if g.State != "sleep" || !strings.Contains(g.Stack, "Anyway") {
				return false
			}
		}
		return true
	})
	if err != nil {
		vkit.Infra("%v", err)
	}
	if !polling && op.Done() {
		if p := op.Panic(); p != nil {
			panic(p)
		}
		return res
	}
	out := &vkit.Result{Classes: res.Classes, Skipped: res.Skipped}
	doing := (*cur)()
	if polling {
		if *release != nil {
			(*release)() // a closed queue ends the retry loop; the history then ends at its next comparison
			sched.MustQuiesce()
		}
		return out.Failf("capacity", "%s: the Add*Anyway entry point sleeps and retries, i.e. its add was refused as full, although the model's lane is below its bound", doing)
	}
	where := ""
	for _, g := range parked {
		if strings.Contains(g.Stack, "c12queue") {
			for _, ln := range strings.Split(g.Stack, "\n") {
				if strings.Contains(ln, "pinealctx/neptune") && !strings.HasPrefix(ln, "\t") {
					where = fmt.Sprintf(" (parked in %s, state %q)", strings.TrimSpace(ln), g.State)
					break
				}
			}
		}
	}
	if where == "" {
		vkit.Infra("C12: the history's goroutine neither returned nor is parked inside the library: %v", parked)
	}
	return out.Failf("blocks", "%s: the call does not return%s although nothing in a sequential history can wake it: an item the model holds is not inside the queue, or the queue counts wrongly", doing, where)
}

// anywayPause is the pause handed to the Add*Anyway entry points. In these histories a correct queue never pauses;
// one that does is then asleep nearly all the time, so the guard's snapshots agree quickly.
const anywayPause = 20 * time.Millisecond
