package c12queue

// part "saw": few, long histories written as PHASES (an operation repeated up to N times, or until the instance holds
// a given number of items) on one to three live instances of one queue type, every call checked against the same
// models as in the step parts. The shapes the generator composes are the ones the fixed shape of part "deep" leaves
// out: sawtooth occupancy (fill, partial drain with mixed pop flavours, refill beyond the earlier high-water mark,
// full drain and large again), prior adds far beyond a bound, close with thousands of residents followed by every
// post-close call, add-one/take-one rounds - and further live instances of the same type whose own small or large
// histories are interleaved with the first one's, call group by call group.

import (
	"fmt"
	"sort"

	"pgregory.net/rapid"

	"verifharness/qadapt"
	"verifharness/vkit"
)

type SawQueue struct {
	Cap     int `json:"cap"`
	CapCtrl int `json:"cap_ctrl,omitempty"`
	Ctor    int `json:"ctor,omitempty"`
}

type SawPhase struct {
	// instance the phase goes to
	Q int `json:"q,omitempty"`
	// add | prior | pop | popanyway | trypop | close | tryclose | tryclear | rounds (add one, take one) | push | poppri
	Op string `json:"op"`
	// calls at most (rounds: pairs of calls)
	N      int  `json:"n"`
	Lane   int  `json:"lane,omitempty"`
	Anyway bool `json:"anyway,omitempty"`
	// UseStop: the phase ends as soon as the instance's model holds Stop items (adds: at least, takes: at most)
	UseStop bool `json:"use_stop,omitempty"`
	Stop    int  `json:"stop,omitempty"`
	// priority queue: priorities of the phase's pushes are (push number * 7) mod PriSpan
	PriSpan int `json:"pri_span,omitempty"`
	// rounds: the take flavour (pop | popanyway | trypop)
	Take string `json:"take,omitempty"`
}

type SawCase struct {
	Kind string `json:"kind"`
	// 0 = all instances built before the first phase, in order; 1 = the same, instance 0 last; 2 = each right before
	// its first phase
	Build  int        `json:"build,omitempty"`
	Queues []SawQueue `json:"queues"`
	Phases []SawPhase `json:"phases"`
}

// ---------------------------------------------------------------------------
// generator: one program per instance from a shape, then merged (order within an instance kept, long phases cut in
// two so that the other instances' calls fall between the calls of one phase)

var sawMarks = []int{15, 16, 17, 31, 32, 33, 63, 64, 65, 127, 128, 129, 255, 256, 257, 1023, 1024, 1025}

type sawGen struct {
	t                   *rapid.T
	kind                string
	isSync, isMQ, isPri bool
}

func (g *sawGen) lane() int {
	if g.isMQ && rapid.Bool().Draw(g.t, "ctrl") {
		return qadapt.LaneCtrl
	}
	return qadapt.LaneReq
}

func (g *sawGen) takeOp() string {
	switch {
	case g.isPri:
		return "poppri"
	case g.isSync:
		return rapid.SampledFrom([]string{"pop", "trypop", "popanyway"}).Draw(g.t, "take")
	}
	return rapid.SampledFrom([]string{"pop", "popanyway"}).Draw(g.t, "take")
}

func (g *sawGen) addPhase(n int) SawPhase {
	if g.isPri {
		return SawPhase{Op: "push", N: n, PriSpan: rapid.SampledFrom([]int{1, 1, 2, 3, 5}).Draw(g.t, "prispan")}
	}
	p := SawPhase{Op: "add", N: n, Lane: g.lane()}
	if !g.isSync && rapid.IntRange(0, 3).Draw(g.t, "anyway") == 3 {
		p.Anyway = true
	}
	return p
}

// fillTo: adds (on the two-lane queue in two or three groups on drawn lanes) until the instance holds hw items
func (g *sawGen) fillTo(hw, over int) []SawPhase {
	var out []SawPhase
	if g.isMQ || rapid.Bool().Draw(g.t, "twogroups") {
		p := g.addPhase(rapid.IntRange(1, hw).Draw(g.t, "part"))
		p.UseStop, p.Stop = true, hw
		out = append(out, p)
	}
	p := g.addPhase(hw + 3)
	p.UseStop, p.Stop = true, hw
	out = append(out, p)
	if over > 0 {
		// calls beyond the mark (refusals where the bound equals the mark)
		out = append(out, g.addPhase(over))
	}
	return out
}

// takeTo: takes in one to three groups of drawn flavours until the instance holds r items
func (g *sawGen) takeTo(r int) []SawPhase {
	var out []SawPhase
	for k := rapid.IntRange(0, 2).Draw(g.t, "groups"); k > 0; k-- {
		out = append(out, SawPhase{Op: g.takeOp(), N: rapid.SampledFrom([]int{1, 2, 3, 7, 20, 60, 200}).Draw(g.t, "some"), UseStop: true, Stop: r})
	}
	return append(out, SawPhase{Op: g.takeOp(), N: 100000, UseStop: true, Stop: r})
}

func (g *sawGen) priors(n int) []SawPhase {
	if g.isSync || g.isPri || n == 0 {
		return nil
	}
	return []SawPhase{{Op: "prior", N: n, Lane: g.lane()}}
}

// shape sawtooth
func (g *sawGen) sawtooth(q *SawQueue) []SawPhase {
	t := g.t
	teeth := rapid.IntRange(2, 6).Draw(t, "teeth")
	var hws []int
	for i := 0; i < teeth; i++ {
		hws = append(hws, rapid.SampledFrom(sawMarks).Draw(t, "mark"))
	}
	if rapid.IntRange(0, 9).Draw(t, "bigmark") == 9 {
		hws = append(hws, rapid.SampledFrom([]int{2047, 2048, 2049, 4095, 4096, 4097, 6000}).Draw(t, "xmark"))
	}
	sort.Ints(hws)
	last := hws[len(hws)-1]
	// bound: none, above every mark, or exactly one of the marks (later teeth then end in refusals)
	switch b := rapid.IntRange(0, 3).Draw(t, "bound"); {
	case g.isSync:
	case b == 0 && !g.isPri:
	case b == 1 || (b == 0 && g.isPri):
		q.Cap = last + rapid.IntRange(0, 9).Draw(t, "room")
	case b == 2:
		q.Cap = last
	default:
		q.Cap = rapid.SampledFrom(hws).Draw(t, "capmark")
	}
	if g.isMQ && q.Cap > 0 && rapid.Bool().Draw(t, "ctrlbound") {
		q.CapCtrl = rapid.SampledFrom([]int{1, 7, 64, 300}).Draw(t, "capctrl")
	}
	var out []SawPhase
	if rapid.Bool().Draw(t, "prelude") {
		// a few items in and out first: the head of whatever holds the items is no longer at its start
		out = append(out, g.fillTo(rapid.IntRange(2, 12).Draw(t, "pre"), 0)...)
		out = append(out, SawPhase{Op: g.takeOp(), N: rapid.IntRange(1, 5).Draw(t, "preout")})
	}
	fullDrainAt := -1
	if rapid.Bool().Draw(t, "fulldrain") {
		fullDrainAt = rapid.IntRange(0, len(hws)-2).Draw(t, "fulldrainat")
	}
	for i, hw := range hws {
		over := 0
		if q.Cap > 0 {
			over = rapid.IntRange(0, 3).Draw(t, "over")
		}
		out = append(out, g.fillTo(hw, over)...)
		out = append(out, g.priors(rapid.SampledFrom([]int{0, 0, 0, 1, 2, 3}).Draw(t, "priors"))...)
		if i == len(hws)-1 && rapid.Bool().Draw(t, "stayfull") {
			break // the last tooth stays for the close / final drain
		}
		r := rapid.SampledFrom([]int{0, 1, 2, 3, 7, hw / 2, hw / 2, hw - 1, hw - 2, hw - 5, hw - 10}).Draw(t, "leave")
		if r < 0 || i == fullDrainAt {
			r = 0
		}
		out = append(out, g.takeTo(r)...)
	}
	return append(out, g.ending()...)
}

// ending: nothing (the executor closes and drains every instance at the end anyway), or a close and calls after it
func (g *sawGen) ending() []SawPhase {
	if g.isPri || rapid.Bool().Draw(g.t, "noending") {
		return nil
	}
	return g.closing()
}

// closing: every call the statement speaks about on a closed queue, around a drain in groups
func (g *sawGen) closing() []SawPhase {
	t := g.t
	var out []SawPhase
	few := func(label string) int { return rapid.IntRange(1, 3).Draw(t, label) }
	if g.isMQ {
		out = append(out, SawPhase{Op: "tryclose", N: 1}, SawPhase{Op: "tryclear", N: 1})
	}
	out = append(out, SawPhase{Op: "close", N: rapid.IntRange(1, 2).Draw(t, "closes")})
	if !g.isSync {
		out = append(out, SawPhase{Op: "pop", N: few("refusedpops")})
	}
	out = append(out, SawPhase{Op: "add", N: few("refusedadds"), Lane: g.lane()})
	out = append(out, g.priors(rapid.IntRange(0, 2).Draw(t, "refusedpriors"))...)
	if g.isMQ {
		out = append(out, SawPhase{Op: "tryclose", N: 1}, SawPhase{Op: "tryclear", N: 1})
	}
	drain := func() string {
		if g.isSync {
			return g.takeOp()
		}
		return "popanyway"
	}
	out = append(out, SawPhase{Op: drain(), N: rapid.SampledFrom([]int{1, 5, 63, 64, 65, 66, 500}).Draw(t, "firstpart")})
	if g.isMQ {
		out = append(out, SawPhase{Op: "tryclear", N: 1})
	}
	if !g.isSync {
		out = append(out, SawPhase{Op: "pop", N: 1})
	}
	out = append(out, SawPhase{Op: "add", N: 1, Lane: g.lane()})
	out = append(out, SawPhase{Op: drain(), N: 100000, UseStop: true, Stop: 0})
	out = append(out, SawPhase{Op: drain(), N: few("closedreports")})
	if g.isMQ {
		out = append(out, SawPhase{Op: "tryclear", N: 2}, SawPhase{Op: "tryclose", N: 1})
	}
	out = append(out, SawPhase{Op: "add", N: 1, Lane: g.lane()})
	return out
}

// shape priorDepth: a bounded lane, filled, then 33 ... 300 (rarely thousands of) prior adds on it
func (g *sawGen) priorDepth(q *SawQueue) []SawPhase {
	t := g.t
	lane := g.lane()
	bound := rapid.SampledFrom([]int{1, 2, 3, 5, 16, 64, 100}).Draw(t, "bound")
	other := rapid.SampledFrom([]int{0, 0, 1, 5}).Draw(t, "otherbound")
	if lane == qadapt.LaneCtrl {
		q.Cap, q.CapCtrl = other, bound
	} else {
		q.Cap, q.CapCtrl = bound, other
	}
	var out []SawPhase
	if rapid.Bool().Draw(t, "fillfirst") {
		out = append(out, SawPhase{Op: "add", N: bound + rapid.IntRange(0, 2).Draw(t, "over"), Lane: lane})
	} else {
		out = append(out, SawPhase{Op: "add", N: rapid.IntRange(0, bound).Draw(t, "partfill"), Lane: lane})
	}
	if g.isMQ {
		out = append(out, SawPhase{Op: "add", N: rapid.IntRange(0, 6).Draw(t, "otheradds"), Lane: 1 - lane})
	}
	np := rapid.SampledFrom([]int{33, 34, 35, 40, 64, 65, 66, 100, 129, 130, 300}).Draw(t, "priors")
	if rapid.IntRange(0, 9).Draw(t, "manypriors") == 9 {
		np = rapid.SampledFrom([]int{1100, 2100, 4200}).Draw(t, "xpriors")
	}
	out = append(out, SawPhase{Op: "prior", N: np, Lane: lane})
	out = append(out, SawPhase{Op: "add", N: rapid.IntRange(1, 3).Draw(t, "refused"), Lane: lane, Anyway: true}) // (Anyway is honoured only below the bound)
	if g.isMQ {
		out = append(out, SawPhase{Op: "prior", N: rapid.IntRange(0, 40).Draw(t, "otherpriors"), Lane: 1 - lane})
	}
	// the front comes out last-prior-first; below the bound ordinary adds are admitted again
	out = append(out, SawPhase{Op: g.takeOp(), N: rapid.IntRange(1, np+bound).Draw(t, "takes")})
	out = append(out, SawPhase{Op: "add", N: 2, Lane: lane})
	out = append(out, SawPhase{Op: g.takeOp(), N: rapid.IntRange(1, np+bound).Draw(t, "takes2")})
	out = append(out, SawPhase{Op: "add", N: 3, Lane: lane})
	out = append(out, SawPhase{Op: "prior", N: rapid.IntRange(1, 70).Draw(t, "priors2"), Lane: lane})
	out = append(out, SawPhase{Op: "add", N: 2, Lane: lane})
	return append(out, g.ending()...)
}

// shape closeResidue: fill to 65 ... 5000 items, close at once
func (g *sawGen) closeResidue(q *SawQueue) []SawPhase {
	t := g.t
	n := rapid.SampledFrom([]int{65, 66, 70, 100, 128, 129, 300, 1025, 2500, 5000}).Draw(t, "residue")
	switch rapid.IntRange(0, 2).Draw(t, "bound") {
	case 1:
		q.Cap = n
	case 2:
		q.Cap = n + rapid.IntRange(1, 50).Draw(t, "room")
	}
	if g.isSync {
		q.Cap = 0
	}
	out := g.fillTo(n, 0)
	if rapid.Bool().Draw(t, "touched") {
		out = append(out, SawPhase{Op: g.takeOp(), N: rapid.IntRange(1, 10).Draw(t, "out")})
		out = append(out, g.priors(rapid.IntRange(0, 3).Draw(t, "priors"))...)
		out = append(out, g.addPhase(rapid.IntRange(1, 12).Draw(t, "in")))
	}
	return append(out, g.closing()...)
}

// shape rounds: a few residents, then add-one/take-one
func (g *sawGen) rounds(q *SawQueue) []SawPhase {
	t := g.t
	if g.isPri {
		q.Cap = rapid.SampledFrom([]int{20, 64, 1000}).Draw(t, "cap")
	} else if !g.isSync && rapid.Bool().Draw(t, "bounded") {
		q.Cap = rapid.SampledFrom([]int{18, 64, 1000}).Draw(t, "cap")
	}
	out := g.fillTo(rapid.SampledFrom([]int{1, 2, 3, 5, 17}).Draw(t, "residents"), 0)
	for k := rapid.IntRange(1, 3).Draw(t, "runs"); k > 0; k-- {
		p := g.addPhase(rapid.SampledFrom([]int{70, 130, 300, 1100, 3000}).Draw(t, "rounds"))
		p.Op, p.Take, p.Anyway = "rounds", g.takeOp(), false
		out = append(out, p)
	}
	return append(out, g.ending()...)
}

// shape small: a handful of calls at a time
func (g *sawGen) small(q *SawQueue) []SawPhase {
	t := g.t
	q.Cap = rapid.SampledFrom([]int{0, 2, 5, 40}).Draw(t, "cap")
	if g.isPri && q.Cap == 0 {
		q.Cap = 30
	}
	if g.isSync {
		q.Cap = 0
	}
	var out []SawPhase
	for k := rapid.IntRange(4, 40).Draw(t, "phases"); k > 0; k-- {
		n := rapid.IntRange(1, 4).Draw(t, "n")
		switch w := rapid.IntRange(0, 9).Draw(t, "what"); {
		case w < 5:
			out = append(out, g.addPhase(n))
		case w < 8:
			out = append(out, SawPhase{Op: g.takeOp(), N: n})
		default:
			if ps := g.priors(n); ps != nil {
				out = append(out, ps...)
			} else {
				out = append(out, g.addPhase(n))
			}
		}
	}
	return append(out, g.ending()...)
}

func (g *sawGen) program(q *SawQueue, main bool) []SawPhase {
	// shapes by weight; the further instances are mostly small
	type shape func(*SawQueue) []SawPhase
	shapes := []shape{g.sawtooth, g.sawtooth, g.sawtooth, g.rounds}
	if !g.isPri {
		shapes = append(shapes, g.closeResidue, g.closeResidue)
	}
	if !g.isPri && !g.isSync {
		shapes = append(shapes, g.priorDepth, g.priorDepth)
	}
	if !main {
		for i := len(shapes); i > 0; i-- {
			shapes = append(shapes, g.small)
		}
	}
	return shapes[rapid.IntRange(0, len(shapes)-1).Draw(g.t, "shape")](q)
}

func GenSaw(t *rapid.T) SawCase {
	kind := rapid.SampledFrom(qadapt.AllKinds).Draw(t, "kind")
	g := &sawGen{t: t, kind: kind, isSync: kind == qadapt.KindSync, isMQ: kind == qadapt.KindMQ, isPri: kind == qadapt.KindPri}
	c := SawCase{Kind: kind}
	n := rapid.SampledFrom([]int{1, 2, 2, 3}).Draw(t, "instances")
	progs := make([][]SawPhase, n)
	for i := 0; i < n; i++ {
		q := SawQueue{Ctor: rapid.IntRange(0, qadapt.NCtors-1).Draw(t, "ctor")}
		progs[i] = g.program(&q, i == 0)
		c.Queues = append(c.Queues, q)
	}
	if n > 1 {
		c.Build = rapid.IntRange(0, 2).Draw(t, "build")
	}
	// merge
	for {
		var live []int
		for i, p := range progs {
			if len(p) > 0 {
				live = append(live, i)
			}
		}
		if len(live) == 0 {
			break
		}
		i := live[0]
		if len(live) > 1 {
			i = rapid.SampledFrom(live).Draw(t, "next")
		}
		ph := progs[i][0]
		ph.Q = i
		if len(live) > 1 && ph.N > 1 && ph.N < 100000 && rapid.Bool().Draw(t, "cut") {
			// the phase goes on after the other instances had calls
			first := rapid.IntRange(1, ph.N-1).Draw(t, "cutat")
			progs[i][0].N -= first
			ph.N = first
		} else {
			progs[i] = progs[i][1:]
		}
		if ph.N > 0 {
			c.Phases = append(c.Phases, ph)
		}
	}
	return c
}

// ---------------------------------------------------------------------------
// executor

type sawInst struct {
	fifo *fifoInst
	// priority queue: the model is the list in hand-out order
	q      *qadapt.Q
	pri    []deepItem
	cap    int
	pushes int
	name   string
	// for the evidence classes
	high, taken   int
	emptiedAtHigh int
}

func (in *sawInst) size() int {
	if in.fifo != nil {
		return in.fifo.size()
	}
	return len(in.pri)
}

func ExecSaw(c SawCase) *vkit.Result {
	return guarded(func(res *vkit.Result, cur *func() string, release *func()) { execSaw(c, res, cur, release) })
}

func execSaw(c SawCase, res *vkit.Result, cur *func() string, release *func()) *vkit.Result {
	okKind := false
	for _, k := range qadapt.AllKinds {
		okKind = okKind || k == c.Kind
	}
	bad := !okKind || len(c.Queues) < 1 || len(c.Queues) > 8 || c.Build < 0 || c.Build > 2 || len(c.Phases) > 100000
	for _, q := range c.Queues {
		bad = bad || q.Cap < 0 || q.Cap > 100000 || q.CapCtrl < 0 || q.CapCtrl > 100000 || q.Ctor < 0 || q.Ctor >= qadapt.NCtors
	}
	budget := 3000000 // calls
	for _, p := range c.Phases {
		bad = bad || p.Q < 0 || p.Q >= len(c.Queues) || p.N < 0 || p.N > 100000 || p.Stop < 0 || p.PriSpan < 0 || (p.Lane != qadapt.LaneReq && p.Lane != qadapt.LaneCtrl)
	}
	if bad {
		res.Skip("malformed-config")
		return res
	}
	isPri, isMQ := c.Kind == qadapt.KindPri, c.Kind == qadapt.KindMQ
	n := len(c.Queues)
	insts := make([]*sawInst, n)
	*release = func() {
		for _, in := range insts {
			if in != nil && in.fifo != nil {
				in.fifo.q.Close()
			}
		}
	}
	mk := func(i int) {
		qc := c.Queues[i]
		in := &sawInst{name: fmt.Sprintf("%s (capacity %d/%d, constructor way %d)", instName(c.Kind, i, n), qc.Cap, qc.CapCtrl, qc.Ctor)}
		if isPri {
			in.q, in.cap = qadapt.NewCtor(c.Kind, qc.Cap, 0, anywayPause, qc.Ctor), qc.Cap
		} else {
			capCtrl := qc.CapCtrl
			if !isMQ {
				capCtrl = 0
			}
			in.fifo = newFifoInst(c.Kind, qc.Cap, capCtrl, qc.Ctor, false)
		}
		insts[i] = in
	}
	for _, i := range buildOrder(n, c.Build) {
		mk(i)
	}
	next := 0 // items are distinct over all instances of the case
	calls := 0
	pi, call, opNow := 0, 0, ""
	var inNow *sawInst
	var held [3]int // the model of inNow right before the current call: items, of them on the control lane, closed
	mark := func(in *sawInst, op string) {
		opNow = op
		calls++
		held = [3]int{in.size(), 0, 0}
		if in.fifo != nil {
			held[1] = len(in.fifo.m.lanes[1])
			if in.fifo.m.closed {
				held[2] = 1
			}
		}
	}
	what := func() string {
		return fmt.Sprintf("phase %d %+v, its call number %d (%s) on %s, whose model held %d items (%d of them on the control lane, closed: %v) before that call; call number %d of the case", pi, c.Phases[pi], call+1, opNow, inNow.name, held[0], held[1], held[2] == 1, calls)
	}
	*cur = what
	fifoCall := func(in *sawInst, op string, lane int, anyway bool) bool {
		mark(in, op)
		next++
		return in.fifo.step(res, Step{Op: op, Lane: lane, Anyway: anyway}, next, what)
	}
	push := func(in *sawInst, span int) bool {
		mark(in, "push")
		next++
		in.pushes++
		if span < 1 {
			span = 1
		}
		it := deepItem{v: next, pri: (in.pushes * 7) % span, seq: in.pushes}
		want := qadapt.Accepted
		if len(in.pri) >= in.cap {
			want = qadapt.Full
			res.Class("refused-at-capacity")
		}
		if got := in.q.PushPri(it.v, it.pri); got != want {
			res.Failf("pri-capacity", "%s: Push (priority %d) outcome %v, want %v", what(), it.pri, got, want)
			return false
		}
		if want == qadapt.Accepted {
			at := sort.Search(len(in.pri), func(i int) bool { return in.pri[i].pri < it.pri })
			in.pri = append(in.pri, deepItem{})
			copy(in.pri[at+1:], in.pri[at:])
			in.pri[at] = it
		}
		if in.q.Len() != len(in.pri) {
			res.Failf("pri-len", "%s: afterwards Len = %d, model %d", what(), in.q.Len(), len(in.pri))
			return false
		}
		return true
	}
	popPri := func(in *sawInst) bool {
		mark(in, "poppri")
		v, p, ok := in.q.PopPri()
		if len(in.pri) == 0 {
			if ok {
				res.Failf("pri-invented", "%s: Pop on an empty queue returned item %d", what(), v)
				return false
			}
			return true
		}
		want := in.pri[0]
		if !ok || v != want.v || p != want.pri {
			res.Failf("pri-order", "%s: Pop = (item %d, priority %d, ok %v), want item %d priority %d (push number %d of the instance)", what(), v, p, ok, want.v, want.pri, want.seq)
			return false
		}
		in.pri = in.pri[1:]
		if in.q.Len() != len(in.pri) {
			res.Failf("pri-len", "%s: afterwards Len = %d, model %d", what(), in.q.Len(), len(in.pri))
			return false
		}
		return true
	}
	isTake := func(op string) bool { return op == "pop" || op == "popanyway" || op == "trypop" || op == "poppri" }
	// evidence classes from the course of the sizes
	note := func(in *sawInst, before int) {
		s := in.size()
		if s < before {
			in.taken++
			if s == 0 && in.high >= 64 {
				in.emptiedAtHigh = in.high
			}
		}
		if s > in.high {
			if in.high >= 15 && in.taken > 0 && s > before {
				res.Class("saw-grows-beyond-earlier-high-water-mark-after-takes")
				if in.high >= 64 {
					res.Class("saw-grows-beyond-earlier-high-water-mark-of-64-or-more-after-takes")
				}
			}
			in.high = s
		}
		if in.emptiedAtHigh > 0 && s >= 64 {
			res.Class("saw-large-again-after-full-drain")
		}
		if in.fifo != nil {
			m := in.fifo.m
			for l := 0; l < 2; l++ {
				if m.caps[l] > 0 && len(m.lanes[l]) >= m.caps[l]+33 {
					res.Class("saw-lane-33-or-more-beyond-its-bound-by-prior-adds")
				}
			}
		}
	}
	used := map[int]bool{}
	for pi = range c.Phases {
		ph := c.Phases[pi]
		if insts[ph.Q] == nil {
			mk(ph.Q)
		}
		in := insts[ph.Q]
		inNow = in
		used[ph.Q] = true
		if len(used) > 1 {
			res.Class(fmt.Sprintf("saw-calls-on-%d-live-instances", len(used)))
		}
		if !isMQ {
			ph.Lane = qadapt.LaneReq
		}
		fifoOp := ph.Op
		switch ph.Op {
		case "add", "prior", "pop", "popanyway", "trypop", "close", "tryclose", "tryclear":
			if isPri {
				res.Skip("not-an-op-of-the-priority-queue")
				continue
			}
		case "push", "poppri":
			if !isPri {
				res.Skip("not-an-op-of-this-queue")
				continue
			}
		case "rounds":
			fifoOp = "add"
			if !isPri && ph.Take != "pop" && ph.Take != "popanyway" && ph.Take != "trypop" {
				res.Skip("bad-take-flavour")
				continue
			}
		default:
			res.Skip("unknown-op")
			continue
		}
		for call = 0; call < ph.N; call++ {
			if calls >= budget {
				res.Skip("call-budget")
				break
			}
			before := in.size()
			if ph.UseStop && ((isTake(ph.Op) && before <= ph.Stop) || (!isTake(ph.Op) && before >= ph.Stop)) {
				break
			}
			if in.fifo != nil {
				m := in.fifo.m
				if (ph.Op == "pop" || ph.Op == "popanyway") && m.blocking() {
					res.Class("saw-take-phase-ends-at-empty-open-queue")
					break
				}
				if ph.Op == "close" && !m.closed && before >= 65 {
					res.Class("saw-closed-with-65-or-more-residents")
				}
				if !fifoCall(in, fifoOp, ph.Lane, ph.Anyway) {
					return res
				}
				if ph.Op == "rounds" {
					if ph.Take != "trypop" && m.blocking() {
						continue // (a closed or refusing queue: the add did not go in)
					}
					if !fifoCall(in, ph.Take, 0, false) {
						return res
					}
				}
			} else {
				switch ph.Op {
				case "push":
					if !push(in, ph.PriSpan) {
						return res
					}
				case "poppri":
					if !popPri(in) {
						return res
					}
				case "rounds":
					if !push(in, ph.PriSpan) || !popPri(in) {
						return res
					}
				}
			}
			note(in, before)
		}
	}
	for i := range insts {
		if insts[i] == nil {
			mk(i)
		}
		in := insts[i]
		inNow, opNow = in, "final drain"
		if in.fifo != nil {
			if !in.fifo.finish(res, in.name, cur) {
				return res
			}
			continue
		}
		for len(in.pri) > 0 {
			if !popPri(in) {
				return res
			}
		}
		if v, _, ok := in.q.PopPri(); ok {
			return res.Failf("pri-invented", "final drain of %s: Pop on the drained queue returned item %d", in.name, v)
		}
	}
	if calls >= 1000 {
		res.Class("saw-1000-or-more-calls")
	}
	res.NonTrivial = calls >= 100
	return res
}

var PartSaw = &vkit.Part[SawCase]{
	Property: Property, Name: "saw",
	Rule:  "rapid: one to three live instances of one of the six queue types (each with its own capacities and way of writing the constructor call; built up front in either order or right before their first call), each with a program of phases - an operation repeated up to N times or until the instance holds a given number of items - from one of the shapes: sawtooth (2-7 fills to high-water marks around 16/32/64/128/256/1024 +-1, rarely 2048-6000, ascending, each followed by a drain in 1-3 groups of mixed pop flavours to 0/1/2/3/7/half/nearly-all residents, optionally a full drain in between, a few prior adds at the marks, unbounded or bounded at or above a mark), prior-depth (a lane bounded at 1-100, filled, then 33-300 - rarely 1100-4200 - prior adds on it, refused ordinary adds, takes, adds below the bound, more priors), close-residue (65-5000 items, closed at once, then refused Pop / adds / prior adds, TryClose, TryClear, drain in groups through PopAnyway - sync queue: Pop/TryPop -, closed reports, TryClear), rounds (1-17 residents, 70-3000 add-one/take-one pairs, up to three runs), small (4-40 groups of 1-4 adds / takes / prior adds; only for the further instances). The programs are merged in drawn order, long phases cut so that the other instances' calls fall in between. Oracle: the list models of the step parts (one per instance, items distinct over all instances), every call's result and the observers compared at every call; final close + ordered drain of every instance. Non-trivial: at least 100 calls; distinct = distinct case JSON",
	Quick: 1000, Thorough: 6000,
	Gen: GenSaw, Exec: ExecSaw,
}
