// Package c12queue decides property C12: order (FIFO / prior / ctrl-before-req
// / priority), capacity and close semantics of the six queue types over
// sequential histories, against list models written from the statement.
package c12queue

import (
	"fmt"
	"math"

	"pgregory.net/rapid"

	"verifharness/qadapt"
	"verifharness/vkit"
)

const Property = "C12"

type Step struct {
	Op   string `json:"op"` // add | prior | pop | popanyway | trypop | close | tryclose | tryclear | observe | push | poppri
	Lane int    `json:"lane,omitempty"`
	Pri  int    `json:"pri,omitempty"`
	// add: go through the queue's Add*Anyway entry point (only where the model says the lane is not full)
	Anyway bool `json:"anyway,omitempty"`
}

type Case struct {
	Kind    string `json:"kind"`
	CapReq  int    `json:"cap_req"`
	CapCtrl int    `json:"cap_ctrl"`
	// the way the constructor call is written (qadapt.Ctor*): all ways ask for the same queue
	Ctor  int    `json:"ctor,omitempty"`
	Steps []Step `json:"steps"`
}

// ---------------------------------------------------------------------------
// list model of the FIFO-like queues (pipe queues and the sync queue)

type fifoModel struct {
	kind    string
	caps    [2]int
	lanes   [2][]int // [req, ctrl]
	closed  bool
	cleared bool
}

func (m *fifoModel) empty() bool { return len(m.lanes[0])+len(m.lanes[1]) == 0 }

func (m *fifoModel) head() (lane int) {
	if len(m.lanes[qadapt.LaneCtrl]) > 0 {
		return qadapt.LaneCtrl
	}
	return qadapt.LaneReq
}

func (m *fifoModel) take() int {
	l := m.head()
	v := m.lanes[l][0]
	m.lanes[l] = m.lanes[l][1:]
	return v
}

// blocking reports whether a pop of the given flavour would block (never issued here: that is C13)
func (m *fifoModel) blocking() bool { return m.empty() && !m.closed }

func genFifo(t *rapid.T, kind string) Case {
	c := Case{Kind: kind}
	c.CapReq = rapid.SampledFrom([]int{0, 1, 2, 3, 5}).Draw(t, "capreq")
	c.CapCtrl = rapid.SampledFrom([]int{0, 1, 2}).Draw(t, "capctrl")
	c.Ctor = rapid.IntRange(0, qadapt.NCtors-1).Draw(t, "ctor")
	m := &fifoModel{kind: kind, caps: [2]int{c.CapReq, c.CapCtrl}}
	isSync, isMQ := kind == qadapt.KindSync, kind == qadapt.KindMQ
	if isSync {
		m.caps = [2]int{}
	}
	n := rapid.IntRange(1, 40).Draw(t, "n")
	for i := 0; i < n; i++ {
		// weights favour adds so that capacity is reached, then pops, with closes in between
		ops := []string{"add", "add", "add", "add", "pop", "popanyway", "close"}
		if !isSync {
			ops = append(ops, "prior", "prior")
		} else {
			ops = append(ops, "trypop", "trypop", "observe")
		}
		if isMQ {
			ops = append(ops, "tryclose", "tryclear", "observe")
		}
		if kind == qadapt.KindAsync || kind == qadapt.KindMux {
			ops = append(ops, "observe")
		}
		op := rapid.SampledFrom(ops).Draw(t, "op")
		st := Step{Op: op}
		if isMQ && (op == "add" || op == "prior") && rapid.Bool().Draw(t, "ctrl") {
			st.Lane = qadapt.LaneCtrl
		}
		if op == "add" && !isSync && rapid.IntRange(0, 3).Draw(t, "anywayadd") == 0 {
			st.Anyway = true // through Add*Anyway (where the lane is not full)
		}
		// fold the model so that a blocking pop is never issued
		switch op {
		case "pop", "popanyway":
			if m.blocking() {
				st = Step{Op: "add"}
				op = "add"
			}
		}
		applyFifo(m, st, 1000+i, isSync)
		c.Steps = append(c.Steps, st)
	}
	return c
}

type fifoExpect struct {
	outcome qadapt.Outcome // for adds
	v       int
	closed  bool
	ok      bool // trypop
	boolRes bool // tryclose / tryclear
	anyBool bool // result not asserted
}

// applyFifo advances the model and says what the statement fixes about the result.
func applyFifo(m *fifoModel, st Step, v int, isSync bool) (e fifoExpect) {
	lane := st.Lane
	switch st.Op {
	case "add", "prior":
		prior := st.Op == "prior"
		switch {
		case m.closed && isSync:
			e.outcome = qadapt.Accepted // dropped silently
		case m.closed:
			e.outcome = qadapt.Closed
		case !prior && m.caps[lane] > 0 && len(m.lanes[lane]) >= m.caps[lane]:
			e.outcome = qadapt.Full
		case prior:
			m.lanes[lane] = append([]int{v}, m.lanes[lane]...)
		default:
			m.lanes[lane] = append(m.lanes[lane], v)
		}
	case "pop":
		// pipe queues: fails after close even if items remain; sync queue: drains first
		if m.closed && !isSync {
			e.closed = true
		} else if !m.empty() {
			e.v = m.take()
		} else {
			e.closed = true
		}
	case "popanyway":
		if !m.empty() {
			e.v = m.take()
		} else {
			e.closed = true
		}
	case "trypop":
		switch {
		case !m.empty():
			e.v, e.ok = m.take(), true
		case m.closed:
			e.ok, e.closed = true, true
		}
	case "close":
		m.closed = true
	case "tryclose":
		if m.closed {
			e.anyBool = true // return value on an already closed queue is not asserted
		} else if m.empty() {
			m.closed = true
			e.boolRes = true
		}
	case "tryclear":
		if m.cleared || (m.closed && m.empty()) {
			m.cleared = true
			e.boolRes = true
		}
	}
	return e
}

func execFifo(c Case, res *vkit.Result, cur *func() string, release *func()) *vkit.Result {
	q := qadapt.NewCtor(c.Kind, c.CapReq, c.CapCtrl, anywayPause, c.Ctor)
	*release = q.Close
	if c.Ctor != qadapt.CtorPlain {
		res.Class(fmt.Sprintf("constructor-written-way-%d", c.Ctor))
	}
	isSync := c.Kind == qadapt.KindSync
	m := &fifoModel{kind: c.Kind, caps: [2]int{c.CapReq, c.CapCtrl}}
	if isSync {
		m.caps = [2]int{}
	}
	accepted := map[int]bool{}
	handed := map[int]bool{}
	give := func(i int, st Step, v int) bool {
		if handed[v] {
			res.Failf("duplicate", "step %d %+v on %s: item %d handed out twice", i, st, c.Kind, v)
			return false
		}
		if !accepted[v] {
			res.Failf("invented", "step %d %+v on %s: item %d was handed out but never accepted", i, st, c.Kind, v)
			return false
		}
		handed[v] = true
		return true
	}
	for i, st := range c.Steps {
		if c.Kind != qadapt.KindMQ {
			st.Lane = qadapt.LaneReq
		}
		if st.Lane != qadapt.LaneReq && st.Lane != qadapt.LaneCtrl {
			res.Skip("bad-lane")
			continue
		}
		v := 1000 + i
		what := fmt.Sprintf("step %d %+v on %s (cap req %d ctrl %d; model req %v ctrl %v closed %v)", i, st, c.Kind, c.CapReq, c.CapCtrl, m.lanes[0], m.lanes[1], m.closed)
		*cur = func() string { return what }
		switch st.Op {
		case "add", "prior":
			add := q.Add
			if st.Op == "prior" {
				if q.AddPrior == nil {
					res.Skip("no-prior")
					continue
				}
				add = q.AddPrior
			}
			wasClosed := m.closed
			e := applyFifo(m, st, v, isSync)
			if st.Op == "add" && st.Anyway && q.AddAnyway != nil && e.outcome != qadapt.Full {
				// (on a full lane the Anyway entry points retry forever: a blocking call, not part of sequential histories)
				res.Class("add-through-anyway-entry")
				add = q.AddAnyway // (should it poll, the guard around the history decides)
			}
			got := add(st.Lane, v)
			if got != e.outcome {
				site := "add-outcome"
				if e.outcome == qadapt.Full || got == qadapt.Full {
					site = "capacity"
				} else if e.outcome == qadapt.Closed || got == qadapt.Closed {
					site = "add-after-close"
				}
				return res.Failf(site, "%s: outcome %v, want %v", what, got, e.outcome)
			}
			if got == qadapt.Accepted && !(isSync && wasClosed) {
				accepted[v] = true
			}
			switch e.outcome {
			case qadapt.Full:
				res.Class("refused-at-capacity")
				res.NonTrivial = true
			case qadapt.Closed:
				res.Class("refused-closed")
			}
			if st.Op == "prior" && e.outcome == qadapt.Accepted && m.caps[st.Lane] > 0 && len(m.lanes[st.Lane]) > m.caps[st.Lane] {
				res.Class("prior-exceeds-bound")
			}
			if isSync && wasClosed {
				res.Class("dropped-silently")
			}
		case "pop", "popanyway":
			if m.blocking() {
				res.Skip("would-block")
				continue
			}
			e := applyFifo(m, st, v, isSync)
			pop := q.Pop
			if st.Op == "popanyway" {
				pop = q.PopAnyway
			}
			gv, gclosed, err := pop()
			if err != nil {
				return res.Failf("pop-error", "%s: %v", what, err)
			}
			if gclosed != e.closed || (!gclosed && gv != e.v) {
				site := "order"
				if gclosed != e.closed {
					site = "pop-after-close"
				}
				return res.Failf(site, "%s: got (item %d, closed %v), want (item %d, closed %v)", what, gv, gclosed, e.v, e.closed)
			}
			if !gclosed && !give(i, st, gv) {
				return res
			}
			if e.closed && !m.empty() {
				res.Class("pop-refused-with-items-after-close")
			}
			if !e.closed && m.closed {
				res.Class("drain-after-close")
			}
		case "trypop":
			if q.TryPop == nil {
				res.Skip("no-trypop")
				continue
			}
			e := applyFifo(m, st, v, isSync)
			gv, gok, gclosed := q.TryPop()
			if gok != e.ok || gclosed != e.closed || (gok && !gclosed && gv != e.v) {
				return res.Failf("trypop", "%s: got (item %d, ok %v, closed %v), want (item %d, ok %v, closed %v)", what, gv, gok, gclosed, e.v, e.ok, e.closed)
			}
			if gok && !gclosed && !give(i, st, gv) {
				return res
			}
		case "close":
			if !m.closed && !m.empty() {
				res.Class("close-with-residue")
				res.NonTrivial = true
			}
			applyFifo(m, st, v, isSync)
			q.Close()
		case "tryclose":
			if q.TryClose == nil {
				res.Skip("no-tryclose")
				continue
			}
			e := applyFifo(m, st, v, isSync)
			got := q.TryClose()
			if !e.anyBool && got != e.boolRes {
				return res.Failf("tryclose", "%s: TryClose = %v, want %v", what, got, e.boolRes)
			}
		case "tryclear":
			if q.TryClear == nil {
				res.Skip("no-tryclear")
				continue
			}
			e := applyFifo(m, st, v, isSync)
			got := q.TryClear()
			if got != e.boolRes {
				return res.Failf("tryclear", "%s: TryClear = %v, want %v", what, got, e.boolRes)
			}
			if got {
				res.Class("cleared")
			}
		case "observe":
		default:
			res.Skip("unknown-op")
			continue
		}
		// observers after every step
		if q.IsClosed != nil && q.IsClosed() != m.closed {
			return res.Failf("isclosed", "%s: IsClosed = %v, model %v", what, q.IsClosed(), m.closed)
		}
		if q.IsCleared != nil && q.IsCleared() != m.cleared {
			return res.Failf("iscleared", "%s: IsCleared = %v, model %v", what, q.IsCleared(), m.cleared)
		}
		if q.Len != nil && q.Len() != len(m.lanes[0])+len(m.lanes[1]) {
			return res.Failf("len", "%s: Len = %d, model %d", what, q.Len(), len(m.lanes[0])+len(m.lanes[1]))
		}
	}
	// conservation: close, then drain in order; accepted == handed out + residue
	*cur = func() string {
		return fmt.Sprintf("final close and drain of %s (model req %v ctrl %v)", c.Kind, m.lanes[0], m.lanes[1])
	}
	q.Close()
	m.closed = true
	for !m.empty() {
		want := m.take()
		gv, gclosed, err := q.PopAnyway()
		if err != nil || gclosed || gv != want {
			return res.Failf("residue", "final drain of %s: got (item %d, closed %v, err %v), want item %d", c.Kind, gv, gclosed, err, want)
		}
		if !give(len(c.Steps), Step{Op: "drain"}, gv) {
			return res
		}
	}
	if _, gclosed, err := q.PopAnyway(); err != nil || !gclosed {
		return res.Failf("residue", "final drain of %s: the queue hands out more than was accepted", c.Kind)
	}
	for v := range accepted {
		if !handed[v] {
			return res.Failf("lost", "%s: item %d was accepted but never handed out", c.Kind, v)
		}
	}
	return res
}

// ---------------------------------------------------------------------------
// priority queue

type priEntry struct{ v, pri, seq int }

// genPriority: mostly a small range with many ties, sometimes the extremes of int
// (differences that overflow must not disturb the order).
func genPriority(t *rapid.T) int {
	if rapid.IntRange(0, 5).Draw(t, "extreme") == 0 {
		return rapid.SampledFrom([]int{math.MinInt, math.MinInt + 1, math.MaxInt, math.MaxInt - 1, math.MinInt / 2, math.MaxInt / 2, math.MinInt32, math.MaxInt32, 1 << 40, -(1 << 40)}).Draw(t, "xpri")
	}
	return rapid.IntRange(-2, 2).Draw(t, "pri")
}

func genPri(t *rapid.T) Case {
	c := Case{Kind: qadapt.KindPri}
	c.CapReq = rapid.SampledFrom([]int{0, 1, 2, 3, 5, 8}).Draw(t, "cap")
	if rapid.Bool().Draw(t, "decoy") {
		c.Ctor = qadapt.CtorDecoy
	}
	n := rapid.IntRange(1, 40).Draw(t, "n")
	for i := 0; i < n; i++ {
		if rapid.IntRange(0, 9).Draw(t, "what") < 6 {
			c.Steps = append(c.Steps, Step{Op: "push", Pri: genPriority(t)})
		} else {
			c.Steps = append(c.Steps, Step{Op: "poppri"})
		}
	}
	return c
}

func execPri(c Case, res *vkit.Result, cur *func() string, release *func()) *vkit.Result {
	q := qadapt.NewCtor(qadapt.KindPri, c.CapReq, 0, anywayPause, c.Ctor)
	var model []priEntry
	seq := 0
	best := func() int {
		b := -1
		for i, e := range model {
			if b < 0 || e.pri > model[b].pri || (e.pri == model[b].pri && e.seq < model[b].seq) {
				b = i
			}
		}
		return b
	}
	pop := func(i int, st Step) bool {
		gv, gpri, ok := q.PopPri()
		b := best()
		if b < 0 {
			if ok {
				res.Failf("pri-invented", "step %d %+v: Pop on an empty queue returned item %d", i, st, gv)
				return false
			}
			return true
		}
		want := model[b]
		if !ok || gv != want.v || gpri != want.pri {
			res.Failf("pri-order", "step %d %+v: Pop = (item %d, priority %d, ok %v), want item %d priority %d (highest priority, first in among equals; model %v)", i, st, gv, gpri, ok, want.v, want.pri, model)
			return false
		}
		ties := 0
		for _, e := range model {
			if e.pri == want.pri {
				ties++
			}
		}
		if ties > 1 {
			res.Class("tie-broken-fifo")
		}
		model = append(model[:b:b], model[b+1:]...)
		return true
	}
	for i, st := range c.Steps {
		switch st.Op {
		case "push":
			want := qadapt.Accepted
			if len(model) >= c.CapReq {
				want = qadapt.Full
				res.Class("refused-at-capacity")
				res.NonTrivial = true
			}
			if st.Pri > 1<<30 || st.Pri < -(1<<30) {
				res.Class("extreme-priority")
			}
			got := q.PushPri(1000+i, st.Pri)
			if got != want {
				return res.Failf("pri-capacity", "step %d %+v: Push outcome %v, want %v (holding %d, capacity %d)", i, st, got, want, len(model), c.CapReq)
			}
			if got == qadapt.Accepted {
				seq++
				model = append(model, priEntry{1000 + i, st.Pri, seq})
			}
		case "poppri":
			if !pop(i, st) {
				return res
			}
		default:
			res.Skip("unknown-op")
			continue
		}
		if q.Len() != len(model) {
			return res.Failf("pri-len", "step %d %+v: Len = %d, model %d", i, st, q.Len(), len(model))
		}
	}
	for len(model) > 0 {
		if !pop(len(c.Steps), Step{Op: "drain"}) {
			return res
		}
	}
	if _, _, ok := q.PopPri(); ok {
		return res.Failf("pri-invented", "final drain: the queue hands out more than was accepted")
	}
	return res
}

// ---------------------------------------------------------------------------

func Gen(kind string) func(t *rapid.T) Case {
	return func(t *rapid.T) Case {
		if kind == qadapt.KindPri {
			return genPri(t)
		}
		return genFifo(t, kind)
	}
}

func Exec(c Case) *vkit.Result {
	res := &vkit.Result{}
	ok := false
	for _, k := range qadapt.AllKinds {
		if k == c.Kind {
			ok = true
		}
	}
	if !ok || c.CapReq < 0 || c.CapCtrl < 0 || c.CapReq > 1000 || c.CapCtrl > 1000 || c.Ctor < 0 || c.Ctor >= qadapt.NCtors {
		res.Skip("malformed-config")
		return res
	}
	return guarded(func(res *vkit.Result, cur *func() string, release *func()) {
		if c.Kind == qadapt.KindPri {
			execPri(c, res, cur, release)
		} else {
			execFifo(c, res, cur, release)
		}
	})
}

func part(name, kind string) *vkit.Part[Case] {
	rule := "rapid: capacity (req 0/1/2/3/5, ctrl 0/1/2) x 1-40 steps drawn by folding the list model so that only non-blocking calls are issued (add, prior-add, ctrl/req lanes, Pop, PopAnyway, TryPop, Close, TryClose, TryClear, observers); after every step result, IsClosed/IsCleared/Len equal the model; final close + drain checks conservation (accepted = handed out + residue, no duplicate, nothing invented). Non-trivial: a refusal at capacity or a close with residue; distinct = distinct case JSON"
	if kind == qadapt.KindPri {
		rule = "rapid: capacity 0/1/2/3/5/8 x 1-40 steps of Push(priority -2..2 with many ties, sometimes MinInt/MaxInt and other extremes) / Pop; Pop must return the highest priority, first-in among equals; Push refused exactly at capacity (0 admits nothing); Len equals the model; final drain checks conservation. Non-trivial: a refusal at capacity; distinct = distinct case JSON"
	}
	return &vkit.Part[Case]{Property: Property, Name: name, Rule: "[" + kind + "] " + rule, Quick: 15000, Thorough: 20000, Gen: Gen(kind), Exec: Exec}
}

var (
	PartQ     = part("pipe-q", qadapt.KindQ)
	PartAsync = part("pipe-async", qadapt.KindAsync)
	PartMux   = part("pipe-mux", qadapt.KindMux)
	PartMQ    = part("pipe-mq", qadapt.KindMQ)
	PartSync  = part("syncq", qadapt.KindSync)
	PartPri   = part("priq", qadapt.KindPri)
)
