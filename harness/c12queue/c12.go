// Package c12queue decides property C12: order (FIFO / prior / ctrl-before-req
// / priority), capacity and close semantics of the six queue types over
// sequential histories, against list models written from the statement.
package c12queue

import (
	"fmt"
	"math"

	"pgregory.net/rapid"

	"verifharness/qadapt"
	"verifharness/vkit"
)

const Property = "C12"

type Step struct {
	Op   string `json:"op"` // add | prior | pop | popanyway | trypop | close | tryclose | tryclear | observe | push | poppri
	Lane int    `json:"lane,omitempty"`
	Pri  int    `json:"pri,omitempty"`
	// add: go through the queue's Add*Anyway entry point (only where the model says the lane is not full)
	Anyway bool `json:"anyway,omitempty"`
	// which live instance the call goes to: 0 = the case's queue, 1.. = Case.Others
	Q int `json:"q,omitempty"`
}

// OtherQ is a further queue of the case's type that is alive (and operated, with a model of its own) at the same
// time as the case's queue.
type OtherQ struct {
	CapReq  int `json:"cap_req"`
	CapCtrl int `json:"cap_ctrl,omitempty"`
	Ctor    int `json:"ctor,omitempty"`
}

type Case struct {
	Kind    string `json:"kind"`
	CapReq  int    `json:"cap_req"`
	CapCtrl int    `json:"cap_ctrl"`
	// the way the constructor call is written (qadapt.Ctor*): all ways ask for the same queue
	Ctor  int    `json:"ctor,omitempty"`
	Steps []Step `json:"steps"`
	// further live instances of the same type (steps with Q > 0 go to them)
	Others []OtherQ `json:"others,omitempty"`
	// when the instances are built: 0 = all before the first step, in order; 1 = all before the first step, the
	// case's queue last; 2 = each right before its first step
	Build int `json:"build,omitempty"`
}

// ---------------------------------------------------------------------------
// list model of the FIFO-like queues (pipe queues and the sync queue)

type fifoModel struct {
	kind    string
	caps    [2]int
	lanes   [2][]int // [req, ctrl]
	closed  bool
	cleared bool
}

func (m *fifoModel) empty() bool { return len(m.lanes[0])+len(m.lanes[1]) == 0 }

func (m *fifoModel) head() (lane int) {
	if len(m.lanes[qadapt.LaneCtrl]) > 0 {
		return qadapt.LaneCtrl
	}
	return qadapt.LaneReq
}

func (m *fifoModel) take() int {
	l := m.head()
	v := m.lanes[l][0]
	m.lanes[l] = m.lanes[l][1:]
	return v
}

// blocking reports whether a pop of the given flavour would block (never issued here: that is C13)
func (m *fifoModel) blocking() bool { return m.empty() && !m.closed }

// genOthers draws the further live instances of a case (most cases have none).
func genOthers(t *rapid.T, caps []int, ctrlCaps []int) (others []OtherQ, build int) {
	n := rapid.IntRange(0, 9).Draw(t, "others") - 6 // 0-6: none, 7: one, 8: two, 9: three
	for i := 0; i < n; i++ {
		o := OtherQ{CapReq: rapid.SampledFrom(caps).Draw(t, "ocapreq"), Ctor: rapid.IntRange(0, qadapt.NCtors-1).Draw(t, "octor")}
		if ctrlCaps != nil {
			o.CapCtrl = rapid.SampledFrom(ctrlCaps).Draw(t, "ocapctrl")
		}
		others = append(others, o)
	}
	if n > 0 {
		build = rapid.IntRange(0, 2).Draw(t, "build")
	}
	return others, build
}

func genFifo(t *rapid.T, kind string) Case {
	c := Case{Kind: kind}
	c.CapReq = rapid.SampledFrom([]int{0, 1, 2, 3, 5}).Draw(t, "capreq")
	c.CapCtrl = rapid.SampledFrom([]int{0, 1, 2}).Draw(t, "capctrl")
	c.Ctor = rapid.IntRange(0, qadapt.NCtors-1).Draw(t, "ctor")
	c.Others, c.Build = genOthers(t, []int{0, 1, 2, 3, 5}, []int{0, 1, 2})
	isSync, isMQ := kind == qadapt.KindSync, kind == qadapt.KindMQ
	ms := []*fifoModel{{kind: kind, caps: [2]int{c.CapReq, c.CapCtrl}}}
	for _, o := range c.Others {
		ms = append(ms, &fifoModel{kind: kind, caps: [2]int{o.CapReq, o.CapCtrl}})
	}
	if isSync {
		for _, m := range ms {
			m.caps = [2]int{}
		}
	}
	n := rapid.IntRange(1, 40).Draw(t, "n")
	for i := 0; i < n; i++ {
		// weights favour adds so that capacity is reached, then pops, with closes in between
		ops := []string{"add", "add", "add", "add", "pop", "popanyway", "close"}
		if !isSync {
			ops = append(ops, "prior", "prior")
		} else {
			ops = append(ops, "trypop", "trypop", "observe")
		}
		if isMQ {
			ops = append(ops, "tryclose", "tryclear", "observe")
		}
		if kind == qadapt.KindAsync || kind == qadapt.KindMux {
			ops = append(ops, "observe")
		}
		op := rapid.SampledFrom(ops).Draw(t, "op")
		st := Step{Op: op}
		if isMQ && (op == "add" || op == "prior") && rapid.Bool().Draw(t, "ctrl") {
			st.Lane = qadapt.LaneCtrl
		}
		if op == "add" && !isSync && rapid.IntRange(0, 3).Draw(t, "anywayadd") == 0 {
			st.Anyway = true // through Add*Anyway (where the lane is not full)
		}
		if len(ms) > 1 {
			st.Q = rapid.IntRange(0, len(ms)-1).Draw(t, "q")
		}
		m := ms[st.Q]
		// fold the model so that a blocking pop is never issued
		switch op {
		case "pop", "popanyway":
			if m.blocking() {
				st = Step{Op: "add", Q: st.Q}
				op = "add"
			}
		}
		applyFifo(m, st, 1000+i, isSync)
		c.Steps = append(c.Steps, st)
	}
	return c
}

type fifoExpect struct {
	outcome qadapt.Outcome // for adds
	v       int
	closed  bool
	ok      bool // trypop
	boolRes bool // tryclose / tryclear
	anyBool bool // result not asserted
}

// applyFifo advances the model and says what the statement fixes about the result.
func applyFifo(m *fifoModel, st Step, v int, isSync bool) (e fifoExpect) {
	lane := st.Lane
	switch st.Op {
	case "add", "prior":
		prior := st.Op == "prior"
		switch {
		case m.closed && isSync:
			e.outcome = qadapt.Accepted // dropped silently
		case m.closed:
			e.outcome = qadapt.Closed
		case !prior && m.caps[lane] > 0 && len(m.lanes[lane]) >= m.caps[lane]:
			e.outcome = qadapt.Full
		case prior:
			m.lanes[lane] = append([]int{v}, m.lanes[lane]...)
		default:
			m.lanes[lane] = append(m.lanes[lane], v)
		}
	case "pop":
		// pipe queues: fails after close even if items remain; sync queue: drains first
		if m.closed && !isSync {
			e.closed = true
		} else if !m.empty() {
			e.v = m.take()
		} else {
			e.closed = true
		}
	case "popanyway":
		if !m.empty() {
			e.v = m.take()
		} else {
			e.closed = true
		}
	case "trypop":
		switch {
		case !m.empty():
			e.v, e.ok = m.take(), true
		case m.closed:
			e.ok, e.closed = true, true
		}
	case "close":
		m.closed = true
	case "tryclose":
		if m.closed {
			e.anyBool = true // return value on an already closed queue is not asserted
		} else if m.empty() {
			m.closed = true
			e.boolRes = true
		}
	case "tryclear":
		if m.cleared || (m.closed && m.empty()) {
			m.cleared = true
			e.boolRes = true
		}
	}
	return e
}

// fifoInst is one live FIFO-like queue with its model.
type fifoInst struct {
	q      *qadapt.Q
	m      *fifoModel
	kind   string
	isSync bool
	// conservation bookkeeping of the step parts (nil: the caller's items are all distinct and every hand-out is
	// compared with the model's head, which already excludes duplicates and inventions)
	accepted, handed map[int]bool
}

func newFifoInst(kind string, capReq, capCtrl, ctor int, books bool) *fifoInst {
	in := &fifoInst{kind: kind, isSync: kind == qadapt.KindSync}
	in.q = qadapt.NewCtor(kind, capReq, capCtrl, anywayPause, ctor)
	in.m = &fifoModel{kind: kind, caps: [2]int{capReq, capCtrl}}
	if in.isSync {
		in.m.caps = [2]int{}
	}
	if kind != qadapt.KindMQ {
		in.m.caps[1] = 0
	}
	if books {
		in.accepted, in.handed = map[int]bool{}, map[int]bool{}
	}
	return in
}

func (in *fifoInst) size() int { return len(in.m.lanes[0]) + len(in.m.lanes[1]) }

func (in *fifoInst) give(res *vkit.Result, what func() string, v int) bool {
	if in.handed == nil {
		return true
	}
	if in.handed[v] {
		res.Failf("duplicate", "%s: item %d handed out twice", what(), v)
		return false
	}
	if !in.accepted[v] {
		res.Failf("invented", "%s: item %d was handed out but never accepted", what(), v)
		return false
	}
	in.handed[v] = true
	return true
}

// step issues one call (never a blocking one: those are skipped) and compares its result and the observers with the
// model. false: a failure was recorded.
func (in *fifoInst) step(res *vkit.Result, st Step, v int, what func() string) bool {
	q, m, isSync := in.q, in.m, in.isSync
	switch st.Op {
	case "add", "prior":
		add := q.Add
		if st.Op == "prior" {
			if q.AddPrior == nil {
				res.Skip("no-prior")
				return true
			}
			add = q.AddPrior
		}
		wasClosed := m.closed
		e := applyFifo(m, st, v, isSync)
		if st.Op == "add" && st.Anyway && q.AddAnyway != nil && e.outcome != qadapt.Full {
			// (on a full lane the Anyway entry points retry forever: a blocking call, not part of sequential histories)
			res.Class("add-through-anyway-entry")
			add = q.AddAnyway // (should it poll, the guard around the history decides)
		}
		got := add(st.Lane, v)
		if got != e.outcome {
			site := "add-outcome"
			if e.outcome == qadapt.Full || got == qadapt.Full {
				site = "capacity"
			} else if e.outcome == qadapt.Closed || got == qadapt.Closed {
				site = "add-after-close"
			}
			// (the model has already taken the item in: say what it held before)
			res.Failf(site, "%s: outcome %v, want %v", what(), got, e.outcome)
			return false
		}
		if got == qadapt.Accepted && !(isSync && wasClosed) && in.accepted != nil {
			in.accepted[v] = true
		}
		switch e.outcome {
		case qadapt.Full:
			res.Class("refused-at-capacity")
			res.NonTrivial = true
		case qadapt.Closed:
			res.Class("refused-closed")
		}
		if st.Op == "prior" && e.outcome == qadapt.Accepted && m.caps[st.Lane] > 0 && len(m.lanes[st.Lane]) > m.caps[st.Lane] {
			res.Class("prior-exceeds-bound")
		}
		if isSync && wasClosed {
			res.Class("dropped-silently")
		}
	case "pop", "popanyway":
		if m.blocking() {
			res.Skip("would-block")
			return true
		}
		e := applyFifo(m, st, v, isSync)
		pop := q.Pop
		if st.Op == "popanyway" {
			pop = q.PopAnyway
		}
		gv, gclosed, err := pop()
		if err != nil {
			res.Failf("pop-error", "%s: %v", what(), err)
			return false
		}
		if gclosed != e.closed || (!gclosed && gv != e.v) {
			site := "order"
			if gclosed != e.closed {
				site = "pop-after-close"
			}
			res.Failf(site, "%s: got (item %d, closed %v), want (item %d, closed %v)", what(), gv, gclosed, e.v, e.closed)
			return false
		}
		if !gclosed && !in.give(res, what, gv) {
			return false
		}
		if e.closed && !m.empty() {
			res.Class("pop-refused-with-items-after-close")
		}
		if !e.closed && m.closed {
			res.Class("drain-after-close")
		}
	case "trypop":
		if q.TryPop == nil {
			res.Skip("no-trypop")
			return true
		}
		e := applyFifo(m, st, v, isSync)
		gv, gok, gclosed := q.TryPop()
		if gok != e.ok || gclosed != e.closed || (gok && !gclosed && gv != e.v) {
			res.Failf("trypop", "%s: got (item %d, ok %v, closed %v), want (item %d, ok %v, closed %v)", what(), gv, gok, gclosed, e.v, e.ok, e.closed)
			return false
		}
		if gok && !gclosed && !in.give(res, what, gv) {
			return false
		}
	case "close":
		if !m.closed && !m.empty() {
			res.Class("close-with-residue")
			res.NonTrivial = true
		}
		applyFifo(m, st, v, isSync)
		q.Close()
	case "tryclose":
		if q.TryClose == nil {
			res.Skip("no-tryclose")
			return true
		}
		e := applyFifo(m, st, v, isSync)
		got := q.TryClose()
		if !e.anyBool && got != e.boolRes {
			res.Failf("tryclose", "%s: TryClose = %v, want %v", what(), got, e.boolRes)
			return false
		}
	case "tryclear":
		if q.TryClear == nil {
			res.Skip("no-tryclear")
			return true
		}
		e := applyFifo(m, st, v, isSync)
		got := q.TryClear()
		if got != e.boolRes {
			res.Failf("tryclear", "%s: TryClear = %v, want %v", what(), got, e.boolRes)
			return false
		}
		if got {
			res.Class("cleared")
		}
	case "observe":
	default:
		res.Skip("unknown-op")
		return true
	}
	// observers after every step
	if q.IsClosed != nil && q.IsClosed() != m.closed {
		res.Failf("isclosed", "%s: afterwards IsClosed = %v, model %v", what(), q.IsClosed(), m.closed)
		return false
	}
	if q.IsCleared != nil && q.IsCleared() != m.cleared {
		res.Failf("iscleared", "%s: afterwards IsCleared = %v, model %v", what(), q.IsCleared(), m.cleared)
		return false
	}
	if q.Len != nil && q.Len() != len(m.lanes[0])+len(m.lanes[1]) {
		res.Failf("len", "%s: afterwards Len = %d, model %d", what(), q.Len(), len(m.lanes[0])+len(m.lanes[1]))
		return false
	}
	return true
}

// finish: conservation - close, then drain in order; accepted == handed out + residue.
func (in *fifoInst) finish(res *vkit.Result, name string, cur *func() string) bool {
	q, m := in.q, in.m
	*cur = func() string {
		return fmt.Sprintf("final close and drain of %s (model holds req %d ctrl %d items)", name, len(m.lanes[0]), len(m.lanes[1]))
	}
	what := func() string { return "final drain of " + name }
	q.Close()
	m.closed = true
	for !m.empty() {
		want := m.take()
		gv, gclosed, err := q.PopAnyway()
		if err != nil || gclosed || gv != want {
			res.Failf("residue", "final drain of %s: got (item %d, closed %v, err %v), want item %d", name, gv, gclosed, err, want)
			return false
		}
		if !in.give(res, what, gv) {
			return false
		}
	}
	if _, gclosed, err := q.PopAnyway(); err != nil || !gclosed {
		res.Failf("residue", "final drain of %s: the queue hands out more than was accepted", name)
		return false
	}
	for v := range in.accepted {
		if !in.handed[v] {
			res.Failf("lost", "%s: item %d was accepted but never handed out", name, v)
			return false
		}
	}
	return true
}

// instCfgs lists the configurations of a case's instances (index 0 = the case's queue) and the order they are
// built in up front (nil entries of the returned slice of instances are built at their first step).
func instCfgs(c Case) []OtherQ {
	return append([]OtherQ{{CapReq: c.CapReq, CapCtrl: c.CapCtrl, Ctor: c.Ctor}}, c.Others...)
}

func buildOrder(n, build int) []int {
	var order []int
	switch build {
	case 0:
		for i := 0; i < n; i++ {
			order = append(order, i)
		}
	case 1:
		for i := 1; i < n; i++ {
			order = append(order, i)
		}
		order = append(order, 0)
	}
	return order
}

func instName(kind string, i, n int) string {
	if n == 1 {
		return kind
	}
	return fmt.Sprintf("%s (instance %d of %d live ones)", kind, i, n)
}

func execFifo(c Case, res *vkit.Result, cur *func() string, release *func()) *vkit.Result {
	cfgs := instCfgs(c)
	insts := make([]*fifoInst, len(cfgs))
	*release = func() {
		for _, in := range insts {
			if in != nil {
				in.q.Close()
			}
		}
	}
	mk := func(i int) {
		insts[i] = newFifoInst(c.Kind, cfgs[i].CapReq, cfgs[i].CapCtrl, cfgs[i].Ctor, true)
	}
	for _, i := range buildOrder(len(cfgs), c.Build) {
		mk(i)
	}
	if c.Ctor != qadapt.CtorPlain {
		res.Class(fmt.Sprintf("constructor-written-way-%d", c.Ctor))
	}
	if len(cfgs) > 1 {
		res.Class(fmt.Sprintf("%d-live-instances", len(cfgs)))
	}
	used := map[int]bool{}
	for i, st := range c.Steps {
		if c.Kind != qadapt.KindMQ {
			st.Lane = qadapt.LaneReq
		}
		if st.Lane != qadapt.LaneReq && st.Lane != qadapt.LaneCtrl {
			res.Skip("bad-lane")
			continue
		}
		if st.Q < 0 || st.Q >= len(cfgs) {
			res.Skip("bad-instance")
			continue
		}
		if insts[st.Q] == nil {
			mk(st.Q)
		}
		in := insts[st.Q]
		used[st.Q] = true
		if len(used) > 1 {
			res.Class("calls-on-several-live-instances")
		}
		v := 1000 + i
		// (formatted only when somebody asks; the model state is the one before the call)
		before := [2][]int{in.m.lanes[0], in.m.lanes[1]}
		wasClosed := in.m.closed
		cfg := cfgs[st.Q]
		what := func() string {
			return fmt.Sprintf("step %d %+v on %s (cap req %d ctrl %d; model before the call: req %v ctrl %v closed %v)", i, st, instName(c.Kind, st.Q, len(cfgs)), cfg.CapReq, cfg.CapCtrl, before[0], before[1], wasClosed)
		}
		*cur = what
		if !in.step(res, st, v, what) {
			return res
		}
	}
	for i := range insts {
		if insts[i] == nil {
			mk(i)
		}
		if !insts[i].finish(res, instName(c.Kind, i, len(cfgs)), cur) {
			return res
		}
	}
	return res
}

// ---------------------------------------------------------------------------
// priority queue

type priEntry struct{ v, pri, seq int }

// genPriority: mostly a small range with many ties, sometimes the extremes of int
// (differences that overflow must not disturb the order).
func genPriority(t *rapid.T) int {
	if rapid.IntRange(0, 5).Draw(t, "extreme") == 0 {
		return rapid.SampledFrom([]int{math.MinInt, math.MinInt + 1, math.MaxInt, math.MaxInt - 1, math.MinInt / 2, math.MaxInt / 2, math.MinInt32, math.MaxInt32, 1 << 40, -(1 << 40)}).Draw(t, "xpri")
	}
	return rapid.IntRange(-2, 2).Draw(t, "pri")
}

func genPri(t *rapid.T) Case {
	c := Case{Kind: qadapt.KindPri}
	c.CapReq = rapid.SampledFrom([]int{0, 1, 2, 3, 5, 8}).Draw(t, "cap")
	if rapid.Bool().Draw(t, "decoy") {
		c.Ctor = qadapt.CtorDecoy
	}
	c.Others, c.Build = genOthers(t, []int{0, 1, 2, 3, 5, 8}, nil)
	n := rapid.IntRange(1, 40).Draw(t, "n")
	for i := 0; i < n; i++ {
		var st Step
		if rapid.IntRange(0, 9).Draw(t, "what") < 6 {
			st = Step{Op: "push", Pri: genPriority(t)}
		} else {
			st = Step{Op: "poppri"}
		}
		if len(c.Others) > 0 {
			st.Q = rapid.IntRange(0, len(c.Others)).Draw(t, "q")
		}
		c.Steps = append(c.Steps, st)
	}
	return c
}

// priInst is one live priority queue with its model.
type priInst struct {
	q     *qadapt.Q
	cap   int
	name  string
	model []priEntry
	seq   int
}

func (in *priInst) best() int {
	b := -1
	for i, e := range in.model {
		if b < 0 || e.pri > in.model[b].pri || (e.pri == in.model[b].pri && e.seq < in.model[b].seq) {
			b = i
		}
	}
	return b
}

func (in *priInst) pop(res *vkit.Result, i int, st Step) bool {
	gv, gpri, ok := in.q.PopPri()
	b := in.best()
	if b < 0 {
		if ok {
			res.Failf("pri-invented", "step %d %+v on %s: Pop on an empty queue returned item %d", i, st, in.name, gv)
			return false
		}
		return true
	}
	want := in.model[b]
	if !ok || gv != want.v || gpri != want.pri {
		res.Failf("pri-order", "step %d %+v on %s: Pop = (item %d, priority %d, ok %v), want item %d priority %d (highest priority, first in among equals; model %v)", i, st, in.name, gv, gpri, ok, want.v, want.pri, in.model)
		return false
	}
	ties := 0
	for _, e := range in.model {
		if e.pri == want.pri {
			ties++
		}
	}
	if ties > 1 {
		res.Class("tie-broken-fifo")
	}
	in.model = append(in.model[:b:b], in.model[b+1:]...)
	return true
}

func execPri(c Case, res *vkit.Result, cur *func() string, release *func()) *vkit.Result {
	cfgs := instCfgs(c)
	insts := make([]*priInst, len(cfgs))
	mk := func(i int) {
		insts[i] = &priInst{q: qadapt.NewCtor(qadapt.KindPri, cfgs[i].CapReq, 0, anywayPause, cfgs[i].Ctor), cap: cfgs[i].CapReq, name: instName(c.Kind, i, len(cfgs))}
	}
	for _, i := range buildOrder(len(cfgs), c.Build) {
		mk(i)
	}
	if len(cfgs) > 1 {
		res.Class(fmt.Sprintf("%d-live-instances", len(cfgs)))
	}
	used := map[int]bool{}
	for i, st := range c.Steps {
		if st.Q < 0 || st.Q >= len(cfgs) {
			res.Skip("bad-instance")
			continue
		}
		if insts[st.Q] == nil {
			mk(st.Q)
		}
		in := insts[st.Q]
		used[st.Q] = true
		if len(used) > 1 {
			res.Class("calls-on-several-live-instances")
		}
		switch st.Op {
		case "push":
			want := qadapt.Accepted
			if len(in.model) >= in.cap {
				want = qadapt.Full
				res.Class("refused-at-capacity")
				res.NonTrivial = true
			}
			if st.Pri > 1<<30 || st.Pri < -(1<<30) {
				res.Class("extreme-priority")
			}
			got := in.q.PushPri(1000+i, st.Pri)
			if got != want {
				return res.Failf("pri-capacity", "step %d %+v on %s: Push outcome %v, want %v (holding %d, capacity %d)", i, st, in.name, got, want, len(in.model), in.cap)
			}
			if got == qadapt.Accepted {
				in.seq++
				in.model = append(in.model, priEntry{1000 + i, st.Pri, in.seq})
			}
		case "poppri":
			if !in.pop(res, i, st) {
				return res
			}
		default:
			res.Skip("unknown-op")
			continue
		}
		if in.q.Len() != len(in.model) {
			return res.Failf("pri-len", "step %d %+v on %s: Len = %d, model %d", i, st, in.name, in.q.Len(), len(in.model))
		}
	}
	for i := range insts {
		if insts[i] == nil {
			mk(i)
		}
		in := insts[i]
		for len(in.model) > 0 {
			if !in.pop(res, len(c.Steps), Step{Op: "drain", Q: i}) {
				return res
			}
		}
		if _, _, ok := in.q.PopPri(); ok {
			return res.Failf("pri-invented", "final drain of %s: the queue hands out more than was accepted", in.name)
		}
	}
	return res
}

// ---------------------------------------------------------------------------

func Gen(kind string) func(t *rapid.T) Case {
	return func(t *rapid.T) Case {
		if kind == qadapt.KindPri {
			return genPri(t)
		}
		return genFifo(t, kind)
	}
}

func Exec(c Case) *vkit.Result {
	res := &vkit.Result{}
	ok := false
	for _, k := range qadapt.AllKinds {
		if k == c.Kind {
			ok = true
		}
	}
	if !ok || c.CapReq < 0 || c.CapCtrl < 0 || c.CapReq > 1000 || c.CapCtrl > 1000 || c.Ctor < 0 || c.Ctor >= qadapt.NCtors || len(c.Others) > 8 || c.Build < 0 || c.Build > 2 {
		res.Skip("malformed-config")
		return res
	}
	for _, o := range c.Others {
		if o.CapReq < 0 || o.CapCtrl < 0 || o.CapReq > 1000 || o.CapCtrl > 1000 || o.Ctor < 0 || o.Ctor >= qadapt.NCtors {
			res.Skip("malformed-config")
			return res
		}
	}
	return guarded(func(res *vkit.Result, cur *func() string, release *func()) {
		if c.Kind == qadapt.KindPri {
			execPri(c, res, cur, release)
		} else {
			execFifo(c, res, cur, release)
		}
	})
}

func part(name, kind string) *vkit.Part[Case] {
	rule := "rapid: capacity (req 0/1/2/3/5, ctrl 0/1/2) x 1-40 steps drawn by folding the list model so that only non-blocking calls are issued (add, prior-add, ctrl/req lanes, Pop, PopAnyway, TryPop, Close, TryClose, TryClear, observers); after every step result, IsClosed/IsCleared/Len equal the model; final close + drain checks conservation (accepted = handed out + residue, no duplicate, nothing invented). Non-trivial: a refusal at capacity or a close with residue; distinct = distinct case JSON"
	if kind == qadapt.KindPri {
		rule = "rapid: capacity 0/1/2/3/5/8 x 1-40 steps of Push(priority -2..2 with many ties, sometimes MinInt/MaxInt and other extremes) / Pop; Pop must return the highest priority, first-in among equals; Push refused exactly at capacity (0 admits nothing); Len equals the model; final drain checks conservation. Non-trivial: a refusal at capacity; distinct = distinct case JSON"
	}
	return &vkit.Part[Case]{Property: Property, Name: name, Rule: "[" + kind + "] " + rule, Quick: 15000, Thorough: 20000, Gen: Gen(kind), Exec: Exec}
}

var (
	PartQ     = part("pipe-q", qadapt.KindQ)
	PartAsync = part("pipe-async", qadapt.KindAsync)
	PartMux   = part("pipe-mux", qadapt.KindMux)
	PartMQ    = part("pipe-mq", qadapt.KindMQ)
	PartSync  = part("syncq", qadapt.KindSync)
	PartPri   = part("priq", qadapt.KindPri)
)
