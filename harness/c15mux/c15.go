// Package c15mux checks property C15: the write-through cache of a mux worker
// group stays coherent with the backing store - for every history of get / add /
// update / delete / update-or-add / upsert-then-load / upsert-then-renew, every
// pattern of failing store callbacks, map and LRU facades, any worker count and
// any key hash (negative and minimum-integer hashes included).
//
// The store is the harness's: an in-memory map whose five callbacks (load, add,
// update, upsert, delete) follow a generated fault plan, log every invocation
// and compare every "existing item" the group hands them with what the store
// really holds. The oracle is written from the property statement and the
// documentation of the seven operations, not from the handlers.
package c15mux

import (
	"context"
	"fmt"
	"math"
	"runtime"
	"strings"
	"sync"

	"github.com/pinealctx/neptune/syncx/pipe/mux"
	"github.com/pinealctx/neptune/ulog"
	"go.uber.org/zap/zapcore"
	"pgregory.net/rapid"

	"verifharness/vkit"
)

const Property = "C15"

func init() { ulog.SetLogLevel(zapcore.FatalLevel + 1) }

// ---- case data ---------------------------------------------------------------

// KeySpec names one key: a Hashed2Int type of the mux package and its value (N is
// the bit pattern for the integer types, truncated to the type's width; S for
// String).
type KeySpec struct {
	T string `json:"t"`
	N int64  `json:"n"`
	S string `json:"s,omitempty"`
}

// Config is the group under test.
type Config struct {
	LRU     bool      `json:"lru"`     // false: map facade
	Cap     int64     `json:"cap"`     // LRU capacity (1, 2, 100)
	Workers int       `json:"workers"` // 1, 2, 3, 7
	Keys    []KeySpec `json:"keys"`
	Init    []bool    `json:"init"` // key i is in the store (not in the cache) when the case starts
}

// operation kinds
const (
	opGet = iota
	opAdd
	opUpdate
	opDelete
	opUpdOrAdd
	opUpsertLoad
	opUpsertRenew
	nOpKinds
)

var opNames = [...]string{"DoGet", "DoAdd", "DoUpdate", "DoDelete", "DoUpdOrAddIfNull", "DoUpsertThenLoad", "DoUpsertThenRenewInCache"}

// Op is one call on the group.
type Op struct {
	K   int   `json:"k"`   // operation kind
	Key int   `json:"key"` // index into Config.Keys
	D   int64 `json:"d"`   // payload
}

// store callbacks
const (
	cbLoad = iota
	cbAdd
	cbUpd
	cbUpsert
	cbDel
	nCallbacks
)

var cbNames = [...]string{"load", "add", "update", "upsert", "delete"}

// Fault makes the Nth invocation (0-based, counted per callback over the whole
// case) of callback Cb fail without effect. Kind 0: a plain error; 1: the
// not-found error (the one the IsNotFoundFn given to DoUpdOrAddIfNull accepts).
type Fault struct {
	Cb   int `json:"cb"`
	Nth  int `json:"nth"`
	Kind int `json:"kind"`
}

// Case is a sequential history.
type Case struct {
	Config
	Ops    []Op    `json:"ops"`
	Faults []Fault `json:"faults"`
}

// CaseConc is a concurrent program: caller i issues Callers[i] one after the
// other; the callers run freely.
type CaseConc struct {
	Config
	Callers [][]Op  `json:"callers"`
	Faults  []Fault `json:"faults"`
	Procs   int     `json:"procs"`  // GOMAXPROCS while the case runs
	Yields  int     `json:"yields"` // Gosched calls inside every store callback (widens the windows)
}

func (k KeySpec) build() (mux.Hashed2Int, bool) {
	switch k.T {
	case "Byte":
		return mux.Byte(byte(k.N)), true
	case "Int8":
		return mux.Int8(int8(k.N)), true
	case "Int16":
		return mux.Int16(int16(k.N)), true
	case "UInt16":
		return mux.UInt16(uint16(k.N)), true
	case "Int32":
		return mux.Int32(int32(k.N)), true
	case "UInt32":
		return mux.UInt32(uint32(k.N)), true
	case "Int64":
		return mux.Int64(k.N), true
	case "UInt64":
		return mux.UInt64(uint64(k.N)), true
	case "Int":
		return mux.Int(int(k.N)), true
	case "UInt":
		return mux.UInt(uint(k.N)), true
	case "Int32CRC":
		return mux.Int32CRC(int32(k.N)), true
	case "UInt32CRC":
		return mux.UInt32CRC(uint32(k.N)), true
	case "Int64CRC":
		return mux.Int64CRC(k.N), true
	case "UInt64CRC":
		return mux.UInt64CRC(uint64(k.N)), true
	case "IntCRC":
		return mux.IntCRC(int(k.N)), true
	case "UIntCRC":
		return mux.UIntCRC(uint(k.N)), true
	case "String":
		return mux.String(k.S), true
	}
	return nil, false
}

var keyTypes = []string{"Byte", "Int8", "Int16", "UInt16", "Int32", "UInt32", "Int64", "UInt64", "Int", "UInt",
	"Int32CRC", "UInt32CRC", "Int64CRC", "UInt64CRC", "IntCRC", "UIntCRC", "String"}

// keyPool: the shapes the property names - hashes equal to the minimum integer
// (four different types), other negative hashes, zero, the maximum, keys of
// different types with equal hashes, CRC-hashed and string keys.
var keyPool = []KeySpec{
	{T: "Int64", N: math.MinInt64}, {T: "Int", N: math.MinInt64}, {T: "UInt64", N: math.MinInt64}, {T: "UInt", N: math.MinInt64},
	{T: "Int64", N: -1}, {T: "Int64", N: -7}, {T: "Int64", N: -6}, {T: "Int64", N: 0}, {T: "Int64", N: 5}, {T: "Int64", N: math.MaxInt64},
	{T: "Int64", N: math.MinInt64 + 1},
	{T: "Int", N: 5}, {T: "Int", N: -3}, {T: "UInt64", N: -2}, {T: "UInt64", N: 5},
	{T: "Int32", N: math.MinInt32}, {T: "Int32", N: 5}, {T: "Int8", N: -128}, {T: "Int16", N: -5}, {T: "Byte", N: 5},
	{T: "UInt16", N: 5}, {T: "UInt32", N: 5},
	{T: "String", S: "a"}, {T: "String", S: "b"}, {T: "String", S: ""},
	{T: "Int64CRC", N: 5}, {T: "Int32CRC", N: -1}, {T: "UInt64CRC", N: 7}, {T: "IntCRC", N: -1}, {T: "UIntCRC", N: 5}, {T: "UInt32CRC", N: 5},
}

func keyID(h mux.Hashed2Int) string { return fmt.Sprintf("%T(%#v)", h, h) }

// ---- generators --------------------------------------------------------------

func genKey(t *rapid.T) KeySpec {
	if rapid.IntRange(0, 9).Draw(t, "keysrc") < 7 {
		return rapid.SampledFrom(keyPool).Draw(t, "poolkey")
	}
	k := KeySpec{T: rapid.SampledFrom(keyTypes).Draw(t, "keytype")}
	if k.T == "String" {
		k.S = rapid.StringOfN(rapid.RuneFrom([]rune("abz0")), 0, 3, -1).Draw(t, "keystr")
	} else {
		k.N = rapid.Int64().Draw(t, "keyval")
	}
	return k
}

func genConfig(t *rapid.T) Config {
	c := Config{}
	c.LRU = rapid.Bool().Draw(t, "lru")
	if c.LRU {
		c.Cap = rapid.SampledFrom([]int64{1, 2, 100}).Draw(t, "cap")
	}
	c.Workers = rapid.SampledFrom([]int{1, 2, 3, 7}).Draw(t, "workers")
	n := rapid.IntRange(1, 6).Draw(t, "nkeys")
	seen := map[string]bool{}
	for len(c.Keys) < n {
		k := genKey(t)
		h, _ := k.build()
		id := keyID(h)
		if seen[id] {
			// a duplicate: take the next free small Int64 instead of retrying without bound
			k = KeySpec{T: "Int64", N: int64(100 + len(c.Keys))}
			h, _ = k.build()
			id = keyID(h)
			if seen[id] {
				continue
			}
		}
		seen[id] = true
		c.Keys = append(c.Keys, k)
	}
	c.Init = make([]bool, n)
	for i := range c.Init {
		c.Init[i] = rapid.Bool().Draw(t, "init")
	}
	return c
}

// opWeights: the operation mix (index = operation kind)
var opKindGen = rapid.SampledFrom([]int{opGet, opGet, opGet, opAdd, opAdd, opUpdate, opUpdate, opDelete, opDelete,
	opUpdOrAdd, opUpdOrAdd, opUpsertLoad, opUpsertLoad, opUpsertRenew, opUpsertRenew})

func genOp(t *rapid.T, nkeys int) Op {
	return Op{K: opKindGen.Draw(t, "op"), Key: rapid.IntRange(0, nkeys-1).Draw(t, "key"), D: int64(rapid.IntRange(0, 99).Draw(t, "d"))}
}

// nthGen: which invocation fails - mostly early ones, so that short histories are hit too
var nthGen = rapid.SampledFrom([]int{0, 0, 0, 1, 1, 1, 2, 2, 3, 3, 4, 5, 6, 8, 11})

func genFaults(t *rapid.T) []Fault {
	n := rapid.SampledFrom([]int{0, 1, 2, 2, 3, 3, 4, 4, 5, 6, 7, 8}).Draw(t, "nfaults")
	var fs []Fault
	for i := 0; i < n; i++ {
		fs = append(fs, Fault{
			Cb:   rapid.IntRange(0, nCallbacks-1).Draw(t, "fcb"),
			Nth:  nthGen.Draw(t, "fnth"),
			Kind: rapid.IntRange(0, 1).Draw(t, "fkind"),
		})
	}
	return fs
}

func GenSeq(t *rapid.T) Case {
	c := Case{Config: genConfig(t)}
	n := rapid.IntRange(1, 30).Draw(t, "nops")
	for i := 0; i < n; i++ {
		c.Ops = append(c.Ops, genOp(t, len(c.Keys)))
	}
	c.Faults = genFaults(t)
	return c
}

func GenConc(t *rapid.T) CaseConc {
	c := CaseConc{Config: genConfig(t)}
	nc := rapid.IntRange(1, 6).Draw(t, "ncallers")
	for i := 0; i < nc; i++ {
		n := rapid.IntRange(3, 10).Draw(t, "nops")
		var ops []Op
		for j := 0; j < n; j++ {
			ops = append(ops, genOp(t, len(c.Keys)))
		}
		c.Callers = append(c.Callers, ops)
	}
	c.Faults = genFaults(t)
	c.Procs = rapid.SampledFrom([]int{1, 2, 4, 8}).Draw(t, "procs")
	c.Yields = rapid.IntRange(0, 3).Draw(t, "yields")
	return c
}

// ---- the instrumented store ----------------------------------------------------

// Val is what the store holds for a key. Every successful write makes a new
// version, so two values of one key are never equal and a stale one is always
// recognisable.
type Val struct {
	K   string
	Ver int64
	D   int64
}

// opData is the `data` argument handed to add / update / upsert operations.
type opData struct {
	Kid string
	D   int64
	Op  int
}

// cbErr is the error of one failed callback invocation (unique, so that a caller
// can be checked to have received its own error).
type cbErr struct {
	Op       int
	Cb       int
	NotFound bool
	Injected bool
	What     string
}

func (e *cbErr) Error() string {
	return fmt.Sprintf("c15 store: %s of op %d failed: %s", cbNames[e.Cb], e.Op, e.What)
}

func isNotFound(err error) bool {
	e, ok := err.(*cbErr)
	return ok && e.NotFound
}

// cbEnt is one logged callback invocation.
type cbEnt struct {
	cb     int
	tb, te int64 // logical time of begin / end
	argOK  bool  // the key / data argument is the one the caller passed
	hasPre bool  // the callback receives an "existing item" (update, upsert)
	preNil bool
	pre    interface{}
	preOK  bool // pre is exactly what the store held for the key when the callback began
	cur    string
	ok     bool
	out    Val
	err    *cbErr
}

// opRec is one operation as executed.
type opRec struct {
	id     int
	caller int
	op     Op
	kid    string
	t0, t1 int64 // logical time of call and return (t1 == 0: has not returned)
	log    []cbEnt
	v      interface{}
	err    error
	pan    string
	sweep  bool
}

type histEnt struct {
	v      Val
	inst   int64  // logical time the store took this value
	sup    int64  // logical time it was replaced or deleted (0: still current)
	supRec *opRec // the operation whose callback replaced it
}

type env struct {
	mu        sync.Mutex
	vals      map[string]Val
	hist      map[string][]*histEnt
	ver       int64
	tick      int64
	calls     [nCallbacks]int
	faults    [nCallbacks]map[int]int
	inflight  map[string]int
	yields    int
	seq       bool // sequential mode: exactly one operation is in progress at any time
	cur       int  // sequential mode: id of the operation in progress (-1: none)
	noFaults  bool // final sweep: the fault plan is switched off
	faultsHit int
	nfHit     int
	site, msg string // first violation seen from inside a callback
}

func newEnv(faults []Fault) *env {
	e := &env{vals: map[string]Val{}, hist: map[string][]*histEnt{}, inflight: map[string]int{}, cur: -1}
	for i := range e.faults {
		e.faults[i] = map[int]int{}
	}
	for _, f := range faults {
		if f.Cb < 0 || f.Cb >= nCallbacks || f.Nth < 0 {
			continue
		}
		if _, dup := e.faults[f.Cb][f.Nth]; !dup {
			e.faults[f.Cb][f.Nth] = f.Kind
		}
	}
	return e
}

func (e *env) note(site, format string, a ...any) {
	if e.site == "" {
		e.site, e.msg = site, fmt.Sprintf(format, a...)
	}
}

func (e *env) now() int64 {
	e.mu.Lock()
	e.tick++
	t := e.tick
	e.mu.Unlock()
	return t
}

// install makes v the store's value of kid (mu held).
func (e *env) install(kid string, d int64, by *opRec) Val {
	e.retire(kid, by)
	e.ver++
	v := Val{K: kid, Ver: e.ver, D: d}
	e.vals[kid] = v
	e.hist[kid] = append(e.hist[kid], &histEnt{v: v, inst: e.tick})
	return v
}

// retire ends the life of the current value of kid (mu held).
func (e *env) retire(kid string, by *opRec) {
	if hs := e.hist[kid]; len(hs) > 0 && hs[len(hs)-1].sup == 0 {
		hs[len(hs)-1].sup = e.tick
		hs[len(hs)-1].supRec = by
	}
}

// invoke is the body of every store callback.
func (e *env) invoke(rec *opRec, cb int, argOK bool, hasPre bool, pre interface{}) (interface{}, error) {
	kid := rec.kid
	ent := cbEnt{cb: cb, argOK: argOK, hasPre: hasPre}
	e.mu.Lock()
	e.tick++
	ent.tb = e.tick
	if e.seq && e.cur != rec.id {
		e.note("callback-outside-op", "the %s callback of op %d (%s %s) ran while op %d was the one in progress", cbNames[cb], rec.id, opNames[rec.op.K], kid, e.cur)
	}
	if rec.t1 != 0 {
		e.note("callback-outside-op", "the %s callback of op %d (%s %s) ran after the operation had returned to its caller", cbNames[cb], rec.id, opNames[rec.op.K], kid)
	}
	e.inflight[kid]++
	if e.inflight[kid] > 1 {
		e.note("callback-overlap", "two store callbacks for key %s are in progress at the same time (%s of op %d entered while another had not returned)", kid, cbNames[cb], rec.id)
	}
	n := e.calls[cb]
	e.calls[cb]++
	cur, exists := e.vals[kid]
	if exists {
		ent.cur = fmt.Sprintf("%+v", cur)
	} else {
		ent.cur = "<absent>"
	}
	if hasPre {
		ent.preNil = pre == nil
		ent.pre = pre
		if pv, ok := pre.(Val); ok && exists && pv == cur {
			ent.preOK = true
		}
	}
	e.mu.Unlock()

	for i := 0; i < e.yields; i++ {
		runtime.Gosched()
	}

	e.mu.Lock()
	e.tick++
	cur, exists = e.vals[kid]
	kind, faulted := e.faults[cb][n]
	if e.noFaults {
		faulted = false
	}
	switch {
	case faulted:
		ent.err = &cbErr{Op: rec.id, Cb: cb, NotFound: kind == 1, Injected: true, What: "injected fault"}
		if kind == 1 {
			ent.err.What = "injected not-found"
			e.nfHit++
		}
		e.faultsHit++
	case cb == cbLoad:
		if exists {
			ent.ok, ent.out = true, cur
		} else {
			ent.err = &cbErr{Op: rec.id, Cb: cb, NotFound: true, What: "not found"}
		}
	case cb == cbAdd:
		if exists {
			ent.err = &cbErr{Op: rec.id, Cb: cb, What: "the store already has this key"}
		} else {
			ent.ok, ent.out = true, e.install(kid, rec.op.D, rec)
		}
	case cb == cbUpd:
		if exists {
			ent.ok, ent.out = true, e.install(kid, rec.op.D, rec)
		} else {
			ent.err = &cbErr{Op: rec.id, Cb: cb, NotFound: true, What: "not found"}
		}
	case cb == cbUpsert:
		ent.ok, ent.out = true, e.install(kid, rec.op.D, rec)
	case cb == cbDel:
		if exists {
			e.retire(kid, rec)
			delete(e.vals, kid)
			ent.ok = true
		} else {
			ent.err = &cbErr{Op: rec.id, Cb: cb, NotFound: true, What: "not found"}
		}
	}
	e.inflight[kid]--
	ent.te = e.tick
	rec.log = append(rec.log, ent)
	e.mu.Unlock()
	if ent.ok {
		if cb == cbDel {
			return nil, nil
		}
		return ent.out, nil
	}
	return nil, ent.err
}

// ---- running operations against the group ------------------------------------------

type harness struct {
	cfg    Config
	grp    *mux.WorkerGrp
	keys   []mux.Hashed2Int
	kids   []string
	hashes []int
	env    *env
	ctx    context.Context
	cancel context.CancelFunc
}

func validConfig(c Config) bool {
	if c.Workers < 1 || c.Workers > 64 || len(c.Keys) < 1 || len(c.Keys) > 16 {
		return false
	}
	if c.LRU && (c.Cap < 1 || c.Cap > 1<<20) {
		return false
	}
	seen := map[string]bool{}
	for _, k := range c.Keys {
		h, ok := k.build()
		if !ok {
			return false
		}
		id := keyID(h)
		if seen[id] {
			return false
		}
		seen[id] = true
	}
	return true
}

func newHarness(c Config, faults []Fault) *harness {
	h := &harness{cfg: c, env: newEnv(faults)}
	for _, k := range c.Keys {
		key, _ := k.build()
		h.keys = append(h.keys, key)
		h.kids = append(h.kids, keyID(key))
		h.hashes = append(h.hashes, key.HashedInt())
	}
	for i, kid := range h.kids {
		if i < len(c.Init) && c.Init[i] {
			h.env.install(kid, -1, nil)
		}
	}
	if c.LRU {
		h.grp = mux.NewWorkGrpWithLRU(c.Cap, mux.WithSize(c.Workers))
	} else {
		h.grp = mux.NewWorkGrpWithMapCache(mux.WithSize(c.Workers))
	}
	h.ctx, h.cancel = context.WithCancel(context.Background())
	h.grp.Start()
	return h
}

// stop ends the worker goroutines and waits for them.
func (h *harness) stop() {
	h.cancel()
	h.grp.Stop()
	_ = h.grp.WaitStop(context.Background())
}

func (h *harness) newRec(id, caller int, op Op) *opRec {
	return &opRec{id: id, caller: caller, op: op, kid: h.kids[op.Key]}
}

// do executes rec's operation on the calling goroutine.
func (h *harness) do(rec *opRec) {
	e := h.env
	k := h.keys[rec.op.Key]
	data := opData{Kid: rec.kid, D: rec.op.D, Op: rec.id}
	isKey := func(d interface{}) bool {
		hk, ok := d.(mux.Hashed2Int)
		return ok && keyID(hk) == rec.kid
	}
	isData := func(d interface{}) bool {
		od, ok := d.(opData)
		return ok && od == data
	}
	load := func(_ context.Context, d interface{}) (interface{}, error) {
		return e.invoke(rec, cbLoad, isKey(d), false, nil)
	}
	add := func(_ context.Context, d interface{}) (interface{}, error) {
		return e.invoke(rec, cbAdd, isData(d), false, nil)
	}
	upd := func(_ context.Context, d interface{}, x interface{}) (interface{}, error) {
		return e.invoke(rec, cbUpd, isData(d), true, x)
	}
	ups := func(_ context.Context, d interface{}, x interface{}) (interface{}, error) {
		return e.invoke(rec, cbUpsert, isData(d), true, x)
	}
	del := func(_ context.Context, d interface{}) error {
		_, err := e.invoke(rec, cbDel, isKey(d), false, nil)
		return err
	}
	rec.t0 = e.now()
	defer func() {
		if r := recover(); r != nil {
			rec.pan = fmt.Sprint(r)
		}
		e.mu.Lock()
		e.tick++
		rec.t1 = e.tick
		e.mu.Unlock()
	}()
	switch rec.op.K {
	case opGet:
		rec.v, rec.err = h.grp.DoGet(h.ctx, load, k)
	case opAdd:
		rec.v, rec.err = h.grp.DoAdd(h.ctx, add, k, data)
	case opUpdate:
		rec.v, rec.err = h.grp.DoUpdate(h.ctx, load, upd, k, data)
	case opDelete:
		rec.v, rec.err = h.grp.DoDelete(h.ctx, del, k)
	case opUpdOrAdd:
		rec.v, rec.err = h.grp.DoUpdOrAddIfNull(h.ctx, load, upd, add, isNotFound, k, data)
	case opUpsertLoad:
		rec.v, rec.err = h.grp.DoUpsertThenLoad(h.ctx, ups, load, k, data)
	case opUpsertRenew:
		rec.v, rec.err = h.grp.DoUpsertThenRenewInCache(h.ctx, ups, k, data)
	}
}

// ---- the per-operation oracle (both modes) ---------------------------------------------

const (
	obsUnknown  = iota // the operation does not reveal whether the key was cached (delete)
	obsCached          // it took the cached path
	obsUncached        // it took the uncached path
)

func (r *opRec) String() string {
	var b strings.Builder
	fmt.Fprintf(&b, "op %d %s(key %s", r.id, opNames[r.op.K], r.kid)
	if r.op.K != opGet && r.op.K != opDelete {
		fmt.Fprintf(&b, ", d=%d", r.op.D)
	}
	b.WriteString(") callbacks [")
	for i, en := range r.log {
		if i > 0 {
			b.WriteString(", ")
		}
		b.WriteString(cbNames[en.cb])
		if en.hasPre {
			if en.preNil {
				b.WriteString("(existing=nil)")
			} else {
				fmt.Fprintf(&b, "(existing=%+v; store had %s)", en.pre, en.cur)
			}
		}
		if en.ok {
			if en.cb == cbDel {
				b.WriteString("=ok")
			} else {
				fmt.Fprintf(&b, "=%+v", en.out)
			}
		} else {
			fmt.Fprintf(&b, "=ERR(%s)", en.err.What)
		}
	}
	fmt.Fprintf(&b, "] returned (%+v, %v)", r.v, r.err)
	return b.String()
}

// resultIs: the caller received exactly what its own callback produced.
func (r *opRec) resultIs(en *cbEnt) bool {
	if en.ok {
		if en.cb == cbDel {
			return r.v == nil && r.err == nil
		}
		vv, ok := r.v.(Val)
		return ok && r.err == nil && vv == en.out
	}
	ce, ok := r.err.(*cbErr)
	return r.v == nil && ok && ce == en.err
}

// checkShape judges one completed operation by the documentation of its Do*
// function: which callbacks ran, in which order, with which existing item, and
// that the result is the one of the operation's own last callback. It returns
// which path (cached / uncached) the operation revealed.
func checkShape(r *opRec) (obs int, site, msg string) {
	bad := func(site, f string, a ...any) (int, string, string) {
		return obsUnknown, site, fmt.Sprintf(f, a...) + " :: " + r.String()
	}
	L := r.log
	for i := range L {
		en := &L[i]
		if !en.argOK {
			return bad("callback-args", "the %s callback did not receive the caller's key/data", cbNames[en.cb])
		}
		if en.tb < r.t0 || (r.t1 != 0 && en.te > r.t1) {
			return bad("callback-outside-op", "the %s callback ran outside the operation's call..return window", cbNames[en.cb])
		}
		if en.hasPre && !en.preNil && !en.preOK {
			return bad("coherence-existing-item", "the existing item handed to the %s callback is not what the store holds for the key (%s)", cbNames[en.cb], en.cur)
		}
	}
	seqIs := func(cbs ...int) bool {
		if len(L) != len(cbs) {
			return false
		}
		for i, c := range cbs {
			if L[i].cb != c {
				return false
			}
		}
		return true
	}
	wrongSeq := func(want string) (int, string, string) {
		return bad("callback-sequence", "callbacks do not follow the documented order (%s)", want)
	}
	// the existing item of an update that follows a load is the loaded value
	loadedPre := func(ld, up *cbEnt) bool {
		pv, ok := up.pre.(Val)
		return !up.preNil && ok && pv == ld.out
	}
	obs = obsUnknown
	switch r.op.K {
	case opGet:
		switch {
		case len(L) == 0:
			if _, isVal := r.v.(Val); !isVal || r.err != nil {
				return bad("coherence", "DoGet did not consult load, so it answered from the cache, but what it returned is not a value the store ever produced")
			}
			return obsCached, "", ""
		case seqIs(cbLoad):
			obs = obsUncached
		default:
			return wrongSeq("cached: none; uncached: load")
		}
	case opAdd:
		switch {
		case len(L) == 0:
			if r.v != nil || r.err != mux.ErrDupKey {
				return bad("add-result", "DoAdd called no store function, which is only right for a cached key, but did not return ErrDupKey")
			}
			return obsCached, "", ""
		case seqIs(cbAdd):
			obs = obsUncached
		default:
			return wrongSeq("cached: none; uncached: add")
		}
	case opUpdate, opUpdOrAdd:
		switch {
		case len(L) >= 1 && L[0].cb == cbUpd:
			if len(L) != 1 || L[0].preNil {
				return wrongSeq("cached: update(existing = cached item)")
			}
			obs = obsCached
		case len(L) >= 1 && L[0].cb == cbLoad:
			obs = obsUncached
			switch {
			case L[0].ok:
				if !seqIs(cbLoad, cbUpd) || !loadedPre(&L[0], &L[1]) {
					return wrongSeq("uncached, key in store: load, update(existing = loaded item)")
				}
			case r.op.K == opUpdOrAdd && L[0].err.NotFound:
				if !seqIs(cbLoad, cbAdd) {
					return wrongSeq("uncached, load says not found: load, add")
				}
			default:
				if !seqIs(cbLoad) {
					return wrongSeq("uncached, load fails: load only")
				}
			}
		default:
			return wrongSeq("cached: update; uncached: load first")
		}
	case opDelete:
		if !seqIs(cbDel) {
			return wrongSeq("delete")
		}
	case opUpsertLoad:
		switch {
		case len(L) >= 1 && L[0].cb == cbUpsert && !L[0].preNil:
			if len(L) != 1 {
				return wrongSeq("cached: upsert(existing = cached item)")
			}
			obs = obsCached
		case len(L) >= 1 && L[0].cb == cbUpsert:
			obs = obsUncached
			if L[0].ok && !seqIs(cbUpsert, cbLoad) || !L[0].ok && !seqIs(cbUpsert) {
				return wrongSeq("uncached: upsert(existing = nil), then load if the upsert succeeded")
			}
		default:
			return wrongSeq("upsert first")
		}
	case opUpsertRenew:
		if !seqIs(cbUpsert) {
			return wrongSeq("upsert only")
		}
		if L[0].preNil {
			obs = obsUncached
		} else {
			obs = obsCached
		}
	}
	if !r.resultIs(&L[len(L)-1]) {
		return bad("result", "the caller did not receive the result of its own last store callback")
	}
	return obs, "", ""
}

// ---- sequential histories ----------------------------------------------------------------

const (
	sNo    = iota // certainly not cached
	sMaybe        // the statement allows both
	sYes          // certainly cached
)

// seqModel is what the statement lets the harness know about the cache: per key
// whether it certainly is / certainly is not / may be cached.
//
//   - certainly cached comes from observation only: an operation that does not
//     write (DoGet served without load, DoAdd rejected without a store call) has
//     just found the key in the cache. That a successful write leaves the key
//     cached is the code's write-through policy, not part of the statement (a
//     cache that invalidates on write is coherent too), so after a write the key
//     "may be" cached.
//   - certainly not cached: nothing was cached yet, a successful delete, or an
//     operation that found the key uncached and obtained no value it could cache.
//   - it assumes nothing about which keys share a worker (any subset may share
//     one LRU), only that a map keeps an entry until it is deleted and that an LRU
//     of capacity c evicts nothing while at most c keys can be in it.
type seqModel struct {
	cfg     Config
	st      []int
	deleted []bool // certainly not cached because of a successful delete
	wt      []bool // label only: under the write-through policy of the code the key would be cached now
}

// inserted: the key may have been put into the cache by an operation that found
// it uncached, which in an LRU may have evicted any other key.
func (m *seqModel) inserted(key int) {
	m.st[key] = sMaybe
	m.deleted[key] = false
	if !m.cfg.LRU {
		return
	}
	n := 0
	for _, s := range m.st {
		if s != sNo {
			n++
		}
	}
	if int64(n) > m.cfg.Cap {
		for i := range m.st {
			if i != key && m.st[i] == sYes {
				m.st[i] = sMaybe
			}
		}
	}
}

func (m *seqModel) set(key, st int) {
	m.st[key] = st
	if st != sNo {
		m.deleted[key] = false
	}
}

func anyOK(L []cbEnt) bool {
	for i := range L {
		if L[i].ok {
			return true
		}
	}
	return false
}

// after updates the knowledge with a completed operation.
func (m *seqModel) after(r *opRec, obs int) {
	key := r.op.Key
	ok := r.err == nil
	switch {
	case r.op.K == opDelete && ok:
		m.set(key, sNo)
		m.deleted[key] = true
		m.wt[key] = false
	case r.op.K == opDelete:
		if m.st[key] == sYes {
			m.set(key, sMaybe) // an implementation may drop the entry when the delete fails
		}
	case obs == obsCached && (r.op.K == opGet || r.op.K == opAdd):
		m.set(key, sYes) // found in the cache by an operation that writes nothing
		m.wt[key] = true
	case obs == obsCached:
		m.set(key, sMaybe) // renewed, kept or dropped: all coherent
		m.wt[key] = true
	case obs == obsUncached && (ok || anyOK(r.log)):
		// the operation obtained a current value of the key: it may have cached it
		m.inserted(key)
		m.wt[key] = ok && r.op.K != opUpsertRenew
	case obs == obsUncached:
		m.set(key, sNo)
		m.wt[key] = false
	}
}

func labelConfig(res *vkit.Result, c Config, h *harness) {
	if c.LRU {
		res.Class(fmt.Sprintf("facade-lru-%d", c.Cap))
	} else {
		res.Class("facade-map")
	}
	res.Class(fmt.Sprintf("workers-%d", c.Workers))
	seen := map[int]bool{}
	for _, hv := range h.hashes {
		if seen[hv] {
			res.Class("keys-with-equal-hash")
		}
		seen[hv] = true
	}
}

func labelKey(res *vkit.Result, h *harness, key int) {
	switch hv := h.hashes[key]; {
	case hv == math.MinInt:
		res.Class("minint-hash-key-used")
		res.Class("negative-hash-key-used")
	case hv < 0:
		res.Class("negative-hash-key-used")
	}
}

func labelOp(res *vkit.Result, r *opRec, obs int) {
	switch r.op.K {
	case opUpdate, opUpdOrAdd:
		if obs == obsCached {
			res.Class("update-on-cached-key")
		} else if obs == obsUncached {
			res.Class("update-on-uncached-key")
		}
		if len(r.log) == 2 && r.log[1].cb == cbAdd {
			res.Class("update-or-add-takes-add-path")
		}
	case opUpsertLoad:
		if len(r.log) == 2 && r.log[0].ok && !r.log[1].ok {
			res.Class("load-fails-after-successful-upsert")
		}
	case opAdd:
		if obs == obsCached {
			res.Class("add-on-cached-key")
		}
	case opDelete:
		if r.err == nil {
			res.Class("successful-delete")
		}
	}
	for i := range r.log {
		if r.log[i].err != nil && r.log[i].err.Injected {
			res.Class("fault-in-" + cbNames[r.log[i].cb])
		}
	}
}

// doSeq runs one operation of a sequential history: it is the only one in
// progress, and the store callbacks check that.
func (h *harness) doSeq(r *opRec) {
	e := h.env
	e.mu.Lock()
	e.cur = r.id
	e.mu.Unlock()
	h.do(r)
	e.mu.Lock()
	e.cur = -1
	e.mu.Unlock()
}

func ExecSeq(c Case) *vkit.Result {
	res := &vkit.Result{}
	if !validConfig(c.Config) || len(c.Ops) > 1000 {
		res.Skip("malformed-config")
		return res
	}
	h := newHarness(c.Config, c.Faults)
	defer h.stop()
	e := h.env
	e.seq = true
	labelConfig(res, c.Config, h)
	m := &seqModel{cfg: c.Config, st: make([]int, len(h.keys)), deleted: make([]bool, len(h.keys)), wt: make([]bool, len(h.keys))}
	touched := make([]int, len(h.keys))
	twice := false

	// judge applies every oracle to one completed operation
	judge := func(r *opRec) bool {
		e.mu.Lock()
		site, msg := e.site, e.msg
		cur, exists := e.vals[r.kid]
		e.mu.Unlock()
		if r.pan != "" {
			res.Failf("op-panic", "%s(key %s, hash %d) on a group of %d workers panicked: %s", opNames[r.op.K], r.kid, h.hashes[r.op.Key], c.Workers, r.pan)
			return false
		}
		if site != "" {
			res.Failf(site, "%s :: %s", msg, r)
			return false
		}
		obs, site, msg := checkShape(r)
		if site != "" {
			res.Failf(site, "%s", msg)
			return false
		}
		key := r.op.Key
		if r.op.K == opGet && obs == obsCached {
			if v := r.v.(Val); !exists || v != cur {
				held := "nothing"
				if exists {
					held = fmt.Sprintf("%+v", cur)
				}
				res.Failf("coherence", "DoGet answered from the cache with %+v but the store holds %s for the key :: %s", v, held, r)
				return false
			}
		}
		switch {
		case obs == obsCached && m.st[key] == sNo && m.deleted[key]:
			res.Failf("delete-leaves-cache-entry", "the key was deleted successfully and not written since, yet the next operation found it in the cache :: %s", r)
			return false
		case obs == obsCached && m.st[key] == sNo:
			res.Failf("phantom-cache-entry", "no completed operation can have put the key into the cache, yet the operation found it there :: %s", r)
			return false
		case obs == obsUncached && m.st[key] == sYes && r.op.K == opAdd:
			res.Failf("add-on-cached-key", "the previous operation on the key found it in the cache and nothing can have evicted it since, but DoAdd called the store instead of rejecting the duplicate :: %s", r)
			return false
		case obs == obsUncached && m.st[key] == sYes:
			res.Failf("cache-entry-lost", "the previous operation on the key found it in the cache and nothing can have evicted or deleted it since, but this operation treated it as uncached :: %s", r)
			return false
		}
		if !r.sweep {
			if c.LRU && obs == obsUncached && m.wt[key] {
				res.Class("lru-eviction-between-operations")
			}
			if r.op.K == opGet && m.deleted[key] {
				res.Class("get-after-successful-delete")
			}
			labelOp(res, r, obs)
			labelKey(res, h, key)
		}
		m.after(r, obs)
		return true
	}

	for i, op := range c.Ops {
		if op.K < 0 || op.K >= nOpKinds || op.Key < 0 || op.Key >= len(h.keys) {
			res.Skip("malformed-op")
			continue
		}
		r := h.newRec(i, 0, op)
		h.doSeq(r)
		touched[op.Key]++
		if touched[op.Key] >= 2 {
			twice = true
		}
		if !judge(r) {
			return res
		}
	}
	e.mu.Lock()
	hit, nf := e.faultsHit, e.nfHit
	e.noFaults = true
	e.mu.Unlock()
	for key := range h.keys {
		// the closing probe of every key, with the fault plan switched off
		r := h.newRec(100000+key, -1, Op{K: opGet, Key: key})
		r.sweep = true
		h.doSeq(r)
		if !judge(r) {
			return res
		}
	}
	if hit > 0 {
		res.Class("fault-hit")
	}
	if nf > 0 {
		res.Class("not-found-fault-hit")
	}
	if twice {
		res.Class("key-touched-by-two-operations")
	}
	res.NonTrivial = hit > 0 && twice
	return res
}

// ---- concurrent callers ----------------------------------------------------------------------

// valueInWindow: v was the store's value of the key at some instant of the
// operation's call..return window, or was replaced only by an operation that
// had not yet returned to its caller when this one was called ("after the last
// completed operation": until the replacing operation completes, the old value
// is the one the cache may hold).
func (e *env) valueInWindow(kid string, v *Val, t0, t1 int64) bool {
	for _, he := range e.hist[kid] {
		if v != nil && he.v != *v {
			continue
		}
		if he.inst > t1 {
			continue
		}
		if he.sup == 0 || he.sup >= t0 {
			return true
		}
		if he.supRec != nil && (he.supRec.t1 == 0 || he.supRec.t1 >= t0) {
			return true
		}
	}
	return false
}

func (e *env) history(kid string) string {
	var b strings.Builder
	for _, he := range e.hist[kid] {
		fmt.Fprintf(&b, " %+v@[%d,%d)", he.v, he.inst, he.sup)
	}
	return b.String()
}

func ExecConc(c CaseConc) *vkit.Result {
	res := &vkit.Result{}
	if !validConfig(c.Config) || len(c.Callers) < 1 || len(c.Callers) > 32 || c.Yields < 0 || c.Yields > 100 {
		res.Skip("malformed-config")
		return res
	}
	for _, ops := range c.Callers {
		if len(ops) > 1000 {
			res.Skip("malformed-config")
			return res
		}
	}
	if c.Procs >= 1 && c.Procs <= 64 {
		defer runtime.GOMAXPROCS(runtime.GOMAXPROCS(c.Procs))
	}
	sched := vkit.NewSched()
	h := newHarness(c.Config, c.Faults)
	defer h.stop()
	e := h.env
	e.yields = c.Yields
	labelConfig(res, c.Config, h)

	recs := make([][]*opRec, len(c.Callers))
	inFlight := make([]*opRec, len(c.Callers))
	var rmu sync.Mutex
	start := make(chan struct{})
	for ci, ops := range c.Callers {
		ci, ops := ci, ops
		sched.Go(fmt.Sprintf("caller-%d", ci), func() {
			<-start
			for j, op := range ops {
				if h.ctx.Err() != nil {
					return
				}
				if op.K < 0 || op.K >= nOpKinds || op.Key < 0 || op.Key >= len(h.keys) {
					continue
				}
				r := h.newRec(ci*1000+j, ci, op)
				rmu.Lock()
				inFlight[ci] = r
				rmu.Unlock()
				h.do(r)
				rmu.Lock()
				inFlight[ci] = nil
				recs[ci] = append(recs[ci], r)
				rmu.Unlock()
				if r.pan != "" {
					return
				}
			}
		})
	}
	close(start)
	sched.MustQuiesce()
	if parked := sched.ParkedOps(); len(parked) > 0 {
		// every goroutine of the case is parked, so no store callback is in progress and
		// no worker is handling anything: these callers wait for a reply that cannot come
		var b strings.Builder
		rmu.Lock()
		for ci, r := range inFlight {
			if r != nil {
				fmt.Fprintf(&b, " caller %d in %s;", ci, r)
			}
		}
		rmu.Unlock()
		h.cancel() // releases them (the result wait observes the context)
		sched.MustQuiesce()
		return res.Failf("lost-reply", "at quiescence %d caller(s) are still waiting for the result of an accepted operation although no worker is busy:%s", len(parked), b.String())
	}
	for _, op := range sched.Ops() {
		if p := op.Panic(); p != nil {
			return res.Failf("harness-panic", "%s panicked: %v", op.Name, p)
		}
	}
	rmu.Lock() // (with e.mu below: orders everything the callers wrote before this point)
	rmu.Unlock()
	e.mu.Lock()
	site, msg := e.site, e.msg
	e.mu.Unlock()
	if site != "" {
		return res.Failf(site, "%s", msg)
	}

	touched := make([]int, len(h.keys))
	touchedBy := make([]map[int]bool, len(h.keys))
	nops := 0
	for ci := range c.Callers {
		want := 0
		for _, op := range c.Callers[ci] {
			if op.K < 0 || op.K >= nOpKinds || op.Key < 0 || op.Key >= len(h.keys) {
				res.Skip("malformed-op")
				continue
			}
			want++
		}
		for _, r := range recs[ci] {
			nops++
			key := r.op.Key
			if r.pan != "" {
				return res.Failf("op-panic", "%s(key %s, hash %d) on a group of %d workers panicked: %s", opNames[r.op.K], r.kid, h.hashes[key], c.Workers, r.pan)
			}
			obs, site, msg := checkShape(r)
			if site != "" {
				return res.Failf(site, "%s", msg)
			}
			if r.op.K == opGet && obs == obsCached {
				v := r.v.(Val)
				if v.K != r.kid || !e.valueInWindow(r.kid, &v, r.t0, r.t1) {
					return res.Failf("coherence", "DoGet answered from the cache with %+v, which the store did not hold for the key at any instant between the call (t=%d) and the return (t=%d), nor was it replaced by an operation still in progress at the call; store history of the key:%s :: %s", v, r.t0, r.t1, e.history(r.kid), r)
				}
			}
			if r.op.K == opAdd && obs == obsCached && !e.valueInWindow(r.kid, nil, r.t0, r.t1) {
				return res.Failf("phantom-cache-entry", "DoAdd rejected the key as cached, but the store held nothing for it between the call (t=%d) and the return (t=%d); store history of the key:%s :: %s", r.t0, r.t1, e.history(r.kid), r)
			}
			touched[key]++
			if touchedBy[key] == nil {
				touchedBy[key] = map[int]bool{}
			}
			touchedBy[key][ci] = true
			labelOp(res, r, obs)
			labelKey(res, h, key)
		}
		if len(recs[ci]) != want {
			return res.Failf("harness-panic", "caller %d completed %d of %d operations", ci, len(recs[ci]), want)
		}
	}

	// end-state sweep, on its own goroutine so that a lost reply is a verdict, not a hang
	e.mu.Lock()
	hit, nf := e.faultsHit, e.nfHit
	e.noFaults = true
	e.yields = 0
	e.mu.Unlock()
	var sweep []*opRec
	var cur *opRec
	sop := sched.Go("sweep", func() {
		for key := range h.keys {
			r := h.newRec(900000+key, -1, Op{K: opGet, Key: key})
			r.sweep = true
			rmu.Lock()
			cur = r
			rmu.Unlock()
			h.do(r)
			rmu.Lock()
			sweep = append(sweep, r)
			rmu.Unlock()
		}
	})
	sched.MustQuiesce()
	if !sop.Done() {
		rmu.Lock()
		r := cur
		rmu.Unlock()
		h.cancel()
		sched.MustQuiesce()
		return res.Failf("lost-reply", "the closing %s never returned although no worker is busy", r)
	}
	for _, r := range sweep {
		if r.pan != "" {
			return res.Failf("op-panic", "%s(key %s, hash %d) on a group of %d workers panicked: %s", opNames[r.op.K], r.kid, h.hashes[r.op.Key], c.Workers, r.pan)
		}
		obs, site, msg := checkShape(r)
		if site != "" {
			return res.Failf(site, "%s", msg)
		}
		if obs == obsCached {
			e.mu.Lock()
			cv, exists := e.vals[r.kid]
			e.mu.Unlock()
			if v := r.v.(Val); !exists || v != cv {
				held := "nothing"
				if exists {
					held = fmt.Sprintf("%+v", cv)
				}
				return res.Failf("coherence", "after all callers finished, DoGet answered from the cache with %+v but the store holds %s for the key; store history:%s :: %s", v, held, e.history(r.kid), r)
			}
		}
	}
	e.mu.Lock()
	site, msg = e.site, e.msg
	e.mu.Unlock()
	if site != "" {
		return res.Failf(site, "%s", msg)
	}

	twice, shared := false, false
	for key := range touched {
		if touched[key] >= 2 {
			twice = true
		}
		if len(touchedBy[key]) >= 2 {
			shared = true
		}
	}
	if hit > 0 {
		res.Class("fault-hit")
	}
	if nf > 0 {
		res.Class("not-found-fault-hit")
	}
	if twice {
		res.Class("key-touched-by-two-operations")
	}
	if shared {
		res.Class("key-touched-by-two-callers")
	}
	res.Class(fmt.Sprintf("callers-%d", len(c.Callers)))
	res.NonTrivial = hit > 0 && twice
	return res
}

// ---- parts ---------------------------------------------------------------------------------------

var PartSeq = &vkit.Part[Case]{
	Property: Property, Name: "sequential",
	Rule:  "rapid: {map | LRU cap 1,2,100} x workers {1,2,3,7} x 1-6 keys of 17 Hashed2Int types (pool with MinInt64-, negative-, zero-, equal-hashed keys + random values), each key initially in the store or not; 1-30 operations of the 7 kinds (DoGet is the coherence probe: it is a generated operation, not run after every step) + one closing DoGet per key; fault plan: 0-8 of 'the n-th invocation of load/add/update/upsert/delete fails without effect, as plain error or as not-found'. Oracle per operation: callbacks follow the documented order, only inside the operation, never overlapping per key; every existing item handed to update/upsert and every value DoGet serves without load equals the store's current value; result = the operation's own last callback result; three-valued cache knowledge (certainly / maybe / certainly not cached, no assumption on which keys share a worker): certainly-uncached key served from cache (incl. after a successful delete) or certainly-cached key bypassed (incl. DoAdd reaching the store) is a violation. Non-trivial: >= 1 injected failure was hit and >= 1 key was touched by two operations; distinct = distinct case JSON",
	Quick: 20000, Thorough: 100000,
	Gen: GenSeq, Exec: ExecSeq,
}

var concRule = "rapid: same configurations; 1-6 free-running callers x 3-10 operations, fault plan counted over the interleaved invocations, 0-3 Gosched inside each store callback, GOMAXPROCS 1/2/4/8. Completion is decided by vkit.Sched quiescence (a caller parked while every worker is idle is a lost reply). Oracle: per-key store callbacks never overlap and run inside their own operation; documented callback order and own result per operation; every existing item handed to update/upsert equals the store's value at that moment (exact: per-key callbacks are serial); a value served from the cache was the store's value at some instant of the DoGet or was replaced only by an operation not yet returned; closing DoGet sweep of all keys with exact coherence. Non-trivial: >= 1 injected failure hit and >= 1 key touched by two operations; distinct = distinct case JSON"

var PartConc = &vkit.Part[CaseConc]{
	Property: Property, Name: "concurrent",
	Rule:  concRule,
	Quick: 3000, Thorough: 6000,
	Gen: GenConc, Exec: ExecConc,
}

var PartConcRace = &vkit.Part[CaseConc]{
	Property: Property, Name: "race-concurrent",
	Rule:  concRule + " (binary built with -race)",
	Quick: 800, Thorough: 3000,
	Gen: GenConc, Exec: ExecConc,
}
