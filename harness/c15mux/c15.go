// Package c15mux checks property C15: the write-through cache of a mux worker
// group stays coherent with the backing store - for every history of get / add /
// update / delete / update-or-add / upsert-then-load / upsert-then-renew, every
// pattern of failing store callbacks, map and LRU facades, any worker count and
// any key hash (negative and minimum-integer hashes included).
//
// The store is the harness's: an in-memory map whose five callbacks (load, add,
// update, upsert, delete) follow a generated fault plan, log every invocation
// and compare every "existing item" the group hands them with what the store
// really holds. The oracle is written from the property statement and the
// documentation of the seven operations, not from the handlers.
package c15mux

import (
	"context"
	"encoding/binary"
	"errors"
	"fmt"
	"hash/crc32"
	"math"
	"os"
	"runtime"
	"strings"
	"sync"
	"sync/atomic"
	"time"

	"github.com/pinealctx/neptune/syncx/pipe/mux"
	"github.com/pinealctx/neptune/ulog"
	"go.uber.org/zap/zapcore"
	"pgregory.net/rapid"

	"verifharness/vkit"
)

const Property = "C15"

func init() { ulog.SetLogLevel(zapcore.FatalLevel + 1) }

// ---- case data ---------------------------------------------------------------

// KeySpec names one key: a Hashed2Int type of the mux package and its value (N is
// the bit pattern for the integer types, truncated to the type's width; S for
// String).
type KeySpec struct {
	T string `json:"t"`
	N int64  `json:"n"`
	S string `json:"s,omitempty"`
}

// Config is the group under test.
type Config struct {
	LRU     bool      `json:"lru"`     // false: map facade
	Cap     int64     `json:"cap"`     // LRU capacity (1, 2, 4, 100)
	Workers int       `json:"workers"` // 1, 2, 3, 7, powers of two 4, 8, 16, even composites 6, 12; 0: the default
	Keys    []KeySpec `json:"keys"`
	Init    []bool    `json:"init"` // key i is in the store (not in the cache) when the case starts
	// Sized: the values the store hands out implement cache.Value with a real Size()
	// (an LRU then accounts for it); otherwise they are plain values that count 1.
	Sized bool `json:"sized,omitempty"`
	// Deep: request queue depth of every worker (mux.WithDeep); 0 = the default (8192).
	Deep int `json:"deep,omitempty"`
	// Custom: the group is built with mux.NewWorkGrp and a caller-supplied CacheFacade (a
	// pass-through wrapper around the stock facade) instead of the stock constructors.
	Custom bool `json:"custom,omitempty"`
	// FacadeYields (Custom only): the pass-through facade calls runtime.Gosched this many times
	// before it hands a Set or Delete to the real facade (widens the windows inside the library
	// that contain no store callback; used by the free-running parts).
	FacadeYields int     `json:"facade_yields,omitempty"`
	InitSz       []int64 `json:"init_sz,omitempty"` // Sized: Size() of the initial value of key i (default 1)
}

// operation kinds
const (
	opGet = iota
	opAdd
	opUpdate
	opDelete
	opUpdOrAdd
	opUpsertLoad
	opUpsertRenew
	nOpKinds
)

var opNames = [...]string{"DoGet", "DoAdd", "DoUpdate", "DoDelete", "DoUpdOrAddIfNull", "DoUpsertThenLoad", "DoUpsertThenRenewInCache"}

// Op is one call on the group. Every call has its own cancellable context.
type Op struct {
	K   int   `json:"k"`            // operation kind
	Key int   `json:"key"`          // index into Config.Keys
	D   int64 `json:"d"`            // payload
	Sz  int64 `json:"sz,omitempty"` // Sized configurations: Size() of the value a successful write of this operation stores
	// Cancel: when the caller's context ends. 0 never; 1 before the call is made; 2 while
	// the request is queued behind a gated operation (gated part only; elsewhere like 0);
	// 3 inside the CancelAt-th (1-based) store callback of this operation: the callback
	// takes effect (or fails, by the fault plan) and then cancels the context itself.
	Cancel   int `json:"cancel,omitempty"`
	CancelAt int `json:"cancel_at,omitempty"`
	// Deadline (with Cancel 1): the context is not cancelled but carries a deadline that has
	// already passed when the call is made (context.WithDeadline in the past: no timer).
	Deadline bool `json:"deadline,omitempty"`
}

// cancel modes
const (
	cNever = iota
	cBefore
	cQueued
	cInside
)

// store callbacks
const (
	cbLoad = iota
	cbAdd
	cbUpd
	cbUpsert
	cbDel
	nCallbacks
)

var cbNames = [...]string{"load", "add", "update", "upsert", "delete"}

// Fault makes the Nth invocation (0-based, counted per callback over the whole
// case) of callback Cb fail without effect. Kind 0: a plain error; 1: the
// not-found error (the one the IsNotFoundFn given to DoUpdOrAddIfNull accepts);
// 2: a plain error, and the callback hands back a non-nil value beside it (a
// value with a fresh version that the store never took - a caller must not use
// it; delete returns no value, there kind 2 is kind 0).
type Fault struct {
	Cb   int `json:"cb"`
	Nth  int `json:"nth"`
	Kind int `json:"kind"`
}

// Case is a sequential history.
type Case struct {
	Config
	Ops    []Op    `json:"ops"`
	Faults []Fault `json:"faults"`
}

// CaseGate is a controller-owned schedule: Pre runs one call after the other;
// then Gate is called and its GateAt-th store callback blocks on a harness gate,
// which occupies that key's worker; the Queued calls are made one at a time, each
// on its own goroutine and only after the previous one is parked or has
// returned, so the order in which the group accepted them is known; then the
// gate is opened.
type CaseGate struct {
	Config
	Pre    []Op    `json:"pre"`
	Gate   Op      `json:"gate"`
	GateAt int     `json:"gate_at"`
	Queued []Op    `json:"queued"`
	Faults []Fault `json:"faults"`
	// FacadeGate (Custom configurations): the gate is not in a store callback of Gate but in
	// the caller-supplied cache facade: the first Set or Delete the group makes after Gate was
	// called waits there, i.e. in a window of the library that contains no store callback.
	FacadeGate bool `json:"facade_gate,omitempty"`
	// Stop: once the followers are accepted (gate still closed) the group is stopped; After
	// are calls made after Stop returned and before the gate opens.
	Stop  bool `json:"stop,omitempty"`
	After []Op `json:"after,omitempty"`
}

// CaseConc is a concurrent program: caller i issues Callers[i] one after the
// other; the callers run freely.
type CaseConc struct {
	Config
	Callers [][]Op  `json:"callers"`
	Faults  []Fault `json:"faults"`
	Procs   int     `json:"procs"`  // GOMAXPROCS while the case runs
	Yields  int     `json:"yields"` // Gosched calls inside every store callback (widens the windows)
}

func (k KeySpec) build() (mux.Hashed2Int, bool) {
	switch k.T {
	case "Byte":
		return mux.Byte(byte(k.N)), true
	case "Int8":
		return mux.Int8(int8(k.N)), true
	case "Int16":
		return mux.Int16(int16(k.N)), true
	case "UInt16":
		return mux.UInt16(uint16(k.N)), true
	case "Int32":
		return mux.Int32(int32(k.N)), true
	case "UInt32":
		return mux.UInt32(uint32(k.N)), true
	case "Int64":
		return mux.Int64(k.N), true
	case "UInt64":
		return mux.UInt64(uint64(k.N)), true
	case "Int":
		return mux.Int(int(k.N)), true
	case "UInt":
		return mux.UInt(uint(k.N)), true
	case "Int32CRC":
		return mux.Int32CRC(int32(k.N)), true
	case "UInt32CRC":
		return mux.UInt32CRC(uint32(k.N)), true
	case "Int64CRC":
		return mux.Int64CRC(k.N), true
	case "UInt64CRC":
		return mux.UInt64CRC(uint64(k.N)), true
	case "IntCRC":
		return mux.IntCRC(int(k.N)), true
	case "UIntCRC":
		return mux.UIntCRC(uint(k.N)), true
	case "String":
		return mux.String(k.S), true
	}
	return nil, false
}

var keyTypes = []string{"Byte", "Int8", "Int16", "UInt16", "Int32", "UInt32", "Int64", "UInt64", "Int", "UInt",
	"Int32CRC", "UInt32CRC", "Int64CRC", "UInt64CRC", "IntCRC", "UIntCRC", "String"}

// keyPool: the shapes the property names - hashes equal to the minimum integer
// (four different types), other negative hashes, zero, the maximum, keys of
// different types with equal hashes, CRC-hashed and string keys.
var keyPool = []KeySpec{
	{T: "Int64", N: math.MinInt64}, {T: "Int", N: math.MinInt64}, {T: "UInt64", N: math.MinInt64}, {T: "UInt", N: math.MinInt64},
	{T: "Int64", N: -1}, {T: "Int64", N: -7}, {T: "Int64", N: -6}, {T: "Int64", N: 0}, {T: "Int64", N: 5}, {T: "Int64", N: math.MaxInt64},
	{T: "Int64", N: math.MinInt64 + 1},
	{T: "Int", N: 5}, {T: "Int", N: -3}, {T: "UInt64", N: -2}, {T: "UInt64", N: 5},
	{T: "Int32", N: math.MinInt32}, {T: "Int32", N: 5}, {T: "Int8", N: -128}, {T: "Int16", N: -5}, {T: "Byte", N: 5},
	{T: "UInt16", N: 5}, {T: "UInt32", N: 5},
	{T: "String", S: "a"}, {T: "String", S: "b"}, {T: "String", S: ""},
	{T: "Int64CRC", N: 5}, {T: "Int32CRC", N: -1}, {T: "UInt64CRC", N: 7}, {T: "IntCRC", N: -1}, {T: "UIntCRC", N: 5}, {T: "UInt32CRC", N: 5},
	// members of the colliding pairs below (drawn alone here, together by genConfig's "collide")
	{T: "String", S: "plumless"}, {T: "String", S: "buckeroo"},
	{T: "Int64CRC", N: 8707220088508893435}, {T: "Int64CRC", N: 6952224888926477812},
}

// collidePairs: two DISTINCT keys of ONE type with one hash (CRC32 collisions; the 4-byte CRC
// types have none, CRC32 is a bijection on 4-byte messages). Such keys share a worker and
// its cache for every group size, and they are equal for anything that tells keys apart by
// their hash. init checks the constants against hash/crc32, independently of the library.
var collidePairs = [][2]KeySpec{
	{{T: "String", S: "plumless"}, {T: "String", S: "buckeroo"}},
	{{T: "Int64CRC", N: 8707220088508893435}, {T: "Int64CRC", N: 6952224888926477812}},
	{{T: "UInt64CRC", N: 3178207640853706025}, {T: "UInt64CRC", N: -4503805383194742616}},
	{{T: "IntCRC", N: 2526260956146382955}, {T: "IntCRC", N: 8693052381721848684}},
	{{T: "UIntCRC", N: 2239242318038195697}, {T: "UIntCRC", N: -4184860914996100238}},
}

// which pair a case gets: the string pair most often
var collideGen = rapid.SampledFrom([]int{0, 0, 0, 0, 1, 2, 3, 4})

func init() {
	for _, p := range collidePairs {
		var sum [2]uint32
		for i, k := range p {
			if k.T == "String" {
				sum[i] = crc32.ChecksumIEEE([]byte(k.S))
			} else {
				var b [8]byte
				binary.LittleEndian.PutUint64(b[:], uint64(k.N))
				sum[i] = crc32.ChecksumIEEE(b[:])
			}
		}
		if sum[0] != sum[1] || p[0] == p[1] {
			panic(fmt.Sprintf("c15mux: %+v and %+v are not a CRC32 collision (%#x, %#x)", p[0], p[1], sum[0], sum[1]))
		}
	}
}

func keyID(h mux.Hashed2Int) string { return fmt.Sprintf("%T(%#v)", h, h) }

// ---- generators --------------------------------------------------------------

func genKey(t *rapid.T) KeySpec {
	if rapid.IntRange(0, 9).Draw(t, "keysrc") < 7 {
		return rapid.SampledFrom(keyPool).Draw(t, "poolkey")
	}
	k := KeySpec{T: rapid.SampledFrom(keyTypes).Draw(t, "keytype")}
	if k.T == "String" {
		k.S = rapid.StringOfN(rapid.RuneFrom([]rune("abz0")), 0, 3, -1).Draw(t, "keystr")
	} else {
		k.N = rapid.Int64().Draw(t, "keyval")
	}
	return k
}

func genConfig(t *rapid.T) Config {
	c := Config{}
	c.LRU = rapid.Bool().Draw(t, "lru")
	if c.LRU {
		c.Cap = rapid.SampledFrom([]int64{1, 2, 4, 100}).Draw(t, "cap")
		c.Sized = rapid.Bool().Draw(t, "sized")
	} else {
		c.Sized = rapid.IntRange(0, 3).Draw(t, "sized") == 0
	}
	// (0: no WithSize option, the group takes its default number of workers)
	// - rarely, it costs 127 goroutines per case: about 1 case in 250 in the quick tier, 1 in 60 in the thorough one
	// (4, 8, 16: group sizes for which "hash mod size" and "hash and (size-1)" differ on negative hashes;
	// 6, 12: even composites)
	c.Workers = rapid.SampledFrom([]int{1, 2, 3, 7, 1, 2, 3, 7, 4, 8, 16, 6, 12}).Draw(t, "workers")
	if x := rapid.IntRange(0, 255).Draw(t, "defaultworkers"); x == 137 || (vkit.Tier() == "thorough" && x%64 == 9) {
		c.Workers = 0
	}
	c.Deep = rapid.SampledFrom([]int{0, 0, 0, 1, 2, 3}).Draw(t, "deep")
	c.Custom = rapid.IntRange(0, 3).Draw(t, "custom") == 0
	n := rapid.IntRange(1, 6).Draw(t, "nkeys")
	if rapid.IntRange(0, 11).Draw(t, "manykeys") == 0 {
		n = rapid.IntRange(7, 12).Draw(t, "nkeys2")
	}
	if c.Custom {
		c.FacadeYields = rapid.IntRange(0, 3).Draw(t, "facadeyields")
	}
	seen := map[string]bool{}
	if rapid.IntRange(0, 7).Draw(t, "collide") == 0 {
		// two distinct keys of one type with one hash, both in the case
		p := collidePairs[collideGen.Draw(t, "collidepair")]
		for _, k := range p {
			h, _ := k.build()
			seen[keyID(h)] = true
			c.Keys = append(c.Keys, k)
		}
		n = max(n, 2)
	}
	for len(c.Keys) < n {
		k := genKey(t)
		h, _ := k.build()
		id := keyID(h)
		if seen[id] {
			// a duplicate: take the next free small Int64 instead of retrying without bound
			k = KeySpec{T: "Int64", N: int64(100 + len(c.Keys))}
			h, _ = k.build()
			id = keyID(h)
			if seen[id] {
				continue
			}
		}
		seen[id] = true
		c.Keys = append(c.Keys, k)
	}
	c.Init = make([]bool, n)
	for i := range c.Init {
		c.Init[i] = rapid.Bool().Draw(t, "init")
	}
	if c.Sized {
		c.InitSz = make([]int64, n)
		for i := range c.InitSz {
			c.InitSz[i] = genSize(t, c)
		}
	}
	return c
}

// genSize draws the Size() of a value: around 1 and around the capacity, so that
// values grow and shrink across it.
func genSize(t *rapid.T, c Config) int64 {
	cp := c.Cap
	if !c.LRU {
		cp = 2
	}
	sz := rapid.SampledFrom([]int64{1, 1, 1, 2, cp - 1, cp, cp + 1, 3 * cp}).Draw(t, "sz")
	if sz < 0 {
		sz = 0
	}
	return sz
}

// opWeights: the operation mix (index = operation kind)
var opKindGen = rapid.SampledFrom([]int{opGet, opGet, opGet, opAdd, opAdd, opUpdate, opUpdate, opDelete, opDelete,
	opUpdOrAdd, opUpdOrAdd, opUpsertLoad, opUpsertLoad, opUpsertRenew, opUpsertRenew})

func genOp(t *rapid.T, c Config) Op {
	op := Op{K: opKindGen.Draw(t, "op"), Key: rapid.IntRange(0, len(c.Keys)-1).Draw(t, "key"), D: int64(rapid.IntRange(0, 99).Draw(t, "d"))}
	if c.Sized && op.K != opGet && op.K != opDelete {
		op.Sz = genSize(t, c)
	}
	return op
}

// genCancel draws when the operation's context ends: mostly never.
func genCancel(t *rapid.T, op *Op, queuedMode bool) {
	switch rapid.IntRange(0, 19).Draw(t, "cancel") {
	case 0:
		op.Cancel = cBefore
		op.Deadline = rapid.Bool().Draw(t, "deadline")
	case 1, 2:
		op.Cancel, op.CancelAt = cInside, rapid.IntRange(1, 2).Draw(t, "cancelat")
	case 3:
		if queuedMode {
			op.Cancel = cQueued
		} else {
			op.Cancel, op.CancelAt = cInside, 1
		}
	}
}

// nthGen: which invocation fails - mostly early ones, so that short histories are hit too
var nthGen = rapid.SampledFrom([]int{0, 0, 0, 1, 1, 1, 2, 2, 3, 3, 4, 5, 6, 8, 11})

func genFaults(t *rapid.T) []Fault {
	n := rapid.SampledFrom([]int{0, 1, 2, 2, 3, 3, 4, 4, 5, 6, 7, 8}).Draw(t, "nfaults")
	var fs []Fault
	for i := 0; i < n; i++ {
		fs = append(fs, Fault{
			Cb:   rapid.IntRange(0, nCallbacks-1).Draw(t, "fcb"),
			Nth:  nthGen.Draw(t, "fnth"),
			Kind: rapid.IntRange(0, 2).Draw(t, "fkind"),
		})
	}
	return fs
}

func GenSeq(t *rapid.T) Case {
	c := Case{Config: genConfig(t)}
	n := rapid.IntRange(1, 30).Draw(t, "nops")
	// half of the histories have callers whose context ends
	cancels := rapid.Bool().Draw(t, "cancels")
	for i := 0; i < n; i++ {
		op := genOp(t, c.Config)
		if cancels {
			genCancel(t, &op, false)
		}
		c.Ops = append(c.Ops, op)
	}
	c.Faults = genFaults(t)
	return c
}

func GenGate(t *rapid.T) CaseGate {
	c := CaseGate{Config: genConfig(t)}
	// a full queue needs a small depth; with one worker the refusal rule is exact
	if rapid.IntRange(0, 9).Draw(t, "smalldeep") < 6 {
		c.Deep = rapid.SampledFrom([]int{1, 1, 2, 3}).Draw(t, "gdeep")
	}
	if rapid.IntRange(0, 9).Draw(t, "oneworker") < 4 {
		c.Workers = 1
	}
	if rapid.IntRange(0, 9).Draw(t, "owncache") < 3 {
		c.Custom = true
	}
	c.Gate = genOp(t, c.Config)
	gk := c.Gate.Key
	// most operations go to the gated key: that is where acceptance order matters
	nearKey := func(op *Op) {
		if rapid.IntRange(0, 9).Draw(t, "samekey") < 6 {
			op.Key = gk
		}
	}
	for i, n := 0, rapid.IntRange(0, 3).Draw(t, "npre"); i < n; i++ {
		op := genOp(t, c.Config)
		nearKey(&op)
		c.Pre = append(c.Pre, op)
	}
	c.GateAt = rapid.SampledFrom([]int{1, 1, 1, 1, 2}).Draw(t, "gateat")
	if rapid.IntRange(0, 7).Draw(t, "gatecancel") == 0 {
		c.Gate.Cancel, c.Gate.CancelAt = cInside, c.GateAt
	}
	nq := rapid.IntRange(1, 6).Draw(t, "nqueued")
	if rapid.IntRange(0, 15).Draw(t, "burst") == 0 {
		// a long burst: 10-20 followers accepted one after the other, in a queue that takes them all
		// (or, rarely, refuses the tail)
		nq = rapid.IntRange(10, 20).Draw(t, "nburst")
		c.Deep = rapid.SampledFrom([]int{0, 0, 0, 32, 12}).Draw(t, "burstdeep")
	}
	for i := 0; i < nq; i++ {
		op := genOp(t, c.Config)
		nearKey(&op)
		genCancel(t, &op, true)
		c.Queued = append(c.Queued, op)
	}
	c.Faults = genFaults(t)
	if c.Custom {
		c.FacadeGate = rapid.Bool().Draw(t, "facadegate")
	}
	if rapid.IntRange(0, 3).Draw(t, "stop") == 0 {
		c.Stop = true
		for i, n := 0, rapid.IntRange(0, 2).Draw(t, "nafter"); i < n; i++ {
			op := genOp(t, c.Config)
			nearKey(&op)
			c.After = append(c.After, op)
		}
	}
	return c
}

func GenConc(t *rapid.T) CaseConc {
	c := CaseConc{Config: genConfig(t)}
	nc := rapid.IntRange(1, 6).Draw(t, "ncallers")
	for i := 0; i < nc; i++ {
		n := rapid.IntRange(3, 10).Draw(t, "nops")
		var ops []Op
		for j := 0; j < n; j++ {
			op := genOp(t, c.Config)
			genCancel(t, &op, false)
			ops = append(ops, op)
		}
		c.Callers = append(c.Callers, ops)
	}
	c.Faults = genFaults(t)
	c.Procs = rapid.SampledFrom([]int{1, 2, 4, 8}).Draw(t, "procs")
	c.Yields = rapid.IntRange(0, 3).Draw(t, "yields")
	return c
}

// ---- the instrumented store ----------------------------------------------------

// Val is what the store holds for a key. Every successful write makes a new
// version, so two values of one key are never equal and a stale one is always
// recognisable.
type Val struct {
	K   string
	Ver int64
	D   int64
	Sz  int64 // Sized configurations: what Size() reports
}

// SVal is a Val that implements cache.Value: what the store hands to the group
// in Sized configurations.
type SVal struct{ Val }

func (s SVal) Size() int { return int(s.Sz) }

// asVal unwraps what the group returned or handed to a callback.
func asVal(x interface{}) (Val, bool) {
	switch v := x.(type) {
	case Val:
		return v, true
	case SVal:
		return v.Val, true
	}
	return Val{}, false
}

// opData is the `data` argument handed to add / update / upsert operations.
type opData struct {
	Kid string
	D   int64
	Op  int
}

// cbErr is the error of one failed callback invocation (unique, so that a caller
// can be checked to have received its own error).
type cbErr struct {
	Op       int
	Cb       int
	NotFound bool
	Injected bool
	What     string
}

func (e *cbErr) Error() string {
	return fmt.Sprintf("c15 store: %s of op %d failed: %s", cbNames[e.Cb], e.Op, e.What)
}

func isNotFound(err error) bool {
	e, ok := err.(*cbErr)
	return ok && e.NotFound
}

// cbEnt is one logged callback invocation.
type cbEnt struct {
	cb     int
	tb, te int64 // logical time of begin / end
	argOK  bool  // the key / data argument is the one the caller passed
	hasPre bool  // the callback receives an "existing item" (update, upsert)
	preNil bool
	pre    interface{}
	preOK  bool // pre is exactly what the store held for the key when the callback began
	cur    string
	ok     bool
	out    Val
	err    *cbErr
	ghost  *Val // the value a failing callback handed back beside its error (never in the store)
}

// opRec is one operation as executed.
type opRec struct {
	id     int
	caller int
	op     Op
	kid    string
	ctx    context.Context
	cancel context.CancelFunc
	t0, t1 int64 // logical time of call and return (t1 == 0: has not returned)
	log    []cbEnt
	v      interface{}
	err    error
	pan    string
	sweep  bool
	gateAt int  // > 0: the gateAt-th callback of this operation waits for the harness gate
	early  bool // gated part: it had returned while the gate was still closed
	// the call was made after Stop had returned: it must not reach the store
	afterStop bool
	// how many operations accepted before this call may still have been unfinished (queued
	// or running) anywhere in the group when it was made
	unfinishedBefore int

	// the caller's context ended (by the case's plan) when cbAtCancel callbacks of the
	// operation had completed; written under env.mu
	cancelled  bool
	cbAtCancel int

	// set by checkShape
	complete bool // the documented callback sequence ran to its end
	effOK    bool // ... and its last callback succeeded (or none was needed)
}

type histEnt struct {
	v      Val
	inst   int64  // logical time the store took this value
	sup    int64  // logical time it was replaced or deleted (0: still current)
	supRec *opRec // the operation whose callback replaced it
}

type env struct {
	mu          sync.Mutex
	vals        map[string]Val
	hist        map[string][]*histEnt
	ver         int64
	tick        int64
	calls       [nCallbacks]int
	faults      [nCallbacks]map[int]int
	inflight    map[string]int
	yields      int
	sized       bool // values implement cache.Value
	seq         bool // sequential mode: exactly one operation is in progress at any time
	cur         int  // sequential mode: id of the operation in progress (-1: none)
	noFaults    bool // final sweep: the fault plan is switched off
	faultsHit   int
	nfHit       int
	ghosts      int
	gate        chan struct{}
	gateReached bool
	gateCb      int
	site, msg   string // first violation seen from inside a callback
}

func newEnv(faults []Fault) *env {
	e := &env{vals: map[string]Val{}, hist: map[string][]*histEnt{}, inflight: map[string]int{}, cur: -1, gate: make(chan struct{})}
	for i := range e.faults {
		e.faults[i] = map[int]int{}
	}
	for _, f := range faults {
		if f.Cb < 0 || f.Cb >= nCallbacks || f.Nth < 0 {
			continue
		}
		if _, dup := e.faults[f.Cb][f.Nth]; !dup {
			e.faults[f.Cb][f.Nth] = f.Kind
		}
	}
	return e
}

func (e *env) note(site, format string, a ...any) {
	if e.site == "" {
		e.site, e.msg = site, fmt.Sprintf(format, a...)
	}
}

func (e *env) now() int64 {
	e.mu.Lock()
	e.tick++
	t := e.tick
	e.mu.Unlock()
	return t
}

// cancelRec ends the context of rec's caller (the case's plan says so).
func (e *env) cancelRec(rec *opRec) {
	e.mu.Lock()
	if !rec.cancelled {
		e.tick++
		rec.cancelled = true
		rec.cbAtCancel = len(rec.log)
	}
	e.mu.Unlock()
	rec.cancel()
}

// install makes v the store's value of kid (mu held).
func (e *env) install(kid string, d, sz int64, by *opRec) Val {
	e.retire(kid, by)
	e.ver++
	v := Val{K: kid, Ver: e.ver, D: d}
	if e.sized {
		v.Sz = sz
		if v.Sz < 0 {
			v.Sz = 0
		}
	}
	e.vals[kid] = v
	e.hist[kid] = append(e.hist[kid], &histEnt{v: v, inst: e.tick})
	return v
}

// retire ends the life of the current value of kid (mu held).
func (e *env) retire(kid string, by *opRec) {
	if hs := e.hist[kid]; len(hs) > 0 && hs[len(hs)-1].sup == 0 {
		hs[len(hs)-1].sup = e.tick
		hs[len(hs)-1].supRec = by
	}
}

// invoke is the body of every store callback.
func (e *env) invoke(rec *opRec, cb int, argOK bool, hasPre bool, pre interface{}) (interface{}, error) {
	kid := rec.kid
	ent := cbEnt{cb: cb, argOK: argOK, hasPre: hasPre}
	e.mu.Lock()
	e.tick++
	ent.tb = e.tick
	nth := len(rec.log) + 1 // which callback of its operation this is
	if e.seq && e.cur != rec.id {
		e.note("callback-outside-op", "the %s callback of op %d (%s %s) ran while op %d was the one in progress", cbNames[cb], rec.id, opNames[rec.op.K], kid, e.cur)
	}
	if rec.t1 != 0 && !rec.cancelled {
		e.note("callback-outside-op", "the %s callback of op %d (%s %s) ran after the operation had returned to its caller, whose context had not ended", cbNames[cb], rec.id, opNames[rec.op.K], kid)
	}
	e.inflight[kid]++
	if e.inflight[kid] > 1 {
		e.note("callback-overlap", "two store callbacks for key %s are in progress at the same time (%s of op %d entered while another had not returned)", kid, cbNames[cb], rec.id)
	}
	n := e.calls[cb]
	e.calls[cb]++
	cur, exists := e.vals[kid]
	if exists {
		ent.cur = fmt.Sprintf("%+v", cur)
	} else {
		ent.cur = "<absent>"
	}
	if hasPre {
		ent.preNil = pre == nil
		ent.pre = pre
		if pv, ok := asVal(pre); ok && exists && pv == cur {
			ent.preOK = true
		}
	}
	gated := rec.gateAt > 0 && nth == rec.gateAt
	if gated {
		e.gateReached, e.gateCb = true, cb
	}
	e.mu.Unlock()

	if gated {
		<-e.gate // the controller owns the schedule: this worker is now occupied
	}
	for i := 0; i < e.yields; i++ {
		runtime.Gosched()
	}

	e.mu.Lock()
	e.tick++
	cur, exists = e.vals[kid]
	kind, faulted := e.faults[cb][n]
	if e.noFaults {
		faulted = false
	}
	switch {
	case faulted:
		ent.err = &cbErr{Op: rec.id, Cb: cb, NotFound: kind == 1, Injected: true, What: "injected fault"}
		if kind == 2 && cb != cbDel {
			// the failing callback hands a value back beside its error: one the store never took
			e.ver++
			ent.ghost = &Val{K: kid, Ver: e.ver, D: -7}
			if e.sized {
				ent.ghost.Sz = 1
			}
			ent.err.What = "injected fault, a value is returned beside the error"
			e.ghosts++
		}
		if kind == 1 {
			ent.err.What = "injected not-found"
			e.nfHit++
		}
		e.faultsHit++
	case cb == cbLoad:
		if exists {
			ent.ok, ent.out = true, cur
		} else {
			ent.err = &cbErr{Op: rec.id, Cb: cb, NotFound: true, What: "not found"}
		}
	case cb == cbAdd:
		if exists {
			ent.err = &cbErr{Op: rec.id, Cb: cb, What: "the store already has this key"}
		} else {
			ent.ok, ent.out = true, e.install(kid, rec.op.D, rec.op.Sz, rec)
		}
	case cb == cbUpd:
		if exists {
			ent.ok, ent.out = true, e.install(kid, rec.op.D, rec.op.Sz, rec)
		} else {
			ent.err = &cbErr{Op: rec.id, Cb: cb, NotFound: true, What: "not found"}
		}
	case cb == cbUpsert:
		ent.ok, ent.out = true, e.install(kid, rec.op.D, rec.op.Sz, rec)
	case cb == cbDel:
		if exists {
			e.retire(kid, rec)
			delete(e.vals, kid)
			ent.ok = true
		} else {
			ent.err = &cbErr{Op: rec.id, Cb: cb, NotFound: true, What: "not found"}
		}
	}
	e.inflight[kid]--
	ent.te = e.tick
	rec.log = append(rec.log, ent)
	// the caller's context ends inside this callback, after it took effect
	endCtx := rec.op.Cancel == cInside && rec.op.CancelAt == nth && !rec.cancelled && !rec.sweep
	if endCtx {
		e.tick++
		rec.cancelled = true
		rec.cbAtCancel = len(rec.log)
	}
	e.mu.Unlock()
	if endCtx {
		rec.cancel()
	}
	if ent.ok {
		if cb == cbDel {
			return nil, nil
		}
		if e.sized {
			return SVal{ent.out}, nil
		}
		return ent.out, nil
	}
	if ent.ghost != nil {
		if e.sized {
			return SVal{*ent.ghost}, ent.err
		}
		return *ent.ghost, ent.err
	}
	return nil, ent.err
}

// ---- running operations against the group ------------------------------------------

type harness struct {
	cfg    Config
	grp    *mux.WorkerGrp
	keys   []mux.Hashed2Int
	kids   []string
	hashes []int
	env    *env
	ctx    context.Context
	cancel context.CancelFunc
	opened bool
	fctl   *facadeCtl
}

func validConfig(c Config) bool {
	if c.Workers < 0 || c.Workers > 64 || len(c.Keys) < 1 || len(c.Keys) > 16 {
		return false
	}
	if c.LRU && (c.Cap < 1 || c.Cap > 1<<20) {
		return false
	}
	if c.Deep < 0 || c.Deep > 1<<20 {
		return false
	}
	seen := map[string]bool{}
	for _, k := range c.Keys {
		h, ok := k.build()
		if !ok {
			return false
		}
		id := keyID(h)
		if seen[id] {
			return false
		}
		seen[id] = true
	}
	return true
}

// passFacade is a caller-supplied CacheFacade: a pass-through to a stock facade.
type passFacade struct {
	in  mux.CacheFacade
	ctl *facadeCtl
}

// facadeCtl lets the harness widen (yields) or own (gate) the moment between the
// group's decision to change the cache and the change itself.
type facadeCtl struct {
	yields  int
	armed   atomic.Bool // the next Set or Delete waits at the gate
	reached atomic.Bool
	gate    chan struct{}
}

func (p *passFacade) hold() {
	for i := 0; i < p.ctl.yields; i++ {
		runtime.Gosched()
	}
	if p.ctl.armed.CompareAndSwap(true, false) {
		p.ctl.reached.Store(true)
		<-p.ctl.gate
	}
}

func (p *passFacade) Peek(k interface{}) (interface{}, bool) { return p.in.Peek(k) }
func (p *passFacade) Get(k interface{}) (interface{}, bool)  { return p.in.Get(k) }
func (p *passFacade) Set(k interface{}, v interface{})       { p.hold(); p.in.Set(k, v) }
func (p *passFacade) Delete(k interface{})                   { p.hold(); p.in.Delete(k) }

func validOp(op Op, nkeys int) bool {
	return op.K >= 0 && op.K < nOpKinds && op.Key >= 0 && op.Key < nkeys
}

// newHarness starts the group. A vkit.Sched that is to cover the worker
// goroutines must have been created before.
func newHarness(c Config, faults []Fault) *harness {
	h := &harness{cfg: c, env: newEnv(faults)}
	h.env.sized = c.Sized
	for _, k := range c.Keys {
		key, _ := k.build()
		h.keys = append(h.keys, key)
		h.kids = append(h.kids, keyID(key))
		h.hashes = append(h.hashes, key.HashedInt())
	}
	for i, kid := range h.kids {
		if i < len(c.Init) && c.Init[i] {
			sz := int64(1)
			if i < len(c.InitSz) {
				sz = c.InitSz[i]
			}
			h.env.install(kid, -1, sz, nil)
		}
	}
	var opts []mux.Option
	if c.Workers > 0 {
		opts = append(opts, mux.WithSize(c.Workers))
	}
	if c.Deep > 0 {
		opts = append(opts, mux.WithDeep(c.Deep))
	}
	switch {
	case c.Custom:
		h.fctl = &facadeCtl{yields: c.FacadeYields, gate: h.env.gate}
		h.grp = mux.NewWorkGrp(func() mux.CacheFacade {
			if c.LRU {
				return &passFacade{in: mux.NewFacadeLRU(c.Cap), ctl: h.fctl}
			}
			return &passFacade{in: mux.NewFacadeMap(), ctl: h.fctl}
		}, opts...)
	case c.LRU:
		h.grp = mux.NewWorkGrpWithLRU(c.Cap, opts...)
	default:
		h.grp = mux.NewWorkGrpWithMapCache(opts...)
	}
	h.ctx, h.cancel = context.WithCancel(context.Background())
	h.grp.Start()
	return h
}

func (h *harness) openGate() {
	if !h.opened {
		h.opened = true
		close(h.env.gate)
	}
}

// stop ends the worker goroutines and waits for them. A worker that never ends
// (parked for good inside the group's code, e.g. in the send of a reply nobody
// will read) can apply nothing any more: that is a verdict, decided by the
// goroutine-state cut (the timer only says when to look), not a hang.
func (h *harness) stop(sched *vkit.Sched, res *vkit.Result) {
	h.openGate()
	h.cancel()
	h.grp.Stop()
	done := make(chan struct{})
	go func() {
		_ = h.grp.WaitStop(context.Background())
		close(done)
	}()
	timer := time.NewTimer(lookAfter)
	defer timer.Stop()
	select {
	case <-done:
		return
	case <-timer.C:
	}
	parked := sched.MustQuiesce()
	select {
	case <-done:
		return
	default:
	}
	var b strings.Builder
	for _, g := range parked {
		fmt.Fprintf(&b, " [goroutine %d %s: %s]", g.ID, g.State, strings.TrimSpace(g.Top))
	}
	res.Failf("worker-stuck", "the group was stopped and every caller has returned, yet its worker goroutines never end: every goroutine of the case is parked for good:%s", b.String())
}

func (h *harness) newRec(id, caller int, op Op) *opRec {
	r := &opRec{id: id, caller: caller, op: op, kid: h.kids[op.Key]}
	r.ctx, r.cancel = context.WithCancel(h.ctx)
	if op.Cancel == cBefore && op.Deadline {
		// a deadline long past: the context has ended at once, no timer is started (released with h.ctx)
		inner := r.cancel
		dctx, stop := context.WithDeadline(r.ctx, time.Unix(1, 0))
		r.ctx, r.cancel = dctx, func() { stop(); inner() }
	}
	return r
}

// do executes rec's operation on the calling goroutine.
func (h *harness) do(rec *opRec) {
	e := h.env
	k := h.keys[rec.op.Key]
	data := opData{Kid: rec.kid, D: rec.op.D, Op: rec.id}
	isKey := func(d interface{}) bool {
		hk, ok := d.(mux.Hashed2Int)
		return ok && keyID(hk) == rec.kid
	}
	isData := func(d interface{}) bool {
		od, ok := d.(opData)
		return ok && od == data
	}
	load := func(_ context.Context, d interface{}) (interface{}, error) {
		return e.invoke(rec, cbLoad, isKey(d), false, nil)
	}
	add := func(_ context.Context, d interface{}) (interface{}, error) {
		return e.invoke(rec, cbAdd, isData(d), false, nil)
	}
	upd := func(_ context.Context, d interface{}, x interface{}) (interface{}, error) {
		return e.invoke(rec, cbUpd, isData(d), true, x)
	}
	ups := func(_ context.Context, d interface{}, x interface{}) (interface{}, error) {
		return e.invoke(rec, cbUpsert, isData(d), true, x)
	}
	del := func(_ context.Context, d interface{}) error {
		_, err := e.invoke(rec, cbDel, isKey(d), false, nil)
		return err
	}
	if rec.op.Cancel == cBefore && !rec.sweep {
		e.cancelRec(rec)
	}
	rec.t0 = e.now()
	defer func() {
		if r := recover(); r != nil {
			rec.pan = fmt.Sprint(r)
		}
		e.mu.Lock()
		e.tick++
		rec.t1 = e.tick
		e.mu.Unlock()
	}()
	var v interface{}
	var err error
	switch rec.op.K {
	case opGet:
		v, err = h.grp.DoGet(rec.ctx, load, k)
	case opAdd:
		v, err = h.grp.DoAdd(rec.ctx, add, k, data)
	case opUpdate:
		v, err = h.grp.DoUpdate(rec.ctx, load, upd, k, data)
	case opDelete:
		v, err = h.grp.DoDelete(rec.ctx, del, k)
	case opUpdOrAdd:
		v, err = h.grp.DoUpdOrAddIfNull(rec.ctx, load, upd, add, isNotFound, k, data)
	case opUpsertLoad:
		v, err = h.grp.DoUpsertThenLoad(rec.ctx, ups, load, k, data)
	case opUpsertRenew:
		v, err = h.grp.DoUpsertThenRenewInCache(rec.ctx, ups, k, data)
	}
	e.mu.Lock() // (the worker may still be appending to rec.log when the caller's context ended)
	rec.v, rec.err = v, err
	e.mu.Unlock()
}

// ---- the per-operation oracle (all parts) ----------------------------------------------

const (
	obsUnknown  = iota // the operation does not reveal whether the key was cached
	obsCached          // it took the cached path
	obsUncached        // it took the uncached path
	obsRefused         // it was refused with the queue-full error: never accepted
)

func (r *opRec) String() string {
	var b strings.Builder
	fmt.Fprintf(&b, "op %d %s(key %s", r.id, opNames[r.op.K], r.kid)
	if r.op.K != opGet && r.op.K != opDelete {
		fmt.Fprintf(&b, ", d=%d", r.op.D)
	}
	b.WriteString(")")
	if r.cancelled {
		fmt.Fprintf(&b, " [caller's context ended after %d callback(s)]", r.cbAtCancel)
	}
	b.WriteString(" callbacks [")
	for i, en := range r.log {
		if i > 0 {
			b.WriteString(", ")
		}
		b.WriteString(cbNames[en.cb])
		if en.hasPre {
			if en.preNil {
				b.WriteString("(existing=nil)")
			} else {
				fmt.Fprintf(&b, "(existing=%+v; store had %s)", en.pre, en.cur)
			}
		}
		if en.ok {
			if en.cb == cbDel {
				b.WriteString("=ok")
			} else {
				fmt.Fprintf(&b, "=%+v", en.out)
			}
		} else {
			fmt.Fprintf(&b, "=ERR(%s)", en.err.What)
		}
	}
	fmt.Fprintf(&b, "] returned (%+v, %v)", r.v, r.err)
	return b.String()
}

// resultIs: the caller received exactly what its own callback produced.
func (r *opRec) resultIs(en *cbEnt) bool {
	if en.ok {
		if en.cb == cbDel {
			return r.v == nil && r.err == nil
		}
		vv, ok := asVal(r.v)
		return ok && r.err == nil && vv == en.out
	}
	// (the value a failing callback may have handed back beside its error is not the caller's
	// business: nil or that value are both accepted)
	ce, ok := r.err.(*cbErr)
	if !ok || ce != en.err {
		return false
	}
	if vv, isVal := asVal(r.v); isVal && en.ghost != nil && vv == *en.ghost {
		return true
	}
	return r.v == nil
}

// ctxResult: the caller received the error of its own (ended) context.
func (r *opRec) ctxResult() bool {
	return r.cancelled && r.v == nil && r.err != nil && (errors.Is(r.err, context.Canceled) || errors.Is(r.err, context.DeadlineExceeded))
}

// checkShape judges one finished operation by the documentation of its Do*
// function: which callbacks ran, in which order, with which existing item, and
// that the caller got the result of the operation's own last callback. A caller
// whose context ended may get the context's error instead, and from that moment
// on the operation may be abandoned between two callbacks (its effect on the
// store is then whatever the callbacks that ran did). It returns which path
// (cached / uncached) the operation revealed and sets r.complete / r.effOK.
func checkShape(r *opRec) (obs int, site, msg string) {
	bad := func(site, f string, a ...any) (int, string, string) {
		return obsUnknown, site, fmt.Sprintf(f, a...) + " :: " + r.String()
	}
	wrongSeq := func(want string) (int, string, string) {
		return bad("callback-sequence", "callbacks do not follow the documented order (%s)", want)
	}
	L := r.log
	for i := range L {
		en := &L[i]
		if !en.argOK {
			return bad("callback-args", "the %s callback did not receive the caller's key/data", cbNames[en.cb])
		}
		if en.tb < r.t0 || (r.t1 != 0 && en.te > r.t1 && !r.cancelled) {
			return bad("callback-outside-op", "the %s callback ran outside the operation's call..return window", cbNames[en.cb])
		}
		if en.hasPre && !en.preNil && !en.preOK {
			return bad("coherence-existing-item", "the existing item handed to the %s callback is not what the store holds for the key (%s)", cbNames[en.cb], en.cur)
		}
	}
	r.complete, r.effOK = false, false
	if r.afterStop {
		if len(L) != 0 {
			return bad("stopped-group-touched-store", "the call was made after Stop had returned, yet store callbacks ran for it")
		}
		if _, isVal := asVal(r.v); r.op.K == opGet && isVal && r.err == nil {
			r.complete, r.effOK = true, true
			return obsCached, "", "" // served from the cache: no store call, judged like any cached read
		}
		return obsRefused, "", ""
	}
	if r.v == nil && r.err == mux.ErrQFull {
		if len(L) != 0 {
			return bad("refused-call-touched-store", "the caller was told that the queue is full, i.e. the operation was not accepted, yet store callbacks ran for it")
		}
		return obsRefused, "", ""
	}
	abandonedAtStart := r.cancelled && r.cbAtCancel == 0 && r.ctxResult()
	if len(L) == 0 {
		switch r.op.K {
		case opGet:
			if _, isVal := asVal(r.v); isVal && r.err == nil {
				r.complete, r.effOK = true, true
				return obsCached, "", ""
			}
			if abandonedAtStart {
				return obsUnknown, "", ""
			}
			return bad("coherence", "DoGet did not consult load, so it answered from the cache, but what it returned is not a value the store ever produced")
		case opAdd:
			if r.v == nil && r.err == mux.ErrDupKey {
				r.complete, r.effOK = true, true
				return obsCached, "", ""
			}
			if abandonedAtStart {
				return obsUnknown, "", ""
			}
			return bad("add-result", "DoAdd called no store function, which is only right for a cached key, but did not return ErrDupKey")
		}
		if abandonedAtStart {
			return obsUnknown, "", ""
		}
		return wrongSeq("at least one store callback")
	}
	// the first callback shows the path, its outcome fixes the rest
	var want []int
	var wantDoc string
	obs = obsUnknown
	f := &L[0]
	switch r.op.K {
	case opGet:
		obs, want, wantDoc = obsUncached, []int{cbLoad}, "cached: none; uncached: load"
	case opAdd:
		obs, want, wantDoc = obsUncached, []int{cbAdd}, "cached: none; uncached: add"
	case opDelete:
		want, wantDoc = []int{cbDel}, "delete"
	case opUpdate, opUpdOrAdd:
		switch {
		case f.cb == cbUpd && !f.preNil:
			obs, want, wantDoc = obsCached, []int{cbUpd}, "cached: update(existing = cached item)"
		case f.cb == cbLoad && f.ok:
			obs, want, wantDoc = obsUncached, []int{cbLoad, cbUpd}, "uncached, key in store: load, update(existing = loaded item)"
		case f.cb == cbLoad && r.op.K == opUpdOrAdd && f.err.NotFound:
			obs, want, wantDoc = obsUncached, []int{cbLoad, cbAdd}, "uncached, load says not found: load, add"
		case f.cb == cbLoad:
			obs, want, wantDoc = obsUncached, []int{cbLoad}, "uncached, load fails: load only"
		default:
			return wrongSeq("cached: update(existing = cached item); uncached: load first")
		}
	case opUpsertLoad:
		switch {
		case f.cb == cbUpsert && !f.preNil:
			obs, want, wantDoc = obsCached, []int{cbUpsert}, "cached: upsert(existing = cached item)"
		case f.cb == cbUpsert && f.ok:
			obs, want, wantDoc = obsUncached, []int{cbUpsert, cbLoad}, "uncached: upsert(existing = nil), then load"
		case f.cb == cbUpsert:
			obs, want, wantDoc = obsUncached, []int{cbUpsert}, "uncached, upsert fails: upsert only"
		default:
			return wrongSeq("upsert first")
		}
	case opUpsertRenew:
		want, wantDoc = []int{cbUpsert}, "upsert only"
		if f.cb == cbUpsert {
			if f.preNil {
				obs = obsUncached
			} else {
				obs = obsCached
			}
		}
	}
	if len(L) > len(want) {
		return wrongSeq(wantDoc)
	}
	for i := range L {
		if L[i].cb != want[i] {
			return wrongSeq(wantDoc)
		}
	}
	if len(L) == 2 && L[1].cb == cbUpd {
		// the existing item of an update that follows a load is the loaded value
		if pv, ok := asVal(L[1].pre); L[1].preNil || !ok || pv != L[0].out {
			return wrongSeq(wantDoc)
		}
	}
	last := &L[len(L)-1]
	if len(L) < len(want) {
		// stopped between two callbacks: only a caller whose context had ended by then may be abandoned
		if !r.cancelled || len(L) < r.cbAtCancel {
			return wrongSeq(wantDoc + "; it stopped early")
		}
		if !r.ctxResult() {
			return bad("result", "the operation was abandoned after its caller's context ended, but the caller got something else than its context's error")
		}
		return obs, "", ""
	}
	r.complete, r.effOK = true, last.ok
	if !r.resultIs(last) && !r.ctxResult() {
		return bad("result", "the caller received neither the result of its own last store callback nor (its context having ended) its context's error")
	}
	return obs, "", ""
}

// ---- what can be known about the cache ----------------------------------------------------

const (
	sNo    = iota // certainly not cached
	sMaybe        // the statement allows both
	sYesWT        // certainly cached because the group is a write-through cache: a successful operation left it there
	sYes          // certainly cached: an operation that writes nothing has just found it there
)

// model is what the statement lets the harness know about the cache, per key.
//
//   - sYes comes from observation: DoGet served without load, DoAdd rejected
//     without a store call.
//   - sYesWT is the write-through policy the property is named after ("renew
//     cache" in every handler's documentation): after an operation whose last
//     store callback succeeded the key is cached - for get / add / update /
//     update-or-add / upsert-then-load on either path, for upsert-then-renew only
//     when it found the key cached. A failure of these two kinds of certainty is
//     reported under different sites.
//   - sNo: nothing was cached yet, a successful delete, or an operation that found
//     the key uncached and obtained no value it could cache.
//   - it assumes nothing about which keys share a worker (any subset may share one
//     LRU), only that a map keeps an entry until it is deleted and that an LRU of
//     capacity c evicts nothing while at most c keys can be in it.
//   - a caller whose context ended is no exception: what its operation's
//     callbacks did counts exactly like for any other caller.
type model struct {
	cfg      Config
	st       []int
	kids     []string
	deleted  []bool          // certainly not cached because of a successful delete
	oversize []bool          // certainly not cached because its value is bigger than the LRU capacity
	wt       []bool          // label only: the key would be cached now had nothing been evicted
	track    map[string]*Val // what the store holds per key, followed through the callback logs in judging order
	// gated phase: the real order of operations on different keys is not the judging order,
	// so an LRU that may evict makes every certainty about "cached" void after each step
	voidAfterEach bool
}

func newModel(h *harness) *model {
	n := len(h.keys)
	m := &model{cfg: h.cfg, kids: h.kids, st: make([]int, n), deleted: make([]bool, n), oversize: make([]bool, n), wt: make([]bool, n), track: map[string]*Val{}}
	h.env.mu.Lock()
	for k, v := range h.env.vals {
		v := v
		m.track[k] = &v
	}
	h.env.mu.Unlock()
	return m
}

// sizeIfCached: what the key's entry counts in an LRU if the key is cached. A
// coherent cache holds the store's current value, whose size is known.
func (m *model) sizeIfCached(key int) int64 {
	if !m.cfg.Sized {
		return 1
	}
	if v := m.track[m.kids[key]]; v != nil {
		return v.Sz
	}
	return 1
}

// evictionPossible: with everything that may be cached now, an LRU worker cache
// may have gone over its capacity (no assumption on which keys share a worker).
func (m *model) evictionPossible() bool {
	if !m.cfg.LRU {
		return false
	}
	total := int64(0)
	for i, s := range m.st {
		if s != sNo {
			total += m.sizeIfCached(i)
		}
	}
	return total > m.cfg.Cap
}

// othersMayBeGone: entries of other keys may have been evicted.
func (m *model) othersMayBeGone(key int) {
	for i := range m.st {
		if i != key && m.st[i] >= sYesWT {
			m.st[i] = sMaybe
		}
	}
}

// wasSet: the operation set (certain: st = sYesWT) or may have set (st = sMaybe)
// the store's current value of the key into the cache; grew: the entry is new or
// bigger than the one it replaces. In an LRU a value bigger than the capacity
// never stays (LRUCache.Set evicts from the cold end until the total fits, and
// the new entry is the last to go), and it takes every other entry of its
// worker with it; a value that fits stays and evicts others only if the total
// may exceed the capacity.
func (m *model) wasSet(key, st int, grew bool) {
	m.deleted[key] = false
	m.oversize[key] = false
	if m.cfg.LRU && m.sizeIfCached(key) > m.cfg.Cap {
		// (whether an implementation keeps such an entry is not the property's business: the key is "maybe cached",
		// and whatever is served for it must equal the store)
		m.st[key] = sMaybe
		m.oversize[key] = true
		m.wt[key] = false
		m.othersMayBeGone(key)
		return
	}
	m.st[key] = st
	if grew && m.evictionPossible() {
		m.othersMayBeGone(key)
	}
}

func (m *model) set(key, st int) {
	m.st[key] = st
	if st != sNo {
		m.deleted[key] = false
		m.oversize[key] = false
	}
}

func anyOK(L []cbEnt) bool {
	for i := range L {
		if L[i].ok {
			return true
		}
	}
	return false
}

// after updates the knowledge with a finished operation.
func (m *model) after(r *opRec, obs int) {
	key := r.op.Key
	for i := range r.log {
		if en := &r.log[i]; en.ok {
			if en.cb == cbDel {
				delete(m.track, r.kid)
			} else {
				v := en.out
				m.track[r.kid] = &v
			}
		}
	}
	// the size of the entry the operation found in the cache, if it found one
	oldSize := int64(1)
	if m.cfg.Sized && len(r.log) > 0 && r.log[0].hasPre {
		if pv, ok := asVal(r.log[0].pre); ok {
			oldSize = pv.Sz
		}
	}
	switch {
	case r.op.K == opDelete && len(r.log) == 0:
		// never ran
	case r.op.K == opDelete && r.effOK:
		m.set(key, sNo)
		m.deleted[key] = true
		m.oversize[key] = false
		m.wt[key] = false
	case r.op.K == opDelete:
		if m.st[key] >= sYesWT {
			m.set(key, sMaybe) // an implementation may drop the entry when the delete fails
		}
	case obs == obsCached && (r.op.K == opGet || r.op.K == opAdd):
		m.set(key, sYes)
		m.wt[key] = true
	case obs == obsCached && r.effOK:
		// renewed in place: only an entry that grows can push anything out
		m.wt[key] = true
		m.wasSet(key, sYesWT, m.sizeIfCached(key) > oldSize)
	case obs == obsCached:
		m.set(key, sMaybe) // keeping or dropping the old entry are both coherent
		m.wt[key] = true
	case obs == obsUncached && r.effOK && r.op.K != opUpsertRenew:
		m.wt[key] = true
		m.wasSet(key, sYesWT, true)
	case obs == obsUncached && (r.effOK || anyOK(r.log)) && m.track[r.kid] != nil:
		// upsert-then-renew is documented not to fill the cache; an abandoned or failed operation
		// obtained a current value before it stopped: caching it would be coherent in both cases
		m.wt[key] = false
		m.wasSet(key, sMaybe, true)
	case obs == obsUncached:
		m.set(key, sNo)
		m.wt[key] = false
	}
	if m.voidAfterEach {
		for i := range m.st {
			if m.st[i] >= sYesWT {
				m.st[i] = sMaybe
			}
		}
	}
}

func labelConfig(res *vkit.Result, c Config, h *harness) {
	if c.LRU {
		res.Class(fmt.Sprintf("facade-lru-%d", c.Cap))
	} else {
		res.Class("facade-map")
	}
	if c.Workers == 0 {
		res.Class(fmt.Sprintf("workers-default-%d", h.grp.MuxSize()))
	} else {
		res.Class(fmt.Sprintf("workers-%d", c.Workers))
	}
	if len(c.Keys) > 6 {
		res.Class("keys-7-to-12")
	}
	if c.Deep > 0 {
		res.Class(fmt.Sprintf("queue-depth-%d", c.Deep))
	} else {
		res.Class("queue-depth-default")
	}
	if c.Custom {
		res.Class("group-built-with-NewWorkGrp-and-own-facade")
	}
	if c.Sized {
		res.Class("values-with-size")
		if c.LRU {
			res.Class("lru-with-sized-values")
		}
	} else {
		res.Class("plain-values")
	}
	seen := map[int]bool{}
	seenT := map[string]bool{}
	for i, hv := range h.hashes {
		if seen[hv] {
			res.Class("keys-with-equal-hash")
		}
		seen[hv] = true
		if th := fmt.Sprintf("%s/%d", c.Keys[i].T, hv); seenT[th] {
			res.Class("distinct-keys-of-one-type-with-equal-hash")
		} else {
			seenT[th] = true
		}
	}
}

func labelKey(res *vkit.Result, h *harness, key int) {
	switch hv := h.hashes[key]; {
	case hv == math.MinInt:
		res.Class("minint-hash-key-used")
		res.Class("negative-hash-key-used")
	case hv < 0:
		res.Class("negative-hash-key-used")
	}
}

func labelOp(res *vkit.Result, r *opRec, obs int) {
	switch r.op.K {
	case opUpdate, opUpdOrAdd:
		if obs == obsCached {
			res.Class("update-on-cached-key")
		} else if obs == obsUncached {
			res.Class("update-on-uncached-key")
		}
		if len(r.log) == 2 && r.log[1].cb == cbAdd {
			res.Class("update-or-add-takes-add-path")
		}
	case opUpsertLoad:
		if len(r.log) == 2 && r.log[0].ok && !r.log[1].ok {
			res.Class("load-fails-after-successful-upsert")
		}
	case opAdd:
		if obs == obsCached {
			res.Class("add-on-cached-key")
		}
	case opDelete:
		if r.effOK {
			res.Class("successful-delete")
		}
	}
	for i := range r.log {
		if r.log[i].err != nil && r.log[i].err.Injected {
			res.Class("fault-in-" + cbNames[r.log[i].cb])
		}
		if r.log[i].ghost != nil {
			res.Class("failing-callback-handed-back-a-value")
			if obs == obsCached {
				res.Class("failing-callback-handed-back-a-value-on-a-cached-key")
			}
		}
	}
	if r.cancelled && r.op.Cancel == cBefore && r.op.Deadline {
		res.Class("context-with-a-deadline-already-passed")
	}
	if r.cancelled {
		switch {
		case r.cbAtCancel == 0 && len(r.log) > 0:
			res.Class("context-ended-before-the-operation-ran")
		case r.cbAtCancel == 0:
			res.Class("context-ended-operation-ran-no-callback")
		default:
			res.Class("context-ended-inside-a-callback")
		}
		if anyOK(r.log) && (r.op.K != opGet) {
			res.Class("write-committed-for-a-caller-whose-context-ended")
			if obs == obsCached {
				res.Class("cached-key-written-for-a-caller-whose-context-ended")
			}
		}
		if r.ctxResult() {
			res.Class("caller-got-its-context-error")
		}
	}
}

// judge applies every oracle to one finished operation, in the order in which
// the operations of its key were accepted, and updates the knowledge.
// writeThrough: the two sites that rest on the write-through POLICY ("a successful
// write leaves the key cached") are off by default: the statement only demands
// that whatever the cache holds equals the store, an implementation that
// invalidated instead of renewing would satisfy it. Certainty about "cached"
// then comes from observation only. VERIF_C15_WT=1 switches the stricter
// reading on (every mutant and seeded change is caught without it).
var writeThrough = os.Getenv("VERIF_C15_WT") == "1"

type judge struct {
	res *vkit.Result
	h   *harness
	m   *model
}

func (j *judge) one(r *opRec) bool {
	res, h, m, e := j.res, j.h, j.m, j.h.env
	e.mu.Lock()
	site, msg := e.site, e.msg
	e.mu.Unlock()
	if r.pan != "" {
		res.Failf("op-panic", "%s(key %s, hash %d) on a group of %d workers panicked: %s", opNames[r.op.K], r.kid, h.hashes[r.op.Key], h.cfg.Workers, r.pan)
		return false
	}
	if site != "" {
		res.Failf(site, "%s :: %s", msg, r)
		return false
	}
	obs, site, msg := checkShape(r)
	if site != "" {
		res.Failf(site, "%s", msg)
		return false
	}
	key := r.op.Key
	if obs == obsRefused && r.afterStop {
		res.Class("refused-after-stop")
		return true
	}
	if obs == obsRefused {
		// never accepted: no effect on order or knowledge. Legitimate only if the queue of the key's
		// worker can have been full: at least `deep` earlier accepted operations still unfinished
		// somewhere in the group (which keys share a worker is not assumed).
		deep := h.cfg.Deep
		if deep == 0 {
			deep = mux.DefaultDeepSize
		}
		if r.unfinishedBefore < deep {
			res.Failf("refused-without-full-queue", "the call was refused with the queue-full error although at most %d accepted operation(s) were unfinished in the whole group and every worker queue holds %d :: %s", r.unfinishedBefore, deep, r)
			return false
		}
		res.Class("refused-queue-full")
		return true
	}
	if r.op.K == opGet && obs == obsCached {
		v, _ := asVal(r.v)
		if r.early {
			// a read served from the cache while an earlier accepted operation was still in
			// flight: "after the last completed operation" is the reference
			if v.K != r.kid || !e.valueInWindow(r.kid, &v, r.t0, r.t1) {
				res.Failf("coherence", "DoGet answered from the cache with %+v, which the store did not hold for the key between the call and the return; store history of the key:%s :: %s", v, e.history(r.kid), r)
				return false
			}
			res.Class("cached-read-while-earlier-operation-in-flight")
			return true // a pure read of the cache: it tells nothing about the order of writes
		}
		if cur := m.track[r.kid]; cur == nil || v != *cur {
			held := "nothing"
			if cur != nil {
				held = fmt.Sprintf("%+v", *cur)
			}
			res.Failf("coherence", "DoGet answered from the cache with %+v but the store holds %s for the key :: %s", v, held, r)
			return false
		}
	}
	switch {
	case obs == obsCached && m.st[key] == sNo && m.deleted[key]:
		res.Failf("delete-leaves-cache-entry", "the key was deleted successfully and not written since, yet the next operation found it in the cache :: %s", r)
		return false
	case obs == obsCached && m.st[key] == sNo:
		res.Failf("phantom-cache-entry", "no operation accepted before this one can have put the key into the cache, yet the operation found it there :: %s", r)
		return false
	case obs == obsUncached && m.st[key] == sYes && r.op.K == opAdd:
		res.Failf("add-on-cached-key", "the previous operation on the key found it in the cache and nothing can have evicted it since, but DoAdd called the store instead of rejecting the duplicate :: %s", r)
		return false
	case obs == obsUncached && m.st[key] == sYes:
		res.Failf("cache-entry-lost", "the previous operation on the key found it in the cache and nothing can have evicted or deleted it since, but this operation treated it as uncached :: %s", r)
		return false
	case obs == obsUncached && m.st[key] == sYesWT && !writeThrough:
		// inference switched off
	case obs == obsUncached && m.st[key] == sYesWT && r.op.K == opAdd:
		res.Failf("add-on-written-key", "the operation accepted before this one on the key succeeded, which leaves the key in a write-through cache (nothing can have evicted it), but DoAdd called the store instead of rejecting the duplicate :: %s", r)
		return false
	case obs == obsUncached && m.st[key] == sYesWT:
		res.Failf("write-through-entry-missing", "the operation accepted before this one on the key succeeded, which leaves the key in a write-through cache (nothing can have evicted it), but this operation treated it as uncached :: %s", r)
		return false
	}
	if !r.sweep {
		if h.cfg.LRU && obs == obsUncached && m.wt[key] {
			res.Class("lru-eviction-between-operations")
		}
		if r.op.K == opGet && m.deleted[key] {
			res.Class("get-after-successful-delete")
		}
		labelOp(res, r, obs)
		labelKey(res, h, key)
		if h.cfg.Sized && h.cfg.LRU && r.effOK && len(r.log) > 0 && r.op.K != opDelete {
			newSz := r.log[len(r.log)-1].out.Sz
			oldSz := int64(-1)
			if pv, ok := asVal(r.log[0].pre); ok && obs == obsCached {
				oldSz = pv.Sz
			}
			switch {
			case obs == obsCached && newSz > h.cfg.Cap:
				res.Class("cached-key-written-with-a-value-bigger-than-the-capacity")
			case obs == obsUncached && newSz > h.cfg.Cap:
				res.Class("uncached-key-set-with-a-value-bigger-than-the-capacity")
			case obs == obsCached && newSz > oldSz:
				res.Class("cached-entry-grows-within-the-capacity")
			case obs == obsCached && newSz < oldSz:
				res.Class("cached-entry-shrinks")
			}
		}
	}
	m.after(r, obs)
	return true
}

// ---- sequential histories ----------------------------------------------------------------

// doSeq runs one operation of a sequential history: it is the only one in
// progress, and the store callbacks check that. If its caller's context ended,
// the worker may still be busy with it when the caller returns: the history
// waits (quiescence: every worker idle) before it goes on.
func (h *harness) doSeq(r *opRec, sched *vkit.Sched) (answered bool) {
	e := h.env
	e.mu.Lock()
	e.cur = r.id
	e.mu.Unlock()
	// the call runs on its own goroutine, so that a reply that never comes is a verdict, not
	// a hang: the timer below only says when to look; the verdict is the goroutine-state cut
	// (every goroutine of the case parked, the caller among them: nothing can ever answer it)
	done := make(chan struct{})
	op := sched.Go("seq-op", func() {
		defer close(done)
		h.do(r)
	})
	timer := time.NewTimer(lookAfter)
	select {
	case <-done:
		timer.Stop()
	case <-timer.C:
		sched.MustQuiesce()
		if !op.Done() {
			h.cancel() // releases the caller (the result wait observes the context)
			sched.MustQuiesce()
			return false
		}
		<-done
	}
	e.mu.Lock()
	wait := r.cancelled
	e.mu.Unlock()
	if wait {
		sched.MustQuiesce()
	}
	e.mu.Lock()
	e.cur = -1
	e.mu.Unlock()
	return true
}

// lookAfter: how long a sequential call may take before the controller looks at the
// goroutine states (not a verdict by itself).
const lookAfter = 300 * time.Millisecond

func lostReply(res *vkit.Result, r *opRec) *vkit.Result {
	return res.Failf("lost-reply", "every goroutine of the case is parked and no worker is busy, yet the caller still waits for the result of its operation: %s", r)
}

func ExecSeq(c Case) *vkit.Result {
	res := &vkit.Result{}
	if !validConfig(c.Config) || len(c.Ops) > 1000 {
		res.Skip("malformed-config")
		return res
	}
	sched := vkit.NewSched() // before the group: its workers belong to the tracked set
	h := newHarness(c.Config, c.Faults)
	defer h.stop(sched, res)
	e := h.env
	e.seq = true
	labelConfig(res, c.Config, h)
	j := &judge{res: res, h: h, m: newModel(h)}
	touched := make([]int, len(h.keys))
	twice := false
	for i, op := range c.Ops {
		if !validOp(op, len(h.keys)) {
			res.Skip("malformed-op")
			continue
		}
		r := h.newRec(i, 0, op)
		if !h.doSeq(r, sched) {
			return lostReply(res, r)
		}
		touched[op.Key]++
		if touched[op.Key] >= 2 {
			twice = true
		}
		if !j.one(r) {
			return res
		}
	}
	e.mu.Lock()
	hit, nf := e.faultsHit, e.nfHit
	e.noFaults = true
	e.mu.Unlock()
	for key := range h.keys {
		// the closing probe of every key, with the fault plan switched off
		r := h.newRec(100000+key, -1, Op{K: opGet, Key: key})
		r.sweep = true
		if !h.doSeq(r, sched) {
			return lostReply(res, r)
		}
		if !j.one(r) {
			return res
		}
	}
	if hit > 0 {
		res.Class("fault-hit")
	}
	if nf > 0 {
		res.Class("not-found-fault-hit")
	}
	if twice {
		res.Class("key-touched-by-two-operations")
	}
	res.NonTrivial = hit > 0 && twice
	return res
}

// ---- controller-owned schedules: acceptance order -------------------------------------------

func ExecGate(c CaseGate) *vkit.Result {
	res := &vkit.Result{}
	if !validConfig(c.Config) || len(c.Pre) > 100 || len(c.Queued) > 32 || !validOp(c.Gate, len(c.Keys)) || c.GateAt < 1 || c.GateAt > 4 {
		res.Skip("malformed-config")
		return res
	}
	sched := vkit.NewSched() // before the group: its workers belong to the tracked set
	h := newHarness(c.Config, c.Faults)
	defer h.stop(sched, res)
	e := h.env
	labelConfig(res, c.Config, h)
	j := &judge{res: res, h: h, m: newModel(h)}

	// prologue: one call after the other
	e.seq = true
	for i, op := range c.Pre {
		if !validOp(op, len(h.keys)) {
			res.Skip("malformed-op")
			continue
		}
		op.Cancel, op.CancelAt = cNever, 0
		r := h.newRec(i, 0, op)
		if !h.doSeq(r, sched) {
			return lostReply(res, r)
		}
		if !j.one(r) {
			return res
		}
	}
	e.mu.Lock()
	e.seq = false
	e.mu.Unlock()

	// the gated operation occupies its key's worker
	type run struct {
		r      *opRec
		op     *vkit.Op
		parked bool // it was parked (its request queued, or in progress) when the next call was made
	}
	var runs []*run
	g := &run{r: h.newRec(1000, 1, c.Gate)}
	facadeGate := c.FacadeGate && h.fctl != nil
	if facadeGate {
		h.fctl.armed.Store(true)
	} else {
		g.r.gateAt = c.GateAt
	}
	g.op = sched.Go("gated-op", func() { h.do(g.r) })
	sched.MustQuiesce()
	e.mu.Lock()
	gateHeld := e.gateReached && !g.op.Done()
	gateCb := e.gateCb
	e.mu.Unlock()
	if facadeGate {
		// held inside the facade's Set/Delete: the worker is occupied whether or not the library
		// has already answered the caller (it must not have: the operation is not complete)
		h.fctl.armed.Store(false)
		gateHeld = h.fctl.reached.Load()
	}
	g.parked = !g.op.Done()
	runs = append(runs, g)
	switch {
	case gateHeld && facadeGate:
		res.Class("gate-in-the-cache-facade")
	case gateHeld:
		res.Class("gate-in-" + cbNames[gateCb])
	default:
		res.Class("gate-not-reached")
	}
	behindSameKey, adds, behind := 0, 0, 0
	for i, op := range c.Queued {
		if !validOp(op, len(h.keys)) {
			res.Skip("malformed-op")
			continue
		}
		q := &run{r: h.newRec(2000+i, 2+i, op)}
		// how many requests accepted earlier may sit in a queue right now: callers still parked
		// (the gated operation itself is running, not queued) and callers whose context ended and
		// who returned without any of their callbacks having run (at quiescence only the gated
		// worker is busy, so an operation that has run a callback is not behind the gate)
		e.mu.Lock()
		for _, x := range runs {
			switch {
			case x == g && gateHeld:
			case !x.op.Done():
				q.r.unfinishedBefore++
			case x.r.cancelled && len(x.r.log) == 0 && x.r.err != mux.ErrQFull:
				q.r.unfinishedBefore++
			}
		}
		e.mu.Unlock()
		q.op = sched.Go(fmt.Sprintf("queued-op-%d", i), func() { h.do(q.r) })
		sched.MustQuiesce()
		q.parked = !q.op.Done()
		// (the gated operation is unfinished while the gate holds its worker, even if its caller's context ended and the caller has gone)
		q.r.early = !q.parked && (gateHeld || !g.op.Done())
		if gateHeld && q.parked {
			behind++
		}
		if gateHeld {
			switch {
			case q.parked && op.Key == c.Gate.Key:
				behindSameKey++
				res.Class("queued-behind-the-gated-operation-same-key")
				if op.K == opAdd {
					adds++
					res.Class("add-queued-behind-an-operation-on-its-key")
				}
			case q.parked:
				res.Class("queued-behind-the-gated-operation-other-key")
			case q.r.early && op.Key == c.Gate.Key:
				res.Class("returned-while-an-operation-on-its-key-is-gated")
			default:
				res.Class("ran-on-another-worker-while-gated")
			}
		}
		if op.Cancel == cQueued {
			if q.parked {
				e.cancelRec(q.r)
				sched.MustQuiesce()
				res.Class("context-ended-while-queued")
			} else {
				res.Skip("cancel-while-queued-but-not-queued")
			}
		}
		runs = append(runs, q)
	}
	var after []*run
	stopped := false
	if c.Stop {
		pending := 0
		for _, x := range runs {
			if !x.op.Done() {
				pending++
			}
		}
		sop := sched.Go("stop", h.grp.Stop)
		sched.MustQuiesce()
		stopped = sop.Done()
		switch {
		case !stopped:
			res.Skip("stop-did-not-return-while-gated")
		case pending >= 2:
			res.Class("stop-with-two-or-more-operations-pending")
		case pending == 1:
			res.Class("stop-with-one-operation-pending")
		default:
			res.Class("stop-with-nothing-pending")
		}
		for i, op := range c.After {
			if !stopped || !validOp(op, len(h.keys)) {
				res.Skip("after-stop-op-skipped")
				continue
			}
			op.Cancel, op.CancelAt = cNever, 0
			a := &run{r: h.newRec(3000+i, 20+i, op)}
			a.r.afterStop = true
			a.op = sched.Go(fmt.Sprintf("after-stop-op-%d", i), func() { h.do(a.r) })
			sched.MustQuiesce()
			a.r.early = a.op.Done() && (gateHeld || !g.op.Done())
			after = append(after, a)
		}
		// widen the callbacks a little: what is still queued must be applied one at a time
		e.mu.Lock()
		e.yields = 2
		e.mu.Unlock()
	}
	h.openGate()
	sched.MustQuiesce()
	var stuck []string
	for _, x := range after {
		if !x.op.Done() {
			stuck = append(stuck, x.r.String())
		}
	}
	for _, x := range runs {
		if !x.op.Done() {
			stuck = append(stuck, x.r.String())
		}
		if p := x.op.Panic(); p != nil {
			return res.Failf("harness-panic", "%s panicked: %v", x.op.Name, p)
		}
	}
	if len(stuck) > 0 {
		h.cancel()
		sched.MustQuiesce()
		return res.Failf("lost-reply", "the gate is open and every worker is idle, yet %d caller(s) still wait for the result of an accepted operation: %s", len(stuck), strings.Join(stuck, " || "))
	}
	e.mu.Lock() // orders everything the callers and workers wrote before this point
	e.mu.Unlock()

	// operations on one key are applied in the order they were accepted
	lastEnd := map[string]int64{}
	lastRec := map[string]*opRec{}
	for _, x := range runs {
		r := x.r
		if len(r.log) == 0 {
			continue
		}
		if prev, ok := lastEnd[r.kid]; ok && r.log[0].tb < prev {
			return res.Failf("application-order", "store callbacks of an operation accepted later ran before those of an operation on the same key accepted earlier: later %s || earlier %s", r, lastRec[r.kid])
		}
		lastEnd[r.kid], lastRec[r.kid] = r.log[len(r.log)-1].te, r
	}
	// ... and judged in that order. Operations on different keys may really have been applied
	// in another order, which matters only where an LRU can evict.
	maxSz := int64(1)
	if c.Sized {
		for _, sz := range c.InitSz {
			maxSz = max(maxSz, sz)
		}
		for _, x := range runs {
			maxSz = max(maxSz, x.r.op.Sz)
		}
		for _, op := range c.Pre {
			maxSz = max(maxSz, op.Sz)
		}
	}
	j.m.voidAfterEach = c.LRU && c.Cap < int64(len(h.keys))*maxSz
	if j.m.voidAfterEach {
		for i := range j.m.st {
			if i != c.Gate.Key && j.m.st[i] >= sYesWT {
				j.m.st[i] = sMaybe
			}
		}
	}
	touched := map[int]int{}
	for _, x := range runs {
		touched[x.r.op.Key]++
		if !j.one(x.r) {
			return res
		}
	}
	for _, x := range after {
		if p := x.op.Panic(); p != nil {
			return res.Failf("harness-panic", "%s panicked: %v", x.op.Name, p)
		}
		if !j.one(x.r) {
			return res
		}
	}
	e.mu.Lock()
	hit := e.faultsHit
	e.noFaults = true
	e.seq = true
	e.yields = 0
	e.mu.Unlock()
	j.m.voidAfterEach = false
	for key := range h.keys {
		r := h.newRec(100000+key, -1, Op{K: opGet, Key: key})
		r.sweep = true
		r.afterStop = stopped
		if !h.doSeq(r, sched) {
			return lostReply(res, r)
		}
		if !j.one(r) {
			return res
		}
	}
	if hit > 0 {
		res.Class("fault-hit")
	}
	if adds >= 2 {
		res.Class("two-adds-queued-on-the-gated-key")
	}
	if behind >= 9 {
		res.Class("nine-or-more-requests-queued-behind-the-gated-operation")
		if behindSameKey >= 9 {
			res.Class("nine-or-more-requests-queued-on-the-gated-key")
		}
	}
	res.NonTrivial = gateHeld && behindSameKey >= 1
	return res
}

// ---- concurrent callers ----------------------------------------------------------------------

// valueInWindow: v was the store's value of the key at some instant of the
// operation's call..return window, or was replaced only by an operation that
// had not yet returned to its caller when this one was called ("after the last
// completed operation": until the replacing operation completes, the old value
// is the one the cache may hold). An operation whose caller's context ended
// returns to its caller before its worker is done with it, so its completion
// is not observable: a value it replaced is accepted.
func (e *env) valueInWindow(kid string, v *Val, t0, t1 int64) bool {
	for _, he := range e.hist[kid] {
		if v != nil && he.v != *v {
			continue
		}
		if he.inst > t1 {
			continue
		}
		if he.sup == 0 || he.sup >= t0 {
			return true
		}
		if he.supRec != nil && (he.supRec.t1 == 0 || he.supRec.t1 >= t0 || he.supRec.cancelled) {
			return true
		}
	}
	return false
}

func (e *env) history(kid string) string {
	var b strings.Builder
	for _, he := range e.hist[kid] {
		fmt.Fprintf(&b, " %+v@[%d,%d)", he.v, he.inst, he.sup)
	}
	return b.String()
}

func ExecConc(c CaseConc) *vkit.Result {
	res := &vkit.Result{}
	if !validConfig(c.Config) || len(c.Callers) < 1 || len(c.Callers) > 32 || c.Yields < 0 || c.Yields > 100 {
		res.Skip("malformed-config")
		return res
	}
	for _, ops := range c.Callers {
		if len(ops) > 1000 {
			res.Skip("malformed-config")
			return res
		}
	}
	if c.Procs >= 1 && c.Procs <= 64 {
		defer runtime.GOMAXPROCS(runtime.GOMAXPROCS(c.Procs))
	}
	sched := vkit.NewSched() // before the group: its workers belong to the tracked set
	h := newHarness(c.Config, c.Faults)
	defer h.stop(sched, res)
	e := h.env
	e.yields = c.Yields
	labelConfig(res, c.Config, h)

	recs := make([][]*opRec, len(c.Callers))
	inFlight := make([]*opRec, len(c.Callers))
	var rmu sync.Mutex
	start := make(chan struct{})
	for ci, ops := range c.Callers {
		ci, ops := ci, ops
		sched.Go(fmt.Sprintf("caller-%d", ci), func() {
			<-start
			for j, op := range ops {
				if h.ctx.Err() != nil {
					return
				}
				if !validOp(op, len(h.keys)) {
					continue
				}
				r := h.newRec(ci*1000+j, ci, op)
				rmu.Lock()
				inFlight[ci] = r
				rmu.Unlock()
				h.do(r)
				rmu.Lock()
				inFlight[ci] = nil
				recs[ci] = append(recs[ci], r)
				rmu.Unlock()
				if r.pan != "" {
					return
				}
			}
		})
	}
	close(start)
	sched.MustQuiesce()
	if parked := sched.ParkedOps(); len(parked) > 0 {
		// every goroutine of the case is parked, so no store callback is in progress and
		// no worker is handling anything: these callers wait for a reply that cannot come
		var b strings.Builder
		rmu.Lock()
		for ci, r := range inFlight {
			if r != nil {
				fmt.Fprintf(&b, " caller %d in %s;", ci, r)
			}
		}
		rmu.Unlock()
		h.cancel() // releases them (the result wait observes the context)
		sched.MustQuiesce()
		return res.Failf("lost-reply", "at quiescence %d caller(s) are still waiting for the result of an accepted operation although no worker is busy:%s", len(parked), b.String())
	}
	for _, op := range sched.Ops() {
		if p := op.Panic(); p != nil {
			return res.Failf("harness-panic", "%s panicked: %v", op.Name, p)
		}
	}
	rmu.Lock() // (with e.mu below: orders everything the callers wrote before this point)
	rmu.Unlock()
	e.mu.Lock()
	site, msg := e.site, e.msg
	e.mu.Unlock()
	if site != "" {
		return res.Failf(site, "%s", msg)
	}

	touched := make([]int, len(h.keys))
	touchedBy := make([]map[int]bool, len(h.keys))
	lingering := 0 // operations whose caller's context ended: their requests may outlive the call
	for ci := range c.Callers {
		for _, r := range recs[ci] {
			if r.cancelled {
				lingering++
			}
		}
	}
	for ci := range c.Callers {
		want := 0
		for _, op := range c.Callers[ci] {
			if !validOp(op, len(h.keys)) {
				res.Skip("malformed-op")
				continue
			}
			want++
		}
		for _, r := range recs[ci] {
			key := r.op.Key
			if r.pan != "" {
				return res.Failf("op-panic", "%s(key %s, hash %d) on a group of %d workers panicked: %s", opNames[r.op.K], r.kid, h.hashes[key], c.Workers, r.pan)
			}
			obs, site, msg := checkShape(r)
			if site != "" {
				return res.Failf(site, "%s", msg)
			}
			if obs == obsRefused {
				// never accepted (no store call: checked). It can only be right if `deep` other requests can
				// have been queued: one per other caller, plus those left behind by callers whose context ended
				if c.Deep == 0 || len(c.Callers)-1+lingering < c.Deep {
					return res.Failf("refused-without-full-queue", "the call was refused with the queue-full error although at most %d other operation(s) can have been unfinished and every worker queue holds %d :: %s", len(c.Callers)-1+lingering, c.Deep, r)
				}
				res.Class("refused-queue-full")
				continue
			}
			if r.op.K == opGet && obs == obsCached {
				v, _ := asVal(r.v)
				if v.K != r.kid || !e.valueInWindow(r.kid, &v, r.t0, r.t1) {
					return res.Failf("coherence", "DoGet answered from the cache with %+v, which the store did not hold for the key at any instant between the call (t=%d) and the return (t=%d), nor was it replaced by an operation still in progress at the call; store history of the key:%s :: %s", v, r.t0, r.t1, e.history(r.kid), r)
				}
			}
			if r.op.K == opAdd && obs == obsCached && !e.valueInWindow(r.kid, nil, r.t0, r.t1) {
				return res.Failf("phantom-cache-entry", "DoAdd rejected the key as cached, but the store held nothing for it between the call (t=%d) and the return (t=%d); store history of the key:%s :: %s", r.t0, r.t1, e.history(r.kid), r)
			}
			touched[key]++
			if touchedBy[key] == nil {
				touchedBy[key] = map[int]bool{}
			}
			touchedBy[key][ci] = true
			labelOp(res, r, obs)
			labelKey(res, h, key)
		}
		if len(recs[ci]) != want {
			return res.Failf("harness-panic", "caller %d completed %d of %d operations", ci, len(recs[ci]), want)
		}
	}

	// end-state sweep, on its own goroutine so that a lost reply is a verdict, not a hang
	e.mu.Lock()
	hit, nf := e.faultsHit, e.nfHit
	e.noFaults = true
	e.yields = 0
	e.mu.Unlock()
	var sweep []*opRec
	var cur *opRec
	sop := sched.Go("sweep", func() {
		for key := range h.keys {
			r := h.newRec(900000+key, -1, Op{K: opGet, Key: key})
			r.sweep = true
			rmu.Lock()
			cur = r
			rmu.Unlock()
			h.do(r)
			rmu.Lock()
			sweep = append(sweep, r)
			rmu.Unlock()
		}
	})
	sched.MustQuiesce()
	if !sop.Done() {
		rmu.Lock()
		r := cur
		rmu.Unlock()
		h.cancel()
		sched.MustQuiesce()
		return res.Failf("lost-reply", "the closing %s never returned although no worker is busy", r)
	}
	for _, r := range sweep {
		if r.pan != "" {
			return res.Failf("op-panic", "%s(key %s, hash %d) on a group of %d workers panicked: %s", opNames[r.op.K], r.kid, h.hashes[r.op.Key], c.Workers, r.pan)
		}
		obs, site, msg := checkShape(r)
		if site != "" {
			return res.Failf(site, "%s", msg)
		}
		if obs == obsCached {
			e.mu.Lock()
			cv, exists := e.vals[r.kid]
			e.mu.Unlock()
			if v, _ := asVal(r.v); !exists || v != cv {
				held := "nothing"
				if exists {
					held = fmt.Sprintf("%+v", cv)
				}
				return res.Failf("coherence", "after all callers finished and every worker is idle, DoGet answered from the cache with %+v but the store holds %s for the key; store history:%s :: %s", v, held, e.history(r.kid), r)
			}
		}
	}
	e.mu.Lock()
	site, msg = e.site, e.msg
	e.mu.Unlock()
	if site != "" {
		return res.Failf(site, "%s", msg)
	}

	twice, shared := false, false
	for key := range touched {
		if touched[key] >= 2 {
			twice = true
		}
		if len(touchedBy[key]) >= 2 {
			shared = true
		}
	}
	if hit > 0 {
		res.Class("fault-hit")
	}
	if nf > 0 {
		res.Class("not-found-fault-hit")
	}
	if twice {
		res.Class("key-touched-by-two-operations")
	}
	if shared {
		res.Class("key-touched-by-two-callers")
	}
	res.Class(fmt.Sprintf("callers-%d", len(c.Callers)))
	res.NonTrivial = hit > 0 && twice
	return res
}

// ---- parts ---------------------------------------------------------------------------------------

var PartSeq = &vkit.Part[Case]{
	Property: Property, Name: "sequential",
	Rule:  "rapid: {map | LRU cap 1,2,4,100} x workers {1,2,3,7 | 4,8,16 | 6,12} x 1-6 keys of 16 Hashed2Int types (pool with MinInt64-, negative-, zero-, equal-hashed keys + random values; in about 1 case in 6 two distinct keys of one type with one hash: CRC32 collisions of String and the 8-byte CRC types), each key initially in the store or not; values are plain (count 1) or, in half of the LRU and a quarter of the map configurations, implement cache.Value with a Size() drawn per write from {1,1,1,2,cap-1,cap,cap+1,3*cap}, so that cached entries grow and shrink across the capacity; 1-30 operations of the 7 kinds (DoGet is the coherence probe: it is a generated operation, not run after every step) + one closing DoGet per key; fault plan: 0-8 of 'the n-th invocation of load/add/update/upsert/delete fails without effect, as plain error or as not-found'; in half of the histories each operation's own context may end before the call or inside its 1st/2nd store callback (which still takes effect), and the history then waits for idle workers (vkit.Sched quiescence). Oracle per operation: callbacks follow the documented order (an operation may be abandoned only after its caller's context ended), only inside the operation, never overlapping per key; every existing item handed to update/upsert and every value DoGet serves without load equals the store's current value; result = the operation's own last callback result (or the caller's context error once its context ended); cache knowledge per key (certainly cached by observation / by the write-through policy, maybe, certainly not; no assumption on which keys share a worker; a value bigger than the LRU capacity is certainly not cached after it was set and may have evicted every other key, a set that fits evicts others only if the sizes of everything possibly cached may exceed the capacity): a certainly-uncached key served from cache (incl. after a successful delete) or a certainly-cached key bypassed (incl. DoAdd reaching the store) is a violation. Non-trivial: >= 1 injected failure was hit and >= 1 key was touched by two operations; distinct = distinct case JSON",
	Quick: 20000, Thorough: 80000,
	Gen: GenSeq, Exec: ExecSeq,
}

var PartGate = &vkit.Part[CaseGate]{
	Property: Property, Name: "gated",
	Rule:  "rapid: same configurations; 0-3 prologue operations one after the other; then one operation whose 1st/2nd store callback blocks on a harness gate (its worker is occupied); then 1-6 operations, in about 1 case in 16 a burst of 10-20 with queue depth default/32/12 (60% on the gated key), called one at a time, each on its own goroutine and confirmed parked or returned at vkit.Sched quiescence before the next, so the acceptance order is known; contexts end before the call / while queued / inside a callback; then the gate opens and everything must return. Oracle: per key the store callbacks run in acceptance order, and all oracles of the sequential part are applied in acceptance order (an add queued behind an operation that caches its key is a duplicate with zero store calls, an operation queued behind a successful delete finds the key uncached, ...); a DoGet served from the cache while an earlier operation is in flight is judged as a read of the last completed state. Where an LRU could evict (cap < keys) certainty about 'cached' is dropped after each step. Non-trivial: the gate was reached and >= 1 operation on the gated key was parked behind it; distinct = distinct case JSON",
	Quick: 4000, Thorough: 12000,
	Gen: GenGate, Exec: ExecGate,
}

var concRule = "rapid: same configurations; 1-6 free-running callers x 3-10 operations, each with its own context that may end before the call or inside a store callback, fault plan counted over the interleaved invocations, 0-3 Gosched inside each store callback, GOMAXPROCS 1/2/4/8. Completion is decided by vkit.Sched quiescence (a caller parked while every worker is idle is a lost reply). Oracle: per-key store callbacks never overlap and run inside their own operation (after it only when the caller's context ended); documented callback order and own result per operation; every existing item handed to update/upsert equals the store's value at that moment (exact: per-key callbacks are serial); a value served from the cache was the store's value at some instant of the DoGet or was replaced only by an operation not yet completed; closing DoGet sweep of all keys at quiescence with exact coherence. Non-trivial: >= 1 injected failure hit and >= 1 key touched by two operations; distinct = distinct case JSON"

var PartConc = &vkit.Part[CaseConc]{
	Property: Property, Name: "concurrent",
	Rule:  concRule,
	Quick: 3000, Thorough: 6000,
	Gen: GenConc, Exec: ExecConc,
}

var PartConcRace = &vkit.Part[CaseConc]{
	Property: Property, Name: "race-concurrent",
	Rule:  concRule + " (binary built with -race)",
	Quick: 800, Thorough: 3000,
	Gen: GenConc, Exec: ExecConc,
}
