package c15mux

import (
	"testing"

	"verifharness/vkit"
)

func TestMain(m *testing.M) { vkit.Main(m) }

func TestProp_Sequential(t *testing.T) { PartSeq.Run(t) }
func TestProp_Gated(t *testing.T)      { PartGate.Run(t) }
func TestProp_Concurrent(t *testing.T) { PartConc.Run(t) }
func TestRace_Concurrent(t *testing.T) { PartConcRace.Run(t) }

func TestReplay(t *testing.T) {
	PartSeq.Replay(t, 20)
	PartGate.Replay(t, 20)
	PartConc.Replay(t, 200)
	PartConcRace.Replay(t, 200)
}
