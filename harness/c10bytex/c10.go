// Package c10bytex decides property C10: the bytex typed stream codec
// round-trips, in-place rewrites change exactly the addressed bytes, reading
// truncated or arbitrary bytes never panics and reports an error instead of a
// value, and the stream reader (ReaderX) decodes exactly what the buffer reader
// (BufferX) decodes from the same bytes however the io.Reader fragments them.
package c10bytex

import (
	"bufio"
	"bytes"
	"encoding/binary"
	"fmt"
	"io"
	"math"
	"strings"
	"testing/iotest"
	"unicode/utf8"

	"github.com/pinealctx/neptune/bytex"
	"pgregory.net/rapid"

	"verifharness/vkit"
)

const Property = "C10"

// maxAlloc is the guard of DESIGN §3 C10: no read is issued that would make the
// code under test allocate more than this because the *input* says so.
const maxAlloc = 1 << 20

// ---------------------------------------------------------------------------
// operations (data)

// Op is one typed write and/or the matching typed read.
//
//	K: bool u8 u16 i16 u32 i32 u64 i64 vu32 vi32 vu64 vi64 f64 (value = raw bits in U)
//	   str (B), lstr (B, write limit L, read limit RL), bytes (B, read back with Via)
//	   read-only kinds of the robustness / differential scripts: read readn zreadn (N)
//
// A large body (64 KiB and more) is not spelled out in the case: GN > 0 with an
// empty B stands for the GN bytes of pattern(GN, GS); expandOp materialises it.
type Op struct {
	K   string `json:"k"`
	U   uint64 `json:"u,omitempty"`
	B   []byte `json:"b,omitempty"`
	GN  int64  `json:"gn,omitempty"`
	GS  uint8  `json:"gs,omitempty"`
	L   uint32 `json:"l,omitempty"`
	RL  uint32 `json:"rl,omitempty"`
	N   int64  `json:"n,omitempty"`
	Via string `json:"via,omitempty"` // for K=bytes: read | readn | zreadn
}

// pattern is the body of a generated large field: n bytes that depend on the
// seed and have no short period (a result assembled from misplaced pieces
// differs from it).
func pattern(n int64, seed uint8) []byte {
	if n < 0 {
		n = 0
	}
	if n > maxAlloc {
		n = maxAlloc
	}
	// a window of one master sequence, placed by the seed (a copy: callers own the result)
	off := int(seed) * 17
	return append(make([]byte, 0, n), patternMaster[off:off+int(n)]...)
}

var patternMaster = func() []byte {
	b := make([]byte, maxAlloc+256*17)
	for i := range b {
		b[i] = byte(i*7) + byte(i>>8)*13 + byte(i>>16)*101
	}
	return b
}()

// expandOp materialises the generated body of a large field.
func expandOp(o Op) Op {
	if o.GN > 0 && len(o.B) == 0 {
		o.B = pattern(o.GN, o.GS)
	}
	return o
}

func expandOps(ops []Op) []Op {
	big := false
	for _, o := range ops {
		big = big || (o.GN > 0 && len(o.B) == 0)
	}
	if !big {
		return ops
	}
	out := make([]Op, len(ops))
	for i, o := range ops {
		out[i] = expandOp(o)
	}
	return out
}

// scribble overwrites a slice the harness passed to a write: the callee must
// have copied what it needs (io.Writer: "Write must not retain p").
func scribble(p []byte) {
	for i := range p {
		p[i] ^= 0xa5 // differs from the old value at every index
	}
}

var fixedWidth = map[string]int{"bool": 1, "u8": 1, "u16": 2, "i16": 2, "u32": 4, "i32": 4, "u64": 8, "i64": 8, "f64": 8}

func isVar(k string) bool { return k == "vu32" || k == "vi32" || k == "vu64" || k == "vi64" }
func isStr(k string) bool { return k == "str" || k == "lstr" }

// normalize maps the raw bits of an op to the value the typed API can carry
// (a shrunk or hand-edited case may hold more bits than the width).
func normBits(k string, u uint64) uint64 {
	switch k {
	case "bool":
		if u != 0 {
			return 1
		}
		return 0
	case "u8":
		return u & 0xff
	case "u16", "i16":
		return u & 0xffff
	case "u32", "i32", "vu32", "vi32":
		return u & 0xffffffff
	}
	return u
}

// ---------------------------------------------------------------------------
// harness-side model of the wire format, written from the format description
// (fixed widths little-endian, varints = LEB128 / zigzag as encoding/binary
// documents them, string = u32 length + bytes). The generators use it to aim
// (sizes, payloads); the oracles of the arbitrary-input part use the decoder.

func modelEncode(dst []byte, o Op) []byte {
	u := normBits(o.K, o.U)
	switch o.K {
	case "bool", "u8":
		return append(dst, byte(u))
	case "u16", "i16":
		return append(dst, byte(u), byte(u>>8))
	case "u32", "i32":
		return binary.LittleEndian.AppendUint32(dst, uint32(u))
	case "u64", "i64", "f64":
		return binary.LittleEndian.AppendUint64(dst, u)
	case "vu32", "vu64":
		return appendUvarint(dst, u)
	case "vi32":
		return appendUvarint(dst, zigzag(int64(int32(uint32(u)))))
	case "vi64":
		return appendUvarint(dst, zigzag(int64(u)))
	case "str":
		dst = binary.LittleEndian.AppendUint32(dst, uint32(len(o.B)))
		return append(dst, o.B...)
	case "lstr":
		if uint64(len(o.B)) > uint64(o.L) {
			return dst // rejected write
		}
		dst = binary.LittleEndian.AppendUint32(dst, uint32(len(o.B)))
		return append(dst, o.B...)
	case "bytes":
		return append(dst, o.B...)
	}
	return dst
}

func zigzag(v int64) uint64   { return uint64(v<<1) ^ uint64(v>>63) }
func unzigzag(u uint64) int64 { return int64(u>>1) ^ -int64(u&1) }

func appendUvarint(dst []byte, u uint64) []byte {
	for u >= 0x80 {
		dst = append(dst, byte(u)|0x80)
		u >>= 7
	}
	return append(dst, byte(u))
}

const (
	vOK = iota
	vTruncated
	vOverflow
)

// modelUvarint decodes a base-128 varint at b[0:]: (value, bytes used, status).
func modelUvarint(b []byte) (uint64, int, int) {
	var v uint64
	for i := 0; ; i++ {
		if i == 10 {
			return 0, i, vOverflow
		}
		if i >= len(b) {
			return 0, i, vTruncated
		}
		c := b[i]
		if i == 9 && c > 1 {
			return 0, i + 1, vOverflow
		}
		v |= uint64(c&0x7f) << (7 * uint(i))
		if c < 0x80 {
			return v, i + 1, vOK
		}
	}
}

// ---------------------------------------------------------------------------
// calling the code under test

// value is what a typed read returned, in comparable form.
type value struct {
	u uint64 // numeric kinds: raw bits, sign-extended to 64 for signed kinds
	b []byte // strings and byte reads: a private copy taken at once
	h handle // what the API actually handed out (not part of the comparison)
}

// handle is the object a *copying* read handed to the caller: the slice
// returned by ReadN, the p filled by Read(p), the string of ReadString /
// ReadLimitString. The caller owns it, so it must keep its content whatever is
// done with the reader afterwards. ZReadN is documented as "no copy" (aliasing
// the buffer is allowed) and therefore yields no handle.
type handle struct {
	raw   []byte
	s     string
	isStr bool
}

// keeper retains the handles of a script and re-examines them at its end.
type keeper struct{ items []kept }

type kept struct {
	who, api string
	idx      int
	h        handle
	at       []byte // content right after the read
}

func (k *keeper) keep(who string, idx int, api string, v value, err error) {
	if err != nil || (v.h.raw == nil && !v.h.isStr) {
		return
	}
	k.items = append(k.items, kept{who: who, api: api, idx: idx, h: v.h, at: append([]byte{}, v.b...)})
}

// check compares every retained handle with what it held right after its read.
func (k *keeper) check(res *vkit.Result, part string) bool {
	for _, it := range k.items {
		cur := it.h.raw
		if it.h.isStr {
			cur = []byte(it.h.s)
		}
		if !bytes.Equal(cur, it.at) {
			res.Failf(part+"/"+it.api+"/retained", "the value %s.%s returned for read %d was %x right after the read but is %x at the end of the script (changed by later operations on the same reader: the copying read handed out memory it still uses)", it.who, it.api, it.idx, clip(it.at), clip(cur))
			return false
		}
	}
	return true
}

// usesScratch reports whether reading the op goes through a fixed-width codec
// (fixed widths >= 2 bytes, the u32 prefix of strings) or is itself a small
// copying raw read: the operations an implementation-side scratch array serves.
func usesScratch(o Op) bool {
	return fixedWidth[o.K] >= 2 || isStr(o.K) || smallCopyRead(o)
}

// smallCopyRead: a raw field of 1..8 bytes read by ReadN.
func smallCopyRead(o Op) bool {
	n := readLen(o)
	return apiName(o) == "ReadN" && (o.K == "bytes" || o.K == "readn") && n >= 1 && n <= 8
}

// disturbBuffer performs trailing writes and reads that reuse whatever scratch
// memory the buffer may have. tail > 0 adds that many bytes of further traffic
// (one write, copying reads of varied sizes): memory an implementation recycles
// only after tens of KiB comes round again.
func disturbBuffer(bx *bytex.BufferX, tail int) {
	bx.WriteU64(math.MaxUint64)
	bx.WriteU32(0xa5a5a5a5)
	bx.WriteU16(0x5a5a)
	bx.WriteString("tail-0123456789abcdef")
	bx.Write(bytes.Repeat([]byte{0xee}, 16))
	_, _ = bx.ReadU64()
	_, _ = bx.ReadN(8)
	_, _ = bx.ReadU16()
	_, _ = bx.ReadN(3)
	if tail = clampTail(tail); tail > 0 {
		bx.Write(pattern(int64(tail), 0xa7))
		readTraffic(bx.Len(), bx.ReadN)
	}
}

// maxTail bounds the trailing traffic a case may ask for.
const maxTail = 1 << 20

func clampTail(tail int) int {
	if tail < 0 {
		return 0
	}
	if tail > maxTail {
		return maxTail
	}
	return tail
}

// trafficSizes are the sizes of the copying reads of the trailing traffic, used
// in turn: below, at and above the sizes an allocator would treat alike.
var trafficSizes = []int{1, 3, 8, 64, 1000, 4096, 16384, 20000, 7, 255, 8192, 16383}

// readTraffic takes total bytes through readN in varied sizes; results and
// errors are dropped (only the retained values of the script are examined).
func readTraffic(total int, readN func(int) ([]byte, error)) {
	errs := 0
	for i, got := 0, 0; got < total && errs < 4; i++ {
		n := min(trafficSizes[i%len(trafficSizes)], total-got)
		p, err := readN(n)
		if err != nil {
			errs++
			continue
		}
		got += len(p)
	}
}

func (v value) String() string {
	if v.b != nil {
		if len(v.b) > 40 {
			return fmt.Sprintf("bytes(len %d) %x…", len(v.b), v.b[:40])
		}
		return fmt.Sprintf("bytes %x", v.b)
	}
	return fmt.Sprintf("%#x", v.u)
}

func sameValue(a, b value) bool { return a.u == b.u && bytes.Equal(a.b, b.b) }

// wantValue is the value a read of the written op must return.
func wantValue(o Op) value {
	u := normBits(o.K, o.U)
	switch o.K {
	case "i16":
		return value{u: uint64(int64(int16(u)))}
	case "i32", "vi32":
		return value{u: uint64(int64(int32(u)))}
	case "str", "lstr", "bytes":
		return value{b: append([]byte{}, o.B...)}
	}
	return value{u: u}
}

// apiName is the BufferX read method an op uses (site strings).
func apiName(o Op) string {
	switch o.K {
	case "bool":
		return "ReadBool"
	case "u8":
		return "ReadU8"
	case "u16":
		return "ReadU16"
	case "i16":
		return "ReadI16"
	case "u32":
		return "ReadU32"
	case "i32":
		return "ReadI32"
	case "u64":
		return "ReadU64"
	case "i64":
		return "ReadI64"
	case "f64":
		return "ReadF64"
	case "vu32":
		return "ReadVarU32"
	case "vi32":
		return "ReadVarI32"
	case "vu64":
		return "ReadVarU64"
	case "vi64":
		return "ReadVarI64"
	case "str":
		return "ReadString"
	case "lstr":
		return "ReadLimitString"
	case "bytes":
		switch o.Via {
		case "read":
			return "Read"
		case "readn":
			return "ReadN"
		}
		return "ZReadN"
	case "read":
		return "Read"
	case "readn":
		return "ReadN"
	case "zreadn":
		return "ZReadN"
	}
	return "unknown:" + o.K
}

func b2u(b bool) uint64 {
	if b {
		return 1
	}
	return 0
}

// bufWrite issues the typed write; err is only ever non-nil for lstr.
func bufWrite(bx *bytex.BufferX, o Op) (known bool, err error) {
	u := normBits(o.K, o.U)
	switch o.K {
	case "bool":
		bx.WriteBool(u != 0)
	case "u8":
		bx.WriteU8(byte(u))
	case "u16":
		bx.WriteU16(uint16(u))
	case "i16":
		bx.WriteI16(int16(u))
	case "u32":
		bx.WriteU32(uint32(u))
	case "i32":
		bx.WriteI32(int32(u))
	case "u64":
		bx.WriteU64(u)
	case "i64":
		bx.WriteI64(int64(u))
	case "f64":
		bx.WriteF64(math.Float64frombits(u))
	case "vu32":
		bx.WriteVarU32(uint32(u))
	case "vi32":
		bx.WriteVarI32(int32(u))
	case "vu64":
		bx.WriteVarU64(u)
	case "vi64":
		bx.WriteVarI64(int64(u))
	case "str":
		bx.WriteString(string(o.B))
	case "lstr":
		err = bx.WriteLimitString(o.L, string(o.B))
	case "bytes":
		// write-side ownership: the buffer gets a slice of its own that is overwritten
		// right after the write; every later read is compared with o.B
		p := append([]byte(nil), o.B...)
		bx.Write(p)
		scribble(p)
	default:
		return false, nil
	}
	return true, err
}

// readLen is the byte count of the raw read an op asks for.
func readLen(o Op) int64 {
	if o.K == "bytes" {
		return bodyLen(o)
	}
	return o.N
}

// bodyLen is the length of the body of a string or raw op, spelled out or generated.
func bodyLen(o Op) int64 {
	if o.GN > 0 && len(o.B) == 0 {
		return min(o.GN, maxAlloc)
	}
	return int64(len(o.B))
}

// bufRead issues the typed read on a BufferX.
func bufRead(bx *bytex.BufferX, o Op) (v value, err error, known bool) {
	known = true
	switch o.K {
	case "bool":
		var x bool
		x, err = bx.ReadBool()
		v.u = b2u(x)
	case "u8":
		var x byte
		x, err = bx.ReadU8()
		v.u = uint64(x)
	case "u16":
		var x uint16
		x, err = bx.ReadU16()
		v.u = uint64(x)
	case "i16":
		var x int16
		x, err = bx.ReadI16()
		v.u = uint64(int64(x))
	case "u32":
		var x uint32
		x, err = bx.ReadU32()
		v.u = uint64(x)
	case "i32":
		var x int32
		x, err = bx.ReadI32()
		v.u = uint64(int64(x))
	case "u64":
		v.u, err = bx.ReadU64()
	case "i64":
		var x int64
		x, err = bx.ReadI64()
		v.u = uint64(x)
	case "f64":
		var x float64
		x, err = bx.ReadF64()
		v.u = math.Float64bits(x)
	case "vu32":
		var x uint32
		x, err = bx.ReadVarU32()
		v.u = uint64(x)
	case "vi32":
		var x int32
		x, err = bx.ReadVarI32()
		v.u = uint64(int64(x))
	case "vu64":
		v.u, err = bx.ReadVarU64()
	case "vi64":
		var x int64
		x, err = bx.ReadVarI64()
		v.u = uint64(x)
	case "str":
		var s string
		s, err = bx.ReadString()
		v.b = []byte(s)
		v.h = handle{s: s, isStr: true}
	case "lstr":
		var s string
		s, err = bx.ReadLimitString(o.RL)
		v.b = []byte(s)
		v.h = handle{s: s, isStr: true}
	case "bytes", "read", "readn", "zreadn":
		n := readLen(o)
		switch apiName(o) {
		case "Read":
			p := make([]byte, n)
			err = bx.Read(p)
			v.b = append([]byte{}, p...)
			v.h.raw = p
		case "ReadN":
			var p []byte
			p, err = bx.ReadN(int(n))
			v.b = append([]byte{}, p...)
			v.h.raw = p
		default:
			var p []byte
			p, err = bx.ZReadN(int(n))
			v.b = append([]byte{}, p...) // ZReadN aliases the buffer: copy at once
		}
	default:
		known = false
	}
	if v.b == nil && (isStr(o.K) || o.K == "bytes" || o.K == "read" || o.K == "readn" || o.K == "zreadn") {
		v.b = []byte{}
	}
	return
}

// rdRead issues the same typed read on a ReaderX (only the operations both
// readers expose; ReadU8 corresponds to ReadByte).
func rdRead(rx *bytex.ReaderX, o Op) (v value, err error, known bool) {
	known = true
	switch o.K {
	case "bool":
		var x bool
		x, err = rx.ReadBool()
		v.u = b2u(x)
	case "u8":
		var x byte
		x, err = rx.ReadByte()
		v.u = uint64(x)
	case "u16":
		var x uint16
		x, err = rx.ReadU16()
		v.u = uint64(x)
	case "i16":
		var x int16
		x, err = rx.ReadI16()
		v.u = uint64(int64(x))
	case "u32":
		var x uint32
		x, err = rx.ReadU32()
		v.u = uint64(x)
	case "i32":
		var x int32
		x, err = rx.ReadI32()
		v.u = uint64(int64(x))
	case "u64":
		v.u, err = rx.ReadU64()
	case "i64":
		var x int64
		x, err = rx.ReadI64()
		v.u = uint64(x)
	case "f64":
		var x float64
		x, err = rx.ReadF64()
		v.u = math.Float64bits(x)
	case "str":
		var s string
		s, err = rx.ReadString()
		v.b = []byte(s)
		v.h = handle{s: s, isStr: true}
	case "lstr":
		var s string
		s, err = rx.ReadLimitString(o.RL)
		v.b = []byte(s)
		v.h = handle{s: s, isStr: true}
	case "bytes", "read", "readn", "zreadn":
		n := readLen(o)
		switch apiName(o) {
		case "Read":
			p := make([]byte, n)
			err = rx.Read(p)
			v.b = append([]byte{}, p...)
			v.h.raw = p
		case "ReadN":
			var p []byte
			p, err = rx.ReadN(int(n))
			v.b = append([]byte{}, p...)
			v.h.raw = p
		default:
			var p []byte
			p, err = rx.ZReadN(int(n))
			v.b = append([]byte{}, p...)
		}
	default:
		known = false
	}
	if v.b == nil && (isStr(o.K) || o.K == "bytes" || o.K == "read" || o.K == "readn" || o.K == "zreadn") {
		v.b = []byte{}
	}
	return
}

func newBuffer(ctor int, size int) *bytex.BufferX {
	switch ctor {
	case 1:
		if size < 0 {
			size = 0
		}
		if size > 1<<16 {
			size = 1 << 16
		}
		return bytex.NewSizedBufferX(size)
	case 2:
		return bytex.NewReadableBufferX(nil)
	}
	return bytex.NewBufferX()
}

// ---------------------------------------------------------------------------
// value generators

func genBits(t *rapid.T, width int, label string) uint64 {
	mask := uint64(math.MaxUint64)
	if width < 64 {
		mask = 1<<uint(width) - 1
	}
	switch rapid.IntRange(0, 9).Draw(t, label+"kind") {
	case 0:
		return 0
	case 1:
		return 1
	case 2:
		return mask // all ones / -1
	case 3:
		return 1 << uint(width-1) // sign bit / min
	case 4:
		return 1<<uint(width-1) - 1 // max signed
	case 5:
		return 0x0807060504030201 & mask // every byte different: endianness
	case 6:
		return (0xff << uint(8*rapid.IntRange(0, width/8-1).Draw(t, label+"byte"))) & mask
	default:
		return rapid.Uint64().Draw(t, label+"rand") & mask
	}
}

var varBoundsU = []uint64{0, 1, 127, 128, 255, 16383, 16384, 1<<21 - 1, 1 << 21, 1<<28 - 1, 1 << 28, math.MaxInt32, 1 << 31, math.MaxUint32,
	1 << 32, 1<<35 - 1, 1 << 35, 1<<56 - 1, 1 << 56, 1<<63 - 1, 1 << 63, math.MaxUint64}
var varBoundsI = []int64{0, 1, -1, 63, 64, -64, -65, 8191, 8192, -8192, -8193, math.MaxInt32, math.MinInt32, math.MaxInt32 + 1, math.MinInt32 - 1,
	math.MaxInt64, math.MinInt64, math.MinInt64 + 1}

var f64Bits = []uint64{0, 1 << 63, 0x7ff0000000000000, 0xfff0000000000000, 0x7ff8000000000000, 0x7ff0000000000001, 0x7ff8deadbeef0001,
	0xfff8000000000000, 0xfff0000000000001, 0x7fffffffffffffff, 1, 0x000fffffffffffff, 0x7fefffffffffffff, 0x3ff0000000000000, 0xc00921fb54442d18}

func genVar(t *rapid.T, k string, label string) uint64 {
	if rapid.IntRange(0, 3).Draw(t, label+"vk") == 0 {
		u := rapid.Uint64().Draw(t, label+"vrand") >> uint(rapid.IntRange(0, 63).Draw(t, label+"vshift"))
		return normBits(k, u)
	}
	switch k {
	case "vu32", "vu64":
		u := rapid.SampledFrom(varBoundsU).Draw(t, label+"vu")
		if k == "vu32" && u > math.MaxUint32 {
			u = math.MaxUint32 - (u & 0xff)
		}
		return u
	case "vi32":
		v := rapid.SampledFrom(varBoundsI).Draw(t, label+"vi")
		if v > math.MaxInt32 {
			v = math.MaxInt32
		}
		if v < math.MinInt32 {
			v = math.MinInt32
		}
		return uint64(uint32(int32(v)))
	}
	return uint64(rapid.SampledFrom(varBoundsI).Draw(t, label+"vi"))
}

// sweepLens are the lengths around the powers of two 2^5..2^12: where a size
// class, a scratch array or a one-write fast path of an implementation ends.
var sweepLens = func() []int {
	var out []int
	for k := 5; k <= 12; k++ {
		out = append(out, 1<<k-1, 1<<k, 1<<k+1)
	}
	return out
}()

func patterned(t *rapid.T, n int, label string) []byte {
	b := make([]byte, n)
	seed := rapid.Byte().Draw(t, label+"sseed")
	for i := range b {
		b[i] = seed + byte(i*7) + byte(i>>8)*13
	}
	return b
}

func genStrBytes(t *rapid.T, label string) []byte {
	switch rapid.IntRange(0, 14).Draw(t, label+"skind") {
	case 0, 1, 2:
		return []byte{} // the empty string (F8)
	case 3:
		return []byte("a")
	case 4:
		return []byte{0xff, 0xfe, 0x80} // not UTF-8
	case 5:
		return []byte("nul\x00inside\x00")
	case 6:
		return []byte("héllo, 世界")
	case 7: // longer than the default 1 KiB buffer: forces growth
		n := rapid.SampledFrom([]int{255, 256, 1023, 1024, 1025, 1100, 3000}).Draw(t, label+"slen")
		b := make([]byte, n)
		seed := rapid.Byte().Draw(t, label+"sseed")
		for i := range b {
			b[i] = seed + byte(i*7)
		}
		return b
	case 8, 9: // every length 0..300: no gap between the hand-picked ones
		return patterned(t, rapid.IntRange(0, 300).Draw(t, label+"sweep"), label)
	case 10: // 2^k-1, 2^k, 2^k+1 for k = 5..12
		return patterned(t, rapid.SampledFrom(sweepLens).Draw(t, label+"pow2"), label)
	default:
		return rapid.SliceOfN(rapid.Byte(), 0, 24).Draw(t, label+"sbytes")
	}
}

func genLimit(t *rapid.T, n int, label string) uint32 {
	switch rapid.IntRange(0, 6).Draw(t, label) {
	case 0:
		if n > 0 {
			return uint32(n - 1)
		}
		return 0
	case 1, 2:
		return uint32(n)
	case 3:
		return uint32(n + 1)
	case 4:
		return math.MaxUint32
	case 5:
		return 0
	default:
		return uint32(rapid.IntRange(0, 2*n+2).Draw(t, label+"r"))
	}
}

// genBigLen: 64 KiB-1, 64 KiB, 64 KiB+1 (where a 16-bit size ends), a few
// hundred KiB, and just under / at the 1 MiB allocation guard.
func genBigLen(t *rapid.T) int64 {
	switch k := rapid.IntRange(0, 19).Draw(t, "bigk"); {
	case k < 12:
		return int64(rapid.SampledFrom([]int{1<<16 - 1, 1 << 16, 1<<16 + 1}).Draw(t, "big64k"))
	case k < 17:
		return int64(rapid.IntRange(100<<10, 400<<10).Draw(t, "bigmid"))
	default:
		return int64(maxAlloc - rapid.IntRange(0, 16).Draw(t, "bigtop"))
	}
}

// genBigOp draws an intact large string or raw field (limits admit it).
func genBigOp(t *rapid.T) Op {
	o := Op{K: rapid.SampledFrom([]string{"str", "str", "lstr", "bytes", "bytes"}).Draw(t, "bigkind")}
	o.GN = genBigLen(t)
	o.GS = rapid.Byte().Draw(t, "bigseed")
	switch o.K {
	case "lstr":
		o.L = rapid.SampledFrom([]uint32{uint32(o.GN), uint32(o.GN) + 1, math.MaxUint32}).Draw(t, "bigwl")
		o.RL = rapid.SampledFrom([]uint32{uint32(o.GN), uint32(o.GN) + 1, math.MaxUint32}).Draw(t, "bigrl")
	case "bytes":
		o.Via = rapid.SampledFrom([]string{"read", "readn", "readn", "zreadn"}).Draw(t, "bigvia")
	}
	return o
}

// bigOdds: one case in bigOdds carries a large field; tailOdds: one case in
// tailOdds is followed by a few hundred KiB of trailing traffic.
const (
	bigOdds  = 250
	tailOdds = 150
)

// oneIn is true for about one draw in n. (rapid's integer generators favour
// small values and the ends of a range, so "IntRange(1, n) == 1" is far more
// frequent than 1/n; a middle residue of a 32-bit draw is not favoured.)
func oneIn(t *rapid.T, n uint32, label string) bool {
	return rapid.Uint32().Draw(t, label)%n == n/2+1
}

func genTail(t *rapid.T) int {
	if !oneIn(t, tailOdds, "tail") {
		return 0
	}
	return rapid.IntRange(128<<10, 320<<10).Draw(t, "tailn")
}

var kindsAll = []string{"bool", "u8", "u16", "i16", "u32", "i32", "u64", "i64", "vu32", "vi32", "vu64", "vi64", "f64", "str", "str", "lstr", "lstr", "bytes", "bytes", "bytes"}

// kindsCommon are the kinds ReaderX can read as well (no varints).
var kindsCommon = []string{"bool", "u8", "u16", "i16", "u32", "i32", "u64", "i64", "f64", "str", "str", "lstr", "lstr", "bytes", "bytes", "bytes"}

// genWriteOp draws one typed write with boundary values. okLimits forces the
// write limit and read limit of limit-strings to admit the value.
func genWriteOp(t *rapid.T, kinds []string, okLimits bool) Op {
	k := rapid.SampledFrom(kinds).Draw(t, "kind")
	o := Op{K: k}
	switch {
	case k == "bool":
		o.U = b2u(rapid.Bool().Draw(t, "bool"))
	case k == "f64":
		if rapid.IntRange(0, 3).Draw(t, "fk") == 0 {
			o.U = rapid.Uint64().Draw(t, "frand")
		} else {
			o.U = rapid.SampledFrom(f64Bits).Draw(t, "fbits")
		}
	case fixedWidth[k] > 0:
		o.U = genBits(t, 8*fixedWidth[k], "v")
	case isVar(k):
		o.U = genVar(t, k, "v")
	case k == "str":
		o.B = genStrBytes(t, "s")
	case k == "lstr":
		o.B = genStrBytes(t, "s")
		o.L = genLimit(t, len(o.B), "wl")
		o.RL = genLimit(t, len(o.B), "rl")
		if okLimits {
			if uint64(o.L) < uint64(len(o.B)) {
				o.L = uint32(len(o.B))
			}
			if uint64(o.RL) < uint64(len(o.B)) {
				o.RL = uint32(len(o.B))
			}
		}
	case k == "bytes":
		if rapid.IntRange(0, 2).Draw(t, "rawsmall") > 0 {
			// a raw field of 1..8 bytes, mostly read by the copying ReadN: the size of the fixed-width scratch arrays
			o.B = rapid.SliceOfN(rapid.Byte(), 1, 8).Draw(t, "rawbytes")
			o.Via = rapid.SampledFrom([]string{"readn", "readn", "readn", "read", "zreadn"}).Draw(t, "via")
			break
		}
		o.B = genStrBytes(t, "s")
		o.Via = rapid.SampledFrom([]string{"read", "readn", "zreadn", "zreadn"}).Draw(t, "via")
		if len(o.B) == 0 && o.Via == "readn" {
			o.Via = "zreadn" // ReadN(0) is rejected by design; it appears as its own op in the read scripts
		}
	}
	return o
}

func classifyOps(res *vkit.Result, ops []Op) (strings int) {
	for _, o := range ops {
		switch {
		case isStr(o.K):
			strings++
			if len(o.B) == 0 {
				res.Class("empty-string")
			}
			if !utf8Valid(o.B) {
				res.Class("string-not-utf8")
			}
			if len(o.B) > 1024 {
				res.Class("string>1KiB")
			}
			if len(o.B) >= 1<<16-1 {
				res.Class("string>=64KiB-1")
			}
			if o.K == "lstr" {
				switch {
				case uint64(o.L) == uint64(len(o.B)):
					res.Class("write-limit=len")
				case uint64(o.L) < uint64(len(o.B)):
					res.Class("write-limit<len")
				default:
					res.Class("write-limit>len")
				}
			}
		case o.K == "f64":
			f := math.Float64frombits(o.U)
			switch {
			case f != f:
				res.Class("f64-NaN")
			case math.IsInf(f, 0):
				res.Class("f64-Inf")
			case o.U == 1<<63:
				res.Class("f64-negative-zero")
			}
		case isVar(o.K):
			res.Class("varint")
		case o.K == "bytes" && len(o.B) == 0:
			res.Class("zero-length-raw")
		case o.K == "bytes" && len(o.B) >= 1<<16-1:
			res.Class("raw>=64KiB-1")
		}
	}
	return strings
}

func utf8Valid(b []byte) bool { return utf8.Valid(b) }

// ---------------------------------------------------------------------------
// part 1: write script, identical read script, Len()==0

type CaseRT struct {
	Ctor int  `json:"ctor"` // 0 NewBufferX, 1 NewSizedBufferX(Size), 2 NewReadableBufferX(nil)
	Size int  `json:"size,omitempty"`
	Ops  []Op `json:"ops"`
	// Pre: values written (and the first PreReads of them read back) before a Reset(); the script proper starts on the
	// reset buffer, which must behave like a fresh one
	Pre      []Op `json:"pre,omitempty"`
	PreReads int  `json:"pre_reads,omitempty"`
	// Tail: bytes of further traffic (a write, copying reads of varied sizes) between the script and the re-examination
	// of the values it retained
	Tail int `json:"tail,omitempty"`
}

func GenRT(t *rapid.T) CaseRT {
	c := CaseRT{Ctor: rapid.IntRange(0, 2).Draw(t, "ctor")}
	if c.Ctor == 1 {
		c.Size = rapid.SampledFrom([]int{0, 1, 4, 6, 16, 1024}).Draw(t, "size")
	}
	n := rapid.IntRange(1, 14).Draw(t, "nops")
	for i := 0; i < n; i++ {
		c.Ops = append(c.Ops, genWriteOp(t, kindsAll, false))
	}
	if rapid.IntRange(0, 4).Draw(t, "reset") == 0 {
		for i, k := 0, rapid.IntRange(1, 5).Draw(t, "npre"); i < k; i++ {
			c.Pre = append(c.Pre, genWriteOp(t, kindsAll, true))
		}
		c.PreReads = rapid.IntRange(0, len(c.Pre)).Draw(t, "prereads")
	}
	if oneIn(t, bigOdds, "big") {
		c.Ops[rapid.IntRange(0, n-1).Draw(t, "bigpos")] = genBigOp(t)
	}
	c.Tail = genTail(t)
	return c
}

func ExecRT(c CaseRT) *vkit.Result {
	res := &vkit.Result{}
	bx := newBuffer(c.Ctor, c.Size)
	c.Ops, c.Pre = expandOps(c.Ops), expandOps(c.Pre)
	if len(c.Pre) > 0 {
		var pre []Op
		for _, o := range c.Pre {
			if known, err := bufWrite(bx, o); known && err == nil {
				pre = append(pre, o)
			}
		}
		for i := 0; i < c.PreReads && i < len(pre); i++ {
			if _, err, _ := bufRead(bx, pre[i]); err != nil {
				break
			}
		}
		left := bx.Len()
		bx.Reset()
		if bx.Len() != 0 || len(bx.Bytes()) != 0 {
			return res.Failf("roundtrip/Reset", "Reset() on a buffer with %d unread bytes leaves Len() = %d, len(Bytes()) = %d", left, bx.Len(), len(bx.Bytes()))
		}
		res.Class("script-after-reset")
	}
	var written []Op
	for i, o := range c.Ops {
		before := bx.Len()
		known, err := bufWrite(bx, o)
		if !known {
			res.Skip("unknown-op")
			continue
		}
		if o.K == "lstr" {
			over := uint64(len(o.B)) > uint64(o.L)
			if over != (err != nil) {
				return res.Failf("roundtrip/WriteLimitString", "op %d: WriteLimitString(limit=%d, len=%d) returned err=%v; an error is expected exactly when len > limit", i, o.L, len(o.B), err)
			}
			if err != nil {
				if bx.Len() != before {
					return res.Failf("roundtrip/WriteLimitString", "op %d: rejected WriteLimitString(limit=%d, len=%d) changed Len from %d to %d", i, o.L, len(o.B), before, bx.Len())
				}
				continue
			}
		}
		written = append(written, o)
	}
	complete := true
	var held keeper
	smallRawSeen := false
	for i, o := range written {
		got, err, _ := bufRead(bx, o)
		api := apiName(o)
		held.keep("BufferX", i, api, got, err)
		if err == nil {
			if smallRawSeen && usesScratch(o) {
				res.Class("raw<=8-then-fixed-width")
			}
			smallRawSeen = smallRawSeen || smallCopyRead(o)
		}
		if o.K == "lstr" && uint64(len(o.B)) > uint64(o.RL) {
			// the read limit is below the written length: the read must refuse
			res.Class("read-limit<len")
			if err == nil {
				return res.Failf("roundtrip/ReadLimitString", "read %d: ReadLimitString(limit=%d) of a written string of length %d returned %s without error", i, o.RL, len(o.B), got)
			}
			complete = false // what the buffer holds after a refused read is not specified
			break
		}
		if o.K == "bytes" && api == "ReadN" && len(o.B) == 0 {
			res.Skip("ReadN(0)-in-roundtrip")
			continue
		}
		if err != nil {
			return res.Failf("roundtrip/"+api, "read %d of %d (%s after writing %s): unexpected error %v", i, len(written), api, wantValue(o), err)
		}
		if want := wantValue(o); !sameValue(got, want) {
			return res.Failf("roundtrip/"+api, "read %d of %d: %s returned %s, written %s", i, len(written), api, got, want)
		}
	}
	if complete {
		if bx.Len() != 0 {
			return res.Failf("roundtrip/Len", "after reading back all %d written values Len() = %d, want 0", len(written), bx.Len())
		}
		// an empty buffer satisfies no further read
		if len(c.Ops) > 0 {
			probe := c.Ops[0]
			if probe.K != "bytes" && !(probe.K == "lstr") {
				if v, err, _ := bufRead(bx, probe); err == nil {
					return res.Failf("roundtrip/read-on-empty", "%s on the emptied buffer returned %s without error", apiName(probe), v)
				}
			}
		}
		res.Class("read-back-complete")
	}
	// whatever a copying read handed out belongs to the caller: it must still hold
	// the written value after all later reads and after trailing writes
	disturbBuffer(bx, c.Tail)
	if !held.check(res, "roundtrip") {
		return res
	}
	if len(held.items) > 0 {
		res.Class("retained-values-rechecked")
		if clampTail(c.Tail) >= 128<<10 {
			res.Class("retained-values-rechecked-after>=128KiB-traffic")
		}
	}
	nstr := classifyOps(res, written)
	res.NonTrivial = len(written) >= 3 && nstr >= 1
	return res
}

// ---------------------------------------------------------------------------
// part 2: ReWrite / ReWriteU32 against a byte-slice model of the unread region

type RwStep struct {
	K   string `json:"k"` // w (typed write W), r (consume N bytes), rw (ReWrite Pos,B), rw32 (ReWriteU32 Pos,U), reset (Reset())
	W   *Op    `json:"w,omitempty"`
	N   int    `json:"n,omitempty"`
	Cp  bool   `json:"cp,omitempty"` // r: consume with the copying ReadN (kept and re-examined at the end) instead of ZReadN
	Pos int    `json:"pos,omitempty"`
	B   []byte `json:"b,omitempty"`
	U   uint32 `json:"u,omitempty"`
}

type CaseRW struct {
	// 0 NewBufferX, 1 NewSizedBufferX(Size), 2 NewReadableBufferX(nil), 3 NewReadableBufferX(a private copy of Init):
	// the unread region starts as Init
	Ctor  int      `json:"ctor"`
	Size  int      `json:"size,omitempty"`
	Init  []byte   `json:"init,omitempty"`
	Steps []RwStep `json:"steps"`
}

// rwBigLens: raw fields that push later positions above 64 KiB.
var rwBigLens = []int64{1<<16 - 3, 1 << 16, 1<<16 + 1, 70000, 100000}

func genPos(t *rapid.T, room int, label string) int {
	// room = largest valid pos
	switch rapid.IntRange(0, 3).Draw(t, label+"k") {
	case 0:
		return 0
	case 1:
		return room
	default:
		return rapid.IntRange(0, room).Draw(t, label)
	}
}

func GenRW(t *rapid.T) CaseRW {
	c := CaseRW{Ctor: rapid.IntRange(0, 3).Draw(t, "ctor")}
	if c.Ctor == 1 {
		c.Size = rapid.SampledFrom([]int{0, 4, 8, 64}).Draw(t, "size")
	}
	length := 0 // model length of the unread region
	if c.Ctor == 3 {
		// a buffer made from existing bytes: they are the unread region
		if rapid.Bool().Draw(t, "inithdr") {
			c.Init = []byte{0, 0, 0, 0, 9, 9} // a zero header in received bytes
		} else {
			c.Init = patterned(t, rapid.SampledFrom([]int{1, 4, 5, 13, 40, 300, 1025}).Draw(t, "initlen"), "init")
		}
		length = len(c.Init)
	}
	n := rapid.IntRange(2, 12).Draw(t, "nsteps")
	for i := 0; i < n; i++ {
		kind := rapid.IntRange(0, 10).Draw(t, "stepkind")
		switch {
		case kind == 10 && i > 0 && length > 0:
			// Reset() in mid-script: the buffer must behave like a fresh one, rewrites included
			length = 0
			c.Steps = append(c.Steps, RwStep{K: "reset"})
		case kind <= 3 || kind == 10 || length == 0:
			var o Op
			switch {
			case i == 0 && rapid.Bool().Draw(t, "placeholder"):
				o = Op{K: "u32"} // the documented use: a zero header rewritten once the size is known
			case oneIn(t, 40, "bigw"):
				// a raw field of 64 KiB and more: the positions of later rewrites lie above 64 KiB
				o = Op{K: "bytes", Via: "zreadn", GN: rapid.SampledFrom(rwBigLens).Draw(t, "bigwn"), GS: rapid.Byte().Draw(t, "bigws")}
			default:
				o = genWriteOp(t, kindsAll, true)
			}
			if o.GN > 0 {
				length += int(bodyLen(o))
			} else {
				length += len(modelEncode(nil, o))
			}
			c.Steps = append(c.Steps, RwStep{K: "w", W: &o})
		case kind == 4:
			k := rapid.IntRange(0, length).Draw(t, "consume")
			length -= k
			c.Steps = append(c.Steps, RwStep{K: "r", N: k, Cp: rapid.Bool().Draw(t, "copyread")})
		case kind <= 7:
			maxLen := length
			if maxLen > 12 {
				maxLen = 12
			}
			l := rapid.IntRange(0, maxLen).Draw(t, "rwlen")
			switch rapid.IntRange(0, 7).Draw(t, "rwall") {
			case 0:
				l = length
				if l > 4096 {
					l = 4096
				}
			case 1, 2: // a patch longer than any fixed-width field
				if length >= 13 {
					l = rapid.IntRange(13, min(length, 200)).Draw(t, "rwlong")
				}
			}
			pos := genPos(t, length-l, "rwpos")
			b := rapid.SliceOfN(rapid.Byte(), l, l).Draw(t, "rwbytes")
			c.Steps = append(c.Steps, RwStep{K: "rw", Pos: pos, B: b})
		default:
			if length < 4 {
				o := Op{K: "u32", U: uint64(i)}
				length += 4
				c.Steps = append(c.Steps, RwStep{K: "w", W: &o})
				continue
			}
			pos := genPos(t, length-4, "rw32pos")
			c.Steps = append(c.Steps, RwStep{K: "rw32", Pos: pos, U: uint32(genBits(t, 32, "rw32v"))})
		}
	}
	return c
}

func firstDiff(a, b []byte) int {
	for i := 0; i < len(a) && i < len(b); i++ {
		if a[i] != b[i] {
			return i
		}
	}
	if len(a) != len(b) {
		if len(a) < len(b) {
			return len(a)
		}
		return len(b)
	}
	return -1
}

func ExecRW(c CaseRW) *vkit.Result {
	res := &vkit.Result{}
	var bx *bytex.BufferX
	var m []byte // model: the unread region
	if c.Ctor == 3 {
		// the buffer owns the slice it was made from (a private copy without spare capacity)
		bx = bytex.NewReadableBufferX(append(make([]byte, 0, len(c.Init)), c.Init...))
		m = append([]byte{}, c.Init...)
		if !bytes.Equal(bx.Bytes(), m) {
			return res.Failf("rewrite/ctor", "NewReadableBufferX over %d bytes: Bytes() = %x, want the bytes given", len(m), clip(bx.Bytes()))
		}
		res.Class("rewrite-buffer-from-existing-bytes")
	} else {
		bx = newBuffer(c.Ctor, c.Size)
		if c.Ctor == 2 {
			res.Class("rewrite-buffer-NewReadableBufferX(nil)")
		}
	}
	var held keeper
	effective, framed := 0, 0
	afterReset := false
	sync := func(site, what string) bool {
		got := bx.Bytes()
		if bx.Len() != len(m) || !bytes.Equal(got, m) {
			res.Failf(site, "%s: unread region differs from the byte-slice model at offset %d (Len %d, model %d)\n got  %x\n want %x", what, firstDiff(got, m), bx.Len(), len(m), clip(got), clip(m))
			return false
		}
		return true
	}
	for i, s := range c.Steps {
		switch s.K {
		case "w":
			if s.W == nil {
				res.Skip("malformed-step")
				continue
			}
			if known, _ := bufWrite(bx, expandOp(*s.W)); !known {
				res.Skip("unknown-op")
				continue
			}
			got := bx.Bytes()
			if len(got) < len(m) || !bytes.Equal(got[:len(m)], m) {
				return res.Failf("rewrite/write-disturbs", "step %d: a write changed bytes already in the buffer (first difference at %d)", i, firstDiff(got, m))
			}
			m = append(m, got[len(m):]...) // the encoding itself is judged by the other parts
		case "r":
			if s.N < 0 || s.N > len(m) {
				res.Skip("consume-outside-region")
				continue
			}
			var got []byte
			var err error
			api := "ZReadN"
			if s.Cp && s.N >= 1 {
				api = "ReadN"
				got, err = bx.ReadN(s.N)
				held.keep("BufferX", i, api, value{b: got, h: handle{raw: got}}, err)
			} else {
				got, err = bx.ZReadN(s.N)
			}
			if err != nil || !bytes.Equal(got, m[:s.N]) {
				return res.Failf("rewrite/"+api, "step %d: %s(%d) = %x, %v; model %x", i, api, s.N, clip(got), err, clip(m[:s.N]))
			}
			m = m[s.N:]
			res.Class("rewrite-after-consume")
		case "reset":
			bx.Reset()
			m = nil
			if bx.Len() != 0 || len(bx.Bytes()) != 0 {
				return res.Failf("rewrite/Reset", "step %d: after Reset() Len() = %d, len(Bytes()) = %d", i, bx.Len(), len(bx.Bytes()))
			}
			afterReset = true
		case "rw":
			if s.Pos < 0 || s.Pos+len(s.B) > len(m) {
				res.Skip("rewrite-outside-region")
				continue
			}
			if !bytes.Equal(m[s.Pos:s.Pos+len(s.B)], s.B) {
				effective++
			}
			if s.Pos > 0 || s.Pos+len(s.B) < len(m) {
				framed++
			}
			m = append([]byte{}, m...)
			copy(m[s.Pos:], s.B)
			p := append([]byte(nil), s.B...)
			bx.ReWrite(s.Pos, p)
			scribble(p) // the buffer must hold its own copy of the rewritten bytes
			if !sync("rewrite/ReWrite", fmt.Sprintf("step %d: ReWrite(pos=%d, %d bytes)", i, s.Pos, len(s.B))) {
				return res
			}
			switch {
			case len(s.B) == 0:
				res.Class("rewrite-empty")
			case s.Pos+len(s.B) == len(m):
				res.Class("rewrite-reaches-end")
			}
			if s.Pos == 0 {
				res.Class("rewrite-at-0")
			}
			if s.Pos > 0 && len(s.B) >= 13 && s.Pos+len(s.B) < len(m) {
				res.Class("rewrite-13-or-more-bytes-inside")
			}
			if s.Pos > 1<<16 {
				res.Class("rewrite-pos>64KiB")
			}
			if afterReset && len(s.B) > 0 {
				res.Class("rewrite-after-Reset")
			}
		case "rw32":
			if s.Pos < 0 || s.Pos+4 > len(m) {
				res.Skip("rewrite-outside-region")
				continue
			}
			old := append([]byte{}, m...)
			bx.ReWriteU32(s.Pos, s.U)
			got := bx.Bytes()
			if len(got) != len(old) || !bytes.Equal(got[:s.Pos], old[:s.Pos]) || !bytes.Equal(got[s.Pos+4:], old[s.Pos+4:]) {
				return res.Failf("rewrite/ReWriteU32", "step %d: ReWriteU32(pos=%d) changed bytes outside [pos,pos+4) or the length (%d -> %d)\n got  %x\n was  %x", i, s.Pos, len(old), len(got), clip(got), clip(old))
			}
			// the four addressed bytes must now read back as the value
			back, err := bytex.NewReadableBufferX(append([]byte{}, got[s.Pos:s.Pos+4]...)).ReadU32()
			if err != nil || back != s.U {
				return res.Failf("rewrite/ReWriteU32", "step %d: after ReWriteU32(pos=%d, %#x) the addressed bytes %x read back as %#x, %v", i, s.Pos, s.U, got[s.Pos:s.Pos+4], back, err)
			}
			if !bytes.Equal(old[s.Pos:s.Pos+4], got[s.Pos:s.Pos+4]) {
				effective++
			}
			if len(old) > 4 {
				framed++
			}
			m = append([]byte{}, got...)
			res.Class("rewrite-u32")
			if s.Pos > 1<<16 {
				res.Class("rewrite-pos>64KiB")
			}
			if afterReset {
				res.Class("rewrite-after-Reset")
			}
		default:
			res.Skip("unknown-step")
		}
	}
	// rewrites must survive until the bytes are consumed
	if !sync("rewrite/final", "end of script") {
		return res
	}
	rest, err := bx.ZReadN(len(m))
	if err != nil || !bytes.Equal(rest, m) || bx.Len() != 0 {
		return res.Failf("rewrite/final", "draining %d bytes: err=%v, Len now %d, first difference at %d", len(m), err, bx.Len(), firstDiff(rest, m))
	}
	// bytes taken out by the copying read are the caller's: later rewrites, writes and reads must not reach them
	disturbBuffer(bx, 0)
	if !held.check(res, "rewrite") {
		return res
	}
	if len(held.items) > 0 {
		res.Class("retained-values-rechecked")
	}
	res.NonTrivial = len(c.Steps) >= 3 && effective >= 1 && framed >= 1
	return res
}

func clip(b []byte) []byte {
	if len(b) > 64 {
		return b[:64]
	}
	return b
}

// ---------------------------------------------------------------------------
// part 3a: truncation at every byte of a valid encoding

type CaseTrunc struct {
	Ops []Op `json:"ops"`
	Cut int  `json:"cut"` // the reader gets the first Cut bytes of the encoding (clamped to its length)
}

func GenTrunc(t *rapid.T) CaseTrunc {
	var c CaseTrunc
	n := rapid.IntRange(1, 10).Draw(t, "nops")
	var bounds []int // model offsets of op starts
	total := 0
	for i := 0; i < n; i++ {
		o := genWriteOp(t, kindsAll, true)
		c.Ops = append(c.Ops, o)
		bounds = append(bounds, total)
		total += len(modelEncode(nil, o))
	}
	switch rapid.IntRange(0, 5).Draw(t, "cutkind") {
	case 0: // at an op boundary
		c.Cut = bounds[rapid.IntRange(0, n-1).Draw(t, "cutop")]
	case 1, 2, 3: // strictly inside an op (one that has an inside)
		var wide []int
		for i := 0; i < n; i++ {
			end := total
			if i+1 < n {
				end = bounds[i+1]
			}
			if end-bounds[i] >= 2 {
				wide = append(wide, i)
			}
		}
		if len(wide) == 0 {
			c.Cut = bounds[rapid.IntRange(0, n-1).Draw(t, "cutop")]
			break
		}
		i := rapid.SampledFrom(wide).Draw(t, "cutop")
		end := total
		if i+1 < n {
			end = bounds[i+1]
		}
		c.Cut = bounds[i] + rapid.IntRange(1, end-bounds[i]-1).Draw(t, "cutoff")
	case 4: // last byte missing
		c.Cut = total - 1
		if c.Cut < 0 {
			c.Cut = 0
		}
	default:
		c.Cut = rapid.IntRange(0, total).Draw(t, "cut")
	}
	return c
}

func ExecTrunc(c CaseTrunc) *vkit.Result {
	res := &vkit.Result{}
	w := bytex.NewBufferX()
	var ops []Op
	var ends []int // Len() after each accepted write: the op boundaries, as the code itself laid them out
	for _, o := range c.Ops {
		known, err := bufWrite(w, o)
		if !known {
			res.Skip("unknown-op")
			continue
		}
		if err != nil { // rejected limit write: nothing to read back
			res.Skip("write-rejected")
			continue
		}
		if o.K == "lstr" && uint64(o.RL) < uint64(len(o.B)) {
			o.RL = uint32(len(o.B)) // this part is about truncation, not about the read limit
		}
		if o.K == "bytes" && o.Via == "readn" && len(o.B) == 0 {
			o.Via = "zreadn"
		}
		ops = append(ops, o)
		ends = append(ends, w.Len())
	}
	enc := append([]byte{}, w.Bytes()...)
	cut := c.Cut
	if cut < 0 {
		cut = 0
	}
	if cut > len(enc) {
		cut = len(enc)
	}
	r := bytex.NewReadableBufferX(append([]byte{}, enc[:cut]...))
	start := 0
	sawFailure := false
	var held keeper
	for i, o := range ops {
		api := apiName(o)
		got, err, _ := bufRead(r, o)
		held.keep("BufferX", i, api, got, err)
		if ends[i] <= cut { // wholly present: must be returned
			if err != nil {
				return res.Failf("truncated/"+api+"/present", "read %d (%s, bytes [%d,%d) of %d, cut at %d): unexpected error %v", i, api, start, ends[i], len(enc), cut, err)
			}
			if want := wantValue(o); !sameValue(got, want) {
				return res.Failf("truncated/"+api+"/present", "read %d (%s, bytes [%d,%d), cut at %d) returned %s, written %s", i, api, start, ends[i], cut, got, want)
			}
		} else { // cannot be satisfied
			if err == nil {
				return res.Failf("truncated/"+api+"/value-without-data", "read %d (%s needs bytes [%d,%d) but the input ends at %d) returned %s without error", i, api, start, ends[i], cut, got)
			}
			sawFailure = true
			if cut > start {
				res.Class("cut-inside-" + classOfKind(o.K))
			} else {
				res.Class("cut-at-boundary")
			}
			break // what the buffer holds after a failed read is not specified
		}
		start = ends[i]
	}
	if !sawFailure {
		if r.Len() != 0 {
			return res.Failf("truncated/Len", "all %d values were present (cut %d of %d) but Len() = %d after reading them", len(ops), cut, len(enc), r.Len())
		}
		res.Class("nothing-cut")
	}
	disturbBuffer(r, 0)
	if !held.check(res, "truncated") {
		return res
	}
	nstr := classifyOps(res, ops)
	res.NonTrivial = len(ops) >= 3 && nstr >= 1 && cut > 0 && cut < len(enc)
	return res
}

func classOfKind(k string) string {
	switch {
	case isStr(k):
		return "string"
	case isVar(k):
		return "varint"
	case k == "bytes":
		return "raw"
	}
	return "fixed"
}

// ---------------------------------------------------------------------------
// part 3b: arbitrary bytes, arbitrary read script, against the model decoder

type CaseArb struct {
	Data  []byte  `json:"data"`
	Reads []Op    `json:"reads"`
	Big   *BigSeg `json:"big,omitempty"`
}

// BigSeg stands for a large body inside the payload without spelling it out:
// the input is Data with the N bytes of pattern(N, Seed) inserted at offset At
// (clamped to len(Data)).
type BigSeg struct {
	At   int   `json:"at"`
	N    int64 `json:"n"`
	Seed uint8 `json:"seed,omitempty"`
}

func (b *BigSeg) size() int {
	if b == nil || b.N <= 0 {
		return 0
	}
	return int(min(b.N, maxAlloc))
}

// splice returns a private copy of data with the large body inserted.
func splice(data []byte, b *BigSeg) []byte {
	n := b.size()
	if n == 0 {
		return append([]byte{}, data...)
	}
	at := min(max(b.At, 0), len(data))
	out := make([]byte, 0, len(data)+n)
	out = append(out, data[:at]...)
	out = append(out, pattern(int64(n), b.Seed)...)
	return append(out, data[at:]...)
}

var hostile = [][]byte{
	{0xff, 0xff, 0xff, 0xff}, {0x00, 0x00, 0x00, 0x80}, {0xff, 0xff, 0xff, 0x7f}, {0x01, 0x00, 0x10, 0x00}, {0x00, 0x00, 0x10, 0x00},
	{0xff, 0xff, 0xff, 0xff, 0xff, 0xff, 0xff, 0xff, 0xff, 0x01}, {0xff, 0xff, 0xff, 0xff, 0xff, 0xff, 0xff, 0xff, 0xff, 0x02},
	{0x80, 0x80, 0x80, 0x80, 0x80, 0x80, 0x80, 0x80, 0x80, 0x80, 0x80, 0x00}, {0x80, 0x00}, {0x80}, {0xff, 0xff, 0xff, 0xff, 0x1f},
	// varints of more than 64 bits: an 11th byte, a 10th byte above 1
	{0xff, 0xff, 0xff, 0xff, 0xff, 0xff, 0xff, 0xff, 0xff, 0xff, 0x7f}, {0xff, 0xff, 0xff, 0xff, 0xff, 0xff, 0xff, 0xff, 0xff, 0x7f},
	{0x80, 0x80, 0x80, 0x80, 0x80, 0x80, 0x80, 0x80, 0x80, 0x02},
}

// genReadOp draws a read that need not match anything written.
func genReadOp(t *rapid.T, kinds []string, remaining int) Op {
	k := rapid.IntRange(0, 9).Draw(t, "rkind")
	if k >= 3 {
		o := Op{K: rapid.SampledFrom(kinds).Draw(t, "kind")}
		if o.K == "lstr" {
			o.RL = rapid.SampledFrom([]uint32{0, 1, 2, 3, 8, 24, 255, 1 << 16, 1 << 20, 1<<20 + 1, math.MaxUint32}).Draw(t, "rl")
		}
		if o.K == "bytes" {
			o.K = "zreadn"
			o.N = int64(rapid.IntRange(0, 9).Draw(t, "n"))
		}
		return o
	}
	o := Op{K: rapid.SampledFrom([]string{"read", "readn", "zreadn"}).Draw(t, "rawkind")}
	switch rapid.IntRange(0, 7).Draw(t, "nkind") {
	case 0:
		o.N = -1
	case 1, 2:
		o.N = 0
	case 3:
		o.N = 1
	case 4:
		o.N = int64(remaining)
	case 5:
		o.N = int64(remaining) + 1
	default:
		o.N = int64(rapid.IntRange(0, 12).Draw(t, "n"))
	}
	if o.K == "read" && o.N < 0 {
		o.N = 0
	}
	return o
}

// readOf turns a written op into the read that matches it.
func readOf(o Op) Op {
	if o.K == "bytes" {
		return Op{K: map[string]string{"read": "read", "readn": "readn", "zreadn": "zreadn", "": "zreadn"}[o.Via], N: bodyLen(o)}
	}
	r := Op{K: o.K}
	if o.K == "lstr" {
		r.RL = o.RL
	}
	return r
}

// genPayload draws (payload, matching read script) from a write script. One
// payload in bigOdds holds an intact large string or raw field; its body is
// returned as a BigSeg, data holds everything else (fieldStarts are offsets in
// the spliced payload).
func genPayload(t *rapid.T, kinds []string, maxOps int) ([]byte, []Op, []int, *BigSeg) {
	var data []byte
	var reads []Op
	var fieldStarts []int // offsets of fixed-width fields wider than one byte (incl. string prefixes)
	var big *BigSeg
	n := rapid.IntRange(0, maxOps).Draw(t, "nops")
	bigAt := -1
	if n > 0 && oneIn(t, bigOdds, "big") {
		bigAt = rapid.IntRange(0, n-1).Draw(t, "bigpos")
	}
	for i := 0; i < n; i++ {
		if i == bigAt {
			o := genBigOp(t)
			if isStr(o.K) {
				fieldStarts = append(fieldStarts, len(data))
				data = binary.LittleEndian.AppendUint32(data, uint32(o.GN))
			}
			big = &BigSeg{At: len(data), N: o.GN, Seed: o.GS}
			reads = append(reads, readOf(o))
			continue
		}
		o := genWriteOp(t, kinds, false)
		if o.K == "lstr" && uint64(len(o.B)) > uint64(o.L) {
			o.L = uint32(len(o.B))
		}
		if fixedWidth[o.K] > 1 || isStr(o.K) {
			fieldStarts = append(fieldStarts, len(data)+big.size())
		}
		data = modelEncode(data, o)
		reads = append(reads, readOf(o))
	}
	return data, reads, fieldStarts, big
}

func mutateBytes(t *rapid.T, data []byte) []byte {
	data = append([]byte{}, data...)
	for i, k := 0, rapid.IntRange(1, 3).Draw(t, "nmut"); i < k; i++ {
		switch rapid.IntRange(0, 5).Draw(t, "mut") {
		case 0: // truncate
			data = data[:rapid.IntRange(0, len(data)).Draw(t, "trunc")]
		case 1: // overwrite with a hostile constant
			h := rapid.SampledFrom(hostile).Draw(t, "hostile")
			pos := rapid.IntRange(0, len(data)).Draw(t, "hpos")
			data = append(data[:pos:pos], append(append([]byte{}, h...), data[min(len(data), pos+len(h)):]...)...)
		case 2: // insert
			pos := rapid.IntRange(0, len(data)).Draw(t, "ipos")
			ins := rapid.SliceOfN(rapid.Byte(), 1, 4).Draw(t, "ins")
			data = append(data[:pos:pos], append(ins, data[pos:]...)...)
		case 3: // delete
			if len(data) > 0 {
				pos := rapid.IntRange(0, len(data)-1).Draw(t, "dpos")
				data = append(data[:pos:pos], data[pos+1:]...)
			}
		case 4: // flip a byte
			if len(data) > 0 {
				pos := rapid.IntRange(0, len(data)-1).Draw(t, "fpos")
				data[pos] ^= byte(1 << uint(rapid.IntRange(0, 7).Draw(t, "fbit")))
			}
		default: // append garbage
			data = append(data, rapid.SliceOfN(rapid.Byte(), 1, 12).Draw(t, "tail")...)
		}
	}
	return data
}

func genDataAndReads(t *rapid.T, kinds []string) ([]byte, []Op, []int, *BigSeg, string) {
	data, reads, fields, big := genPayload(t, kinds, 10)
	shape := "valid"
	switch rapid.IntRange(0, 9).Draw(t, "shape") {
	case 0, 1, 2, 3: // valid encoding, matching script
	case 4, 5: // damaged encoding, matching script
		data = mutateBytes(t, data)
		shape = "damaged"
	case 6: // valid encoding, foreign script
		reads = nil
		shape = "foreign-script"
	case 7: // hostile constants
		data = nil
		for i, k := 0, rapid.IntRange(1, 3).Draw(t, "nhost"); i < k; i++ {
			data = append(data, rapid.SampledFrom(hostile).Draw(t, "hostile")...)
		}
		data = append(data, rapid.SliceOfN(rapid.Byte(), 0, 8).Draw(t, "tail")...)
		reads = nil
		fields = nil
		big = nil
		shape = "hostile"
	default: // random bytes
		data = rapid.SliceOfN(rapid.Byte(), 0, 40).Draw(t, "random")
		reads = nil
		fields = nil
		big = nil
		shape = "random"
	}
	if reads == nil {
		for i, k := 0, rapid.IntRange(1, 10).Draw(t, "nreads"); i < k; i++ {
			reads = append(reads, genReadOp(t, kinds, len(data)+big.size()))
		}
	} else {
		// sprinkle reads that take nothing, and ask for more than there is at the end
		if rapid.IntRange(0, 2).Draw(t, "sprinkle") == 2 {
			pos := rapid.IntRange(0, len(reads)).Draw(t, "zpos")
			z := Op{K: rapid.SampledFrom([]string{"zreadn", "read"}).Draw(t, "zkind")}
			reads = append(reads[:pos:pos], append([]Op{z}, reads[pos:]...)...)
		}
		if rapid.IntRange(0, 2).Draw(t, "beyond") == 2 {
			reads = append(reads, genReadOp(t, kinds, 0))
		}
	}
	return data, reads, fields, big, shape
}

func GenArb(t *rapid.T) CaseArb {
	data, reads, _, big, _ := genDataAndReads(t, kindsAll)
	return CaseArb{Data: data, Reads: reads, Big: big}
}

// expectation of the model decoder for one read at rem (the unread bytes)
const (
	expValue     = iota // satisfiable: this value, consuming n bytes
	expError            // cannot be satisfied: must report an error
	expOpen             // the statement leaves it open (accept anything but a panic), then stop
	expOpenValue        // satisfiable, value not asserted (oversize varint through a 32-bit reader), consuming n
)

func modelRead(rem []byte, o Op) (exp int, want value, n int) {
	switch {
	case fixedWidth[o.K] > 0:
		w := fixedWidth[o.K]
		if len(rem) < w {
			return expError, value{}, 0
		}
		var u uint64
		for i := w - 1; i >= 0; i-- {
			u = u<<8 | uint64(rem[i])
		}
		switch o.K {
		case "bool":
			if u > 1 {
				return expOpenValue, value{}, 1 // only 0 and 1 are ever written
			}
		case "i16":
			u = uint64(int64(int16(u)))
		case "i32":
			u = uint64(int64(int32(u)))
		}
		return expValue, value{u: u}, w
	case isVar(o.K):
		u, used, st := modelUvarint(rem)
		switch st {
		case vTruncated:
			return expError, value{}, 0
		case vOverflow:
			// more than 64 bits: the bytes denote no value of any of the four varint types. The library reads varints
			// with encoding/binary.ReadUvarint / ReadVarint, which document an overflow error here; it is demanded only
			// where encoding/binary.Uvarint itself refuses the same bytes (n <= 0: overflow, or the input ends first)
			if _, bn := binary.Uvarint(rem); bn <= 0 {
				return expError, value{}, 0
			}
			return expOpen, value{}, 0
		}
		switch o.K {
		case "vu64":
			return expValue, value{u: u}, used
		case "vi64":
			return expValue, value{u: uint64(unzigzag(u))}, used
		case "vu32":
			if u > math.MaxUint32 {
				return expOpenValue, value{}, used
			}
			return expValue, value{u: u}, used
		default:
			v := unzigzag(u)
			if v > math.MaxInt32 || v < math.MinInt32 {
				return expOpenValue, value{}, used
			}
			return expValue, value{u: uint64(v)}, used
		}
	case isStr(o.K):
		if len(rem) < 4 {
			return expError, value{}, 0
		}
		l := uint64(binary.LittleEndian.Uint32(rem))
		if o.K == "lstr" && l > uint64(o.RL) {
			return expError, value{}, 0
		}
		if uint64(len(rem)-4) < l {
			return expError, value{}, 0
		}
		return expValue, value{b: append([]byte{}, rem[4:4+l]...)}, 4 + int(l)
	case o.K == "read" || o.K == "readn" || o.K == "zreadn" || o.K == "bytes":
		l := readLen(o)
		if l < 0 {
			return expError, value{}, 0
		}
		if l == 0 && apiName(o) == "ReadN" {
			return expOpen, value{}, 0 // ReadN(0): refusing and returning nothing are both acceptable
		}
		if int64(len(rem)) < l {
			return expError, value{}, 0
		}
		return expValue, value{b: append([]byte{}, rem[:l]...)}, int(l)
	}
	return expOpen, value{}, 0
}

func ExecArb(c CaseArb) *vkit.Result {
	res := &vkit.Result{}
	data := splice(c.Data, c.Big)
	if c.Big.size() >= 1<<16-1 {
		res.Class("payload-with-field>=64KiB-1")
	}
	bx := bytex.NewReadableBufferX(append([]byte{}, data...))
	off := 0
	executed, strReads := 0, 0
	stopped := false
	var held keeper
	for i, o := range c.Reads {
		if l := readLen(o); l > maxAlloc || (o.K == "read" && l < 0) {
			res.Skip("read-size-out-of-bounds")
			continue
		}
		exp, want, n := modelRead(data[off:], o)
		got, err, known := bufRead(bx, o)
		if !known {
			res.Skip("unknown-op")
			continue
		}
		api := apiName(o)
		held.keep("BufferX", i, api, got, err)
		executed++
		if isStr(o.K) {
			strReads++
		}
		switch exp {
		case expError:
			if err == nil {
				return res.Failf("arbitrary/"+api+"/value-without-data", "read %d: %s at offset %d of %d bytes (%x…) cannot be satisfied but returned %s without error", i, api, off, len(data), clip(data[off:]), got)
			}
			res.Class("unsatisfiable-" + classOfKind(o.K))
			if isVar(o.K) {
				if _, _, st := modelUvarint(data[off:]); st == vOverflow {
					res.Class("varint>64bit-refused")
				}
			}
			if rem := data[off:]; o.K == "lstr" && len(rem) >= 4 && uint64(binary.LittleEndian.Uint32(rem)) > uint64(o.RL) {
				res.Class("prefix>read-limit")
			}
			stopped = true
		case expOpen:
			res.Skip("open-corner-" + api)
			stopped = true
		case expOpenValue:
			if err != nil {
				return res.Failf("arbitrary/"+api+"/unexpected-error", "read %d: %s at offset %d has its %d bytes (%x) but returned error %v", i, api, off, n, data[off:off+n], err)
			}
			res.Skip("value-not-asserted-" + api)
			off += n
		default:
			if err != nil {
				return res.Failf("arbitrary/"+api+"/unexpected-error", "read %d: %s at offset %d has its %d bytes (%x) but returned error %v", i, api, off, n, clip(data[off:off+n]), err)
			}
			if !sameValue(got, want) {
				return res.Failf("arbitrary/"+api+"/value", "read %d: %s at offset %d over %x returned %s, the format denotes %s", i, api, off, clip(data[off:off+n]), got, want)
			}
			off += n
		}
		if stopped {
			break
		}
	}
	if !stopped {
		if bx.Len() != len(data)-off {
			return res.Failf("arbitrary/Len", "after %d successful reads consuming %d of %d bytes Len() = %d", executed, off, len(data), bx.Len())
		}
		res.Class("script-completed")
	}
	disturbBuffer(bx, 0)
	if !held.check(res, "arbitrary") {
		return res
	}
	res.NonTrivial = executed >= 3 && strReads >= 1
	return res
}

// ---------------------------------------------------------------------------
// part 4: ReaderX over any chunking == BufferX

// Chunking describes how the source io.Reader fragments the payload: the sizes
// in Plan are delivered in turn and cyclically (a Read never returns more than
// the rest of the current chunk, so chunk boundaries are absolute stream
// offsets); size 0 is a Read that returns (0, nil). An empty or all-zero plan
// delivers everything at once. EOFWithLast makes the read that delivers the
// last byte return io.EOF together with the data, as io.Reader permits.
//
// ZeroRun > 0: when the stream stands at offset ZeroAt the source answers
// ZeroRun consecutive Reads with (0, nil) - once, not per plan cycle - before it
// goes on (io.Reader allows it; the data still arrives).
//
// Src selects the io.Reader handed to NewReaderX: "" the harness's chunkReader,
// "bytes.Buffer", "bytes.Reader", "strings.Reader" (standard-library sources
// over the same bytes; Plan, ZeroRun and EOFWithLast do not apply), "bufio16"
// (bufio.NewReaderSize(chunkReader, 16)), "onebyte" (iotest.OneByteReader over
// the chunkReader), "dataerr" (iotest.DataErrReader over the chunkReader, which then never
// combines data with io.EOF itself: DataErrReader would lose such bytes).
type Chunking struct {
	Plan        []int  `json:"plan"`
	EOFWithLast bool   `json:"eof_with_last,omitempty"`
	ZeroAt      int    `json:"zero_at,omitempty"`
	ZeroRun     int    `json:"zero_run,omitempty"`
	Src         string `json:"src,omitempty"`
}

type CaseDiff struct {
	Data  []byte   `json:"data"`
	Reads []Op     `json:"reads"`
	Chunk Chunking `json:"chunk"`
	Big   *BigSeg  `json:"big,omitempty"` // a large body inside Data, see BigSeg
	// Tail: bytes of further traffic on both readers (more stream data read by ReadN in varied sizes, a write and
	// copying reads on the buffer) before the retained values are re-examined; 0 = a few dozen bytes
	Tail int `json:"tail,omitempty"`
}

var srcNames = []string{"", "bytes.Buffer", "bytes.Reader", "strings.Reader", "bufio16", "onebyte", "dataerr"}

// chunkBased: the source is the chunkReader or a wrapper around it.
func chunkBased(src string) bool {
	return src == "" || src == "bufio16" || src == "onebyte" || src == "dataerr"
}

// newSource builds the io.Reader of a differential case. extend appends more
// stream data after the script (allAtOnce: delivered unfragmented).
func newSource(data []byte, ch Chunking) (rd io.Reader, cr *chunkReader, extend func(tail []byte, allAtOnce bool), known bool) {
	known = true
	switch ch.Src {
	case "bytes.Buffer":
		b := bytes.NewBuffer(data)
		return b, nil, func(tail []byte, _ bool) { _, _ = b.Write(tail) }, true
	case "bytes.Reader":
		r := bytes.NewReader(data)
		return r, nil, func(tail []byte, _ bool) { r.Reset(tail) }, true
	case "strings.Reader":
		r := strings.NewReader(string(data))
		return r, nil, func(tail []byte, _ bool) { r.Reset(string(tail)) }, true
	}
	if ch.Src == "dataerr" {
		// iotest.DataErrReader drops the bytes its source returns together with an error (it breaks out of its loop
		// before copying them): under it the chunkReader reports io.EOF separately
		ch.EOFWithLast = false
	}
	cr = newChunkReader(data, ch)
	extend = func(tail []byte, allAtOnce bool) {
		cr.data = append(cr.data, tail...)
		if allAtOnce {
			cr.plan, cr.pi, cr.left = []int{math.MaxInt32}, 0, 0
		}
	}
	switch ch.Src {
	case "":
		rd = cr
	case "bufio16":
		rd = bufio.NewReaderSize(cr, 16)
	case "onebyte":
		rd = iotest.OneByteReader(cr)
	case "dataerr":
		rd = iotest.DataErrReader(cr)
	default:
		rd, known = cr, false
	}
	return rd, cr, extend, known
}

type chunkReader struct {
	data   []byte
	off    int
	plan   []int
	pi     int
	left   int // rest of the current chunk
	inited bool
	eofTog bool
	calls  int
	// a single run of zeroRun (0, nil) answers at stream offset zeroAt
	zeroAt, zeroRun int
	zeroSeen        int // how many of them a Read with len(p) > 0 received
	streak          int // consecutive zero-length answers out of the plan
}

func newChunkReader(data []byte, ch Chunking) *chunkReader {
	r := &chunkReader{data: data, eofTog: ch.EOFWithLast, zeroAt: ch.ZeroAt, zeroRun: max(ch.ZeroRun, 0)}
	sum := 0
	for _, k := range ch.Plan {
		if k > 0 {
			sum += k
		}
	}
	if sum > 0 {
		for _, k := range ch.Plan {
			if k < 0 {
				k = 0
			}
			r.plan = append(r.plan, k)
		}
	} else {
		// leading zero-length reads are kept, then everything at once
		for range ch.Plan {
			r.plan = append(r.plan, 0)
		}
		r.plan = append(r.plan, math.MaxInt32)
	}
	return r
}

func (r *chunkReader) Read(p []byte) (int, error) {
	r.calls++
	if len(p) == 0 {
		return 0, nil
	}
	if r.zeroRun > 0 && r.off == r.zeroAt {
		r.zeroRun--
		r.zeroSeen++
		return 0, nil
	}
	if r.off >= len(r.data) {
		return 0, io.EOF
	}
	if r.left == 0 {
		k := r.plan[r.pi%len(r.plan)]
		r.pi++
		if k == 0 {
			if r.streak++; r.streak > 1<<20 {
				panic("chunkReader: runaway zero-length reads")
			}
			return 0, nil
		}
		r.left = k
	}
	r.streak = 0
	n := min(r.left, len(p), len(r.data)-r.off)
	copy(p, r.data[r.off:r.off+n])
	r.off += n
	r.left -= n
	if r.off == len(r.data) && r.eofTog {
		return n, io.EOF
	}
	return n, nil
}

// boundaries returns the predicate "b is an absolute chunk boundary inside
// (0, total)": the plan is cyclic, so b is one iff b modulo the plan's sum is a
// partial sum of the plan.
func (ch Chunking) boundaries(total int) func(b int) bool {
	sum := 0
	for _, k := range ch.Plan {
		if k > 0 {
			sum += k
		}
	}
	if sum == 0 {
		return func(int) bool { return false }
	}
	partial := map[int]bool{}
	pos := 0
	for _, k := range ch.Plan {
		if k > 0 {
			pos += k
			partial[pos%sum] = true
		}
	}
	return func(b int) bool { return b > 0 && b < total && partial[b%sum] }
}

func genChunking(t *rapid.T, total int, fields []int) (Chunking, string) {
	var ch Chunking
	mode := ""
	switch rapid.IntRange(0, 9).Draw(t, "chunkmode") {
	case 0, 1:
		ch.Plan, mode = []int{1}, "one-byte"
	case 2:
		ch.Plan, mode = []int{total + 1}, "all-at-once"
	case 3:
		ch.Plan, mode = []int{rapid.SampledFrom([]int{2, 3, 5, 7, 8}).Draw(t, "chunkk")}, "fixed-k"
	case 4, 5, 6: // boundaries aimed inside fixed-width fields
		if len(fields) > 0 {
			idx := rapid.SliceOfNDistinct(rapid.IntRange(0, len(fields)-1), 1, min(4, len(fields)), rapid.ID[int]).Draw(t, "cutfields")
			sortInts(idx)
			pos := 0
			for _, fi := range idx {
				b := fields[fi] + rapid.IntRange(1, 3).Draw(t, "cutin") // 1..3 splits any field of width >= 4; width 2 at +1
				if fields[fi]+2 <= total && rapid.Bool().Draw(t, "cutat1") {
					b = fields[fi] + 1
				}
				if b > pos {
					ch.Plan = append(ch.Plan, b-pos)
					pos = b
				}
			}
			ch.Plan = append(ch.Plan, 1<<30)
			mode = "aimed"
			break
		}
		fallthrough
	default:
		ch.Plan = rapid.SliceOfN(rapid.IntRange(1, 9), 1, 12).Draw(t, "chunkplan")
		mode = "random-splits"
	}
	if rapid.IntRange(0, 2).Draw(t, "zeros") == 2 {
		// interleave zero-length reads
		for i, k := 0, rapid.IntRange(1, 3).Draw(t, "nzeros"); i < k; i++ {
			pos := rapid.IntRange(0, len(ch.Plan)).Draw(t, "zeropos")
			ch.Plan = append(ch.Plan[:pos:pos], append([]int{0}, ch.Plan[pos:]...)...)
		}
	}
	ch.EOFWithLast = rapid.IntRange(0, 5).Draw(t, "eofwithlast") == 5
	if oneIn(t, 20, "zerorun") {
		// a long run of reads that deliver nothing before the data goes on: longer than the 100 empty reads after
		// which bufio gives up
		ch.ZeroRun = rapid.IntRange(150, 300).Draw(t, "zerorunlen")
		ch.ZeroAt = rapid.IntRange(0, total).Draw(t, "zeroat")
		if rapid.Bool().Draw(t, "zeroat0") {
			ch.ZeroAt = 0
		}
	}
	if k := rapid.IntRange(0, 11).Draw(t, "src"); k >= 6 {
		ch.Src = srcNames[k-5]
	}
	return ch, mode
}

func sortInts(a []int) {
	for i := 1; i < len(a); i++ {
		for j := i; j > 0 && a[j] < a[j-1]; j-- {
			a[j], a[j-1] = a[j-1], a[j]
		}
	}
}

func GenDiff(t *rapid.T) CaseDiff {
	data, reads, fields, big, _ := genDataAndReads(t, kindsCommon)
	ch, _ := genChunking(t, len(data)+big.size(), fields)
	if big.size() > 0 && rapid.Bool().Draw(t, "bigchunks") {
		// large payload: fragments of a size that matters for it, half of the time
		ch.Plan = []int{rapid.SampledFrom([]int{4095, 4096, 1<<16 - 1, 1 << 16, 100000}).Draw(t, "bigchunk")}
	}
	c := CaseDiff{Data: data, Reads: reads, Chunk: ch, Big: big}
	if c.Tail = genTail(t); ch.Src == "onebyte" {
		c.Tail = 0 // a few hundred KiB one byte per Read: too slow for what it adds
	}
	return c
}

func chunkClass(ch Chunking, total int) string {
	nz, zeros := 0, 0
	first := 0
	allSame := true
	for _, k := range ch.Plan {
		if k <= 0 {
			zeros++
			continue
		}
		if nz == 0 {
			first = k
		} else if k != first {
			allSame = false
		}
		nz++
	}
	switch {
	case nz == 0:
		return "chunk-all-at-once"
	case allSame && first == 1:
		return "chunk-one-byte"
	case allSame && first >= total:
		return "chunk-all-at-once"
	case allSame:
		return "chunk-fixed-k"
	}
	return "chunk-varied"
}

func ExecDiff(c CaseDiff) *vkit.Result {
	res := &vkit.Result{}
	if len(c.Data) > 1<<16 || len(c.Chunk.Plan) > 1<<12 {
		res.Skip("case-too-large")
		return res
	}
	if c.Chunk.ZeroRun > 1<<16 {
		res.Skip("case-too-large")
		return res
	}
	data := splice(c.Data, c.Big)
	if c.Big.size() >= 1<<16-1 {
		res.Class("payload-with-field>=64KiB-1")
	}
	bx := bytex.NewReadableBufferX(append([]byte{}, data...))
	src, cr, extend, knownSrc := newSource(append([]byte{}, data...), c.Chunk)
	if !knownSrc {
		res.Skip("unknown-source")
	}
	rx := bytex.NewReaderX(src)
	bounds := func(int) bool { return false }
	if cr != nil {
		bounds = c.Chunk.boundaries(len(data))
		res.Class(chunkClass(c.Chunk, len(data)))
		for _, k := range c.Chunk.Plan {
			if k <= 0 {
				res.Class("zero-length-reads")
				break
			}
		}
		if c.Chunk.EOFWithLast && c.Chunk.Src != "dataerr" {
			res.Class("eof-with-last-bytes")
		}
	}
	if c.Chunk.Src != "" && knownSrc {
		res.Class("source-" + c.Chunk.Src)
	}
	executed, strReads, splitFixed := 0, 0, false
	var held keeper
	smallRawSeen := false
	// finish: the retained results of both readers are re-examined after the
	// script and after further traffic (trailing writes on the buffer, more
	// stream data for the reader)
	finish := func() *vkit.Result {
		if cr != nil && cr.zeroSeen >= 150 {
			res.Class("zero-length-reads-run>=150")
		}
		tail := clampTail(c.Tail)
		disturbBuffer(bx, tail)
		if tail == 0 {
			extend(bytes.Repeat([]byte{0xee}, 24), false)
			_, _ = rx.ReadN(8)
			_, _ = rx.ReadU64()
			_, _ = rx.ReadN(3)
		} else {
			extend(pattern(int64(tail), 0x5b), true)
			readTraffic(tail, rx.ReadN)
		}
		if held.check(res, "diff") && len(held.items) > 0 {
			res.Class("retained-values-rechecked")
			if tail >= 128<<10 {
				res.Class("retained-values-rechecked-after>=128KiB-traffic")
			}
		}
		return res
	}
	for i, o := range c.Reads {
		if o.K == "bytes" {
			o = readOf(o)
		}
		if isVar(o.K) {
			res.Skip("varint-not-in-ReaderX")
			continue
		}
		if l := readLen(o); l > maxAlloc || (o.K == "read" && l < 0) {
			res.Skip("read-size-out-of-bounds")
			continue
		}
		rem := bx.Bytes()
		off := len(data) - len(rem)
		if isStr(o.K) && len(rem) >= 4 {
			// guard: the stream reader allocates what the prefix says (up to 4 GiB)
			if l := binary.LittleEndian.Uint32(rem); l > maxAlloc && (o.K == "str" || l <= o.RL) {
				res.Skip("string-prefix>1MiB")
				continue
			}
		}
		vb, eb, known := bufRead(bx, o)
		if !known {
			res.Skip("unknown-op")
			continue
		}
		vr, er, _ := rdRead(rx, o)
		api := apiName(o)
		held.keep("BufferX", i, api, vb, eb)
		held.keep("ReaderX", i, api, vr, er)
		if api == "ReadU8" {
			api = "ReadU8|ReadByte"
		}
		executed++
		if isStr(o.K) {
			strReads++
		}
		if (eb != nil) != (er != nil) {
			return res.Failf("diff/"+api, "read %d: %s at offset %d of %d bytes (%x…), source %s: BufferX returned (%s, err=%v) but ReaderX returned (%s, err=%v)", i, describe(o), off, len(data), clip(rem), c.Chunk.describe(), vb, eb, vr, er)
		}
		if eb != nil {
			res.Class("first-error-agrees")
			if readLen(o) <= 0 && !isStr(o.K) && fixedWidth[o.K] == 0 {
				res.Class("n<=0-refused")
			}
			break // what either reader holds after a failed read is not specified
		}
		if !sameValue(vb, vr) {
			return res.Failf("diff/"+api, "read %d: %s at offset %d, source %s: BufferX decoded %s, ReaderX decoded %s", i, describe(o), off, c.Chunk.describe(), vb, vr)
		}
		if smallRawSeen && usesScratch(o) {
			res.Class("raw<=8-then-fixed-width")
		}
		smallRawSeen = smallRawSeen || smallCopyRead(o)
		end := len(data) - bx.Len()
		// was a fixed-width field of this read split by the source?
		fw := fixedWidth[o.K]
		if isStr(o.K) {
			fw = 4
			if len(vb.b) == 0 {
				res.Class("empty-string-read")
			}
		}
		for b := off + 1; b < off+fw && b < end+1; b++ {
			if bounds(b) {
				splitFixed = true
				res.Class("split-inside-fixed-width")
			}
		}
		if fw == 0 && readLen(o) == 0 {
			res.Class("zero-length-read-op")
		}
		if i == len(c.Reads)-1 {
			res.Class("script-completed")
		}
	}
	res.NonTrivial = executed >= 3 && strReads >= 1 && (splitFixed || cr == nil)
	return finish()
}

func (ch Chunking) describe() string {
	if !chunkBased(ch.Src) {
		return ch.Src
	}
	s := fmt.Sprintf("plan %v", ch.Plan)
	if ch.Src != "" {
		s = ch.Src + " over " + s
	}
	if ch.ZeroRun > 0 {
		s += fmt.Sprintf(", %d reads of (0, nil) at stream offset %d", ch.ZeroRun, ch.ZeroAt)
	}
	if ch.EOFWithLast && ch.Src != "dataerr" {
		s += ", io.EOF with the last bytes"
	}
	return s
}

func describe(o Op) string {
	switch o.K {
	case "lstr":
		return fmt.Sprintf("ReadLimitString(%d)", o.RL)
	case "read":
		return fmt.Sprintf("Read(p) with len(p)=%d", o.N)
	case "readn":
		return fmt.Sprintf("ReadN(%d)", o.N)
	case "zreadn":
		return fmt.Sprintf("ZReadN(%d)", o.N)
	}
	return apiName(o)
}

// ---------------------------------------------------------------------------
// data-provider layer of the native fuzz target: fuzz bytes -> (read script, chunking)

type provider struct {
	b []byte
	i int
}

func (p *provider) more() bool { return p.i < len(p.b) }
func (p *provider) byte() byte {
	if p.i >= len(p.b) {
		return 0
	}
	c := p.b[p.i]
	p.i++
	return c
}
func (p *provider) u32() uint32 {
	return uint32(p.byte()) | uint32(p.byte())<<8 | uint32(p.byte())<<16 | uint32(p.byte())<<24
}

var fuzzKinds = []string{"bool", "u8", "u16", "i16", "u32", "i32", "u64", "i64", "f64", "str", "lstr", "read", "readn", "zreadn"}

// DecodeScript reads one op per 1..5 bytes: kind, then the argument the kind needs.
func DecodeScript(b []byte) []Op {
	p := &provider{b: b}
	var ops []Op
	for p.more() && len(ops) < 64 {
		o := Op{K: fuzzKinds[int(p.byte())%len(fuzzKinds)]}
		switch o.K {
		case "lstr":
			switch a := p.byte(); {
			case a < 0xf0:
				o.RL = uint32(a)
			case a == 0xff:
				o.RL = math.MaxUint32
			default:
				o.RL = p.u32()
			}
		case "read", "readn", "zreadn":
			a := p.byte()
			o.N = int64(a) - 2 // -2 .. 253
			if a == 0xff {
				o.N = int64(p.u32() % 8192)
			}
			if o.K == "read" && o.N < 0 {
				o.N = 0
			}
		}
		ops = append(ops, o)
	}
	return ops
}

// DecodeChunking: first byte = flags (bit0 eof-with-last, bits 1-3 the kind of source, bit 4 a long run of
// zero-length reads whose length and offset follow), then one chunk size per byte.
func DecodeChunking(b []byte) Chunking {
	p := &provider{b: b}
	var ch Chunking
	flags := p.byte()
	ch.EOFWithLast = flags&1 == 1
	ch.Src = srcNames[int(flags>>1&7)%len(srcNames)]
	if flags&16 != 0 {
		ch.ZeroRun = 101 + int(p.byte())
		ch.ZeroAt = int(p.byte())
	}
	for p.more() && len(ch.Plan) < 64 {
		ch.Plan = append(ch.Plan, int(p.byte()%16))
	}
	return ch
}

// ---------------------------------------------------------------------------

var PartRT = &vkit.Part[CaseRT]{
	Property: Property, Name: "roundtrip",
	Rule:  "rapid: a script of 1-14 typed writes (bool,u8,u16/i16,u32/i32,u64/i64,varU32/I32/U64/I64,f64 from raw bits incl. NaN payloads/+-Inf/-0, string incl. \"\" / non-UTF-8 / >1 KiB, limit-string with write and read limit </=/> len, raw bytes read back by Read/ReadN/ZReadN) with boundary values on NewBufferX/NewSizedBufferX/NewReadableBufferX(nil); the same reads must return the written values bit for bit, then Len()==0 and a further read fails; WriteLimitString errs exactly when len>limit and then writes nothing; raw fields are 1..8 bytes read by ReadN two times out of three, and every slice/string handed out by a copying read (ReadN, the p of Read(p), ReadString/ReadLimitString; not ZReadN, which is documented as no-copy) is kept and compared again at the end of the script, after all later reads and after trailing writes and reads on the same buffer (one case in ~150: 128-320 KiB of further traffic, a write and copying reads of varied sizes, comes first). String and raw lengths also sweep 0..300 and 2^k-1, 2^k, 2^k+1 for k = 5..12; one case in ~250 holds an intact string / limit-string / raw field of 64 KiB-1, 64 KiB, 64 KiB+1, 100-400 KiB or 1 MiB-16..1 MiB (kept in the case as length + seed of a generated body). Every []byte passed to Write is a private slice that is overwritten right after the call; the reads are compared with the original (the buffer must have copied it). Non-trivial: >= 3 accepted writes with >= 1 string; distinct = distinct case JSON",
	Quick: 60000, Thorough: 150000,
	Gen: GenRT, Exec: ExecRT,
}

var PartRW = &vkit.Part[CaseRW]{
	Property: Property, Name: "rewrite",
	Rule:  "rapid: 2-12 steps of typed write / consume k bytes / ReWrite(pos,bytes) / ReWriteU32(pos,v) with pos and length inside the unread region (0, end, random; whole region; empty), folded over the model length; after every rewrite Bytes() must equal a byte-slice model in which exactly [pos,pos+len) changed (ReWriteU32: the four bytes read back as v), writes must not disturb earlier bytes, and draining returns the model; bytes consumed by the copying ReadN are kept and must be unchanged at the end; the slices passed to Write and ReWrite are overwritten right after the call. Non-trivial: >= 3 steps, >= 1 rewrite that alters a byte and >= 1 rewrite smaller than the region; distinct = distinct case JSON",
	Quick: 45000, Thorough: 100000,
	Gen: GenRW, Exec: ExecRW,
}

var PartTrunc = &vkit.Part[CaseTrunc]{
	Property: Property, Name: "truncated",
	Rule:  "rapid: a script of 1-10 typed writes is encoded by BufferX itself (op boundaries = Len() after each write), cut at an op boundary / strictly inside an op / one byte short / anywhere, and read by a fresh BufferX: every value wholly before the cut must come back, the first read that reaches past it must return an error and never a value (then stop), no panic; values handed out by copying reads are re-examined at the end. Non-trivial: >= 3 ops with >= 1 string and 0 < cut < length; distinct = distinct case JSON",
	Quick: 45000, Thorough: 100000,
	Gen: GenTrunc, Exec: ExecTrunc,
}

var PartArb = &vkit.Part[CaseArb]{
	Property: Property, Name: "arbitrary",
	Rule:  "rapid: bytes = valid encoding / damaged encoding (truncate, hostile length prefixes and varints, insert, delete, bit flip, garbage tail) / hostile constants / random, read script = the matching one (plus zero-length reads and one read beyond the end) or arbitrary typed reads and Read/ReadN/ZReadN with n in {-1,0,1,rest,rest+1,..}; BufferX against a harness-side decoder of the documented format: unsatisfiable read => error and no value, satisfiable => the denoted value, stop at the first failing read, Len() at the end, no panic. One payload in ~250 holds an intact string or raw field of 64 KiB-1 .. 1 MiB (kept as offset + length + seed of a generated body). Not asserted: 64-bit varint overflow, oversize varints through 32-bit readers, ReadBool of bytes > 1, ReadN(0). Non-trivial: >= 3 reads executed incl. >= 1 string read; distinct = distinct case JSON",
	Quick: 60000, Thorough: 150000,
	Gen: GenArb, Exec: ExecArb,
}

var PartDiff = &vkit.Part[CaseDiff]{
	Property: Property, Name: "differential",
	Rule:  "rapid: payload and read script as in part arbitrary but restricted to what both readers expose (typed reads, strings, Read(p), ReadN/ZReadN with n in {-1,0,1,..}); the source io.Reader fragments the payload by a chunk plan (1 byte at a time, fixed k, random splits, boundaries aimed inside fixed-width fields, all at once; zero-length reads interleaved; one case in ~20 a single run of 150-300 consecutive (0, nil) reads at one stream offset; optionally io.EOF delivered with the last bytes), and about two cases in five hand NewReaderX another kind of io.Reader over the same bytes: *bytes.Buffer, *bytes.Reader, *strings.Reader, bufio.NewReaderSize(chunk source, 16), iotest.OneByteReader and iotest.DataErrReader over the chunk source; one payload in ~250 holds an intact string or raw field of 64 KiB-1 .. 1 MiB (then fragments of 4095 .. 100000 bytes half of the time); ReaderX over that source must yield the same sequence of (value | error-ness) as BufferX over the same bytes, compared up to and including the first failing read; the slices and strings both readers handed out by copying reads are kept and must be unchanged after the script and after further traffic (trailing writes on the buffer, more stream data for the reader; one case in ~150: 128-320 KiB of it on both, read by ReadN in sizes 1 .. 20000). Guards: unlimited ReadString / admitted ReadLimitString only when the length prefix <= 1 MiB, raw reads <= 1 MiB (skips counted). Non-trivial: >= 3 reads executed incl. >= 1 string and a chunk boundary strictly inside a fixed-width field (or string length prefix) that was read, or a standard-library source; distinct = distinct case JSON",
	Quick: 120000, Thorough: 300000,
	Gen: GenDiff, Exec: ExecDiff,
}
