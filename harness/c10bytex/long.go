package c10bytex

// part "long": the same statement far from the small numbers of the script parts - few cases, each of them long
// or large.
//
//	reads    100-400 small values (raw fields of 1..16 or 17..64 bytes by ReadN / Read(p), short strings, fixed
//	         widths in between) written by one BufferX and read back by ONE BufferX and ONE ReaderX; every
//	         slice and string a copying read handed out is kept and compared again after the last read
//	         (memory an implementation shares between the results of many calls comes round only then)
//	sizes    intact strings, limit-strings and raw fields whose length lies next to a power of two
//	         (2^k-3 .. 2^k+3, k = 13..19; 2^20-3 .. 2^20, the largest the allocation guard admits) or anywhere
//	         in 4 KiB .. 64 KiB, through every write entry point and both readers
//	hostile  a length prefix ABOVE the 1 MiB guard of the other parts followed by 0-100 bytes: the body is
//	         not there, so ReadString / ReadLimitString must report an error and never a value - on BufferX
//	         (any prefix up to 2^32-1: it allocates nothing) and on ReaderX (prefixes up to 16 MiB only:
//	         ReaderX.ReadString allocates what the prefix says before it reads)

import (
	"bytes"
	"encoding/binary"
	"fmt"
	"math"

	"github.com/pinealctx/neptune/bytex"
	"pgregory.net/rapid"

	"verifharness/vkit"
)

type LongCase struct {
	Kind string `json:"kind"` // reads | sizes | hostile
	// how the BufferX that is read comes to hold the bytes: 0 NewBufferX, 1 NewSizedBufferX(Size), 2
	// NewReadableBufferX(nil) - written by the typed writes and read in place; 3 written by a NewBufferX, read from
	// NewReadableBufferX(copy of its bytes). Reset: the buffer was written to, partly read and Reset() first.
	Ctor  int  `json:"ctor"`
	Size  int  `json:"size,omitempty"`
	Reset bool `json:"reset,omitempty"`
	// reads: value i (0 <= i < N) is written and read by Plan[i % len(Plan)]; its body is body(i, Seed, length of
	// the plan entry's B), numeric kinds carry a value derived from i
	Plan []Op  `json:"plan,omitempty"`
	N    int   `json:"n,omitempty"`
	Seed uint8 `json:"seed,omitempty"`
	// sizes: the fields (large ones as GN/GS, see Op); hostile: valid values in front of the prefix
	Ops []Op `json:"ops,omitempty"`
	// hostile: the u32 length prefix, what follows it, and the read (Lim: ReadLimitString(RL) instead of ReadString)
	Prefix uint32 `json:"prefix,omitempty"`
	Tail   []byte `json:"tail,omitempty"`
	Lim    bool   `json:"lim,omitempty"`
	RL     uint32 `json:"rl,omitempty"`
	// the source of the stream reader
	Chunk Chunking `json:"chunk"`
}

// maxStreamPrefix: the largest length prefix a truncated stream may carry into ReaderX.ReadString (which allocates
// that much before reading).
const maxStreamPrefix = 16 << 20

const maxLongReads = 1 << 12

func genLongChunking(t *rapid.T, total int, large bool) Chunking {
	if !large {
		ch, _ := genChunking(t, total, nil)
		if ch.Src == "onebyte" && total > 1<<14 {
			ch.Src = ""
		}
		return ch
	}
	var ch Chunking
	switch rapid.IntRange(0, 5).Draw(t, "lsrc") {
	case 0:
		ch.Src = rapid.SampledFrom([]string{"bytes.Buffer", "bytes.Reader", "strings.Reader"}).Draw(t, "lstd")
	case 1:
		ch.Plan = []int{total + 1}
	default:
		ch.Plan = []int{rapid.SampledFrom([]int{1000, 4095, 4096, 4097, 8191, 8192, 8193, 1<<16 - 1, 1 << 16, 100000}).Draw(t, "lchunk")}
	}
	ch.EOFWithLast = rapid.IntRange(0, 3).Draw(t, "leof") == 3
	return ch
}

// genEdgeLen: a body length next to a power of two, or anywhere in 4 KiB .. 64 KiB.
func genEdgeLen(t *rapid.T) int64 {
	switch k := rapid.IntRange(0, 19).Draw(t, "edgek"); {
	case k < 13:
		return int64(1)<<uint(rapid.IntRange(13, 19).Draw(t, "edgepow")) + int64(rapid.IntRange(-3, 3).Draw(t, "edged"))
	case k < 15:
		// the top: the largest lengths the allocation guard admits, the exact guard value most often
		return maxAlloc - int64(rapid.SampledFrom([]int{0, 0, 0, 1, 2, 3}).Draw(t, "edgetop"))
	default:
		return int64(rapid.IntRange(4<<10, 64<<10).Draw(t, "edgeuni"))
	}
}

func genLongBigOp(t *rapid.T) Op {
	o := Op{K: rapid.SampledFrom([]string{"str", "str", "lstr", "lstr", "bytes", "bytes"}).Draw(t, "bigkind")}
	o.GN = genEdgeLen(t)
	o.GS = rapid.Byte().Draw(t, "bigseed")
	switch o.K {
	case "lstr":
		o.L = rapid.SampledFrom([]uint32{uint32(o.GN), uint32(o.GN) + 1, 1 << 20, math.MaxUint32}).Draw(t, "bigwl")
		o.RL = rapid.SampledFrom([]uint32{uint32(o.GN), uint32(o.GN) + 1, 1 << 20, math.MaxUint32}).Draw(t, "bigrl")
	case "bytes":
		o.Via = rapid.SampledFrom([]string{"read", "readn", "readn", "zreadn"}).Draw(t, "bigvia")
	}
	return o
}

var hostilePrefixes = []uint32{1<<20 + 1, 1<<20 + 1, 1<<20 + 1, 1<<20 + 2, 1<<20 + 100, 1<<21 - 1, 1 << 21, 1 << 21, 1<<21 + 1, 3 << 20, 1 << 22, 1 << 23,
	1<<24 - 1, 1 << 24, 1<<24 + 1, 1<<31 - 1, 1 << 31, math.MaxUint32 - 1, math.MaxUint32}

func GenLong(t *rapid.T) LongCase {
	var c LongCase
	switch k := rapid.IntRange(0, 9).Draw(t, "longkind"); {
	case k < 4:
		c.Kind = "reads"
	case k < 8:
		c.Kind = "sizes"
	default:
		c.Kind = "hostile"
	}
	c.Ctor = rapid.IntRange(0, 3).Draw(t, "ctor")
	if c.Ctor == 1 {
		c.Size = rapid.SampledFrom([]int{0, 1, 16, 1024, 5000}).Draw(t, "size")
	}
	c.Reset = rapid.IntRange(0, 4).Draw(t, "reset") == 0
	switch c.Kind {
	case "reads":
		c.N = rapid.IntRange(100, 400).Draw(t, "nreads")
		c.Seed = rapid.Byte().Draw(t, "seed")
		lo, hi := 1, 16
		switch rapid.IntRange(0, 5).Draw(t, "band") {
		case 0, 1:
			lo, hi = 17, 64
		case 2:
			lo, hi = 1, 64
		}
		total := 0
		for i, k := 0, rapid.IntRange(1, 6).Draw(t, "nplan"); i < k; i++ {
			var o Op
			switch s := rapid.IntRange(0, 11).Draw(t, "planop"); {
			case s < 6:
				o = Op{K: "bytes", Via: "readn"}
			case s < 8:
				o = Op{K: "bytes", Via: "read"}
			case s == 8:
				o = Op{K: "str"}
			case s == 9:
				o = Op{K: "lstr", L: math.MaxUint32, RL: uint32(hi)}
			case s == 10:
				o = Op{K: rapid.SampledFrom([]string{"u16", "u32", "u64", "i64", "f64", "u8"}).Draw(t, "planfixed")}
			default:
				o = Op{K: "bytes", Via: "zreadn"}
			}
			if o.K == "bytes" || isStr(o.K) {
				n := rapid.IntRange(lo, hi).Draw(t, "plann")
				if rapid.IntRange(0, 3).Draw(t, "planedge") == 0 {
					n = rapid.SampledFrom([]int{lo, hi, 8, 16}).Draw(t, "plannedge")
				}
				o.B = make([]byte, n) // the length; the content of value i is body(i, Seed, n)
				total += n
			}
			c.Plan = append(c.Plan, o)
		}
		c.Chunk = genLongChunking(t, total*c.N/len(c.Plan)+1, false)
	case "sizes":
		n := rapid.IntRange(1, 3).Draw(t, "nops")
		bigAt := rapid.IntRange(0, n-1).Draw(t, "bigpos")
		total := 0
		for i := 0; i < n; i++ {
			if i == bigAt || rapid.IntRange(0, 3).Draw(t, "morebig") == 0 {
				o := genLongBigOp(t)
				total += int(o.GN)
				c.Ops = append(c.Ops, o)
				continue
			}
			c.Ops = append(c.Ops, genWriteOp(t, kindsCommon, true))
		}
		c.Chunk = genLongChunking(t, total, true)
	default:
		c.Ctor = 3
		c.Reset = false
		for i, k := 0, rapid.IntRange(0, 3).Draw(t, "nlead"); i < k; i++ {
			c.Ops = append(c.Ops, genWriteOp(t, kindsCommon, true))
		}
		c.Prefix = rapid.SampledFrom(hostilePrefixes).Draw(t, "prefix")
		c.Tail = rapid.SliceOfN(rapid.Byte(), 0, 100).Draw(t, "tail")
		if c.Lim = rapid.Bool().Draw(t, "lim"); c.Lim {
			c.RL = rapid.SampledFrom([]uint32{c.Prefix, c.Prefix, c.Prefix + 1, math.MaxUint32, math.MaxUint32, c.Prefix - 1, 1 << 20, 0}).Draw(t, "rl")
			if c.RL < c.Prefix && c.Prefix == math.MaxUint32 {
				c.RL = c.Prefix
			}
		}
		c.Chunk = genLongChunking(t, 120, false)
	}
	return c
}

// body is the content of value i of a "reads" case: it differs between any two values whose indices differ by
// less than 65536 (at every length >= 2; at length 1 in the low byte of the index).
func body(i int, seed uint8, n int) []byte {
	b := make([]byte, n)
	for j := range b {
		switch j {
		case 0:
			b[j] = byte(i) ^ seed
		case 1:
			b[j] = byte(i>>8) + 0x40
		default:
			b[j] = byte(i)*31 + byte(j)*7 + seed
		}
	}
	return b
}

// longOps spells the written values of a case out.
func longOps(c LongCase) []Op {
	if c.Kind != "reads" {
		return expandOps(c.Ops)
	}
	if len(c.Plan) == 0 {
		return nil
	}
	n := min(max(c.N, 0), maxLongReads)
	ops := make([]Op, 0, n)
	for i := 0; i < n; i++ {
		o := c.Plan[i%len(c.Plan)]
		switch {
		case o.K == "bytes" || isStr(o.K):
			o.B = body(i, c.Seed, min(len(o.B), 1<<12))
			o.GN = 0
			if o.K == "lstr" {
				// limits admit the value: the refusals are the business of the script parts
				o.L = max(o.L, uint32(len(o.B)))
				o.RL = max(o.RL, uint32(len(o.B)))
			}
			if o.K == "bytes" && len(o.B) == 0 && o.Via == "readn" {
				o.Via = "zreadn"
			}
		default:
			o.U = uint64(i+1) * 0x0101010101010101 * uint64(c.Seed|1)
		}
		ops = append(ops, o)
	}
	return ops
}

// longWriter builds the buffer the values are written to (see LongCase.Ctor).
func longWriter(res *vkit.Result, c LongCase) *bytex.BufferX {
	ctor := c.Ctor
	if ctor == 3 || ctor < 0 || ctor > 3 {
		ctor = 0
	}
	bx := newBuffer(ctor, c.Size)
	if c.Reset {
		bx.WriteString("written before the Reset: 0123456789abcdef0123456789abcdef")
		bx.WriteU64(0x1122334455667788)
		bx.Write(bytes.Repeat([]byte{0xc3}, 40))
		_, _ = bx.ReadU32()
		_, _ = bx.ReadN(7)
		bx.Reset()
		res.Class("long-after-reset")
	}
	return bx
}

func ExecLong(c LongCase) *vkit.Result {
	res := &vkit.Result{}
	if len(c.Plan) > 64 || len(c.Ops) > 64 || len(c.Tail) > 1<<16 || len(c.Chunk.Plan) > 1<<12 || c.Chunk.ZeroRun > 1<<16 {
		res.Skip("case-too-large")
		return res
	}
	if c.Kind == "hostile" {
		return execHostile(res, c)
	}
	if c.Kind != "reads" && c.Kind != "sizes" {
		res.Skip("unknown-kind")
		return res
	}
	ops := longOps(c)
	w := longWriter(res, c)
	if w.Len() != 0 {
		return res.Failf("long/Reset", "the buffer holds %d bytes after Reset()", w.Len())
	}
	var written []Op
	for i, o := range ops {
		if readLen(o) > maxAlloc || bodyLen(o) > maxAlloc {
			res.Skip("size-out-of-bounds")
			continue
		}
		if o.K == "lstr" {
			// this part is about lengths, not limits
			o.L = max(o.L, uint32(len(o.B)))
			o.RL = max(o.RL, uint32(len(o.B)))
		}
		if isVar(o.K) {
			res.Skip("varint-not-in-ReaderX")
			continue
		}
		known, err := bufWrite(w, o)
		if !known {
			res.Skip("unknown-op")
			continue
		}
		if err != nil {
			return res.Failf("long/"+writeName(o), "write %d: WriteLimitString(limit=%d) of a string of length %d returned %v", i, o.L, len(o.B), err)
		}
		written = append(written, o)
	}
	enc := append([]byte{}, w.Bytes()...)
	bx := w
	if c.Ctor == 3 {
		bx = bytex.NewReadableBufferX(append([]byte{}, enc...))
		res.Class("long-buffer-from-existing-bytes")
	}
	src, cr, extend, knownSrc := newSource(enc, c.Chunk)
	if !knownSrc {
		res.Skip("unknown-source")
	}
	rx := bytex.NewReaderX(src)
	if c.Chunk.Src != "" && knownSrc {
		res.Class("source-" + c.Chunk.Src)
	}
	if cr != nil {
		res.Class(chunkClass(c.Chunk, len(enc)))
	}
	var heldB, heldR keeper
	small, kept16 := 0, 0
	for i, o := range written {
		api := apiName(o)
		vb, eb, _ := bufRead(bx, o)
		vr, er, _ := rdRead(rx, o)
		heldB.keep("BufferX", i, api, vb, eb)
		heldR.keep("ReaderX", i, api, vr, er)
		if o.K == "bytes" && api == "ReadN" && len(o.B) == 0 {
			res.Skip("ReadN(0)-in-roundtrip")
			continue
		}
		want := wantValue(o)
		if eb != nil {
			return res.Failf("long/"+api, "read %d of %d on BufferX (%s after writing %s): unexpected error %v", i, len(written), describeLong(o), want, eb)
		}
		if !sameValue(vb, want) {
			return res.Failf("long/"+api, "read %d of %d on BufferX: %s returned %s (first difference at byte %d), written %s", i, len(written), describeLong(o), vb, firstDiff(vb.b, want.b), want)
		}
		if er != nil {
			return res.Failf("long/stream/"+api, "read %d of %d on ReaderX over %s (%s, written %s): unexpected error %v; BufferX returned the value", i, len(written), c.Chunk.describe(), describeLong(o), want, er)
		}
		if !sameValue(vr, want) {
			return res.Failf("long/stream/"+api, "read %d of %d on ReaderX over %s: %s returned %s (first difference at byte %d), written %s", i, len(written), c.Chunk.describe(), describeLong(o), vr, firstDiff(vr.b, want.b), want)
		}
		n := len(o.B)
		switch {
		case !(o.K == "bytes" || isStr(o.K)):
		case n <= 64:
			small++
			if n <= 16 && (api == "ReadN" || api == "Read") {
				kept16++
			}
		case isStr(o.K) && n == maxAlloc:
			res.Class("long-string-of-exactly-1MiB")
		case n == maxAlloc:
			res.Class("long-raw-of-exactly-1MiB")
		}
		if n >= 4<<10 {
			if k := nearPow2(n); k > 0 {
				res.Class(fmt.Sprintf("long-%s-length-2^%d+-3", classOfKind(o.K), k))
			} else {
				res.Class("long-" + classOfKind(o.K) + "-length-4KiB..64KiB")
			}
		}
	}
	if bx.Len() != 0 {
		return res.Failf("long/Len", "after reading back all %d written values Len() = %d, want 0", len(written), bx.Len())
	}
	if len(written) > 0 {
		if v, err, _ := rdRead(rx, Op{K: "u8"}); err == nil {
			return res.Failf("long/stream/read-past-end", "ReadByte on the exhausted stream (%s) returned %s without error", c.Chunk.describe(), v)
		}
	}
	// every value handed out since the first read is still what it was: after ALL later reads of the same kind,
	// after trailing writes, after more stream data
	disturbBuffer(bx, 0)
	extend(bytes.Repeat([]byte{0xee}, 40), false)
	_, _ = rx.ReadN(8)
	_, _ = rx.ReadU64()
	_, _ = rx.ReadN(16)
	_, _ = rx.ReadN(3)
	if !heldB.check(res, "long") || !heldR.check(res, "long/stream") {
		return res
	}
	if c.Kind == "reads" {
		if small >= 100 {
			res.Class("long-100-or-more-small-values-retained")
		}
		if kept16*8 > 1024 {
			res.Class("long-small-raw-results-well-over-1KiB-in-total")
		}
		res.NonTrivial = small >= 100
	} else {
		res.NonTrivial = len(enc) >= 4<<10
	}
	return res
}

// nearPow2 returns k when n is within 3 of 2^k (k >= 13), else 0.
func nearPow2(n int) int {
	for k := 13; k <= 20; k++ {
		if d := n - 1<<uint(k); d >= -3 && d <= 3 {
			return k
		}
	}
	return 0
}

func writeName(o Op) string {
	switch o.K {
	case "str":
		return "WriteString"
	case "lstr":
		return "WriteLimitString"
	case "bytes":
		return "Write"
	}
	return "Write" + apiName(o)[len("Read"):]
}

func describeLong(o Op) string {
	switch o.K {
	case "lstr":
		return fmt.Sprintf("ReadLimitString(%d)", o.RL)
	case "bytes":
		return fmt.Sprintf("%s of %d bytes", apiName(o), len(o.B))
	}
	return apiName(o)
}

// execHostile: valid values, then a length prefix above 1 MiB whose body is not there.
func execHostile(res *vkit.Result, c LongCase) *vkit.Result {
	var data []byte
	var lead []Op
	for _, o := range c.Ops {
		if isVar(o.K) || o.GN > 0 || len(o.B) > 1<<16 || readLen(o) > 1<<16 {
			res.Skip("lead-op-not-usable")
			continue
		}
		if o.K == "lstr" {
			o.L = max(o.L, uint32(len(o.B)))
			o.RL = max(o.RL, uint32(len(o.B)))
		}
		if o.K == "bytes" && len(o.B) == 0 && o.Via == "readn" {
			o.Via = "zreadn"
		}
		if _, ok := fixedWidth[o.K]; !ok && !isStr(o.K) && o.K != "bytes" {
			res.Skip("unknown-op")
			continue
		}
		data = modelEncode(data, o)
		lead = append(lead, o)
	}
	at := len(data)
	data = binary.LittleEndian.AppendUint32(data, c.Prefix)
	data = append(data, c.Tail...)
	if uint64(len(c.Tail)) >= uint64(c.Prefix) {
		res.Skip("body-present")
		return res
	}
	bx := bytex.NewReadableBufferX(append([]byte{}, data...))
	src, _, _, knownSrc := newSource(append([]byte{}, data...), c.Chunk)
	if !knownSrc {
		res.Skip("unknown-source")
	}
	rx := bytex.NewReaderX(src)
	for i, o := range lead {
		api := apiName(o)
		want := wantValue(o)
		vb, eb, _ := bufRead(bx, o)
		vr, er, _ := rdRead(rx, o)
		if eb != nil || !sameValue(vb, want) {
			return res.Failf("long/hostile/"+api+"/present", "read %d on BufferX (%s, wholly present in front of the hostile prefix): returned (%s, err=%v), the bytes denote %s", i, describeLong(o), vb, eb, want)
		}
		if er != nil || !sameValue(vr, want) {
			return res.Failf("long/hostile/stream/"+api+"/present", "read %d on ReaderX over %s (%s, wholly present in front of the hostile prefix): returned (%s, err=%v), the bytes denote %s", i, c.Chunk.describe(), describeLong(o), vr, er, want)
		}
	}
	read := Op{K: "str"}
	if c.Lim {
		read = Op{K: "lstr", RL: c.RL}
	}
	api := apiName(read)
	refusedByLimit := c.Lim && c.RL < c.Prefix
	what := fmt.Sprintf("%s at offset %d: length prefix %d (%#x) followed by %d bytes", describeLong(read), at, c.Prefix, c.Prefix, len(c.Tail))
	vb, eb, _ := bufRead(bx, read)
	if eb == nil {
		return res.Failf("long/hostile/"+api+"/value-without-data", "BufferX: %s returned a string of %d bytes (%x…) without error", what, len(vb.b), clip(vb.b))
	}
	switch {
	case refusedByLimit:
		res.Class("hostile-prefix>read-limit")
	case c.Prefix > maxStreamPrefix:
		// the unchanged ReaderX.ReadString would allocate the whole prefix (up to 4 GiB) before it reads
		res.Skip("stream-prefix>16MiB")
		res.Class("hostile-prefix>16MiB-buffer-only")
		res.NonTrivial = true
		return res
	}
	vr, er, _ := rdRead(rx, read)
	if er == nil {
		return res.Failf("long/hostile/stream/"+api+"/value-without-data", "ReaderX over %s: %s returned a string of %d bytes (%x…) without error; BufferX reported %v", c.Chunk.describe(), what, len(vr.b), clip(vr.b), eb)
	}
	switch {
	case c.Prefix == 1<<20+1:
		res.Class("hostile-prefix=1MiB+1-both-readers")
	case c.Prefix <= 2<<20+1:
		res.Class("hostile-prefix<=2MiB+1-both-readers")
	default:
		res.Class("hostile-prefix<=16MiB-both-readers")
	}
	res.NonTrivial = true
	return res
}

var PartLong = &vkit.Part[LongCase]{
	Property: Property, Name: "long",
	Rule:  "rapid: few long or large cases of three kinds. reads (4 in 10): 100-400 values by a cyclic plan of 1-6 operations (raw fields of 1..16, 17..64 or 1..64 bytes read by ReadN / Read(p) / ZReadN, short strings and limit-strings, fixed widths), every value with its own content, written by one BufferX (NewBufferX / NewSizedBufferX / NewReadableBufferX(nil), one in five after a Reset; or read from NewReadableBufferX(copy of the bytes)) and read back by that BufferX and by one ReaderX over a fragmenting or standard-library source: every read returns the written value, Len()==0 at the end, and ALL slices and strings handed out by copying reads are compared again after the last read and trailing traffic. sizes (4 in 10): 1-3 fields, at least one a string / limit-string / raw field (Read, ReadN, ZReadN) of length 2^k-3..2^k+3 for k = 13..19, 2^20-3..2^20 (exactly 1 MiB, the largest prefix the allocation guard admits, in about one large field in 20) or anywhere in 4 KiB..64 KiB; Len() after every write is what the format takes; both readers return the written values (stream fragments of 1000..100000 bytes, all at once, or a standard-library source). hostile (2 in 10): 0-3 valid values, then a length prefix of 1 MiB+1 .. 2^32-1 followed by 0-100 bytes, read by ReadString or ReadLimitString (limit below / at / above the prefix): BufferX must report an error and no value for every prefix; ReaderX must report an error and no value for prefixes <= 16 MiB (it allocates what the prefix says before reading; larger ones are counted as skipped) and whenever the limit refuses the prefix. Non-trivial: reads with >= 100 values of <= 64 bytes; sizes with >= 4 KiB encoded; every hostile case; distinct = distinct case JSON",
	Quick: 2500, Thorough: 12000,
	Gen: GenLong, Exec: ExecLong,
}
