package c10bytex

import (
	"testing"

	"verifharness/vkit"
)

func TestMain(m *testing.M) { vkit.Main(m) }

func TestProp_Roundtrip(t *testing.T)    { PartRT.Run(t) }
func TestProp_Rewrite(t *testing.T)      { PartRW.Run(t) }
func TestProp_Truncated(t *testing.T)    { PartTrunc.Run(t) }
func TestProp_Arbitrary(t *testing.T)    { PartArb.Run(t) }
func TestProp_Differential(t *testing.T) { PartDiff.Run(t) }
func TestProp_Long(t *testing.T)         { PartLong.Run(t) }

func TestReplay(t *testing.T) {
	PartRT.Replay(t, 1)
	PartRW.Replay(t, 1)
	PartTrunc.Replay(t, 1)
	PartArb.Replay(t, 1)
	PartDiff.Replay(t, 1)
	PartLong.Replay(t, 1)
}

// FuzzDifferential is the byte-level, coverage-guided entry of part 4: the
// payload is taken as is, the read script and the chunking of the source
// reader are decoded from fuzz bytes by the data-provider layer in c10.go.
func FuzzDifferential(f *testing.F) {
	if vkit.SeedCorpus() {
		// u32(1) u32(2) as in the repository's ReWrite tests, read as two u32, one byte at a time
		f.Add([]byte{1, 0, 0, 0, 2, 0, 0, 0}, []byte{4, 4}, []byte{0, 1})
		// "" then "ab" then u64, boundaries inside the prefixes
		f.Add([]byte{0, 0, 0, 0, 2, 0, 0, 0, 'a', 'b', 1, 2, 3, 4, 5, 6, 7, 8}, []byte{9, 9, 6}, []byte{0, 2, 0, 3})
		// limit string at its limit, bool, f64 NaN; eof with the last bytes
		f.Add([]byte{3, 0, 0, 0, 'x', 'y', 'z', 1, 1, 0, 0, 0, 0, 0, 0xf0, 0x7f}, []byte{10, 3, 0, 8}, []byte{1, 5})
		// hostile prefix, zero-length raw reads, ReadN(-1)
		f.Add([]byte{0xff, 0xff, 0xff, 0xff, 0, 0x10, 0, 0}, []byte{13, 2, 11, 2, 10, 0xff, 9, 12, 1}, []byte{0, 0, 1, 0})
	}
	f.Fuzz(func(t *testing.T, payload, script, chunks []byte) {
		if len(payload) > 4096 {
			payload = payload[:4096]
		}
		c := CaseDiff{Data: payload, Reads: DecodeScript(script), Chunk: DecodeChunking(chunks)}
		PartDiff.FuzzOne(t, c)
	})
}
