package c02keylock

// part "crowd": very many holders and waiters of ONE key.
//
// "Any number of goroutines": the number of simultaneous users of a key is taken
// from the boundaries of the integer widths a per-key counter could have (2^8,
// 2^16, +-1) as well as small values. Read locks are taken re-entrantly by one
// goroutine (legal for the underlying RWMutex while no writer waits; to the locker
// each call is just one more reader), so that 65537 simultaneous read locks cost
// no goroutines; waiters are real goroutines (up to 300 in the quick tier, 65537 in
// one of the thorough cases).

import (
	"fmt"
	"sync/atomic"

	"github.com/pinealctx/neptune/syncx/keylock"
	"pgregory.net/rapid"

	"verifharness/vkit"
)

type CaseCrowd struct {
	Config
	Readers      int  `json:"readers"`       // read locks held on key 0 at once
	ReleaseFirst int  `json:"release_first"` // how many of them are released before the writer arrives
	Multi        bool `json:"multi"`         // go through RLocks/Locks with one-key lists where the locker has them
	Waiters      int  `json:"waiters"`       // goroutines queued on key 0 behind the writer (phase 2)
	WaitWritePct int  `json:"wait_write_pct"`
}

func GenCrowd(t *rapid.T) CaseCrowd {
	c := CaseCrowd{Config: genConfig(t)}
	c.Readers = rapid.SampledFrom([]int{1, 2, 3, 100, 255, 256, 257, 65535, 65536, 65537, 70000}).Draw(t, "readers")
	c.ReleaseFirst = rapid.SampledFrom([]int{0, 1, 2, c.Readers - 1, c.Readers / 2}).Draw(t, "releasefirst")
	if c.ReleaseFirst >= c.Readers {
		c.ReleaseFirst = c.Readers - 1
	}
	c.Multi = rapid.Bool().Draw(t, "multi")
	ws := []int{0, 1, 2, 50, 255, 256, 257, 300}
	if vkit.Tier() == "thorough" && rapid.IntRange(0, 39).Draw(t, "huge") == 0 {
		ws = []int{65537}
	}
	c.Waiters = rapid.SampledFrom(ws).Draw(t, "waiters")
	c.WaitWritePct = rapid.SampledFrom([]int{0, 50, 100, 100}).Draw(t, "waitwrite")
	return c
}

func ExecCrowd(c CaseCrowd) *vkit.Result {
	res := &vkit.Result{}
	if !c.Config.valid() || c.Readers < 1 || c.Readers > 200000 || c.ReleaseFirst < 0 || c.ReleaseFirst >= c.Readers || c.Waiters < 0 || c.Waiters > 70000 || c.WaitWritePct < 0 || c.WaitWritePct > 100 {
		res.Skip("malformed-config")
		return res
	}
	lk := c.build()
	multi := c.Multi && lk.multi()
	key := []int{0}
	sched := vkit.NewSched()
	entries := func() int { return keylock.VerifEntries(lk.raw()) }

	// phase 1: a crowd of readers, then a writer
	for i := 0; i < c.Readers; i++ {
		lk.lock(key, false, multi)
	}
	rel := sched.Go("release-first", func() {
		for i := 0; i < c.ReleaseFirst; i++ {
			lk.unlock(key, false, multi)
		}
	})
	sched.MustQuiesce()
	if p := rel.Panic(); p != nil {
		return res.Failf("panic", "%d read locks on one key, RUnlock %d of them: panic: %v", c.Readers, c.ReleaseFirst, p)
	}
	if !rel.Done() {
		return res.Failf("deadlock", "%d read locks on one key: RUnlock is parked forever", c.Readers)
	}
	held := c.Readers - c.ReleaseFirst
	var inWrite atomic.Int32
	writer := sched.Go("writer", func() {
		lk.lock(key, true, multi)
		inWrite.Store(1)
	})
	sched.MustQuiesce()
	if p := writer.Panic(); p != nil {
		return res.Failf("panic", "Lock behind %d read locks panicked: %v", held, p)
	}
	if writer.Done() {
		return res.Failf("exclusion", "%s: %d read locks were taken on one key and %d released; the write lock on that key was granted while %d read locks are still held", c.Type, c.Readers, c.ReleaseFirst, held)
	}
	if c.Readers >= 255 {
		res.NonTrivial = true
		res.Class(fmt.Sprintf("readers>=%d", map[bool]int{true: 65535, false: 255}[c.Readers >= 65535]))
	}
	rel = sched.Go("release-rest", func() {
		for i := 0; i < held; i++ {
			if inWrite.Load() != 0 {
				panic(fmt.Sprintf("the write lock was granted after %d of %d outstanding read locks were released", i, held))
			}
			lk.unlock(key, false, multi)
		}
	})
	sched.MustQuiesce()
	if p := rel.Panic(); p != nil {
		return res.Failf("exclusion", "%s: releasing the remaining %d read locks (of %d) with a writer queued: %v", c.Type, held, c.Readers, p)
	}
	if !rel.Done() || !writer.Done() {
		return res.Failf("deadlock", "%s: all %d read locks were released (release returned: %v) but the queued writer is parked forever", c.Type, c.Readers, rel.Done())
	}

	// phase 2: the writer holds the key; a crowd queues behind it
	var readers, writers atomic.Int32
	var bad atomic.Value
	var done atomic.Int32
	var ops []*vkit.Op
	nw := 0
	for i := 0; i < c.Waiters; i++ {
		write := (i*100)/max(c.Waiters, 1) < c.WaitWritePct
		if write {
			nw++
		}
		ops = append(ops, sched.Go("waiter", func() {
			lk.lock(key, write, multi)
			if inWrite.Load() != 0 {
				bad.CompareAndSwap(nil, "a queued call was admitted while the first writer still holds the key")
			}
			if write {
				if w, r := writers.Add(1), readers.Load(); w != 1 || r != 0 {
					bad.CompareAndSwap(nil, fmt.Sprintf("a writer holds the key together with %d other writers and %d readers", w-1, r))
				}
				writers.Add(-1)
			} else {
				readers.Add(1)
				if w := writers.Load(); w != 0 {
					bad.CompareAndSwap(nil, fmt.Sprintf("a reader holds the key together with %d writers", w))
				}
				readers.Add(-1)
			}
			lk.unlock(key, write, multi)
			done.Add(1)
		}))
	}
	if c.Waiters > 0 {
		sched.MustQuiesce()
		if n := done.Load(); n != 0 {
			return res.Failf("exclusion", "%s: %d of %d calls queued behind a write lock were admitted while it is held: %v", c.Type, n, c.Waiters, bad.Load())
		}
		if c.Waiters >= 255 {
			res.NonTrivial = true
			res.Class(fmt.Sprintf("waiters>=%d", map[bool]int{true: 65535, false: 255}[c.Waiters >= 65535]))
		}
	}
	inWrite.Store(0)
	lk.unlock(key, true, multi)
	sched.MustQuiesce()
	for _, op := range ops {
		if p := op.Panic(); p != nil {
			return res.Failf("panic", "%s: %d calls (%d writers) queued behind a write lock: one panicked: %v", c.Type, c.Waiters, nw, p)
		}
	}
	if b := bad.Load(); b != nil {
		return res.Failf("exclusion", "%s: %d calls (%d writers) queued on one key: %v", c.Type, c.Waiters, nw, b)
	}
	if n := int(done.Load()); n != c.Waiters {
		return res.Failf("deadlock", "%s: %d calls (%d writers) queued on one key behind a write lock that was then released: only %d completed, the rest is parked forever", c.Type, c.Waiters, nw, n)
	}
	if n := entries(); n != 0 {
		return res.Failf("leak", "%s: after %d read locks, a writer and %d queued calls on one key, everything released: the locker keeps %d entries", c.Type, c.Readers, c.Waiters, n)
	}
	return res
}

var PartCrowd = &vkit.Part[CaseCrowd]{
	Property: Property, Name: "crowd",
	Rule:  "rapid: same locker configurations; ONE key; R read locks held at once with R from {1,2,3,100,255,256,257,65535,65536,65537,70000} (taken re-entrantly by one goroutine), some released, then a writer (must be parked at quiescence while any read lock is held, admitted only after the last RUnlock); then 0-300 goroutines (thorough: in 1 of 40 cases 65537) queue behind the held write lock as readers/writers with in-section counters; release; all complete; 0 entries. Non-trivial: >= 255 simultaneous holders or waiters; distinct = distinct case JSON",
	Quick: 60, Thorough: 120,
	Gen: GenCrowd, Exec: ExecCrowd,
}
