// Package c02keylock decides property C02: per-key reader/writer exclusion,
// key independence, deadlock freedom of ordered multi-key calls and reclaim of
// per-key state, for all four key locker types.
package c02keylock

import (
	"fmt"
	"math"
	"reflect"
	"runtime"
	"sort"
	"strings"
	"sync"
	"sync/atomic"
	"unsafe"

	"github.com/pinealctx/neptune/remap"
	"github.com/pinealctx/neptune/syncx/keylock"
	"pgregory.net/rapid"

	"verifharness/vkit"
)

const Property = "C02"

// ---------------------------------------------------------------------------
// adapters: one face for the interface{}-keyed and the generic lockers

type locker interface {
	lock(keys []int, write, multi bool)   // multi or len(keys)>1: Locks/RLocks; else the single-key entry point
	unlock(keys []int, write, multi bool) // matching unlock
	// unlockSplit releases through the OTHER entry points: a multi-key call key by key with the single-key unlock, a
	// single-key call with a one-key multi unlock (no-op difference where the locker has no multi-key calls)
	unlockSplit(keys []int, write, multi bool)
	multi() bool // has Locks/RLocks
	raw() interface{}
	keyVal(k int) interface{} // the key value index k stands for (as the verification hooks want it)
}

type anyLocker struct {
	l   keylock.Locker
	str bool
}

func (a *anyLocker) key(k int) interface{} {
	if a.str {
		return fmt.Sprintf("k%d", k)
	}
	return k
}
func (a *anyLocker) lock(keys []int, write, _ bool) {
	if write {
		a.l.Lock(a.key(keys[0]))
	} else {
		a.l.RLock(a.key(keys[0]))
	}
}
func (a *anyLocker) unlock(keys []int, write, _ bool) {
	if write {
		a.l.Unlock(a.key(keys[0]))
	} else {
		a.l.RUnlock(a.key(keys[0]))
	}
}
func (a *anyLocker) unlockSplit(keys []int, write, multi bool) { a.unlock(keys, write, multi) }
func (a *anyLocker) multi() bool                               { return false }
func (a *anyLocker) raw() interface{}                          { return a.l }
func (a *anyLocker) keyVal(k int) interface{}                  { return a.key(k) }

type tLocker[T comparable] struct {
	l    keylock.TLocker[T]
	conv func(int) T
	// forceMulti: use Locks/RLocks even for one-element lists
}

func (a *tLocker[T]) ks(keys []int) []T {
	out := make([]T, len(keys))
	for i, k := range keys {
		out[i] = a.conv(k)
	}
	return out
}
func (a *tLocker[T]) lock(keys []int, write, multi bool) {
	switch {
	case len(keys) == 1 && !multi && write:
		a.l.Lock(a.conv(keys[0]))
	case len(keys) == 1 && !multi:
		a.l.RLock(a.conv(keys[0]))
	case write:
		a.l.Locks(a.ks(keys))
	default:
		a.l.RLocks(a.ks(keys))
	}
}
func (a *tLocker[T]) unlock(keys []int, write, multi bool) {
	switch {
	case len(keys) == 1 && !multi && write:
		a.l.Unlock(a.conv(keys[0]))
	case len(keys) == 1 && !multi:
		a.l.RUnlock(a.conv(keys[0]))
	case write:
		a.l.Unlocks(a.ks(keys))
	default:
		a.l.RUnlocks(a.ks(keys))
	}
}
func (a *tLocker[T]) unlockSplit(keys []int, write, multi bool) {
	if len(keys) == 1 && !multi {
		a.unlock(keys, write, true)
		return
	}
	for _, k := range keys {
		a.unlock([]int{k}, write, false)
	}
}
func (a *tLocker[T]) multi() bool              { return true }
func (a *tLocker[T]) raw() interface{}         { return a.l }
func (a *tLocker[T]) keyVal(k int) interface{} { return a.conv(k) }

type Config struct {
	Type   string `json:"type"` // KeyLocker | KeyLockerGrp | KeyLockerGrpX | TKeyLocker | TKeyLockerGrp | TKeyLockerGrpX
	StrKey bool   `json:"str_key,omitempty"`
	Shards uint64 `json:"shards"`
	NKeys  int    `json:"nkeys"`
	Stride int    `json:"stride"` // key i is the integer Base + i*Stride (Stride == Shards makes every key collide under modulo routing)
	Base   int    `json:"base,omitempty"`
	// TypeMix (interface{}-keyed lockers): keys 3j, 3j+1, 3j+2 are the same number as int, int64 and uint32 - three
	// different keys of an interface{}-keyed locker
	TypeMix bool `json:"type_mix,omitempty"`
	// Perm (optional, a permutation of 0..NKeys-1): key i has the value Base + Perm[i]*Stride. The one global order
	// of a case is the order of the key indexes - with a permutation it is NOT ascending by value.
	Perm []int `json:"perm,omitempty"`
	// Kinds (optional; KeyLocker and TKeyLocker - then instantiated with T = any - only; one index into kindTable
	// per key, duplicate-free): key i is kindTable[Kinds[i]] - nil, floats, bools, arrays, structs, pointers, channels,
	// named types and the strings they print as. All of them are different keys.
	Kinds []int `json:"kinds,omitempty"`
}

// rank is the multiplier of key i.
func (c Config) rank(i int) int {
	if len(c.Perm) == c.NKeys && i >= 0 && i < len(c.Perm) {
		return c.Perm[i]
	}
	return i
}

func (c Config) valid() bool {
	switch c.Type {
	case "KeyLocker", "KeyLockerGrp", "KeyLockerGrpX", "TKeyLocker", "TKeyLockerGrp", "TKeyLockerGrpX":
	default:
		return false
	}
	return c.Shards >= 1 && c.Shards <= 100000 && c.NKeys >= 1 && c.NKeys <= 64 && c.Stride >= 1 && c.Stride <= 1000 && c.Base >= -(1<<62) && c.Base <= 1<<62 && c.permOK() && c.kindsOK()
}

func (c Config) kindsOK() bool {
	if len(c.Kinds) == 0 {
		return true
	}
	if len(c.Kinds) != c.NKeys || (c.Type != "KeyLocker" && c.Type != "TKeyLocker") || c.StrKey || c.TypeMix {
		return false
	}
	seen := map[int]bool{}
	for _, k := range c.Kinds {
		if k < 0 || k >= len(kindTable) || seen[k] {
			return false
		}
		seen[k] = true
	}
	return true
}

func (c Config) permOK() bool {
	if len(c.Perm) == 0 {
		return true
	}
	if len(c.Perm) != c.NKeys {
		return false
	}
	seen := make([]bool, c.NKeys)
	for _, p := range c.Perm {
		if p < 0 || p >= c.NKeys || seen[p] {
			return false
		}
		seen[p] = true
	}
	return true
}

func (c Config) build() locker {
	opt := remap.WithPrime(c.Shards)
	iconv := func(k int) int { return c.Base + c.rank(k)*c.Stride }
	sconv := func(k int) string { return fmt.Sprintf("k%d", c.Base+c.rank(k)*c.Stride) }
	switch c.Type {
	case "KeyLocker":
		return &strideAny{anyLocker{l: keylock.NewKeyLocker(), str: c.StrKey}, c.Stride, c.Base, c.TypeMix, c.rank, c.Kinds}
	case "KeyLockerGrp":
		return &strideAny{anyLocker{l: keylock.NewKeyLockeGrp(opt), str: c.StrKey}, c.Stride, c.Base, c.TypeMix, c.rank, nil}
	case "KeyLockerGrpX":
		return &strideAny{anyLocker{l: keylock.NewXHashKeyLockeGrp(opt), str: c.StrKey}, c.Stride, c.Base, c.TypeMix, c.rank, nil}
	case "TKeyLocker":
		if len(c.Kinds) > 0 {
			kinds := c.Kinds
			return &tLocker[any]{l: keylock.NewTKeyLocker[any](), conv: func(k int) any { return kindTable[kinds[k]] }}
		}
		if c.StrKey {
			return &tLocker[string]{l: keylock.NewTKeyLocker[string](), conv: sconv}
		}
		return &tLocker[int]{l: keylock.NewTKeyLocker[int](), conv: iconv}
	case "TKeyLockerGrp":
		if c.StrKey {
			return &tLocker[string]{l: keylock.NewTKeyLockeGrp[string](opt), conv: sconv}
		}
		return &tLocker[int]{l: keylock.NewTKeyLockeGrp[int](opt), conv: iconv}
	default:
		if c.StrKey {
			return &tLocker[string]{l: keylock.NewTXHashTKeyLockeGrp[string](opt), conv: sconv}
		}
		return &tLocker[int]{l: keylock.NewTXHashTKeyLockeGrp[int](opt), conv: iconv}
	}
}

type strideAny struct {
	anyLocker
	stride, base int
	typeMix      bool
	rank         func(int) int
	kinds        []int
}

// mixKinds: the dynamic types one number is handed in as under TypeMix (seven different keys of an interface{}-keyed
// locker; the numbers stay within 0..127 so that every type holds them)
const mixKinds = 7

func (s *strideAny) keyOf(k int) interface{} {
	if len(s.kinds) > 0 {
		return kindTable[s.kinds[k]]
	}
	if !s.typeMix || s.str {
		return s.anyLocker.key(s.base + s.rank(k)*s.stride)
	}
	v := k/mixKinds + ((s.base%64)+64)%64 // distinct per group of seven, always within 0..127
	switch k % mixKinds {
	case 1:
		return int64(v)
	case 2:
		return uint32(v)
	case 3:
		return int32(v)
	case 4:
		return int8(v)
	case 5:
		return uint64(v)
	case 6:
		return fmt.Sprint(v)
	}
	return v
}

func (s *strideAny) keyVal(k int) interface{} { return s.keyOf(k) }

func (s *strideAny) lock(keys []int, write, multi bool) {
	k := s.keyOf(keys[0])
	if write {
		s.l.Lock(k)
	} else {
		s.l.RLock(k)
	}
}
func (s *strideAny) unlockSplit(keys []int, write, multi bool) { s.unlock(keys, write, multi) }
func (s *strideAny) unlock(keys []int, write, multi bool) {
	k := s.keyOf(keys[0])
	if write {
		s.l.Unlock(k)
	} else {
		s.l.RUnlock(k)
	}
}

func genConfig(t *rapid.T) Config {
	c := Config{
		Type:   rapid.SampledFrom([]string{"KeyLocker", "KeyLockerGrp", "KeyLockerGrpX", "TKeyLocker", "TKeyLocker", "TKeyLockerGrp", "TKeyLockerGrp", "TKeyLockerGrpX"}).Draw(t, "type"),
		StrKey: rapid.IntRange(0, 3).Draw(t, "strkey") == 0,
		Shards: rapid.SampledFrom([]uint64{1, 2, 3, 73, 7, 33, 37, 61, 64, 257, 1000}).Draw(t, "shards"),
		NKeys:  rapid.IntRange(2, 6).Draw(t, "nkeys"),
	}
	// sometimes many keys, so that multi-key lists get long (> 12 keys) and several of them share a shard
	if rapid.IntRange(0, 5).Draw(t, "manykeys") == 0 {
		c.NKeys = rapid.IntRange(14, 24).Draw(t, "nkeysmany")
		if rapid.IntRange(0, 2).Draw(t, "verymany") == 0 {
			c.NKeys = rapid.IntRange(34, 64).Draw(t, "nkeysverymany") // lists beyond 32 keys
		}
	}
	// stride 1: neighbours spread over the shards; stride == shards: all keys in one shard
	c.Stride = rapid.SampledFrom([]int{1, 1, int(c.Shards), 5}).Draw(t, "stride")
	// keys need not start at 0: with a base near the shard count the keys reach the highest shard indexes
	c.Base = rapid.SampledFrom([]int{0, 0, 30, 57, 1000, 250, -5, -1000, -(1 << 40), 1 << 40, math.MinInt64 / 4}).Draw(t, "base")
	c.TypeMix = !isMultiType(c.Type) && !c.StrKey && rapid.IntRange(0, 2).Draw(t, "typemix") == 0
	// the one global order of the case need not be ascending by value
	if rapid.IntRange(0, 3).Draw(t, "permuted") == 0 {
		c.Perm = rapid.Permutation(seqInts(c.NKeys)).Draw(t, "perm")
	}
	// unsharded lockers take any comparable key: nil, floats, bools, arrays, structs, pointers, ... - and the strings
	// these print as are other keys
	if (c.Type == "KeyLocker" || c.Type == "TKeyLocker") && !c.StrKey && !c.TypeMix && rapid.Bool().Draw(t, "keykinds") {
		c.Kinds = genKinds(t, c.NKeys)
	}
	return c
}

func seqInts(n int) []int {
	s := make([]int, n)
	for i := range s {
		s[i] = i
	}
	return s
}

func isMultiType(typ string) bool { return typ[0] == 'T' }

// nestOK: may a goroutine that holds locks ask for further, larger keys? Always for single-key calls; for multi-key
// calls only where the locker acquires in list order - not on a sharded group with more than one shard, which
// acquires in (shard, list) order (known finding F21, probed separately).
func (c Config) nestMultiOK() bool {
	return !strings.Contains(c.Type, "Grp") || c.Shards == 1
}

// nestOK: may a goroutine hold a lock while it asks for a larger key at all? Not on a generic sharded group with
// several shards: there even a nested single-key request can deadlock against somebody else's multi-key call,
// which takes its keys in shard order (F21). The interface{}-keyed groups have no multi-key calls, so nesting
// single keys in ascending order is safe on them.
func (c Config) nestOK() bool {
	return !isMultiType(c.Type) || c.nestMultiOK()
}

// genKeyList draws a duplicate-free ascending sub-list of the keys (the one
// global order the property allows).
func genKeyList(t *rapid.T, nkeys int, multi bool) []int {
	if !multi || rapid.IntRange(0, 9).Draw(t, "single") < 5 {
		return []int{rapid.IntRange(0, nkeys-1).Draw(t, "key")}
	}
	if nkeys > 12 && rapid.IntRange(0, 5).Draw(t, "full") == 0 {
		return seqInts(nkeys) // the whole key set in one call
	}
	var ks []int
	dense := nkeys > 12 && rapid.Bool().Draw(t, "dense") // long lists: most keys taken
	for k := 0; k < nkeys; k++ {
		if dense {
			if rapid.IntRange(0, 7).Draw(t, "in8") != 0 {
				ks = append(ks, k)
			}
		} else if rapid.Bool().Draw(t, "in") {
			ks = append(ks, k)
		}
	}
	if len(ks) == 0 {
		ks = []int{rapid.IntRange(0, nkeys-1).Draw(t, "key")}
	}
	return ks
}

// ---------------------------------------------------------------------------
// controlled mode

type Step struct {
	Op    string `json:"op"` // lock | unlock
	Actor int    `json:"actor"`
	Write bool   `json:"write,omitempty"`
	Keys  []int  `json:"keys,omitempty"`
	Multi bool   `json:"multi,omitempty"` // use Locks/RLocks even for a one-key list
	// Nest: the call is issued by the goroutine of actor Parent, which still holds its own (smaller) keys
	Nest   bool `json:"nest,omitempty"`
	Parent int  `json:"parent,omitempty"`
	// Split (unlock): release through the other entry points (see locker.unlockSplit)
	Split bool `json:"split,omitempty"`
}

type CaseCtl struct {
	Config
	Steps []Step `json:"steps"`
}

// The generator folds over a *conservative* abstraction: an actor is certainly a
// holder once none of its keys conflicts with anything issued before it and not
// yet unlocked. Only certain holders are unlocked by generated steps; the
// executor unlocks by what it observes, so this only shapes the distribution.
type genActor struct {
	keys     []int
	write    bool
	unlocked bool
}

func conflicts(a, b *genActor) bool {
	if !a.write && !b.write {
		return false
	}
	for _, x := range a.keys {
		for _, y := range b.keys {
			if x == y {
				return true
			}
		}
	}
	return false
}

func GenCtl(t *rapid.T) CaseCtl {
	c := CaseCtl{Config: genConfig(t)}
	var actors []*genActor
	n := rapid.IntRange(4, 24).Draw(t, "nsteps")
	var tail []int // the last keys of the long list of the previous step
	for i := 0; i < n; i++ {
		if len(tail) > 0 && rapid.Bool().Draw(t, "probetail") {
			// a single call on one of the last keys of the long list just issued
			a := &genActor{keys: []int{rapid.SampledFrom(tail).Draw(t, "tailkey")}, write: rapid.IntRange(0, 3).Draw(t, "tailwrite") != 0}
			actors = append(actors, a)
			c.Steps = append(c.Steps, Step{Op: "lock", Actor: len(actors) - 1, Write: a.write, Keys: a.keys})
			tail = nil
			continue
		}
		tail = nil
		if i == 0 && c.NKeys >= 40 && isMultiType(c.Type) && rapid.Bool().Draw(t, "fullfirst") {
			// the whole key set at once, first thing
			a := &genActor{keys: seqInts(c.NKeys), write: rapid.IntRange(0, 3).Draw(t, "fullwrite") != 0}
			actors = append(actors, a)
			c.Steps = append(c.Steps, Step{Op: "lock", Actor: 0, Write: a.write, Keys: a.keys})
			tail = a.keys[len(a.keys)-4:]
			continue
		}
		var live []int
		for ai, a := range actors {
			if !a.unlocked {
				live = append(live, ai)
			}
		}
		if len(live) > 0 && rapid.IntRange(0, 9).Draw(t, "unlock") < 4 {
			a := rapid.SampledFrom(live).Draw(t, "who")
			actors[a].unlocked = true
			c.Steps = append(c.Steps, Step{Op: "unlock", Actor: a, Split: isMultiType(c.Type) && rapid.IntRange(0, 3).Draw(t, "split") == 0})
			continue
		}
		if isMultiType(c.Type) && rapid.IntRange(0, 24).Draw(t, "emptylist") == 0 {
			// the empty list is a duplicate-free ordered list too: the call returns at once and holds nothing
			actors = append(actors, &genActor{write: rapid.Bool().Draw(t, "emptywrite")})
			c.Steps = append(c.Steps, Step{Op: "lock", Actor: len(actors) - 1, Write: actors[len(actors)-1].write, Multi: true})
			continue
		}
		a := &genActor{keys: genKeyList(t, c.NKeys, isMultiType(c.Type)), write: rapid.IntRange(0, 9).Draw(t, "write") < 5}
		st := Step{Op: "lock", Write: a.write}
		if len(live) > 0 && rapid.IntRange(0, 4).Draw(t, "nest") == 0 {
			// a nested request: keys strictly above everything its parent asked for
			par := rapid.SampledFrom(live).Draw(t, "parent")
			top := -1
			if n := len(actors[par].keys); n > 0 {
				top = actors[par].keys[n-1]
			}
			var ks []int
			for _, k := range a.keys {
				if k > top {
					ks = append(ks, k)
				}
			}
			if len(ks) == 0 && top+1 < c.NKeys {
				ks = []int{rapid.IntRange(top+1, c.NKeys-1).Draw(t, "nestkey")}
			}
			if len(ks) > 0 && c.Config.nestOK() {
				a.keys = ks
				st.Nest, st.Parent = true, par
			}
		}
		actors = append(actors, a)
		st.Actor, st.Keys = len(actors)-1, a.keys
		if len(a.keys) == 1 && isMultiType(c.Type) {
			st.Multi = rapid.IntRange(0, 3).Draw(t, "multi1") == 0
		}
		if len(a.keys) >= 30 {
			tail = a.keys[len(a.keys)-4:]
		}
		c.Steps = append(c.Steps, st)
	}
	return c
}

type actorRun struct {
	keys     []int
	write    bool
	multi    bool
	op       *vkit.Op
	unlockOp *vkit.Op
	split    bool // release through the other entry points
	wantFree bool // an unlock step was issued while the actor was still parked: unlock as soon as it returns
	parent   int  // -1, or the actor whose goroutine issued this (nested) call
}

func validKeys(keys []int, nkeys int) bool {
	if len(keys) == 0 {
		return false
	}
	for i, k := range keys {
		if k < 0 || k >= nkeys || (i > 0 && keys[i-1] >= k) {
			return false
		}
	}
	return true
}

func ExecCtl(c CaseCtl) *vkit.Result {
	res := &vkit.Result{}
	if !c.Config.valid() {
		res.Skip("malformed-config")
		return res
	}
	lk := c.build()
	sched := vkit.NewSched()
	var runs []*actorRun

	holding := func(r *actorRun) bool { return r.op.Done() && r.unlockOp == nil }
	pending := func(r *actorRun) bool { return !r.op.Done() }

	// a holder whose goroutine is parked in a nested call cannot unlock
	hasPendingChild := func(ai int) bool {
		for _, r := range runs {
			if r.parent == ai && pending(r) {
				return true
			}
		}
		return false
	}
	releasable := func(ai int) bool { return holding(runs[ai]) && !hasPendingChild(ai) }
	doUnlock := func(ai int) {
		r := runs[ai]
		if r.split {
			res.Class("release-through-the-other-entry-points")
			r.unlockOp = sched.Go(fmt.Sprintf("unlock-split-%d", ai), func() { lk.unlockSplit(r.keys, r.write, r.multi) })
			return
		}
		r.unlockOp = sched.Go(fmt.Sprintf("unlock-%d", ai), func() { lk.unlock(r.keys, r.write, r.multi) })
	}

	defer func() {
		if res.Fail != nil && len(c.Kinds) > 0 {
			// the keys of this case are not numbers: say what they are
			names := []string{}
			for i := 0; i < c.NKeys; i++ {
				names = append(names, fmt.Sprintf("key %d = %T(%#v)", i, lk.keyVal(i), lk.keyVal(i)))
			}
			res.Fail.Msg += " [" + c.Type + "; " + strings.Join(names, ", ") + "]"
		}
	}()
	defer func() {
		if res.Fail != nil {
			// best effort: let whatever can still finish, finish
			for round := 0; round < len(runs)+1; round++ {
				sched.Quiesce()
				progressed := false
				for ai, r := range runs {
					if holding(r) {
						doUnlock(ai)
						progressed = true
					}
				}
				if !progressed {
					break
				}
			}
		}
	}()

	// check evaluates all oracles at a quiescent point
	check := func(stepNo int, what string) bool {
		// deferred unlocks of actors that were parked when their unlock step came
		for {
			sched.MustQuiesce()
			again := false
			for ai, r := range runs {
				if r.wantFree && releasable(ai) {
					r.wantFree = false
					doUnlock(ai)
					again = true
				}
			}
			if !again {
				break
			}
		}
		type cnt struct{ r, w int }
		in := make([]cnt, c.NKeys)
		pend := make([]int, c.NKeys)
		nHolders, nPending := 0, 0
		for ai, r := range runs {
			if p := r.op.Panic(); p != nil {
				res.Failf("panic", "step %d (%s): lock call of actor %d panicked: %v", stepNo, what, ai, p)
				return false
			}
			if r.unlockOp != nil {
				if !r.unlockOp.Done() {
					res.Failf("unlock-blocked", "step %d (%s): unlock by actor %d is parked forever", stepNo, what, ai)
					return false
				}
				if p := r.unlockOp.Panic(); p != nil {
					res.Failf("unlock-panic", "step %d (%s): unlock by actor %d panicked: %v", stepNo, what, ai, p)
					return false
				}
			}
			switch {
			case holding(r):
				nHolders++
				for _, k := range r.keys {
					if r.write {
						in[k].w++
					} else {
						in[k].r++
					}
				}
			case pending(r):
				nPending++
				for _, k := range r.keys {
					pend[k]++
				}
			}
		}
		// (1) exclusion, and "holds all listed keys at once": a returned multi-key call counts on all its keys
		for k, x := range in {
			if x.w > 1 || (x.w == 1 && x.r > 0) {
				res.Failf("exclusion", "step %d (%s): key %d is held by %d writers and %d readers at once", stepNo, what, k, x.w, x.r)
				return false
			}
		}
		// (2) must-complete: nothing in its way on any of its keys, yet parked forever
		for ai, r := range runs {
			if !pending(r) {
				continue
			}
			blocked := false
			for _, k := range r.keys {
				if in[k].w > 0 || (r.write && in[k].r > 0) || pend[k] > 1 {
					blocked = true
				}
			}
			if !blocked {
				res.Failf("blocked-without-conflict", "step %d (%s): actor %d (%s %v) is parked forever although none of its keys has a conflicting holder or another waiter",
					stepNo, what, ai, rw(r.write), r.keys)
				return false
			}
		}
		// (3) no deadlock: parked calls need some holder whose unlock can wake them
		nReleasable := 0
		for ai := range runs {
			if releasable(ai) {
				nReleasable++
			}
		}
		if nPending > 0 && nReleasable == 0 {
			res.Failf("deadlock", "step %d (%s): %d calls are parked forever and nobody is in a position to unlock anything (%d holders, all parked in nested calls themselves)", stepNo, what, nPending, nHolders)
			return false
		}
		if nPending > 0 {
			res.NonTrivial = true
		}
		if nHolders == 0 && nPending == 0 {
			if n := keylock.VerifEntries(lk.raw()); n != 0 {
				res.Failf("residue", "step %d (%s): every lock has been released but the locker retains %d entries", stepNo, what, n)
				return false
			}
		}
		for k, x := range in {
			if x.r >= 2 {
				res.Class("two-readers-inside")
			}
			if pend[k] > 0 && x.w+x.r > 0 {
				res.Class("waiter-behind-holder")
			}
		}
		return true
	}

	for i, st := range c.Steps {
		switch st.Op {
		case "lock":
			keys := st.Keys
			emptyList := len(keys) == 0 && st.Multi && lk.multi()
			if !emptyList && (!validKeys(keys, c.NKeys) || (len(keys) > 1 && !lk.multi())) {
				res.Skip("bad-lock-step")
				continue
			}
			r := &actorRun{keys: append([]int(nil), keys...), write: st.Write, multi: st.Multi && lk.multi(), parent: -1}
			if emptyList {
				res.Class("empty-key-list")
			}
			if !emptyList && st.Nest && len(runs) > st.Parent && st.Parent >= 0 && len(runs[st.Parent].keys) > 0 && st.Parent >= 0 && st.Parent < len(runs) && releasable(st.Parent) && runs[st.Parent].unlockOp == nil && !runs[st.Parent].wantFree &&
				keys[0] > runs[st.Parent].keys[len(runs[st.Parent].keys)-1] && c.Config.nestOK() {
				// every key above everything the parent chain holds: the one global order
				ok := true
				for p := runs[st.Parent].parent; p >= 0; p = runs[p].parent {
					if !holding(runs[p]) {
						ok = false
					}
				}
				if ok {
					r.parent = st.Parent
					res.Class("nested-call")
					if len(keys) > 1 {
						res.Class("nested-multi-key-call")
					}
				}
			}
			if r.multi && len(keys) == 1 {
				res.Class("one-key-multi-call")
			}
			runs = append(runs, r)
			if len(keys) > 12 {
				res.Class("multi-key-list>12")
			}
			if len(keys) > 44 {
				res.Class("multi-key-list>44")
			}
			if len(c.Kinds) > 0 {
				res.Class("key-kinds")
			}
			if len(keys) > 1 {
				res.Class("multi-key")
				if c.Shards > 1 && c.Stride%int(c.Shards) != 0 {
					res.Class("multi-key-spanning-shards")
				}
			}
			r.op = sched.Go(fmt.Sprintf("lock-%d", len(runs)-1), func() { lk.lock(r.keys, r.write, r.multi) })
		case "unlock":
			if st.Actor < 0 || st.Actor >= len(runs) {
				res.Skip("unlock-of-unknown")
				continue
			}
			r := runs[st.Actor]
			switch {
			case r.unlockOp != nil || r.wantFree:
				res.Skip("double-unlock")
				continue
			case releasable(st.Actor):
				r.split = st.Split && len(r.keys) > 0
				doUnlock(st.Actor)
			default:
				r.split = st.Split && len(r.keys) > 0
				r.wantFree = true // unlocks as soon as it gets the lock
				res.Class("unlock-deferred")
			}
		default:
			res.Skip("unknown-op")
			continue
		}
		if !check(i, fmt.Sprintf("%+v", st)) {
			return res
		}
	}
	// drain: release holders one at a time until nobody holds and nobody waits
	for guard := 0; guard < 10000; guard++ {
		released := false
		for ai := range runs {
			if releasable(ai) {
				doUnlock(ai)
				released = true
				break
			}
		}
		if !released {
			break
		}
		if !check(len(c.Steps)+guard, "drain") {
			return res
		}
	}
	for ai, r := range runs {
		if pending(r) {
			res.Failf("deadlock", "after draining every holder actor %d (%s %v) is still parked", ai, rw(r.write), r.keys)
			return res
		}
	}
	if n := keylock.VerifEntries(lk.raw()); n != 0 {
		res.Failf("residue", "every lock has been released but the locker retains %d entries", n)
		return res
	}
	// per-key state anywhere else in the locker (side maps, caches): as many container elements as a fresh locker has
	if got, fresh := deepElems(lk.raw()), deepElems(c.build().raw()); got != fresh {
		res.Failf("residue", "every lock has been released and the lock table is empty, but the locker's maps/slices/sync.Maps hold %d elements, a fresh locker of the same configuration %d", got, fresh)
	}
	return res
}

// deepElems counts the elements of every map, slice and sync.Map reachable from v (through pointers, interfaces and
// struct fields, exported or not): a measure of retained state that does not depend on which field holds it.
func deepElems(root interface{}) int {
	seen := map[uintptr]bool{}
	var walk func(v reflect.Value, depth int) int
	walk = func(v reflect.Value, depth int) int {
		if depth > 12 || !v.IsValid() {
			return 0
		}
		switch v.Kind() {
		case reflect.Ptr:
			if v.IsNil() || seen[v.Pointer()] {
				return 0
			}
			seen[v.Pointer()] = true
			if v.Type().Elem().PkgPath() == "sync" && v.Type().Elem().Name() == "Map" {
				n := 0
				if v.CanInterface() {
					v.Interface().(*sync.Map).Range(func(_, _ any) bool { n++; return true })
				}
				return n
			}
			return walk(v.Elem(), depth+1)
		case reflect.Interface:
			if v.IsNil() {
				return 0
			}
			return walk(v.Elem(), depth+1)
		case reflect.Struct:
			if v.Type().PkgPath() == "sync" {
				if v.Type().Name() == "Map" && v.CanAddr() {
					return walk(reflect.NewAt(v.Type(), unsafe.Pointer(v.UnsafeAddr())), depth+1)
				}
				return 0 // mutexes etc.
			}
			n := 0
			for i := 0; i < v.NumField(); i++ {
				f := v.Field(i)
				if f.CanAddr() {
					f = reflect.NewAt(f.Type(), unsafe.Pointer(f.UnsafeAddr())).Elem()
				}
				n += walk(f, depth+1)
			}
			return n
		case reflect.Map:
			n := v.Len()
			it := v.MapRange()
			for it.Next() {
				n += walk(it.Value(), depth+1)
			}
			return n
		case reflect.Slice:
			n := v.Len()
			for i := 0; i < v.Len(); i++ {
				n += walk(v.Index(i), depth+1)
			}
			return n
		case reflect.Array:
			n := 0
			for i := 0; i < v.Len(); i++ {
				n += walk(v.Index(i), depth+1)
			}
			return n
		}
		return 0
	}
	return walk(reflect.ValueOf(root), 0)
}

func rw(w bool) string {
	if w {
		return "write"
	}
	return "read"
}

// ---------------------------------------------------------------------------
// stress mode

type StressOp struct {
	Keys  []int `json:"keys"`
	Write bool  `json:"write,omitempty"`
	Hold  int   `json:"hold"`
	// Nest > 0: keep holding and run the next Nest ops (which use strictly larger single keys) inside
	Nest int `json:"nest,omitempty"`
	// Multi: Locks/RLocks even for a one-key list (flat programs on the generic lockers only)
	Multi bool `json:"multi,omitempty"`
}

type CaseStress struct {
	Config
	Procs  int          `json:"procs"`
	Nested bool         `json:"nested"` // nested single-key programs (ascending keys); otherwise flat single/multi-key ops
	Progs  [][]StressOp `json:"progs"`
}

func GenStress(t *rapid.T) CaseStress {
	c := CaseStress{Config: genConfig(t)}
	c.Procs = rapid.SampledFrom([]int{1, 2, 4, 8}).Draw(t, "procs")
	c.Nested = rapid.IntRange(0, 3).Draw(t, "nested") == 0 && c.Config.nestOK()
	ng := rapid.IntRange(3, 12).Draw(t, "goroutines")
	for g := 0; g < ng; g++ {
		var prog []StressOp
		n := rapid.IntRange(1, 8).Draw(t, "proglen")
		for i := 0; i < n; i++ {
			op := StressOp{Write: rapid.IntRange(0, 9).Draw(t, "write") < 5, Hold: rapid.IntRange(0, 3).Draw(t, "hold")}
			if c.Nested && !(c.Config.nestMultiOK() && isMultiType(c.Type)) {
				op.Keys = []int{rapid.IntRange(0, c.NKeys-1).Draw(t, "key")}
			} else if c.Nested {
				// short ascending lists, so that chains of nested calls remain possible
				k0 := rapid.IntRange(0, c.NKeys-1).Draw(t, "key")
				op.Keys = []int{k0}
				if k0+1 < c.NKeys && rapid.Bool().Draw(t, "two") {
					op.Keys = append(op.Keys, rapid.IntRange(k0+1, c.NKeys-1).Draw(t, "key2"))
				}
			} else {
				op.Keys = genKeyList(t, c.NKeys, isMultiType(c.Type))
				op.Multi = len(op.Keys) == 1 && isMultiType(c.Type) && rapid.IntRange(0, 3).Draw(t, "multi1") == 0
			}
			prog = append(prog, op)
		}
		if c.Nested {
			// turn runs of strictly ascending single keys into nests
			for i := 0; i < len(prog); i++ {
				j := i
				for j+1 < len(prog) && prog[j+1].Keys[0] > prog[j].Keys[len(prog[j].Keys)-1] {
					j++
				}
				if j > i && rapid.Bool().Draw(t, "nestit") {
					prog[i].Nest = j - i
					// inner ops nest further only in a chain: a, then (b, then (c))
					for k := i + 1; k < j; k++ {
						prog[k].Nest = j - k
					}
					i = j
				}
			}
		}
		c.Progs = append(c.Progs, prog)
	}
	return c
}

type monitor struct{ readers, writers atomic.Int32 }

func ExecStress(c CaseStress) *vkit.Result {
	res := &vkit.Result{}
	if !c.Config.valid() || len(c.Progs) == 0 {
		res.Skip("malformed-config")
		return res
	}
	if c.Procs >= 1 && c.Procs <= 64 {
		defer runtime.GOMAXPROCS(runtime.GOMAXPROCS(c.Procs))
	}
	if c.Nested && !c.Config.nestOK() {
		res.Skip("nesting-on-a-sharded-generic-group")
		return res
	}
	lk := c.build()
	sched := vkit.NewSched()
	mons := make([]monitor, c.NKeys)
	var (
		mu        sync.Mutex
		violation string
		sections  atomic.Int64
	)
	report := func(format string, args ...any) {
		mu.Lock()
		if violation == "" {
			violation = fmt.Sprintf(format, args...)
		}
		mu.Unlock()
	}
	enter := func(g int, keys []int, write bool) {
		for _, k := range keys {
			m := &mons[k]
			if write {
				ws, rs := m.writers.Add(1), m.readers.Load()
				if ws != 1 || rs != 0 {
					report("goroutine %d holds key %d for writing together with %d other writers and %d readers", g, k, ws-1, rs)
				}
			} else {
				rs, ws := m.readers.Add(1), m.writers.Load()
				_ = rs
				if ws != 0 {
					report("goroutine %d holds key %d for reading while %d writers hold it", g, k, ws)
				}
			}
		}
	}
	leave := func(keys []int, write bool) {
		for _, k := range keys {
			if write {
				mons[k].writers.Add(-1)
			} else {
				mons[k].readers.Add(-1)
			}
		}
	}
	var run func(g int, prog []StressOp, minKey int) int
	run = func(g int, prog []StressOp, minKey int) int {
		i := 0
		for i < len(prog) {
			op := prog[i]
			ok := validKeys(op.Keys, c.NKeys) && (len(op.Keys) == 1 || (lk.multi() && (!c.Nested || c.Config.nestMultiOK()))) && op.Keys[0] > minKey
			if !ok {
				i++
				continue
			}
			multi := op.Multi && lk.multi() && !c.Nested
			lk.lock(op.Keys, op.Write, multi)
			enter(g, op.Keys, op.Write)
			sections.Add(1)
			for h := 0; h < op.Hold; h++ {
				runtime.Gosched()
			}
			consumed := 1
			if c.Nested && op.Nest > 0 {
				end := i + 1 + op.Nest
				if end > len(prog) {
					end = len(prog)
				}
				// inner ops must use larger keys than everything held: the consistent global order
				run(g, prog[i+1:end], op.Keys[len(op.Keys)-1])
				consumed = end - i
			}
			leave(op.Keys, op.Write)
			lk.unlock(op.Keys, op.Write, multi)
			i += consumed
		}
		return i
	}
	start := make(chan struct{})
	for g, prog := range c.Progs {
		g, prog := g, prog
		sched.Go(fmt.Sprintf("worker-%d", g), func() {
			<-start
			run(g, prog, -1)
		})
	}
	close(start)
	sched.MustQuiesce()
	if parked := sched.ParkedOps(); len(parked) > 0 {
		names := []string{}
		for _, p := range parked {
			names = append(names, p.Name)
		}
		sort.Strings(names)
		res.Failf("stress-deadlock", "goroutines parked forever although every program releases what it takes and all use one global key order: %v", names)
		return res
	}
	for _, op := range sched.Ops() {
		if p := op.Panic(); p != nil {
			res.Failf("stress-panic", "%s panicked: %v", op.Name, p)
			return res
		}
	}
	if violation != "" {
		res.Failf("stress-exclusion", "%s", violation)
		return res
	}
	if n := keylock.VerifEntries(lk.raw()); n != 0 {
		res.Failf("stress-residue", "every goroutine finished but the locker retains %d entries", n)
		return res
	}
	if c.Nested {
		res.Class("nested-single-key")
	} else if lk.multi() {
		res.Class("flat-with-multi-key")
	}
	if c.Procs > 1 {
		res.Class("parallel")
	}
	res.NonTrivial = len(c.Progs) >= 2 && sections.Load() >= 2
	return res
}

// ---------------------------------------------------------------------------
// probe of known finding F21 (known_findings.jsonl): on a generic sharded group with several shards a multi-key
// call takes its keys in (shard, list) order, so a goroutine that holds key a and then asks for a larger key b -
// every list ascending, every call respecting the one global order - deadlocks against Locks([a,b]) when
// shard(b) < shard(a). The generator above excludes that region by construction (nestOK); this part re-checks
// that the finding still fails and keeps it visible.

type CaseF21 struct {
	XHash       bool `json:"xhash"`
	Shards      int  `json:"shards"`
	NestedMulti bool `json:"nested_multi"` // the nested request goes through Locks([b]) instead of Lock(b)
	ReadBatch   bool `json:"read_batch"`   // the batch is RLocks([a,b]) (the holder of a is a writer either way)
}

func GenF21(t *rapid.T) CaseF21 {
	return CaseF21{
		XHash:       rapid.Bool().Draw(t, "xhash"),
		Shards:      rapid.SampledFrom([]int{2, 3, 7, 73}).Draw(t, "shards"),
		NestedMulti: rapid.Bool().Draw(t, "nestedmulti"),
		ReadBatch:   rapid.Bool().Draw(t, "readbatch"),
	}
}

func ExecF21(c CaseF21) *vkit.Result {
	res := &vkit.Result{NonTrivial: true}
	if c.Shards < 2 || c.Shards > 1000 {
		res.Skip("malformed-config")
		return res
	}
	rm := remap.NewReMap(remap.WithPrime(uint64(c.Shards)))
	idx := rm.SimpleIndex
	if c.XHash {
		idx = rm.XHashIndex
	}
	// the smallest pair a < b with shard(b) < shard(a)
	a, b := -1, -1
	for x := 0; x < 500 && a < 0; x++ {
		for y := x + 1; y < 500; y++ {
			if idx(y) < idx(x) {
				a, b = x, y
				break
			}
		}
	}
	if a < 0 {
		res.Skip("no-inverted-pair")
		return res
	}
	var lk keylock.TLocker[int]
	if c.XHash {
		lk = keylock.NewTXHashTKeyLockeGrp[int](remap.WithPrime(uint64(c.Shards)))
	} else {
		lk = keylock.NewTKeyLockeGrp[int](remap.WithPrime(uint64(c.Shards)))
	}
	sched := vkit.NewSched()
	lk.Lock(a) // goroutine 1 (the controller plays its first call) holds a
	batch := sched.Go("batch", func() {
		if c.ReadBatch {
			lk.RLocks([]int{a, b})
			lk.RUnlocks([]int{a, b})
		} else {
			lk.Locks([]int{a, b})
			lk.Unlocks([]int{a, b})
		}
	})
	sched.MustQuiesce()                   // the batch is parked: it needs a
	nested := sched.Go("nested", func() { // goroutine 1 goes on: asks for the larger key b, then releases both
		if c.NestedMulti {
			lk.Locks([]int{b})
			lk.Unlocks([]int{b})
		} else {
			lk.Lock(b)
			lk.Unlock(b)
		}
		lk.Unlock(a)
	})
	sched.MustQuiesce()
	if !nested.Done() || !batch.Done() {
		return res.Failf("deadlock/nested-ordered-calls-on-sharded-group", "shards %d (xhash %v): a goroutine holds key %d (shard %d) and asks for key %d (shard %d) while another calls Locks([%d %d]): both are parked forever although every call respects the ascending key order",
			c.Shards, c.XHash, a, idx(a), b, idx(b), a, b)
	}
	res.Class("no-deadlock")
	return res
}

// ---------------------------------------------------------------------------

var PartCtl = &vkit.Part[CaseCtl]{
	Property: Property, Name: "controlled",
	Rule:  "rapid: {KeyLocker | KeyLockerGrp (mod/xxhash) | TKeyLocker | TKeyLockerGrp (mod/xxhash), int or string keys, shards 1/2/3/73, 2-6 (sometimes 14-24 or 34-64) keys spread over or colliding in shards, lists of up to 64 keys incl. the whole key set in one call, followed by single calls on its last keys; on KeyLocker and TKeyLocker[any] in half of the cases keys of other kinds: nil, floats, bools, arrays, structs, pointers, channels, named types and the strings they print as} + 4-24 steps (Lock/RLock of one key, Locks/RLocks of a duplicate-free ascending sub-list, unlock by the actor); every call on its own goroutine, quiescence after every step. Oracle (fairness-agnostic): holders observed at quiescence satisfy exclusion on every key of every returned call; a parked call must have a conflicting holder or another waiter on one of its keys; parked calls need some holder; drain must complete everything; 0 entries when nothing is held. Non-trivial: some call had to wait; distinct = distinct case JSON",
	Quick: 2500, Thorough: 15000,
	Gen: GenCtl, Exec: ExecCtl,
}

var stressRule = "rapid: same configurations; 3-12 free-running goroutines run 1-8 ops each: either flat single/multi-key lock-hold-unlock ops, or nested single-key locks in ascending key order; GOMAXPROCS 1/2/4/8. Oracle: atomic in-section reader/writer counters on every key of every held call, quiescence with unfinished goroutines = deadlock, 0 entries at the end. Non-trivial: >= 2 goroutines and >= 2 critical sections; distinct = distinct case JSON"

var PartStress = &vkit.Part[CaseStress]{
	Property: Property, Name: "stress",
	Rule:  stressRule,
	Quick: 400, Thorough: 3000,
	Gen: GenStress, Exec: ExecStress,
}

var PartStressRace = &vkit.Part[CaseStress]{
	Property: Property, Name: "race-stress",
	Rule:  stressRule + " (binary built with -race)",
	Quick: 150, Thorough: 1500,
	Gen: GenStress, Exec: ExecStress,
}

var PartF21 = &vkit.Part[CaseF21]{
	Property: Property, Name: "known-f21-probe",
	Rule:  "the recorded finding F21, re-checked: generic sharded group (modulo / xxhash, 2/3/7/73 shards), the smallest key pair a < b with shard(b) < shard(a); one goroutine holds a and then asks for b (Lock or Locks([b])), another calls Locks/RLocks([a,b]); both parked at quiescence = the known deadlock. Every case is non-trivial; distinct = distinct case JSON",
	Quick: 6, Thorough: 6,
	Gen: GenF21, Exec: ExecF21,
}
