package c02keylock

import (
	"testing"

	"verifharness/vkit"
)

func TestMain(m *testing.M) { vkit.Main(m) }

func TestProp_Controlled(t *testing.T) { PartCtl.Run(t) }
func TestProp_Stress(t *testing.T)     { PartStress.Run(t) }
func TestProp_Crowd(t *testing.T)      { PartCrowd.Run(t) }
func TestProp_Long(t *testing.T)       { PartLong.Run(t) }
func TestProp_ReclaimGC(t *testing.T)  { PartReclaim.Run(t) }
func TestProp_Hammer(t *testing.T)     { PartHammer.Run(t) }
func TestRace_Stress(t *testing.T)     { PartStressRace.Run(t) }
func TestEnum_KnownF21(t *testing.T)   { PartF21.Run(t) }

func TestReplay(t *testing.T) {
	PartCtl.Replay(t, 1)
	PartStress.Replay(t, 50)
	PartStressRace.Replay(t, 50)
	PartF21.Replay(t, 1)
	PartCrowd.Replay(t, 1)
	PartLong.Replay(t, 1)
	PartReclaim.Replay(t, 1)
	PartHammer.Replay(t, 20)
}
