package c02keylock

// part "long": few, long histories on ONE locker instance.
//
// Some keys are held throughout (write-held and read-held: a handful, or 130-600 of them at once), while the
// controller's goroutines run 600-5000 lock/unlock cycles (single calls and batches) on OTHER keys, so that the locker
// frees thousands of entries and its table grows, shrinks and ages. Then more keys are taken, one long batch is
// held, and contenders ask for the keys that were taken first: a contender for a held key must be parked at
// quiescence (exclusion survives any amount of unrelated traffic), a reader next to readers and a call on a free key
// must return (sharing, key independence). The entry count and the per-key reference counts of the verification hooks
// are compared with the model at every checkpoint, and inside every cycle for the cycled key. Every library call runs
// on a goroutine of the schedule, so a call that blocks under a defect is a verdict at quiescence, not a hang.

import (
	"fmt"
	"sync/atomic"
	"time"

	"github.com/pinealctx/neptune/syncx/keylock"
	"pgregory.net/rapid"

	"verifharness/vkit"
)

type CaseLong struct {
	Config         // NKeys is not used here
	HeldW      int `json:"held_w"`     // keys 0..HeldW-1 are write-held throughout
	HeldR      int `json:"held_r"`     // the next HeldR keys are read-held throughout
	ReadDepth  int `json:"read_depth"` // read locks per read-held key
	HoldBatch  int `json:"hold_batch"` // > 0 (generic lockers): the held keys are taken by Locks/RLocks with lists of this length
	Cycles     int `json:"cycles"`     // lock/unlock cycles on other keys, all workers together
	CycleKeys  int `json:"cycle_keys"` // distinct keys the cycles of one worker rotate over
	BatchEvery int `json:"batch_every"`
	BatchLen   int `json:"batch_len"`
	ReadPct    int `json:"read_pct"`
	Workers    int `json:"workers"`  // goroutines that run the cycles, on disjoint key ranges
	Segments   int `json:"segments"` // checkpoints (quiescence, hooks against the model) during the cycles
	More       int `json:"more"`     // keys taken after the cycles (alternately write / read)
	// BigBatch > 0 (generic lockers): one list of that many free keys is held by Locks (BigBatchRead: RLocks) while
	// its last and a middle key are asked for by single calls
	BigBatch     int  `json:"big_batch"`
	BigBatchRead bool `json:"big_batch_read,omitempty"`
	SplitRelease bool `json:"split_release,omitempty"` // the held keys are released through the other entry points
}

func GenLong(t *rapid.T) CaseLong {
	c := CaseLong{}
	c.Type = rapid.SampledFrom([]string{"KeyLocker", "KeyLocker", "KeyLockerGrp", "KeyLockerGrpX", "TKeyLocker", "TKeyLocker", "TKeyLockerGrp", "TKeyLockerGrpX"}).Draw(t, "type")
	c.StrKey = rapid.IntRange(0, 3).Draw(t, "strkey") == 0
	c.Shards = rapid.SampledFrom([]uint64{1, 2, 3, 3, 7, 64, 257, 1000}).Draw(t, "shards")
	c.NKeys = 1
	c.Stride = rapid.SampledFrom([]int{1, 1, int(c.Shards), 5}).Draw(t, "stride")
	c.Base = rapid.SampledFrom([]int{0, 0, 57, 1000, -5, -1000, 1 << 40}).Draw(t, "base")
	if rapid.Bool().Draw(t, "manyheld") {
		c.HeldR = rapid.SampledFrom([]int{0, 129, 130, 200, 300, 600}).Draw(t, "heldr")
		c.HeldW = rapid.SampledFrom([]int{1, 5, 130, 300}).Draw(t, "heldw")
		if c.HeldR+c.HeldW < 130 {
			c.HeldR = 130
		}
	} else {
		c.HeldW = rapid.IntRange(0, 3).Draw(t, "heldwfew")
		c.HeldR = rapid.IntRange(0, 3).Draw(t, "heldrfew")
		if c.HeldW+c.HeldR == 0 {
			c.HeldW = 1
		}
	}
	c.ReadDepth = rapid.SampledFrom([]int{1, 1, 2, 3}).Draw(t, "readdepth")
	c.HoldBatch = rapid.SampledFrom([]int{0, 0, 1, 7, 64, 1000}).Draw(t, "holdbatch")
	c.Cycles = rapid.SampledFrom([]int{600, 700, 1100, 2500, 5000}).Draw(t, "cycles")
	c.CycleKeys = rapid.SampledFrom([]int{1, 2, 7, 300, c.Cycles}).Draw(t, "cyclekeys")
	c.BatchEvery = rapid.SampledFrom([]int{0, 2, 5, 50}).Draw(t, "batchevery")
	c.BatchLen = rapid.SampledFrom([]int{1, 2, 3, 8, 45, 64}).Draw(t, "batchlen")
	c.ReadPct = rapid.SampledFrom([]int{0, 0, 30, 100}).Draw(t, "readpct")
	c.Workers = rapid.IntRange(1, 3).Draw(t, "workers")
	c.Segments = rapid.IntRange(1, 4).Draw(t, "segments")
	c.More = rapid.SampledFrom([]int{0, 1, 5, 40}).Draw(t, "more")
	c.BigBatch = rapid.SampledFrom([]int{0, 44, 45, 46, 64, 100, 129, 300}).Draw(t, "bigbatch")
	c.BigBatchRead = rapid.IntRange(0, 3).Draw(t, "bigbatchread") == 0
	c.SplitRelease = rapid.IntRange(0, 3).Draw(t, "splitrelease") == 0
	return c
}

func (c CaseLong) valid() bool {
	cfg := c.Config
	cfg.NKeys, cfg.Perm, cfg.TypeMix = 1, nil, false
	return cfg.valid() && len(c.Perm) == 0 && !c.TypeMix &&
		c.HeldW >= 0 && c.HeldW <= 2000 && c.HeldR >= 0 && c.HeldR <= 2000 && c.HeldW+c.HeldR >= 1 &&
		c.ReadDepth >= 1 && c.ReadDepth <= 8 && c.HoldBatch >= 0 && c.HoldBatch <= 5000 &&
		c.Cycles >= 0 && c.Cycles <= 200000 && c.CycleKeys >= 1 && c.CycleKeys <= 200000 &&
		c.BatchEvery >= 0 && c.BatchLen >= 1 && c.BatchLen <= 1000 && c.ReadPct >= 0 && c.ReadPct <= 100 &&
		c.Workers >= 1 && c.Workers <= 8 && c.Segments >= 1 && c.Segments <= 64 && c.More >= 0 && c.More <= 2000 &&
		c.BigBatch >= 0 && c.BigBatch <= 5000
}

// The cases of the long parts cost tens of milliseconds; the property library honours its minimisation time limit
// only between two choices, not within the search over one, so that minimising such a case can take minutes. Once a
// case of these parts has failed in this process (the verdict and its replay file exist from then on), further
// executions - they come from the minimiser only - are answered for shrinkBudget and then declined. Replays run in
// a fresh process and are never declined.
const shrinkBudget = 8 * time.Second

var firstFailure atomic.Int64 // unix nanoseconds; 0 = none so far

func shrinkBudgetSpent() bool {
	t := firstFailure.Load()
	return t != 0 && time.Since(time.Unix(0, t)) > shrinkBudget
}

func noteFailure(res *vkit.Result) {
	if res != nil && res.Fail != nil {
		firstFailure.CompareAndSwap(0, time.Now().UnixNano())
	}
}

// seqKeys returns the key indexes from, from+1, ..., from+n-1.
func seqKeys(from, n int) []int {
	ks := make([]int, n)
	for i := range ks {
		ks[i] = from + i
	}
	return ks
}

// lockList takes (or releases) the listed keys in ascending order: by batches of `batch` keys where the locker has
// multi-key calls and batch > 0, else one by one.
func lockList(lk locker, keys []int, write bool, batch int, unlock bool) {
	if batch > 0 && lk.multi() {
		for len(keys) > 0 {
			n := min(batch, len(keys))
			if unlock {
				lk.unlock(keys[:n], write, true)
			} else {
				lk.lock(keys[:n], write, true)
			}
			keys = keys[n:]
		}
		return
	}
	for _, k := range keys {
		if unlock {
			lk.unlock([]int{k}, write, false)
		} else {
			lk.lock([]int{k}, write, false)
		}
	}
}

func ExecLong(c CaseLong) *vkit.Result {
	res := &vkit.Result{}
	if !c.valid() {
		res.Skip("malformed-config")
		return res
	}
	if shrinkBudgetSpent() {
		res.Skip("shrink-budget-spent")
		return res
	}
	defer func() { noteFailure(res) }()
	lk := c.build()
	sched := vkit.NewSched()
	desc := fmt.Sprintf("%s (shards %d, stride %d, string keys %v)", c.Type, c.Shards, c.Stride, c.StrKey)

	// key layout
	wKeys := seqKeys(0, c.HeldW)
	rKeys := seqKeys(c.HeldW, c.HeldR)
	moreFrom := c.HeldW + c.HeldR
	span := c.CycleKeys + c.BatchLen - 1 // keys of one worker
	cycleFrom := moreFrom + c.More
	bigFrom := cycleFrom + c.Workers*span
	freeKey := bigFrom + c.BigBatch

	// model: reference counts of the keys that are held between the phases
	type cnt struct{ r, w int }
	held := map[int]cnt{}
	var heldOrder []int // keys in the order they were taken
	hold := func(k int, write bool, n int) {
		x, ok := held[k]
		if !ok {
			heldOrder = append(heldOrder, k)
		}
		if write {
			x.w += n
		} else {
			x.r += n
		}
		held[k] = x
	}

	// run issues fn on a goroutine of the schedule and decides at quiescence: it must have returned.
	run := func(what string, fn func()) bool {
		op := sched.Go(what, fn)
		sched.MustQuiesce()
		if p := op.Panic(); p != nil {
			res.Failf("long/panic", "%s: %s panicked: %v", desc, what, p)
			return false
		}
		if !op.Done() {
			res.Failf("long/blocked-without-conflict", "%s: %s is parked forever although every key it asks for is free (other keys are held: %d write-held, %d read-held)", desc, what, c.HeldW, c.HeldR)
			return false
		}
		return true
	}

	// best effort on a failing case: release what the model holds so that parked contenders can go away - only where
	// the verdict is about liveness; after any other verdict the table is not what the model says, and releasing
	// by the model could bring the process down (unlock of an unlocked RWMutex is fatal) before the case is saved
	coherent := false
	defer func() {
		if res.Fail == nil || !coherent {
			return
		}
		order, counts := heldOrder, held
		sched.Go("cleanup", func() {
			for _, k := range order {
				func() {
					defer func() { _ = recover() }()
					for i := 0; i < counts[k].w; i++ {
						lk.unlock([]int{k}, true, false)
					}
					for i := 0; i < counts[k].r; i++ {
						lk.unlock([]int{k}, false, false)
					}
				}()
			}
		})
		_, _ = sched.Quiesce()
	}()

	// checkpoint: the hooks against the model. A mismatch is noted and the history goes on to the contenders, which
	// show what it means in terms of the statement; if they show nothing the mismatch itself is reported.
	var hookSite, hookMsg string
	checkpoint := func(when string) {
		if hookSite != "" {
			return
		}
		if n := keylock.VerifEntries(lk.raw()); n != len(held) {
			hookSite, hookMsg = "long/entries", fmt.Sprintf("%s, %s: %d keys are held (nobody waits), the locker keeps %d entries", desc, when, len(held), n)
			return
		}
		for _, k := range heldOrder {
			x := held[k]
			r, w, present := keylock.VerifKeyCounts(lk.raw(), lk.keyVal(k))
			if !present || r != x.r || w != x.w {
				hookSite, hookMsg = "long/key-counts", fmt.Sprintf("%s, %s: key #%d (%v) is held by %d readers and %d writers; the locker's entry: present %v, %d readers, %d writers", desc, when, k, lk.keyVal(k), x.r, x.w, present, r, w)
				return
			}
		}
	}

	// phase 1: the keys that stay held
	ok := run("taking the keys that stay held", func() {
		lockList(lk, wKeys, true, c.HoldBatch, false)
		for d := 0; d < c.ReadDepth; d++ {
			lockList(lk, rKeys, false, c.HoldBatch, false)
		}
	})
	if !ok {
		return res
	}
	for _, k := range wKeys {
		hold(k, true, 1)
	}
	for _, k := range rKeys {
		hold(k, false, c.ReadDepth)
	}
	checkpoint("after taking the keys that stay held")
	if len(held) >= 130 {
		res.Class("held>=130")
	}

	// phase 2: cycles on other keys
	perChunk := c.Cycles / (c.Workers * c.Segments)
	next := make([]int, c.Workers) // cycle counter per worker
	bad := make([]string, c.Workers)
	frees := 0
	for seg := 0; seg < c.Segments && perChunk > 0; seg++ {
		var ops []*vkit.Op
		for w := 0; w < c.Workers; w++ {
			w := w
			from := cycleFrom + w*span
			ops = append(ops, sched.Go(fmt.Sprintf("cycles of worker %d", w), func() {
				for n := 0; n < perChunk && bad[w] == ""; n++ {
					i := next[w]
					next[w]++
					write := (i*37)%100 >= c.ReadPct
					keys := []int{from + i%c.CycleKeys}
					multi := false
					if c.BatchEvery > 0 && i%c.BatchEvery == 0 {
						keys = seqKeys(from+i%c.CycleKeys, c.BatchLen)
						multi = true
					}
					if multi && !lk.multi() {
						// no multi-key calls: the same keys one by one, ascending
						lockList(lk, keys, write, 0, false)
					} else {
						lk.lock(keys, write, multi)
					}
					for _, k := range keys {
						r, wr, present := keylock.VerifKeyCounts(lk.raw(), lk.keyVal(k))
						wantR, wantW := 1, 0
						if write {
							wantR, wantW = 0, 1
						}
						if !present || r != wantR || wr != wantW {
							bad[w] = fmt.Sprintf("cycle %d of worker %d holds key #%d (%v) for %s and nobody else uses that key; the locker's entry: present %v, %d readers, %d writers", i, w, k, lk.keyVal(k), rw(write), present, r, wr)
						}
					}
					if multi && !lk.multi() {
						lockList(lk, keys, write, 0, true)
					} else {
						lk.unlock(keys, write, multi)
					}
					for _, k := range keys {
						if r, wr, present := keylock.VerifKeyCounts(lk.raw(), lk.keyVal(k)); present && bad[w] == "" {
							bad[w] = fmt.Sprintf("cycle %d of worker %d released key #%d (%v), nobody else uses that key; the locker still has an entry for it (%d readers, %d writers)", i, w, k, lk.keyVal(k), r, wr)
						}
					}
				}
			}))
		}
		sched.MustQuiesce()
		for w, op := range ops {
			if p := op.Panic(); p != nil {
				res.Failf("long/panic", "%s: after %d cycles on other keys (%d keys stay held) a cycle of worker %d panicked: %v", desc, next[w], len(held), w, p)
				return res
			}
			if !op.Done() {
				res.Failf("long/blocked-without-conflict", "%s: cycle %d of worker %d is parked forever; it uses keys nobody else uses (%d other keys stay held)", desc, next[w], w, len(held))
				return res
			}
			if bad[w] != "" {
				res.Failf("long/key-counts", "%s: %s", desc, bad[w])
				return res
			}
		}
		frees = 0
		for _, n := range next {
			frees += n
		}
		checkpoint(fmt.Sprintf("after %d cycles on other keys", frees))
	}
	if frees >= 512 {
		res.Class("frees>=512")
	}
	if frees >= 2048 {
		res.Class("frees>=2048")
	}

	// phase 3: more keys, taken one by one
	if c.More > 0 {
		ok := run("taking more keys", func() {
			for i := 0; i < c.More; i++ {
				lk.lock([]int{moreFrom + i}, i%2 == 0, false)
			}
		})
		if !ok {
			return res
		}
		for i := 0; i < c.More; i++ {
			hold(moreFrom+i, i%2 == 0, 1)
		}
		checkpoint(fmt.Sprintf("after taking %d more keys", c.More))
	}

	// phase 4: one long batch on free keys, held
	bigKeys := seqKeys(bigFrom, c.BigBatch)
	bigHeld := c.BigBatch > 0 && lk.multi()
	if bigHeld {
		ok := run(fmt.Sprintf("%s of %d free keys", map[bool]string{true: "Locks", false: "RLocks"}[!c.BigBatchRead], c.BigBatch), func() {
			lk.lock(bigKeys, !c.BigBatchRead, true)
		})
		if !ok {
			return res
		}
		for _, k := range bigKeys {
			hold(k, !c.BigBatchRead, 1)
		}
		checkpoint(fmt.Sprintf("with a batch of %d keys held", c.BigBatch))
		res.Class("batch-of>=44-held")
	}

	// phase 5: contenders. mustPark: the key is held in a conflicting mode.
	type probe struct {
		key      int
		write    bool
		mustPark bool
		op       *vkit.Op
	}
	var probes []*probe
	busy := map[int]bool{}
	add := func(k int, write bool) {
		if busy[k] {
			return
		}
		busy[k] = true
		x := held[k]
		probes = append(probes, &probe{key: k, write: write, mustPark: x.w > 0 || (write && x.r > 0)})
	}
	if n := len(wKeys); n > 0 {
		add(wKeys[0], true)
		add(wKeys[n-1], false)
		add(wKeys[n/2], true)
		add(wKeys[n/3], false)
	}
	if n := len(rKeys); n > 0 {
		add(rKeys[0], true)
		add(rKeys[n-1], false)
		add(rKeys[n/2], true)
		add(rKeys[n/3], true)
		add(rKeys[2*n/3], false)
	}
	if c.More > 0 {
		add(moreFrom, false)          // write-held
		add(moreFrom+c.More-1, true)  // write- or read-held
		add(moreFrom+c.More/2, false) //
	}
	if bigHeld {
		add(bigKeys[c.BigBatch-1], true)
		add(bigKeys[c.BigBatch/2], c.BigBatchRead)
		add(bigKeys[c.BigBatch*9/10], true)
		add(bigKeys[0], true)
	}
	add(freeKey, true)   // never used
	add(cycleFrom, true) // used and released many times
	for _, p := range probes {
		p := p
		p.op = sched.Go(fmt.Sprintf("contender for key #%d (%s)", p.key, rw(p.write)), func() {
			lk.lock([]int{p.key}, p.write, false)
			lk.unlock([]int{p.key}, p.write, false)
		})
	}
	sched.MustQuiesce()
	for _, p := range probes {
		x := held[p.key]
		if pn := p.op.Panic(); pn != nil {
			res.Failf("long/panic", "%s: %s panicked: %v", desc, p.op.Name, pn)
			return res
		}
		if p.mustPark && p.op.Done() {
			res.Failf("long/exclusion", "%s: key #%d (%v) is held by %d writers and %d readers since before %d lock/unlock cycles on other keys (%d keys held in all); a %s lock on it was granted to another goroutine",
				desc, p.key, lk.keyVal(p.key), x.w, x.r, frees, len(held), rw(p.write))
			return res
		}
		if !p.mustPark && !p.op.Done() {
			coherent = hookSite == ""
			res.Failf("long/blocked-without-conflict", "%s: a %s lock on key #%d (%v), which is held by %d writers and %d readers and has no waiter, is parked forever (%d other keys held, %d cycles on other keys before)",
				desc, rw(p.write), p.key, lk.keyVal(p.key), x.w, x.r, len(held), frees)
			return res
		}
	}
	if hookSite != "" {
		res.Failf(hookSite, "%s", hookMsg)
		return res
	}
	res.NonTrivial = true

	// phase 6: release everything; every contender gets through
	ok = run("releasing the held keys", func() {
		if bigHeld {
			lk.unlock(bigKeys, !c.BigBatchRead, true)
		}
		for i := c.More - 1; i >= 0; i-- {
			lk.unlock([]int{moreFrom + i}, i%2 == 0, false)
		}
		batch := c.HoldBatch
		if c.SplitRelease {
			// the other entry points: what came by batches goes key by key and the other way round
			if batch > 0 {
				batch = 0
			} else {
				batch = 16
			}
		}
		for d := 0; d < c.ReadDepth; d++ {
			lockList(lk, rKeys, false, batch, true)
		}
		lockList(lk, wKeys, true, batch, true)
	})
	held, heldOrder = map[int]cnt{}, nil
	if !ok {
		return res
	}
	for _, p := range probes {
		if pn := p.op.Panic(); pn != nil {
			res.Failf("long/panic", "%s: %s panicked: %v", desc, p.op.Name, pn)
			return res
		}
		if !p.op.Done() {
			res.Failf("long/deadlock", "%s: every key has been released, the %s is still parked", desc, p.op.Name)
			return res
		}
	}
	if n := keylock.VerifEntries(lk.raw()); n != 0 {
		res.Failf("long/residue", "%s: every lock has been released but the locker retains %d entries", desc, n)
		return res
	}
	if got, fresh := deepElems(lk.raw()), deepElems(c.build().raw()); got != fresh {
		res.Failf("long/residue", "%s: every lock has been released and the lock table is empty, but the locker's maps/slices/sync.Maps hold %d elements, a fresh locker of the same configuration %d", desc, got, fresh)
	}
	return res
}

var PartLong = &vkit.Part[CaseLong]{
	Property: Property, Name: "long",
	Rule:  "rapid: one locker of every kind (int or string keys, 1-1000 shards); 1-6 or 130-900 keys held throughout (write-held and read-held, read depth 1-3, taken one by one or by batches), 600-5000 lock/unlock cycles (single and batches of up to 64 keys, 1-3 goroutines on disjoint keys, rotating over 1 ... 5000 keys) on other keys with the hooks' per-key counts compared inside and after every cycle, checkpoints (entry count and per-key counts = model) at quiescence, 0-40 more keys, one batch of 44-300 keys held; then contenders for the first, middle and last held keys and for the last keys of the batch: parked at quiescence where the mode conflicts, returned where it does not (readers next to readers, free keys); release, every contender completes, 0 entries, no retained elements. Every case is non-trivial; distinct = distinct case JSON",
	Quick: 48, Thorough: 400,
	Gen: GenLong, Exec: ExecLong,
}
