package c02keylock

// Key kinds of the unsharded lockers. KeyLocker takes interface{} keys and TKeyLocker[T] any comparable T (here
// T = any): every comparable Go value is a key, and two keys are the same key exactly when Go's == says so. The
// table holds, for three small numbers v, the value as int, float, complex, array, struct, named type, pointer,
// channel, ... next to the STRINGS these values print as ("1", "[1]", "{1}", "(1+0i)", "<nil>", "true"), and the nil
// key. A locker that normalises keys (by printing them, by reflect.Value.Int, by dropping nil) merges keys that the
// statement keeps apart ("holding one key never blocks operations on a different key") or stops excluding on them.
// The sharded lockers route through remap.ToBytes, which panics for most of these kinds, so they are not asked.

import (
	"fmt"

	"pgregory.net/rapid"
)

type (
	kInt    int
	kStr    string
	kStruct struct{ A int }
	kPair   struct {
		A int
		B string
	}
	kSStruct struct{ B string }
)

var (
	kindTable    []interface{}
	kindSpecials []int    // indexes of the values that do not belong to a number
	kindFamily   [3][]int // indexes of the values made from v = 0, 1, 2
)

func init() {
	add := func(group *[]int, vs ...interface{}) {
		for _, v := range vs {
			*group = append(*group, len(kindTable))
			kindTable = append(kindTable, v)
		}
	}
	add(&kindSpecials, nil, "<nil>", true, "true", false, "false", (*keyObj)(nil), (*int)(nil), struct{}{}, "{}", [0]int{}, "[]", "")
	for v := 0; v < 3; v++ {
		s := fmt.Sprint(v)
		add(&kindFamily[v],
			v, s, float64(v), float32(v), complex(float64(v), 0), "("+s+"+0i)",
			[1]int{v}, "["+s+"]", [1]string{s}, [1]interface{}{v}, [2]int{v, v}, "["+s+" "+s+"]",
			kStruct{v}, "{"+s+"}", kSStruct{s}, kPair{v, "x"}, "{"+s+" x}",
			kInt(v), kStr(s), uintptr(v), int8(v), uint64(v),
			&keyObj{id: v}, make(chan int), float64(v)+0.5, s+".5",
		)
	}
	// all different keys, by the very rule the lockers' tables use
	m := map[interface{}]bool{}
	for _, k := range kindTable {
		m[k] = true
	}
	if len(m) != len(kindTable) {
		panic("c02keylock: kindTable holds equal keys")
	}
}

// genKinds draws n different keys: mostly from one number's family and the special values, so that values which
// print alike meet in small key sets.
func genKinds(t *rapid.T, n int) []int {
	fam := rapid.IntRange(0, 2).Draw(t, "kindfamily")
	cands := append(append([]int{}, kindSpecials...), kindFamily[fam]...)
	if n > len(cands) || rapid.IntRange(0, 4).Draw(t, "allfamilies") == 0 {
		cands = seqInts(len(kindTable))
	}
	if n > len(cands) {
		n = len(cands)
	}
	var out []int
	seen := map[int]bool{}
	if rapid.IntRange(0, 2).Draw(t, "nilkey") == 0 {
		out, seen[0] = append(out, 0), true // the nil key
	}
	for len(out) < n {
		k := rapid.SampledFrom(cands).Draw(t, "kind")
		if !seen[k] {
			seen[k] = true
			out = append(out, k)
		}
	}
	return out
}
