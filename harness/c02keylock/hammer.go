package c02keylock

// part "hammer": 4-8 goroutines, thousands of operations each, on ONE key (or two).
//
// The stress programs are short (at most 8 ops per goroutine): windows of a few instructions inside the locker - an
// entry looked up in one critical section and counted in another, an entry freed a moment after the count dropped to
// zero - are hit once in thousands of lock/unlock pairs on the same key, with the entry created and freed all the
// time. Here the same key is locked and unlocked 10^4..10^5 times by several goroutines in parallel; exclusion is
// checked by owner counters inside the critical section, liveness at quiescence, the entry count at the end.

import (
	"fmt"
	"runtime"
	"sync/atomic"

	"github.com/pinealctx/neptune/syncx/keylock"
	"pgregory.net/rapid"

	"verifharness/vkit"
)

type CaseHammer struct {
	Config         // NKeys: 1 or 2
	Procs      int `json:"procs"`
	Goroutines int `json:"goroutines"`
	Ops        int `json:"ops"` // per goroutine
	// Mode: "split" = even goroutines write, odd ones read; "write" = all write; "mixed" = every goroutine alternates
	// by a fixed rule
	Mode       string `json:"mode"`
	Multi      bool   `json:"multi,omitempty"` // generic lockers: through Locks/RLocks with one-key lists
	YieldEvery int    `json:"yield_every,omitempty"`
}

func GenHammer(t *rapid.T) CaseHammer {
	c := CaseHammer{}
	c.Type = rapid.SampledFrom([]string{"KeyLocker", "KeyLocker", "KeyLockerGrp", "KeyLockerGrpX", "TKeyLocker", "TKeyLocker", "TKeyLockerGrp", "TKeyLockerGrpX"}).Draw(t, "type")
	c.StrKey = rapid.IntRange(0, 3).Draw(t, "strkey") == 0
	c.Shards = rapid.SampledFrom([]uint64{1, 2, 3, 73}).Draw(t, "shards")
	c.NKeys = rapid.SampledFrom([]int{1, 2}).Draw(t, "nkeys")
	c.Stride = rapid.SampledFrom([]int{1, int(c.Shards)}).Draw(t, "stride")
	c.Base = rapid.SampledFrom([]int{0, 57, -5}).Draw(t, "base")
	c.Procs = rapid.SampledFrom([]int{2, 4, 8}).Draw(t, "procs")
	c.Goroutines = rapid.IntRange(4, 8).Draw(t, "goroutines")
	c.Ops = rapid.SampledFrom([]int{4000, 8000, 12000}).Draw(t, "ops")
	if vkit.Tier() == "thorough" {
		c.Ops *= 2
	}
	c.Mode = rapid.SampledFrom([]string{"split", "split", "write", "write", "mixed"}).Draw(t, "mode")
	c.Multi = rapid.IntRange(0, 3).Draw(t, "multi") == 0
	// a yield after every (2nd, 3rd) pair leaves the key idle again and again: its entry is freed and re-made all the
	// time, which is when the windows around creation and disposal of an entry matter (measured: 5-10 times the
	// catch rate of unyielding goroutines, under which the entry never goes away)
	c.YieldEvery = rapid.SampledFrom([]int{1, 1, 2, 3, 7, 0, 64}).Draw(t, "yield")
	return c
}

func ExecHammer(c CaseHammer) *vkit.Result {
	res := &vkit.Result{}
	okMode := c.Mode == "split" || c.Mode == "write" || c.Mode == "mixed"
	if !c.Config.valid() || c.NKeys > 2 || len(c.Perm) != 0 || len(c.Kinds) != 0 || c.Procs < 1 || c.Procs > 64 || c.Goroutines < 1 || c.Goroutines > 64 ||
		c.Ops < 1 || c.Ops > 1000000 || !okMode || c.YieldEvery < 0 {
		res.Skip("malformed-config")
		return res
	}
	if shrinkBudgetSpent() {
		res.Skip("shrink-budget-spent")
		return res
	}
	defer func() { noteFailure(res) }()
	defer runtime.GOMAXPROCS(runtime.GOMAXPROCS(c.Procs))
	lk := c.build()
	multi := c.Multi && lk.multi()
	sched := vkit.NewSched()
	mons := make([]monitor, c.NKeys)
	var bad atomic.Value
	var stop atomic.Bool
	start := make(chan struct{})
	for g := 0; g < c.Goroutines; g++ {
		g := g
		sched.Go(fmt.Sprintf("hammer-%d", g), func() {
			<-start
			for i := 0; i < c.Ops && !stop.Load(); i++ {
				key := []int{(g + i) % c.NKeys}
				m := &mons[key[0]]
				write := true
				switch c.Mode {
				case "split":
					write = g%2 == 0
				case "mixed":
					write = (i+g)%3 == 0
				}
				lk.lock(key, write, multi)
				if write {
					if ws, rs := m.writers.Add(1), m.readers.Load(); ws != 1 || rs != 0 {
						bad.CompareAndSwap(nil, fmt.Sprintf("goroutine %d (operation %d) holds the key for writing together with %d other writers and %d readers", g, i, ws-1, rs))
						stop.Store(true)
					}
					m.writers.Add(-1)
				} else {
					m.readers.Add(1)
					if ws := m.writers.Load(); ws != 0 {
						bad.CompareAndSwap(nil, fmt.Sprintf("goroutine %d (operation %d) holds the key for reading while %d writers hold it", g, i, ws))
						stop.Store(true)
					}
					m.readers.Add(-1)
				}
				lk.unlock(key, write, multi)
				if c.YieldEvery > 0 && i%c.YieldEvery == 0 {
					runtime.Gosched()
				}
			}
		})
	}
	close(start)
	sched.MustQuiesce()
	desc := fmt.Sprintf("%s (shards %d): %d goroutines x %d lock/unlock pairs on %d key(s), mode %s, GOMAXPROCS %d", c.Type, c.Shards, c.Goroutines, c.Ops, c.NKeys, c.Mode, c.Procs)
	for _, op := range sched.Ops() {
		if p := op.Panic(); p != nil {
			return res.Failf("hammer/panic", "%s: %s panicked: %v", desc, op.Name, p)
		}
	}
	if b := bad.Load(); b != nil {
		return res.Failf("hammer/exclusion", "%s: %v", desc, b)
	}
	if parked := sched.ParkedOps(); len(parked) > 0 {
		return res.Failf("hammer/deadlock", "%s: %d goroutines are parked forever although every one releases what it takes and holds one key at a time", desc, len(parked))
	}
	if n := keylock.VerifEntries(lk.raw()); n != 0 {
		return res.Failf("hammer/residue", "%s: every goroutine finished but the locker retains %d entries", desc, n)
	}
	res.NonTrivial = true
	return res
}

var PartHammer = &vkit.Part[CaseHammer]{
	Property: Property, Name: "hammer",
	Rule:  "rapid: one locker of every kind; 4-8 goroutines x 4000-12000 (thorough: twice that) lock/unlock pairs on ONE key (half of the cases: two keys), readers against writers / writers only / mixed, single calls or one-key batches, GOMAXPROCS 2/4/8, a yield after every 1st/2nd/3rd/7th/64th pair or none. Oracle: owner counters inside the critical section, quiescence with unfinished goroutines = deadlock, no panic, 0 entries at the end. Every case is non-trivial; distinct = distinct case JSON",
	Quick: 48, Thorough: 200,
	Gen: GenHammer, Exec: ExecHammer,
}
