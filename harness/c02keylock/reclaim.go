package c02keylock

// part "reclaim-gc": "when every lock has been released the locker retains no per-key state", asked of the garbage
// collector instead of the locker's fields.
//
// The entry count hook and the reflective element count see the lock table and the containers reachable from the
// locker. State kept where neither looks - a fixed array, a pointer-linked free list, a package-level table - still
// refers to the KEY. So the keys of this part are heap objects with a finalizer (pointers to a 32-byte struct; strings
// of >= 32 bytes built over their own byte array), created and used only inside a goroutine that has exited before
// the check: nothing but the code under test can still refer to them. After everything has been released: two
// garbage collections and a finalizer fence; a key whose finalizer has not run by then is still reachable although
// the locker is alive and idle - retained per-key state.
//
// The fence: finalizers run on one goroutine, batch by batch, newest first within a batch. A sentinel A is created,
// dropped and collected, its finalizer awaited; then a sentinel B the same way. When B's finalizer has run, the batch
// that contained A's has been completed, and with it every finalizer queued before A's. Waiting for a sentinel is
// waiting for something that is guaranteed to happen; the wait is capped and a cap hit is an infrastructure outcome,
// never a verdict.

import (
	"encoding/binary"
	"fmt"
	"runtime"
	"sort"
	"sync/atomic"
	"time"
	"unsafe"

	"github.com/pinealctx/neptune/remap"
	"github.com/pinealctx/neptune/syncx/keylock"
	"pgregory.net/rapid"

	"verifharness/vkit"
)

// keyObj: 32 bytes, so never packed with other objects by the allocator; routable by the sharded lockers (remap.Bs).
type keyObj struct {
	id  int
	pad [3]int64
}

func (k *keyObj) ToBytes() []byte {
	var b [8]byte
	binary.LittleEndian.PutUint64(b[:], uint64(k.id))
	return b[:]
}

type ReclaimRound struct {
	Keys  []int `json:"keys"` // ascending, duplicate-free
	Write bool  `json:"write,omitempty"`
	Multi bool  `json:"multi,omitempty"` // Locks/RLocks where the locker has them
	Depth int   `json:"depth,omitempty"` // read rounds: read locks per key (>= 1)
	Split bool  `json:"split,omitempty"` // release through the other entry points
	// Keep: the round's locks are released only after the next round (which then uses other keys or is a read
	// round like this one)
	Keep bool `json:"keep,omitempty"`
}

type CaseReclaim struct {
	Type    string         `json:"type"`
	Shards  uint64         `json:"shards"`
	KeyKind string         `json:"key_kind"` // ptr | str
	StrLen  int            `json:"str_len,omitempty"`
	NKeys   int            `json:"nkeys"`
	Rounds  []ReclaimRound `json:"rounds"`
}

func GenReclaim(t *rapid.T) CaseReclaim {
	c := CaseReclaim{
		Type:    rapid.SampledFrom([]string{"KeyLocker", "KeyLocker", "KeyLockerGrp", "KeyLockerGrpX", "TKeyLocker", "TKeyLocker", "TKeyLockerGrp", "TKeyLockerGrpX"}).Draw(t, "type"),
		Shards:  rapid.SampledFrom([]uint64{1, 2, 3, 7, 64}).Draw(t, "shards"),
		KeyKind: rapid.SampledFrom([]string{"ptr", "str"}).Draw(t, "keykind"),
		NKeys:   rapid.SampledFrom([]int{1, 2, 3, 5, 8, 9, 12, 30, 100}).Draw(t, "nkeys"),
	}
	if c.KeyKind == "str" {
		c.StrLen = rapid.SampledFrom([]int{32, 33, 48, 64, 200, 5000}).Draw(t, "strlen")
	}
	n := rapid.IntRange(1, 8).Draw(t, "rounds")
	for i := 0; i < n; i++ {
		r := ReclaimRound{Write: rapid.Bool().Draw(t, "write"), Multi: rapid.Bool().Draw(t, "multi"), Depth: 1}
		if rapid.IntRange(0, 2).Draw(t, "all") == 0 {
			r.Keys = seqInts(c.NKeys)
		} else {
			for k := 0; k < c.NKeys; k++ {
				if rapid.Bool().Draw(t, "in") {
					r.Keys = append(r.Keys, k)
				}
			}
			if len(r.Keys) == 0 {
				r.Keys = []int{rapid.IntRange(0, c.NKeys-1).Draw(t, "key")}
			}
		}
		if !r.Write {
			r.Depth = rapid.IntRange(1, 3).Draw(t, "depth")
		}
		r.Split = rapid.IntRange(0, 3).Draw(t, "split") == 0
		r.Keep = rapid.IntRange(0, 3).Draw(t, "keep") == 0
		c.Rounds = append(c.Rounds, r)
	}
	return c
}

// tableAny: an interface{}-keyed locker over a table of key values
type tableAny struct {
	l    keylock.Locker
	keys []interface{}
}

func (a *tableAny) lock(keys []int, write, _ bool) {
	for _, k := range keys {
		if write {
			a.l.Lock(a.keys[k])
		} else {
			a.l.RLock(a.keys[k])
		}
	}
}
func (a *tableAny) unlock(keys []int, write, _ bool) {
	for _, k := range keys {
		if write {
			a.l.Unlock(a.keys[k])
		} else {
			a.l.RUnlock(a.keys[k])
		}
	}
}
func (a *tableAny) unlockSplit(keys []int, write, multi bool) { a.unlock(keys, write, multi) }
func (a *tableAny) multi() bool                               { return false }
func (a *tableAny) raw() interface{}                          { return a.l }
func (a *tableAny) keyVal(k int) interface{}                  { return a.keys[k] }

// finTracker records which keys' finalizers have run.
type finTracker struct{ done []atomic.Bool }

//go:noinline
func newPtrKey(f *finTracker, i int) *keyObj {
	k := &keyObj{id: i}
	runtime.SetFinalizer(k, func(k *keyObj) { f.done[k.id].Store(true) })
	return k
}

//go:noinline
func newStrKey(f *finTracker, i, n int) string {
	b := make([]byte, n)
	for j := range b {
		b[j] = '.'
	}
	copy(b, fmt.Sprintf("key-%d-", i))
	runtime.SetFinalizer(&b[0], func(*byte) { f.done[i].Store(true) })
	return unsafe.String(&b[0], n)
}

// reclaimProgram runs the rounds on a locker adapter; everything is released when it returns.
func reclaimProgram(lk locker, c CaseReclaim) {
	type pend struct {
		r ReclaimRound
	}
	var kept *pend
	release := func(r ReclaimRound) {
		multi := r.Multi && lk.multi()
		for d := 0; d < r.Depth; d++ {
			switch {
			case r.Split:
				lk.unlockSplit(r.Keys, r.Write, multi || len(r.Keys) > 1)
			case multi:
				lk.unlock(r.Keys, r.Write, true)
			default:
				for _, k := range r.Keys {
					lk.unlock([]int{k}, r.Write, false)
				}
			}
		}
	}
	for _, r := range c.Rounds {
		if kept != nil {
			// may this round be taken while the kept one is held? other keys, or readers next to readers
			ok := !kept.r.Write && !r.Write
			if !ok {
				ok = true
				in := map[int]bool{}
				for _, k := range kept.r.Keys {
					in[k] = true
				}
				for _, k := range r.Keys {
					if in[k] {
						ok = false
					}
				}
			}
			if !ok {
				release(kept.r)
				kept = nil
			}
		}
		multi := r.Multi && lk.multi()
		for d := 0; d < r.Depth; d++ {
			if multi {
				lk.lock(r.Keys, r.Write, true)
			} else {
				for _, k := range r.Keys {
					lk.lock([]int{k}, r.Write, false)
				}
			}
		}
		if kept != nil {
			release(kept.r)
			kept = nil
		}
		if r.Keep {
			kept = &pend{r}
		} else {
			release(r)
		}
	}
	if kept != nil {
		release(kept.r)
	}
}

// reclaimGo starts the goroutine that creates the keys, runs the program and exits. Only the raw locker outlives it.
func reclaimGo(sched *vkit.Sched, c CaseReclaim, f *finTracker) (raw interface{}, op *vkit.Op) {
	opt := remap.WithPrime(c.Shards)
	anyL := func(l keylock.Locker) (interface{}, *vkit.Op) {
		return l, sched.Go("key-user", func() {
			keys := make([]interface{}, c.NKeys)
			for i := range keys {
				if c.KeyKind == "ptr" {
					keys[i] = newPtrKey(f, i)
				} else {
					keys[i] = newStrKey(f, i, c.StrLen)
				}
			}
			reclaimProgram(&tableAny{l: l, keys: keys}, c)
		})
	}
	ptrL := func(l keylock.TLocker[*keyObj]) (interface{}, *vkit.Op) {
		return l, sched.Go("key-user", func() {
			keys := make([]*keyObj, c.NKeys)
			for i := range keys {
				keys[i] = newPtrKey(f, i)
			}
			reclaimProgram(&tLocker[*keyObj]{l: l, conv: func(k int) *keyObj { return keys[k] }}, c)
		})
	}
	strL := func(l keylock.TLocker[string]) (interface{}, *vkit.Op) {
		return l, sched.Go("key-user", func() {
			keys := make([]string, c.NKeys)
			for i := range keys {
				keys[i] = newStrKey(f, i, c.StrLen)
			}
			reclaimProgram(&tLocker[string]{l: l, conv: func(k int) string { return keys[k] }}, c)
		})
	}
	ptr := c.KeyKind == "ptr"
	switch c.Type {
	case "KeyLocker":
		return anyL(keylock.NewKeyLocker())
	case "KeyLockerGrp":
		return anyL(keylock.NewKeyLockeGrp(opt))
	case "KeyLockerGrpX":
		return anyL(keylock.NewXHashKeyLockeGrp(opt))
	case "TKeyLocker":
		if ptr {
			return ptrL(keylock.NewTKeyLocker[*keyObj]())
		}
		return strL(keylock.NewTKeyLocker[string]())
	case "TKeyLockerGrp":
		if ptr {
			return ptrL(keylock.NewTKeyLockeGrp[*keyObj](opt))
		}
		return strL(keylock.NewTKeyLockeGrp[string](opt))
	default:
		if ptr {
			return ptrL(keylock.NewTXHashTKeyLockeGrp[*keyObj](opt))
		}
		return strL(keylock.NewTXHashTKeyLockeGrp[string](opt))
	}
}

type fenceSentinel struct {
	p   *int
	pad [3]int64
}

//go:noinline
func dropSentinel(ch chan struct{}) {
	s := &fenceSentinel{p: new(int)}
	runtime.SetFinalizer(s, func(*fenceSentinel) { close(ch) })
}

// fenceCap bounds the wait for one sentinel's finalizer (per attempt).
var fenceCap = 20 * time.Second

// finalizerFence returns once every finalizer that was queued before the call has run.
func finalizerFence() bool {
	for i := 0; i < 2; i++ {
		ch := make(chan struct{})
		dropSentinel(ch)
		ok := false
		for attempt := 0; attempt < 3 && !ok; attempt++ {
			runtime.GC()
			select {
			case <-ch:
				ok = true
			case <-time.After(fenceCap):
			}
		}
		if !ok {
			return false
		}
	}
	return true
}

func ExecReclaim(c CaseReclaim) *vkit.Result {
	res := &vkit.Result{}
	okType := false
	for _, t := range []string{"KeyLocker", "KeyLockerGrp", "KeyLockerGrpX", "TKeyLocker", "TKeyLockerGrp", "TKeyLockerGrpX"} {
		okType = okType || t == c.Type
	}
	if !okType || c.Shards < 1 || c.Shards > 100000 || c.NKeys < 1 || c.NKeys > 5000 || len(c.Rounds) == 0 || len(c.Rounds) > 1000 ||
		(c.KeyKind != "ptr" && c.KeyKind != "str") || (c.KeyKind == "str" && (c.StrLen < 32 || c.StrLen > 1<<20)) {
		res.Skip("malformed-config")
		return res
	}
	for _, r := range c.Rounds {
		if !validKeys(r.Keys, c.NKeys) || r.Depth < 1 || r.Depth > 8 || (r.Write && r.Depth != 1) {
			res.Skip("malformed-round")
			return res
		}
	}
	if shrinkBudgetSpent() {
		res.Skip("shrink-budget-spent")
		return res
	}
	defer func() { noteFailure(res) }()
	desc := fmt.Sprintf("%s (shards %d) with %d %s keys", c.Type, c.Shards, c.NKeys, map[string]string{"ptr": "pointer", "str": "string"}[c.KeyKind])
	sched := vkit.NewSched()
	f := &finTracker{done: make([]atomic.Bool, c.NKeys)}
	raw, op := reclaimGo(sched, c, f)
	sched.MustQuiesce()
	if p := op.Panic(); p != nil {
		return res.Failf("reclaim/panic", "%s: one goroutine takes and releases them in %d rounds that never conflict with one another: panic: %v", desc, len(c.Rounds), p)
	}
	if !op.Done() {
		return res.Failf("reclaim/blocked-without-conflict", "%s: one goroutine takes and releases them in %d rounds that never conflict with one another: it is parked forever", desc, len(c.Rounds))
	}
	if n := keylock.VerifEntries(raw); n != 0 {
		return res.Failf("reclaim/residue", "%s: every lock has been released but the locker retains %d entries", desc, n)
	}
	// the goroutine that made and used the keys is gone; only the code under test can still refer to them
	runtime.GC()
	runtime.GC()
	if !finalizerFence() {
		vkit.Infra("C02 reclaim-gc: the finalizer of a dropped sentinel did not run within the cap")
	}
	var alive []int
	for i := range f.done {
		if !f.done[i].Load() {
			alive = append(alive, i)
		}
	}
	runtime.KeepAlive(raw)
	if len(alive) > 0 {
		sort.Ints(alive)
		show := alive
		if len(show) > 12 {
			show = show[:12]
		}
		return res.Failf("reclaim/key-still-reachable", "%s: every lock has been released (0 entries in the lock table) and the goroutine that created and used the keys has exited, yet after two garbage collections and a finalizer fence %d of the %d keys are still reachable (keys #%v ...): the idle locker (or its package) retains per-key state that refers to them",
			desc, len(alive), c.NKeys, show)
	}
	res.NonTrivial = true
	if c.KeyKind == "ptr" {
		res.Class("pointer-keys")
	} else {
		res.Class("string-keys")
	}
	return res
}

var PartReclaim = &vkit.Part[CaseReclaim]{
	Property: Property, Name: "reclaim-gc",
	Rule:  "rapid: one locker of every kind (1-64 shards); 1-100 keys that are heap objects with a finalizer (pointers to a 32-byte struct that the sharded lockers can route; strings of 32-5000 bytes over their own array), created and used only inside one goroutine: 1-8 rounds (write or read with depth 1-3, single calls or batches, some rounds kept over the next, some released through the other entry points); the goroutine exits, 0 entries; two garbage collections and a two-sentinel finalizer fence; every key's finalizer must have run (else the idle, live locker still refers to the key). Every completed case is non-trivial; distinct = distinct case JSON",
	Quick: 40, Thorough: 250,
	Gen: GenReclaim, Exec: ExecReclaim,
}
