// Package qadapt gives the six queue types of the repository one face, so
// that C12 (sequential order/capacity/close semantics) and C13 (wake-ups) can
// drive them with the same case data.
package qadapt

import (
	"errors"
	"fmt"
	"time"

	"github.com/pinealctx/neptune/queue/priq"
	"github.com/pinealctx/neptune/queue/syncq"
	pasync "github.com/pinealctx/neptune/syncx/pipe/async"
	"github.com/pinealctx/neptune/syncx/pipe/mq"
	pmux "github.com/pinealctx/neptune/syncx/pipe/mux"
	pq "github.com/pinealctx/neptune/syncx/pipe/q"
)

// Outcome of an add.
type Outcome int

const (
	Accepted Outcome = iota
	Full
	Closed
	Other
)

func (o Outcome) String() string { return [...]string{"accepted", "full", "closed", "other-error"}[o] }

// Kinds of queue.
const (
	KindQ     = "pipe/q.Q"
	KindAsync = "pipe/async.Q"
	KindMux   = "pipe/mux.Q"
	KindMQ    = "pipe/mq.MQ"
	KindSync  = "queue/syncq.SyncQueue"
	KindPri   = "queue/priq.PriQueue"
)

var PipeKinds = []string{KindQ, KindAsync, KindMux, KindMQ}
var AllKinds = []string{KindQ, KindAsync, KindMux, KindMQ, KindSync, KindPri}

// Lanes of the two-level queue.
const (
	LaneReq  = 0
	LaneCtrl = 1
)

// Q is the common face. Function fields are nil where a type has no such
// operation.
type Q struct {
	Kind string
	// Add appends to a lane (only MQ has a control lane).
	Add func(lane, v int) Outcome
	// AddAnyway is Add through the queue's Add*Anyway entry point (retries while the lane is full, sleeping 1 µs in
	// between: callers use it only where the lane is known not to be full). nil where the queue has none.
	AddAnyway func(lane, v int) Outcome
	// AddPrior puts v at the front of a lane, exempt from the bound.
	AddPrior func(lane, v int) Outcome
	// Pop is the blocking pop: pipe queues fail with closed once the queue is
	// closed even if items remain; the sync queue drains first.
	Pop func() (v int, closed bool, err error)
	// PopAnyway drains remaining items after close, then reports closed.
	PopAnyway func() (v int, closed bool, err error)
	// TryPop (sync queue): ok=false means "empty and open".
	TryPop    func() (v int, ok bool, closed bool)
	Close     func()
	TryClose  func() bool
	TryClear  func() bool
	IsClosed  func() bool
	IsCleared func() bool
	Len       func() int
	// priority queue
	PushPri func(v, pri int) Outcome
	PopPri  func() (v int, pri int, ok bool)
	WaitCh  func() <-chan struct{}
}

type PriItem struct{ V, Pri int }

func (p *PriItem) GetPriority() int { return p.Pri }

func asInt(x interface{}) (int, error) {
	v, ok := x.(int)
	if !ok {
		return 0, fmt.Errorf("queue handed out %#v, which was never added", x)
	}
	return v, nil
}

func pipeOutcome(err, closed error, full ...error) Outcome {
	if err == nil {
		return Accepted
	}
	if errors.Is(err, closed) {
		return Closed
	}
	for _, f := range full {
		if errors.Is(err, f) {
			return Full
		}
	}
	return Other
}

func pipePop(x interface{}, err, closedErr error) (int, bool, error) {
	if err != nil {
		if errors.Is(err, closedErr) {
			return 0, true, nil
		}
		return 0, false, err
	}
	v, e := asInt(x)
	return v, false, e
}

// New builds a queue. capReq / capCtrl: 0 = unbounded for the pipe queues; for
// the priority queue capReq is the capacity (0 admits nothing).
func New(kind string, capReq, capCtrl int) *Q {
	return NewWithPause(kind, capReq, capCtrl, time.Microsecond)
}

// NewWithPause is New with the retry pause the Add*Anyway entry points are given.
func NewWithPause(kind string, capReq, capCtrl int, pause time.Duration) *Q {
	return NewCtor(kind, capReq, capCtrl, pause, CtorPlain)
}

// Ways of writing the same constructor call.
const (
	CtorPlain    = 0 // every size option spelled out, request lane first
	CtorBare     = 1 // options for size 0 (= unbounded, the documented default) left out
	CtorReversed = 2 // the two-lane queue's options in the other order
	CtorDecoy    = 3 // CtorBare, after a queue of the same type with other sizes was built (and is still alive)
	NCtors       = 4
)

var decoys []interface{}

// NewCtor is NewWithPause with the way the constructor call is written (all ways ask for the same queue).
func NewCtor(kind string, capReq, capCtrl int, pause time.Duration, ctor int) *Q {
	if ctor == CtorDecoy {
		switch kind {
		case KindQ:
			decoys = append(decoys[:0], pq.NewQ(pq.WithSize(capReq+3)))
		case KindAsync:
			decoys = append(decoys[:0], pasync.NewQ(capReq+3))
		case KindMux:
			decoys = append(decoys[:0], pmux.NewQ(capReq+3))
		case KindMQ:
			decoys = append(decoys[:0], mq.NewMQ(mq.WithQCtrlSize(capCtrl+2), mq.WithQReqSize(capReq+3)))
		case KindPri:
			decoys = append(decoys[:0], priq.NewPriQueue(capReq+3))
		}
	}
	switch kind {
	case KindQ:
		var q *pq.Q
		if ctor != CtorPlain && capReq == 0 {
			q = pq.NewQ()
		} else {
			q = pq.NewQ(pq.WithSize(capReq))
		}
		return &Q{Kind: kind,
			Add:      func(_, v int) Outcome { return pipeOutcome(q.AddReq(v), pq.ErrClosed, pq.ErrReqQFull) },
			AddPrior: func(_, v int) Outcome { return pipeOutcome(q.AddPriorReq(v), pq.ErrClosed, pq.ErrReqQFull) },
			AddAnyway: func(_, v int) Outcome {
				return pipeOutcome(q.AddReqAnyway(v, pause), pq.ErrClosed, pq.ErrReqQFull)
			},
			Pop:       func() (int, bool, error) { x, err := q.Pop(); return pipePop(x, err, pq.ErrClosed) },
			PopAnyway: func() (int, bool, error) { x, err := q.PopAnyway(); return pipePop(x, err, pq.ErrClosed) },
			Close:     q.Close,
		}
	case KindAsync:
		q := pasync.NewQ(capReq)
		return &Q{Kind: kind,
			Add:      func(_, v int) Outcome { return pipeOutcome(q.Add(v), pasync.ErrClosed, pasync.ErrFull) },
			AddPrior: func(_, v int) Outcome { return pipeOutcome(q.AddPrior(v), pasync.ErrClosed, pasync.ErrFull) },
			AddAnyway: func(_, v int) Outcome {
				return pipeOutcome(q.AddAnyway(v, pause), pasync.ErrClosed, pasync.ErrFull)
			},
			Pop:       func() (int, bool, error) { x, err := q.Pop(); return pipePop(x, err, pasync.ErrClosed) },
			PopAnyway: func() (int, bool, error) { x, err := q.PopAnyway(); return pipePop(x, err, pasync.ErrClosed) },
			Close:     q.Close,
			IsClosed:  q.IsClosed,
		}
	case KindMux:
		q := pmux.NewQ(capReq)
		return &Q{Kind: kind,
			Add:      func(_, v int) Outcome { return pipeOutcome(q.AddReq(v), pmux.ErrClosed, pmux.ErrQFull) },
			AddPrior: func(_, v int) Outcome { return pipeOutcome(q.AddPriorReq(v), pmux.ErrClosed, pmux.ErrQFull) },
			AddAnyway: func(_, v int) Outcome {
				return pipeOutcome(q.AddReqAnyway(v, pause), pmux.ErrClosed, pmux.ErrQFull)
			},
			Pop:       func() (int, bool, error) { x, err := q.Pop(); return pipePop(x, err, pmux.ErrClosed) },
			PopAnyway: func() (int, bool, error) { x, err := q.PopAnyway(); return pipePop(x, err, pmux.ErrClosed) },
			Close:     q.Close,
			IsClosed:  q.IsClosed,
		}
	case KindMQ:
		var opts []mq.Option
		if !(ctor != CtorPlain && ctor != CtorReversed && capReq == 0) {
			opts = append(opts, mq.WithQReqSize(capReq))
		}
		if !(ctor != CtorPlain && ctor != CtorReversed && capCtrl == 0) {
			opts = append(opts, mq.WithQCtrlSize(capCtrl))
		}
		if ctor == CtorReversed && len(opts) == 2 {
			opts[0], opts[1] = opts[1], opts[0]
		}
		q := mq.NewMQ(opts...)
		return &Q{Kind: kind,
			Add: func(lane, v int) Outcome {
				if lane == LaneCtrl {
					return pipeOutcome(q.AddCtrl(v), mq.ErrClosed, mq.ErrCtrlQFull)
				}
				return pipeOutcome(q.AddReq(v), mq.ErrClosed, mq.ErrReqQFull)
			},
			AddAnyway: func(lane, v int) Outcome {
				if lane == LaneCtrl {
					return pipeOutcome(q.AddCtrlAnyway(v, pause), mq.ErrClosed, mq.ErrCtrlQFull)
				}
				return pipeOutcome(q.AddReqAnyway(v, pause), mq.ErrClosed, mq.ErrReqQFull)
			},
			AddPrior: func(lane, v int) Outcome {
				if lane == LaneCtrl {
					return pipeOutcome(q.AddPriorCtrl(v), mq.ErrClosed, mq.ErrCtrlQFull)
				}
				return pipeOutcome(q.AddPriorReq(v), mq.ErrClosed, mq.ErrReqQFull)
			},
			Pop:       func() (int, bool, error) { x, err := q.Pop(); return pipePop(x, err, mq.ErrClosed) },
			PopAnyway: func() (int, bool, error) { x, err := q.PopAnyway(); return pipePop(x, err, mq.ErrClosed) },
			Close:     q.Close,
			TryClose:  q.TryClose,
			TryClear:  q.TryClear,
			IsClosed:  q.IsClosed,
			IsCleared: q.IsCleared,
		}
	case KindSync:
		q := syncq.NewSyncQueue()
		pop := func() (int, bool, error) {
			x := q.Pop()
			if x == nil {
				return 0, true, nil
			}
			v, e := asInt(x)
			return v, false, e
		}
		return &Q{Kind: kind,
			Add:       func(_, v int) Outcome { q.Push(v); return Accepted }, // a closed sync queue drops silently
			Pop:       pop,
			PopAnyway: pop,
			TryPop: func() (int, bool, bool) {
				x, ok := q.TryPop()
				if !ok {
					return 0, false, false
				}
				if x == nil {
					return 0, true, true
				}
				v, _ := asInt(x)
				return v, true, false
			},
			Close: q.Close,
			Len:   q.Len,
		}
	case KindPri:
		q := priq.NewPriQueue(capReq)
		return &Q{Kind: kind,
			PushPri: func(v, pri int) Outcome {
				err := q.Push(&PriItem{V: v, Pri: pri})
				if err == nil {
					return Accepted
				}
				if errors.Is(err, priq.ErrQueueIsFull) {
					return Full
				}
				return Other
			},
			PopPri: func() (int, int, bool) {
				e := q.Pop()
				if e == nil {
					return 0, 0, false
				}
				it, ok := e.(*PriItem)
				if !ok {
					return -1, -1, true
				}
				return it.V, it.Pri, true
			},
			Len:    q.Len,
			WaitCh: q.WaitCh,
		}
	}
	return nil
}
