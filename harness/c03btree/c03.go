// Package c03btree decides property C03: the B-tree (vendored btree.BTree and
// the locked wrapper tree.BTree) is equivalent to a sorted set holding the most
// recently stored item per key, every bounded scan returns exactly the first n
// matching items of that set in scan order, the tree stays balanced, and clones
// are isolated from each other.
//
// This file holds the reference model, the item type and the helpers shared by
// all parts; the parts are in c03_wrapper.go, c03_btree.go, c03_clones.go and
// c03_race.go.
package c03btree

import (
	"fmt"
	"math"
	"reflect"
	"sort"
	"strings"
	"sync/atomic"

	"github.com/pinealctx/neptune/ds/tree/btree"
	"pgregory.net/rapid"

	"verifharness/vkit"
)

const Property = "C03"

// Item is what the harness stores: ordered by K only, V is the version that
// makes "the most recently stored item" observable.
type Item struct{ K, V int }

// lessSpin > 0 makes every comparison burn that many loop iterations. The
// small-history linearizability part uses it to stretch calls (comparisons run
// inside the wrapper's critical sections), so that calls of different threads
// really overlap and queue up on the lock; it is 0 everywhere else.
var lessSpin atomic.Int32

var spinSink atomic.Int64

// Less orders items by key only.
func (a Item) Less(b btree.Item) bool {
	if n := lessSpin.Load(); n > 0 {
		var x int64
		for i := int32(0); i < n; i++ {
			x += int64(i) ^ x<<1
		}
		spinSink.Store(x)
	}
	return a.K < b.(Item).K
}

func (a Item) String() string { return fmt.Sprintf("%d#%d", a.K, a.V) }

// pivotOf turns an optional key into the interface the trees take: a nil pointer
// is the untyped nil interface (= unbounded), as the repository's *FromNil tests
// use it.
func pivotOf(k *int) btree.Item {
	if k == nil {
		return nil
	}
	return Item{K: *k}
}

func keyPtr(isNil bool, k int) *int {
	if isNil {
		return nil
	}
	return &k
}

// ---------------------------------------------------------------------------
// reference model: a sorted slice of items, written from the statement

// Model is the sorted set: at most one item per key, ascending by key.
type Model struct{ it []Item }

func (m *Model) idx(k int) (int, bool) {
	i := sort.Search(len(m.it), func(i int) bool { return m.it[i].K >= k })
	return i, i < len(m.it) && m.it[i].K == k
}

// Get returns the item stored under k.
func (m *Model) Get(k int) (Item, bool) {
	if i, ok := m.idx(k); ok {
		return m.it[i], true
	}
	return Item{}, false
}

// Put stores x under its key and returns what it replaced.
func (m *Model) Put(x Item) (Item, bool) {
	i, ok := m.idx(x.K)
	if ok {
		old := m.it[i]
		m.it[i] = x
		return old, true
	}
	m.it = append(m.it, Item{})
	copy(m.it[i+1:], m.it[i:])
	m.it[i] = x
	return Item{}, false
}

// Del removes the item stored under k.
func (m *Model) Del(k int) (Item, bool) {
	i, ok := m.idx(k)
	if !ok {
		return Item{}, false
	}
	old := m.it[i]
	m.it = append(m.it[:i], m.it[i+1:]...)
	return old, true
}

func (m *Model) Len() int { return len(m.it) }

func (m *Model) Min() (Item, bool) {
	if len(m.it) == 0 {
		return Item{}, false
	}
	return m.it[0], true
}

func (m *Model) Max() (Item, bool) {
	if len(m.it) == 0 {
		return Item{}, false
	}
	return m.it[len(m.it)-1], true
}

func (m *Model) Clear() { m.it = nil }

// Copy returns an independent copy.
func (m *Model) Copy() *Model { return &Model{it: append([]Item(nil), m.it...)} }

// All returns the items ascending (a copy).
func (m *Model) All() []Item { return append([]Item(nil), m.it...) }

// Seq lists, in scan order, the items a scan visits: ascending from start
// (inclusive or exclusive; nil = from the first) up to but excluding stop (nil =
// to the last), or descending from start down to but excluding stop. It is a
// plain linear filter over the sorted slice.
func (m *Model) Seq(asc bool, start *int, incl bool, stop *int) []Item {
	var out []Item
	if asc {
		for i := 0; i < len(m.it); i++ {
			x := m.it[i]
			if start != nil && (x.K < *start || (!incl && x.K == *start)) {
				continue
			}
			if stop != nil && x.K >= *stop {
				continue
			}
			out = append(out, x)
		}
		return out
	}
	for i := len(m.it) - 1; i >= 0; i-- {
		x := m.it[i]
		if start != nil && (x.K > *start || (!incl && x.K == *start)) {
			continue
		}
		if stop != nil && x.K <= *stop {
			continue
		}
		out = append(out, x)
	}
	return out
}

func reversed(s []Item) []Item {
	r := make([]Item, len(s))
	for i, v := range s {
		r[len(s)-1-i] = v
	}
	return r
}

func sameItems(a, b []Item) bool {
	if len(a) != len(b) {
		return false
	}
	for i := range a {
		if a[i] != b[i] {
			return false
		}
	}
	return true
}

func fmtItems(s []Item) string {
	if len(s) > 70 {
		return fmt.Sprintf("%v…(%d items)", s[:70], len(s))
	}
	return fmt.Sprint(s)
}

// asItem converts what the tree handed out; ok=false if it is not an Item.
func asItem(v btree.Item) (Item, bool) {
	x, ok := v.(Item)
	return x, ok
}

func asItems(vs []btree.Item) ([]Item, bool) {
	out := make([]Item, 0, len(vs))
	for _, v := range vs {
		x, ok := v.(Item)
		if !ok {
			return nil, false
		}
		out = append(out, x)
	}
	return out, true
}

// itemCodec says how a part stores the model's (key, version) items in a tree:
// as the comparable Item, or as SItem, whose slice field makes == panic - the
// tree is documented to order items by Less alone, so every entry point has to
// work with both.
type itemCodec struct {
	name string
	mk   func(k, v int) btree.Item // the item stored for (key, version)
	key  func(k int) btree.Item    // a lookup key / pivot
	un   func(v btree.Item) (Item, bool)
}

var plainCodec = itemCodec{
	name: "Item",
	mk:   func(k, v int) btree.Item { return Item{k, v} },
	key:  func(k int) btree.Item { return Item{K: k} },
	un:   asItem,
}

var sliceCodec = itemCodec{
	name: "SItem",
	mk:   func(k, v int) btree.Item { return SItem{k, []int{v}} },
	key:  func(k int) btree.Item { return SItem{K: k} },
	un: func(v btree.Item) (Item, bool) {
		s, ok := v.(SItem)
		if !ok || len(s.Tag) != 1 {
			return Item{}, false
		}
		return Item{s.K, s.Tag[0]}, true
	},
}

func (cd itemCodec) pivot(k *int) btree.Item {
	if k == nil {
		return nil
	}
	return cd.key(*k)
}

func (cd itemCodec) items(vs []btree.Item) ([]Item, bool) {
	out := make([]Item, 0, len(vs))
	for _, v := range vs {
		x, ok := cd.un(v)
		if !ok {
			return nil, false
		}
		out = append(out, x)
	}
	return out, true
}

// optStr renders an optional result (item or "nil").
func optStr(x Item, ok bool) string {
	if !ok {
		return "nil"
	}
	return x.String()
}

func pivStr(p *int) string {
	if p == nil {
		return "nil"
	}
	return fmt.Sprint(*p)
}

// ---------------------------------------------------------------------------
// structural introspection of the vendored tree (classification only)

// shape describes the node structure of a btree.BTree. It is obtained by
// reading the unexported root/items/children fields through reflection (read
// only) and is used for class labels and the non-trivial rule, never for a
// verdict.
type shape struct {
	height   int
	sizes    []int        // items per node, pre-order
	internal map[int]bool // key -> stored in a node that has children
}

func inspect(t *btree.BTree) (sh *shape, ok bool) {
	defer func() {
		if recover() != nil {
			sh, ok = nil, false
		}
	}()
	sh = &shape{internal: map[int]bool{}}
	root := reflect.ValueOf(t).Elem().FieldByName("root")
	if !root.IsValid() {
		return nil, false
	}
	var walk func(n reflect.Value, depth int)
	walk = func(n reflect.Value, depth int) {
		if n.IsNil() {
			return
		}
		n = n.Elem()
		items := n.FieldByName("items")
		kids := n.FieldByName("children")
		if depth+1 > sh.height {
			sh.height = depth + 1
		}
		sh.sizes = append(sh.sizes, items.Len())
		for i := 0; i < items.Len(); i++ {
			it := items.Index(i)
			if it.IsNil() {
				continue
			}
			k := int(it.Elem().Field(0).Int())
			sh.internal[k] = kids.Len() > 0
		}
		for i := 0; i < kids.Len(); i++ {
			walk(kids.Index(i), depth+1)
		}
	}
	walk(root, 0)
	return sh, true
}

// rebalanced reports whether the step from a to b (one delete) merged nodes
// (node count dropped) or moved items between siblings (two or more nodes
// changed their size although the node count is the same).
func rebalanced(a, b *shape) (merge, steal bool) {
	if a == nil || b == nil {
		return false, false
	}
	if len(b.sizes) < len(a.sizes) {
		return true, false
	}
	if len(b.sizes) != len(a.sizes) {
		return false, false
	}
	diff := 0
	for i := range a.sizes {
		if a.sizes[i] != b.sizes[i] {
			diff++
		}
	}
	return false, diff >= 2
}

// shapeTracker accumulates the structural classes of one tree over a history.
type shapeTracker struct {
	maxHeight int
	merges    int
	steals    int
	failed    bool
}

func (st *shapeTracker) noteHeight(t *btree.BTree) {
	h, _ := t.VerifHeight()
	if h > st.maxHeight {
		st.maxHeight = h
	}
}

// aroundDelete runs del (one deleting write) and records what it did to the
// structure.
func (st *shapeTracker) aroundDelete(t *btree.BTree, del func()) {
	before, ok1 := inspect(t)
	del()
	after, ok2 := inspect(t)
	if !ok1 || !ok2 {
		st.failed = true
		return
	}
	m, s := rebalanced(before, after)
	if m {
		st.merges++
	}
	if s {
		st.steals++
	}
}

func (st *shapeTracker) classes(res *vkit.Result) {
	if st.maxHeight >= 2 {
		res.Class("height>=2")
	}
	if st.maxHeight >= 3 {
		res.Class("height>=3")
	}
	if st.maxHeight >= 4 {
		res.Class("height>=4")
	}
	if st.merges > 0 {
		res.Class("delete-merged-nodes")
	}
	if st.steals > 0 {
		res.Class("delete-stole-from-sibling")
	}
	if st.failed {
		res.Skip("shape-introspection-failed")
	}
}

func (st *shapeTracker) rebalancedDeep() bool {
	return st.maxHeight >= 2 && (st.merges > 0 || st.steals > 0)
}

// pivotClasses labels a scan by where its pivot lies relative to the set; it
// returns whether the pivot is strictly inside the key range.
func pivotClasses(res *vkit.Result, m *Model, inner *btree.BTree, pivot *int, exclusive bool) (inside bool) {
	if pivot == nil {
		res.Class("pivot-nil")
		return false
	}
	if m.Len() == 0 {
		res.Class("scan-on-empty-tree")
		return false
	}
	mn, _ := m.Min()
	mx, _ := m.Max()
	_, present := m.Get(*pivot)
	switch {
	case *pivot < mn.K:
		res.Class("pivot-below-min")
	case *pivot > mx.K:
		res.Class("pivot-above-max")
	case present:
		res.Class("pivot-present")
	default:
		res.Class("pivot-absent-inside")
	}
	if present && (*pivot == mn.K || *pivot == mx.K) {
		res.Class("pivot-at-min-or-max")
	}
	if present && exclusive {
		if sh, ok := inspect(inner); ok {
			if sh.internal[*pivot] {
				res.Class("exclusive-scan-pivot-at-internal-node")
			} else {
				res.Class("exclusive-scan-pivot-at-leaf")
			}
		} else {
			res.Skip("shape-introspection-failed")
		}
	}
	return *pivot > mn.K && *pivot < mx.K
}

// ---------------------------------------------------------------------------
// generator helpers (pure: they fold over the reference model only)

var wideKeys = []int{0, 1, -1, 40, 41, -41, 1000, -1000, 100000, -100000, 1 << 40, -1 << 40, math.MaxInt - 1, math.MaxInt, math.MinInt + 1, math.MinInt}

// keyDomain draws keys of one case: dense (0..hi), sparse wide, or a mixture.
type keyDomain struct {
	Mode int // 0 dense, 1 sparse, 2 mixed
	Hi   int
}

func (d keyDomain) draw(t *rapid.T, label string) int {
	mode := d.Mode
	if mode == 2 {
		if rapid.IntRange(0, 3).Draw(t, label+"mix") == 0 {
			mode = 1
		} else {
			mode = 0
		}
	}
	if mode == 1 {
		if rapid.Bool().Draw(t, label+"edge") {
			return rapid.SampledFrom(wideKeys).Draw(t, label+"wide")
		}
		return rapid.IntRange(-1<<20, 1<<20).Draw(t, label+"sparse")
	}
	return rapid.IntRange(0, d.Hi).Draw(t, label+"dense")
}

// presentKey draws a key of the model (the model must not be empty).
func presentKey(t *rapid.T, m *Model, label string) int {
	return m.it[rapid.IntRange(0, len(m.it)-1).Draw(t, label)].K
}

// mostlyPresent draws a key that is in the model with probability pct/100.
func mostlyPresent(t *rapid.T, m *Model, d keyDomain, pct int, label string) int {
	if m.Len() > 0 && rapid.IntRange(1, 100).Draw(t, label+"p") <= pct {
		return presentKey(t, m, label+"present")
	}
	return d.draw(t, label)
}

// absentInside returns a key strictly between min and max that is not in the
// model, if there is one close to a drawn position.
func absentInside(t *rapid.T, m *Model, label string) (int, bool) {
	if m.Len() < 2 {
		return 0, false
	}
	// gaps between neighbours
	var gaps []int
	for i := 0; i+1 < len(m.it); i++ {
		if m.it[i].K+1 < m.it[i+1].K && m.it[i].K+1 > m.it[i].K {
			gaps = append(gaps, i)
		}
	}
	if len(gaps) == 0 {
		return 0, false
	}
	g := gaps[rapid.IntRange(0, len(gaps)-1).Draw(t, label+"gap")]
	lo, hi := m.it[g].K+1, m.it[g+1].K-1
	if rapid.Bool().Draw(t, label+"gaphi") {
		return hi, true
	}
	return lo, true
}

// drawPivot draws a pivot: present, absent inside, below min, above max, nil or
// anything from the domain. The bool result is "nil pivot".
func drawPivot(t *rapid.T, m *Model, d keyDomain, label string) (int, bool) {
	kind := rapid.IntRange(0, 19).Draw(t, label+"kind")
	switch {
	case kind < 7 && m.Len() > 0:
		return presentKey(t, m, label+"present"), false
	case kind < 11:
		if k, ok := absentInside(t, m, label); ok {
			return k, false
		}
	case kind < 13 && m.Len() > 0:
		if mn, _ := m.Min(); mn.K > math.MinInt {
			return mn.K - 1 - rapid.IntRange(0, 2).Draw(t, label+"below")*boolInt(mn.K > math.MinInt+8), false
		}
	case kind < 15 && m.Len() > 0:
		if mx, _ := m.Max(); mx.K < math.MaxInt {
			return mx.K + 1 + rapid.IntRange(0, 2).Draw(t, label+"above")*boolInt(mx.K < math.MaxInt-8), false
		}
	case kind < 17:
		return 0, true
	}
	return d.draw(t, label), false
}

// drawSeq draws between lo and hi elements with rapid's slice generator, so that
// the shrinker can delete single elements (a counted loop cannot be shrunk from
// the front). one may fold state: elements are drawn strictly in order.
func drawSeq[T any](t *rapid.T, label string, lo, hi int, one func(t *rapid.T, i int) T) []T {
	i := 0
	return rapid.SliceOfN(rapid.Custom(func(t *rapid.T) T {
		v := one(t, i)
		i++
		return v
	}), lo, hi).Draw(t, label)
}

// atLeast draws a minimum length for drawSeq from a few levels up to hi (rapid's
// own slice lengths are short on average; histories need depth). It shrinks
// towards the first level.
func atLeast(t *rapid.T, label string, hi int, levels ...int) int {
	lo := rapid.SampledFrom(levels).Draw(t, label)
	if lo > hi {
		lo = hi
	}
	return lo
}

func boolInt(b bool) int {
	if b {
		return 1
	}
	return 0
}

func clip(s string, n int) string {
	if len(s) > n {
		return s[:n] + "…"
	}
	return s
}

func joinNonEmpty(parts ...string) string {
	var out []string
	for _, p := range parts {
		if p != "" {
			out = append(out, p)
		}
	}
	return strings.Join(out, " ")
}
