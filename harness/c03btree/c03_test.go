package c03btree

import (
	"testing"

	"verifharness/vkit"
)

func TestMain(m *testing.M) { vkit.Main(m) }

func TestProp_Wrapper(t *testing.T)    { PartWrapper.Run(t) }
func TestProp_BTree(t *testing.T)      { PartBTree.Run(t) }
func TestProp_Clones(t *testing.T)     { PartClones.Run(t) }
func TestProp_Lin(t *testing.T)        { PartLin.Run(t) }
func TestProp_Stress(t *testing.T)     { PartStress.Run(t) }
func TestProp_Big(t *testing.T)        { PartBig.Run(t) }
func TestProp_StressWide(t *testing.T) { PartStressWide.Run(t) }

// The TestRace_ functions are run by the driver from the binary built with -race.
func TestRace_Clones(t *testing.T)     { PartRaceClones.Run(t) }
func TestRace_Lin(t *testing.T)        { PartRaceLin.Run(t) }
func TestRace_Stress(t *testing.T)     { PartRaceStress.Run(t) }
func TestRace_StressWide(t *testing.T) { PartRaceStressWide.Run(t) }

func TestReplay(t *testing.T) {
	PartWrapper.Replay(t, 1)
	PartBTree.Replay(t, 1)
	PartClones.Replay(t, 1)
	PartLin.Replay(t, 200)
	PartStress.Replay(t, 50)
	PartRaceClones.Replay(t, 50)
	PartRaceLin.Replay(t, 200)
	PartRaceStress.Replay(t, 50)
	PartBig.Replay(t, 1)
	PartStressWide.Replay(t, 50)
	PartRaceStressWide.Replay(t, 50)
}
