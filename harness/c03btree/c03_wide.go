package c03btree

import (
	"pgregory.net/rapid"

	"verifharness/vkit"
)

// ---------------------------------------------------------------------------
// race part 4: the locked wrapper with a wide tree - long scans against movers
//
// Same case type, executor and oracle as the stress part (c03_race.go); only the
// shape differs. The stress part keeps at most 14*8 keys, so a scan holds the read
// lock for a few dozen items. Here several hundred static keys are preloaded and
// one to three movers toggle an item between a key near the low end and a key
// near the high end with Update, while the readers run full scans in both
// directions. A scan is one atomic step under the read lock, Update is one atomic
// step under the write lock, so every scan that covers both keys of a mover must
// contain exactly one of them - whatever the schedule. A scan that gives the
// lock up in the middle sees the item twice or not at all.

func wideSlots() (lo, hi int) {
	if vkit.Tier() == "thorough" {
		return 300, 990
	}
	return 300, 700
}

func GenStressWide(t *rapid.T) CaseS {
	thorough := vkit.Tier() == "thorough"
	c := CaseS{Procs: rapid.SampledFrom([]int{2, 4, 8}).Draw(t, "procs")}
	lo, hi := wideSlots()
	ns := rapid.IntRange(lo, hi).Draw(t, "slots")
	// two rarer shapes: a tree of more than 1024 (some: more than 4096) keys, so that a full scan visits thousands of
	// items in one critical section; and a normal tree whose readers start with a deliberately slow full scan
	slow := false
	switch shape := rapid.IntRange(0, 47).Draw(t, "shape"); {
	case shape >= 44: // (rapid prefers small values: the rare shapes sit at the top of the range)
		ns = rapid.IntRange(1100, 2100).Draw(t, "manyslots")
		if rapid.IntRange(0, 3).Draw(t, "evenmore") == 3 {
			ns = 4200
		}
	case shape >= 34:
		slow = true
	}
	holes := map[int]bool{}
	for _, h := range drawSeq(t, "holes", 0, 12, func(t *rapid.T, i int) int { return rapid.IntRange(0, ns-1).Draw(t, "hole") }) {
		holes[h] = true
	}
	for s := 0; s < ns; s++ {
		if !holes[s] {
			c.Static = append(c.Static, s)
		}
	}
	// 0-2 owner-partitioned writers spread over the whole key range
	c.Reps = rapid.IntRange(1, map[bool]int{false: 4, true: 12}[thorough]).Draw(t, "reps")
	for w, nw := 0, rapid.IntRange(0, 2).Draw(t, "writers"); w < nw; w++ {
		m := &Model{}
		c.Writers = append(c.Writers, drawSeq(t, "prog", atLeast(t, "progmin", 20, 1, 4, 10), 20, func(t *rapid.T, i int) WOp {
			key := func(label string, pct int) int {
				if m.Len() > 0 && rapid.IntRange(1, 100).Draw(t, label+"p") <= pct {
					return presentKey(t, m, label+"present")
				}
				return rapid.IntRange(0, ns-1).Draw(t, label)*stride + w
			}
			var op WOp
			switch rapid.IntRange(0, 8).Draw(t, "kind") {
			case 0, 1, 2:
				op = WOp{Kind: "ins", Key: key("ins", 20)}
			case 3, 4:
				op = WOp{Kind: "upd", Key: key("old", 70), Key2: key("new", 30)}
			case 5:
				op = WOp{Kind: "upsert", Key: key("old", 60), Key2: key("new", 30)}
			default:
				op = WOp{Kind: "del", Key: key("del", 85)}
			}
			applyWrite(m, op, i+1)
			return op
		}))
	}
	// movers: one key in the lowest tenth, the other in the highest tenth of the slots
	edge := ns / 10
	minMovers := 1
	if len(c.Writers) == 0 {
		minMovers = 2 // at least two writing goroutines
	}
	for j, n := 0, rapid.IntRange(minMovers, maxMovers).Draw(t, "movers"); j < n; j++ {
		a := rapid.IntRange(0, edge).Draw(t, "slotlow")
		b := ns - 1 - rapid.IntRange(0, edge).Draw(t, "slothigh")
		if rapid.Bool().Draw(t, "starthigh") {
			a, b = b, a
		}
		c.Movers = append(c.Movers, Mover{SlotA: a, SlotB: b, Moves: rapid.IntRange(40, map[bool]int{false: 600, true: 3000}[thorough]).Draw(t, "moves")})
	}
	top := ns * stride
	if slow {
		c.SlowPasses = 1
	}
	for r, n := 0, rapid.IntRange(1, 3).Draw(t, "readers"); r < n; r++ {
		var first []WOp
		if slow && r == 0 {
			// a full scan whose filter burns 40, 60 or 100 million loop iterations in total (several tens of
			// milliseconds on any current machine) while it holds the read lock; the movers wait behind it
			first = []WOp{{
				Kind:     rapid.SampledFrom([]string{"agte", "agt", "dlte", "dlt"}).Draw(t, "slowscan"),
				NilPivot: true, Filter: filterAll, N: ns + 64,
				Spin: rapid.SampledFrom([]int{40e6, 60e6, 100e6}).Draw(t, "slowtotal") / ns,
			}}
		}
		c.Readers = append(c.Readers, append(first, drawSeq(t, "prog", atLeast(t, "progmin", 6, 1, 2, 4), 6, func(t *rapid.T, i int) WOp {
			if rapid.IntRange(0, 9).Draw(t, "get") == 0 {
				return WOp{Kind: "get", Key: rapid.IntRange(0, top-1).Draw(t, "getkey")}
			}
			op := WOp{Kind: rapid.SampledFrom([]string{"agte", "agt", "dlte", "dlt"}).Draw(t, "scan")}
			asc, _, _ := isScan(op.Kind)
			switch pk := rapid.IntRange(0, 9).Draw(t, "pivotkind"); {
			case pk < 5:
				op.NilPivot = true
			case pk < 8: // just outside the key range on the side the scan starts from
				op.Key = rapid.SampledFrom([]int{-1, -9}).Draw(t, "edgepivot")
				if !asc {
					op.Key = top + rapid.SampledFrom([]int{0, 5}).Draw(t, "edgepivot")
				}
			default:
				op.Key = rapid.IntRange(0, top-1).Draw(t, "pivot")
			}
			op.Filter = rapid.SampledFrom([]int{filterAll, filterAll, filterAll, filterAll, filterAll, filterEvenKey, filterEvenKey, filterOddVersion, filterVersionGE, filterNone}).Draw(t, "filter")
			if op.Filter == filterVersionGE {
				op.FArg = rapid.IntRange(0, stride).Draw(t, "fargowner")*verBase + rapid.IntRange(0, 5000).Draw(t, "fargseq")
			}
			// mostly beyond everything the tree can hold (static + 20 keys per writer + movers)
			op.N = rapid.SampledFrom([]int{ns + 64, ns + 64, 1024, 2048, 4096, ns / 2, 300, 520}).Draw(t, "n")
			return op
		})...))
	}
	return c
}

var wideRule = "rapid: tree.BTree (degree 2) preloaded with 300-700 static keys (thorough 990; about one case in fourteen 1100-2100, a few of those 4200; all slots but 0-12 drawn holes; about one case in ten starts its first reader with a full scan (nil pivot, filter all) whose filter burns 40, 60 or 100 million loop iterations in total, in its first pass only, so that the scan holds the read lock for tens of milliseconds while the movers queue up), 1-3 movers (2-3 if there is no writer) that each toggle one item between a key in the lowest tenth and a key in the highest tenth of the key range with Update (40-600 moves, thorough 3000), 0-2 owner-partitioned writers spread over the whole range (programs of 1-20 calls, 1-4 times), 1-3 readers looping over 1-6 drawn calls until the writers are done: mostly full scans in both directions (pivot nil or just outside the range, sometimes inside; filter mostly all / even keys; n mostly above everything the tree can hold, sometimes len/2, 300, 520), a few Gets; spin barrier, GOMAXPROCS 2/4/8. Executor and oracle of the stress part: every scan strictly ordered, within bound and limit, filter-true, only stored items, every static key of the covered range present, and exactly one key of every mover pair whose two keys lie in the covered range (a scan is one atomic step, Update is one atomic step - no schedule may show the item twice or not at all); writers and movers see their own keys sequentially; end state = static + writers' models + movers, VerifCheck. Non-trivial: >= 2 writing goroutines and at least one read completed while writers were active; distinct = distinct case JSON"

var PartStressWide = &vkit.Part[CaseS]{
	Property: Property, Name: "stress-wide",
	Rule:  wideRule,
	Quick: 150, Thorough: 300,
	Gen: GenStressWide, Exec: guarded("stress-wide.", execStress("stress-wide.")),
}

var PartRaceStressWide = &vkit.Part[CaseS]{
	Property: Property, Name: "race-stress-wide",
	Rule:  wideRule + " (binary built with -race)",
	Quick: 40, Thorough: 120,
	Gen: GenStressWide, Exec: guarded("race-stress-wide.", execStress("race-stress-wide.")),
}
