package c03btree

import (
	"fmt"
	"runtime"
	"sort"
	"strings"
	"sync"
	"sync/atomic"
	"time"

	"github.com/anishathalye/porcupine"
	"github.com/pinealctx/neptune/ds/tree"
	"pgregory.net/rapid"

	"verifharness/vkit"
)

// The parts of this file run free goroutines; they are driven from TestRace_*
// (binary built with -race, where an unsynchronised access is reported by the
// detector and ends the process) and, for the two wrapper parts, also from the
// plain binary, which interleaves more tightly.

func setProcs(n int) (restore func()) {
	if n < 1 || n > 16 {
		n = 4
	}
	old := runtime.GOMAXPROCS(n)
	return func() { runtime.GOMAXPROCS(old) }
}

// spinBarrier lines n goroutines up as tightly as the scheduler allows.
type spinBarrier struct {
	n     int32
	ready atomic.Int32
}

func (b *spinBarrier) wait() {
	b.ready.Add(1)
	for b.ready.Load() < b.n {
		runtime.Gosched()
	}
}

func guard(res *vkit.Result, site string, fn func()) {
	defer func() {
		if r := recover(); r != nil {
			buf := make([]byte, 2048)
			buf = buf[:runtime.Stack(buf, false)]
			res.Failf(site+"/panic", "panic: %v\n%s", r, buf)
		}
	}()
	fn()
}

func firstFailure(into *vkit.Result, parts ...*vkit.Result) {
	for _, p := range parts {
		for _, c := range p.Classes {
			into.Class(c)
		}
		into.Skipped = append(into.Skipped, p.Skipped...)
	}
	for _, p := range parts {
		if p.Fail != nil && into.Fail == nil {
			into.Fail = p.Fail
		}
	}
}

// ---------------------------------------------------------------------------
// race part 1: clone forest, every tree on its own goroutine

// Round is one phase of a concurrent clone program: first the listed trees are
// cloned one after another by the controller (Clone must not run concurrently
// with anything else on its receiver), then every tree runs its own program on
// its own goroutine, then the controller compares the whole forest.
type Round struct {
	Clones []int   `json:"clones"`
	Progs  [][]BOp `json:"progs"` // Progs[i]: ops of tree i in this round
}

type CaseRC struct {
	Degree int     `json:"degree"`
	Procs  int     `json:"procs"`
	Pre    []int   `json:"pre"`
	Rounds []Round `json:"rounds"`
}

func GenRaceClones(t *rapid.T) CaseRC {
	c := CaseRC{Degree: rapid.SampledFrom([]int{2, 2, 3, 4, 7, 32}).Draw(t, "degree"), Procs: rapid.SampledFrom([]int{2, 4, 8}).Draw(t, "procs")}
	var hi int
	c.Pre, hi = genPre(t, c.Degree, 100)
	d := keyDomain{Mode: 0, Hi: hi}
	models := []*Model{{}}
	for i, k := range c.Pre {
		models[0].Put(Item{k, i + 1})
	}
	maxProg := 12
	if vkit.Tier() == "thorough" {
		maxProg = 40
	}
	rounds := rapid.IntRange(1, 4).Draw(t, "rounds")
	for r := 0; r < rounds; r++ {
		var rd Round
		lo := 0
		if r == 0 {
			lo = 1
		}
		for i, n := 0, rapid.IntRange(lo, 2).Draw(t, "nclones"); i < n && len(models) < maxForest; i++ {
			src := rapid.IntRange(0, len(models)-1).Draw(t, "src")
			rd.Clones = append(rd.Clones, src)
			models = append(models, models[src].Copy())
		}
		delWeight := rapid.SampledFrom([]int{2, 6, 12}).Draw(t, "delweight")
		if rapid.IntRange(0, 5).Draw(t, "clearcase") == 3 {
			delWeight = -delWeight
		}
		for ti := range models {
			m := models[ti]
			rd.Progs = append(rd.Progs, drawSeq(t, "prog", atLeast(t, "progmin", maxProg, 0, 2, 5, 9, maxProg*3/4), maxProg, func(t *rapid.T, i int) BOp {
				op := genTreeOp(t, m, d, delWeight)
				modelApply(m, op, 0)
				return op
			}))
		}
		c.Rounds = append(c.Rounds, rd)
	}
	return c
}

func ExecRaceClones(c CaseRC) *vkit.Result {
	res := &vkit.Result{}
	if !validDegree(c.Degree) {
		res.Skip("degree-out-of-range")
		return res
	}
	defer setProcs(c.Procs)()
	f := newForest(c.Degree)
	res.Class(fmt.Sprintf("degree-%d", c.Degree))
	const sp = "race-clones."
	for i, k := range c.Pre {
		if _, ok := applyTreeOp(res, f.trees[0], f.models[0], nil, BOp{Kind: "put", A: k}, i+1, sp, fmt.Sprintf("pre %d put %d", i, k)); !ok {
			return res
		}
	}
	if !f.checkAll(res, 0, sp+"ReplaceOrInsert", "after the growth prefix") {
		return res
	}
	concurrentWriters := false
	for r, rd := range c.Rounds {
		for _, src := range rd.Clones {
			if src < 0 || src >= len(f.trees) || len(f.trees) >= maxForest {
				res.Skip("clone-skipped")
				continue
			}
			if h, _ := f.trees[src].VerifHeight(); h >= 2 {
				res.Class("clone-of-tree-with-height>=2")
			}
			f.clone(src)
		}
		if !f.checkAll(res, len(f.trees)-1, sp+"Clone", fmt.Sprintf("round %d after cloning %v", r, rd.Clones)) {
			return res
		}
		n := len(rd.Progs)
		if n > len(f.trees) {
			n = len(f.trees)
			res.Skip("program-for-missing-tree")
		}
		parts := make([]*vkit.Result, n)
		writers := 0
		var wg sync.WaitGroup
		bar := &spinBarrier{n: int32(n)}
		for ti := 0; ti < n; ti++ {
			parts[ti] = &vkit.Result{}
			for _, op := range rd.Progs[ti] {
				if _, scan := scanSpecs[op.Kind]; !scan && op.Kind != "get" && op.Kind != "has" && f.shares[ti] {
					writers++
					break
				}
			}
			wg.Add(1)
			go func(ti int, pr *vkit.Result) {
				defer wg.Done()
				t, m := f.trees[ti], f.models[ti]
				bar.wait()
				guard(pr, sp+"program", func() {
					for i, op := range rd.Progs[ti] {
						ctx := fmt.Sprintf("round %d tree %d (cloned from %d) op %d %+v", r, ti, f.origin[ti], i, op)
						if !knownTreeOp(op.Kind) || op.Stop < 0 {
							pr.Skip("unknown-op")
							continue
						}
						if _, scan := scanSpecs[op.Kind]; scan {
							if _, ok := runScan(pr, t, m, op, sp, ctx); !ok {
								return
							}
							continue
						}
						ver := 1 + len(c.Pre) + r*100000 + ti*1000 + i
						write, ok := applyTreeOp(pr, t, m, nil, op, ver, sp, ctx)
						if !ok {
							return
						}
						if write {
							// only this tree: the others are being written by their own goroutines
							if err := t.VerifCheck(); err != nil {
								pr.Failf(sp+treeOpName(op.Kind)+"/balance", "%s: structural invariant broken: %v", ctx, err)
								return
							}
							if op.Kind == "clear" {
								pr.Class("clear-on-sharing-tree")
							}
						}
					}
					treeContent(pr, t, m, sp+"program-end", fmt.Sprintf("round %d tree %d at the end of its program", r, ti))
				})
			}(ti, parts[ti])
		}
		wg.Wait()
		firstFailure(res, parts...)
		if res.Fail != nil {
			return res
		}
		if writers >= 2 {
			concurrentWriters = true
			res.Class("concurrent-writers-on-sharing-trees")
		}
		for ti := 0; ti < n; ti++ {
			for _, op := range rd.Progs[ti] {
				if op.Kind == "clear" {
					f.shares[ti] = false
				}
			}
		}
		if !f.checkAll(res, -1, sp+"round-end", fmt.Sprintf("after round %d", r)) {
			return res
		}
	}
	res.Class(fmt.Sprintf("forest-of-%d", len(f.trees)))
	res.NonTrivial = concurrentWriters
	return res
}

var PartRaceClones = &vkit.Part[CaseRC]{
	Property: Property, Name: "race-clones",
	Rule:  "rapid: 1-4 rounds; in each round the controller clones 0-2 drawn trees of the forest (first round >= 1; degree 2/3/4/7/32, growth prefix up to 100 keys, up to 8 trees), then every tree runs its own drawn program (0-12 ops, thorough 40: ReplaceOrInsert/Delete/DeleteMin/DeleteMax/Clear/Get/Has/scans) on its own goroutine, started behind a spin barrier, GOMAXPROCS 2/4/8, binary built with -race. Oracle: every goroutine compares each return value and scan with the model of its own tree and runs VerifCheck after each write; after the round the controller compares every tree with its model; the race detector reports any write to a node shared with another tree. Non-trivial: in some round at least two trees that share nodes were written concurrently; distinct = distinct case JSON",
	Quick: 800, Thorough: 2500,
	Gen: GenRaceClones, Exec: ExecRaceClones,
}

// ---------------------------------------------------------------------------
// race part 2: the locked wrapper, small concurrent histories judged by porcupine

type CaseL struct {
	Procs int `json:"procs"`
	// Spin: loop iterations burnt in every key comparison (stretches the calls so
	// that they overlap and contend for the lock).
	Spin    int     `json:"spin"`
	Pre     []int   `json:"pre"`     // keys present before the threads start (version = 1+index)
	Threads [][]WOp `json:"threads"` // version of thread t's i-th op = 1000*(t+1)+i
}

type linIn struct {
	Op  WOp
	Ver int
}

type linOut struct {
	B     bool
	It    Item
	Has   bool
	Items []Item
	Bad   string // the tree handed out something that is not an Item
}

func linVer(thread, i int) int { return 1000*(thread+1) + i }

func GenLin(t *rapid.T) CaseL {
	c := CaseL{Procs: rapid.SampledFrom([]int{2, 4, 8}).Draw(t, "procs"), Spin: rapid.SampledFrom([]int{50, 300, 1500, 5000}).Draw(t, "spin")}
	d := keyDomain{Mode: 0, Hi: rapid.SampledFrom([]int{3, 5, 7}).Draw(t, "hi")}
	m := &Model{}
	for k := 0; k <= d.Hi; k++ {
		if rapid.IntRange(0, 2).Draw(t, "prekey") > 0 {
			c.Pre = append(c.Pre, k)
			m.Put(Item{k, len(c.Pre)})
		}
	}
	threads := rapid.IntRange(2, 4).Draw(t, "threads")
	perThread := 6
	if threads == 4 {
		perThread = 5
	}
	for th := 0; th < threads; th++ {
		c.Threads = append(c.Threads, drawSeq(t, "prog", atLeast(t, "progmin", perThread, 1, 2, 3, 4), perThread, func(t *rapid.T, i int) WOp {
			op := genWOp(t, m, d, 3, 0)
			if op.Filter == filterVersionGE {
				op.FArg = rapid.SampledFrom([]int{0, 2, 1000, 1002, 2000, 2001, 3000, 5000}).Draw(t, "farg")
			}
			if op.N > 4 {
				op.N = rapid.IntRange(1, 9).Draw(t, "n")
			}
			return op
		}))
	}
	return c
}

// doWrapperOp performs one WOp on the wrapper and packages the result.
func doWrapperOp(tr *tree.BTree, op WOp, ver int) linOut {
	var out linOut
	switch op.Kind {
	case "ins":
		tr.Insert(Item{op.Key, ver})
	case "upd", "upsert":
		var newV tree.Node = Item{op.Key2, ver}
		var oldV tree.Node = Item{K: op.Key}
		if op.Same {
			oldV = newV // one and the same value as old and as new
		}
		if op.Kind == "upd" {
			out.B = tr.Update(oldV, newV)
		} else {
			out.B = tr.UpdateOrInsert(oldV, newV)
		}
	case "del":
		out.B = tr.Delete(Item{K: op.Key})
	case "get":
		if v := tr.Get(Item{K: op.Key}); v != nil {
			x, ok := v.(Item)
			if !ok {
				out.Bad = fmt.Sprint(v)
			}
			out.It, out.Has = x, true
		}
	default:
		f := filterFn(op.Filter, op.FArg)
		wf := func(n tree.Node) bool { x, ok := n.(Item); return ok && f(x) }
		if op.Spin > 0 && op.Spin <= maxFilterSpin {
			wf = func(n tree.Node) bool {
				burn(op.Spin)
				x, ok := n.(Item)
				return ok && f(x)
			}
		}
		p := pivotOf(keyPtr(op.NilPivot, op.Key))
		var raw []tree.Node
		switch op.Kind {
		case "agte":
			raw = tr.AscendGte(p, wf, op.N)
		case "agt":
			raw = tr.AscendGt(p, wf, op.N)
		case "dlte":
			raw = tr.DescendLte(p, wf, op.N)
		case "dlt":
			raw = tr.DescendLt(p, wf, op.N)
		}
		items, ok := asItems(raw)
		if !ok {
			out.Bad = fmt.Sprint(raw)
		}
		out.Items = items
	}
	return out
}

// maxFilterSpin bounds WOp.Spin (loop iterations per visited item).
const maxFilterSpin = 1 << 22

// burn runs n iterations of a loop the compiler cannot remove.
func burn(n int) {
	var x int64
	for i := 0; i < n; i++ {
		x += int64(i) ^ x<<1
	}
	spinSink.Store(x)
}

func validWOp(op WOp) bool {
	switch op.Kind {
	case "ins", "upd", "upsert", "del", "get":
		return true
	}
	_, _, scan := isScan(op.Kind)
	return scan && op.N >= 0 && op.Filter >= 0 && op.Filter < filterKinds
}

func isWriteKind(kind string) bool {
	return kind == "ins" || kind == "upd" || kind == "upsert" || kind == "del"
}

// linModel is the sequential specification handed to porcupine: the sorted-set
// model, used functionally.
func linModel(init *Model) porcupine.Model {
	return porcupine.Model{
		Init: func() interface{} { return init },
		Step: func(state, input, output interface{}) (bool, interface{}) {
			m := state.(*Model)
			in := input.(linIn)
			out := output.(linOut)
			if out.Bad != "" {
				return false, m
			}
			if isWriteKind(in.Op.Kind) {
				nm := m.Copy()
				ret := applyWrite(nm, in.Op, in.Ver)
				return in.Op.Kind == "ins" || ret == out.B, nm
			}
			if in.Op.Kind == "get" {
				x, had := m.Get(in.Op.Key)
				return had == out.Has && x == out.It, m
			}
			asc, incl, _ := isScan(in.Op.Kind)
			exp := expectScan(m, asc, incl, keyPtr(in.Op.NilPivot, in.Op.Key), filterFn(in.Op.Filter, in.Op.FArg), in.Op.N)
			return sameItems(exp, out.Items), m
		},
		Equal: func(a, b interface{}) bool { return sameItems(a.(*Model).it, b.(*Model).it) },
	}
}

func describeLinOp(o porcupine.Operation) string {
	in := o.Input.(linIn)
	out := o.Output.(linOut)
	var call, ret string
	switch in.Op.Kind {
	case "ins":
		call, ret = fmt.Sprintf("Insert(%d#%d)", in.Op.Key, in.Ver), "-"
	case "upd":
		call, ret = fmt.Sprintf("Update(%d -> %d#%d)", in.Op.oldKey(), in.Op.Key2, in.Ver), fmt.Sprint(out.B)
	case "upsert":
		call, ret = fmt.Sprintf("UpdateOrInsert(%d -> %d#%d)", in.Op.oldKey(), in.Op.Key2, in.Ver), fmt.Sprint(out.B)
	case "del":
		call, ret = fmt.Sprintf("Delete(%d)", in.Op.Key), fmt.Sprint(out.B)
	case "get":
		call, ret = fmt.Sprintf("Get(%d)", in.Op.Key), optStr(out.It, out.Has)
	default:
		call = fmt.Sprintf("%s(pivot=%s, filter=%s(%d), n=%d)", scanName(in.Op.Kind), pivStr(keyPtr(in.Op.NilPivot, in.Op.Key)), filterNames[in.Op.Filter], in.Op.FArg, in.Op.N)
		ret = fmtItems(out.Items)
	}
	return fmt.Sprintf("T%d [%d,%d] %s = %s%s", o.ClientId, o.Call, o.Return, call, ret, out.Bad)
}

// porcupineBudget bounds one linearizability check; running out is counted as
// inconclusive, never as a verdict.
const porcupineBudget = 20 * time.Second

func execLin(sitePrefix string) func(c CaseL) *vkit.Result {
	return func(c CaseL) *vkit.Result {
		res := &vkit.Result{}
		if len(c.Threads) == 0 || len(c.Threads) > 8 {
			res.Skip("no-threads")
			return res
		}
		defer setProcs(c.Procs)()
		tr := tree.NewBTree()
		init := &Model{}
		for i, k := range c.Pre {
			tr.Insert(Item{k, i + 1})
			init.Put(Item{k, i + 1})
		}
		if c.Spin > 0 && c.Spin <= 100000 {
			lessSpin.Store(int32(c.Spin))
			defer lessSpin.Store(0)
		}
		var clock atomic.Int64
		hist := make([][]porcupine.Operation, len(c.Threads))
		parts := make([]*vkit.Result, len(c.Threads))
		bar := &spinBarrier{n: int32(len(c.Threads))}
		var wg sync.WaitGroup
		for th := range c.Threads {
			parts[th] = &vkit.Result{}
			wg.Add(1)
			go func(th int, pr *vkit.Result) {
				defer wg.Done()
				bar.wait()
				guard(pr, sitePrefix+"program", func() {
					for i, op := range c.Threads[th] {
						if !validWOp(op) {
							pr.Skip("unknown-op-or-negative-n")
							continue
						}
						ver := linVer(th, i)
						call := clock.Add(1)
						out := doWrapperOp(tr, op, ver)
						ret := clock.Add(1)
						hist[th] = append(hist[th], porcupine.Operation{ClientId: th, Input: linIn{op, ver}, Call: call, Output: out, Return: ret})
					}
				})
			}(th, parts[th])
		}
		wg.Wait()
		firstFailure(res, parts...)
		if res.Fail != nil {
			return res
		}
		var ops []porcupine.Operation
		for _, h := range hist {
			ops = append(ops, h...)
		}
		// the final content, read after every thread has returned, is part of the history
		final := WOp{Kind: "agte", NilPivot: true, Filter: filterAll, N: len(c.Pre) + len(ops) + 1}
		call := clock.Add(1)
		out := doWrapperOp(tr, final, 0)
		ops = append(ops, porcupine.Operation{ClientId: len(c.Threads), Input: linIn{final, 0}, Call: call, Output: out, Return: clock.Add(1)})
		if err := tr.VerifInner().VerifCheck(); err != nil {
			return res.Failf(sitePrefix+"balance", "structural invariant broken after the concurrent history: %v", err)
		}
		if n := tr.VerifInner().Len(); n != len(out.Items) {
			return res.Failf(sitePrefix+"len", "Len() = %d but the final full scan returns %d items %s", n, len(out.Items), fmtItems(out.Items))
		}
		switch porcupine.CheckOperationsTimeout(linModel(init), ops, porcupineBudget) {
		case porcupine.Illegal:
			sort.Slice(ops, func(i, j int) bool { return ops[i].Call < ops[j].Call })
			var sb strings.Builder
			for _, o := range ops {
				sb.WriteString("\n  " + describeLinOp(o))
			}
			return res.Failf(sitePrefix+"linearizability", "no sequential order of these calls (respecting real time) explains their results against a sorted set starting from %s:%s", fmtItems(init.it), sb.String())
		case porcupine.Unknown:
			res.Skip("porcupine-budget-exhausted")
			return res
		}
		// classes: how concurrent was the history really
		overlap, overlapW := 0, 0
		for i := range ops {
			for j := i + 1; j < len(ops); j++ {
				a, b := ops[i], ops[j]
				if a.ClientId != b.ClientId && a.Call < b.Return && b.Call < a.Return {
					overlap++
					if isWriteKind(a.Input.(linIn).Op.Kind) || isWriteKind(b.Input.(linIn).Op.Kind) {
						overlapW++
					}
				}
			}
		}
		if overlap > 0 {
			res.Class("overlapping-calls")
		}
		if overlapW > 0 {
			res.Class("write-overlaps-another-call")
		}
		if overlapW >= 3 {
			res.Class("3+-write-overlaps")
		}
		res.Class(fmt.Sprintf("threads-%d", len(c.Threads)))
		res.NonTrivial = overlapW > 0
		return res
	}
}

var linRule = "rapid: tree.BTree preloaded with a drawn subset of keys 0..3/5/7, then 2-4 goroutines (spin barrier, GOMAXPROCS 2/4/8) each run 1-6 drawn calls (Insert, Update, UpdateOrInsert, Delete, Get, the four scans with filters and n <= 9) with unique versions; call/return are stamped with an atomic counter, a final full scan is appended, and porcupine decides whether some real-time-respecting sequential order explains every return value against the sorted-set model (budget 20 s per history, exhausted = skipped); VerifCheck and Len after the history. Non-trivial: a write's interval overlapped another thread's call; distinct = distinct case JSON"

var PartLin = &vkit.Part[CaseL]{
	Property: Property, Name: "lin",
	Rule:  linRule,
	Quick: 6000, Thorough: 20000,
	Gen: GenLin, Exec: guarded("lin.", execLin("lin.")),
}

var PartRaceLin = &vkit.Part[CaseL]{
	Property: Property, Name: "race-lin",
	Rule:  linRule + " (binary built with -race: unlocked access is reported by the detector)",
	Quick: 2000, Thorough: 4000,
	Gen: GenLin, Exec: guarded("race-lin.", execLin("race-lin.")),
}

// ---------------------------------------------------------------------------
// race part 3: the locked wrapper under heavier load, end-state and reader invariants

// Key layout of a stress case: key = slot*stride + owner. Owners 0..3 are
// writers (each works on its own keys only, so the writers commute and each
// one's view of its keys is sequential), 4..6 are movers (each owns two keys and
// moves one item between them with Update), 7 is static (preloaded, never
// written).
const (
	stride      = 8
	maxWriters  = 4
	moverBase   = 4
	maxMovers   = 3
	staticOwner = 7
	slots       = 14
	verBase     = 1000000
)

type Mover struct {
	SlotA int `json:"slot_a"`
	SlotB int `json:"slot_b"`
	Moves int `json:"moves"`
}

type CaseS struct {
	Procs   int     `json:"procs"`
	Static  []int   `json:"static"`  // slots of the static keys
	Writers [][]WOp `json:"writers"` // keys are real keys of the writer's residue class
	Reps    int     `json:"reps"`    // each writer runs its program Reps times
	Movers  []Mover `json:"movers"`
	Readers [][]WOp `json:"readers"` // scans and gets, repeated until the writers are done
	// SlowPasses: in its first SlowPasses passes a reader honours WOp.Spin (a filter that burns
	// time per visited item, so the scan holds the read lock for tens of milliseconds while the
	// movers queue up behind it); later passes run the same scans at full speed.
	SlowPasses int `json:"slow_passes,omitempty"`
}

// maxSlot bounds the slot numbers of static keys and movers.
const maxSlot = 5000

func ownerOf(k int) int { return ((k % stride) + stride) % stride }

func staticItem(k int) Item { return Item{k, staticOwner*verBase + k} }

func GenStress(t *rapid.T) CaseS {
	c := CaseS{Procs: rapid.SampledFrom([]int{2, 4, 8}).Draw(t, "procs")}
	for s := 0; s < slots; s++ {
		if rapid.Bool().Draw(t, "static") {
			c.Static = append(c.Static, s)
		}
	}
	thorough := vkit.Tier() == "thorough"
	c.Reps = rapid.IntRange(1, map[bool]int{false: 12, true: 40}[thorough]).Draw(t, "reps")
	nw := rapid.IntRange(1, maxWriters).Draw(t, "writers")
	for w := 0; w < nw; w++ {
		// a writer's program is drawn by folding a model over its own residue class
		m := &Model{}
		c.Writers = append(c.Writers, drawSeq(t, "prog", atLeast(t, "progmin", 30, 1, 4, 10, 20), 30, func(t *rapid.T, i int) WOp {
			key := func(label string, pct int) int {
				if m.Len() > 0 && rapid.IntRange(1, 100).Draw(t, label+"p") <= pct {
					return presentKey(t, m, label+"present")
				}
				return rapid.IntRange(0, slots-1).Draw(t, label)*stride + w
			}
			var op WOp
			switch rapid.IntRange(0, 9).Draw(t, "kind") {
			case 0, 1, 2:
				op = WOp{Kind: "ins", Key: key("ins", 20)}
			case 3, 4:
				op = WOp{Kind: "upd", Key: key("old", 70), Key2: key("new", 30)}
			case 5:
				op = WOp{Kind: "upsert", Key: key("old", 60), Key2: key("new", 30)}
			case 6, 7, 8:
				op = WOp{Kind: "del", Key: key("del", 85)}
			default:
				op = WOp{Kind: "get", Key: key("get", 60)}
			}
			applyWrite(m, op, i+1)
			return op
		}))
	}
	for j, n := 0, rapid.IntRange(0, maxMovers).Draw(t, "movers"); j < n; j++ {
		a := rapid.IntRange(0, slots-1).Draw(t, "slota")
		b := rapid.IntRange(0, slots-2).Draw(t, "slotb")
		if b >= a {
			b++
		}
		c.Movers = append(c.Movers, Mover{SlotA: a, SlotB: b, Moves: rapid.IntRange(1, map[bool]int{false: 300, true: 1500}[thorough]).Draw(t, "moves")})
	}
	for r, n := 0, rapid.IntRange(1, 3).Draw(t, "readers"); r < n; r++ {
		c.Readers = append(c.Readers, drawSeq(t, "prog", atLeast(t, "progmin", 8, 1, 2, 4), 8, func(t *rapid.T, i int) WOp {
			if rapid.IntRange(0, 5).Draw(t, "get") == 0 {
				return WOp{Kind: "get", Key: rapid.IntRange(0, slots*stride-1).Draw(t, "getkey")}
			}
			op := WOp{Kind: rapid.SampledFrom([]string{"agte", "agt", "dlte", "dlt"}).Draw(t, "scan")}
			switch rapid.IntRange(0, 4).Draw(t, "pivotkind") {
			case 0:
				op.NilPivot = true
			case 1:
				op.Key = rapid.SampledFrom([]int{-1, 0, slots * stride, slots*stride + 5}).Draw(t, "edgepivot")
			default:
				op.Key = rapid.IntRange(0, slots*stride-1).Draw(t, "pivot")
			}
			op.Filter = rapid.SampledFrom([]int{filterAll, filterAll, filterAll, filterEvenKey, filterOddVersion, filterVersionGE, filterNone}).Draw(t, "filter")
			if op.Filter == filterVersionGE {
				op.FArg = rapid.IntRange(0, stride).Draw(t, "fargowner")*verBase + rapid.IntRange(0, 5000).Draw(t, "fargseq")
			}
			op.N = rapid.SampledFrom([]int{0, 1, 3, 8, 20, 200, 200}).Draw(t, "n")
			return op
		}))
	}
	return c
}

// stressLayout is the static part of a stress case, derived from the case.
type stressLayout struct {
	static map[int]bool // static keys
	pairs  [][2]int     // mover key pairs
	span   []int        // per pair: number of static keys strictly between its two keys
	// how often the exactly-one rule of a mover pair was decided by a scan (classes only)
	judged, judgedWide atomic.Int64
}

// wideSpan: a mover pair with at least this many static keys between its two keys is "wide".
const wideSpan = 256

// checkStressScan judges one concurrent scan result by what must hold at every
// instant: order, bound, limit, filter, provenance of every item, presence of
// every static item in the covered range, exactly one key of every mover pair
// that lies in the covered range.
func checkStressScan(res *vkit.Result, lay *stressLayout, op WOp, got []Item, site, ctx string) bool {
	asc, incl, _ := isScan(op.Kind)
	f := filterFn(op.Filter, op.FArg)
	pivot := keyPtr(op.NilPivot, op.Key)
	fail := func(format string, args ...any) bool {
		res.Failf(site, "%s: %s(pivot=%s, filter=%s(%d), n=%d) = %s: %s", ctx, scanName(op.Kind), pivStr(pivot), filterNames[op.Filter], op.FArg, op.N, fmtItems(got), fmt.Sprintf(format, args...))
		return false
	}
	if len(got) > op.N {
		return fail("more than n items")
	}
	inRange := func(k int) bool {
		if pivot == nil {
			return true
		}
		if asc {
			return k > *pivot || (incl && k == *pivot)
		}
		return k < *pivot || (incl && k == *pivot)
	}
	seen := map[int]bool{}
	for i, x := range got {
		if i > 0 && ((asc && got[i-1].K >= x.K) || (!asc && got[i-1].K <= x.K)) {
			return fail("not strictly in scan order at position %d", i)
		}
		if !inRange(x.K) {
			return fail("item %v lies on the wrong side of the pivot", x)
		}
		if !f(x) {
			return fail("item %v does not pass the filter", x)
		}
		if x.K < 0 || x.V/verBase != ownerOf(x.K) {
			return fail("item %v was never stored (version does not belong to the owner of the key)", x)
		}
		if lay.static[x.K] && x != staticItem(x.K) {
			return fail("static item %v differs from what was stored (%v)", x, staticItem(x.K))
		}
		seen[x.K] = true
	}
	// covered range: up to the end if the limit did not cut, else up to the last returned key
	covered := func(k int) bool {
		if !inRange(k) {
			return false
		}
		if len(got) < op.N {
			return true
		}
		if len(got) == 0 {
			return false
		}
		last := got[len(got)-1].K
		if asc {
			return k <= last
		}
		return k >= last
	}
	for k := range lay.static {
		if covered(k) && f(staticItem(k)) && !seen[k] {
			return fail("static key %d lies in the scanned range and passes the filter but is missing", k)
		}
	}
	if op.Filter == filterAll || op.Filter == filterEvenKey {
		for i, p := range lay.pairs {
			if covered(p[0]) && covered(p[1]) && f(Item{K: p[0]}) {
				lay.judged.Add(1)
				if i < len(lay.span) && lay.span[i] >= wideSpan {
					lay.judgedWide.Add(1)
				}
				if seen[p[0]] == seen[p[1]] {
					return fail("mover keys %d and %d: exactly one of them exists at every instant (Update is one atomic step), the scan saw %s", p[0], p[1], map[bool]string{true: "both", false: "neither"}[seen[p[0]]])
				}
			}
		}
	}
	return true
}

func execStress(sitePrefix string) func(c CaseS) *vkit.Result {
	return func(c CaseS) *vkit.Result {
		res := &vkit.Result{}
		if len(c.Writers) > maxWriters || len(c.Movers) > maxMovers || len(c.Readers) > 8 || c.Reps < 0 || c.Reps > 900 {
			res.Skip("malformed-case")
			return res
		}
		defer setProcs(c.Procs)()
		tr := tree.NewBTree()
		lay := &stressLayout{static: map[int]bool{}}
		final := &Model{} // what the tree must hold at the end
		for _, s := range c.Static {
			if s < 0 || s >= maxSlot {
				res.Skip("static-slot-out-of-range")
				continue
			}
			k := s*stride + staticOwner
			lay.static[k] = true
			tr.Insert(staticItem(k))
			final.Put(staticItem(k))
		}
		type moverState struct {
			a, b  int
			moves int
			cur   Item
		}
		var movers []*moverState
		for j, mv := range c.Movers {
			if mv.SlotA == mv.SlotB || mv.SlotA < 0 || mv.SlotB < 0 || mv.SlotA >= maxSlot || mv.SlotB >= maxSlot || mv.Moves < 0 || mv.Moves > 100000 {
				res.Skip("malformed-mover")
				continue
			}
			ms := &moverState{a: mv.SlotA*stride + moverBase + j, b: mv.SlotB*stride + moverBase + j, moves: mv.Moves}
			ms.cur = Item{ms.a, (moverBase + j) * verBase}
			tr.Insert(ms.cur)
			lay.pairs = append(lay.pairs, [2]int{ms.a, ms.b})
			movers = append(movers, ms)
		}
		for _, p := range lay.pairs {
			between := 0
			for k := range lay.static {
				if (k > p[0]) != (k > p[1]) {
					between++
				}
			}
			lay.span = append(lay.span, between)
		}
		if len(lay.static) >= wideSpan {
			res.Class("256+-static-keys")
		}
		if len(lay.static) > 1024 {
			res.Class("1024+-static-keys")
		}
		if len(lay.static) > 4096 {
			res.Class("4096+-static-keys")
		}
		var slowScans atomic.Int64
		var (
			wg, rg       sync.WaitGroup
			done         atomic.Bool
			overlapScans atomic.Int64
		)
		nAct := len(c.Writers) + len(movers) + len(c.Readers)
		bar := &spinBarrier{n: int32(nAct)}
		wparts := make([]*vkit.Result, len(c.Writers))
		wmodels := make([]*Model, len(c.Writers))
		for w := range c.Writers {
			wparts[w] = &vkit.Result{}
			wmodels[w] = &Model{}
			wg.Add(1)
			go func(w int, pr *vkit.Result, m *Model) {
				defer wg.Done()
				bar.wait()
				site := sitePrefix + "writer"
				guard(pr, site, func() {
					for rep := 0; rep < c.Reps; rep++ {
						for i, op := range c.Writers[w] {
							if !validWOp(op) || !isWriteKind(op.Kind) && op.Kind != "get" {
								pr.Skip("unknown-op")
								continue
							}
							if op.Key < 0 || ownerOf(op.Key) != w || ((op.Kind == "upd" || op.Kind == "upsert") && (op.Key2 < 0 || ownerOf(op.Key2) != w)) {
								pr.Skip("key-of-another-owner")
								continue
							}
							ver := w*verBase + rep*1000 + i%1000 + 1
							ctx := fmt.Sprintf("writer %d rep %d op %d %+v", w, rep, i, op)
							out := doWrapperOp(tr, op, ver)
							if op.Kind == "get" {
								exp, had := m.Get(op.Key)
								if out.Has != had || out.It != exp || out.Bad != "" {
									pr.Failf(site+".Get", "%s: Get(%d) = %s%s, but this writer is the only one writing the key and last stored %s", ctx, op.Key, optStr(out.It, out.Has), out.Bad, optStr(exp, had))
									return
								}
								continue
							}
							if exp := applyWrite(m, op, ver); op.Kind != "ins" && out.B != exp {
								pr.Failf(site+"."+opName(op.Kind)+"/ret", "%s: returned %v, want %v (only this writer writes these keys; its keys hold %s)", ctx, out.B, exp, fmtItems(m.it))
								return
							}
						}
					}
				})
			}(w, wparts[w], wmodels[w])
		}
		mparts := make([]*vkit.Result, len(movers))
		for j, ms := range movers {
			mparts[j] = &vkit.Result{}
			wg.Add(1)
			go func(j int, ms *moverState, pr *vkit.Result) {
				defer wg.Done()
				bar.wait()
				site := sitePrefix + "mover"
				guard(pr, site, func() {
					for i := 0; i < ms.moves; i++ {
						to := ms.a
						if ms.cur.K == ms.a {
							to = ms.b
						}
						next := Item{to, ms.cur.V + 1}
						if !tr.Update(Item{K: ms.cur.K}, next) {
							pr.Failf(site+".Update/ret", "mover %d move %d: Update(%d -> %v) returned false although only this goroutine writes the two keys and %v was stored", j, i, ms.cur.K, next, ms.cur)
							return
						}
						old := ms.cur
						ms.cur = next
						if i%16 == 0 {
							if v := tr.Get(Item{K: old.K}); v != nil {
								pr.Failf(site+".Get", "mover %d move %d: old key %d still present (%v) after Update to %v", j, i, old.K, v, next)
								return
							}
							if v, _ := tr.Get(Item{K: next.K}).(Item); v != next {
								pr.Failf(site+".Get", "mover %d move %d: Get(%d) = %v after Update stored %v", j, i, next.K, v, next)
								return
							}
						}
					}
				})
			}(j, ms, mparts[j])
		}
		rparts := make([]*vkit.Result, len(c.Readers))
		for r := range c.Readers {
			rparts[r] = &vkit.Result{}
			rg.Add(1)
			go func(r int, pr *vkit.Result) {
				defer rg.Done()
				bar.wait()
				site := sitePrefix + "reader"
				guard(pr, site, func() {
					for pass := 0; ; pass++ {
						for i, op := range c.Readers[r] {
							_, _, scan := isScan(op.Kind)
							if !validWOp(op) || !scan && op.Kind != "get" {
								pr.Skip("unknown-op")
								continue
							}
							ctx := fmt.Sprintf("reader %d pass %d op %d", r, pass, i)
							if pass >= c.SlowPasses {
								op.Spin = 0
							} else if op.Spin > 0 && scan && !done.Load() {
								slowScans.Add(1)
							}
							out := doWrapperOp(tr, op, 0)
							if out.Bad != "" {
								pr.Failf(site, "%s: foreign value %s", ctx, out.Bad)
								return
							}
							if op.Kind == "get" {
								if out.Has && (out.It.K != op.Key || out.It.K < 0 || out.It.V/verBase != ownerOf(out.It.K) || (lay.static[op.Key] && out.It != staticItem(op.Key))) {
									pr.Failf(site+".Get", "%s: Get(%d) = %v, which was never stored under that key", ctx, op.Key, out.It)
									return
								}
								if !out.Has && lay.static[op.Key] {
									pr.Failf(site+".Get", "%s: Get(%d) = nil for a static key that is never deleted", ctx, op.Key)
									return
								}
							} else if !checkStressScan(pr, lay, op, out.Items, site+"."+scanName(op.Kind), ctx) {
								return
							}
							if !done.Load() {
								overlapScans.Add(1)
							}
						}
						if done.Load() {
							return
						}
					}
				})
			}(r, rparts[r])
		}
		wg.Wait()
		done.Store(true)
		rg.Wait()
		firstFailure(res, wparts...)
		firstFailure(res, mparts...)
		firstFailure(res, rparts...)
		if res.Fail != nil {
			return res
		}
		// end state: the writers commute (disjoint keys), so the content is determined
		for _, m := range wmodels {
			for _, x := range m.it {
				final.Put(x)
			}
		}
		for _, ms := range movers {
			final.Put(ms.cur)
		}
		if err := tr.VerifInner().VerifCheck(); err != nil {
			return res.Failf(sitePrefix+"end/balance", "structural invariant broken after the stress: %v", err)
		}
		if !wrapperContent(res, tr, final, sitePrefix+"end", "after all goroutines returned") {
			return res
		}
		writes := 0
		for _, w := range c.Writers {
			writes += len(w) * c.Reps
		}
		for _, ms := range movers {
			writes += ms.moves
		}
		ov := overlapScans.Load()
		switch {
		case ov >= 100:
			res.Class("100+-reads-while-writers-active")
		case ov >= 10:
			res.Class("10+-reads-while-writers-active")
		case ov > 0:
			res.Class("1+-reads-while-writers-active")
		default:
			res.Class("no-read-overlapped-the-writers")
		}
		if len(movers) > 0 {
			res.Class("has-movers")
		}
		if slowScans.Load() > 0 {
			res.Class("slowed-scan-while-writers-active")
		}
		if lay.judged.Load() > 0 {
			res.Class("scan-judged-a-mover-pair")
		}
		if lay.judgedWide.Load() > 0 {
			res.Class("scan-judged-a-mover-pair-256+-static-keys-apart")
		}
		if h, _ := tr.VerifInner().VerifHeight(); h >= 3 {
			res.Class("ends-with-height>=3")
		}
		res.Class(fmt.Sprintf("writers-%d", len(c.Writers)))
		res.NonTrivial = ov > 0 && writes > 0 && len(c.Writers)+len(movers) >= 2
		return res
	}
}

var stressRule = "rapid: tree.BTree shared by 1-4 writers (each owns the keys of one residue class mod 8 and runs its drawn program of 1-30 Insert/Update/UpdateOrInsert/Delete/Get 1-12 times, thorough 40), 0-3 movers (each owns two keys and moves one item to and fro with Update, up to 300 moves, thorough 1500), static preloaded keys nobody writes, and 1-3 readers looping over 1-8 drawn scans/Gets (all four scans, pivots, filters, n) until the writers are done; spin barrier, GOMAXPROCS 2/4/8. Oracle: each writer and mover sees its own keys sequentially (return values and Gets vs its own model); every scan is strictly ordered, within the pivot bound and the limit, filter-true, contains only items that were stored under their key, contains every static key of the covered range and exactly one key of every mover pair in the covered range (Update is atomic); at the end VerifCheck and content = union of the writers' models + movers + static. Non-trivial: >= 2 writing goroutines and at least one read completed while writers were active; distinct = distinct case JSON"

var PartStress = &vkit.Part[CaseS]{
	Property: Property, Name: "stress",
	Rule:  stressRule,
	Quick: 600, Thorough: 1000,
	Gen: GenStress, Exec: guarded("stress.", execStress("stress.")),
}

var PartRaceStress = &vkit.Part[CaseS]{
	Property: Property, Name: "race-stress",
	Rule:  stressRule + " (binary built with -race)",
	Quick: 120, Thorough: 400,
	Gen: GenStress, Exec: guarded("race-stress.", execStress("race-stress.")),
}
