package c03btree

import (
	"fmt"

	"github.com/pinealctx/neptune/ds/tree/btree"
	"pgregory.net/rapid"

	"verifharness/vkit"
)

// ---------------------------------------------------------------------------
// part (b): the vendored btree.BTree, every degree, every entry point

// BOp is one call on a btree.BTree.
type BOp struct {
	// put | del | delmin | delmax | get | has | clear |
	// asc | ascrange | asclt | ascge | ascgt | desc | descrange | descle | descgt | desclt
	Kind string `json:"op"`
	A    int    `json:"a,omitempty"` // key, or first pivot of a scan
	ANil bool   `json:"a_nil,omitempty"`
	B    int    `json:"b,omitempty"` // second pivot of *Range; Clear: B!=0 = add nodes to the free list
	BNil bool   `json:"b_nil,omitempty"`
	// Stop > 0: the iterator returns false on its Stop-th call (early stop).
	Stop int `json:"stop,omitempty"`
}

type CaseB struct {
	Degree int   `json:"degree"`
	Pre    []int `json:"pre"` // keys inserted first (checked like every other write)
	Ops    []BOp `json:"ops"`
}

var degrees = []int{2, 3, 4, 7, 32}

func validDegree(d int) bool { return d >= 2 && d <= 64 }

// scanSpec gives, for a scan entry point, the visit sequence the documentation
// of the method prescribes.
type scanSpec struct {
	name   string
	asc    bool
	pivots int // how many pivots the entry point takes
	excl   bool
	expect func(m *Model, a, b *int) []Item
	call   func(t *btree.BTree, a, b btree.Item, it btree.ItemIterator)
}

var scanSpecs = map[string]scanSpec{
	"asc": {"Ascend", true, 0, false,
		func(m *Model, a, b *int) []Item { return m.Seq(true, nil, true, nil) },
		func(t *btree.BTree, a, b btree.Item, it btree.ItemIterator) { t.Ascend(it) }},
	"ascrange": {"AscendRange", true, 2, false, // [a, b)
		func(m *Model, a, b *int) []Item { return m.Seq(true, a, true, b) },
		func(t *btree.BTree, a, b btree.Item, it btree.ItemIterator) { t.AscendRange(a, b, it) }},
	"asclt": {"AscendLessThan", true, 1, false, // [first, a)
		func(m *Model, a, b *int) []Item { return m.Seq(true, nil, true, a) },
		func(t *btree.BTree, a, b btree.Item, it btree.ItemIterator) { t.AscendLessThan(a, it) }},
	"ascge": {"AscendGreaterOrEqual", true, 1, false, // [a, last]
		func(m *Model, a, b *int) []Item { return m.Seq(true, a, true, nil) },
		func(t *btree.BTree, a, b btree.Item, it btree.ItemIterator) { t.AscendGreaterOrEqual(a, it) }},
	"ascgt": {"AscendGreater", true, 1, true, // (a, last]
		func(m *Model, a, b *int) []Item { return m.Seq(true, a, false, nil) },
		func(t *btree.BTree, a, b btree.Item, it btree.ItemIterator) { t.AscendGreater(a, it) }},
	"desc": {"Descend", false, 0, false,
		func(m *Model, a, b *int) []Item { return m.Seq(false, nil, true, nil) },
		func(t *btree.BTree, a, b btree.Item, it btree.ItemIterator) { t.Descend(it) }},
	"descrange": {"DescendRange", false, 2, false, // [a, b) downwards
		func(m *Model, a, b *int) []Item { return m.Seq(false, a, true, b) },
		func(t *btree.BTree, a, b btree.Item, it btree.ItemIterator) { t.DescendRange(a, b, it) }},
	"descle": {"DescendLessOrEqual", false, 1, false, // [a, first]
		func(m *Model, a, b *int) []Item { return m.Seq(false, a, true, nil) },
		func(t *btree.BTree, a, b btree.Item, it btree.ItemIterator) { t.DescendLessOrEqual(a, it) }},
	"descgt": {"DescendGreaterThan", false, 1, false, // [last, a)
		func(m *Model, a, b *int) []Item { return m.Seq(false, nil, true, a) },
		func(t *btree.BTree, a, b btree.Item, it btree.ItemIterator) { t.DescendGreaterThan(a, it) }},
	"desclt": {"DescendLess", false, 1, true, // (a, first]
		func(m *Model, a, b *int) []Item { return m.Seq(false, a, false, nil) },
		func(t *btree.BTree, a, b btree.Item, it btree.ItemIterator) { t.DescendLess(a, it) }},
}

var scanKinds = []string{"asc", "ascrange", "asclt", "ascge", "ascgt", "desc", "descrange", "descle", "descgt", "desclt"}

// runScan calls one scan entry point with an iterator that stops at its stop-th
// call and compares the visited items with the model, both ways and in order.
func runScan(res *vkit.Result, t *btree.BTree, m *Model, op BOp, sitePrefix, ctx string) (inside bool, ok bool) {
	sp := scanSpecs[op.Kind]
	var a, b *int
	if sp.pivots >= 1 {
		a = keyPtr(op.ANil, op.A)
	}
	if sp.pivots >= 2 {
		b = keyPtr(op.BNil, op.B)
	}
	var got []Item
	foreign := false
	afterStop := 0
	stopped := false
	sp.call(t, pivotOf(a), pivotOf(b), func(v btree.Item) bool {
		if stopped {
			afterStop++
			return false
		}
		x, isItem := v.(Item)
		if !isItem {
			foreign = true
		}
		got = append(got, x)
		if op.Stop > 0 && len(got) >= op.Stop {
			stopped = true
			return false
		}
		return true
	})
	full := sp.expect(m, a, b)
	exp := full
	if op.Stop > 0 && len(exp) > op.Stop {
		exp = exp[:op.Stop]
	}
	site := sitePrefix + sp.name
	if afterStop > 0 {
		res.Failf(site+"/early-stop", "%s: iterator was called %d more time(s) after it returned false (visited %s)", ctx, afterStop, fmtItems(got))
		return false, false
	}
	if foreign || !sameItems(got, exp) {
		res.Failf(site, "%s: %s(%s) with stop-after=%d visited %s, want %s; sorted set %s",
			ctx, sp.name, joinNonEmpty(pivN(sp.pivots >= 1, a), pivN(sp.pivots >= 2, b)), op.Stop, fmtItems(got), fmtItems(exp), fmtItems(m.it))
		return false, false
	}
	if sp.pivots >= 1 {
		inside = pivotClasses(res, m, t, a, sp.excl)
	}
	if sp.pivots == 2 && a != nil && b != nil {
		if (sp.asc && *a >= *b) || (!sp.asc && *a <= *b) {
			res.Class("empty-or-inverted-range")
		}
	}
	if op.Stop > 0 && len(full) > op.Stop {
		res.Class("early-stop-cut")
	}
	res.Class("scan-" + sp.name)
	return inside, true
}

func pivN(has bool, p *int) string {
	if !has {
		return ""
	}
	return pivStr(p)
}

// itemResult compares an Item-or-nil return value.
func itemResult(res *vkit.Result, site, ctx, call string, got btree.Item, exp Item, had bool) bool {
	var gi Item
	gok := false
	if got != nil {
		var isItem bool
		gi, isItem = got.(Item)
		if !isItem {
			res.Failf(site, "%s: %s returned a foreign value %v", ctx, call, got)
			return false
		}
		gok = true
	}
	if gok != had || gi != exp {
		res.Failf(site, "%s: %s = %s, the sorted set says %s", ctx, call, optStr(gi, gok), optStr(exp, had))
		return false
	}
	return true
}

// treeContent compares Len, Min, Max and the full ascending and descending
// walks of a tree with its model.
func treeContent(res *vkit.Result, t *btree.BTree, m *Model, site, ctx string) bool {
	if t.Len() != m.Len() {
		res.Failf(site+"/len", "%s: Len() = %d, the sorted set has %d items %s", ctx, t.Len(), m.Len(), fmtItems(m.it))
		return false
	}
	mn, hasMin := m.Min()
	mx, hasMax := m.Max()
	if !itemResult(res, site+"/min", ctx, "Min()", t.Min(), mn, hasMin) || !itemResult(res, site+"/max", ctx, "Max()", t.Max(), mx, hasMax) {
		return false
	}
	var got []Item
	t.Ascend(func(v btree.Item) bool { x, _ := v.(Item); got = append(got, x); return true })
	if !sameItems(got, m.it) {
		res.Failf(site+"/content", "%s: Ascend visits %s, the sorted set is %s", ctx, fmtItems(got), fmtItems(m.it))
		return false
	}
	got = got[:0]
	t.Descend(func(v btree.Item) bool { x, _ := v.(Item); got = append(got, x); return true })
	if !sameItems(got, reversed(m.it)) {
		res.Failf(site+"/content", "%s: Descend visits %s, the sorted set reversed is %s", ctx, fmtItems(got), fmtItems(reversed(m.it)))
		return false
	}
	return true
}

// applyTreeOp executes one non-scan BOp on a tree and its model and compares
// the return value. write reports whether the op is a write.
func applyTreeOp(res *vkit.Result, t *btree.BTree, m *Model, st *shapeTracker, op BOp, ver int, sitePrefix, ctx string) (write, ok bool) {
	switch op.Kind {
	case "put":
		got := t.ReplaceOrInsert(Item{op.A, ver})
		old, had := m.Put(Item{op.A, ver})
		if had {
			res.Class("put-replaces")
		}
		return true, itemResult(res, sitePrefix+"ReplaceOrInsert/ret", ctx, fmt.Sprintf("ReplaceOrInsert(%d#%d)", op.A, ver), got, old, had) &&
			lookupAfter(res, t, m, op.A, sitePrefix+"ReplaceOrInsert/get-after", ctx)
	case "del", "delmin", "delmax":
		var got btree.Item
		var old Item
		var had bool
		var call string
		del := func() {
			switch op.Kind {
			case "del":
				got = t.Delete(Item{K: op.A})
			case "delmin":
				got = t.DeleteMin()
			default:
				got = t.DeleteMax()
			}
		}
		if st != nil {
			st.aroundDelete(t, del)
		} else {
			del()
		}
		switch op.Kind {
		case "del":
			old, had = m.Del(op.A)
			call = fmt.Sprintf("Delete(%d)", op.A)
			if had {
				res.Class("delete-present")
			} else {
				res.Class("delete-absent")
			}
		case "delmin":
			if old, had = m.Min(); had {
				m.Del(old.K)
			}
			call = "DeleteMin()"
		default:
			if old, had = m.Max(); had {
				m.Del(old.K)
			}
			call = "DeleteMax()"
		}
		if !had && op.Kind != "del" {
			res.Class("delete-min-max-on-empty")
		}
		name := map[string]string{"del": "Delete", "delmin": "DeleteMin", "delmax": "DeleteMax"}[op.Kind]
		if !itemResult(res, sitePrefix+name+"/ret", ctx, call, got, old, had) {
			return true, false
		}
		// the key that was asked for, or the key the sorted set lost: it must be gone for Get and Has as well
		gone := op.A
		if op.Kind != "del" {
			if !had {
				return true, true
			}
			gone = old.K
		}
		return true, lookupAfter(res, t, m, gone, sitePrefix+name+"/get-after", ctx)
	case "clear":
		t.Clear(op.B != 0)
		m.Clear()
		res.Class("clear")
		return true, true
	case "get":
		exp, had := m.Get(op.A)
		return false, itemResult(res, sitePrefix+"Get", ctx, fmt.Sprintf("Get(%d)", op.A), t.Get(Item{K: op.A}), exp, had)
	case "has":
		_, had := m.Get(op.A)
		if got := t.Has(Item{K: op.A}); got != had {
			res.Failf(sitePrefix+"Has", "%s: Has(%d) = %v, the sorted set says %v", ctx, op.A, got, had)
			return false, false
		}
		return false, true
	}
	return false, true
}

// lookupAfter asks Get and Has for the key a write has just stored or removed: both must answer from the tree as it
// is now (the most recently stored item, or nothing), whatever was looked up before the write.
func lookupAfter(res *vkit.Result, t *btree.BTree, m *Model, k int, site, ctx string) bool {
	exp, had := m.Get(k)
	if !itemResult(res, site, ctx, fmt.Sprintf("Get(%d) right after the write", k), t.Get(Item{K: k}), exp, had) {
		return false
	}
	if got := t.Has(Item{K: k}); got != had {
		res.Failf(site, "%s: Has(%d) right after the write = %v, the sorted set says %v", ctx, k, got, had)
		return false
	}
	return true
}

func knownTreeOp(kind string) bool {
	switch kind {
	case "put", "del", "delmin", "delmax", "clear", "get", "has":
		return true
	}
	_, ok := scanSpecs[kind]
	return ok
}

var preMax = map[int]int{2: 40, 3: 50, 4: 60, 7: 110, 32: 200}

// genPre draws the growth prefix for a degree: ascending, descending or random
// keys from 0..hi.
func genPre(t *rapid.T, degree, limit int) ([]int, int) {
	pm := preMax[degree]
	if pm == 0 || pm > limit {
		pm = limit
	}
	n := rapid.IntRange(0, pm).Draw(t, "pre")
	if rapid.IntRange(0, 3).Draw(t, "prebig") == 0 {
		n = rapid.IntRange(pm*3/4, pm).Draw(t, "prebign") // often tall enough for 3 levels
	}
	hi := n + n/4 + 10
	shapeKind := rapid.IntRange(0, 3).Draw(t, "preshape")
	gaps := []int{0, 0, 0, 0, 0, 1, 2}
	last := -1
	if shapeKind == 1 {
		last = hi + 1
	}
	pre := drawSeq(t, "prekeys", n, n, func(t *rapid.T, i int) int {
		switch shapeKind {
		case 0: // ascending run with a few gaps
			last += 1 + rapid.SampledFrom(gaps).Draw(t, "gap")
			return last
		case 1: // descending run with a few gaps
			last -= 1 + rapid.SampledFrom(gaps).Draw(t, "gap")
			return last
		}
		return rapid.IntRange(0, hi).Draw(t, "prekey")
	})
	for _, k := range pre {
		if k+5 > hi {
			hi = k + 5
		}
	}
	return pre, hi
}

func genScanOp(t *rapid.T, m *Model, d keyDomain) BOp {
	op := BOp{Kind: rapid.SampledFrom(scanKinds).Draw(t, "scan")}
	if rapid.IntRange(0, 2).Draw(t, "newentry") == 0 {
		op.Kind = rapid.SampledFrom([]string{"ascgt", "desclt"}).Draw(t, "scan2") // the two entry points added by this repository
	}
	op.A, op.ANil = drawPivot(t, m, d, "a")
	op.B, op.BNil = drawPivot(t, m, d, "b")
	if rapid.Bool().Draw(t, "stops") {
		op.Stop = rapid.SampledFrom([]int{1, 1, 2, 3, 5, m.Len()/2 + 1, m.Len() + 1}).Draw(t, "stop")
	}
	return op
}

// genTreeOp draws one op; delWeight < 0 additionally allows Clear (weight -delWeight for Delete).
func genTreeOp(t *rapid.T, m *Model, d keyDomain, delWeight int) BOp {
	allowClear := delWeight < 0
	if allowClear {
		delWeight = -delWeight
	}
	// put 5, del delWeight, delmin 1, delmax 1, get 1, has 1, scan 6, clear (rare)
	total := 5 + delWeight + 1 + 1 + 1 + 1 + 6
	r := rapid.IntRange(0, total-1).Draw(t, "opkind")
	switch {
	case r < 5:
		if allowClear && r >= 1 && r <= 3 && rapid.IntRange(0, 4).Draw(t, "clear") == 2 {
			return BOp{Kind: "clear", B: rapid.IntRange(0, 1).Draw(t, "tofreelist")}
		}
		return BOp{Kind: "put", A: mostlyPresent(t, m, d, 25, "putkey")}
	case r < 5+delWeight:
		return BOp{Kind: "del", A: mostlyPresent(t, m, d, 85, "delkey")}
	case r < 6+delWeight:
		return BOp{Kind: "delmin"}
	case r < 7+delWeight:
		return BOp{Kind: "delmax"}
	case r < 8+delWeight:
		return BOp{Kind: "get", A: mostlyPresent(t, m, d, 60, "getkey")}
	case r < 9+delWeight:
		return BOp{Kind: "has", A: mostlyPresent(t, m, d, 60, "haskey")}
	}
	return genScanOp(t, m, d)
}

// modelApply folds a non-scan op into the generator's model.
func modelApply(m *Model, op BOp, ver int) {
	switch op.Kind {
	case "put":
		m.Put(Item{op.A, ver})
	case "del":
		m.Del(op.A)
	case "delmin":
		if x, ok := m.Min(); ok {
			m.Del(x.K)
		}
	case "delmax":
		if x, ok := m.Max(); ok {
			m.Del(x.K)
		}
	case "clear":
		m.Clear()
	}
}

func GenBTree(t *rapid.T) CaseB {
	c := CaseB{Degree: rapid.SampledFrom(degrees).Draw(t, "degree")}
	var hi int
	c.Pre, hi = genPre(t, c.Degree, 1000)
	d := keyDomain{Mode: rapid.SampledFrom([]int{0, 0, 0, 0, 2}).Draw(t, "domain"), Hi: hi}
	m := &Model{}
	for i, k := range c.Pre {
		m.Put(Item{k, i + 1})
	}
	delWeight := rapid.SampledFrom([]int{1, 4, 10, 20}).Draw(t, "delweight")
	if rapid.IntRange(0, 9).Draw(t, "clearcase") == 5 {
		delWeight = -delWeight // one case in ten may also Clear
	}
	c.Ops = drawSeq(t, "ops", atLeast(t, "opsmin", maxOps(), 1, 8, 16, 30, 45, maxOps()*3/4), maxOps(), func(t *rapid.T, i int) BOp {
		op := genTreeOp(t, m, d, delWeight)
		modelApply(m, op, len(c.Pre)+i+1)
		return op
	})
	return c
}

func ExecBTree(c CaseB) *vkit.Result {
	res := &vkit.Result{}
	if !validDegree(c.Degree) {
		res.Skip("degree-out-of-range")
		return res
	}
	t := btree.New(c.Degree)
	m := &Model{}
	st := &shapeTracker{}
	res.Class(fmt.Sprintf("degree-%d", c.Degree))
	const sp = "btree."
	// VerifCheck takes the occupancy bounds (d-1 .. 2d-1 items) from the tree's degree: it must be the one passed to New
	if d := t.VerifDegree(); d != c.Degree {
		return res.Failf(sp+"New/degree", "New(%d) built a tree of degree %d", c.Degree, d)
	}
	afterWrite := func(name, ctx string) bool {
		if err := t.VerifCheck(); err != nil {
			res.Failf(sp+name+"/balance", "%s (degree %d): structural invariant broken: %v (sorted set %s)", ctx, c.Degree, err, fmtItems(m.it))
			return false
		}
		st.noteHeight(t)
		return true
	}
	for i, k := range c.Pre {
		ver := i + 1
		ctx := fmt.Sprintf("pre %d put %d", i, k)
		if _, ok := applyTreeOp(res, t, m, st, BOp{Kind: "put", A: k}, ver, sp, ctx); !ok {
			return res
		}
		if !afterWrite("ReplaceOrInsert", ctx) {
			return res
		}
		// the full content is compared every few growth steps and at the end of the prefix
		if i%8 == 7 || i == len(c.Pre)-1 {
			if !treeContent(res, t, m, sp+"ReplaceOrInsert", ctx) {
				return res
			}
		}
	}
	scanInside := false
	for i, op := range c.Ops {
		ver := len(c.Pre) + i + 1
		ctx := fmt.Sprintf("op %d %+v", i, op)
		if !knownTreeOp(op.Kind) || op.Stop < 0 {
			res.Skip("unknown-op")
			continue
		}
		name := treeOpName(op.Kind)
		if _, isScan := scanSpecs[op.Kind]; isScan {
			inside, ok := runScan(res, t, m, op, sp, ctx)
			if !ok {
				return res
			}
			scanInside = scanInside || inside
		} else {
			write, ok := applyTreeOp(res, t, m, st, op, ver, sp, ctx)
			if !ok {
				return res
			}
			if write && !afterWrite(name, ctx) {
				return res
			}
		}
		if !treeContent(res, t, m, sp+name, ctx) {
			return res
		}
	}
	st.classes(res)
	if scanInside {
		res.Class("scan-pivot-strictly-inside")
	}
	if m.Len() == 0 {
		res.Class("ends-empty")
	}
	res.NonTrivial = st.rebalancedDeep() || scanInside
	return res
}

func treeOpName(kind string) string {
	switch kind {
	case "put":
		return "ReplaceOrInsert"
	case "del":
		return "Delete"
	case "delmin":
		return "DeleteMin"
	case "delmax":
		return "DeleteMax"
	case "clear":
		return "Clear"
	case "get":
		return "Get"
	case "has":
		return "Has"
	}
	return scanSpecs[kind].name
}

var PartBTree = &vkit.Part[CaseB]{
	Property: Property, Name: "btree",
	Rule:  "rapid: btree.BTree of degree 2/3/4/7/32; growth prefix of 0..40/50/60/110/200 keys (ascending or descending run with gaps, or random; a quarter of the cases near the maximum) + 1-60 ops (thorough 200) drawn by folding the sorted-set model: ReplaceOrInsert, Delete (weight 1/4/10/20), DeleteMin, DeleteMax, Get, Has, Clear in one case of ten, and all ten Ascend*/Descend* entry points (a third of the scans on the two added ones, AscendGreater / DescendLess) with pivots in {present, absent inside, below min, above max, nil, random}, empty/inverted ranges, and an iterator that stops after 1,2,3,5,len/2+1 or len+1 items or never. After every op: return value, Len, Min, Max, full Ascend and Descend equal the model; right after every write Get and Has of the key that was stored, deleted or handed out by DeleteMin/DeleteMax (also in the clone parts, which share applyTreeOp); VerifCheck after every write; the iterator must not be called again after returning false. Non-trivial: height >= 2 was reached and a delete merged nodes or stole from a sibling, or a scan pivot lay strictly inside the key range; distinct = distinct case JSON",
	Quick: 8000, Thorough: 14000,
	Gen: GenBTree, Exec: ExecBTree,
}
