package c03btree

import (
	"fmt"
	"strings"

	"github.com/pinealctx/neptune/ds/tree/btree"
	"pgregory.net/rapid"

	"verifharness/vkit"
)

// ---------------------------------------------------------------------------
// part (c): clone forests, sequential

// COp is one step of a clone program: T selects the tree (index into the
// forest in creation order); Kind "clone" appends t.Clone() to the forest, every
// other kind is a BOp on that tree.
type COp struct {
	T int `json:"t"`
	BOp
}

type CaseC struct {
	Degree int   `json:"degree"`
	Pre    []int `json:"pre"` // keys of tree 0 before the first clone
	Ops    []COp `json:"ops"`
}

const maxForest = 8

// forest is the code under test next to one model per tree.
type forest struct {
	trees  []*btree.BTree
	models []*Model
	// shares[i]: tree i took part in a Clone (as source or result) and has not
	// been cleared since, i.e. it may share nodes with another tree.
	shares []bool
	origin []int // index of the tree it was cloned from (-1 for tree 0)
}

func newForest(degree int) *forest {
	return &forest{trees: []*btree.BTree{btree.New(degree)}, models: []*Model{{}}, shares: []bool{false}, origin: []int{-1}}
}

func (f *forest) clone(src int) {
	f.trees = append(f.trees, f.trees[src].Clone())
	f.models = append(f.models, f.models[src].Copy())
	f.shares[src] = true
	f.shares = append(f.shares, true)
	f.origin = append(f.origin, src)
}

// checkAll compares every tree of the forest with its own model: a write to one
// tree must be visible in that tree only.
func (f *forest) checkAll(res *vkit.Result, written int, site, ctx string) bool {
	iso := site[:strings.IndexByte(site, '.')+1] + "isolation"
	for i, t := range f.trees {
		s := site
		c := fmt.Sprintf("%s: tree %d", ctx, i)
		if written >= 0 && i != written {
			s = iso
			c = fmt.Sprintf("%s: tree %d (cloned from %d) changed although the write went to tree %d", ctx, i, f.origin[i], written)
		}
		if !treeContent(res, t, f.models[i], s, c) {
			return false
		}
		if err := t.VerifCheck(); err != nil {
			res.Failf(s+"/balance", "%s: structural invariant broken: %v", c, err)
			return false
		}
	}
	return true
}

func genCloneOps(t *rapid.T, c *CaseC, hi int, n int, cloneEvery int) {
	d := keyDomain{Mode: 0, Hi: hi}
	models := []*Model{{}}
	for i, k := range c.Pre {
		models[0].Put(Item{k, i + 1})
	}
	delWeight := rapid.SampledFrom([]int{2, 6, 12}).Draw(t, "delweight")
	if rapid.IntRange(0, 5).Draw(t, "clearcase") == 3 {
		delWeight = -delWeight // one case in six may also Clear
	}
	c.Ops = drawSeq(t, "ops", atLeast(t, "opsmin", n, 2, 8, 16, 30, 45, n*3/4), n, func(t *rapid.T, i int) COp {
		ti := rapid.IntRange(0, len(models)-1).Draw(t, "tree")
		if len(models) < maxForest && (len(models) == 1 && i == 0 || rapid.IntRange(0, cloneEvery-1).Draw(t, "clone") == 0) {
			models = append(models, models[ti].Copy())
			return COp{T: ti, BOp: BOp{Kind: "clone"}}
		}
		op := genTreeOp(t, models[ti], d, delWeight)
		modelApply(models[ti], op, len(c.Pre)+i+1)
		return COp{T: ti, BOp: op}
	})
}

func GenClones(t *rapid.T) CaseC {
	c := CaseC{Degree: rapid.SampledFrom([]int{2, 2, 3, 3, 4, 7, 32}).Draw(t, "degree")}
	var hi int
	c.Pre, hi = genPre(t, c.Degree, 120)
	genCloneOps(t, &c, hi, maxOps(), rapid.SampledFrom([]int{4, 8, 16}).Draw(t, "cloneevery"))
	return c
}

func ExecClones(c CaseC) *vkit.Result {
	res := &vkit.Result{}
	if !validDegree(c.Degree) {
		res.Skip("degree-out-of-range")
		return res
	}
	f := newForest(c.Degree)
	res.Class(fmt.Sprintf("degree-%d", c.Degree))
	const sp = "clones."
	for i, k := range c.Pre {
		ctx := fmt.Sprintf("pre %d put %d", i, k)
		if _, ok := applyTreeOp(res, f.trees[0], f.models[0], nil, BOp{Kind: "put", A: k}, i+1, sp, ctx); !ok {
			return res
		}
	}
	if !f.checkAll(res, 0, sp+"ReplaceOrInsert", "after the growth prefix") {
		return res
	}
	var (
		tallClone        bool // a clone was taken from a tree of height >= 2
		writeAfter       bool // a tree sharing nodes was written
		wroteSrc, wroteC bool
		scanInside       bool
	)
	written := map[int]bool{}
	for i, op := range c.Ops {
		ver := len(c.Pre) + i + 1
		if op.T < 0 || op.T >= len(f.trees) {
			res.Skip("tree-index-out-of-range")
			continue
		}
		ctx := fmt.Sprintf("op %d %+v", i, op)
		t, m := f.trees[op.T], f.models[op.T]
		if op.Kind == "clone" {
			if len(f.trees) >= maxForest {
				res.Skip("forest-full")
				continue
			}
			if h, _ := t.VerifHeight(); h >= 2 {
				tallClone = true
				res.Class("clone-of-tree-with-height>=2")
			}
			if f.origin[op.T] >= 0 {
				res.Class("clone-of-a-clone")
			}
			if written[op.T] && f.shares[op.T] {
				res.Class("clone-after-divergence")
			}
			f.clone(op.T)
			if !f.checkAll(res, len(f.trees)-1, sp+"Clone", ctx) {
				return res
			}
			continue
		}
		if !knownTreeOp(op.Kind) || op.Stop < 0 {
			res.Skip("unknown-op")
			continue
		}
		name := treeOpName(op.Kind)
		if _, isScan := scanSpecs[op.Kind]; isScan {
			inside, ok := runScan(res, t, m, op.BOp, sp, ctx)
			if !ok {
				return res
			}
			scanInside = scanInside || inside
			if f.shares[op.T] {
				res.Class("scan-on-sharing-tree")
			}
			continue
		}
		write, ok := applyTreeOp(res, t, m, nil, op.BOp, ver, sp, ctx)
		if !ok {
			return res
		}
		if !write {
			continue
		}
		if f.shares[op.T] {
			writeAfter = true
			written[op.T] = true
			if f.origin[op.T] >= 0 {
				wroteC = true
				res.Class("clone-written-after-cloning")
			}
			if hasCloneOf(f, op.T) {
				wroteSrc = true
				res.Class("source-written-after-cloning")
			}
		}
		if op.Kind == "clear" {
			if f.shares[op.T] {
				res.Class("clear-on-sharing-tree")
			}
			f.shares[op.T] = false // a cleared tree holds no node at all
		}
		if !f.checkAll(res, op.T, sp+name, ctx) {
			return res
		}
	}
	if wroteSrc && wroteC {
		res.Class("both-sides-written")
	}
	res.Class(fmt.Sprintf("forest-of-%d", len(f.trees)))
	if scanInside {
		res.Class("scan-pivot-strictly-inside")
	}
	res.NonTrivial = tallClone && writeAfter
	return res
}

func hasCloneOf(f *forest, src int) bool {
	for _, o := range f.origin {
		if o == src {
			return true
		}
	}
	return false
}

var PartClones = &vkit.Part[CaseC]{
	Property: Property, Name: "clones",
	Rule:  "rapid: a forest grown from one btree.BTree (degree 2/3/4/7/32, growth prefix up to 120 keys) by Clone() at drawn points (every 4th/8th/16th step on average, up to 8 trees, clones of clones), interleaved with ReplaceOrInsert/Delete/DeleteMin/DeleteMax/Clear/Get/Has/scans on drawn trees, sequentially; one sorted-set model per tree, copied at Clone. After every write and every Clone: every tree of the forest equals its own model (Len, Min, Max, Ascend, Descend) and passes VerifCheck, so a write that leaks into another tree is reported at the step where it happens. Non-trivial: a clone was taken from a tree of height >= 2 and a tree sharing nodes was written afterwards; distinct = distinct case JSON",
	Quick: 5000, Thorough: 9000,
	Gen: GenClones, Exec: ExecClones,
}
