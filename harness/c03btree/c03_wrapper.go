package c03btree

import (
	"fmt"
	"math"

	"github.com/pinealctx/neptune/ds/tree"
	"github.com/pinealctx/neptune/ds/tree/btree"
	"pgregory.net/rapid"

	"verifharness/vkit"
)

// ---------------------------------------------------------------------------
// part (a): the locked wrapper tree.BTree (degree 2), sequential histories

// WOp is one call on the wrapper. The version stored by a write is the
// 1-based position of the op in the history (unique, so "most recently stored"
// is observable).
type WOp struct {
	// ins | upd | upsert | del | get | agte | agt | dlte | dlt
	Kind string `json:"op"`
	// Key: key of ins/del/get, old key of upd/upsert, pivot of a scan.
	Key int `json:"key"`
	// Key2: new key of upd/upsert.
	Key2 int `json:"key2,omitempty"`
	// NilPivot: the scan is called with a nil pivot (unbounded).
	NilPivot bool `json:"nil_pivot,omitempty"`
	// Filter: 0 all, 1 none, 2 even keys, 3 odd versions, 4 version >= FArg.
	Filter int `json:"filter,omitempty"`
	FArg   int `json:"farg,omitempty"`
	N      int `json:"n,omitempty"`
	// Same (upd/upsert): the old argument is the very value passed as the new one (key Key2, the
	// new version), not a bare lookup key: Update(x, x). The stored item under that key still
	// carries an older version, so the call has to replace it.
	Same bool `json:"same,omitempty"`
	// Spin > 0 (scans of the concurrent wide part): the filter burns that many loop iterations
	// per visited item, so that the scan holds its lock for a long time.
	Spin int `json:"spin,omitempty"`
}

// oldKey is the key of the old argument of upd/upsert.
func (op WOp) oldKey() int {
	if op.Same {
		return op.Key2
	}
	return op.Key
}

type CaseW struct {
	Ops []WOp `json:"ops"`
	// Slice: the history stores SItem (slice field, not comparable with ==) instead of Item.
	Slice bool `json:"slice,omitempty"`
}

const (
	filterAll = iota
	filterNone
	filterEvenKey
	filterOddVersion
	filterVersionGE
	filterKinds
)

func filterFn(kind, arg int) func(Item) bool {
	switch kind {
	case filterAll:
		return func(Item) bool { return true }
	case filterNone:
		return func(Item) bool { return false }
	case filterEvenKey:
		return func(x Item) bool { return x.K%2 == 0 }
	case filterOddVersion:
		return func(x Item) bool { return x.V%2 != 0 }
	case filterVersionGE:
		return func(x Item) bool { return x.V >= arg }
	}
	return nil
}

var filterNames = []string{"all", "none", "even-keys", "odd-versions", "version>=arg"}

func isScan(kind string) (asc, incl, ok bool) {
	switch kind {
	case "agte":
		return true, true, true
	case "agt":
		return true, false, true
	case "dlte":
		return false, true, true
	case "dlt":
		return false, false, true
	}
	return false, false, false
}

// expectScan is the statement's scan: the first n filter-matching items of the
// sorted set in scan order from the pivot.
func expectScan(m *Model, asc, incl bool, pivot *int, filter func(Item) bool, n int) []Item {
	var out []Item
	for _, x := range m.Seq(asc, pivot, incl, nil) {
		if len(out) >= n {
			break
		}
		if filter(x) {
			out = append(out, x)
		}
	}
	return out
}

func maxOps() int {
	if vkit.Tier() == "thorough" {
		return 200
	}
	return 60
}

// applyWrite applies a writing WOp to the model and returns the value the
// statement prescribes for the call (ins has none).
func applyWrite(m *Model, op WOp, ver int) (ret bool) {
	op.Key = op.oldKey()
	switch op.Kind {
	case "ins":
		m.Put(Item{op.Key, ver})
	case "upd":
		// "update old node to given new node; if old node not exist, the new one is
		// not stored; returns whether old existed"
		if _, had := m.Get(op.Key); had {
			m.Del(op.Key)
			m.Put(Item{op.Key2, ver})
			return true
		}
		return false
	case "upsert":
		// "the new node will always be inserted or replaced; returns whether old existed"
		_, had := m.Del(op.Key)
		m.Put(Item{op.Key2, ver})
		return had
	case "del":
		_, had := m.Del(op.Key)
		return had
	}
	return false
}

func genWOp(t *rapid.T, m *Model, d keyDomain, delWeight int, ver int) WOp {
	// weights: ins 4, upd 2, upsert 2, del delWeight, get 1, scans 5
	total := 4 + 2 + 2 + delWeight + 1 + 5
	r := rapid.IntRange(0, total-1).Draw(t, "opkind")
	var op WOp
	switch {
	case r < 4:
		op = WOp{Kind: "ins", Key: mostlyPresent(t, m, d, 25, "inskey")}
	case r < 8:
		op.Kind = "upd"
		if r >= 6 {
			op.Kind = "upsert"
		}
		op.Key = mostlyPresent(t, m, d, 70, "oldkey")
		switch nk := rapid.IntRange(0, 9).Draw(t, "newkind"); {
		case nk < 2:
			op.Key2 = op.Key
			// half of them pass one and the same value as old and as new
			op.Same = rapid.Bool().Draw(t, "samevalue")
		case nk < 6 && m.Len() > 0:
			op.Key2 = presentKey(t, m, "newpresent") // onto an existing (mostly other) key
		default:
			op.Key2 = d.draw(t, "newkey")
		}
	case r < 8+delWeight:
		op = WOp{Kind: "del", Key: mostlyPresent(t, m, d, 80, "delkey")}
	case r < 9+delWeight:
		op = WOp{Kind: "get", Key: mostlyPresent(t, m, d, 60, "getkey")}
	default:
		op.Kind = rapid.SampledFrom([]string{"agte", "agt", "dlte", "dlt"}).Draw(t, "scan")
		op.Key, op.NilPivot = drawPivot(t, m, d, "pivot")
		op.Filter = rapid.SampledFrom([]int{filterAll, filterAll, filterAll, filterNone, filterEvenKey, filterEvenKey, filterOddVersion, filterVersionGE}).Draw(t, "filter")
		if op.Filter == filterVersionGE {
			op.FArg = rapid.IntRange(0, ver+1).Draw(t, "farg")
		}
		l := m.Len()
		op.N = rapid.SampledFrom([]int{0, 1, 2, 3, l / 2, l - 1, l, l + 3}).Draw(t, "n")
		if op.N < 0 {
			op.N = 0
		}
		if rapid.IntRange(0, 11).Draw(t, "nolimit") == 0 {
			// "any limit n": the natural ways of saying "no limit" (values between 2^20 and 2^47 are left out: a wrapper
			// that preallocates n slots would try to get gigabytes for them before anything can be judged)
			op.N = rapid.SampledFrom([]int{math.MaxInt, math.MaxInt - 1, math.MaxInt64 / 2, 1 << 62, 1 << 48, 1<<48 + 1, 1 << 20, 65536}).Draw(t, "hugen")
		}
	}
	return op
}

func GenWrapper(t *rapid.T) CaseW {
	d := keyDomain{Mode: rapid.SampledFrom([]int{0, 0, 0, 2, 2, 1}).Draw(t, "domain"), Hi: 40}
	m := &Model{}
	var c CaseW
	// growth prefix: inserts only, so that deletes and scans meet trees of height 2-4
	preShape := rapid.IntRange(0, 2).Draw(t, "preshape")
	gaps := []int{0, 0, 0, 0, 1, 2}
	last := -1
	if preShape == 1 {
		last = d.Hi + 1
	}
	pre := drawSeq(t, "pre", atLeast(t, "premin", 36, 0, 0, 6, 12, 20, 30), 36, func(t *rapid.T, i int) WOp {
		var k int
		switch {
		case preShape == 0 && d.Mode == 0: // ascending run with a few gaps
			k = last + 1 + rapid.SampledFrom(gaps).Draw(t, "gap")
			last = k
		case preShape == 1 && d.Mode == 0: // descending run with a few gaps
			k = last - 1 - rapid.SampledFrom(gaps).Draw(t, "gap")
			last = k
		default:
			k = d.draw(t, "prekey")
		}
		op := WOp{Kind: "ins", Key: k}
		applyWrite(m, op, i+1)
		return op
	})
	delWeight := rapid.SampledFrom([]int{1, 3, 8, 14}).Draw(t, "delweight")
	ops := drawSeq(t, "ops", atLeast(t, "opsmin", maxOps(), 1, 8, 16, 30, 45, maxOps()*3/4), maxOps(), func(t *rapid.T, i int) WOp {
		op := genWOp(t, m, d, delWeight, len(pre)+i+1)
		applyWrite(m, op, len(pre)+i+1)
		return op
	})
	c.Ops = append(pre, ops...)
	c.Slice = rapid.IntRange(0, 7).Draw(t, "slicetyped") == 0
	return c
}

// wrapperContent compares the whole content of the wrapper with the model:
// Len, a full ascending and a full descending scan.
func wrapperContent(res *vkit.Result, tr *tree.BTree, m *Model, site, ctx string) bool {
	return wrapperContentOf(plainCodec, res, tr, m, site, ctx)
}

func wrapperContentOf(cd itemCodec, res *vkit.Result, tr *tree.BTree, m *Model, site, ctx string) bool {
	inner := tr.VerifInner()
	if inner.Len() != m.Len() {
		res.Failf(site+"/len", "%s: Len() = %d, the sorted set has %d items %s", ctx, inner.Len(), m.Len(), fmtItems(m.it))
		return false
	}
	n := m.Len() + 1
	all := func(tree.Node) bool { return true }
	got, ok := cd.items(tr.AscendGte(nil, all, n))
	if !ok || !sameItems(got, m.it) {
		res.Failf(site+"/content", "%s: full ascending scan = %s, the sorted set is %s", ctx, fmtItems(got), fmtItems(m.it))
		return false
	}
	got, ok = cd.items(tr.DescendLte(nil, all, n))
	if !ok || !sameItems(got, reversed(m.it)) {
		res.Failf(site+"/content", "%s: full descending scan = %s, the sorted set reversed is %s", ctx, fmtItems(got), fmtItems(reversed(m.it)))
		return false
	}
	return true
}

func wrapperGet(res *vkit.Result, tr *tree.BTree, m *Model, k int, site, ctx string) bool {
	return wrapperGetOf(plainCodec, res, tr, m, k, site, ctx)
}

func wrapperGetOf(cd itemCodec, res *vkit.Result, tr *tree.BTree, m *Model, k int, site, ctx string) bool {
	got := tr.Get(cd.key(k))
	exp, had := m.Get(k)
	var gi Item
	gok := false
	if got != nil {
		gi, gok = cd.un(got)
		if !gok {
			res.Failf(site, "%s: Get(%d) returned a foreign value %v", ctx, k, got)
			return false
		}
	}
	if gok != had || gi != exp {
		res.Failf(site, "%s: Get(%d) = %s, the sorted set holds %s", ctx, k, optStr(gi, gok), optStr(exp, had))
		return false
	}
	return true
}

// runWrapperScan calls one of the four scans and compares with the statement.
func runWrapperScanAt(res *vkit.Result, tr *tree.BTree, m *Model, op WOp, sitePrefix, ctx string) (inside bool, ok bool) {
	return runWrapperScanOf(plainCodec, res, tr, m, op, sitePrefix, ctx)
}

func runWrapperScanOf(cd itemCodec, res *vkit.Result, tr *tree.BTree, m *Model, op WOp, sitePrefix, ctx string) (inside bool, ok bool) {
	asc, incl, _ := isScan(op.Kind)
	f := filterFn(op.Filter, op.FArg)
	pivot := keyPtr(op.NilPivot, op.Key)
	wf := func(n tree.Node) bool {
		x, isItem := cd.un(n)
		return isItem && f(x)
	}
	var raw []tree.Node
	switch op.Kind {
	case "agte":
		raw = tr.AscendGte(cd.pivot(pivot), wf, op.N)
	case "agt":
		raw = tr.AscendGt(cd.pivot(pivot), wf, op.N)
	case "dlte":
		raw = tr.DescendLte(cd.pivot(pivot), wf, op.N)
	case "dlt":
		raw = tr.DescendLt(cd.pivot(pivot), wf, op.N)
	}
	exp := expectScan(m, asc, incl, pivot, f, op.N)
	got, isItems := cd.items(raw)
	site := sitePrefix + scanName(op.Kind)
	if !isItems || !sameItems(got, exp) {
		res.Failf(site, "%s: %s(pivot=%s, filter=%s(%d), n=%d) = %s, want the first %d matching items in scan order: %s; sorted set %s",
			ctx, scanName(op.Kind), pivStr(pivot), filterNames[op.Filter], op.FArg, op.N, fmtItems(got), op.N, fmtItems(exp), fmtItems(m.it))
		return false, false
	}
	// classes
	inside = pivotClasses(res, m, tr.VerifInner(), pivot, !incl)
	avail := 0
	for _, x := range m.Seq(asc, pivot, incl, nil) {
		if f(x) {
			avail++
		}
	}
	switch {
	case op.N == 0:
		res.Class("n=0")
	case avail > op.N:
		res.Class("limit-cut")
	case avail == op.N:
		res.Class("limit-exact")
	default:
		res.Class("limit-beyond-matches")
	}
	if op.N >= 1<<48 {
		res.Class("limit-of-2^48-or-more")
	}
	res.Class("filter-" + filterNames[op.Filter])
	return inside, true
}

func scanName(kind string) string {
	switch kind {
	case "agte":
		return "AscendGte"
	case "agt":
		return "AscendGt"
	case "dlte":
		return "DescendLte"
	case "dlt":
		return "DescendLt"
	}
	return kind
}

func ExecWrapper(c CaseW) *vkit.Result {
	res := &vkit.Result{}
	tr := tree.NewBTree()
	inner := tr.VerifInner()
	if d := inner.VerifDegree(); d != 2 {
		return res.Failf("wrapper.New/degree", "NewBTree builds its tree with New(2), the tree has degree %d", d)
	}
	m := &Model{}
	st := &shapeTracker{}
	scanInside := false
	cd := plainCodec
	if c.Slice {
		cd = sliceCodec
		res.Class("slice-typed-items")
	}
	for i, op := range c.Ops {
		ver := i + 1
		ctx := fmt.Sprintf("op %d %+v", i, op)
		noteOp(ctx)
		if op.Same && op.Kind != "upd" && op.Kind != "upsert" {
			op.Same = false
		}
		if op.Same {
			op.Key = op.Key2
		}
		_, _, scan := isScan(op.Kind)
		switch {
		case op.Kind == "ins":
			if _, had := m.Get(op.Key); had {
				res.Class("insert-replaces")
			}
			tr.Insert(cd.mk(op.Key, ver))
			applyWrite(m, op, ver)
		case op.Kind == "upd" || op.Kind == "upsert" || op.Kind == "del":
			_, oldHad := m.Get(op.Key)
			_, newHad := m.Get(op.Key2)
			var got bool
			newV := cd.mk(op.Key2, ver)
			oldV := cd.key(op.Key)
			if op.Same {
				oldV = newV
				if stored, had := m.Get(op.Key); had && stored.V != ver {
					res.Class("update-with-old-and-new-the-same-value-onto-another-version")
				}
			}
			st.aroundDelete(inner, func() {
				switch op.Kind {
				case "upd":
					got = tr.Update(oldV, newV)
				case "upsert":
					got = tr.UpdateOrInsert(oldV, newV)
				default:
					got = tr.Delete(oldV)
				}
			})
			exp := applyWrite(m, op, ver)
			name := map[string]string{"upd": "Update", "upsert": "UpdateOrInsert", "del": "Delete"}[op.Kind]
			if got != exp {
				return res.Failf("wrapper."+name+"/ret", "%s: returned %v, want %v (old key present before the call: %v)", ctx, got, exp, oldHad)
			}
			if op.Kind != "del" {
				switch {
				case oldHad && newHad && op.Key != op.Key2:
					res.Class("update-onto-existing-other-key")
				case oldHad && op.Key == op.Key2:
					res.Class("update-same-key")
				case oldHad:
					res.Class("update-to-fresh-key")
				case op.Kind == "upd":
					res.Class("update-old-absent")
				default:
					res.Class("upsert-old-absent")
				}
			} else if oldHad {
				res.Class("delete-present")
			} else {
				res.Class("delete-absent")
			}
		case op.Kind == "get":
			if !wrapperGetOf(cd, res, tr, m, op.Key, "wrapper.Get", ctx) {
				return res
			}
		case scan:
			if op.N < 0 || op.Filter < 0 || op.Filter >= filterKinds {
				res.Skip("scan-with-negative-n-or-unknown-filter")
				continue
			}
			inside, ok := runWrapperScanOf(cd, res, tr, m, op, "wrapper.", ctx)
			if !ok {
				return res
			}
			scanInside = scanInside || inside
		default:
			res.Skip("unknown-op")
			continue
		}
		name := "wrapper." + opName(op.Kind)
		if !scan && op.Kind != "get" {
			if err := inner.VerifCheck(); err != nil {
				return res.Failf(name+"/balance", "%s: structural invariant broken: %v (sorted set %s)", ctx, err, fmtItems(m.it))
			}
			if !wrapperGetOf(cd, res, tr, m, op.Key, name+"/get-after", ctx) || !wrapperGetOf(cd, res, tr, m, op.Key2, name+"/get-after", ctx) {
				return res
			}
		}
		// reads must not change anything either: the content is compared after every op
		if !wrapperContentOf(cd, res, tr, m, name, ctx) {
			return res
		}
		st.noteHeight(inner)
	}
	st.classes(res)
	if m.Len() == 0 {
		res.Class("ends-empty")
	}
	if scanInside {
		res.Class("scan-pivot-strictly-inside")
	}
	res.NonTrivial = st.rebalancedDeep() || scanInside
	return res
}

func opName(kind string) string {
	switch kind {
	case "ins":
		return "Insert"
	case "upd":
		return "Update"
	case "upsert":
		return "UpdateOrInsert"
	case "del":
		return "Delete"
	case "get":
		return "Get"
	}
	return scanName(kind)
}

var _ btree.Item = Item{} // the wrapper stores btree.Items

var PartWrapper = &vkit.Part[CaseW]{
	Property: Property, Name: "wrapper",
	Rule:  "rapid: tree.BTree (degree 2) histories = 0-36 growth inserts (ascending or descending run with gaps, or random) + 1-60 ops (thorough 200; rapid slices over a drawn minimum length, so single ops can be shrunk away) drawn by folding the sorted-set model: Insert, Update(old,new), UpdateOrInsert, Delete (weight 1/3/8/14 so trees also shrink), Get, AscendGte/AscendGt/DescendLte/DescendLt with pivot in {present, absent inside, below min, above max, nil, random}, filter in {all, none, even keys, odd versions, version>=x}, n in {0,1,2,3,len/2,len-1,len,len+3}; keys dense 0..40, sparse wide (incl. MinInt/MaxInt) or mixed; items are (key, version=op index). A fifth of the Update/UpdateOrInsert calls keep the key, half of those pass one and the same value as old and as new (Update(x, x)) while the stored item carries an older version; one history in eight stores SItem (slice field, == panics) instead of Item through every entry point. After every op: return value, Get of the touched keys, Len, full ascending and descending scan equal the model, VerifCheck after every write. The history runs on a goroutine of its own: if it is parked inside the library and nobody is left who could wake it (goroutine-state cut, a timer only decides when to look) the case is reported at wrapper.blocks. Non-trivial: height >= 2 was reached and a delete merged nodes or stole from a sibling, or a scan pivot lay strictly inside the key range; distinct = distinct case JSON",
	Quick: 8000, Thorough: 13000,
	Gen: GenWrapper, Exec: guarded("wrapper.", ExecWrapper),
}
