package c03btree

import (
	"fmt"
	"sort"

	"github.com/pinealctx/neptune/ds/tree"
	"github.com/pinealctx/neptune/ds/tree/btree"
	"pgregory.net/rapid"

	"verifharness/vkit"
)

// ---------------------------------------------------------------------------
// part (e): large trees, scans with large limits
//
// The other sequential parts keep their trees below ~100 items because they
// compare the whole content after every call. Here a tree of several hundred to
// a few thousand items is bulk-built (no per-call content comparison), a few
// deletes reshape it, and then the wrapper's four scans are called with limits
// around and above 128, 256, 512, 1024, len and len+3 and the raw tree's ten
// scan entry points with iterators that stop after that many items. The keys
// are given by a formula (offset, step, insertion order), so a case stays small
// plain data.

type CaseG struct {
	Degree int `json:"degree"` // degree of the raw btree.BTree (the wrapper's tree is always degree 2)
	N      int `json:"n"`      // bulk inserts; the i-th stores key Off+idx(i)*Step with version i+1
	Step   int `json:"step"`
	Off    int `json:"off"`
	// Order: 0 ascending (idx = i), 1 descending (idx = N-1-i), 2 strided (idx = i*Mult mod N;
	// if Mult and N share a factor some keys are stored several times - the last version wins)
	Order  int   `json:"order"`
	Mult   int   `json:"mult,omitempty"`
	Dels   []int `json:"dels"`   // keys deleted after the bulk build
	WScans []WOp `json:"wscans"` // scans of the wrapper
	BScans []BOp `json:"bscans"` // scans of the raw tree
	// SliceKeys: keys stored one after another in a second raw tree whose item type
	// has a slice field (not comparable with ==); version = 1+index.
	SliceKeys []int `json:"slice_keys,omitempty"`
	// Probes: keys looked up (wrapper Get, raw Get and Has) after the deletes.
	Probes []int `json:"probes,omitempty"`
}

func (c CaseG) wellFormed() bool {
	return validDegree(c.Degree) && c.N >= 0 && c.N <= 20000 && c.Step >= 1 && c.Step <= 1000 &&
		c.Off >= -1<<40 && c.Off <= 1<<40 && c.Order >= 0 && c.Order <= 2 && c.Mult >= 0 && c.Mult <= 1<<20 &&
		len(c.Dels) <= 1000 && len(c.WScans) <= 1000 && len(c.BScans) <= 1000 && len(c.SliceKeys) <= 1000 && len(c.Probes) <= 5000
}

// bulkKeys lists the keys of the bulk build in insertion order.
func (c CaseG) bulkKeys() []int {
	keys := make([]int, c.N)
	for i := range keys {
		idx := i
		switch c.Order {
		case 1:
			idx = c.N - 1 - i
		case 2:
			idx = (i * c.Mult) % c.N
		}
		keys[i] = c.Off + idx*c.Step
	}
	return keys
}

// bulkModel is the sorted set after the bulk build: per key the last version.
func bulkModel(keys []int) *Model {
	its := make([]Item, len(keys))
	for i, k := range keys {
		its[i] = Item{k, i + 1}
	}
	sort.SliceStable(its, func(i, j int) bool { return its[i].K < its[j].K })
	out := its[:0]
	for i, x := range its {
		if i+1 < len(its) && its[i+1].K == x.K {
			continue // a later version of the same key follows
		}
		out = append(out, x)
	}
	return &Model{it: out}
}

// SItem is an item type that Go cannot compare with == (slice field); the tree
// may only use Less on it.
type SItem struct {
	K   int
	Tag []int
}

func (a SItem) Less(b btree.Item) bool { return a.K < b.(SItem).K }

// bigLimits are the limits / stop counts of interest for a tree of l items.
func bigLimits(l int) []int {
	return []int{127, 128, 129, 200, 255, 256, 257, 300, 511, 512, 513, 514, 700, 1023, 1024, 1025, 2048, l / 2, l - 1, l, l + 1, l + 3}
}

func GenBig(t *rapid.T) CaseG {
	thorough := vkit.Tier() == "thorough"
	c := CaseG{Degree: rapid.SampledFrom(degrees).Draw(t, "degree")}
	hiN := 1500
	if thorough {
		hiN = 3000
	}
	c.N = rapid.IntRange(600, hiN).Draw(t, "n")
	if rapid.IntRange(0, 3).Draw(t, "nboundary") == 0 {
		// the length itself on a boundary of interest
		c.N = rapid.SampledFrom([]int{512, 513, 640, 768, 1023, 1024, 1025, 1027}).Draw(t, "nb")
	}
	if rapid.IntRange(0, map[bool]int{false: 15, true: 5}[thorough]).Draw(t, "tall") == 1 {
		// the wrapper's degree-2 tree gets 11-12 levels
		c.N = rapid.SampledFrom([]int{2050, 2600, 4100}).Draw(t, "ntall")
	}
	c.Step = rapid.SampledFrom([]int{1, 1, 2, 3}).Draw(t, "step")
	c.Off = rapid.SampledFrom([]int{0, 0, 0, -700, 5, -1 << 30}).Draw(t, "off")
	c.Order = rapid.IntRange(0, 2).Draw(t, "order")
	if c.Order == 2 {
		c.Mult = rapid.SampledFrom([]int{7, 11, 13, 101, 211, 389, 997, 2}).Draw(t, "mult")
	}
	m := bulkModel(c.bulkKeys())
	keyAt := func(label string) int {
		k := c.Off + rapid.IntRange(0, c.N-1).Draw(t, label)*c.Step
		if c.Step > 1 && rapid.IntRange(0, 5).Draw(t, label+"off") == 0 {
			k++ // absent, inside
		}
		return k
	}
	c.Dels = drawSeq(t, "dels", 0, 30, func(t *rapid.T, i int) int {
		var k int
		if rapid.IntRange(0, 2).Draw(t, "delrun") == 0 && m.Len() > 0 {
			k = presentKey(t, m, "delpresent")
		} else {
			k = keyAt("delkey")
		}
		m.Del(k)
		return k
	})
	c.Probes = drawSeq(t, "probes", atLeast(t, "probemin", 40, 4, 12, 30), 40, func(t *rapid.T, i int) int {
		switch pk := rapid.IntRange(0, 9).Draw(t, "probekind"); {
		case pk < 5 && m.Len() > 0:
			return presentKey(t, m, "probepresent")
		case pk < 7 && len(c.Dels) > 0:
			return c.Dels[rapid.IntRange(0, len(c.Dels)-1).Draw(t, "probedeleted")]
		case pk < 8:
			return c.Off + rapid.SampledFrom([]int{-1, 0, c.N*c.Step - 1, c.N * c.Step, c.N*c.Step + 1}).Draw(t, "probeedge")
		}
		return keyAt("probe")
	})
	l := m.Len()
	lims := bigLimits(l)
	c.WScans = drawSeq(t, "wscans", atLeast(t, "wmin", 10, 2, 4, 8), 10, func(t *rapid.T, i int) WOp {
		op := WOp{Kind: rapid.SampledFrom([]string{"agte", "agt", "dlte", "dlt"}).Draw(t, "scan")}
		op.N = rapid.SampledFrom(lims).Draw(t, "n")
		if op.N < 0 {
			op.N = 0
		}
		op.Filter = rapid.SampledFrom([]int{filterAll, filterAll, filterAll, filterAll, filterEvenKey, filterOddVersion, filterVersionGE, filterNone}).Draw(t, "filter")
		if op.Filter == filterVersionGE {
			op.FArg = rapid.IntRange(0, c.N+1).Draw(t, "farg")
		}
		asc, _, _ := isScan(op.Kind)
		switch pk := rapid.IntRange(0, 9).Draw(t, "pivotkind"); {
		case pk < 4 || l == 0:
			op.NilPivot = true
		case pk < 7:
			// the pivot at which about n items remain in scan direction
			p := l - op.N - rapid.IntRange(-1, 1).Draw(t, "delta")
			if !asc {
				p = op.N - 1 + rapid.IntRange(-1, 1).Draw(t, "delta")
			}
			if p < 0 {
				p = 0
			}
			if p > l-1 {
				p = l - 1
			}
			op.Key = m.it[p].K
		default:
			op.Key = keyAt("pivot") + rapid.SampledFrom([]int{0, 0, 0, -1, 1}).Draw(t, "pivotoff")
		}
		return op
	})
	d := keyDomain{Mode: 0, Hi: c.Off + c.N*c.Step}
	if d.Hi < 0 {
		d.Hi = 0
	}
	c.BScans = drawSeq(t, "bscans", atLeast(t, "bmin", 8, 2, 4, 6), 8, func(t *rapid.T, i int) BOp {
		op := genScanOp(t, m, d)
		if rapid.Bool().Draw(t, "unbounded") {
			op.ANil, op.BNil = true, true // the whole tree: a run of len items
		}
		op.Stop = rapid.SampledFrom(append([]int{0, 0, 0}, lims...)).Draw(t, "bigstop")
		if op.Stop < 0 {
			op.Stop = 0
		}
		return op
	})
	if rapid.IntRange(0, 2).Draw(t, "slice") == 0 {
		c.SliceKeys = drawSeq(t, "slicekeys", 1, 14, func(t *rapid.T, i int) int {
			return rapid.IntRange(0, 6).Draw(t, "slicekey")
		})
	}
	return c
}

func ExecBig(c CaseG) *vkit.Result {
	res := &vkit.Result{}
	if !c.wellFormed() {
		res.Skip("malformed-case")
		return res
	}
	tr := tree.NewBTree()
	inner := tr.VerifInner()
	t := btree.New(c.Degree)
	if inner.VerifDegree() != 2 || t.VerifDegree() != c.Degree {
		return res.Failf("big.New/degree", "New(%d) built a tree of degree %d; the wrapper's tree (New(2)) has degree %d", c.Degree, t.VerifDegree(), inner.VerifDegree())
	}
	res.Class(fmt.Sprintf("degree-%d", c.Degree))
	keys := c.bulkKeys()
	m := bulkModel(keys)
	replaced := 0
	for i, k := range keys {
		tr.Insert(Item{k, i + 1})
		if old := t.ReplaceOrInsert(Item{k, i + 1}); old != nil {
			if x, ok := old.(Item); !ok || x.K != k || x.V > i {
				return res.Failf("big.btree.ReplaceOrInsert/ret", "bulk insert %d: ReplaceOrInsert(%d#%d) returned %v, which was never stored under that key", i, k, i+1, old)
			}
			replaced++
		}
	}
	if replaced != len(keys)-m.Len() {
		return res.Failf("big.btree.ReplaceOrInsert/ret", "bulk build of %d inserts over %d distinct keys: %d calls returned a replaced item, want %d", len(keys), m.Len(), replaced, len(keys)-m.Len())
	}
	if replaced > 0 {
		res.Class("bulk-build-replaces")
	}
	check := func(site, ctx string, content bool) bool {
		if err := inner.VerifCheck(); err != nil {
			res.Failf(site+"/balance", "%s: wrapper tree (degree 2): structural invariant broken: %v", ctx, err)
			return false
		}
		if err := t.VerifCheck(); err != nil {
			res.Failf(site+"/balance", "%s: raw tree (degree %d): structural invariant broken: %v", ctx, c.Degree, err)
			return false
		}
		if !content {
			return true
		}
		return wrapperContent(res, tr, m, site+"/wrapper", ctx) && treeContent(res, t, m, site+"/btree", ctx)
	}
	if !check("big.bulk", fmt.Sprintf("after the bulk build of %d keys", len(keys)), true) {
		return res
	}
	for i, k := range c.Dels {
		ctx := fmt.Sprintf("del %d key %d", i, k)
		noteOp(ctx)
		_, had := m.Get(k)
		if got := tr.Delete(Item{K: k}); got != had {
			return res.Failf("big.wrapper.Delete/ret", "%s: wrapper Delete returned %v, want %v", ctx, got, had)
		}
		if _, ok := applyTreeOp(res, t, m, nil, BOp{Kind: "del", A: k}, 0, "big.btree.", ctx); !ok {
			return res
		}
		if !wrapperGet(res, tr, m, k, "big.wrapper.Delete/get-after", ctx) {
			return res
		}
		if !check("big.Delete", ctx, i == len(c.Dels)-1) {
			return res
		}
	}
	hw, _ := inner.VerifHeight()
	hb, _ := t.VerifHeight()
	if hw >= 8 {
		res.Class("wrapper-tree-height>=8")
	}
	if hb >= 5 {
		res.Class("raw-tree-height>=5")
	}
	if hw >= 11 {
		res.Class("wrapper-tree-height>=11")
	}
	// lookups on the tall trees: present keys, deleted keys, neighbours, the edges of the key range
	for i, k := range c.Probes {
		ctx := fmt.Sprintf("probe %d key %d on %d items (wrapper tree height %d, raw tree height %d)", i, k, m.Len(), hw, hb)
		noteOp(ctx)
		if !wrapperGet(res, tr, m, k, "big.wrapper.Get", ctx) {
			return res
		}
		if _, ok := applyTreeOp(res, t, m, nil, BOp{Kind: "get", A: k}, 0, "big.btree.", ctx); !ok {
			return res
		}
		if _, ok := applyTreeOp(res, t, m, nil, BOp{Kind: "has", A: k}, 0, "big.btree.", ctx); !ok {
			return res
		}
		if _, had := m.Get(k); had {
			res.Class("probe-present")
		} else {
			res.Class("probe-absent")
		}
	}
	maxRet := 0
	for i, op := range c.WScans {
		if _, _, scan := isScan(op.Kind); !scan || op.N < 0 || op.N > 1<<20 || op.Filter < 0 || op.Filter >= filterKinds {
			res.Skip("not-a-scan-or-bad-n-or-filter")
			continue
		}
		ctx := fmt.Sprintf("wrapper scan %d %+v on %d items", i, op, m.Len())
		noteOp(ctx)
		if _, ok := runWrapperScanAt(res, tr, m, op, "big.wrapper.", ctx); !ok {
			return res
		}
		asc, incl, _ := isScan(op.Kind)
		if n := len(expectScan(m, asc, incl, keyPtr(op.NilPivot, op.Key), filterFn(op.Filter, op.FArg), op.N)); n > maxRet {
			maxRet = n
		}
		if op.N > 128 {
			res.Class("wrapper-scan-n>128")
		}
	}
	for _, lim := range []int{128, 256, 512, 1024} {
		if maxRet > lim {
			res.Class(fmt.Sprintf("wrapper-scan-returned>%d", lim))
		}
	}
	maxRun := 0
	for i, op := range c.BScans {
		sp, scan := scanSpecs[op.Kind]
		if !scan || op.Stop < 0 {
			res.Skip("not-a-scan-or-bad-stop")
			continue
		}
		ctx := fmt.Sprintf("raw scan %d %+v on %d items", i, op, m.Len())
		if _, ok := runScan(res, t, m, op, "big.btree.", ctx); !ok {
			return res
		}
		var a, b *int
		if sp.pivots >= 1 {
			a = keyPtr(op.ANil, op.A)
		}
		if sp.pivots >= 2 {
			b = keyPtr(op.BNil, op.B)
		}
		run := len(sp.expect(m, a, b))
		if op.Stop > 0 && run > op.Stop {
			run = op.Stop
		}
		if run > maxRun {
			maxRun = run
		}
	}
	for _, lim := range []int{128, 512, 1024} {
		if maxRun > lim {
			res.Class(fmt.Sprintf("raw-scan-visited>%d", lim))
		}
	}
	// reads change nothing
	if !check("big.end", "after the scans", true) {
		return res
	}
	if len(c.SliceKeys) > 0 && !execSliceItems(res, c) {
		return res
	}
	res.NonTrivial = maxRet > 128
	return res
}

// execSliceItems stores items of a type with a slice field: the tree is
// documented to order items by Less only, so it has to work for item types that
// == cannot compare.
func execSliceItems(res *vkit.Result, c CaseG) bool {
	ts := btree.New(c.Degree)
	tw := tree.NewBTree()
	m := &Model{}
	for i, k := range c.SliceKeys {
		ver := i + 1
		ctx := fmt.Sprintf("slice-typed item %d: key %d version %d", i, k, ver)
		got := ts.ReplaceOrInsert(SItem{k, []int{ver}})
		tw.Insert(SItem{k, []int{ver}})
		old, had := m.Put(Item{k, ver})
		if had {
			res.Class("slice-typed-item-replaced")
		}
		gx, isS := got.(SItem)
		if (got != nil) != had || (had && (!isS || gx.K != k || len(gx.Tag) != 1 || gx.Tag[0] != old.V)) {
			res.Failf("big.slice.ReplaceOrInsert/ret", "%s: ReplaceOrInsert returned %v, the sorted set held %s", ctx, got, optStr(old, had))
			return false
		}
		for _, x := range m.it {
			for which, v := range []btree.Item{ts.Get(SItem{K: x.K}), tw.Get(SItem{K: x.K})} {
				s, ok := v.(SItem)
				if !ok || s.K != x.K || len(s.Tag) != 1 || s.Tag[0] != x.V {
					res.Failf("big.slice.Get", "%s: Get(%d) on the %s = %v, the most recently stored item is %v", ctx, x.K, []string{"raw tree", "wrapper"}[which], v, x)
					return false
				}
			}
		}
		if ts.Len() != m.Len() || tw.VerifInner().Len() != m.Len() {
			res.Failf("big.slice/len", "%s: Len() = %d (raw) / %d (wrapper), the sorted set has %d keys", ctx, ts.Len(), tw.VerifInner().Len(), m.Len())
			return false
		}
	}
	return true
}

var PartBig = &vkit.Part[CaseG]{
	Property: Property, Name: "big",
	Rule:  "rapid: a tree.BTree (degree 2) and a btree.BTree of degree 2/3/4/7/32 bulk-built from 600-1500 keys (thorough 3000; a quarter of the cases exactly 512/513/640/768/1023/1024/1025/1027; one case in sixteen 2050/2600/4100, the degree-2 wrapper tree then has 11-12 levels, thorough one in six) given by offset, step 1-3 and insertion order ascending / descending / strided (i*mult mod n, repeats replace), then 0-30 drawn deletes (VerifCheck on both trees and Get/Has of the deleted key after each, full content after the build and after the last delete), then 4-40 lookups (wrapper Get, raw Get and Has) of present keys, deleted keys, neighbours and the edges of the key range, then 2-10 wrapper scans (all four kinds) with n in {127,128,129,200,255,256,257,300,511..514,700,1023,1024,1025,2048,len/2,len-1,len,len+1,len+3}, filters {all, even keys, odd versions, version>=x, none}, pivot nil / the key at which n-1,n,n+1 items remain / any key or a neighbour, and 2-8 raw scans (all ten entry points, half of them unbounded) whose iterator stops after one of the same counts or never; every result must equal the first n matching items of the sorted-slice model in scan order, the content is compared again at the end. One case in three also stores 1-14 items of a type with a slice field (not comparable with ==) in a raw tree and a wrapper: ReplaceOrInsert's return value, Get of every key and Len after each store. Non-trivial: a wrapper scan returned more than 128 items; distinct = distinct case JSON",
	Quick: 400, Thorough: 700,
	Gen: GenBig, Exec: guarded("big.", ExecBig),
}
