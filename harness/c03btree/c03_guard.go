package c03btree

import (
	"fmt"
	"runtime"
	"runtime/debug"
	"sort"
	"strconv"
	"strings"
	"sync"
	"sync/atomic"
	"time"

	"verifharness/vkit"
)

// ---------------------------------------------------------------------------
// guard: a case that parks inside the library for ever is a verdict, not a hang
//
// Every call of the locked wrapper returns: it takes the tree's lock, works on
// the tree and releases the lock. A wrapper that leaves the lock held on some
// path makes a later call - of the same sequential history, or of every worker
// of a concurrent program - wait for ever. The parts that call the wrapper
// therefore execute their case on a goroutine of its own while the controller
// waits for it. A timer only decides when the controller LOOKS (a stop-the-world
// goroutine dump, as vkit.Sched takes it); the verdict comes from the cut alone:
// if every goroutine that did not exist when the case started (the controller
// excepted) is parked on a synchronisation primitive - a state only another
// goroutine can end - and at least one of them is parked inside the library,
// nothing can ever run again and the case is reported with site <part>.blocks.
// A case that is merely slow always has a goroutine that is running, runnable,
// asleep or in a system call, and is simply waited for.

// curOp describes the call a sequential history is executing (for the report only).
var curOp atomic.Pointer[string]

func noteOp(ctx string) { curOp.Store(&ctx) }

var (
	dumpMu sync.Mutex
	dumper = &vkit.Sched{} // used for Dump only: one buffer per process
)

func dumpAll(full bool) []vkit.GState {
	dumpMu.Lock()
	defer dumpMu.Unlock()
	dumper.FullStacks = full
	return dumper.Dump()
}

func selfGID() int64 {
	var b [64]byte
	s := string(b[:runtime.Stack(b[:], false)])
	s = strings.TrimPrefix(s, "goroutine ")
	if i := strings.IndexByte(s, ' '); i > 0 {
		if id, err := strconv.ParseInt(s[:i], 10, 64); err == nil {
			return id
		}
	}
	return -1
}

func parkedState(g vkit.GState) bool {
	if vkit.IsParked(g.State) {
		return true
	}
	// the runtime's own semaphores show as "semacquire" too: only a WaitGroup wait counts (see vkit.IsParked)
	return g.State == "semacquire" && strings.Contains(g.Stack, "sync.(*WaitGroup).Wait")
}

// guardBase is the set of goroutines that are not part of any case: the ones that exist when the first case of the
// process starts (test runner, vkit's watchdog) and, after a case has been reported as blocked, the goroutines that
// case left behind. Cases run one after another and a case that returns leaves no goroutine behind, so the set only
// has to be taken anew after a verdict.
var guardBase map[int64]struct{}

func baseline() map[int64]struct{} {
	if guardBase == nil {
		guardBase = map[int64]struct{}{}
		for _, g := range dumpAll(false) {
			guardBase[g.ID] = struct{}{}
		}
	}
	return guardBase
}

const libraryPath = "github.com/pinealctx/neptune"

// lookStuck takes one cut. stuck: every goroutine of the case is parked; inLib lists, for the ones parked inside the
// library, the innermost library function and the state.
func lookStuck(base map[int64]struct{}, self int64) (stuck bool, inLib []string, n int) {
	for _, g := range dumpAll(true) {
		if _, old := base[g.ID]; old || g.ID == self {
			continue
		}
		n++
		if !parkedState(g) {
			return false, nil, n
		}
		if strings.Contains(g.Stack, libraryPath) {
			for _, ln := range strings.Split(g.Stack, "\n") {
				if strings.Contains(ln, libraryPath) && !strings.HasPrefix(ln, "\t") {
					fn := strings.TrimSpace(ln)
					if i := strings.LastIndexByte(fn, '('); i > 0 {
						fn = fn[:i] // drop the argument words
					}
					inLib = append(inLib, fmt.Sprintf("%s [%s]", strings.TrimPrefix(fn, libraryPath+"/"), g.State))
					break
				}
			}
		}
	}
	return n > 0, inLib, n
}

// firstLook is the delay before the first cut; it doubles up to a second. A case of these parts takes a few
// milliseconds at most (a few hundred in the thorough concurrent shapes), so a healthy case is hardly ever looked at.
const firstLook = 15 * time.Millisecond

func guarded[C any](sitePrefix string, exec func(C) *vkit.Result) func(C) *vkit.Result {
	return func(c C) *vkit.Result {
		self := selfGID()
		base := baseline()
		curOp.Store(nil)
		var (
			res  *vkit.Result
			pan  any
			done = make(chan struct{})
		)
		go func() {
			defer close(done)
			defer func() {
				if r := recover(); r != nil {
					pan = fmt.Sprintf("%v\n%s", r, debug.Stack())
				}
			}()
			res = exec(c)
		}()
		wait := firstLook
		timer := time.NewTimer(wait)
		defer timer.Stop()
		for {
			select {
			case <-done:
				if pan != nil {
					panic(pan)
				}
				return res
			case <-timer.C:
			}
			if stuck, inLib, n := lookStuck(base, self); stuck {
				// confirm on a second cut (parked goroutines cannot have moved)
				stuck2, inLib2, n2 := lookStuck(base, self)
				if !stuck2 || n2 != n || len(inLib2) != len(inLib) {
					timer.Reset(wait) // not a stable cut: look again later
					continue
				}
				if len(inLib) == 0 {
					vkit.Infra("C03 guard: all %d goroutines of the case are parked, none of them inside the library", n)
				}
				sort.Strings(inLib)
				doing := ""
				if p := curOp.Load(); p != nil {
					doing = " The history was executing " + *p + "."
				}
				guardBase = nil // the parked goroutines stay behind: the next case starts from a fresh baseline
				out := &vkit.Result{}
				return out.Failf(sitePrefix+"blocks", "the case does not return: all %d goroutines it started are parked on a synchronisation primitive and nobody is left who could wake them; parked inside the library: %s. Every call of the wrapper must release the tree's lock on every path (a call that returns with the lock held blocks all later writers).%s",
					n, strings.Join(inLib, ", "), doing)
			}
			if wait < time.Second {
				wait *= 2
			}
			timer.Reset(wait)
		}
	}
}
