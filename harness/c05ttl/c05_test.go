package c05ttl

import (
	"os"
	"testing"

	"verifharness/vkit"
)

func TestMain(m *testing.M) { vkit.Main(m) }

func TestProp_Mem(t *testing.T)    { PartMem.Run(t) }
func TestProp_MemBig(t *testing.T) { PartMemBig.Run(t) }
func TestProp_Diff(t *testing.T)   { PartDiff.Run(t) }
func TestProp_Long(t *testing.T)   { PartLong.Run(t) }

// TestEnum_MemSmall: every history of at most three steps (see SmallCases).
func TestEnum_MemSmall(t *testing.T) { PartMemSmall.RunCases(t, SmallCases(), true) }

// The TestRace_ functions are meant for the -race binary (the driver runs them
// only from there); in a plain binary they still run, without the detector.
func TestRace_OneShot(t *testing.T) { PartOneShot.Run(t) }
func TestRace_Stress(t *testing.T)  { PartStress.Run(t) }
func TestRace_MNE(t *testing.T)     { PartMNE.Run(t) }

func TestReplay(t *testing.T) {
	times := 1
	PartMem.Replay(t, times)
	PartMemBig.Replay(t, times)
	PartMemSmall.Replay(t, times)
	PartDiff.Replay(t, times)
	PartLong.Replay(t, times)
	// schedule-dependent parts: re-run the program many times
	if os.Getenv("VERIF_REPLAY") != "" {
		PartOneShot.Replay(t, 2000)
		PartStress.Replay(t, 2000)
		PartMNE.Replay(t, 2000)
	}
}
