// Package c05ttl decides property C05: the TTL cache never serves expired,
// removed or consumed data, an expired key behaves like a key that was never
// set, at most `size` keys are retrievable, recently touched keys are never
// evicted, and the redis-backed implementation agrees with the in-memory one.
//
// Parts:
//
//	mem            histories against a three-valued model (c05.go)
//	mem-big        the same model at sizes 6..64 with more keys than the size (c05.go)
//	mem-small      complete enumeration of all histories of <= 3 steps (c05.go)
//	diff           redis-backed (in-process fake redis.Cmdable, one or two caches) vs in-memory (c05_diff.go, c05_fake.go)
//	race-oneshot   concurrent Get(RemoveAfterGet) on one key, -race binary (c05_race.go)
//	race-mne       concurrent Set(must-not-exist) on absent keys, -race binary (c05_race.go)
//	race-stress    mixed concurrent programs, then a sequential model-checked epilogue, -race binary (c05_race.go)
package c05ttl

import (
	"context"
	"errors"
	"fmt"
	"math"
	"math/bits"
	"strings"

	"github.com/pinealctx/neptune/cache"
	"pgregory.net/rapid"

	"verifharness/vkit"
)

const Property = "C05"

const (
	inf     = int64(math.MaxInt64)
	t0      = int64(1_000_000) // default start of the virtual clock (unix seconds)
	maxKeys = 5                // keys of the generated small histories
	// maxModelKeys bounds what the model (and a replayed case) may use
	maxModelKeys = 128
)

// Op is one step of a history. Every argument is concrete data.
//
//	set:     Key, optional WithTTL(TTL) when HasTTL, MNE = WithMustNotExist, Keep = WithKeepTTL
//	get:     Key, RAG = WithRemoveAfterGet, Upd = WithUpdateTTL(TTL) (TTL 0 = the cache's default)
//	remove:  Key
//	clear
//	advance: the virtual clock moves forward by Dt seconds
//
// VK selects the value a Set stores (see valuer): 0 a fresh slice with a unique
// text, 1 an empty non-nil slice, 2 nil, 3 a unique text of VLen more bytes, 4
// the one slice of the case that every such Set passes again (same backing
// array under several keys). Inst (differential only) selects the cache
// instance when two of them share one server.
type Op struct {
	Kind   string `json:"op"`
	Key    int    `json:"key,omitempty"`
	HasTTL bool   `json:"has_ttl,omitempty"`
	TTL    int64  `json:"ttl,omitempty"`
	MNE    bool   `json:"mne,omitempty"`
	Keep   bool   `json:"keep,omitempty"`
	RAG    bool   `json:"rag,omitempty"`
	Upd    bool   `json:"upd,omitempty"`
	Dt     int64  `json:"dt,omitempty"`
	VK     int    `json:"vk,omitempty"`
	VLen   int    `json:"vlen,omitempty"`
	Inst   int    `json:"inst,omitempty"`
}

const (
	vkUnique = iota
	vkEmpty
	vkNil
	vkLong
	vkShared
)

const sharedText = "S##"

// valuer hands out the values of a case.
type valuer struct{ shared []byte }

func newValuer() *valuer { return &valuer{shared: []byte(sharedText)} }

// value returns the slice a Set at `step` passes and its content; ok is false
// for an unknown kind.
func (vr *valuer) value(step int, o Op) (b []byte, text string, ok bool) {
	switch o.VK {
	case vkUnique:
		text = valueOf(step)
		return []byte(text), text, true
	case vkEmpty:
		return []byte{}, "", true
	case vkNil:
		return nil, "", true
	case vkLong:
		n := o.VLen
		if n < 0 || n > 1<<16 {
			return nil, "", false
		}
		buf := make([]byte, 0, len(valueOf(step))+1+n)
		buf = append(buf, valueOf(step)...)
		buf = append(buf, ':')
		for i := 0; i < n; i++ {
			buf = append(buf, byte(i*31+step*7))
		}
		return buf, string(buf), true
	case vkShared:
		return vr.shared, sharedText, true
	}
	return nil, "", false
}

// short abbreviates a value for messages.
func short(v string) string {
	if len(v) <= 24 {
		return fmt.Sprintf("%q", v)
	}
	return fmt.Sprintf("%q…(%d bytes)", v[:12], len(v))
}

func (o Op) String() string {
	switch o.Kind {
	case "set":
		s := fmt.Sprintf("Set(k%d", o.Key)
		switch o.VK {
		case vkEmpty:
			s += ",empty"
		case vkNil:
			s += ",nil"
		case vkLong:
			s += fmt.Sprintf(",long+%d", o.VLen)
		case vkShared:
			s += ",shared-slice"
		}
		if o.HasTTL {
			s += fmt.Sprintf(",ttl=%d", o.TTL)
		}
		if o.MNE {
			s += ",must-not-exist"
		}
		if o.Keep {
			s += ",keep-ttl"
		}
		return s + ")"
	case "get":
		s := fmt.Sprintf("Get(k%d", o.Key)
		if o.RAG {
			s += ",remove-after-get"
		}
		if o.Upd {
			s += fmt.Sprintf(",update-ttl=%d", o.TTL)
		}
		return s + ")"
	case "remove":
		return fmt.Sprintf("Remove(k%d)", o.Key)
	case "clear":
		return "Clear()"
	case "advance":
		return fmt.Sprintf("Advance(%d)", o.Dt)
	}
	return "?" + o.Kind
}

func keyName(k int) string { return fmt.Sprintf("k%d", k) }

// Key names are a dimension of a case (Names, one kind per key index; kind 0 is
// the plain "k<i>"). The statement quantifies over any keys: the empty key, keys
// that differ in case or blanks only, keys that start with the prefix of the
// redis-backed cache (or are that prefix), keys made of the characters Redis
// patterns give a meaning to, control and non-UTF-8 bytes, and long keys are
// all just keys. The table holds distinct texts, none of the form k<digits>; a
// case never uses one kind for two keys.
var specialNames = func() []string {
	long := func(n int, last byte) string {
		b := []byte("k0/")
		for len(b) < n-1 {
			b = append(b, byte('a'+len(b)%26))
		}
		return string(append(b, last))
	}
	return []string{
		1: "", 2: " ", 3: "k0 ", 4: " k0", 5: "K0", 6: "k 0", 7: "k1 ", 8: "K1",
		9: rdsPrefix, 10: rdsPrefix + "k0", 11: rdsPrefix + "k1", 12: rdsPrefix + rdsPrefix + "k0", 13: rdsPrefix + "K0", 14: rdsPrefix + "*",
		15: "k0:x", 16: ":", 17: "*", 18: "k*", 19: "k?", 20: "k[0]", 21: "[k]0", 22: "\\k0", 23: "k0\\",
		24: "\x00", 25: "k0\x00", 26: "\xff\xfe", 27: "k\n0", 28: "k0\r\n", 29: "k\u00e9", 30: "c0", 31: "c05",
		32: long(200, 'x'), 33: long(200, 'y'), 34: long(1024, 'x'), 35: long(5000, 'x'), 36: long(5000, 'y'),
	}
}()

func init() {
	// the table must hold distinct names, none of them a plain one
	seen := map[string]bool{}
	for kind := 1; kind < len(specialNames); kind++ {
		s := specialNames[kind]
		plain := len(s) > 1 && s[0] == 'k' && strings.Trim(s[1:], "0123456789") == ""
		if seen[s] || plain {
			panic(fmt.Sprintf("c05ttl: special key name %d (%q) is not usable", kind, s))
		}
		seen[s] = true
	}
}

// prefixFamily: the kinds that collide with another key of the case once a
// back-end confuses "prefix + key" with "key".
var prefixFamily = []int{1, 9, 10, 10, 11, 12, 13}

// namer maps key indices to key names.
type namer struct{ names []string }

// newNamer returns nil for an unusable Names list (unknown kind, or one kind twice).
func newNamer(kinds []int, keys int) *namer {
	n := &namer{names: make([]string, keys)}
	seen := map[int]bool{}
	for k := range n.names {
		n.names[k] = keyName(k)
		if k >= len(kinds) || kinds[k] == 0 {
			continue
		}
		kind := kinds[k]
		if kind < 1 || kind >= len(specialNames) || seen[kind] {
			return nil
		}
		seen[kind] = true
		n.names[k] = specialNames[kind]
	}
	return n
}

func (n *namer) name(k int) string {
	if n == nil || k < 0 || k >= len(n.names) {
		return keyName(k)
	}
	return n.names[k]
}

// describe lists the keys that do not carry their plain name (for messages).
func (n *namer) describe() string {
	if n == nil {
		return ""
	}
	var out []string
	for k, s := range n.names {
		if s != keyName(k) {
			out = append(out, fmt.Sprintf("k%d=%s", k, short(s)))
		}
	}
	if len(out) == 0 {
		return ""
	}
	return " key names: " + strings.Join(out, ", ") + ";"
}

// genNames draws the key names of a case: plain ones in three cases of four,
// otherwise each key keeps its plain name or takes a special one (a third of
// those from the prefix family), no kind twice.
func genNames(t *rapid.T, keys int) []int {
	if rapid.IntRange(0, 3).Draw(t, "names") != 0 {
		return nil
	}
	out := make([]int, keys)
	used := map[int]bool{}
	any := false
	for k := range out {
		if rapid.IntRange(0, 1).Draw(t, "special") == 0 {
			continue
		}
		kind := rapid.IntRange(1, len(specialNames)-1).Draw(t, "namekind")
		if rapid.IntRange(0, 2).Draw(t, "family") == 0 {
			kind = rapid.SampledFrom(prefixFamily).Draw(t, "familykind")
		}
		if used[kind] {
			continue
		}
		used[kind], out[k], any = true, kind, true
	}
	if !any {
		return nil
	}
	return out
}

func setOpts(o Op) []cache.SetOptFn {
	var fns []cache.SetOptFn
	if o.HasTTL {
		fns = append(fns, cache.WithTTL(o.TTL))
	}
	if o.MNE {
		fns = append(fns, cache.WithMustNotExist())
	}
	if o.Keep {
		fns = append(fns, cache.WithKeepTTL())
	}
	return fns
}

func getOpts(o Op) []cache.GetOptFn {
	var fns []cache.GetOptFn
	if o.RAG {
		fns = append(fns, cache.WithRemoveAfterGet())
	}
	if o.Upd {
		fns = append(fns, cache.WithUpdateTTL(o.TTL))
	}
	return fns
}

// deadlineOf is the statement's reading of a ttl: <= 0 never expires, and a
// ttl that ends beyond the last representable instant cannot elapse either.
func deadlineOf(now, ttl int64) int64 {
	if ttl <= 0 || ttl > inf-now {
		return inf
	}
	return now + ttl
}

func (m *model) fmtDl(d int64) string {
	if d == inf {
		return "never"
	}
	return fmt.Sprintf("t0+%d", d-m.t0)
}

// ---------------------------------------------------------------------------
// the three-valued model

const (
	mustMiss = iota
	mustHit
	either
)

type keyState struct {
	present bool   // a Set succeeded and nothing since made the key certainly absent
	val     string // value of the latest successful Set
	lo, hi  int64  // the deadline lies in [lo,hi]
	own     int    // sequence number of the key's own last touch (successful Set / hit Get)
	any     int    // last touch as other keys must count it (adds failed must-not-exist Sets)
	why     string // why the key is absent
	anchor  int    // step of the last successful Set or non-consuming hit, -1 if none
	liveAt  int64  // clock reading at which the implementation was last seen to treat the key as unexpired (-1: none)
	// class tracking only
	ext     bool
	extHi   int64
	kept    bool
	keptAlt int64
}

type model struct {
	size  int
	ttl   int64
	now   int64
	ks    []keyState
	seq   int
	step  int
	t0    int64
	cover []kset // per time point (state after step i): keys proven retrievable there
	res   *vkit.Result
	nt    bool
	log   []string
	names string // the keys that do not carry their plain name (messages only)
}

// kset is a set of key indices < maxModelKeys.
type kset [maxModelKeys / 64]uint64

func (s *kset) add(k int)     { s[k>>6] |= 1 << uint(k&63) }
func (s kset) has(k int) bool { return s[k>>6]&(1<<uint(k&63)) != 0 }
func (s kset) count() int {
	n := 0
	for _, w := range s {
		n += bits.OnesCount64(w)
	}
	return n
}

func newModel(size int, ttl int64, keys, steps int, start int64, res *vkit.Result) *model {
	m := &model{size: size, ttl: ttl, now: start, t0: start, res: res, ks: make([]keyState, keys), cover: make([]kset, steps+1)}
	for i := range m.ks {
		m.ks[i] = keyState{why: "never-set", anchor: -1, liveAt: -1}
	}
	return m
}

// othersAfter counts the distinct other keys touched after key k's own last touch.
func (m *model) othersAfter(k int) int {
	n := 0
	for j := range m.ks {
		if j != k && m.ks[j].any > m.ks[k].own {
			n++
		}
	}
	return n
}

// expect is what the statement fixes for key k right now.
func (m *model) expect(k int) (int, string) {
	s := &m.ks[k]
	if !s.present {
		return mustMiss, s.why
	}
	if m.now > s.hi {
		return mustMiss, "expired"
	}
	out := m.othersAfter(k) >= m.size
	// inside the deadline interval the statement allows both answers - but only
	// one per clock reading: once the key was seen unexpired at this very instant
	// (a hit, or AlreadyExists) it is unexpired for the rest of the instant
	onDl := m.now >= s.lo && s.liveAt != m.now
	switch {
	case !out && !onDl:
		return mustHit, ""
	case out && onDl:
		return either, "window+deadline"
	case out:
		return either, "window"
	default:
		return either, "deadline"
	}
}

func (m *model) logf(format string, a ...any) {
	if len(m.log) >= 240 { // long histories: the message shows the last 60 entries
		m.log = append(m.log[:0], m.log[len(m.log)-120:]...)
	}
	m.log = append(m.log, fmt.Sprintf("[%d] ", m.step)+fmt.Sprintf(format, a...))
}

func (m *model) history() string {
	l := m.log
	if len(l) > 60 {
		l = l[len(l)-60:]
	}
	return fmt.Sprintf("size=%d default-ttl=%d t0=%d;%s history: %s", m.size, m.ttl, m.t0, m.names, strings.Join(l, "; "))
}

func (m *model) failf(site, format string, a ...any) {
	m.res.Failf(site, "%s\n%s", fmt.Sprintf(format, a...), m.history())
}

func (m *model) describe(k int) string {
	s := &m.ks[k]
	if !s.present {
		return fmt.Sprintf("k%d absent (%s)", k, s.why)
	}
	return fmt.Sprintf("k%d=%s deadline in [%s,%s], now t0+%d (t0=%d), %d other keys touched since its last touch (size %d)",
		k, short(s.val), m.fmtDl(s.lo), m.fmtDl(s.hi), m.now-m.t0, m.t0, m.othersAfter(k), m.size)
}

// windowEdge returns the present keys that sit on the last protected position.
// (class labels only; skipped for large key sets, where it would dominate the cost)
func (m *model) windowEdge() kset {
	var mask kset
	if len(m.ks) > 8 {
		return mask
	}
	for j := range m.ks {
		if m.ks[j].present && m.now <= m.ks[j].hi && m.othersAfter(j) == m.size-1 {
			mask.add(j)
		}
	}
	return mask
}

func (m *model) absent(k int, why string) {
	s := &m.ks[k]
	s.present, s.why, s.anchor, s.ext, s.kept = false, why, -1, false, false
}

func (m *model) stored(k int, val string, lo, hi int64) {
	s := &m.ks[k]
	m.seq++
	s.val, s.lo, s.hi, s.own, s.any, s.anchor = val, lo, hi, m.seq, m.seq, m.step
	s.liveAt = -1
	s.present = true
	s.ext, s.kept = false, false
	if m.size == 0 {
		// at most 0 keys are retrievable: the statement leaves no room for this key
		m.absent(k, "size0")
	}
}

// set judges the outcome of a Set and advances the model.
func (m *model) set(o Op, val string, err error) {
	k := o.Key
	s := &m.ks[k]
	ttl := m.ttl
	if o.HasTTL {
		ttl = o.TTL
	}
	d := deadlineOf(m.now, ttl)
	exp, why := m.expect(k)
	exists := errors.Is(err, cache.ErrTTLKeyExists)
	m.logf("%s -> %s", o, errName(err))
	if err != nil && !(exists && o.MNE) {
		m.failf("mem/set/error", "%s returned %v; a Set without must-not-exist always succeeds, and must-not-exist may only fail with AlreadyExists", o, err)
		return
	}
	if m.size == 0 {
		m.res.Class("size-0")
	}
	if why == "consumed" {
		m.res.Class("consume-then-set")
	}
	edgeBefore := m.windowEdge()
	if o.MNE {
		switch exp {
		case mustMiss:
			switch why {
			case "expired":
				m.res.Class("mne-after-expiry")
				m.nt = true
			case "never-set":
				m.res.Class("mne-on-never-set")
			case "size0":
				m.nt = true
			}
			if exists {
				m.failf("mem/set-mne/must-succeed:"+why, "%s reported AlreadyExists but the key is not retrievable (%s): a key whose ttl elapsed / that was removed behaves like one never set. %s",
					o, why, m.describe(k))
				return
			}
		case mustHit:
			m.res.Class("mne-on-live")
			if !exists {
				m.failf("mem/set-mne/must-fail", "%s succeeded although the key is live: %s", o, m.describe(k))
				return
			}
		default:
			m.res.Class("either:" + why)
		}
		if exists {
			// the key exists for the implementation: it is a touch for the other keys' windows only
			m.seq++
			s.any = m.seq
			if s.present {
				if s.lo < m.now {
					s.lo = m.now
				}
				s.liveAt = m.now
			}
			return
		}
		m.stored(k, val, d, d) // on an absent key keep-ttl has nothing to keep
		m.edgeClass(edgeBefore, k)
		return
	}
	lo, hi := d, d
	kept, keptAlt := false, int64(0)
	if o.Keep {
		switch exp {
		case mustMiss:
			if why == "expired" {
				m.res.Class("keepttl-after-expiry")
				m.nt = true
			}
		case mustHit:
			lo, hi = s.lo, s.hi
			m.res.Class("keepttl-on-live")
			kept, keptAlt = true, d
			if s.kept && s.keptAlt > d {
				keptAlt = s.keptAlt
			}
		default:
			// the old deadline was kept, or (key silently gone / deemed expired) a new one taken
			m.res.Class("keepttl-on-either")
			lo, hi = s.lo, s.hi
			if lo < m.now {
				lo = m.now
			}
			if d < lo {
				lo = d
			}
			if d > hi {
				hi = d
			}
		}
	}
	m.stored(k, val, lo, hi)
	if s.present {
		s.kept, s.keptAlt = kept, keptAlt
	}
	m.edgeClass(edgeBefore, k)
}

func (m *model) edgeClass(edgeBefore kset, k int) {
	if m.size == 0 || len(m.ks) > 8 {
		return
	}
	for j := range m.ks {
		if j != k && edgeBefore.has(j) && m.ks[j].present && m.othersAfter(j) >= m.size {
			m.res.Class("eviction-at-bound")
		}
	}
}

// get judges the outcome of a Get and advances the model.
func (m *model) get(o Op, got []byte, err error, probe bool) {
	k := o.Key
	s := &m.ks[k]
	exp, why := m.expect(k)
	hit := err == nil
	miss := errors.Is(err, cache.ErrTTLKeyNotFound)
	label := o.String()
	if probe {
		label = "final probe " + label
	}
	if hit {
		m.logf("%s -> %s", label, short(string(got)))
	} else {
		m.logf("%s -> %s", label, errName(err))
	}
	if !hit && !miss {
		m.failf("mem/get/error", "%s returned %v (neither a value nor NotFound)", label, err)
		return
	}
	switch exp {
	case mustMiss:
		switch why {
		case "expired":
			m.res.Class("get-after-expiry")
			m.nt = true
			if s.kept && m.now <= s.keptAlt {
				m.res.Class("keepttl-kept-deadline")
			}
		case "consumed":
			m.res.Class("consume-then-get")
		case "size0":
			m.res.Class("size-0")
			m.nt = true
		case "evicted":
			m.nt = true
		}
		if hit {
			m.failf("mem/get/must-miss:"+why, "%s returned %.40q but the key must not be retrievable (%s). %s", label, got, why, m.describe(k))
			return
		}
		if s.present {
			m.absent(k, "expired")
		}
		return
	case mustHit:
		if m.othersAfter(k) == m.size-1 {
			m.res.Class("hit-at-window-edge")
		}
		if miss {
			m.failf("mem/get/must-hit", "%s reported NotFound but the key is live and inside the recency window: %s", label, m.describe(k))
			return
		}
	default:
		m.res.Class("either:" + why)
		if miss {
			switch why {
			case "window":
				m.res.Class("evicted-miss-observed")
				m.nt = true
				m.absent(k, "evicted")
			case "deadline":
				m.absent(k, "expired")
			default:
				m.absent(k, "evicted-or-expired")
			}
			return
		}
		if why != "deadline" {
			m.res.Class("beyond-window-hit-observed")
		}
	}
	// a hit: it must carry the value of the latest Set
	if string(got) != s.val {
		m.failf("mem/get/value", "%s returned %s, the latest Set stored %s. %s", label, short(string(got)), short(s.val), m.describe(k))
		return
	}
	if s.ext && m.now > s.extHi {
		m.res.Class("update-ttl-extended-life")
	}
	// the key was in the cache, without an intervening Set, since its anchor
	if s.anchor >= 0 {
		for i := s.anchor; i < m.step && i < len(m.cover); i++ {
			m.cover[i].add(k)
		}
	}
	if s.lo < m.now {
		s.lo = m.now
	}
	s.liveAt = m.now
	m.seq++
	s.any = m.seq
	if o.RAG {
		m.res.Class("consumed")
		m.absent(k, "consumed")
		return
	}
	s.own = m.seq
	s.anchor = m.step
	if o.Upd {
		ttl := o.TTL
		if ttl == 0 {
			ttl = m.ttl
		}
		d := deadlineOf(m.now, ttl)
		if !s.ext {
			s.ext, s.extHi = true, s.hi
		}
		s.lo, s.hi = d, d
		s.kept = false
		m.res.Class("update-ttl-hit")
	}
}

func (m *model) remove(o Op, err error) {
	m.logf("%s -> %s", o, errName(err))
	if err != nil {
		m.failf("mem/remove/error", "%s returned %v", o, err)
		return
	}
	m.absent(o.Key, "removed")
}

func (m *model) clear() {
	m.logf("Clear()")
	for k := range m.ks {
		m.absent(k, "cleared")
	}
}

func (m *model) advance(dt int64) {
	m.now += dt
	m.logf("Advance(%d) now=t0+%d", dt, m.now-m.t0)
	for k := range m.ks {
		if s := &m.ks[k]; s.present && (m.now == s.lo || m.now == s.hi) {
			m.res.Class("clock-on-deadline")
		}
	}
}

// boundCheck: at no time point may more than `size` keys be retrievable. A key
// is proven retrievable at every time point between a successful Set (or hit)
// and a later hit with no Set of that key in between.
func (m *model) boundCheck() {
	if m.res.Fail != nil {
		return
	}
	for i, mask := range m.cover {
		if mask.count() > m.size {
			var ks []string
			for k := 0; k < len(m.ks); k++ {
				if mask.has(k) {
					ks = append(ks, keyName(k))
				}
			}
			m.failf("mem/bound/simultaneous", "after step [%d] the keys %v were all retrievable (each was hit later without being Set again) but size is %d", i, ks, m.size)
			return
		}
	}
}

func errName(err error) string {
	switch {
	case err == nil:
		return "ok"
	case errors.Is(err, cache.ErrTTLKeyExists):
		return "AlreadyExists"
	case errors.Is(err, cache.ErrTTLKeyNotFound):
		return "NotFound"
	}
	return "error(" + err.Error() + ")"
}

// ---------------------------------------------------------------------------
// part "mem": generated histories

type MemCase struct {
	Size  int   `json:"size"`
	TTL   int64 `json:"ttl"`             // default ttl of the cache
	Keys  int   `json:"keys"`            // keys k0..k<Keys-1>
	Start int64 `json:"start,omitempty"` // first reading of the virtual clock (0 = 1_000_000)
	Ops   []Op  `json:"ops"`
	// Names: the kind of name each key carries (see specialNames; absent / 0 = "k<i>")
	Names []int `json:"names,omitempty"`
	// Decoy: other cache instances exist next to the one under test (see Decoy)
	Decoy *Decoy `json:"decoy,omitempty"`
}

// Decoy describes bystander instances with a size and a default ttl of their
// own: one is built before the cache under test and one after it; with Use,
// every Set / Get / Remove of the history is first applied to the two of them
// as well (same key and options, a value of their own). An instance must not
// notice that others exist.
type Decoy struct {
	Size int   `json:"size"`
	TTL  int64 `json:"ttl"`
	Use  bool  `json:"use,omitempty"`
}

func genDecoy(t *rapid.T, ttls []int64) *Decoy {
	if rapid.IntRange(0, 4).Draw(t, "decoy") != 0 {
		return nil
	}
	return &Decoy{
		Size: rapid.SampledFrom([]int{0, 1, 2, 7, 1000}).Draw(t, "decoy_size"),
		TTL:  rapid.SampledFrom(ttls).Draw(t, "decoy_ttl"),
		Use:  rapid.Bool().Draw(t, "decoy_use"),
	}
}

// decoys are the bystander instances of a case.
type decoys struct {
	ctx context.Context
	tcs []cache.TTLCache
	use bool
}

func (d *decoys) add(tc cache.TTLCache) { d.tcs = append(d.tcs, tc) }

// mirror applies a keyed operation to the bystanders.
func (d *decoys) mirror(o Op, key string) {
	if d == nil || !d.use {
		return
	}
	for _, tc := range d.tcs {
		switch o.Kind {
		case "set":
			_ = tc.Set(d.ctx, key, []byte("decoy"), setOpts(o)...)
		case "get":
			_, _ = tc.Get(d.ctx, key, getOpts(o)...)
		case "remove":
			_ = tc.Remove(d.ctx, key)
		}
	}
}

func (c MemCase) start() int64 {
	if c.Start == 0 {
		return t0
	}
	return c.Start
}

// maxDurS is the largest number of whole seconds a time.Duration holds; the
// redis-backed cache cannot hand a longer ttl to go-redis.
const maxDurS = int64(math.MaxInt64 / 1_000_000_000)

// bigTTLs: a day and one more (a cap at a round number shows), weeks, years,
// amounts that carry a realistic clock over 2^31 and 2^32, and ttls at the edge
// of what a duration and an int64 deadline can hold.
var bigTTLs = []int64{86400, 86401, 7 * 86400, 365 * 86400, 20 * 365 * 86400, 1 << 31, 1 << 32, 1 << 40,
	maxDurS - 1, maxDurS, maxDurS + 1, inf / 4, 1 << 62, inf / 2, inf - 10, inf - 1, inf}

// clock starts: the small default, a present-day reading, and readings next to
// 2^31 and 2^32 (a few seconds of ttl then cross them).
var clockStarts = []int64{0, 0, 0, 0, 0, 1_760_000_000, 1<<31 - 3, 1<<31 - 1, 1 << 31, 1<<32 - 3, 1<<32 - 1, 1<<32 + 5}

// nominal is the generator's own rough idea of pending deadlines (it ignores
// eviction); it only steers Advance onto interesting instants.
type nominal struct {
	now int64
	dl  map[int]int64
}

func (n *nominal) nearest() (int64, bool) {
	best, ok := int64(0), false
	for _, d := range n.dl {
		if d >= n.now && d != inf && (!ok || d < best) {
			best, ok = d, true
		}
	}
	return best, ok
}

func (n *nominal) apply(o Op, def int64) {
	switch o.Kind {
	case "set":
		ttl := def
		if o.HasTTL {
			ttl = o.TTL
		}
		old, had := n.dl[o.Key]
		live := had && n.now <= old
		if o.MNE && live {
			return
		}
		if o.Keep && live {
			return
		}
		n.dl[o.Key] = deadlineOf(n.now, ttl)
	case "get":
		old, had := n.dl[o.Key]
		if !had || n.now > old || o.RAG {
			delete(n.dl, o.Key)
			return
		}
		if o.Upd {
			ttl := o.TTL
			if ttl == 0 {
				ttl = def
			}
			n.dl[o.Key] = deadlineOf(n.now, ttl)
		}
	case "remove":
		delete(n.dl, o.Key)
	case "clear":
		n.dl = map[int]int64{}
	case "advance":
		if o.Dt >= 0 && o.Dt <= inf-n.now {
			n.now += o.Dt
		}
	}
}

// proto is one element of the drawn history before it is resolved against the
// generator's fold: either concrete operations, or an Advance whose amount is
// relative to the nearest pending deadline (Rel 1 = exactly onto it, 2 = one
// past it, 3 = one before it; Ops[0].Dt is the fallback when nothing is
// pending). Elements are drawn independently of each other (so that rapid can
// delete any of them when it shrinks) and resolved by a deterministic pass.
type proto struct {
	Ops []Op
	Rel int
}

// genCfg: what genProto draws from. diff restricts ttls to the positive ones of
// the differential's domain; insts > 1 (differential) spreads the elements over
// that many cache instances.
type genCfg struct {
	keys  int
	diff  bool
	insts int
}

// genValueKind draws the value of a Set: mostly a fresh unique text, sometimes
// empty, nil, long, or the case's one shared slice.
func genValueKind(t *rapid.T, o *Op) {
	switch rapid.IntRange(0, 15).Draw(t, "vk") {
	case 11:
		o.VK = vkEmpty
	case 12:
		o.VK = vkNil
	case 13:
		o.VK = vkLong
		o.VLen = rapid.SampledFrom([]int{8, 16, 17, 64, 255, 256, 1000}).Draw(t, "vlen")
	case 14, 15:
		o.VK = vkShared
	}
}

func genTTL(t *rapid.T, small []int64, label string) int64 {
	if rapid.IntRange(0, 5).Draw(t, label+"_big") == 5 {
		return rapid.SampledFrom(bigTTLs).Draw(t, label)
	}
	return rapid.SampledFrom(small).Draw(t, label)
}

// genProto draws one element.
func genProto(g genCfg) *rapid.Generator[proto] {
	keys, diff := g.keys, g.diff
	setTTLs, updTTLs := []int64{-1, 0, 1, 2, 5}, []int64{0, 0, 1, 2, 5, -1}
	if diff {
		setTTLs, updTTLs = []int64{1, 2, 3, 5, 10}, []int64{0, 1, 2, 5, 10}
	}
	return rapid.Custom(func(t *rapid.T) proto {
		p := genProtoBody(t, keys, diff, setTTLs, updTTLs)
		if g.insts > 1 {
			inst := rapid.IntRange(0, g.insts-1).Draw(t, "inst")
			for i := range p.Ops {
				p.Ops[i].Inst = inst
			}
		}
		return p
	})
}

func genProtoBody(t *rapid.T, keys int, diff bool, setTTLs, updTTLs []int64) proto {
	w := rapid.IntRange(0, 99).Draw(t, "kind")
	switch {
	case w < 36:
		o := Op{Kind: "set", Key: rapid.IntRange(0, keys-1).Draw(t, "key")}
		if rapid.IntRange(0, 1).Draw(t, "has_ttl") == 1 {
			o.HasTTL = true
			o.TTL = genTTL(t, setTTLs, "sttl")
		}
		o.MNE = rapid.IntRange(0, 3).Draw(t, "mne") == 3
		o.Keep = rapid.IntRange(0, 3).Draw(t, "keep") == 3
		genValueKind(t, &o)
		return proto{Ops: []Op{o}}
	case w < 66:
		o := Op{Kind: "get", Key: rapid.IntRange(0, keys-1).Draw(t, "key")}
		switch rapid.IntRange(0, 9).Draw(t, "gopt") {
		case 4, 5:
			o.RAG = true
		case 6, 7, 8:
			o.Upd = true
			o.TTL = genTTL(t, updTTLs, "uttl")
		case 9:
			o.RAG, o.Upd = true, true
			o.TTL = rapid.SampledFrom([]int64{0, 2, 5}).Draw(t, "uttl")
		}
		return proto{Ops: []Op{o}}
	case w < 88:
		p := proto{Ops: []Op{{Kind: "advance"}}}
		switch rapid.IntRange(0, 7).Draw(t, "adv") {
		case 0:
			p.Ops[0].Dt = 0
		case 1:
			p.Ops[0].Dt = 1
		case 2:
			p.Ops[0].Dt = int64(rapid.IntRange(0, 6).Draw(t, "dt"))
		case 3:
			p.Rel, p.Ops[0].Dt = 1, int64(rapid.IntRange(0, 6).Draw(t, "dt"))
		case 4:
			p.Rel, p.Ops[0].Dt = 2, int64(rapid.IntRange(0, 6).Draw(t, "dt"))
		case 5:
			p.Rel, p.Ops[0].Dt = 3, int64(rapid.IntRange(0, 6).Draw(t, "dt"))
		case 6:
			p.Ops[0].Dt = int64(rapid.IntRange(7, 12).Draw(t, "dt"))
		default:
			p.Ops[0].Dt = rapid.SampledFrom([]int64{100, 100, 100, 86400, 86401, 1 << 31, 1 << 32}).Draw(t, "dt")
		}
		return p
	case w < 94 && !diff, w < 93:
		return proto{Ops: []Op{{Kind: "remove", Key: rapid.IntRange(0, keys-1).Draw(t, "key")}}}
	case w < 96:
		return proto{Ops: []Op{{Kind: "clear"}}}
	case w == 99 && diff:
		return proto{Ops: genFillClear(t, keys)}
	default:
		// a short scripted shape (the rest of the history stays random)
		return proto{Ops: genMacro(t, keys, !diff)}
	}
}

// genProtos draws the history: between 1 and 40 elements, lengths spread over
// the whole range (the lower bound is drawn first; rapid shrinks it to 1 and
// then deletes elements).
func genProtos(t *rapid.T, g genCfg) []proto {
	lo := rapid.IntRange(1, 30).Draw(t, "minlen")
	return rapid.SliceOfN(genProto(g), lo, 40).Draw(t, "ops")
}

// relAdvance resolves a relative Advance.
func relAdvance(rel int, fallback, now, near int64, pending bool) int64 {
	if !pending {
		return fallback
	}
	switch rel {
	case 1:
		return near - now
	case 2:
		return near - now + 1 // near < MaxInt64 (never-expiring keys are not pending), now >= 0
	case 3:
		if near-now >= 1 {
			return near - now - 1
		}
		return 0
	}
	return fallback
}

// resolve folds the drawn elements into concrete operations.
func resolve(protos []proto, start, def int64) []Op {
	var ops []Op
	nom := &nominal{now: start, dl: map[int]int64{}}
	for _, p := range protos {
		for _, o := range p.Ops {
			if o.Kind == "advance" && p.Rel != 0 {
				near, ok := nom.nearest()
				o.Dt = relAdvance(p.Rel, o.Dt, nom.now, near, ok)
			}
			nom.apply(o, def)
			ops = append(ops, o)
		}
	}
	return ops
}

func GenMem(t *rapid.T) MemCase {
	c := MemCase{
		Size:  rapid.SampledFrom([]int{0, 0, 1, 1, 2, 2, 3, 3, 4, 5}).Draw(t, "size"),
		TTL:   rapid.SampledFrom([]int64{-1, 0, 1, 3, 10, -1, 0, 1, 3, 10, 30 * 86400, inf}).Draw(t, "ttl"),
		Keys:  rapid.IntRange(1, maxKeys).Draw(t, "keys"),
		Start: rapid.SampledFrom(clockStarts).Draw(t, "start"),
	}
	c.Ops = resolve(genProtos(t, genCfg{keys: c.Keys}), c.start(), c.TTL)
	c.Names = genNames(t, c.Keys)
	c.Decoy = genDecoy(t, []int64{-1, 0, 1, 2, 7, 100})
	return c
}

// genFillClear (differential only): many keys live under the prefix when Clear
// runs, then reads and a set-if-absent on the keys placed last and first - the
// shape that needs the redis-backed Clear to walk every SCAN page.
func genFillClear(t *rapid.T, keys int) []Op {
	m := rapid.IntRange(1, keys).Draw(t, "fill")
	if rapid.Bool().Draw(t, "fill_all") { // half of the time every key; shrinks to the drawn count
		m = keys
	}
	var ops []Op
	for k := 0; k < m; k++ {
		ops = append(ops, Op{Kind: "set", Key: k, HasTTL: true, TTL: 10})
	}
	return append(ops, Op{Kind: "clear"}, Op{Kind: "get", Key: m - 1}, Op{Kind: "get", Key: 0}, Op{Kind: "set", Key: m - 1, MNE: true})
}

// genMacro emits one of the scripted shapes: a second Set (must-not-exist /
// keep-ttl) after the ttl elapsed (F2), update-ttl carrying a key past its
// original deadline, keep-ttl on a live key followed by the old deadline
// passing (ttl and distances vary; with anyKeep false the second Set of the
// first shape is always must-not-exist - the differential excludes keep-ttl on
// dead keys); a long ttl read in the middle of its life, one second before its
// end and after it; one slice stored under two keys, one of them overwritten
// with a value of the same length, the other read; a value kept from a Get and
// an overwrite of its key.
func genMacro(t *rapid.T, keys int, anyKeep bool) []Op {
	k := rapid.IntRange(0, keys-1).Draw(t, "key")
	ttl := int64(rapid.IntRange(1, 3).Draw(t, "mttl"))
	switch rapid.IntRange(0, 5).Draw(t, "macro") {
	case 0:
		second := Op{Kind: "set", Key: k, MNE: true}
		if anyKeep && rapid.Bool().Draw(t, "mkeep") {
			second = Op{Kind: "set", Key: k, Keep: true}
		}
		return []Op{{Kind: "set", Key: k, HasTTL: true, TTL: ttl},
			{Kind: "advance", Dt: ttl + int64(rapid.IntRange(1, 2).Draw(t, "mpast"))}, second, {Kind: "get", Key: k}}
	case 1:
		ext := int64(rapid.IntRange(2, 6).Draw(t, "mext"))
		return []Op{{Kind: "set", Key: k, HasTTL: true, TTL: ttl}, {Kind: "get", Key: k, Upd: true, TTL: ttl + ext},
			{Kind: "advance", Dt: ttl + 1}, {Kind: "get", Key: k}}
	case 2:
		return []Op{{Kind: "set", Key: k, HasTTL: true, TTL: ttl}, {Kind: "set", Key: k, Keep: true},
			{Kind: "advance", Dt: ttl + 1}, {Kind: "get", Key: k}}
	case 3:
		big := rapid.SampledFrom(bigTTLs).Draw(t, "mbig")
		first := big / 2
		if rapid.Bool().Draw(t, "mday") {
			first = 86400
		}
		if first >= big {
			first = big - 1
		}
		return []Op{{Kind: "set", Key: k, HasTTL: true, TTL: big}, {Kind: "advance", Dt: first}, {Kind: "get", Key: k},
			{Kind: "advance", Dt: big - first - 1}, {Kind: "get", Key: k}, {Kind: "advance", Dt: 2}, {Kind: "get", Key: k}}
	case 4:
		k2 := (k + 1 + rapid.IntRange(0, keys-1).Draw(t, "key2")) % keys // a different key when there is one
		return []Op{{Kind: "set", Key: k, VK: vkShared}, {Kind: "set", Key: k2, VK: vkShared}, {Kind: "set", Key: k},
			{Kind: "get", Key: k2}, {Kind: "get", Key: k}}
	default:
		return []Op{{Kind: "set", Key: k}, {Kind: "get", Key: k}, {Kind: "set", Key: k}, {Kind: "get", Key: k}}
	}
}

func valueOf(step int) string { return fmt.Sprintf("v%02d", step) }

// heldVal is a value a Get returned, kept by the caller: it must read the same
// for as long as the caller holds it, whatever is stored later.
type heldVal struct {
	buf  []byte
	text string
	what string
}

// memRun executes operations on one cache, judged by the model.
type memRun struct {
	ctx     context.Context
	tc      cache.TTLCache
	m       *model
	res     *vkit.Result
	keys    int
	now     func() int64
	advance func(dt int64)
	vr      *valuer
	held    []heldVal
	names   *namer  // nil: plain names
	decoys  *decoys // nil: none
}

func (r *memRun) name(k int) string { return r.names.name(k) }

func (r *memRun) checkHeld() {
	if r.res.Fail != nil {
		return
	}
	for _, h := range r.held {
		if string(h.buf) != h.text {
			r.m.failf("mem/get/returned-value-changed", "the value %s that %s returned reads %s after the operations that followed: a value handed out by Get belongs to the caller",
				short(h.text), h.what, short(string(h.buf)))
			return
		}
	}
}

func (r *memRun) hold(i int, o Op, v []byte, err error) {
	if err == nil && len(v) > 0 && len(r.held) < 64 {
		r.held = append(r.held, heldVal{buf: v, text: string(v), what: fmt.Sprintf("[%d] %s", i, o)})
	}
}

// step executes operation o as step i.
func (r *memRun) step(i int, o Op) {
	m, res := r.m, r.res
	m.step = i
	if (o.Kind == "set" || o.Kind == "get" || o.Kind == "remove") && (o.Key < 0 || o.Key >= r.keys) {
		res.Skip("op-on-unknown-key")
		return
	}
	switch o.Kind {
	case "set":
		b, text, ok := r.vr.value(i, o)
		if !ok {
			res.Skip("unknown-value-kind")
			return
		}
		switch o.VK {
		case vkEmpty, vkNil:
			res.Class("empty-value")
		case vkLong:
			res.Class("long-value")
		case vkShared:
			res.Class("shared-slice")
		}
		r.decoys.mirror(o, r.name(o.Key))
		err := r.tc.Set(r.ctx, r.name(o.Key), b, setOpts(o)...)
		m.set(o, text, err)
		r.checkHeld()
	case "get":
		r.decoys.mirror(o, r.name(o.Key))
		v, err := r.tc.Get(r.ctx, r.name(o.Key), getOpts(o)...)
		m.get(o, v, err, false)
		r.hold(i, o, v, err)
	case "remove":
		r.decoys.mirror(o, r.name(o.Key))
		m.remove(o, r.tc.Remove(r.ctx, r.name(o.Key)))
	case "clear":
		r.tc.Clear(r.ctx)
		m.clear()
	case "advance":
		if o.Dt < 0 || o.Dt > inf-r.now() {
			res.Skip("advance-out-of-range")
			return
		}
		if o.Dt >= 86400 {
			res.Class("advance>=1day")
		}
		before := r.now()
		r.advance(o.Dt)
		m.advance(o.Dt)
		for _, edge := range []int64{1 << 31, 1 << 32} {
			if before < edge && m.now >= edge {
				res.Class(fmt.Sprintf("clock-crosses-2^%d", bits.Len64(uint64(edge))-1))
			}
		}
	default:
		res.Skip("unknown-op")
	}
}

// probe reads the given keys (steps base, base+1, ...) and checks the bound.
func (r *memRun) probe(base int, keys []int) {
	hits := 0
	var hitKeys []string
	for j, k := range keys {
		r.m.step = base + j
		o := Op{Kind: "get", Key: k}
		v, err := r.tc.Get(r.ctx, r.name(k))
		if err == nil {
			hits++
			hitKeys = append(hitKeys, keyName(k))
		}
		r.m.get(o, v, err, true)
		if r.res.Fail != nil {
			return
		}
	}
	if hits > r.m.size {
		r.m.failf("mem/bound/final-probe", "final probe found %d retrievable keys %v, size is %d", hits, hitKeys, r.m.size)
		return
	}
	r.checkHeld()
}

func ExecMem(c MemCase) *vkit.Result {
	res := &vkit.Result{}
	if c.Size < 0 || c.Size > 1<<20 || c.Keys < 1 || c.Keys > maxModelKeys || c.Start < 0 || len(c.Ops) > 1<<16 {
		res.Skip("malformed-case")
		return res
	}
	clk := c.start()
	restore := cache.VerifSetNow(func() int64 { return clk })
	defer restore()
	if clk >= 1<<31 {
		res.Class("clock>=2^31")
	} else if clk > 1<<30 {
		res.Class("clock-present-day")
	}
	names := newNamer(c.Names, c.Keys)
	if names == nil || len(c.Names) > c.Keys {
		res.Skip("malformed-key-names")
		return res
	}
	if c.Decoy != nil && (c.Decoy.Size < 0 || c.Decoy.Size > 1<<20) {
		res.Skip("malformed-case")
		return res
	}
	m := newModel(c.Size, c.TTL, c.Keys, len(c.Ops)+c.Keys, clk, res)
	m.names = names.describe()
	if m.names != "" {
		res.Class("special-key-names")
	}
	ctx := context.Background()
	var ds *decoys
	if c.Decoy != nil {
		ds = &decoys{ctx: ctx, use: c.Decoy.Use}
		ds.add(cache.NewTTLMemCache(c.Decoy.Size, c.Decoy.TTL))
		res.Class("decoy-instances")
	}
	tc := cache.NewTTLMemCache(c.Size, c.TTL)
	if c.Decoy != nil {
		ds.add(cache.NewTTLMemCache(c.Decoy.Size+1, c.Decoy.TTL))
	}
	r := &memRun{ctx: ctx, tc: tc, m: m, res: res, keys: c.Keys,
		now: func() int64 { return clk }, advance: func(dt int64) { clk += dt }, vr: newValuer(), names: names, decoys: ds}
	for i, o := range c.Ops {
		r.step(i, o)
		if res.Fail != nil {
			return res
		}
	}
	// final probe of every key
	all := make([]int, c.Keys)
	for k := range all {
		all[k] = k
	}
	r.probe(len(c.Ops), all)
	if res.Fail != nil {
		return res
	}
	m.boundCheck()
	res.NonTrivial = m.nt
	return res
}

const ruleMem = "rapid: size 0..5 (0,1,2 weighted), default ttl in {-1,0,1,3,10; rarely 30 days, MaxInt64}, 1..5 keys - in a quarter of the cases about half of them under a special name instead of k<i> (the empty key, blanks, names that differ from another key in case or a blank only, the redis prefix itself and prefix+k0 / prefix+k1, ':' '*' '?' '[' '\\', NUL / newline / non-UTF-8 bytes, 200 / 1024 / 5000 bytes long and equal up to the last byte) -, in a fifth of the cases bystander caches with another size and default ttl built before and after the cache under test (half of the time every keyed call is applied to them first), the virtual clock (cache.VerifSetNow) starting at 1e6 (5/12), at a present-day reading, or 3 / 1 / 0 seconds before 2^31 or 2^32 (or just past it), 1..40 independently drawn elements (rapid.SliceOfN, so shrinking can delete any of them), resolved by a deterministic fold: Set(36%: WithTTL half the time - in {-1,0,1,2,5}, 1/6 of them a long one: a day, a day+1, a week, a year, 20 years, 2^31, 2^32, 2^40, MaxInt64/1e9 -1/+0/+1, MaxInt64/4, 2^62, MaxInt64/2, MaxInt64-10, MaxInt64-1, MaxInt64 - must-not-exist 1/4, keep-ttl 1/4, any combination; the value a fresh unique text, or (5/16) empty, nil, 8..1000 bytes longer, or the one slice of the case passed again under another key), Get(30%: plain / remove-after-get / update-ttl(0|1|2|5|-1|a long one) / both), Advance(22%: 0, 1, 0..6, exactly onto / one past / one before the nearest pending deadline - however far away it is -, 7..12, 100, a day, 2^31, 2^32), Remove(6%), Clear(2%), and 4% scripted shapes (Set ttl, let it elapse, Set must-not-exist|keep-ttl, Get / Set, update-ttl, pass the old deadline, Get / Set, keep-ttl, pass the deadline, Get / Set a long ttl, read after a day or half of it, one second before its end, after it / one slice under two keys, overwrite one with a value of the same length, read both / Set, Get, Set, Get of one key). Oracle: three-valued model (must-hit / must-miss / either, the observed answer adopted - also for the rest of the same clock reading) with a deadline interval per key (a ttl that ends beyond MaxInt64 never elapses) and the recency window of the statement; a hit returns the latest value (empty and nil values are hits with an empty value); every non-empty value a Get returned still reads the same after each later Set and at the end; must-not-exist fails iff live and succeeds iff absent/expired; final probe of all keys, #hits <= size, and no time point with more than size keys proven retrievable. Non-trivial: a Get / must-not-exist / keep-ttl whose outcome is fixed by an elapsed ttl, or a key found gone after leaving the recency window (eviction), or any read at size 0 after a Set; distinct = distinct case JSON"

var PartMem = &vkit.Part[MemCase]{
	Property: Property, Name: "mem",
	Rule:  ruleMem,
	Quick: 20000, Thorough: 80000,
	Gen: GenMem, Exec: ExecMem,
}

// ---------------------------------------------------------------------------
// part "mem-big": sizes 6..64 with more distinct keys than the size, so that the
// eviction of exactly one entry per overflow - and of none before - is observed.

func genBigProto(size, keys int) *rapid.Generator[proto] {
	return rapid.Custom(func(t *rapid.T) proto {
		w := rapid.IntRange(0, 99).Draw(t, "kind")
		switch {
		case w < 35:
			// a run of Sets over consecutive keys, then reads around the edge of the window
			from := rapid.IntRange(0, keys-1).Draw(t, "from")
			n := rapid.IntRange(1, keys).Draw(t, "run")
			if rapid.Bool().Draw(t, "overflow") { // half of the time just enough to overflow
				n = size + rapid.IntRange(1, keys-size).Draw(t, "over")
			}
			var ops []Op
			for i := 0; i < n; i++ {
				ops = append(ops, Op{Kind: "set", Key: (from + i) % keys})
			}
			// the oldest key of the run that is still inside the window, and its neighbours
			edge := from + n - size
			if edge < from {
				edge = from
			}
			for _, d := range []int{0, 1, -1} {
				if rapid.IntRange(0, 2).Draw(t, "probe") > 0 {
					ops = append(ops, Op{Kind: "get", Key: ((edge+d)%keys + keys) % keys})
				}
			}
			return proto{Ops: ops}
		case w < 50:
			o := Op{Kind: "set", Key: rapid.IntRange(0, keys-1).Draw(t, "key")}
			if rapid.IntRange(0, 3).Draw(t, "has_ttl") == 3 {
				o.HasTTL, o.TTL = true, rapid.SampledFrom([]int64{0, 2, 5}).Draw(t, "sttl")
			}
			o.MNE = rapid.IntRange(0, 3).Draw(t, "mne") == 3
			return proto{Ops: []Op{o}}
		case w < 85:
			o := Op{Kind: "get", Key: rapid.IntRange(0, keys-1).Draw(t, "key")}
			o.RAG = rapid.IntRange(0, 5).Draw(t, "rag") == 5
			return proto{Ops: []Op{o}}
		case w < 92:
			return proto{Ops: []Op{{Kind: "advance", Dt: int64(rapid.IntRange(0, 6).Draw(t, "dt"))}}}
		case w < 98:
			return proto{Ops: []Op{{Kind: "remove", Key: rapid.IntRange(0, keys-1).Draw(t, "key")}}}
		default:
			return proto{Ops: []Op{{Kind: "clear"}}}
		}
	})
}

func GenMemBig(t *rapid.T) MemCase {
	c := MemCase{
		Size: rapid.SampledFrom([]int{6, 7, 8, 9, 12, 15, 16, 17, 24, 32, 40, 63, 64}).Draw(t, "size"),
		TTL:  rapid.SampledFrom([]int64{0, 0, -1, 10}).Draw(t, "ttl"),
	}
	c.Keys = c.Size + rapid.IntRange(1, 8).Draw(t, "extra")
	c.Ops = resolve(rapid.SliceOfN(genBigProto(c.Size, c.Keys), 1, 12).Draw(t, "ops"), c.start(), c.TTL)
	return c
}

var PartMemBig = &vkit.Part[MemCase]{
	Property: Property, Name: "mem-big",
	Rule:  "rapid: size in {6,7,8,9,12,15,16,17,24,32,40,63,64}, size+1..size+8 keys, default ttl in {0,-1,10}, 1..12 independently drawn elements: a run of 1..keys (half of the time size+1..keys) Sets over consecutive keys followed by reads of the oldest key that must still be inside the recency window and of its two neighbours (35%), single Set (ttl / must-not-exist sometimes), Get (1/6 remove-after-get), Advance 0..6, Remove, Clear; judged by the same three-valued model, final probe and bound as part mem. Non-trivial: as in part mem (a key found gone after it left the recency window, or an outcome fixed by an elapsed ttl)",
	Quick: 2500, Thorough: 20000,
	Gen: GenMemBig, Exec: ExecMem,
}

// ---------------------------------------------------------------------------
// part "mem-small": every history of at most 3 steps over a small alphabet

func smallAlphabet() []Op {
	var a []Op
	for k := 0; k < 2; k++ {
		a = append(a,
			Op{Kind: "set", Key: k},
			Op{Kind: "set", Key: k, HasTTL: true, TTL: 1},
			Op{Kind: "set", Key: k, MNE: true},
			Op{Kind: "set", Key: k, Keep: true},
			Op{Kind: "get", Key: k},
			Op{Kind: "get", Key: k, RAG: true},
			Op{Kind: "get", Key: k, Upd: true, TTL: 5},
		)
	}
	a = append(a, Op{Kind: "remove", Key: 0}, Op{Kind: "clear"},
		Op{Kind: "advance", Dt: 1}, Op{Kind: "advance", Dt: 2}, Op{Kind: "advance", Dt: 3})
	return a
}

// SmallCases enumerates size in {0,1,2} x default ttl in {0,2} x all op
// sequences of length 1..3 over smallAlphabet (the final probe adds the reads).
func SmallCases() []MemCase {
	alpha := smallAlphabet()
	var out []MemCase
	for _, size := range []int{0, 1, 2} {
		for _, ttl := range []int64{0, 2} {
			var rec func(prefix []Op, left int)
			rec = func(prefix []Op, left int) {
				if len(prefix) > 0 {
					out = append(out, MemCase{Size: size, TTL: ttl, Keys: 2, Ops: append([]Op(nil), prefix...)})
				}
				if left == 0 {
					return
				}
				for _, o := range alpha {
					rec(append(prefix, o), left-1)
				}
			}
			rec(nil, 3)
		}
	}
	return out
}

var PartMemSmall = &vkit.Part[MemCase]{
	Property: Property, Name: "mem-small",
	Rule:  "complete enumeration: size in {0,1,2} x default ttl in {0,2} x every sequence of 1..3 ops over 19 ops (2 keys: Set plain / ttl 1 / must-not-exist / keep-ttl, Get plain / remove-after-get / update-ttl 5; Remove k0; Clear; Advance 1,2,3), judged by the same three-valued model and final probe as part mem. Non-trivial: as in part mem",
	Quick: 1, Thorough: 1,
	Exec: ExecMem,
}
