package c05ttl

import (
	"context"
	"errors"
	"fmt"
	"sort"
	"sync"
	"time"

	"github.com/redis/go-redis/v9"
)

// fakeRedis is an in-process redis.Cmdable. It embeds the (nil) interface and
// overrides exactly the commands cache/ttlrds.go issues: SETNX, SET [KEEPTTL],
// GET, GETDEL, EXPIRE, DEL, SCAN. Any other command panics with a nil
// dereference, which shows up as a "panic" failure: the fake then needs the new
// command. Semantics are those of a Redis server (documented behaviour of the
// commands, go-redis v9.0.4 argument rules) on the harness's virtual clock: a
// key written with a positive time.Duration d at virtual instant T disappears
// once the clock has passed T+d. The fake applies the Duration it is handed
// exactly (go-redis' own EX/PX rounding is outside the sandbox).
type fakeRedis struct {
	redis.Cmdable
	mu   sync.Mutex
	now  func() int64 // virtual unix seconds
	data map[string]fakeEntry
	log  []string
}

type fakeEntry struct {
	val string
	exp int64 // virtual unix nanoseconds; 0 = no expiry
}

func newFakeRedis(now func() int64) *fakeRedis {
	return &fakeRedis{now: now, data: map[string]fakeEntry{}}
}

func (f *fakeRedis) nowNs() int64 { return f.now() * int64(time.Second) }

func (f *fakeRedis) logf(format string, a ...any) {
	if len(f.log) >= 200 {
		f.log = f.log[100:]
	}
	f.log = append(f.log, fmt.Sprintf(format, a...))
}

// Tail returns the last n commands received (for failure messages).
func (f *fakeRedis) Tail(n int) []string {
	f.mu.Lock()
	defer f.mu.Unlock()
	l := f.log
	if len(l) > n {
		l = l[len(l)-n:]
	}
	return append([]string(nil), l...)
}

// lookup returns the live entry of key, dropping it if its time has passed
// (Redis: a key is expired once now > its expire time).
func (f *fakeRedis) lookup(key string) (fakeEntry, bool) {
	e, ok := f.data[key]
	if !ok {
		return e, false
	}
	if e.exp != 0 && f.nowNs() > e.exp {
		delete(f.data, key)
		return fakeEntry{}, false
	}
	return e, true
}

func asString(v interface{}) string {
	switch x := v.(type) {
	case []byte:
		return string(x)
	case string:
		return x
	}
	return fmt.Sprint(v)
}

func (f *fakeRedis) Set(_ context.Context, key string, value interface{}, expiration time.Duration) *redis.StatusCmd {
	f.mu.Lock()
	defer f.mu.Unlock()
	old, had := f.lookup(key)
	e := fakeEntry{val: asString(value)}
	switch {
	case expiration > 0: // SET key value EX|PX
		e.exp = f.nowNs() + int64(expiration)
		f.logf("SET %s ex=%v", key, expiration)
	case expiration == redis.KeepTTL: // SET key value KEEPTTL
		if had {
			e.exp = old.exp
		}
		f.logf("SET %s KEEPTTL", key)
	default: // go-redis sends no expiry argument: the key becomes persistent
		f.logf("SET %s (no expiry, duration %v)", key, expiration)
	}
	f.data[key] = e
	return redis.NewStatusResult("OK", nil)
}

func (f *fakeRedis) SetNX(_ context.Context, key string, value interface{}, expiration time.Duration) *redis.BoolCmd {
	f.mu.Lock()
	defer f.mu.Unlock()
	f.logf("SETNX %s ex=%v", key, expiration)
	if expiration < 0 && expiration != redis.KeepTTL {
		// go-redis would send EX/PX with a negative number
		return redis.NewBoolResult(false, errors.New("ERR invalid expire time in 'set' command"))
	}
	if _, had := f.lookup(key); had {
		return redis.NewBoolResult(false, nil)
	}
	e := fakeEntry{val: asString(value)}
	if expiration > 0 {
		e.exp = f.nowNs() + int64(expiration)
	}
	f.data[key] = e
	return redis.NewBoolResult(true, nil)
}

func (f *fakeRedis) Get(_ context.Context, key string) *redis.StringCmd {
	f.mu.Lock()
	defer f.mu.Unlock()
	f.logf("GET %s", key)
	e, ok := f.lookup(key)
	if !ok {
		return redis.NewStringResult("", redis.Nil)
	}
	return redis.NewStringResult(e.val, nil)
}

func (f *fakeRedis) GetDel(_ context.Context, key string) *redis.StringCmd {
	f.mu.Lock()
	defer f.mu.Unlock()
	f.logf("GETDEL %s", key)
	e, ok := f.lookup(key)
	if !ok {
		return redis.NewStringResult("", redis.Nil)
	}
	delete(f.data, key)
	return redis.NewStringResult(e.val, nil)
}

func (f *fakeRedis) Expire(_ context.Context, key string, expiration time.Duration) *redis.BoolCmd {
	f.mu.Lock()
	defer f.mu.Unlock()
	f.logf("EXPIRE %s %v", key, expiration)
	e, ok := f.lookup(key)
	if !ok {
		return redis.NewBoolResult(false, nil)
	}
	if expiration <= 0 { // EXPIRE with a non-positive timeout deletes the key
		delete(f.data, key)
		return redis.NewBoolResult(true, nil)
	}
	e.exp = f.nowNs() + int64(expiration)
	f.data[key] = e
	return redis.NewBoolResult(true, nil)
}

func (f *fakeRedis) Del(_ context.Context, keys ...string) *redis.IntCmd {
	f.mu.Lock()
	defer f.mu.Unlock()
	f.logf("DEL %v", keys)
	var n int64
	for _, k := range keys {
		if _, ok := f.lookup(k); ok {
			delete(f.data, k)
			n++
		}
	}
	return redis.NewIntResult(n, nil)
}

// Scan returns every live key matching the glob in one page (cursor 0), which
// is a legal SCAN answer.
func (f *fakeRedis) Scan(_ context.Context, cursor uint64, match string, count int64) *redis.ScanCmd {
	f.mu.Lock()
	defer f.mu.Unlock()
	f.logf("SCAN %d MATCH %s COUNT %d", cursor, match, count)
	if cursor != 0 {
		return redis.NewScanCmdResult(nil, 0, nil)
	}
	var keys []string
	for k := range f.data {
		if _, ok := f.lookup(k); ok && (match == "" || globMatch(match, k)) {
			keys = append(keys, k)
		}
	}
	sort.Strings(keys)
	return redis.NewScanCmdResult(keys, 0, nil)
}

// globMatch implements the subset of Redis glob patterns used here: '*', '?',
// '\' escapes and literals.
func globMatch(p, s string) bool {
	for len(p) > 0 {
		switch p[0] {
		case '*':
			for len(p) > 0 && p[0] == '*' {
				p = p[1:]
			}
			if len(p) == 0 {
				return true
			}
			for i := 0; i <= len(s); i++ {
				if globMatch(p, s[i:]) {
					return true
				}
			}
			return false
		case '?':
			if len(s) == 0 {
				return false
			}
		case '\\':
			if len(p) > 1 {
				p = p[1:]
			}
			fallthrough
		default:
			if len(s) == 0 || s[0] != p[0] {
				return false
			}
		}
		p, s = p[1:], s[1:]
	}
	return len(s) == 0
}
