package c05ttl

import (
	"context"
	"errors"
	"fmt"
	"math"
	"runtime"
	"strings"
	"sync"
	"time"

	"github.com/redis/go-redis/v9"
)

// fakeRedis is an in-process redis.Cmdable. It embeds the (nil) interface and
// overrides exactly the commands cache/ttlrds.go issues: SETNX, SET [KEEPTTL],
// GET, GETDEL, EXPIRE, DEL, SCAN. Any other command panics with a nil
// dereference, which shows up as a "panic" failure: the fake then needs the new
// command. Semantics are those of a Redis server (documented behaviour of the
// commands, go-redis v9.0.4 argument rules, cursor-based SCAN with bounded pages)
// on the harness's virtual clock: a
// key written with a positive time.Duration d at virtual instant T disappears
// once the clock has passed T+d. The fake applies the Duration it is handed
// exactly (go-redis' own EX/PX rounding is outside the sandbox); expiry instants
// are kept in whole virtual seconds plus a nanosecond rest, saturating, so no
// clock reading and no duration makes the fake itself overflow.
type fakeRedis struct {
	redis.Cmdable
	mu   sync.Mutex
	now  func() int64 // virtual unix seconds
	data map[string]fakeEntry
	log  []string

	// SCAN walks a slot table the way Redis walks its hash table: every key
	// sits in one slot, a deleted key leaves a hole, the cursor is a position in
	// the table. One SCAN call examines a bounded number of slots (holes, keys of
	// other prefixes and non-matching keys all use up the budget), so a page can
	// be short or empty although the cursor it returns is not 0.
	cfg   ScanCfg
	slots []string       // "" = hole
	pos   map[string]int // key -> slot
	own   int            // keys placed by commands (not the foreign ones)
	gaps  int
	forgn []string // the foreign keys, in the order they appeared

	// yield: the calling goroutine gives way before each command, as a client
	// does while its command travels to the server - commands of other clients
	// get served between two commands of one client (race parts only; it moves
	// the schedule, it decides nothing)
	yield bool
}

// enter starts a command.
func (f *fakeRedis) enter() {
	if f.yield {
		runtime.Gosched()
	}
	f.mu.Lock()
}

// fakeEntry: the key expires once the clock (whole seconds) has passed
// expS seconds + expNs nanoseconds; hasExp false = no expiry.
type fakeEntry struct {
	val    string
	hasExp bool
	expS   int64
	expNs  int64
}

// expiring returns e with the expiry instant now + d (d > 0).
func (f *fakeRedis) expiring(e fakeEntry, d time.Duration) fakeEntry {
	now, s := f.now(), int64(d/time.Second)
	if s > math.MaxInt64-now {
		// beyond the last instant the clock can show: cannot expire
		e.hasExp = false
		return e
	}
	e.hasExp, e.expS, e.expNs = true, now+s, int64(d%time.Second)
	return e
}

// expired: now (whole seconds) is later than the expiry instant.
func (e fakeEntry) expired(now int64) bool {
	return e.hasExp && now > e.expS
}

// ScanCfg is the part of a case that shapes the fake's SCAN replies. Any page
// size is a legal Redis behaviour: COUNT is a hint ("the amount of work that
// should be done at every call"), the server decides how much a call returns,
// and only an iteration that is continued until the cursor comes back as 0 is
// complete. The fake therefore pages by the case's own page size whatever COUNT
// the client sends.
type ScanCfg struct {
	Page    int  `json:"page,omitempty"`    // slots examined per SCAN call (0 = 10), with or without COUNT
	Foreign int  `json:"foreign,omitempty"` // keys of another prefix present before the history starts
	Gap     int  `json:"gap,omitempty"`     // g > 0: another foreign key appears after every g-th new key
	Reuse   bool `json:"reuse,omitempty"`   // a new key goes into the lowest hole instead of a fresh slot
}

func (c ScanCfg) normal() ScanCfg {
	if c.Page < 1 {
		c.Page = 10
	}
	if c.Page > 1000 {
		c.Page = 1000
	}
	if c.Foreign < 0 {
		c.Foreign = 0
	}
	if c.Foreign > 16 {
		c.Foreign = 16
	}
	if c.Gap < 0 {
		c.Gap = 0
	}
	return c
}

const foreignPrefix = "other:"

func newFakeRedis(now func() int64, cfg ScanCfg) *fakeRedis {
	f := &fakeRedis{now: now, data: map[string]fakeEntry{}, pos: map[string]int{}, cfg: cfg.normal()}
	for i := 0; i < f.cfg.Foreign; i++ {
		f.place(fmt.Sprintf("%sf%d", foreignPrefix, i), fakeEntry{val: "foreign"}, true)
	}
	return f
}

// place stores an entry, giving a new key its slot.
func (f *fakeRedis) place(key string, e fakeEntry, foreign bool) {
	f.data[key] = e
	if _, ok := f.pos[key]; ok {
		return
	}
	slot := -1
	if f.cfg.Reuse {
		for i, k := range f.slots {
			if k == "" {
				slot = i
				break
			}
		}
	}
	if slot < 0 {
		f.slots = append(f.slots, "")
		slot = len(f.slots) - 1
	}
	f.slots[slot] = key
	f.pos[key] = slot
	if foreign {
		f.forgn = append(f.forgn, key)
		return
	}
	f.own++
	if f.cfg.Gap > 0 && f.own%f.cfg.Gap == 0 {
		f.gaps++
		f.place(fmt.Sprintf("%sg%d", foreignPrefix, f.gaps), fakeEntry{val: "foreign"}, true)
	}
}

// drop deletes a key; its slot becomes a hole.
func (f *fakeRedis) drop(key string) {
	if i, ok := f.pos[key]; ok {
		f.slots[i] = ""
		delete(f.pos, key)
	}
	delete(f.data, key)
}

// ForeignCount is the number of foreign keys placed so far.
func (f *fakeRedis) ForeignCount() int {
	f.mu.Lock()
	defer f.mu.Unlock()
	return len(f.forgn)
}

// MissingForeign returns a foreign key that the server no longer holds, ""
// if all are there. Foreign keys never expire and no cache addresses them; a key
// that starts with one of the given cache prefixes is not counted (it lies in
// that cache's key space).
func (f *fakeRedis) MissingForeign(prefixes []string) string {
	f.mu.Lock()
	defer f.mu.Unlock()
next:
	for _, k := range f.forgn {
		for _, p := range prefixes {
			if strings.HasPrefix(k, p) {
				continue next
			}
		}
		if _, ok := f.data[k]; !ok {
			return k
		}
	}
	return ""
}

// LiveUnder returns up to max live keys that start with prefix, in slot order;
// CountUnder their number.
func (f *fakeRedis) LiveUnder(prefix string, max int) []string {
	f.mu.Lock()
	defer f.mu.Unlock()
	var out []string
	now := f.now()
	for _, k := range f.slots {
		if len(out) >= max {
			break
		}
		if k != "" && strings.HasPrefix(k, prefix) && !f.data[k].expired(now) {
			out = append(out, k)
		}
	}
	return out
}

func (f *fakeRedis) CountUnder(prefix string) int {
	f.mu.Lock()
	defer f.mu.Unlock()
	n, now := 0, f.now()
	for _, k := range f.slots {
		if k != "" && strings.HasPrefix(k, prefix) && !f.data[k].expired(now) {
			n++
		}
	}
	return n
}

func (f *fakeRedis) logf(format string, a ...any) {
	if len(f.log) >= 200 {
		f.log = f.log[100:]
	}
	f.log = append(f.log, fmt.Sprintf(format, a...))
}

// Tail returns the last n commands received (for failure messages).
func (f *fakeRedis) Tail(n int) []string {
	f.mu.Lock()
	defer f.mu.Unlock()
	l := f.log
	if len(l) > n {
		l = l[len(l)-n:]
	}
	return append([]string(nil), l...)
}

// lookup returns the live entry of key, dropping it if its time has passed
// (Redis: a key is expired once now > its expire time).
func (f *fakeRedis) lookup(key string) (fakeEntry, bool) {
	e, ok := f.data[key]
	if !ok {
		return e, false
	}
	if e.expired(f.now()) {
		f.drop(key)
		return fakeEntry{}, false
	}
	return e, true
}

func asString(v interface{}) string {
	switch x := v.(type) {
	case []byte:
		return string(x)
	case string:
		return x
	}
	return fmt.Sprint(v)
}

func (f *fakeRedis) Set(_ context.Context, key string, value interface{}, expiration time.Duration) *redis.StatusCmd {
	f.enter()
	defer f.mu.Unlock()
	old, had := f.lookup(key)
	e := fakeEntry{val: asString(value)}
	switch {
	case expiration > 0: // SET key value EX|PX
		e = f.expiring(e, expiration)
		f.logf("SET %s ex=%v", key, expiration)
	case expiration == redis.KeepTTL: // SET key value KEEPTTL
		if had {
			e.hasExp, e.expS, e.expNs = old.hasExp, old.expS, old.expNs
		}
		f.logf("SET %s KEEPTTL", key)
	default: // go-redis sends no expiry argument: the key becomes persistent
		f.logf("SET %s (no expiry, duration %v)", key, expiration)
	}
	f.place(key, e, false)
	return redis.NewStatusResult("OK", nil)
}

func (f *fakeRedis) SetNX(_ context.Context, key string, value interface{}, expiration time.Duration) *redis.BoolCmd {
	f.enter()
	defer f.mu.Unlock()
	f.logf("SETNX %s ex=%v", key, expiration)
	if expiration < 0 && expiration != redis.KeepTTL {
		// go-redis would send EX/PX with a negative number
		return redis.NewBoolResult(false, errors.New("ERR invalid expire time in 'set' command"))
	}
	if _, had := f.lookup(key); had {
		return redis.NewBoolResult(false, nil)
	}
	e := fakeEntry{val: asString(value)}
	if expiration > 0 {
		e = f.expiring(e, expiration)
	}
	f.place(key, e, false)
	return redis.NewBoolResult(true, nil)
}

func (f *fakeRedis) Get(_ context.Context, key string) *redis.StringCmd {
	f.enter()
	defer f.mu.Unlock()
	f.logf("GET %s", key)
	e, ok := f.lookup(key)
	if !ok {
		return redis.NewStringResult("", redis.Nil)
	}
	return redis.NewStringResult(e.val, nil)
}

func (f *fakeRedis) GetDel(_ context.Context, key string) *redis.StringCmd {
	f.enter()
	defer f.mu.Unlock()
	f.logf("GETDEL %s", key)
	e, ok := f.lookup(key)
	if !ok {
		return redis.NewStringResult("", redis.Nil)
	}
	f.drop(key)
	return redis.NewStringResult(e.val, nil)
}

func (f *fakeRedis) Expire(_ context.Context, key string, expiration time.Duration) *redis.BoolCmd {
	f.enter()
	defer f.mu.Unlock()
	f.logf("EXPIRE %s %v", key, expiration)
	e, ok := f.lookup(key)
	if !ok {
		return redis.NewBoolResult(false, nil)
	}
	if expiration <= 0 { // EXPIRE with a non-positive timeout deletes the key
		f.drop(key)
		return redis.NewBoolResult(true, nil)
	}
	f.data[key] = f.expiring(e, expiration) // the key keeps its slot
	return redis.NewBoolResult(true, nil)
}

func (f *fakeRedis) Del(_ context.Context, keys ...string) *redis.IntCmd {
	f.enter()
	defer f.mu.Unlock()
	f.logf("DEL %v", keys)
	var n int64
	for _, k := range keys {
		if _, ok := f.lookup(k); ok {
			f.drop(k)
			n++
		}
	}
	return redis.NewIntResult(n, nil)
}

// Scan answers like a Redis server: the returned ScanCmd carries its arguments
// and a process function, so that ScanCmd.Iterator() (which re-issues the
// command with the cursor of the previous reply) fetches the following pages
// from the fake, exactly as it would from a connection.
func (f *fakeRedis) Scan(ctx context.Context, cursor uint64, match string, count int64) *redis.ScanCmd {
	args := []interface{}{"scan", cursor}
	if match != "" {
		args = append(args, "match", match)
	}
	if count > 0 {
		args = append(args, "count", count)
	}
	cmd := redis.NewScanCmd(ctx, f.processScan, args...)
	_ = f.processScan(ctx, cmd)
	return cmd
}

func toUint64(v interface{}) (uint64, bool) {
	switch x := v.(type) {
	case uint64:
		return x, true
	case int64:
		return uint64(x), x >= 0
	case int:
		return uint64(x), x >= 0
	}
	return 0, false
}

// processScan executes one SCAN call: it examines the next `budget` slots from
// the cursor (the case's page size; a COUNT argument is checked for syntax and
// otherwise taken as the hint it is), returns the live keys
// among them that match, and the position to continue from - 0 once the table is
// exhausted. Keys present during a whole iteration are therefore returned once;
// keys deleted or added meanwhile may or may not be (as Redis documents).
func (f *fakeRedis) processScan(_ context.Context, c redis.Cmder) error {
	cmd, ok := c.(*redis.ScanCmd)
	if !ok {
		err := fmt.Errorf("fake redis: unexpected command %T through the scan path", c)
		c.SetErr(err)
		return err
	}
	args := cmd.Args()
	bad := func(why string) error {
		err := fmt.Errorf("ERR syntax error (%s) in %v", why, args)
		cmd.SetErr(err)
		return err
	}
	if len(args) < 2 || fmt.Sprint(args[0]) != "scan" {
		return bad("not a scan")
	}
	cursor, ok := toUint64(args[1])
	if !ok {
		return bad("cursor")
	}
	match, count := "", uint64(0)
	for i := 2; i+1 < len(args); i += 2 {
		switch fmt.Sprint(args[i]) {
		case "match":
			match = fmt.Sprint(args[i+1])
		case "count":
			if count, ok = toUint64(args[i+1]); !ok || count == 0 {
				return bad("count")
			}
		default:
			return bad("option")
		}
	}
	f.mu.Lock()
	defer f.mu.Unlock()
	budget := f.cfg.Page
	start := len(f.slots)
	if cursor < uint64(len(f.slots)) {
		start = int(cursor)
	}
	end := start + budget
	if end > len(f.slots) || end < start {
		end = len(f.slots)
	}
	keys := []string{}
	for i := start; i < end; i++ {
		k := f.slots[i]
		if k == "" {
			continue
		}
		if _, live := f.lookup(k); live && (match == "" || globMatch(match, k)) {
			keys = append(keys, k)
		}
	}
	next := uint64(end)
	if end >= len(f.slots) {
		next = 0
	}
	f.logf("SCAN %d MATCH %s COUNT %d -> %v next %d", cursor, match, count, keys, next)
	cmd.SetVal(keys, next)
	return nil
}

// ScanLayout tells, without changing anything, how many matching live keys each
// page of a complete SCAN iteration would carry right now (class labels only).
func (f *fakeRedis) ScanLayout(match string) []int {
	f.mu.Lock()
	defer f.mu.Unlock()
	var pages []int
	now := f.now()
	for start := 0; start < len(f.slots); start += f.cfg.Page {
		n := 0
		for i := start; i < start+f.cfg.Page && i < len(f.slots); i++ {
			k := f.slots[i]
			if k == "" {
				continue
			}
			if e := f.data[k]; !e.expired(now) && globMatch(match, k) {
				n++
			}
		}
		pages = append(pages, n)
	}
	return pages
}

// globMatch implements Redis' glob patterns (util.c, stringmatchlen, case sensitive): '*', '?', '[...]' classes with
// '^' negation, 'a-z' ranges and '\\' escapes inside, '\\' escapes outside, everything else literal.
func globMatch(p, s string) bool {
	for len(p) > 0 {
		switch p[0] {
		case '*':
			for len(p) > 1 && p[1] == '*' {
				p = p[1:]
			}
			if len(p) == 1 {
				return true
			}
			for i := 0; i <= len(s); i++ {
				if globMatch(p[1:], s[i:]) {
					return true
				}
			}
			return false
		case '?':
			if len(s) == 0 {
				return false
			}
			s = s[1:]
		case '[':
			if len(s) == 0 {
				return false
			}
			q := p[1:]
			not := len(q) > 0 && q[0] == '^'
			if not {
				q = q[1:]
			}
			match := false
			for {
				if len(q) >= 2 && q[0] == '\\' {
					q = q[1:]
					if q[0] == s[0] {
						match = true
					}
				} else if len(q) > 0 && q[0] == ']' {
					break
				} else if len(q) == 0 {
					// unterminated class: Redis steps back and ends the class at the end of the pattern
					break
				} else if len(q) >= 3 && q[1] == '-' {
					lo, hi := q[0], q[2]
					if lo > hi {
						lo, hi = hi, lo
					}
					q = q[2:]
					if s[0] >= lo && s[0] <= hi {
						match = true
					}
				} else if q[0] == s[0] {
					match = true
				}
				q = q[1:]
			}
			if not {
				match = !match
			}
			if !match {
				return false
			}
			s = s[1:]
			if len(q) == 0 {
				return len(s) == 0
			}
			p = q // q[0] == ']'
		case '\\':
			if len(p) >= 2 {
				p = p[1:]
			}
			fallthrough
		default:
			if len(s) == 0 || s[0] != p[0] {
				return false
			}
			s = s[1:]
		}
		p = p[1:]
		if len(s) == 0 {
			for len(p) > 0 && p[0] == '*' {
				p = p[1:]
			}
			break
		}
	}
	return len(p) == 0 && len(s) == 0
}
