package c05ttl

import (
	"context"
	"errors"
	"fmt"
	"runtime"
	"strings"
	"sync"
	"sync/atomic"

	"github.com/pinealctx/neptune/cache"
	"pgregory.net/rapid"

	"verifharness/vkit"
)

// ---------------------------------------------------------------------------
// part "race-oneshot": k goroutines Get(RemoveAfterGet) the same key at once.
// At most one of them may succeed; exactly one if the key is unexpired.

type OneShotCase struct {
	Impl    string `json:"impl"` // mem | rds
	Size    int    `json:"size"` // mem only; size-1 other keys are set first
	SetTTL  int64  `json:"set_ttl"`
	Dt      int64  `json:"dt"`      // clock advance between the Set and the race
	Getters int    `json:"getters"` // goroutines doing Get(RemoveAfterGet)
	Plain   int    `json:"plain"`   // goroutines doing a plain Get in the middle of it
	Procs   int    `json:"procs"`   // GOMAXPROCS
}

func GenOneShot(t *rapid.T) OneShotCase {
	c := OneShotCase{
		Impl:    rapid.SampledFrom([]string{"mem", "mem", "mem", "rds"}).Draw(t, "impl"),
		Size:    rapid.IntRange(1, 3).Draw(t, "size"),
		Getters: rapid.IntRange(2, 8).Draw(t, "getters"),
		Plain:   rapid.IntRange(0, 2).Draw(t, "plain"),
		Procs:   rapid.SampledFrom([]int{1, 2, 4, 8}).Draw(t, "procs"),
	}
	if c.Impl == "rds" {
		c.SetTTL = rapid.SampledFrom([]int64{1, 2, 5}).Draw(t, "set_ttl")
	} else {
		c.SetTTL = rapid.SampledFrom([]int64{-1, 0, 1, 2, 5}).Draw(t, "set_ttl")
	}
	switch rapid.IntRange(0, 5).Draw(t, "dtkind") {
	case 0: // expired
		c.Dt = c.SetTTL + 1
		if c.SetTTL <= 0 {
			c.Dt = 100
		}
	case 1: // exactly on the deadline (in-memory only)
		c.Dt = c.SetTTL
		if c.SetTTL <= 0 || c.Impl == "rds" {
			c.Dt = 0
		}
	default: // live
		c.Dt = 0
		if c.SetTTL > 1 {
			c.Dt = int64(rapid.IntRange(0, int(c.SetTTL-1)).Draw(t, "dt"))
		}
	}
	return c
}

func ExecOneShot(c OneShotCase) *vkit.Result {
	res := &vkit.Result{}
	if c.Getters < 1 || c.Getters > 64 || c.Plain < 0 || c.Plain > 64 || c.Size < 1 || c.Size > 64 || c.Procs < 1 || c.Procs > 64 || c.Dt < 0 || c.Dt > 1<<40 {
		res.Skip("malformed-case")
		return res
	}
	if c.Impl != "mem" && c.Impl != "rds" {
		res.Skip("unknown-impl")
		return res
	}
	if c.Impl == "rds" && (c.SetTTL <= 0 || c.Dt == c.SetTTL) {
		res.Skip("outside-the-differential-domain")
		return res
	}
	var clk int64 = t0
	clock := func() int64 { return atomic.LoadInt64(&clk) }
	restore := cache.VerifSetNow(clock)
	defer restore()
	defer runtime.GOMAXPROCS(runtime.GOMAXPROCS(c.Procs))
	ctx := context.Background()
	var tc cache.TTLCache
	if c.Impl == "mem" {
		tc = cache.NewTTLMemCache(c.Size, 10)
	} else {
		tc = cache.NewTTLRdsCache(newFakeRedis(clock, ScanCfg{}), rdsPrefix, 10)
	}
	for i := 1; i < c.Size; i++ {
		_ = tc.Set(ctx, fmt.Sprintf("other%d", i), []byte("x"))
	}
	const key, val = "k", "the-value"
	if err := tc.Set(ctx, key, []byte(val), cache.WithTTL(c.SetTTL)); err != nil {
		return res.Failf("race/oneshot/set", "Set returned %v", err)
	}
	atomic.AddInt64(&clk, c.Dt)
	state := "live"
	if c.SetTTL > 0 && c.Dt == c.SetTTL {
		state = "on-deadline"
	} else if c.SetTTL > 0 && c.Dt > c.SetTTL {
		state = "expired"
	}
	res.Class(state)
	res.Class(c.Impl)
	res.Class(fmt.Sprintf("procs=%d", c.Procs))

	n := c.Getters + c.Plain
	type out struct {
		v   []byte
		err error
	}
	outs := make([]out, n)
	start := make(chan struct{})
	var wg sync.WaitGroup
	for g := 0; g < n; g++ {
		wg.Add(1)
		go func(g int) {
			defer wg.Done()
			<-start
			if g < c.Getters {
				outs[g].v, outs[g].err = tc.Get(ctx, key, cache.WithRemoveAfterGet())
			} else {
				outs[g].v, outs[g].err = tc.Get(ctx, key)
			}
		}(g)
	}
	close(start)
	wg.Wait()

	succ := 0
	var desc []string
	for g, o := range outs {
		kind := "consume"
		if g >= c.Getters {
			kind = "plain"
		}
		desc = append(desc, fmt.Sprintf("%s:%s", kind, errName(o.err)))
		if o.err != nil && !errors.Is(o.err, cache.ErrTTLKeyNotFound) {
			return res.Failf("race/oneshot/error", "Get returned %v", o.err)
		}
		if o.err == nil {
			if string(o.v) != val {
				return res.Failf("race/oneshot/value", "a Get returned %q, the key holds %q", o.v, val)
			}
			if state == "expired" {
				return res.Failf("race/oneshot/expired-served", "%s Get hit although the ttl %d elapsed %d s ago", kind, c.SetTTL, c.Dt-c.SetTTL)
			}
			if g < c.Getters {
				succ++
			}
		}
	}
	if succ > 1 {
		return res.Failf("race/oneshot/double-consume", "%d of %d concurrent Get(RemoveAfterGet) succeeded on one key: %v", succ, c.Getters, desc)
	}
	if state == "live" && succ != 1 {
		return res.Failf("race/oneshot/lost", "no Get(RemoveAfterGet) of %d succeeded although the key is unexpired (ttl %d, %d s elapsed): %v", c.Getters, c.SetTTL, c.Dt, desc)
	}
	if v, err := tc.Get(ctx, key); err == nil {
		return res.Failf("race/oneshot/still-there", "after the race (%v) the key is still retrievable (%q)", desc, v)
	}
	res.NonTrivial = state == "live" && c.Getters >= 2
	return res
}

var PartOneShot = &vkit.Part[OneShotCase]{
	Property: Property, Name: "race-oneshot",
	Rule:  "rapid: implementation (mem 3/4, redis-backed over the mutex-guarded fake 1/4), size 1..3 (size-1 other keys set first), Set(k, ttl in {-1,0,1,2,5}), clock advanced to a live instant (2/3), exactly the deadline (mem only) or past it, then 2..8 goroutines Get(k, RemoveAfterGet) plus 0..2 plain Gets released together by one barrier, GOMAXPROCS in {1,2,4,8}, run in a -race binary. Oracle: at most one consuming Get succeeds, exactly one if unexpired, none (consuming or plain) if expired, every hit returns the value, the key is gone afterwards; the race detector is part of the oracle. Non-trivial: unexpired key and >= 2 consumers",
	Quick: 4000, Thorough: 30000,
	Gen: GenOneShot, Exec: ExecOneShot,
}

// ---------------------------------------------------------------------------
// part "race-stress": free-running goroutines execute generated programs on a
// shared in-memory cache. Oracle: race detector + invariants that hold under
// every interleaving.

type StressCase struct {
	Size  int    `json:"size"`
	TTL   int64  `json:"ttl"`
	Keys  int    `json:"keys"`
	Procs int    `json:"procs"`
	Progs [][]Op `json:"progs"`
}

func GenStress(t *rapid.T) StressCase {
	c := StressCase{
		Size:  rapid.IntRange(0, 3).Draw(t, "size"),
		TTL:   rapid.SampledFrom([]int64{0, 2, 10}).Draw(t, "ttl"),
		Keys:  rapid.IntRange(1, 3).Draw(t, "keys"),
		Procs: rapid.SampledFrom([]int{2, 4, 8}).Draw(t, "procs"),
	}
	g := rapid.IntRange(2, 4).Draw(t, "goroutines")
	for i := 0; i < g; i++ {
		n := rapid.IntRange(3, 16).Draw(t, "n")
		var prog []Op
		for j := 0; j < n; j++ {
			var o Op
			w := rapid.IntRange(0, 99).Draw(t, "kind")
			switch {
			case w < 40:
				o = Op{Kind: "set", Key: rapid.IntRange(0, c.Keys-1).Draw(t, "key")}
				if rapid.IntRange(0, 2).Draw(t, "has_ttl") == 2 {
					o.HasTTL, o.TTL = true, rapid.SampledFrom([]int64{0, 1, 3}).Draw(t, "sttl")
				}
				o.MNE = rapid.IntRange(0, 3).Draw(t, "mne") == 3
				o.Keep = rapid.IntRange(0, 4).Draw(t, "keep") == 4
			case w < 80:
				o = Op{Kind: "get", Key: rapid.IntRange(0, c.Keys-1).Draw(t, "key")}
				switch rapid.IntRange(0, 5).Draw(t, "gopt") {
				case 3, 4, 5:
					o.RAG = true
				case 2:
					o.Upd, o.TTL = true, rapid.SampledFrom([]int64{0, 2}).Draw(t, "uttl")
				}
			case w < 88:
				o = Op{Kind: "remove", Key: rapid.IntRange(0, c.Keys-1).Draw(t, "key")}
			case w < 91:
				o = Op{Kind: "clear"}
			default:
				o = Op{Kind: "advance", Dt: int64(rapid.IntRange(0, 2).Draw(t, "dt"))}
			}
			prog = append(prog, o)
		}
		c.Progs = append(c.Progs, prog)
	}
	return c
}

func stressValue(g, i int) string { return fmt.Sprintf("g%d.%d", g, i) }

func ExecStress(c StressCase) *vkit.Result {
	res := &vkit.Result{}
	if c.Size < 0 || c.Size > 64 || c.Keys < 1 || c.Keys > maxKeys || c.Procs < 1 || c.Procs > 64 || len(c.Progs) > 16 {
		res.Skip("malformed-case")
		return res
	}
	var clk int64 = t0
	restore := cache.VerifSetNow(func() int64 { return atomic.LoadInt64(&clk) })
	defer restore()
	defer runtime.GOMAXPROCS(runtime.GOMAXPROCS(c.Procs))
	ctx := context.Background()
	tc := cache.NewTTLMemCache(c.Size, c.TTL)

	// which key each value was stored under
	owner := map[string]int{}
	for g, prog := range c.Progs {
		for i, o := range prog {
			if o.Kind == "set" && o.Key >= 0 && o.Key < c.Keys {
				owner[stressValue(g, i)] = o.Key
			}
		}
	}
	type rec struct {
		ran bool
		v   []byte
		err error
	}
	recs := make([][]rec, len(c.Progs))
	start := make(chan struct{})
	var wg sync.WaitGroup
	for g := range c.Progs {
		recs[g] = make([]rec, len(c.Progs[g]))
		wg.Add(1)
		go func(g int) {
			defer wg.Done()
			<-start
			for i, o := range c.Progs[g] {
				r := &recs[g][i]
				if (o.Kind == "set" || o.Kind == "get" || o.Kind == "remove") && (o.Key < 0 || o.Key >= c.Keys) {
					continue
				}
				r.ran = true
				switch o.Kind {
				case "set":
					r.err = tc.Set(ctx, keyName(o.Key), []byte(stressValue(g, i)), setOpts(o)...)
				case "get":
					r.v, r.err = tc.Get(ctx, keyName(o.Key), getOpts(o)...)
				case "remove":
					r.err = tc.Remove(ctx, keyName(o.Key))
				case "clear":
					tc.Clear(ctx)
				case "advance":
					if o.Dt >= 0 && o.Dt <= 1000 {
						atomic.AddInt64(&clk, o.Dt)
					}
				default:
					r.ran = false
				}
			}
		}(g)
	}
	close(start)
	wg.Wait()

	consumed := map[string]int{}
	hits, consumes := 0, 0
	show := func() string {
		var sb strings.Builder
		for g, prog := range c.Progs {
			fmt.Fprintf(&sb, "\n g%d:", g)
			for i, o := range prog {
				r := recs[g][i]
				switch {
				case !r.ran:
					fmt.Fprintf(&sb, " %s=skipped", o)
				case o.Kind == "get" && r.err == nil:
					fmt.Fprintf(&sb, " %s=%q", o, r.v)
				default:
					fmt.Fprintf(&sb, " %s=%s", o, errName(r.err))
				}
			}
		}
		return sb.String()
	}
	for g, prog := range c.Progs {
		for i, o := range prog {
			r := recs[g][i]
			if !r.ran {
				res.Skip("op-not-run")
				continue
			}
			switch o.Kind {
			case "set":
				if r.err != nil && !(o.MNE && errors.Is(r.err, cache.ErrTTLKeyExists)) {
					return res.Failf("race/stress/set-error", "g%d %s returned %v%s", g, o, r.err, show())
				}
			case "remove":
				if r.err != nil {
					return res.Failf("race/stress/remove-error", "g%d %s returned %v%s", g, o, r.err, show())
				}
			case "get":
				if r.err != nil {
					if !errors.Is(r.err, cache.ErrTTLKeyNotFound) {
						return res.Failf("race/stress/get-error", "g%d %s returned %v%s", g, o, r.err, show())
					}
					continue
				}
				hits++
				k, known := owner[string(r.v)]
				if !known || k != o.Key {
					return res.Failf("race/stress/value", "g%d %s returned %q, which no Set ever stored under that key%s", g, o, r.v, show())
				}
				if c.Size == 0 {
					return res.Failf("race/stress/bound", "g%d %s hit although size is 0%s", g, o, show())
				}
				if o.RAG {
					consumes++
					consumed[string(r.v)]++
					if consumed[string(r.v)] > 1 {
						return res.Failf("race/stress/double-consume", "the value %q (stored by one Set) was handed out by two successful Get(RemoveAfterGet)%s", r.v, show())
					}
				}
			}
		}
	}
	// quiescent end state
	live := 0
	for k := 0; k < c.Keys; k++ {
		v, err := tc.Get(ctx, keyName(k))
		if err == nil {
			live++
			if kk, known := owner[string(v)]; !known || kk != k {
				return res.Failf("race/stress/value", "final probe of k%d returned %q, which no Set stored under that key%s", k, v, show())
			}
		} else if !errors.Is(err, cache.ErrTTLKeyNotFound) {
			return res.Failf("race/stress/get-error", "final probe of k%d returned %v", k, err)
		}
	}
	if live > c.Size {
		return res.Failf("race/stress/bound", "%d keys retrievable at the end, size is %d%s", live, c.Size, show())
	}
	tc.Clear(ctx)
	for k := 0; k < c.Keys; k++ {
		if v, err := tc.Get(ctx, keyName(k)); err == nil {
			return res.Failf("race/stress/clear", "k%d still retrievable (%q) after Clear%s", k, v, show())
		}
	}
	if hits > 0 {
		res.Class("hits")
	}
	if consumes > 0 {
		res.Class("consumes")
	}
	if c.Size == 0 {
		res.Class("size-0")
	}
	res.Class(fmt.Sprintf("procs=%d", c.Procs))
	res.NonTrivial = len(c.Progs) >= 2 && hits > 0
	return res
}

var PartStress = &vkit.Part[StressCase]{
	Property: Property, Name: "race-stress",
	Rule:  "rapid: in-memory cache of size 0..3, default ttl in {0,2,10}, 1..3 keys, 2..4 free-running goroutines x 3..16 ops (Set with every option 40%, Get 40% half of them remove-after-get, Remove, Clear, clock advance 0..2 through an atomic), GOMAXPROCS in {2,4,8}, released by one barrier, run in a -race binary. Oracle (valid under every interleaving): race detector; only allowed errors; every hit returns a value some Set stored under that very key; a stored value is consumed by at most one successful remove-after-get; no hit at size 0; at quiescence at most size keys are retrievable and none after Clear. Non-trivial: >= 2 goroutines and at least one hit",
	Quick: 1500, Thorough: 12000,
	Gen: GenStress, Exec: ExecStress,
}
